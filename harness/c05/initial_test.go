package c05

import (
	"fmt"
	"testing"

	"pgregory.net/rapid"

	quic "github.com/refraction-networking/uquic"
	"github.com/refraction-networking/uquic/internal/handshake"
	"github.com/refraction-networking/uquic/internal/protocol"
	"github.com/refraction-networking/uquic/internal/wire"
	"github.com/refraction-networking/uquic/verif/refcrypto"
	"github.com/refraction-networking/uquic/verif/vf"
)

// (a) Initial keys: a packet sealed by handshake.NewInitialAEAD + the packer's encryptPacket step opens in
// refcrypto to the same header and payload, and a packet protected by refcrypto opens in the real
// packetUnpacker with the peer's NewInitialAEAD opener; when both encoders use the same header bytes the two
// protected packets are byte-identical.

type InitialCase struct {
	V       int    `json:"v"`       // 1 | 2
	KeyDCID B      `json:"keydcid"` // Destination Connection ID of the client's first Initial (key derivation input)
	DCID    B      `json:"dcid"`    // header fields
	SCID    B      `json:"scid"`
	Token   B      `json:"token"`
	Sender  string `json:"sender"` // client | server
	PNLen   int    `json:"pnlen"`
	PN      uint64 `json:"pn"`
	Largest int64  `json:"largest"` // largest packet number the receiver has processed; -1 none
	PayLen  int    `json:"paylen"`
	Seed    uint64 `json:"seed"`
	Trail   int    `json:"trail"`    // bytes following the packet in the datagram (coalesced data)
	LenVar  int    `json:"lenbytes"` // varint size of the Length field used by the independent encoder (2 = same as the repo)
	// Type "initial": keys from KeyDCID. Types "handshake" / "0rtt": long header sealer/opener built by the hook
	// constructors (as cryptoSetup.setReadKey/setWriteKey do) from Suite and Secret.
	Type   string `json:"type"`
	Suite  uint16 `json:"suite,omitempty"`
	Secret B      `json:"secret,omitempty"`
	Flips  []int  `json:"flips"` // bit positions (mod packet bits) flipped in the protected packet; each must be rejected
}

const maxPayload = 1452

func genCID(t *rapid.T, label string) B {
	switch rapid.IntRange(0, 9).Draw(t, label+"-mode") {
	case 0:
		return B{}
	case 1:
		return B(rapid.SliceOfN(rapid.Byte(), 20, 20).Draw(t, label))
	case 2, 3:
		return B(rapid.SliceOfN(rapid.Byte(), 8, 8).Draw(t, label))
	default:
		return B(rapid.SliceOfN(rapid.Byte(), 0, 20).Draw(t, label))
	}
}

// genPNPair draws (largest, pn) such that pn is decodable with pnLen bytes: largest+1 <= pn <= largest+hwin.
func genPNPair(t *rapid.T, pnLen int) (int64, uint64) {
	hwin := int64(1) << (8*uint(pnLen) - 1)
	var largest int64 = -1
	if rapid.IntRange(0, 3).Draw(t, "have-largest") != 0 {
		bits := rapid.IntRange(0, 61).Draw(t, "largest-bits")
		largest = rapid.Int64Range(int64(1)<<uint(bits)>>1, int64(1)<<uint(bits)).Draw(t, "largest")
		if largest > int64(refcrypto.MaxPN)-hwin-1 {
			largest = int64(refcrypto.MaxPN) - hwin - 1
		}
	}
	var delta int64
	switch rapid.IntRange(0, 5).Draw(t, "delta-mode") {
	case 0:
		delta = 0
	case 1:
		delta = hwin - 1
	case 2:
		delta = rapid.Int64Range(0, min(hwin-1, 3)).Draw(t, "delta-small")
	default:
		delta = rapid.Int64Range(0, hwin-1).Draw(t, "delta")
	}
	return largest, uint64(largest + 1 + delta)
}

func genPayLen(t *rapid.T, pnLen int) int {
	minPay := max(1, 4-pnLen) // 4-pnLen yields the sample; the unpacker rejects empty payloads
	switch rapid.IntRange(0, 7).Draw(t, "paylen-mode") {
	case 0:
		return minPay
	case 1:
		return maxPayload
	case 2:
		return rapid.IntRange(minPay, minPay+20).Draw(t, "paylen-small")
	case 3:
		return rapid.IntRange(maxPayload-20, maxPayload).Draw(t, "paylen-big")
	default:
		return rapid.IntRange(minPay, maxPayload).Draw(t, "paylen")
	}
}

func genInitial(t *rapid.T) InitialCase {
	c := InitialCase{}
	c.V = rapid.IntRange(1, 2).Draw(t, "v")
	c.KeyDCID = genCID(t, "keydcid")
	c.Sender = rapid.SampledFrom([]string{"client", "server"}).Draw(t, "sender")
	if c.Sender == "client" && rapid.Bool().Draw(t, "dcid-is-key") {
		c.DCID = append(B{}, c.KeyDCID...)
	} else {
		c.DCID = genCID(t, "dcid")
	}
	c.SCID = genCID(t, "scid")
	c.Token = B{}
	if c.Sender == "client" && rapid.IntRange(0, 2).Draw(t, "has-token") == 0 {
		c.Token = B(rapid.SliceOfN(rapid.Byte(), 1, 80).Draw(t, "token"))
	}
	c.PNLen = rapid.IntRange(1, 4).Draw(t, "pnlen")
	c.Largest, c.PN = genPNPair(t, c.PNLen)
	c.PayLen = genPayLen(t, c.PNLen)
	c.Seed = rapid.Uint64().Draw(t, "seed")
	c.Trail = rapid.SampledFrom([]int{0, 0, 0, 1, 30, 200}).Draw(t, "trail")
	c.LenVar = rapid.SampledFrom([]int{2, 2, 2, 0, 4, 8}).Draw(t, "lenbytes")
	c.Type = rapid.SampledFrom([]string{"initial", "initial", "initial", "handshake", "0rtt"}).Draw(t, "type")
	if c.Type != "initial" {
		c.Token = B{}
		c.Suite = rapid.SampledFrom(refcrypto.Suites).Draw(t, "suite")
		n := refcrypto.HashLen(c.Suite)
		c.Secret = B(rapid.SliceOfN(rapid.Byte(), n, n).Draw(t, "secret"))
		if c.Type == "0rtt" {
			c.Sender = "client"
		}
	}
	nf := rapid.IntRange(0, 4).Draw(t, "nflips")
	for i := 0; i < nf; i++ {
		c.Flips = append(c.Flips, rapid.IntRange(0, 1<<20).Draw(t, "flip"))
	}
	return c
}

// primeLongOpener makes a long header opener's highest received packet number equal to largest by letting it
// open a genuine packet with that number (sealed by refcrypto with the sender's keys).
func primeLongOpener(o handshake.LongHeaderOpener, k *refcrypto.Keys, largest int64) error {
	if largest < 0 {
		return nil
	}
	ad := []byte{0xc0, 1, 2, 3}
	ct := k.Seal(uint64(largest), ad, []byte{0x01})
	_, err := o.Open(nil, ct, protocol.PacketNumber(largest), ad)
	return err
}

func checkInitial(c InitialCase, u *vf.Unit) *vf.Verdict {
	pv, rv := protoVersion(c.V), refVersion(c.V)
	keyCID := protocol.ParseConnectionID(c.KeyDCID)
	sendPers, rcvPers := protocol.PerspectiveClient, protocol.PerspectiveServer
	if c.Sender == "server" {
		sendPers, rcvPers = rcvPers, sendPers
	}
	var sealer handshake.LongHeaderSealer
	var sendKeys *refcrypto.Keys
	ptype, ltype, wantLvl := protocol.PacketTypeInitial, ltInitial, protocol.EncryptionInitial
	switch c.Type {
	case "handshake":
		ptype, ltype, wantLvl = protocol.PacketTypeHandshake, ltHandshake, protocol.EncryptionHandshake
	case "0rtt":
		ptype, ltype, wantLvl = protocol.PacketType0RTT, ltZeroRTT, protocol.Encryption0RTT
	}
	if c.Type == "initial" || c.Type == "" {
		sealer, _ = handshake.NewInitialAEAD(keyCID, sendPers, pv)
		ck, sk := refcrypto.InitialKeys(rv, c.KeyDCID)
		sendKeys = ck
		if c.Sender == "server" {
			sendKeys = sk
		}
	} else {
		sealer = handshake.VerifNewLongHeaderSealer(c.Suite, c.Secret, pv)
		sendKeys = refcrypto.DeriveKeys(c.Suite, rv, c.Secret)
	}
	newOpener := func() (handshake.LongHeaderOpener, *fakeCS) {
		switch c.Type {
		case "handshake":
			o := handshake.VerifNewLongHeaderOpener(c.Suite, c.Secret, pv)
			return o, &fakeCS{hs: o}
		case "0rtt":
			o := handshake.VerifNewLongHeaderOpener(c.Suite, c.Secret, pv)
			return o, &fakeCS{zero: o}
		}
		_, o := handshake.NewInitialAEAD(keyCID, rcvPers, pv)
		return o, &fakeCS{initial: o}
	}
	payload := expand(c.Seed, c.PayLen)
	trail := expand(c.Seed+1, c.Trail)
	length := c.PNLen + c.PayLen + refcrypto.TagLen

	// --- direction 1: repo protects, refcrypto (and the repo's peer) open ---
	ext := &wire.ExtendedHeader{
		Header: wire.Header{
			Type:             ptype,
			Version:          pv,
			DestConnectionID: protocol.ParseConnectionID(c.DCID),
			SrcConnectionID:  protocol.ParseConnectionID(c.SCID),
			Token:            c.Token,
			Length:           protocol.ByteCount(length),
		},
		PacketNumber:    protocol.PacketNumber(c.PN),
		PacketNumberLen: protocol.PacketNumberLen(c.PNLen),
	}
	raw, err := ext.Append(make([]byte, 0, 2048), pv)
	if err != nil {
		return vf.Bad("C05/initial/header-append", "ExtendedHeader.Append: %v", err)
	}
	payloadOffset := len(raw)
	plainHdr := append([]byte{}, raw...)
	raw = append(raw, payload...)
	enc := quic.VerifEncryptPacket(raw, sealer, protocol.PacketNumber(c.PN), protocol.ByteCount(payloadOffset), protocol.ByteCount(c.PNLen))
	if len(enc) != payloadOffset+c.PayLen+refcrypto.TagLen {
		return vf.Bad("C05/initial/sealed-length", "encrypted packet has %d bytes, want %d", len(enc), payloadOffset+c.PayLen+16)
	}
	if sealer.Overhead() != refcrypto.TagLen {
		return vf.Bad("C05/initial/sealed-length", "Overhead() = %d", sealer.Overhead())
	}
	pkt := append(append([]byte{}, enc...), trail...)

	h, pnOff, end, perr := parseLongHeader(pkt)
	if perr != nil {
		return vf.Bad("C05/initial/header-mismatch", "independent parser rejects the repo's header: %v (%s)", perr, hx(pkt))
	}
	if pnOff != payloadOffset-c.PNLen || end != len(enc) || h.Version != rv || h.Type != ltype ||
		!eqBytes(h.DCID, c.DCID) || !eqBytes(h.SCID, c.SCID) || !eqBytes(h.Token, c.Token) || h.Length != uint64(length) {
		return vf.Bad("C05/initial/header-mismatch", "header fields on the wire differ: parsed %+v pnOffset %d end %d, want pnOffset %d end %d", h, pnOff, end, payloadOffset-c.PNLen, len(enc))
	}
	rh, rpn, rpl, rpay, rerr := refcrypto.Unprotect(sendKeys, pkt[:end], pnOff, c.Largest)
	if rerr != nil {
		return vf.Bad("C05/initial/ref-cannot-open-repo-packet", "RFC 9001/9369 keys for version %d, DCID %x (%s) do not open the packet protected by NewInitialAEAD: %v", c.V, []byte(c.KeyDCID), c.Sender, rerr)
	}
	if !eqBytes(rh, plainHdr) || rpn != c.PN || rpl != c.PNLen {
		return vf.Bad("C05/initial/header-mismatch", "unprotected header %s pn %d len %d, want %s pn %d len %d", hx(rh), rpn, rpl, hx(plainHdr), c.PN, c.PNLen)
	}
	if !eqBytes(rpay, payload) {
		return vf.Bad("C05/initial/payload-mismatch", "refcrypto opened a different payload")
	}

	// the repo's own peer opens it through the real unpacker
	open := func(p []byte, sig string) *vf.Verdict {
		opener, cs := newOpener()
		if err := primeLongOpener(opener, sendKeys, c.Largest); err != nil {
			return vf.Bad("C05/initial/repo-cannot-open-ref-packet", "priming packet (pn %d) sealed by refcrypto rejected: %v", c.Largest, err)
		}
		// a forged packet with a far-away packet number must not move the receiver's decoding window
		if _, err := opener.Open(nil, expand(c.Seed+8, 40), protocol.PacketNumber(c.PN+(1<<40))&protocol.PacketNumber(refcrypto.MaxPN), []byte{0xc0, 9}); err == nil {
			return vf.Bad("C05/tamper/accepted-modified-packet", "Initial opener accepted 40 random bytes")
		}
		unp := quic.VerifNewPacketUnpacker(cs, 0)
		hdr, data, rest, err := wire.ParsePacket(append([]byte{}, p...))
		if err != nil {
			return vf.Bad("C05/initial/header-mismatch", "wire.ParsePacket: %v", err)
		}
		if !eqBytes(rest, trail) {
			return vf.Bad("C05/initial/header-mismatch", "ParsePacket cut the packet at the wrong place: %d trailing bytes, want %d", len(rest), len(trail))
		}
		eh, lvl, pl, err := unp.UnpackLongHeader(hdr, data)
		if err != nil {
			return vf.Bad(sig, "packetUnpacker.UnpackLongHeader (version %d, %s %s, pn %d len %d, largest %d, payload %d bytes): %v", c.V, c.Sender, c.Type, c.PN, c.PNLen, c.Largest, c.PayLen, err)
		}
		if lvl != wantLvl || eh.Type != ptype || eh.Version != pv ||
			!eqBytes(eh.DestConnectionID.Bytes(), c.DCID) || !eqBytes(eh.SrcConnectionID.Bytes(), c.SCID) || !eqBytes(eh.Token, c.Token) ||
			eh.PacketNumber != protocol.PacketNumber(c.PN) || int(eh.PacketNumberLen) != c.PNLen || int(eh.Length) != length {
			return vf.Bad("C05/initial/header-mismatch", "unpacked header differs: type %v version %v dcid %x scid %x token %x pn %d len %d length %d", eh.Type, eh.Version,
				eh.DestConnectionID.Bytes(), eh.SrcConnectionID.Bytes(), eh.Token, eh.PacketNumber, eh.PacketNumberLen, eh.Length)
		}
		if !eqBytes(pl, payload) {
			return vf.Bad("C05/initial/payload-mismatch", "unpacker returned a different payload")
		}
		return nil
	}
	if v := open(pkt, "C05/initial/repo-roundtrip"); v != nil {
		return v
	}

	// --- direction 2: refcrypto protects (independent header encoder), the repo's unpacker opens ---
	hdr2, pnOff2 := encodeLongHeader(longHdr{Version: rv, Type: ltype, DCID: c.DCID, SCID: c.SCID, Token: c.Token, Length: uint64(length)}, c.PNLen, c.PN, c.LenVar)
	pkt2 := refcrypto.Protect(sendKeys, hdr2, pnOff2, c.PNLen, c.PN, payload)
	if c.LenVar == 2 && !eqBytes(pkt2, enc) {
		return vf.Bad("C05/initial/bytes-differ", "same header, keys and payload but different protected bytes:\nrepo %s\nref  %s", hx(enc), hx(pkt2))
	}
	pkt2 = append(pkt2, trail...)
	if v := open(pkt2, "C05/initial/repo-cannot-open-ref-packet"); v != nil {
		return v
	}

	// --- any single bit flipped inside the protected packet (header, connection IDs, token, length, protected
	// bits, packet number, ciphertext, tag) makes the packet undecodable; it is never opened ---
	for _, f := range c.Flips {
		mut := append([]byte{}, pkt...)
		bit := f % (8 * end)
		mut[bit/8] ^= 1 << uint(bit%8)
		opener, cs := newOpener()
		if err := primeLongOpener(opener, sendKeys, c.Largest); err != nil {
			return vf.Bad("C05/initial/repo-cannot-open-ref-packet", "priming failed: %v", err)
		}
		hdr, data, _, err := wire.ParsePacket(mut)
		if err != nil {
			u.Class("flip-unparseable")
			continue
		}
		if eh, _, pl, err := quic.VerifNewPacketUnpacker(cs, 0).UnpackLongHeader(hdr, data); err == nil {
			return vf.Bad("C05/tamper/accepted-modified-packet", "%s packet (version %d) with bit %d flipped was opened: pn %d payload %s (original pn %d)", c.Type, c.V, bit, eh.PacketNumber, hx(pl), c.PN)
		}
		u.Class("flip-rejected")
	}

	u.Class(fmt.Sprintf("v%d", c.V))
	u.Class(c.Sender)
	u.Class("type-" + c.Type)
	u.Class(fmt.Sprintf("pnlen%d", c.PNLen))
	u.Class(fmt.Sprintf("keydcid-len-%d", len(c.KeyDCID)))
	if c.PayLen == max(1, 4-c.PNLen) {
		u.Class("min-payload")
	}
	if c.PayLen == maxPayload {
		u.Class("max-payload")
	}
	if c.Largest < 0 {
		u.Class("first-packet")
	}
	if c.PN > 1<<32 {
		u.Class("pn-above-2^32")
	}
	if len(c.Token) > 0 {
		u.Class("token")
	}
	if c.Trail > 0 {
		u.Class("coalesced")
	}
	u.NonTrivial("initial", c.V, []byte(c.KeyDCID), c.Sender, c.PN, c.PNLen, c.PayLen, c.Seed)
	return nil
}

func TestInitial(t *testing.T) {
	vf.RunRapid(t, "initial", genInitial, checkInitial)
}
