package c05

import (
	"errors"
	"fmt"
	"testing"

	"pgregory.net/rapid"

	quic "github.com/refraction-networking/uquic"
	"github.com/refraction-networking/uquic/internal/handshake"
	"github.com/refraction-networking/uquic/internal/monotime"
	"github.com/refraction-networking/uquic/internal/protocol"
	"github.com/refraction-networking/uquic/internal/qerr"
	"github.com/refraction-networking/uquic/internal/utils"
	"github.com/refraction-networking/uquic/internal/wire"
	"github.com/refraction-networking/uquic/verif/refcrypto"
	"github.com/refraction-networking/uquic/verif/vf"
)

// (e') Packet number recovery over a HISTORY of one packet number space, per opener kind.
//
// The stateless pn units check DecodePacketNumber as a function; the `initial` unit opens ONE packet after
// priming the opener with ONE earlier packet. Neither exercises the state the openers keep between packets
// (longHeaderOpener.highestRcvdPN, aead.go:55/84; updatableAEAD.highestRcvdPN, updatable_aead.go:51/196), which
// RFC 9000 A.3 defines as "the largest packet number that has been successfully processed in the current packet
// number space". This unit runs a sender / network / receiver history:
//
//   sender    an independent (refcrypto) or the repository's own long header sealer; packet numbers increase by
//             >= 1 (RFC 9000 12.3; numbers in between are packets that were sent and lost); the packet number
//             length is what the repository's sender picks (protocol.PacketNumberLengthForHeader(pn, largestAcked),
//             sent_packet_handler.go PeekPacketNumber), the RFC 9000 A.2 minimum, or a forced 1..4 bytes whenever
//             that is legal per A.2 (other stacks do send 1-byte numbers); 1-RTT: key updates when RFC 9001 6.1
//             permits (an acknowledgement for a packet of the current phase)
//   network   delivers in any order (newest first, oldest first, random), keeps stragglers for the whole history,
//             duplicates, loses, and injects forged packets (valid header protection, broken tag) with far-away numbers
//   receiver  the real packetUnpacker over the real opener of that kind (Initial: NewInitialAEAD; Handshake /
//             0-RTT: newLongHeaderOpener via the hook; 1-RTT: updatableAEAD via the hook), acknowledging only
//             what it opened; largestAcked at the sender advances only through those acknowledgements
//
// Oracle (model: R = largest successfully opened number, -1 if none; RFC 9000 A.3 on (R, truncated, len)):
//   * a delivered packet for which A.3 yields the true number (which A.2 guarantees whenever the packet is not
//     a straggler from far below R) and whose keys the receiver still has must open to the true number, length
//     and payload; otherwise it must be rejected - never opened to something else;
//   * after every step the opener's DecodePacketNumber answers as A.3 does for R on the packets an honest sender
//     could send next (R+1; R+2^(8k-1), legal once R is acknowledged; the lower window edges), i.e. the decoding
//     state is a function of the largest successfully opened number only; failed opens do not move it.

const phUnit = "pn-history"

type PHParams struct {
	Kind   string `json:"kind"` // initial | handshake | 0rtt | 1rtt
	V      int    `json:"v"`
	Suite  uint16 `json:"suite"`
	Seed   uint64 `json:"seed"`
	Start  int64  `json:"start"`  // -1: fresh space. Otherwise the receiver processed and acknowledged packet Start before the history begins
	Sealer string `json:"sealer"` // ref | repo (long header kinds only)
	Server bool   `json:"server"` // the sender is the server (Initial / Handshake)
	CIDLen int    `json:"cidlen"`
	KUI    uint64 `json:"kui,omitempty"` // 1-RTT: the receiver itself initiates key updates after KUI packets sent/received in a phase (0: never)
}

type PHOp struct {
	K      string `json:"k"`             // send | deliver | dup | ack | update | forge | nop
	Gap    int64  `json:"gap,omitempty"` // send: the packet number is nextPN+Gap-1 (Gap-1 numbers were sent and lost, or skipped)
	Len    int    `json:"len,omitempty"` // send: 0 repo sender's choice; 1..4 forced when legal (else A.2 minimum); 5 A.2 minimum
	PayLen int    `json:"paylen,omitempty"`
	Idx    int    `json:"idx,omitempty"` // deliver: index in flight; dup: index in opened; ack: selects the acknowledged number
	Far    int64  `json:"far,omitempty"` // forge: distance above the receiver's largest
	Bit    int    `json:"bit,omitempty"` // forge: key phase bit (1-RTT)
}

type phPkt struct {
	pn      int64
	l       int
	gen     int
	la      int64 // sender's largest acked when the packet was built
	ackRcv  int64 // 1-RTT: largest packet of the receiver the sender had seen (and acknowledges in this packet); -1 none
	data    []byte
	payload []byte
}

type phMachine struct {
	p   PHParams
	pv  protocol.Version
	rv  uint32
	cid []byte // 1-RTT DCID
	lh  longHdr

	// sender
	keys       []*refcrypto.Keys // by generation (long header kinds: one)
	repoSealer handshake.LongHeaderSealer
	nextPN     int64
	la         int64
	gen        int
	ackedGen   int // largest generation of an acknowledged packet (-1 none)
	flight     []*phPkt

	// receiver (implementation)
	unp      *quic.VerifPacketUnpacker
	long     handshake.LongHeaderOpener
	short    handshake.VerifUpdatableAEAD
	rcvPN    int64 // packet numbers of the receiver's own (ACK carrying) 1-RTT packets
	rcvAcked int64 // largest of those the sender acknowledged in a packet the receiver opened (handed to SetLargestAcked)

	// receiver (model)
	r          int64 // largest successfully opened
	lastOpened int64
	rgen       int
	opened     []*phPkt // distinct opened packets, in order of arrival

	// bookkeeping
	cls                                                                   map[string]bool
	nOpened, nReorder, nFarStraggler, nDup, nRejected, nForged, nEdgeSent int
	lens                                                                  [5]bool
}

func phHwin(l int) int64 { return int64(1) << (8*uint(l) - 1) }

func genPHParams(t *rapid.T) PHParams {
	p := PHParams{}
	p.Kind = rapid.SampledFrom([]string{"initial", "handshake", "0rtt", "1rtt", "1rtt"}).Draw(t, "kind")
	p.V = rapid.IntRange(1, 2).Draw(t, "v")
	p.Suite = refcrypto.TLS_AES_128_GCM_SHA256
	if p.Kind != "initial" {
		p.Suite = rapid.SampledFrom(refcrypto.Suites).Draw(t, "suite")
	}
	p.Seed = rapid.Uint64().Draw(t, "seed")
	p.Start = -1
	switch rapid.IntRange(0, 5).Draw(t, "start-mode") {
	case 0, 1:
	case 2:
		p.Start = rapid.Int64Range(0, 70000).Draw(t, "start-small")
	case 3:
		// around 2^31 / 2^32, where 4-byte truncation wraps
		b := rapid.SampledFrom([]int64{1 << 31, 1 << 32, 1<<32 + 1<<31}).Draw(t, "start-base")
		p.Start = b + rapid.Int64Range(-70000, 70000).Draw(t, "start-off")
	default:
		bits := rapid.IntRange(1, 56).Draw(t, "start-bits")
		p.Start = rapid.Int64Range(int64(1)<<uint(bits-1), int64(1)<<uint(bits)).Draw(t, "start")
	}
	p.Sealer = "ref"
	if p.Kind != "1rtt" && rapid.IntRange(0, 2).Draw(t, "repo-sealer") == 0 {
		p.Sealer = "repo"
	}
	p.Server = rapid.Bool().Draw(t, "server")
	if p.Kind == "0rtt" {
		p.Server = false
	}
	p.CIDLen = rapid.SampledFrom([]int{0, 4, 8, 20}).Draw(t, "cidlen")
	if p.Kind == "1rtt" && rapid.Bool().Draw(t, "receiver-updates") {
		p.KUI = uint64(rapid.IntRange(1, 3).Draw(t, "kui"))
	}
	return p
}

var phRcvTime = monotime.Time(5_000_000_000)

func newPHMachine(p PHParams) vf.Machine[PHOp] {
	m := &phMachine{p: p, pv: protoVersion(p.V), rv: refVersion(p.V), la: -1, r: -1, lastOpened: -1, ackedGen: -1, rcvAcked: -1, cls: map[string]bool{}}
	switch p.Kind {
	case "initial":
		keyDCID := expand(p.Seed+3, 8)
		sendPers, rcvPers := protocol.PerspectiveClient, protocol.PerspectiveServer
		if p.Server {
			sendPers, rcvPers = rcvPers, sendPers
		}
		ck, sk := refcrypto.InitialKeys(m.rv, keyDCID)
		if p.Server {
			m.keys = []*refcrypto.Keys{sk}
		} else {
			m.keys = []*refcrypto.Keys{ck}
		}
		cid := protocol.ParseConnectionID(keyDCID)
		m.repoSealer, _ = handshake.NewInitialAEAD(cid, sendPers, m.pv)
		_, m.long = handshake.NewInitialAEAD(cid, rcvPers, m.pv)
		m.unp = quic.VerifNewPacketUnpacker(&fakeCS{initial: m.long}, 0)
		m.lh = longHdr{Version: m.rv, Type: ltInitial, DCID: keyDCID, SCID: expand(p.Seed+4, p.CIDLen), Token: []byte{}}
	case "handshake", "0rtt":
		secret := expand(p.Seed+1, refcrypto.HashLen(p.Suite))
		m.keys = []*refcrypto.Keys{refcrypto.DeriveKeys(p.Suite, m.rv, secret)}
		m.repoSealer = handshake.VerifNewLongHeaderSealer(p.Suite, secret, m.pv)
		m.long = handshake.VerifNewLongHeaderOpener(p.Suite, secret, m.pv)
		m.lh = longHdr{Version: m.rv, Type: ltHandshake, DCID: expand(p.Seed+5, 8), SCID: expand(p.Seed+4, p.CIDLen)}
		if p.Kind == "0rtt" {
			m.lh.Type = ltZeroRTT
			m.unp = quic.VerifNewPacketUnpacker(&fakeCS{zero: m.long}, 0)
		} else {
			m.unp = quic.VerifNewPacketUnpacker(&fakeCS{hs: m.long}, 0)
		}
	default: // 1rtt
		// KUI == 0: the receiver never initiates a key update itself; otherwise it does so (in KeyPhase(), when it
		// sends an ACK) as soon as updatable_aead.go allows it. Whether that is allowed is the keyupdate unit's
		// business; here the decoding state has to survive it.
		kui := p.KUI
		if kui == 0 {
			kui = 1 << 60
		}
		handshake.SetKeyUpdateInterval(kui)
		handshake.FirstKeyUpdateInterval = kui
		n := refcrypto.HashLen(p.Suite)
		sendSecret, rcvSecret := expand(p.Seed+1, n), expand(p.Seed+2, n)
		m.keys = []*refcrypto.Keys{refcrypto.DeriveKeys(p.Suite, m.rv, sendSecret)}
		m.short = handshake.VerifNewUpdatableAEAD(p.Suite, sendSecret, rcvSecret, !p.Server, utils.NewRTTStats(), m.pv)
		m.short.SetHandshakeConfirmed()
		m.cid = expand(p.Seed+5, p.CIDLen)
		m.unp = quic.VerifNewPacketUnpacker(&fakeCS{one: m.short}, p.CIDLen)
	}
	if p.Start >= 0 {
		// The earlier history (packets up to Start sent, Start opened and acknowledged) is summarised by letting
		// the opener open one genuine packet with that number, as the unpacker would have.
		ad := []byte{0x40, 1, 2, 3}
		ct := m.keys[0].Seal(uint64(p.Start), ad, []byte{0x01})
		var err error
		if m.long != nil {
			_, err = m.long.Open(nil, ct, protocol.PacketNumber(p.Start), ad)
		} else {
			_, err = m.short.Open(nil, ct, phRcvTime, protocol.PacketNumber(p.Start), protocol.KeyPhaseZero, ad)
		}
		if err != nil {
			panic(fmt.Sprintf("priming packet %d rejected: %v", p.Start, err))
		}
		m.r, m.la, m.nextPN, m.lastOpened = p.Start, p.Start, p.Start+1, p.Start
		m.ackedGen = 0
	}
	return m
}

func (m *phMachine) genKeys(g int) *refcrypto.Keys {
	for len(m.keys) <= g {
		m.keys = append(m.keys, m.keys[len(m.keys)-1].NextGeneration())
	}
	return m.keys[g]
}

// unacked is RFC 9000 A.2's num_unacked for pn given the sender's largest acked.
func (m *phMachine) unacked(pn int64) int64 {
	if m.la < 0 {
		return pn + 1
	}
	return pn - m.la
}

func (m *phMachine) Gen(t *rapid.T) PHOp {
	kinds := []string{"send", "send", "send", "send", "deliver", "deliver", "deliver", "deliver", "ack", "ack", "dup", "forge"}
	if m.p.Kind == "1rtt" {
		kinds = append(kinds, "update", "update")
	}
	k := rapid.SampledFrom(kinds).Draw(t, "kind")
	if (k == "deliver" && len(m.flight) == 0) || (k == "dup" && len(m.opened) == 0) || (k == "ack" && len(m.opened) == 0) {
		k = "send"
	}
	op := PHOp{K: k}
	switch k {
	case "send":
		op.Len = rapid.SampledFrom([]int{0, 0, 0, 0, 1, 1, 1, 2, 3, 4, 5, 5}).Draw(t, "len")
		op.PayLen = rapid.SampledFrom([]int{1, 3, 3, 8, 8, 30, 30, 1200}).Draw(t, "paylen")
		// base: the point from which the half window is measured (largest acked; -1 counts as "pn+1 unacked")
		base := m.la
		switch rapid.IntRange(0, 11).Draw(t, "gap-mode") {
		case 0, 1, 2:
			op.Gap = 1
		case 3:
			op.Gap = rapid.Int64Range(2, 6).Draw(t, "gap-small")
		case 4:
			op.Gap = rapid.Int64Range(40, 400).Draw(t, "gap-medium")
		case 5:
			op.Gap = rapid.Int64Range(1<<15-400, 1<<15+400).Draw(t, "gap-2^15")
		case 6:
			b := rapid.IntRange(1, 30).Draw(t, "gap-bits")
			op.Gap = rapid.Int64Range(int64(1)<<uint(b-1), int64(1)<<uint(b)).Draw(t, "gap-log")
		default:
			// the edge of the window of a k byte packet number: pn = largestAcked + 2^(8k-1) - d
			kk := op.Len
			if kk < 1 || kk > 4 {
				kk = rapid.SampledFrom([]int{1, 2, 2, 2, 3, 4}).Draw(t, "edge-len")
				if op.Len == 0 && kk == 1 {
					kk = 2 // the repository's sender never picks 1 byte
				}
			}
			d := rapid.SampledFrom([]int64{0, 0, 0, 1, 2, 5, 40}).Draw(t, "edge-d")
			pn := base + phHwin(kk) - d
			op.Gap = pn - m.nextPN + 1
		}
		if op.Gap < 1 {
			op.Gap = 1
		}
	case "deliver":
		switch rapid.IntRange(0, 9).Draw(t, "order") {
		case 0, 1, 2:
			op.Idx = 0 // oldest: in order, or the straggler
		case 3, 4, 5, 6:
			op.Idx = len(m.flight) - 1 // newest: leaves stragglers behind
		default:
			op.Idx = rapid.IntRange(0, len(m.flight)-1).Draw(t, "idx")
		}
	case "dup":
		op.Idx = rapid.IntRange(0, len(m.opened)-1).Draw(t, "idx")
	case "ack":
		// mostly everything opened so far; sometimes an older report (an ACK that overtook / a delayed ACK)
		op.Idx = -1
		if rapid.IntRange(0, 3).Draw(t, "ack-old") == 0 {
			op.Idx = rapid.IntRange(0, len(m.opened)-1).Draw(t, "idx")
		}
	case "forge":
		op.Far = rapid.SampledFrom([]int64{1, 100, 127, 300, 1<<15 - 1, 1 << 20, 1<<31 - 5, 1<<31 - 1}).Draw(t, "far")
		op.Bit = rapid.IntRange(0, 1).Draw(t, "bit")
	}
	return op
}

// build protects one packet. Long header kinds with Sealer "repo" use the repository's sealer + the packer's
// encryptPacket step and require byte equality with the independent encoder.
func (m *phMachine) build(pn int64, l, gen, kpBit int, payload []byte, k *refcrypto.Keys) ([]byte, *vf.Verdict) {
	if m.p.Kind == "1rtt" {
		hdr := []byte{0x40 | byte(kpBit&1)<<2 | byte(l-1)}
		hdr = append(hdr, m.cid...)
		off := len(hdr)
		tr := refcrypto.TruncatePacketNumber(uint64(pn), l)
		for i := l - 1; i >= 0; i-- {
			hdr = append(hdr, byte(tr>>(8*uint(i))))
		}
		return refcrypto.Protect(k, hdr, off, l, uint64(pn), payload), nil
	}
	h := m.lh
	h.Length = uint64(l + len(payload) + refcrypto.TagLen)
	hdr, off := encodeLongHeader(h, l, uint64(pn), 2)
	ref := refcrypto.Protect(k, hdr, off, l, uint64(pn), payload)
	if m.p.Sealer == "repo" && k == m.keys[0] {
		raw := make([]byte, 0, len(hdr)+len(payload)+64)
		raw = append(append(raw, hdr...), payload...)
		enc := quic.VerifEncryptPacket(raw, m.repoSealer, protocol.PacketNumber(pn), protocol.ByteCount(len(hdr)), protocol.ByteCount(l))
		if !eqBytes(enc, ref) {
			return nil, vf.Bad("C05/initial/bytes-differ", "%s pn %d len %d: same header, keys and payload but different protected bytes:\nrepo %s\nref  %s", m.p.Kind, pn, l, hx(enc), hx(ref))
		}
		return append([]byte{}, enc...), nil
	}
	return ref, nil
}

type phResult struct {
	pn      int64
	l       int
	kp      int
	payload []byte
	err     error
}

func (m *phMachine) unpack(data []byte) phResult {
	buf := append([]byte{}, data...)
	if m.p.Kind == "1rtt" {
		pn, l, kp, pl, err := m.unp.UnpackShortHeader(phRcvTime, buf)
		kb := 0
		if kp == protocol.KeyPhaseOne {
			kb = 1
		}
		return phResult{int64(pn), int(l), kb, pl, err}
	}
	hdr, pdata, _, err := wire.ParsePacket(buf)
	if err != nil {
		return phResult{err: fmt.Errorf("wire.ParsePacket: %w", err)}
	}
	eh, _, pl, err := m.unp.UnpackLongHeader(hdr, pdata)
	if err != nil {
		return phResult{err: err}
	}
	return phResult{int64(eh.PacketNumber), int(eh.PacketNumberLen), 0, pl, nil}
}

func (m *phMachine) decodeImpl(tr uint64, l int) int64 {
	if m.long != nil {
		return int64(m.long.DecodePacketNumber(protocol.PacketNumber(tr), protocol.PacketNumberLen(l)))
	}
	return int64(m.short.DecodePacketNumber(protocol.PacketNumber(tr), protocol.PacketNumberLen(l)))
}

// probe: the opener's decoding state must be that of "largest successfully opened = r" for every packet an
// honest sender may send next.
func (m *phMachine) probe(after string) *vf.Verdict {
	for l := 1; l <= 4; l++ {
		hw := phHwin(l)
		// R+1: the next packet; R+hw: legal for a sender that saw R acknowledged (A.2: pn - largestAcked <= 2^(8l-1));
		// with nothing received: hw-1 (pn+1 unacked). R+2-hw: the oldest straggler still inside the A.3 window;
		// R+1-hw: the first one outside (decodes one window higher).
		cand := []int64{m.r + 1, m.r + hw, m.r + hw - 1, m.r + 2 - hw, m.r + 1 - hw}
		for _, pn := range cand {
			if pn < 0 || pn > int64(refcrypto.MaxPN) {
				continue
			}
			tr := refcrypto.TruncatePacketNumber(uint64(pn), l)
			want := int64(refcrypto.DecodePacketNumber(m.r, tr, l))
			if got := m.decodeImpl(tr, l); got != want {
				return vf.Bad("C05/pnhist/decode-state-not-largest-opened", "%s opener, after %s: largest successfully opened packet number is %d (last opened %d), but DecodePacketNumber(%#x, %d bytes) = %d; RFC 9000 A.3 relative to the largest gives %d (packet %d)",
					m.p.Kind, after, m.r, m.lastOpened, tr, l, got, want, pn)
			}
		}
	}
	return nil
}

func (m *phMachine) keyAvailable(gen int) bool {
	if m.p.Kind != "1rtt" {
		return true
	}
	// current keys, the previous generation (retained: no time passes in this unit, RFC 9001 6.5), or the next
	// generation (the packet that makes the receiver follow the update, RFC 9001 6.2)
	return gen >= m.rgen-1 && gen <= m.rgen+1
}

func (m *phMachine) deliver(p *phPkt, dup bool) *vf.Verdict {
	tr := refcrypto.TruncatePacketNumber(uint64(p.pn), p.l)
	want := int64(refcrypto.DecodePacketNumber(m.r, tr, p.l))
	hw := phHwin(p.l)
	// A.2 guarantee: the receiver's largest is at least what the sender saw acknowledged, so a packet that is not
	// more than half a window BELOW the largest always decodes
	if p.pn > m.r+1-hw && want != p.pn {
		return vf.Bad("C05/pnhist/model", "internal: pn %d len %d (largest acked %d) does not decode at R=%d (got %d)", p.pn, p.l, p.la, m.r, want)
	}
	expect := want == p.pn && m.keyAvailable(p.gen)
	res := m.unpack(p.data)
	what := fmt.Sprintf("%s packet %d (%d byte packet number %#x, key generation %d, sender's largest acked %d; receiver: largest opened %d, last opened %d, generation %d)",
		m.p.Kind, p.pn, p.l, tr, p.gen, p.la, m.r, m.lastOpened, m.rgen)
	if !expect {
		if res.err == nil {
			if res.pn == p.pn && eqBytes(res.payload, p.payload) {
				return vf.Bad("C05/pnhist/decode-differs-from-rfc", "%s was opened although RFC 9000 A.3 decodes its truncated number to %d", what, want)
			}
			return vf.Bad("C05/tamper/accepted-modified-packet", "%s was opened as packet %d payload %s", what, res.pn, hx(res.payload))
		}
		var te *qerr.TransportError
		if errors.As(res.err, &te) {
			return vf.Bad("C05/pnhist/fatal-error-for-late-packet", "%s: a late packet of an honest peer produced a connection error: %v", what, res.err)
		}
		m.nRejected++
		if want != p.pn {
			m.cls["straggler-outside-window-rejected"] = true
		} else {
			m.cls["straggler-keys-gone-rejected"] = true
		}
		return m.probe("rejecting " + what)
	}
	if res.err != nil {
		sig := "C05/pnhist/valid-packet-not-opened"
		return vf.Bad(sig, "%s must decode to %d per RFC 9000 A.3 (largest successfully processed %d) and open, but: %v", what, p.pn, m.r, res.err)
	}
	if res.pn != p.pn || res.l != p.l || res.kp != p.gen&1 {
		return vf.Bad("C05/pnhist/wrong-number", "%s unpacked as pn %d len %d key phase %d", what, res.pn, res.l, res.kp)
	}
	if !eqBytes(res.payload, p.payload) {
		return vf.Bad("C05/pnhist/payload-mismatch", "%s: payload differs: %s, want %s", what, hx(res.payload), hx(p.payload))
	}
	// classes (judged deliveries)
	kind := m.p.Kind
	m.nOpened++
	m.lens[p.l] = true
	switch {
	case dup:
		m.nDup++
	case p.pn > m.r:
		if m.lastOpened >= 0 && m.lastOpened < m.r && p.pn-m.lastOpened > hw {
			// decoding relative to the LAST opened packet instead of the LARGEST would fail
			m.cls["straggler-then-window-edge"] = true
			m.cls["straggler-then-window-edge:"+kind] = true
			switch p.l {
			case 1:
				m.cls["gap>128-1byte"] = true
				m.cls["gap>128-1byte:"+kind] = true
			case 2:
				m.cls["gap>32768-2byte"] = true
				m.cls["gap>32768-2byte:"+kind] = true
			default:
				m.cls[fmt.Sprintf("gap>half-window-%dbyte", p.l)] = true
			}
		}
		if p.pn-m.r == hw || (m.r < 0 && p.pn == hw-1) {
			m.cls["exact-window-edge"] = true
		}
	default:
		m.nReorder++
		if m.r-p.pn > 1000 {
			m.nFarStraggler++
		}
		if m.r-p.pn == hw-2 {
			m.cls["straggler-at-lower-edge"] = true
		}
	}
	if p.gen == m.rgen+1 {
		m.rgen++
		m.cls["remote-key-update"] = true
	} else if p.gen == m.rgen-1 {
		m.cls["old-phase-delivered"] = true
	}
	if m.short != nil && p.ackRcv > m.rcvAcked {
		// the packet's ACK frame newly acknowledges 1-RTT packets of the receiver (connection.go:2113-2137)
		if err := m.short.SetLargestAcked(protocol.PacketNumber(p.ackRcv)); err != nil {
			return vf.Bad("C05/pnhist/honest-ack-rejected", "%s: its acknowledgement of the receiver's packet %d was rejected: %v", what, p.ackRcv, err)
		}
		m.rcvAcked = p.ackRcv
	}
	if p.pn > m.r {
		m.r = p.pn
	}
	m.lastOpened = p.pn
	if !dup {
		m.opened = append(m.opened, p)
	}
	return m.probe("opening " + what)
}

func (m *phMachine) Apply(op PHOp) *vf.Verdict {
	switch op.K {
	case "send":
		if op.Gap < 1 {
			return nil
		}
		pn := m.nextPN + op.Gap - 1
		// RFC 9000 17.1: a sender cannot have more than 2^31 unacknowledged numbers outstanding
		if un := m.unacked(pn); un > maxGap {
			pn -= un - maxGap
			if pn < m.nextPN {
				return nil
			}
		}
		if pn > int64(refcrypto.MaxPN)-(1<<33) {
			return nil
		}
		minLen := refcrypto.EncodePacketNumberLen(uint64(pn), m.la)
		l := minLen
		switch {
		case op.Len == 0:
			l = int(protocol.PacketNumberLengthForHeader(protocol.PacketNumber(pn), protocol.PacketNumber(m.la)))
			if l < minLen || l > 4 {
				return vf.Bad("C05/pn/length-too-short", "PacketNumberLengthForHeader(pn=%d, largestAcked=%d) = %d, RFC 9000 A.2 requires at least %d", pn, m.la, l, minLen)
			}
			m.cls["repo-sender-length"] = true
		case op.Len >= 1 && op.Len <= 4 && op.Len >= minLen:
			l = op.Len
			m.cls["forced-length"] = true
		default:
			m.cls["a2-minimal-length"] = true
		}
		if m.unacked(pn) == phHwin(l) {
			m.nEdgeSent++
		}
		payLen := max(op.PayLen, 1, 4-l)
		payload := expand(m.p.Seed^uint64(pn)*0x9e37, payLen)
		data, v := m.build(pn, l, m.gen, m.gen&1, payload, m.genKeys(m.gen))
		if v != nil {
			return v
		}
		m.flight = append(m.flight, &phPkt{pn: pn, l: l, gen: m.gen, la: m.la, ackRcv: m.rcvPN - 1, data: data, payload: payload})
		m.nextPN = pn + 1
	case "deliver":
		if len(m.flight) == 0 {
			return nil
		}
		i := ((op.Idx % len(m.flight)) + len(m.flight)) % len(m.flight)
		p := m.flight[i]
		m.flight = append(m.flight[:i:i], m.flight[i+1:]...)
		return m.deliver(p, false)
	case "dup":
		if len(m.opened) == 0 {
			return nil
		}
		i := ((op.Idx % len(m.opened)) + len(m.opened)) % len(m.opened)
		return m.deliver(m.opened[i], true)
	case "ack":
		if len(m.opened) == 0 {
			return nil
		}
		// the receiver reports packets it opened; the report's largest is either its largest or an older one
		largest := m.r
		if op.Idx >= 0 {
			largest = m.opened[op.Idx%len(m.opened)].pn
		}
		if m.short != nil {
			// the ACK travels in a 1-RTT packet of the receiver, protected with its current keys
			kp := m.short.KeyPhase()
			if (kp == protocol.KeyPhaseOne) != (m.rgen&1 == 1) {
				// the receiver initiated a key update; its read keys moved on as well (RFC 9001 6.1)
				m.rgen++
				m.cls["local-key-update"] = true
				if v := m.probe(fmt.Sprintf("the receiver initiated a key update to generation %d", m.rgen)); v != nil {
					return v
				}
			}
			m.short.Seal(nil, []byte{0x02, 0x00}, protocol.PacketNumber(m.rcvPN), []byte{0x40})
			m.rcvPN++
			// the sender receives that packet: it has to follow the update with its next packet (RFC 9001 6.2)
			if m.gen < m.rgen {
				m.gen = m.rgen
			}
		}
		for _, p := range m.opened {
			if p.pn <= largest && p.gen > m.ackedGen {
				m.ackedGen = p.gen
			}
		}
		if largest > m.la {
			m.la = largest
			m.cls["acked"] = true
		}
	case "update":
		// RFC 9001 6.1: a further key update needs an acknowledgement for a packet of the current phase
		if m.p.Kind != "1rtt" || (m.gen > 0 && m.ackedGen < m.gen) {
			return nil
		}
		m.gen++
	case "forge":
		if op.Far < 1 || op.Far > 1<<31-1 {
			return nil
		}
		base := max(m.r, 0)
		pn := base + op.Far
		l := 4
		if op.Far <= 127 {
			l = 1 + (op.Bit & 1) // 1 or 2 bytes
		} else if op.Far < 1<<15 {
			l = 2
		}
		if int64(refcrypto.DecodePacketNumber(m.r, refcrypto.TruncatePacketNumber(uint64(pn), l), l)) != pn {
			return nil
		}
		payload := expand(m.p.Seed+uint64(op.Far), 40)
		gen := m.rgen
		if m.p.Kind == "1rtt" && op.Bit&1 != m.rgen&1 {
			gen = m.rgen + 1 // pretends to be a key update
		}
		data, v := m.build(pn, l, gen, gen&1, payload, m.genKeys(gen))
		if v != nil {
			return v
		}
		data = append([]byte{}, data...)
		data[len(data)-1] ^= 0x10 // the tag lies behind the header protection sample: the number still decodes to pn
		res := m.unpack(data)
		if res.err == nil {
			return vf.Bad("C05/tamper/accepted-modified-packet", "%s packet %d with a flipped tag bit was opened (pn %d)", m.p.Kind, pn, res.pn)
		}
		m.nForged++
		return m.probe(fmt.Sprintf("rejecting a forged %s packet that claims number %d (%d bytes)", m.p.Kind, pn, l))
	}
	return nil
}

func (m *phMachine) Finish(u *vf.Unit) *vf.Verdict {
	if v := m.probe("the history"); v != nil {
		return v
	}
	kind := m.p.Kind
	u.Class("kind-" + kind)
	u.Class(fmt.Sprintf("v%d", m.p.V))
	if kind != "initial" {
		u.Class(suiteLabel(m.p.Suite))
	}
	if m.p.Sealer == "repo" {
		u.Class("repo-sealer")
	}
	switch {
	case m.p.Start < 0:
		u.Class("fresh-space")
	case m.p.Start > 1<<32:
		u.Class("start>2^32")
	case m.p.Start > 1<<31:
		u.Class("start>2^31")
	}
	if m.r > 1<<32 {
		u.Class("pn-above-2^32")
	}
	for c := range m.cls {
		u.Class(c)
	}
	for l := 1; l <= 4; l++ {
		if m.lens[l] {
			u.Class(fmt.Sprintf("opened-len%d", l))
		}
	}
	if m.nReorder > 0 {
		u.Class("reordered")
		u.Class("reordered:" + kind)
	}
	if m.nFarStraggler > 0 {
		u.Class("straggler-after->1000")
	}
	if m.nDup > 0 {
		u.Class("dup")
	}
	if m.nForged > 0 {
		u.Class("forged-rejected")
	}
	if m.nEdgeSent > 0 {
		u.Class("sent-at-window-edge")
	}
	if m.rgen >= 2 {
		u.Class("two-key-updates")
	}
	if m.nOpened >= 3 && m.nReorder > 0 {
		u.NonTrivial("pnhist", kind, m.p.V, m.p.Suite, m.p.Start, m.p.Seed, m.nOpened, m.nReorder, m.r)
	}
	return nil
}

func TestPNHistory(t *testing.T) {
	vf.RunMachine(t, phUnit, 60, genPHParams, newPHMachine)
}
