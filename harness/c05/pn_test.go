package c05

import (
	"fmt"
	"testing"

	"pgregory.net/rapid"

	"github.com/refraction-networking/uquic/internal/ackhandler"
	"github.com/refraction-networking/uquic/internal/monotime"
	"github.com/refraction-networking/uquic/internal/protocol"
	"github.com/refraction-networking/uquic/internal/utils"
	"github.com/refraction-networking/uquic/internal/wire"
	"github.com/refraction-networking/uquic/verif/refcrypto"
	"github.com/refraction-networking/uquic/verif/vf"
)

// (e) Packet numbers.
//
// Sender side: sentPacketHandler.PeekPacketNumber picks len = PacketNumberLengthForHeader(pn, largestAcked)
// (sent_packet_handler.go:961-966); receiver side: opener.DecodePacketNumber(wirePN, wirePNLen) =
// protocol.DecodePacketNumber(len, highestRcvdPN, wirePN) (aead.go:75, updatable_aead.go:186), where
// highestRcvdPN starts at 0 ("nothing received" and "received 0" are the same receiver state) and is the
// largest packet number that was successfully opened. Whatever the peer acknowledged it has received, hence
// largestAcked <= highestRcvdPN; without reordering highestRcvdPN < pn.

const maxGap = int64(1) << 31 // more than 2^31 unacknowledged packets cannot be represented in 4 bytes (RFC 9000 17.1)

type pnFail struct {
	LA  int64 `json:"largest_acked"`
	PN  int64 `json:"pn"`
	L   int64 `json:"receiver_largest"`
	Len int   `json:"len"`
}

func trunc(pn int64, n int) protocol.PacketNumber {
	return protocol.PacketNumber(refcrypto.TruncatePacketNumber(uint64(pn), n))
}

// checkPNPair checks one (largestAcked, pn) pair against the receiver states in ls. It returns the number of
// evaluated (la, pn, L) triples.
func checkPNPair(la, pn int64, ls []int64, diffAllLens bool) (int, *vf.Verdict, pnFail) {
	n := int(protocol.PacketNumberLengthForHeader(protocol.PacketNumber(pn), protocol.PacketNumber(la)))
	if n < 1 || n > 4 {
		return 1, vf.Bad("C05/pn/length-out-of-range", "PacketNumberLengthForHeader(%d, %d) = %d", pn, la, n), pnFail{la, pn, -1, n}
	}
	// RFC 9000 17.1 / A.2: the encoding must represent more than twice the range of unacknowledged packets
	if minLen := refcrypto.EncodePacketNumberLen(uint64(pn), la); n < minLen {
		return 1, vf.Bad("C05/pn/length-too-short", "PacketNumberLengthForHeader(pn=%d, largestAcked=%d) = %d, RFC 9000 A.2 requires at least %d", pn, la, n, minLen), pnFail{la, pn, -1, n}
	}
	cnt := 0
	for _, l := range ls {
		cnt++
		got := protocol.DecodePacketNumber(protocol.PacketNumberLen(n), protocol.PacketNumber(l), trunc(pn, n))
		if int64(got) != pn {
			return cnt, vf.Bad("C05/pn/decode-not-identity", "largestAcked=%d pn=%d sent with %d bytes; receiver with largest received %d decodes %d", la, pn, n, l, got), pnFail{la, pn, l, n}
		}
		lens := []int{n}
		if diffAllLens {
			lens = []int{1, 2, 3, 4}
		}
		for _, k := range lens {
			if k == n && !diffAllLens {
				continue
			}
			a := protocol.DecodePacketNumber(protocol.PacketNumberLen(k), protocol.PacketNumber(l), trunc(pn, k))
			b := refcrypto.DecodePacketNumber(l, uint64(trunc(pn, k)), k)
			if uint64(a) != b {
				return cnt, vf.Bad("C05/pn/decode-differs-from-rfc", "DecodePacketNumber(len=%d, largest=%d, truncated=%#x) = %d, RFC 9000 A.3 gives %d", k, l, trunc(pn, k), a, b), pnFail{la, pn, l, k}
			}
		}
	}
	return cnt, nil, pnFail{}
}

func receiverStates(la, pn int64, exhaustive bool) []int64 {
	lo := max(la, 0)
	if pn == 0 {
		return []int64{0} // nothing received yet: the openers start with highestRcvdPN = 0
	}
	if exhaustive {
		ls := make([]int64, 0, pn-lo)
		for l := lo; l < pn; l++ {
			ls = append(ls, l)
		}
		return ls
	}
	mid := lo + (pn-lo)/2
	cand := []int64{lo, lo + 1, lo + 2, mid - 1, mid, mid + 1, pn - 3, pn - 2, pn - 1}
	var ls []int64
	for _, l := range cand {
		if l >= lo && l < pn {
			ls = append(ls, l)
		}
	}
	return ls
}

func TestPNExhaustive(t *testing.T) {
	u := vf.U("pn-exhaustive")
	si, sk := vf.Shard()
	small, w, full := int64(512), int64(300), int64(220)
	if vf.Thorough() {
		small, w, full = 2048, 4000, 420
	}
	report := func(v *vf.Verdict, f pnFail) {
		if u.Report(v, f) {
			t.Fatalf("VIOLATION %s: %s", v.Sig, v.Detail)
		}
	}
	// 1. complete small universe: every (la, L, pn) with -1 <= la <= L < pn <= full (and the initial receiver state)
	for la := int64(-1); la <= full; la++ {
		if int((la+1)%int64(sk)) != si {
			continue
		}
		for pn := la + 1; pn <= full; pn++ {
			n, v, f := checkPNPair(la, pn, receiverStates(la, pn, true), true)
			u.Cases(n)
			if v != nil {
				report(v, f)
			}
		}
	}
	u.ClassN("small-universe-complete", 1)
	// 2. bands around the encoding thresholds, anchored at many largest-acked values
	var las []int64
	for _, b := range []int64{0, 1 << 7, 1 << 8, 1 << 15, 1 << 16, 1 << 23, 1 << 24, 1 << 31, 1 << 32, 1 << 40, 1 << 61} {
		for d := int64(-2); d <= 2; d++ {
			if b+d >= -1 {
				las = append(las, b+d)
			}
		}
	}
	las = append(las, -1, 100, 12345678, int64(refcrypto.MaxPN)-maxGap-5, int64(refcrypto.MaxPN)-(1<<24)-1, int64(refcrypto.MaxPN)-(1<<16)-1, int64(refcrypto.MaxPN)-300, int64(refcrypto.MaxPN)-2)
	var gaps []int64
	for d := int64(1); d <= small; d++ {
		gaps = append(gaps, d)
	}
	for _, c := range []int64{1 << 15, 1 << 16, 1 << 23, 1 << 24, 1 << 31} {
		for d := c - w; d <= c+w; d++ {
			if d > small && d <= maxGap {
				gaps = append(gaps, d)
			}
		}
	}
	for i, la := range las {
		if i%sk != si {
			continue
		}
		for _, d := range gaps {
			pn := la + d
			if pn > int64(refcrypto.MaxPN) {
				break
			}
			n, v, f := checkPNPair(la, pn, receiverStates(la, pn, d <= small), false)
			u.Cases(n)
			if v != nil {
				report(v, f)
			}
			// reordering beyond pn: the implementation must still agree with RFC 9000 A.3 on every input
			for _, k := range []int{1, 2, 3, 4} {
				hw := int64(1) << (8*uint(k) - 1)
				for _, l := range []int64{pn, pn + 1, pn + hw - 2, pn + hw - 1, pn + hw, pn + hw + 1, pn - hw - 1, pn - hw, pn - hw + 1} {
					if l < 0 || l > int64(refcrypto.MaxPN) {
						continue
					}
					u.Case()
					a := protocol.DecodePacketNumber(protocol.PacketNumberLen(k), protocol.PacketNumber(l), trunc(pn, k))
					b := refcrypto.DecodePacketNumber(l, uint64(trunc(pn, k)), k)
					if uint64(a) != b {
						report(vf.Bad("C05/pn/decode-differs-from-rfc", "DecodePacketNumber(len=%d, largest=%d, truncated=%#x) = %d, RFC 9000 A.3 gives %d", k, l, trunc(pn, k), a, b), pnFail{la, pn, l, k})
					}
				}
			}
		}
		u.Class(fmt.Sprintf("anchor-2^%d", bitlen(la)))
	}
	u.NonTrivial("pn-exhaustive", si, sk, vf.Tier())
}

func bitlen(x int64) int {
	n := 0
	for x > 0 {
		x >>= 1
		n++
	}
	return n
}

type PNCase struct {
	LA    int64  `json:"largest_acked"`
	Gap   int64  `json:"gap"`
	LSel  uint64 `json:"lsel"`
	DLen  int    `json:"dlen"` // differential: arbitrary (len, largest, truncated)
	DL    int64  `json:"dlargest"`
	DTrun uint64 `json:"dtrunc"`
}

func genPNCase(t *rapid.T) PNCase {
	c := PNCase{}
	if rapid.IntRange(0, 9).Draw(t, "none-acked") == 0 {
		c.LA = -1
	} else {
		bits := rapid.IntRange(1, 62).Draw(t, "la-bits")
		c.LA = rapid.Int64Range(int64(1)<<uint(bits-1)-1, int64(1)<<uint(bits)-1).Draw(t, "la")
	}
	gb := rapid.IntRange(0, 31).Draw(t, "gap-bits")
	c.Gap = rapid.Int64Range(max(1, int64(1)<<uint(gb)>>1), int64(1)<<uint(gb)).Draw(t, "gap")
	c.LSel = rapid.Uint64().Draw(t, "lsel")
	c.DLen = rapid.IntRange(1, 4).Draw(t, "dlen")
	db := rapid.IntRange(0, 62).Draw(t, "dl-bits")
	c.DL = rapid.Int64Range(0, int64(1)<<uint(db)-1+int64(1-min(db, 1))).Draw(t, "dl")
	c.DTrun = rapid.Uint64Range(0, uint64(1)<<(8*uint(c.DLen))-1).Draw(t, "dtrunc")
	return c
}

func checkPNCase(c PNCase, u *vf.Unit) *vf.Verdict {
	// arbitrary-input differential against RFC 9000 A.3
	if c.DL >= 0 && c.DL <= int64(refcrypto.MaxPN) && c.DLen >= 1 && c.DLen <= 4 {
		tr := c.DTrun & (uint64(1)<<(8*uint(c.DLen)) - 1)
		a := protocol.DecodePacketNumber(protocol.PacketNumberLen(c.DLen), protocol.PacketNumber(c.DL), protocol.PacketNumber(tr))
		b := refcrypto.DecodePacketNumber(c.DL, tr, c.DLen)
		if uint64(a) != b {
			return vf.Bad("C05/pn/decode-differs-from-rfc", "DecodePacketNumber(len=%d, largest=%d, truncated=%#x) = %d, RFC 9000 A.3 gives %d", c.DLen, c.DL, tr, a, b)
		}
	}
	la, pn := c.LA, c.LA+c.Gap
	if la < -1 || c.Gap < 1 || c.Gap > maxGap || pn > int64(refcrypto.MaxPN) {
		u.Class("out-of-domain")
		return nil
	}
	lo := max(la, 0)
	ls := receiverStates(la, pn, false)
	if pn > lo {
		ls = append(ls, lo+int64(c.LSel%uint64(pn-lo)))
	}
	_, v, _ := checkPNPair(la, pn, ls, true)
	if v != nil {
		return v
	}
	u.Class(fmt.Sprintf("len%d", protocol.PacketNumberLengthForHeader(protocol.PacketNumber(pn), protocol.PacketNumber(la))))
	if la < 0 {
		u.Class("none-acked")
	}
	if pn > 1<<32 {
		u.Class("pn-above-2^32")
	}
	u.NonTrivial("pn", la, pn, c.LSel)
	return nil
}

func TestPNRandom(t *testing.T) {
	vf.RunRapid(t, "pn-random", genPNCase, checkPNCase)
}

// ---- packet number generator through the public SentPacketHandler surface ----

type PNGenParams struct {
	InitialPN int64 `json:"initial_pn"`
	Server    bool  `json:"server"`
}

type PNGenOp struct {
	K     string `json:"k"` // pop | ack
	Space int    `json:"s"`
	N     int    `json:"n"`
	Sel   int    `json:"sel"`
}

type nopHandler struct{}

func (nopHandler) OnAcked(wire.Frame) {}
func (nopHandler) OnLost(wire.Frame)  {}

type pnSpaceModel struct {
	last         int64
	lastGap      int64
	sent         []int64
	sentSet      map[int64]bool
	largestAcked int64
	skips        int
}

type pnGenMachine struct {
	p      PNGenParams
	h      ackhandler.SentPacketHandler
	now    int64
	sp     [3]*pnSpaceModel
	nAcks  int
	maxLen int
}

var encLevels = []protocol.EncryptionLevel{protocol.EncryptionInitial, protocol.EncryptionHandshake, protocol.Encryption1RTT}

func genPNGenParams(t *rapid.T) PNGenParams {
	p := PNGenParams{Server: rapid.Bool().Draw(t, "server")}
	if rapid.Bool().Draw(t, "nonzero-initial") {
		p.InitialPN = rapid.Int64Range(0, 1<<20).Draw(t, "initial-pn")
	}
	return p
}

func newPNGenMachine(p PNGenParams) vf.Machine[PNGenOp] {
	pers := protocol.PerspectiveClient
	if p.Server {
		pers = protocol.PerspectiveServer
	}
	rtt := utils.NewRTTStats()
	m := &pnGenMachine{p: p, now: 1_000_000}
	m.h = ackhandler.NewSentPacketHandler(protocol.PacketNumber(p.InitialPN), 1252, rtt, &utils.ConnectionStats{}, true, false,
		func(protocol.PacketNumber) {}, pers, nil, utils.DefaultLogger)
	for i := range m.sp {
		m.sp[i] = &pnSpaceModel{last: -1, largestAcked: -1, sentSet: map[int64]bool{}}
	}
	return m
}

func (m *pnGenMachine) Gen(t *rapid.T) PNGenOp {
	op := PNGenOp{K: rapid.SampledFrom([]string{"pop", "pop", "pop", "ack"}).Draw(t, "kind")}
	op.Space = rapid.SampledFrom([]int{0, 1, 2, 2, 2}).Draw(t, "space")
	if op.K == "pop" {
		op.N = rapid.SampledFrom([]int{1, 1, 2, 5, 20, 20}).Draw(t, "n")
		if op.Space == 2 {
			op.N = rapid.SampledFrom([]int{1, 2, 5, 20, 100, 400}).Draw(t, "n")
		}
	} else {
		op.Sel = rapid.IntRange(0, 1<<20).Draw(t, "sel")
		op.N = rapid.IntRange(1, 30).Draw(t, "n")
	}
	return op
}

func (m *pnGenMachine) Apply(op PNGenOp) *vf.Verdict {
	s := op.Space % 3
	sp := m.sp[s]
	lvl := encLevels[s]
	switch op.K {
	case "pop":
		for i := 0; i < op.N; i++ {
			m.now += 50
			t := monotime.Time(m.now * 1000)
			peek, plen := m.h.PeekPacketNumber(lvl)
			peek2, _ := m.h.PeekPacketNumber(lvl)
			pn := m.h.PopPacketNumber(lvl)
			if peek != pn || peek2 != pn {
				return vf.Bad("C05/pngen/peek-pop-mismatch", "space %d: Peek %d, Peek %d, Pop %d", s, peek, peek2, pn)
			}
			if int64(pn) <= sp.last {
				return vf.Bad("C05/pngen/not-increasing", "space %d: packet number %d after %d (reuse within a number space)", s, pn, sp.last)
			}
			if sp.last < 0 {
				want := int64(0)
				if s == 0 {
					want = m.p.InitialPN
				}
				if int64(pn) != want {
					return vf.Bad("C05/pngen/first-number", "space %d: first packet number %d, want %d", s, pn, want)
				}
			} else {
				gap := int64(pn) - sp.last
				if gap > 2 || (gap == 2 && sp.lastGap == 2) {
					return vf.Bad("C05/pngen/skipped-more-than-one", "space %d: %d follows %d (previous gap %d); the generator documents that it never skips two numbers in a row", s, pn, sp.last, sp.lastGap)
				}
				if gap == 2 && s != 2 {
					return vf.Bad("C05/pngen/skip-outside-appdata", "space %d: skipped a packet number (%d -> %d)", s, sp.last, pn)
				}
				if gap == 2 {
					sp.skips++
				}
				sp.lastGap = gap
			}
			// wire length: decodes for every admissible receiver state
			if want := protocol.PacketNumberLengthForHeader(pn, protocol.PacketNumber(sp.largestAcked)); plen != want {
				return vf.Bad("C05/pngen/length-ignores-largest-acked", "space %d: PeekPacketNumber length %d for pn %d, largest acked %d; PacketNumberLengthForHeader gives %d", s, plen, pn, sp.largestAcked, want)
			}
			for _, l := range receiverStates(sp.largestAcked, int64(pn), false) {
				if got := refcrypto.DecodePacketNumber(l, uint64(trunc(int64(pn), int(plen))), int(plen)); got != uint64(pn) {
					return vf.Bad("C05/pn/decode-not-identity", "space %d: pn %d sent with %d bytes (largest acked %d) decodes to %d at a receiver whose largest is %d", s, pn, plen, sp.largestAcked, got, l)
				}
			}
			m.maxLen = max(m.maxLen, int(plen))
			m.h.SentPacket(t, pn, protocol.InvalidPacketNumber, nil, []ackhandler.Frame{{Frame: &wire.PingFrame{}, Handler: nopHandler{}}}, lvl, protocol.ECNNon, 60, false, false)
			sp.last = int64(pn)
			sp.sent = append(sp.sent, int64(pn))
			sp.sentSet[int64(pn)] = true
		}
	case "ack":
		if len(sp.sent) == 0 {
			return nil
		}
		m.now += 1000
		// acknowledge a contiguous run of sent (never skipped) numbers ending at a sent number above the largest acked
		var cand []int64
		for _, p := range sp.sent {
			if p > sp.largestAcked {
				cand = append(cand, p)
			}
		}
		if len(cand) == 0 {
			return nil
		}
		hi := cand[op.Sel%len(cand)]
		lo := hi
		for n := 1; n < op.N && sp.sentSet[lo-1]; n++ {
			lo--
		}
		_, err := m.h.ReceivedAck(&wire.AckFrame{AckRanges: []wire.AckRange{{Smallest: protocol.PacketNumber(lo), Largest: protocol.PacketNumber(hi)}}}, lvl, monotime.Time(m.now*1000))
		if err != nil {
			return vf.Bad("C05/pngen/honest-ack-rejected", "space %d: ACK [%d,%d] of sent packets rejected: %v", s, lo, hi, err)
		}
		sp.largestAcked = max(sp.largestAcked, hi)
		m.nAcks++
	}
	return nil
}

func (m *pnGenMachine) Finish(u *vf.Unit) *vf.Verdict {
	total := 0
	for s, sp := range m.sp {
		total += len(sp.sent)
		if sp.skips > 0 {
			u.Class("skipped")
		}
		if len(sp.sent) > 0 {
			u.Class(fmt.Sprintf("space%d", s))
		}
	}
	if m.nAcks > 0 {
		u.Class("acked")
	}
	u.Class(fmt.Sprintf("maxlen%d", m.maxLen))
	if m.p.InitialPN > 0 {
		u.Class("initial-pn-nonzero")
	}
	if total > 0 {
		u.NonTrivial("pngen", m.p.InitialPN, m.p.Server, total, m.sp[2].skips, m.nAcks, m.sp[2].last)
	}
	return nil
}

func TestPNGen(t *testing.T) {
	vf.RunMachine(t, "pngen", 40, genPNGenParams, newPNGenMachine)
}
