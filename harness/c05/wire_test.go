package c05

import (
	"testing"

	"github.com/refraction-networking/uquic/verif/vf"
	"github.com/refraction-networking/uquic/verif/xfer"
)

// TestWirePackets: C05(b) - on complete simulated connections under network faults (plain, nil-spec and
// spec-driven clients, v1 and v2, all negotiated cipher suites, key updates after 100 packets), an observer that
// derives every key independently (Initial secrets from the connection ID, traffic secrets from the TLS key log,
// key updates per RFC 9001 6 / RFC 9369 3.3.2) must open every genuine packet to well-formed frames allowed at
// that encryption level, and no packet number is used for two different packets in a number space.
// C05(d), same runs: packets sealed by one side are opened by the other. 0-RTT packets (the observer derives the early
// traffic secret from the resumption PSK) of a connection whose early data the server accepted, delivered intact
// while the server holds the 0-RTT keys, and Handshake packets of the server delivered intact to a client that holds
// the Handshake keys, are acknowledged by their receiver (sim.openedByPeerCheck, signatures
// C05/wire/intact-0rtt-not-opened and C05/wire/intact-handshake-not-opened).
func TestWirePackets(t *testing.T) {
	vf.ReplayRepeat = 40
	xfer.GenUnit = "wire-packets"
	vf.RunRapid(t, "wire-packets", xfer.GenCase, func(c xfer.Case, u *vf.Unit) *vf.Verdict {
		return xfer.CheckCase(t, c, u, xfer.Options{WirePrefixes: []string{"C05/"}})
	})
}
