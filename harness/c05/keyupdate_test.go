package c05

import (
	"errors"
	"fmt"
	"sort"
	"testing"
	"time"

	"pgregory.net/rapid"

	quic "github.com/refraction-networking/uquic"
	"github.com/refraction-networking/uquic/internal/handshake"
	"github.com/refraction-networking/uquic/internal/monotime"
	"github.com/refraction-networking/uquic/internal/protocol"
	"github.com/refraction-networking/uquic/internal/qerr"
	"github.com/refraction-networking/uquic/internal/utils"
	"github.com/refraction-networking/uquic/internal/wire"
	"github.com/refraction-networking/uquic/verif/refcrypto"
	"github.com/refraction-networking/uquic/verif/vf"
)

// (d) Key update state machine over two connected 1-RTT AEADs (endpoint 0 = client, 1 = server).
//
// Implementation under test: handshake.updatableAEAD driven exactly as the connection drives it:
//   send:    kp := sealer.KeyPhase(); header with PacketNumberLengthForHeader(pn, largestAcked);
//            packetPacker.encryptPacket(raw, sealer, pn, ...)                    (packet_packer.go:480-491, 897-950, 991)
//   receive: packetUnpacker.UnpackShortHeader(rcvTime, data)                     (packet_unpacker.go:109-200)
//            then, only if the packet's ACK frame newly acknowledges 1-RTT packets,
//            cryptoSetup.SetLargest1RTTAcked(ack.LargestAcked())                  (connection.go:2113-2137)
//   SetHandshakeConfirmed once per endpoint                                       (connection.go:994)
//
// Reference model: RFC 9001 section 6 (generation counters, permission to update, retention of the previous
// read keys) + refcrypto keys per generation as independent reader / adversarial writer.

const kuUnit = "keyupdate"

const sigV2KULabel = "C05/keyupdate/v2-uses-v1-ku-label"

type KUParams struct {
	V      int    `json:"v"`
	Suite  uint16 `json:"suite"`
	Via    string `json:"via"` // hook | hs
	KUI    uint64 `json:"kui"`
	First  uint64 `json:"first"`
	RTTms  int    `json:"rtt_ms"`
	CIDLen int    `json:"cidlen"`
	Seed   uint64 `json:"seed"`
	Conf0  bool   `json:"conf0"` // endpoint confirmed the handshake before the history starts
	Conf1  bool   `json:"conf1"`
}

type KUOp struct {
	K      string `json:"k"` // send | deliver | dup | drop | tick | confirm | forge | evil-double | evil-ack | nop
	Who    int    `json:"who,omitempty"`
	Idx    int    `json:"idx,omitempty"`
	PayLen int    `json:"paylen,omitempty"`
	Ack    bool   `json:"ack,omitempty"`
	Skip   bool   `json:"skip,omitempty"`
	DtUs   int64  `json:"dt,omitempty"`
	Mode   string `json:"mode,omitempty"` // forge: flip | far | trunc
	Pos    int    `json:"pos,omitempty"`
}

type kuPkt struct {
	from       int
	data       []byte
	pn         int64
	gen        int
	payload    []byte
	ackLargest int64
	ackSet     []int64
	sentAt     int64
}

type kuEnd struct {
	sealer   handshake.ShortHeaderSealer
	unp      *quic.VerifPacketUnpacker
	setAcked func(protocol.PacketNumber) error
	confirm  func()
	firstPN  func() protocol.PacketNumber
	rtt      *utils.RTTStats

	// reference keys for what this endpoint SENDS, by generation
	sendKeys []*refcrypto.Keys

	// model
	gen            int
	confirmed      bool
	nextPN         int64
	lastSentPN     int64
	largestAcked   int64 // max of the values handed to SetLargestAcked (what sent_packet_handler keeps)
	sentGen        map[int64]int
	ackedByPeer    map[int64]bool
	ackedInGen     bool // an acknowledgment for a packet sent in the current generation was received
	firstSentInGen int64
	received       map[int64]bool
	highestRcvd    int64
	rcvdSameGen    int   // opens with the current read key since the last roll (not counting the roll trigger)
	firstRcvdInGen int64 // -1: nothing received in the current generation
	prevAvail      bool
	expirySet      bool
	expiry         int64 // us
	updates        int
}

type kuMachine struct {
	p      KUParams
	e      [2]*kuEnd
	now    int64 // us
	flight []*kuPkt
	dead   bool
	cid    []byte
	u      *vf.Unit
	kuAlt  bool // the implementation was found to chain generations with "quic ku" under v2 (known finding); follow it
	closer func()

	// bookkeeping
	nLocal, nRemote, nOldDelivered, nOldAfterDrop, nDup, nReorder, nEvilDouble, nEvilAck, nStale, nForged int
	sig                                                                                                   []byte
}

func genKUParams(t *rapid.T) KUParams {
	p := KUParams{}
	p.V = rapid.IntRange(1, 2).Draw(t, "v")
	p.Via = "hook"
	if rapid.IntRange(0, 9).Draw(t, "via") == 0 {
		p.Via = "hs"
	}
	p.Suite = rapid.SampledFrom(refcrypto.Suites).Draw(t, "suite")
	p.KUI = uint64(rapid.IntRange(1, 8).Draw(t, "kui"))
	p.First = uint64(rapid.IntRange(1, 6).Draw(t, "first"))
	p.RTTms = rapid.SampledFrom([]int{1, 10, 25, 100}).Draw(t, "rtt")
	p.CIDLen = rapid.SampledFrom([]int{0, 4, 8, 20}).Draw(t, "cidlen")
	p.Seed = rapid.Uint64().Draw(t, "seed")
	p.Conf0 = rapid.IntRange(0, 4).Draw(t, "conf0") != 0
	p.Conf1 = rapid.IntRange(0, 4).Draw(t, "conf1") != 0
	return p
}

func newKUEnd() *kuEnd {
	return &kuEnd{largestAcked: -1, lastSentPN: -1, sentGen: map[int64]int{}, ackedByPeer: map[int64]bool{}, firstSentInGen: -1,
		received: map[int64]bool{}, highestRcvd: -1, firstRcvdInGen: -1}
}

func newKUMachine(p KUParams) vf.Machine[KUOp] {
	m := &kuMachine{p: p, now: 1_000_000, u: vf.U(kuUnit), closer: func() {}}
	m.cid = expand(p.Seed+11, p.CIDLen)
	pv, rv := protoVersion(p.V), refVersion(p.V)
	// These two knobs are package-level in internal/handshake (SetKeyUpdateInterval is the test helper the
	// repository's own tests use; QUIC_GO_KEY_UPDATE_INTERVAL feeds the same variable in integration tests).
	handshake.SetKeyUpdateInterval(p.KUI)
	handshake.FirstKeyUpdateInterval = p.First
	m.e[0], m.e[1] = newKUEnd(), newKUEnd()
	rtt := time.Duration(p.RTTms) * time.Millisecond
	var sec [2][]byte // send secrets
	suite := p.Suite
	if p.Via == "hs" {
		res, err := doHandshake(pv, p.Suite, protocol.ParseConnectionID(expand(p.Seed+9, 8)))
		if err != nil {
			panic(fmt.Sprintf("handshake failed: %v", err))
		}
		m.closer = res.close
		suite = res.suite
		sec[0], sec[1] = res.cAp, res.sAp
		res.clientRTT.UpdateRTT(rtt, 0)
		res.serverRTT.UpdateRTT(rtt, 0)
		for i, cs := range []handshake.CryptoSetup{res.client, res.server} {
			e := m.e[i]
			s, err := cs.Get1RTTSealer()
			if err != nil {
				panic(err)
			}
			e.sealer = s
			e.unp = quic.VerifNewPacketUnpacker(cs, p.CIDLen)
			e.setAcked = cs.SetLargest1RTTAcked
			e.confirm = cs.SetHandshakeConfirmed
		}
		m.e[0].rtt, m.e[1].rtt = res.clientRTT, res.serverRTT
	} else {
		n := refcrypto.HashLen(suite)
		sec[0], sec[1] = expand(p.Seed+1, n), expand(p.Seed+2, n)
		for i := 0; i < 2; i++ {
			e := m.e[i]
			e.rtt = utils.NewRTTStats()
			e.rtt.UpdateRTT(rtt, 0)
			a := handshake.VerifNewUpdatableAEAD(suite, sec[1-i], sec[i], i == 0, e.rtt, pv)
			e.sealer = a
			e.unp = quic.VerifNewPacketUnpacker(&fakeCS{one: a}, p.CIDLen)
			e.setAcked = a.SetLargestAcked
			e.confirm = a.SetHandshakeConfirmed
			e.firstPN = a.FirstPacketNumber
		}
	}
	m.p.Suite = suite
	for i := 0; i < 2; i++ {
		m.e[i].sendKeys = []*refcrypto.Keys{refcrypto.DeriveKeys(suite, rv, sec[i])}
	}
	if p.Conf0 {
		m.e[0].confirm()
		m.e[0].confirmed = true
	}
	if p.Conf1 {
		m.e[1].confirm()
		m.e[1].confirmed = true
	}
	return m
}

func (m *kuMachine) pto3(e *kuEnd) int64 { return int64(3*e.rtt.PTO(true)) / 1000 }

// keys returns endpoint e's reference send keys of generation g.
func (m *kuMachine) keys(e *kuEnd, g int) *refcrypto.Keys {
	for len(e.sendKeys) <= g {
		last := e.sendKeys[len(e.sendKeys)-1]
		if m.kuAlt {
			e.sendKeys = append(e.sendKeys, last.NextGenerationWithLabel("quic ku"))
		} else {
			e.sendKeys = append(e.sendKeys, last.NextGeneration())
		}
	}
	return e.sendKeys[g]
}

func (m *kuMachine) Gen(t *rapid.T) KUOp {
	if m.dead {
		return KUOp{K: "nop"}
	}
	kinds := []string{"send", "send", "send", "send", "send", "deliver", "deliver", "deliver", "deliver", "dup", "drop", "tick", "confirm", "forge", "evil-double", "evil-ack"}
	k := rapid.SampledFrom(kinds).Draw(t, "kind")
	// the window for a too-early second update by the peer is short (until the endpoint's next send): take it sometimes
	if (m.evilDoubleOK(0) || m.evilDoubleOK(1)) && k != "evil-double" && rapid.IntRange(0, 7).Draw(t, "evil-double-now") == 0 {
		k = "evil-double"
	}
	op := KUOp{K: k}
	switch k {
	case "send":
		op.Who = rapid.IntRange(0, 1).Draw(t, "who")
		op.PayLen = rapid.SampledFrom([]int{1, 2, 3, 20, 200, 1200}).Draw(t, "paylen")
		op.Ack = rapid.IntRange(0, 3).Draw(t, "ack") != 0
		op.Skip = rapid.IntRange(0, 9).Draw(t, "skip") == 0
	case "deliver", "dup", "drop":
		if len(m.flight) == 0 {
			op.K = "send"
			op.Who = rapid.IntRange(0, 1).Draw(t, "who")
			op.PayLen = 5
			op.Ack = true
			break
		}
		// bias towards the oldest packet (in order delivery) but allow any
		if rapid.IntRange(0, 2).Draw(t, "inorder") != 0 {
			op.Idx = 0
		} else {
			op.Idx = rapid.IntRange(0, len(m.flight)-1).Draw(t, "idx")
		}
	case "forge":
		op.Who = rapid.IntRange(0, 1).Draw(t, "who")
		op.Mode = rapid.SampledFrom([]string{"flip", "flip", "flip", "far", "trunc"}).Draw(t, "mode")
		op.Pos = rapid.IntRange(0, 1<<16).Draw(t, "pos")
		if len(m.flight) > 0 {
			op.Idx = rapid.IntRange(0, len(m.flight)-1).Draw(t, "idx")
		} else if op.Mode != "far" {
			op.Mode = "far"
		}
	case "tick":
		pto := m.pto3(m.e[0]) / 3
		op.DtUs = rapid.SampledFrom([]int64{1000, pto, 2 * pto, 3*pto - 1, 3 * pto, 3*pto + 1, 10 * pto}).Draw(t, "dt")
	case "confirm":
		op.Who = rapid.IntRange(0, 1).Draw(t, "who")
	case "evil-double", "evil-ack":
		// only when the precondition holds for one of the endpoints, and not too often (terminal)
		ok := -1
		for i := 0; i < 2; i++ {
			if (k == "evil-double" && m.evilDoubleOK(i)) || (k == "evil-ack" && m.evilAckOK(i)) {
				ok = i
			}
		}
		if ok < 0 || (k == "evil-ack" && rapid.IntRange(0, 5).Draw(t, "evil-go") != 0) {
			op = KUOp{K: "send", Who: rapid.IntRange(0, 1).Draw(t, "who"), PayLen: 3, Ack: true}
		} else {
			op.Who = ok
		}
	}
	return op
}

// evilDoubleOK: endpoint i followed a peer-initiated update and has not sent anything in its current phase.
func (m *kuMachine) evilDoubleOK(i int) bool {
	e := m.e[i]
	return e.gen >= 1 && e.firstSentInGen < 0
}

// evilAckOK: endpoint i initiated an update itself, sent packets in the new phase and has received nothing in it.
func (m *kuMachine) evilAckOK(i int) bool {
	e := m.e[i]
	return e.gen >= 1 && e.firstSentInGen >= 0 && e.firstRcvdInGen < 0 && e.rcvdSameGen == 0 && e.prevAvail && !e.expirySet
}

func (m *kuMachine) roll(e *kuEnd) {
	e.gen++
	e.updates++
	e.ackedInGen = false
	e.firstSentInGen = -1
	e.firstRcvdInGen = -1
	e.rcvdSameGen = 0
	e.prevAvail = true
	e.expirySet = false
}

func kpBit(gen int) protocol.KeyPhaseBit {
	if gen%2 == 0 {
		return protocol.KeyPhaseZero
	}
	return protocol.KeyPhaseOne
}

func isKeyUpdateError(err error) bool {
	var te *qerr.TransportError
	return errors.As(err, &te) && te.ErrorCode == qerr.KeyUpdateError
}

func (m *kuMachine) Apply(op KUOp) *vf.Verdict {
	if m.dead {
		return nil
	}
	m.sig = append(m.sig, op.K[0], byte(op.Who), byte(op.Idx), byte(op.PayLen), byte(op.DtUs>>8))
	switch op.K {
	case "nop":
		return nil
	case "tick":
		m.now += op.DtUs
		return nil
	case "confirm":
		e := m.e[op.Who&1]
		if !e.confirmed {
			e.confirm()
			e.confirmed = true
		}
		return nil
	case "send":
		return m.send(op)
	case "deliver", "dup", "drop":
		if len(m.flight) == 0 {
			return nil
		}
		idx := op.Idx % len(m.flight)
		pkt := m.flight[idx]
		if op.K != "dup" {
			m.flight = append(m.flight[:idx:idx], m.flight[idx+1:]...)
		} else {
			m.nDup++
		}
		if op.K == "drop" {
			return nil
		}
		if idx != 0 {
			m.nReorder++
		}
		return m.deliver(pkt)
	case "forge":
		return m.forge(op)
	case "evil-double":
		return m.evilDouble(op.Who & 1)
	case "evil-ack":
		return m.evilAck(op.Who & 1)
	}
	return nil
}

func (m *kuMachine) payload(who int, pn int64, n int) []byte {
	return expand(m.p.Seed^uint64(pn*2+int64(who))^0x5555, n)
}

func (m *kuMachine) send(op KUOp) *vf.Verdict {
	who := op.Who & 1
	s := m.e[who]
	kp := s.sealer.KeyPhase()
	if kp != kpBit(s.gen) {
		// the endpoint initiated a key update
		if !s.confirmed {
			return vf.Bad("C05/keyupdate/update-before-handshake-confirmed", "endpoint %d initiated a key update to generation %d before the handshake was confirmed (RFC 9001 6.1)", who, s.gen+1)
		}
		if s.gen > 0 && !s.ackedInGen {
			return vf.Bad("C05/keyupdate/update-before-ack-in-current-phase", "endpoint %d initiated a key update to generation %d although no packet sent in generation %d (first pn %d) was acknowledged (largest acked %d) (RFC 9001 6.1)",
				who, s.gen+1, s.gen, s.firstSentInGen, s.largestAcked)
		}
		m.roll(s)
		m.nLocal++
		if kp != kpBit(s.gen) {
			return vf.Bad("C05/keyupdate/phase-bit", "KeyPhase() returned %v for generation %d", kp, s.gen)
		}
	}
	if op.Skip {
		s.nextPN++ // a skipped packet number (skippingPacketNumberGenerator) is never sent
	}
	pn := s.nextPN
	s.nextPN++
	pnLen := protocol.PacketNumberLengthForHeader(protocol.PacketNumber(pn), protocol.PacketNumber(s.largestAcked))
	payLen := max(op.PayLen, 1, 4-int(pnLen))
	payload := m.payload(who, pn, payLen)
	raw := make([]byte, 0, 1+len(m.cid)+4+payLen+32)
	raw, err := wire.AppendShortHeader(raw, protocol.ParseConnectionID(m.cid), protocol.PacketNumber(pn), pnLen, kp)
	if err != nil {
		return vf.Bad("C05/keyupdate/header-append", "AppendShortHeader: %v", err)
	}
	off := len(raw)
	plainHdr := append([]byte{}, raw...)
	raw = append(raw, payload...)
	data := quic.VerifEncryptPacket(raw, s.sealer, protocol.PacketNumber(pn), protocol.ByteCount(off), protocol.ByteCount(pnLen))
	data = append([]byte{}, data...)
	if s.firstPN != nil && s.lastSentPN < 0 {
		if fp := s.firstPN(); int64(fp) != pn {
			return vf.Bad("C05/keyupdate/first-packet-number", "FirstPacketNumber() = %d after sending pn %d first", fp, pn)
		}
	}

	// independent reader: RFC keys of this generation must open the packet
	check := func() error {
		h, rpn, rl, pl, err := refcrypto.Unprotect(m.keys(s, s.gen), data, 1+len(m.cid), pn-1)
		if err != nil {
			return err
		}
		if !eqBytes(h, plainHdr) || int64(rpn) != pn || rl != int(pnLen) || !eqBytes(pl, payload) {
			return fmt.Errorf("opened to different header/payload: hdr %s pn %d len %d", hx(h), rpn, rl)
		}
		return nil
	}
	if err := check(); err != nil {
		if s.gen >= 1 && m.p.V == 2 && !m.kuAlt {
			// diagnose: does the chain built with the v1 label "quic ku" open it?
			m.kuAlt = true
			m.e[0].sendKeys = m.e[0].sendKeys[:1]
			m.e[1].sendKeys = m.e[1].sendKeys[:1]
			if err2 := check(); err2 == nil {
				v := vf.Bad(sigV2KULabel, "QUIC v2, %s: after a key update (generation %d) the packet is protected with keys chained by the label \"quic ku\"; RFC 9369 section 3.3.2 requires \"quicv2 ku\" (refcrypto with the RFC label: %v). updatable_aead.go getNextTrafficSecret ignores the version.", suiteLabel(m.p.Suite), s.gen, err)
				if vf.IsKnown(sigV2KULabel) {
					m.u.Report(v, nil) // counted as known hit; keep exploring with the implementation's chain
				} else {
					return v
				}
			} else {
				return vf.Bad("C05/keyupdate/ref-cannot-open", "endpoint %d generation %d pn %d (v2): RFC keys do not open the packet (%v), nor does the v1-label chain (%v)", who, s.gen, pn, err, err2)
			}
		} else {
			return vf.Bad("C05/keyupdate/ref-cannot-open", "endpoint %d generation %d pn %d: refcrypto keys of that generation do not open the packet: %v", who, s.gen, pn, err)
		}
	}

	pkt := &kuPkt{from: who, data: data, pn: pn, gen: s.gen, payload: payload, ackLargest: -1, sentAt: m.now}
	if op.Ack && len(s.received) > 0 {
		pkt.ackLargest = s.highestRcvd
		for p := range s.received {
			pkt.ackSet = append(pkt.ackSet, p)
		}
		sort.Slice(pkt.ackSet, func(i, j int) bool { return pkt.ackSet[i] < pkt.ackSet[j] })
	}
	s.sentGen[pn] = s.gen
	s.lastSentPN = pn
	if s.firstSentInGen < 0 {
		s.firstSentInGen = pn
	}
	m.flight = append(m.flight, pkt)
	return nil
}

func (m *kuMachine) deliver(pkt *kuPkt) *vf.Verdict {
	who := 1 - pkt.from
	r := m.e[who]
	// lazy drop of the previous read keys (RFC 9001 6.5: retained for 3 PTO after the first packet of the new phase)
	if r.prevAvail && r.expirySet && m.now > r.expiry {
		r.prevAvail = false
	}
	const (
		mustOpen = iota
		mustFail
		mayFail
	)
	expect := mustFail
	willRoll := false
	switch {
	case pkt.gen == r.gen:
		expect = mustOpen
	case pkt.gen == r.gen+1:
		expect = mustOpen
		willRoll = true
		if r.gen > 0 && r.firstSentInGen < 0 {
			// cannot happen with an honest peer (its update needs our ACK, which we send in the current phase)
			return vf.Bad("C05/keyupdate/model-internal", "honest peer two generations ahead")
		}
	case pkt.gen == r.gen-1:
		if r.prevAvail {
			expect = mustOpen
		} else {
			expect = mayFail
		}
	}
	buf := append([]byte{}, pkt.data...)
	pn, pnLen, kp, data, err := r.unp.UnpackShortHeader(monotime.Time(m.now*1000), buf)
	desc := fmt.Sprintf("endpoint %d (generation %d, prev keys %v) <- pn %d of generation %d at t=%dus", who, r.gen, r.prevAvail, pkt.pn, pkt.gen, m.now)
	if err != nil {
		var te *qerr.TransportError
		if errors.As(err, &te) {
			if te.ErrorCode == qerr.KeyUpdateError {
				return vf.Bad("C05/keyupdate/spurious-key-update-error", "%s: honest history answered with %v", desc, err)
			}
			return vf.Bad("C05/keyupdate/transport-error-on-genuine-packet", "%s: %v", desc, err)
		}
		if expect == mustOpen {
			return vf.Bad("C05/keyupdate/genuine-rejected", "%s: %v", desc, err)
		}
		if pkt.gen == r.gen-1 {
			m.nOldAfterDrop++
		} else {
			m.nStale++
		}
		return nil
	}
	if expect == mustFail {
		return vf.Bad("C05/keyupdate/stale-phase-accepted", "%s: packet of a generation that is neither current, previous nor next was opened", desc)
	}
	if int64(pn) != pkt.pn || kp != kpBit(pkt.gen) || !eqBytes(data, pkt.payload) || pnLen < 1 {
		return vf.Bad("C05/keyupdate/wrong-plaintext", "%s: opened to pn %d kp %v payload %s, want payload %s", desc, pn, kp, hx(data), hx(pkt.payload))
	}
	// model update
	if willRoll {
		m.roll(r)
		m.nRemote++
		r.firstRcvdInGen = pkt.pn
		r.expirySet, r.expiry = true, m.now+m.pto3(r)
	} else if pkt.gen == r.gen {
		r.rcvdSameGen++
		if r.firstRcvdInGen < 0 {
			r.firstRcvdInGen = pkt.pn
			if r.gen > 0 {
				r.expirySet, r.expiry = true, m.now+m.pto3(r)
			}
		}
	} else if pkt.gen == r.gen-1 {
		m.nOldDelivered++
	}
	r.received[pkt.pn] = true
	r.highestRcvd = max(r.highestRcvd, pkt.pn)

	// ACK processing (connection.handleAckFrame)
	newly := false
	for _, p := range pkt.ackSet {
		if !r.ackedByPeer[p] {
			r.ackedByPeer[p] = true
			newly = true
			if r.sentGen[p] == r.gen {
				r.ackedInGen = true
			}
		}
	}
	if newly {
		if err := r.setAcked(protocol.PacketNumber(pkt.ackLargest)); err != nil {
			return vf.Bad("C05/keyupdate/spurious-key-update-error", "%s: SetLargestAcked(%d) in an honest history: %v", desc, pkt.ackLargest, err)
		}
		r.largestAcked = max(r.largestAcked, pkt.ackLargest)
	}
	return nil
}

// craft builds a short header packet with refcrypto (independent header encoder).
func (m *kuMachine) craft(k *refcrypto.Keys, gen int, pn int64, payload []byte) []byte {
	const pnLen = 2
	first := byte(0x40) | byte(pnLen-1)
	if gen%2 == 1 {
		first |= 0x04
	}
	hdr := append([]byte{first}, m.cid...)
	hdr = append(hdr, byte(pn>>8), byte(pn))
	return refcrypto.Protect(k, hdr, 1+len(m.cid), pnLen, uint64(pn), payload)
}

// forge: an off-path attacker modifies a packet in flight (one bit anywhere, including the connection ID and the
// header-protected bits), truncates it, or injects a packet with a far-away packet number under unknown keys. The
// receiver must drop it without any fatal error; the model state does not change, so every later genuine packet is
// still expected to open (in particular the packet number decoding window must not move).
func (m *kuMachine) forge(op KUOp) *vf.Verdict {
	var data []byte
	who := op.Who & 1
	switch {
	case op.Mode == "far" || len(m.flight) == 0:
		r := m.e[who]
		bogus := refcrypto.DeriveKeys(m.p.Suite, refVersion(m.p.V), expand(m.p.Seed+uint64(op.Pos)+77, refcrypto.HashLen(m.p.Suite)))
		pn := uint64(max(r.highestRcvd, 0)) + 1<<30 + uint64(op.Pos)
		first := byte(0x43)
		if op.Pos%2 == 1 {
			first |= 0x04
		}
		hdr := append([]byte{first}, m.cid...)
		hdr = append(hdr, byte(pn>>24), byte(pn>>16), byte(pn>>8), byte(pn))
		data = refcrypto.Protect(bogus, hdr, 1+len(m.cid), 4, pn, expand(uint64(op.Pos), 20))
	default:
		pkt := m.flight[op.Idx%len(m.flight)]
		who = 1 - pkt.from
		data = append([]byte{}, pkt.data...)
		if op.Mode == "trunc" {
			data = data[:op.Pos%len(data)]
		} else {
			bit := op.Pos % (8 * len(data))
			data[bit/8] ^= 1 << uint(bit%8)
		}
	}
	r := m.e[who]
	m.nForged++
	_, _, _, pl, err := r.unp.UnpackShortHeader(monotime.Time(m.now*1000), data)
	if err == nil {
		return vf.Bad("C05/tamper/accepted-modified-packet", "endpoint %d accepted a forged packet (%s, pos %d): payload %s", who, op.Mode, op.Pos, hx(pl))
	}
	var te *qerr.TransportError
	if errors.As(err, &te) {
		return vf.Bad("C05/tamper/fatal-error-on-forgery", "endpoint %d: forged packet (%s, pos %d) answered with %v; it must only be dropped", who, op.Mode, op.Pos, err)
	}
	return nil
}

// evilDouble: the peer updates again although endpoint who has not sent anything in its current phase, so the peer
// cannot have received an acknowledgment for a packet of that phase (RFC 9001 6.1, 6.2).
func (m *kuMachine) evilDouble(who int) *vf.Verdict {
	if !m.evilDoubleOK(who) {
		return nil
	}
	r, p := m.e[who], m.e[1-who]
	m.dead = true
	m.nEvilDouble++
	pn := p.nextPN
	p.nextPN++
	payload := m.payload(1-who, pn, 8)
	data := m.craft(m.keys(p, r.gen+1), r.gen+1, pn, payload)
	_, _, _, pl, err := r.unp.UnpackShortHeader(monotime.Time(m.now*1000), data)
	if err == nil {
		return vf.Bad("C05/keyupdate/consecutive-update-accepted", "endpoint %d (generation %d, nothing sent in it) accepted a packet of generation %d: payload %s", who, r.gen, r.gen+1, hx(pl))
	}
	if !isKeyUpdateError(err) {
		return vf.Bad("C05/keyupdate/consecutive-update-not-flagged", "endpoint %d (generation %d, nothing sent in it) <- packet of generation %d: got %v, want KEY_UPDATE_ERROR", who, r.gen, r.gen+1, err)
	}
	return nil
}

// evilAck: the peer acknowledges a packet of the new phase inside a packet protected with the OLD keys, i.e. without
// having updated itself (RFC 9001 6.2).
func (m *kuMachine) evilAck(who int) *vf.Verdict {
	if !m.evilAckOK(who) {
		return nil
	}
	r, p := m.e[who], m.e[1-who]
	m.dead = true
	m.nEvilAck++
	pn := p.nextPN
	p.nextPN++
	payload := m.payload(1-who, pn, 8)
	data := m.craft(m.keys(p, r.gen-1), r.gen-1, pn, payload)
	_, _, _, pl, err := r.unp.UnpackShortHeader(monotime.Time(m.now*1000), data)
	if err != nil || !eqBytes(pl, payload) {
		return vf.Bad("C05/keyupdate/genuine-rejected", "endpoint %d (self-initiated generation %d) rejected a packet of the previous generation: %v", who, r.gen, err)
	}
	err = r.setAcked(protocol.PacketNumber(r.lastSentPN))
	if err == nil {
		return vf.Bad("C05/keyupdate/ack-for-new-phase-in-old-phase-accepted", "endpoint %d: ACK for pn %d (sent in generation %d, first pn of that generation %d) carried in a packet of generation %d was accepted; want KEY_UPDATE_ERROR", who, r.lastSentPN, r.gen, r.firstSentInGen, r.gen-1)
	}
	if !isKeyUpdateError(err) {
		return vf.Bad("C05/keyupdate/ack-for-new-phase-in-old-phase-accepted", "endpoint %d: got %v, want KEY_UPDATE_ERROR", who, err)
	}
	return nil
}

func (m *kuMachine) Finish(u *vf.Unit) *vf.Verdict {
	m.closer()
	u.Class(fmt.Sprintf("v%d", m.p.V))
	u.Class(suiteLabel(m.p.Suite))
	u.Class("via-" + m.p.Via)
	cnt := func(label string, n int) {
		if n > 0 {
			u.Class(label)
		}
	}
	cnt("local-update", m.nLocal)
	cnt("remote-update", m.nRemote)
	cnt("old-phase-delivered", m.nOldDelivered)
	cnt("old-phase-after-drop", m.nOldAfterDrop)
	cnt("stale-phase-rejected", m.nStale)
	cnt("dup", m.nDup)
	cnt("reorder", m.nReorder)
	cnt("forged", m.nForged)
	cnt("evil-double-update", m.nEvilDouble)
	cnt("evil-ack-old-phase", m.nEvilAck)
	if m.e[0].updates+m.e[1].updates >= 4 {
		u.Class("two-full-updates")
	}
	if m.e[0].updates >= 3 || m.e[1].updates >= 3 {
		u.Class("generation>=3")
	}
	if m.kuAlt {
		u.Class("v2-v1-label-chain")
	}
	// non-trivial (DESIGN C05 NT): a key update happened and a packet of the previous phase was delivered after it
	if m.nLocal+m.nRemote > 0 && m.nOldDelivered > 0 {
		u.NonTrivial(kuUnit, m.p.V, m.p.Suite, m.p.KUI, m.p.First, m.sig)
	}
	return nil
}

func TestKeyUpdate(t *testing.T) {
	vf.RunMachine(t, kuUnit, 80, genKUParams, newKUMachine)
}
