package c05

import (
	"fmt"
	"testing"

	"pgregory.net/rapid"

	"github.com/refraction-networking/uquic/internal/handshake"
	"github.com/refraction-networking/uquic/internal/protocol"
	"github.com/refraction-networking/uquic/internal/wire"
	"github.com/refraction-networking/uquic/verif/refcrypto"
	"github.com/refraction-networking/uquic/verif/vf"
)

// (f) Retry integrity tag: handshake.GetRetryIntegrityTag(retryWithoutTag, odcid, version) equals the RFC 9001
// section 5.8 / RFC 9369 section 3.3.3 computation, and changes with any modification of the Retry bytes, the
// original destination connection ID or the version (server.go sendRetry and connection.go handleRetryPacket
// compare exactly these 16 bytes).

type RetryMut struct {
	K   string `json:"k"` // flip-retry | flip-odcid | version | trunc | extend | move-boundary | odcid-trunc | odcid-extend
	Pos int    `json:"pos"`
	Bit int    `json:"bit"`
}

type RetryCase struct {
	V      int        `json:"v"`
	ODCID  B          `json:"odcid"`
	Real   bool       `json:"real"`  // build a well-formed Retry header with wire.ExtendedHeader.Append
	DCID   B          `json:"dcid"`  // Real
	SCID   B          `json:"scid"`  // Real
	Token  B          `json:"token"` // Real
	Raw    B          `json:"raw"`   // !Real: arbitrary bytes
	Muts   []RetryMut `json:"muts"`
	Repeat int        `json:"repeat"`
}

func genRetry(t *rapid.T) RetryCase {
	c := RetryCase{V: rapid.IntRange(1, 2).Draw(t, "v")}
	c.ODCID = genCID(t, "odcid")
	c.Real = rapid.Bool().Draw(t, "real")
	if c.Real {
		c.DCID = genCID(t, "dcid")
		c.SCID = genCID(t, "scid")
		c.Token = B(rapid.SliceOfN(rapid.Byte(), 1, 120).Draw(t, "token"))
	} else {
		c.Raw = B(rapid.SliceOfN(rapid.Byte(), 0, 200).Draw(t, "raw"))
	}
	n := rapid.IntRange(1, 6).Draw(t, "nmuts")
	for i := 0; i < n; i++ {
		c.Muts = append(c.Muts, RetryMut{
			K:   rapid.SampledFrom([]string{"flip-retry", "flip-retry", "flip-odcid", "version", "trunc", "extend", "move-boundary", "odcid-trunc", "odcid-extend"}).Draw(t, "mut"),
			Pos: rapid.IntRange(0, 400).Draw(t, "pos"),
			Bit: rapid.IntRange(0, 7).Draw(t, "bit"),
		})
	}
	c.Repeat = rapid.IntRange(1, 3).Draw(t, "repeat")
	return c
}

func checkRetry(c RetryCase, u *vf.Unit) *vf.Verdict {
	pv, rv := protoVersion(c.V), refVersion(c.V)
	retry := []byte(c.Raw)
	if c.Real {
		h := &wire.ExtendedHeader{Header: wire.Header{
			Type:             protocol.PacketTypeRetry,
			Version:          pv,
			DestConnectionID: protocol.ParseConnectionID(c.DCID),
			SrcConnectionID:  protocol.ParseConnectionID(c.SCID),
			Token:            c.Token,
		}}
		var err error
		retry, err = h.Append(nil, pv)
		if err != nil {
			return vf.Bad("C05/retry/header-append", "%v", err)
		}
		// independent view of the Retry header: RFC 9000 17.2.5; RFC 9369 3.2 (type bits 0b00 in v2, 0b11 in v1)
		wantType := byte(3)
		if c.V == 2 {
			wantType = 0
		}
		if retry[0]&0xc0 != 0xc0 || retry[0]>>4&3 != wantType {
			return vf.Bad("C05/retry/header-type-bits", "Retry first byte %#02x for version %d", retry[0], c.V)
		}
	}
	tagOf := func(r []byte, odcid []byte, v protocol.Version) [16]byte {
		return *handshake.GetRetryIntegrityTag(r, protocol.ParseConnectionID(odcid), v)
	}
	var tag [16]byte
	for i := 0; i < c.Repeat; i++ { // the implementation reuses a package-level buffer
		tag = tagOf(retry, c.ODCID, pv)
		want := refcrypto.RetryIntegrityTag(rv, c.ODCID, retry)
		if tag != want {
			return vf.Bad("C05/retry/tag-differs-from-rfc", "version %d odcid %x retry %s: tag %x, RFC 9001 5.8 gives %x (call #%d)", c.V, []byte(c.ODCID), hx(retry), tag, want, i)
		}
	}
	for i, m := range c.Muts {
		r2 := append([]byte{}, retry...)
		o2 := append([]byte{}, c.ODCID...)
		v2, rv2 := pv, rv
		switch m.K {
		case "flip-retry":
			if len(r2) == 0 {
				continue
			}
			r2[m.Pos%len(r2)] ^= 1 << uint(m.Bit)
		case "flip-odcid":
			if len(o2) == 0 {
				continue
			}
			o2[m.Pos%len(o2)] ^= 1 << uint(m.Bit)
		case "version":
			if c.V == 1 {
				v2, rv2 = protocol.Version2, refcrypto.V2
			} else {
				v2, rv2 = protocol.Version1, refcrypto.V1
			}
		case "trunc":
			if len(r2) == 0 {
				continue
			}
			r2 = r2[:len(r2)-1-m.Pos%len(r2)]
		case "extend":
			r2 = append(r2, expand(uint64(m.Pos), 1+m.Bit)...)
		case "move-boundary": // same concatenated bytes, different split between ODCID and Retry
			if len(r2) == 0 || len(o2) >= 20 {
				continue
			}
			o2 = append(o2, r2[0])
			r2 = r2[1:]
		case "odcid-trunc":
			if len(o2) == 0 {
				continue
			}
			o2 = o2[:len(o2)-1]
		case "odcid-extend":
			if len(o2) >= 20 {
				continue
			}
			o2 = append(o2, byte(m.Pos))
		}
		t2 := tagOf(r2, o2, v2)
		if w := refcrypto.RetryIntegrityTag(rv2, o2, r2); t2 != w {
			return vf.Bad("C05/retry/tag-differs-from-rfc", "mutation #%d %+v: tag %x, RFC gives %x", i, m, t2, w)
		}
		if t2 == tag {
			return vf.Bad("C05/retry/tag-insensitive", "mutation #%d %+v leaves the Retry integrity tag unchanged (%x)", i, m, tag)
		}
		u.Class("mut-" + m.K)
	}
	// the original is still computed correctly after other inputs went through the shared buffer
	if again := tagOf(retry, c.ODCID, pv); again != tag {
		return vf.Bad("C05/retry/tag-not-deterministic", "tag changed between calls: %x then %x", tag, again)
	}
	u.Class(fmt.Sprintf("v%d", c.V))
	u.Class(fmt.Sprintf("odcid-len-%d", len(c.ODCID)))
	if c.Real {
		u.Class("wellformed-retry")
	} else {
		u.Class("raw-bytes")
	}
	u.NonTrivial("retry", c.V, []byte(c.ODCID), retry)
	return nil
}

func TestRetry(t *testing.T) {
	vf.RunRapid(t, "retry", genRetry, checkRetry)
}

// ---- HKDF-Expand-Label differential (internal/handshake/hkdf.go vs RFC 8446 7.1 / RFC 5869) ----

type HKDFCase struct {
	Suite   uint16 `json:"suite"`
	Secret  B      `json:"secret"`
	Context B      `json:"context"`
	Label   string `json:"label"`
	Length  int    `json:"length"`
}

func genHKDF(t *rapid.T) HKDFCase {
	c := HKDFCase{Suite: rapid.SampledFrom(refcrypto.Suites).Draw(t, "suite")}
	n := refcrypto.HashLen(c.Suite)
	if rapid.IntRange(0, 4).Draw(t, "odd-secret") == 0 {
		n = rapid.IntRange(1, 100).Draw(t, "secret-len")
	}
	c.Secret = B(rapid.SliceOfN(rapid.Byte(), n, n).Draw(t, "secret"))
	c.Context = B(rapid.SliceOfN(rapid.Byte(), 0, 64).Draw(t, "context"))
	if rapid.IntRange(0, 2).Draw(t, "known-label") != 0 {
		c.Label = rapid.SampledFrom([]string{"quic key", "quic iv", "quic hp", "quic ku", "quicv2 key", "quicv2 iv", "quicv2 hp", "quicv2 ku", "client in", "server in", "traffic upd"}).Draw(t, "label")
	} else {
		c.Label = rapid.StringMatching(`[a-z0-9 ]{1,40}`).Draw(t, "label")
	}
	c.Length = rapid.SampledFrom([]int{1, 12, 16, 32, 48, 64, 100, 255}).Draw(t, "length")
	return c
}

func checkHKDF(c HKDFCase, u *vf.Unit) *vf.Verdict {
	got := handshake.VerifHKDFExpandLabel(c.Suite, c.Secret, c.Context, c.Label, c.Length)
	want := refcrypto.HKDFExpandLabel(c.Suite, c.Secret, c.Context, c.Label, c.Length)
	if !eqBytes(got, want) {
		return vf.Bad("C05/hkdf/expand-label-differs-from-rfc", "%s label %q context %x length %d: %x, RFC 8446 7.1 gives %x", suiteLabel(c.Suite), c.Label, []byte(c.Context), c.Length, got, want)
	}
	// nil and empty context are the same
	if len(c.Context) == 0 {
		if g2 := handshake.VerifHKDFExpandLabel(c.Suite, c.Secret, nil, c.Label, c.Length); !eqBytes(g2, want) {
			return vf.Bad("C05/hkdf/expand-label-differs-from-rfc", "nil context differs from empty context")
		}
	}
	u.Class(suiteLabel(c.Suite))
	u.NonTrivial("hkdf", c.Suite, []byte(c.Secret), []byte(c.Context), c.Label, c.Length)
	return nil
}

func TestHKDF(t *testing.T) {
	vf.RunRapid(t, "hkdf", genHKDF, checkHKDF)
}
