// C05: Packet protection round-trips, matches RFC 9001 / RFC 9369, and rejects any tampering.
//
// Oracle: the independent implementation in ../refcrypto (written from the RFCs, validated against
// the RFC 9001 / RFC 9369 appendix vectors) plus small reference models (key phase state machine,
// RFC 9000 A.2/A.3 packet number codec).
//
// Units (see NOTES.md): initial (a), tamper + FuzzTamper (c), keyupdate (d), pn-exhaustive / pn-random /
// pngen (e), retry (f), hkdf.
package c05

import (
	"bytes"
	"encoding/hex"
	"encoding/json"
	"errors"
	"fmt"
	"testing"

	"github.com/refraction-networking/uquic/internal/handshake"
	"github.com/refraction-networking/uquic/internal/protocol"
	"github.com/refraction-networking/uquic/verif/refcrypto"
	"github.com/refraction-networking/uquic/verif/vf"
)

func TestMain(m *testing.M) { vf.Main(m) }

// B is a byte slice that serialises as a hex string (readable replay files).
type B []byte

func (b B) MarshalJSON() ([]byte, error) { return json.Marshal(hex.EncodeToString(b)) }

func (b *B) UnmarshalJSON(d []byte) error {
	var s string
	if err := json.Unmarshal(d, &s); err != nil {
		return err
	}
	x, err := hex.DecodeString(s)
	if err != nil {
		return err
	}
	*b = x
	return nil
}

// expand produces n deterministic pseudo-random bytes from a seed (xorshift64*); payloads and header
// filler are derived this way so that cases stay small and replay without any RNG.
func expand(seed uint64, n int) []byte {
	x := seed*0x9e3779b97f4a7c15 + 0x243f6a8885a308d3
	if x == 0 {
		x = 1
	}
	out := make([]byte, n)
	for i := range out {
		x ^= x >> 12
		x ^= x << 25
		x ^= x >> 27
		out[i] = byte((x * 0x2545f4914f6cdd1d) >> 56)
	}
	return out
}

func protoVersion(v int) protocol.Version {
	if v == 2 {
		return protocol.Version2
	}
	return protocol.Version1
}

func refVersion(v int) uint32 {
	if v == 2 {
		return refcrypto.V2
	}
	return refcrypto.V1
}

func suiteLabel(s uint16) string {
	switch s {
	case refcrypto.TLS_AES_128_GCM_SHA256:
		return "aes128"
	case refcrypto.TLS_AES_256_GCM_SHA384:
		return "aes256"
	case refcrypto.TLS_CHACHA20_POLY1305_SHA256:
		return "chacha20"
	}
	return fmt.Sprintf("suite-%x", s)
}

// ---- independent varint and long header codec (RFC 9000 sections 16, 17.2; RFC 9369 section 3.2) ----

func appendVarint(b []byte, v uint64, minBytes int) []byte {
	n := 1
	switch {
	case v >= 1<<30:
		n = 8
	case v >= 1<<14:
		n = 4
	case v >= 1<<6:
		n = 2
	}
	if minBytes > n {
		n = minBytes
	}
	switch n {
	case 1:
		return append(b, byte(v))
	case 2:
		return append(b, 0x40|byte(v>>8), byte(v))
	case 4:
		return append(b, 0x80|byte(v>>24), byte(v>>16), byte(v>>8), byte(v))
	default:
		return append(b, 0xc0|byte(v>>56), byte(v>>48), byte(v>>40), byte(v>>32), byte(v>>24), byte(v>>16), byte(v>>8), byte(v))
	}
}

func readVarint(b []byte) (v uint64, n int, err error) {
	if len(b) == 0 {
		return 0, 0, errors.New("varint: empty")
	}
	n = 1 << (b[0] >> 6)
	if len(b) < n {
		return 0, 0, errors.New("varint: short")
	}
	v = uint64(b[0] & 0x3f)
	for i := 1; i < n; i++ {
		v = v<<8 | uint64(b[i])
	}
	return v, n, nil
}

// long packet types (abstract)
const (
	ltInitial   = 0
	ltZeroRTT   = 1
	ltHandshake = 2
)

// longTypeBits returns the two type bits of the first byte. RFC 9000 17.2: Initial 0, 0-RTT 1,
// Handshake 2, Retry 3. RFC 9369 3.2: Initial 1, 0-RTT 2, Handshake 3, Retry 0.
func longTypeBits(version uint32, typ int) byte {
	if version == refcrypto.V2 {
		return byte(typ + 1)
	}
	return byte(typ)
}

type longHdr struct {
	Version    uint32
	Type       int
	DCID, SCID []byte
	Token      []byte
	Length     uint64
}

// encodeLongHeader builds an unprotected long header ending with the truncated packet number.
func encodeLongHeader(h longHdr, pnLen int, pn uint64, lengthVarintBytes int) (hdr []byte, pnOffset int) {
	first := byte(0xc0) | longTypeBits(h.Version, h.Type)<<4 | byte(pnLen-1)
	b := []byte{first, byte(h.Version >> 24), byte(h.Version >> 16), byte(h.Version >> 8), byte(h.Version)}
	b = append(b, byte(len(h.DCID)))
	b = append(b, h.DCID...)
	b = append(b, byte(len(h.SCID)))
	b = append(b, h.SCID...)
	if h.Type == ltInitial {
		b = appendVarint(b, uint64(len(h.Token)), 0)
		b = append(b, h.Token...)
	}
	b = appendVarint(b, h.Length, lengthVarintBytes)
	pnOffset = len(b)
	tr := refcrypto.TruncatePacketNumber(pn, pnLen)
	for i := pnLen - 1; i >= 0; i-- {
		b = append(b, byte(tr>>(8*uint(i))))
	}
	return b, pnOffset
}

// parseLongHeader parses the part of a long header that is not header-protected (everything except the
// low 4 bits of the first byte and the packet number). end is the end of the packet per the Length field.
func parseLongHeader(pkt []byte) (h longHdr, pnOffset, end int, err error) {
	if len(pkt) < 7 || pkt[0]&0x80 == 0 {
		return h, 0, 0, errors.New("not a long header")
	}
	if pkt[0]&0x40 == 0 {
		return h, 0, 0, errors.New("fixed bit not set")
	}
	h.Version = uint32(pkt[1])<<24 | uint32(pkt[2])<<16 | uint32(pkt[3])<<8 | uint32(pkt[4])
	tb := int(pkt[0] >> 4 & 3)
	if h.Version == refcrypto.V2 {
		tb = (tb + 3) % 4 // v2: Retry 0, Initial 1, 0-RTT 2, Handshake 3
	}
	if tb == 3 {
		return h, 0, 0, errors.New("retry packet")
	}
	h.Type = tb
	p := 5
	dl := int(pkt[p])
	p++
	if dl > 20 || len(pkt) < p+dl+1 {
		return h, 0, 0, errors.New("bad dcid")
	}
	h.DCID = append([]byte{}, pkt[p:p+dl]...)
	p += dl
	sl := int(pkt[p])
	p++
	if sl > 20 || len(pkt) < p+sl {
		return h, 0, 0, errors.New("bad scid")
	}
	h.SCID = append([]byte{}, pkt[p:p+sl]...)
	p += sl
	if h.Type == ltInitial {
		tl, n, err := readVarint(pkt[p:])
		if err != nil {
			return h, 0, 0, err
		}
		p += n
		if uint64(len(pkt)-p) < tl {
			return h, 0, 0, errors.New("bad token")
		}
		h.Token = append([]byte{}, pkt[p:p+int(tl)]...)
		p += int(tl)
	}
	l, n, err := readVarint(pkt[p:])
	if err != nil {
		return h, 0, 0, err
	}
	p += n
	h.Length = l
	if uint64(len(pkt)-p) < l {
		return h, 0, 0, errors.New("length field exceeds packet")
	}
	return h, p, p + int(l), nil
}

// ---- fake CryptoSetup handing fixed openers to the real packetUnpacker ----

type fakeCS struct {
	handshake.CryptoSetup // nil: any other method would panic (none is called by the unpacker)
	initial               handshake.LongHeaderOpener
	hs                    handshake.LongHeaderOpener
	zero                  handshake.LongHeaderOpener
	one                   handshake.ShortHeaderOpener
}

func (f *fakeCS) GetInitialOpener() (handshake.LongHeaderOpener, error) {
	if f.initial == nil {
		return nil, handshake.ErrKeysDropped
	}
	return f.initial, nil
}

func (f *fakeCS) GetHandshakeOpener() (handshake.LongHeaderOpener, error) {
	if f.hs == nil {
		return nil, handshake.ErrKeysDropped
	}
	return f.hs, nil
}

func (f *fakeCS) Get0RTTOpener() (handshake.LongHeaderOpener, error) {
	if f.zero == nil {
		return nil, handshake.ErrKeysDropped
	}
	return f.zero, nil
}

func (f *fakeCS) Get1RTTOpener() (handshake.ShortHeaderOpener, error) {
	if f.one == nil {
		return nil, handshake.ErrKeysNotYetAvailable
	}
	return f.one, nil
}

func eqBytes(a, b []byte) bool { return bytes.Equal(a, b) }

func hx(b []byte) string {
	if len(b) > 48 {
		return hex.EncodeToString(b[:48]) + fmt.Sprintf("...(%d bytes)", len(b))
	}
	return hex.EncodeToString(b)
}
