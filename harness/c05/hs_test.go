package c05

import (
	"bytes"
	"context"
	"crypto/ed25519"
	"crypto/rand"
	"crypto/x509"
	"crypto/x509/pkix"
	"encoding/hex"
	"fmt"
	"math/big"
	"net"
	"strings"
	"sync"
	"time"

	tls "github.com/refraction-networking/utls"

	"github.com/refraction-networking/uquic/internal/handshake"
	"github.com/refraction-networking/uquic/internal/protocol"
	"github.com/refraction-networking/uquic/internal/utils"
	"github.com/refraction-networking/uquic/internal/wire"
)

// In-memory TLS handshake between handshake.NewCryptoSetupClient (or the uTLS based
// NewUCryptoSetupClient with a ClientHelloSpec that offers a single cipher suite) and
// handshake.NewCryptoSetupServer, driven exactly like /repo/internal/handshake/crypto_setup_test.go
// (StartHandshake / NextEvent / HandleMessage). The traffic secrets are captured with
// tls.Config.KeyLogWriter on the client.

var (
	certOnce sync.Once
	tlsCert  tls.Certificate
)

func serverCert() tls.Certificate {
	certOnce.Do(func() {
		pub, priv, err := ed25519.GenerateKey(rand.Reader)
		if err != nil {
			panic(err)
		}
		tmpl := &x509.Certificate{
			SerialNumber: big.NewInt(1),
			Subject:      pkix.Name{CommonName: "localhost"},
			NotBefore:    time.Now().Add(-time.Hour),
			NotAfter:     time.Now().Add(24 * time.Hour),
			KeyUsage:     x509.KeyUsageDigitalSignature,
			ExtKeyUsage:  []x509.ExtKeyUsage{x509.ExtKeyUsageServerAuth},
			DNSNames:     []string{"localhost"},
		}
		der, err := x509.CreateCertificate(rand.Reader, tmpl, tmpl, pub, priv)
		if err != nil {
			panic(err)
		}
		tlsCert = tls.Certificate{Certificate: [][]byte{der}, PrivateKey: priv}
	})
	return tlsCert
}

type keyLog struct {
	mu  sync.Mutex
	buf bytes.Buffer
}

func (k *keyLog) Write(p []byte) (int, error) {
	k.mu.Lock()
	defer k.mu.Unlock()
	return k.buf.Write(p)
}

// secrets parses the NSS key log: label -> secret
func (k *keyLog) secrets() map[string][]byte {
	k.mu.Lock()
	defer k.mu.Unlock()
	out := map[string][]byte{}
	for _, line := range strings.Split(k.buf.String(), "\n") {
		f := strings.Fields(line)
		if len(f) != 3 {
			continue
		}
		b, err := hex.DecodeString(f[2])
		if err == nil {
			out[f[0]] = b
		}
	}
	return out
}

type hsResult struct {
	client, server handshake.CryptoSetup
	suite          uint16
	// traffic secrets
	cHS, sHS, cAp, sAp []byte
	clientRTT          *utils.RTTStats
	serverRTT          *utils.RTTStats
}

// forcedSpec returns a ClientHelloSpec for the uTLS client that offers exactly one TLS 1.3 cipher suite.
func forcedSpec(suite uint16) *tls.ClientHelloSpec {
	return &tls.ClientHelloSpec{
		TLSVersMin:         tls.VersionTLS13,
		TLSVersMax:         tls.VersionTLS13,
		CipherSuites:       []uint16{suite},
		CompressionMethods: []uint8{0},
		Extensions: []tls.TLSExtension{
			&tls.SNIExtension{},
			&tls.SupportedCurvesExtension{Curves: []tls.CurveID{tls.X25519, tls.CurveP256}},
			&tls.ALPNExtension{AlpnProtocols: []string{"c05"}},
			&tls.SignatureAlgorithmsExtension{SupportedSignatureAlgorithms: []tls.SignatureScheme{
				tls.Ed25519, tls.ECDSAWithP256AndSHA256, tls.PSSWithSHA256,
			}},
			&tls.KeyShareExtension{KeyShares: []tls.KeyShare{{Group: tls.X25519}}},
			&tls.PSKKeyExchangeModesExtension{Modes: []uint8{tls.PskModeDHE}},
			&tls.SupportedVersionsExtension{Versions: []uint16{tls.VersionTLS13}},
			&tls.QUICTransportParametersExtension{TransportParameters: tls.TransportParameters{
				tls.InitialMaxData(1 << 20),
				tls.InitialMaxStreamDataBidiLocal(1 << 18),
				tls.InitialMaxStreamDataBidiRemote(1 << 18),
				tls.InitialMaxStreamDataUni(1 << 18),
				tls.InitialMaxStreamsBidi(10),
				tls.InitialMaxStreamsUni(10),
				tls.MaxIdleTimeout(30000),
				tls.InitialSourceConnectionID([]byte{}),
			}},
		},
	}
}

// doHandshake completes a handshake. forceSuite == 0 uses the standard client (suite chosen by the TLS
// stack); otherwise the uTLS client offers only that suite.
func doHandshake(version protocol.Version, forceSuite uint16, dcid protocol.ConnectionID) (*hsResult, error) {
	kl := &keyLog{}
	clientConf := &tls.Config{
		ServerName:         "localhost",
		InsecureSkipVerify: true,
		NextProtos:         []string{"c05"},
		KeyLogWriter:       kl,
	}
	serverConf := &tls.Config{
		MinVersion:   tls.VersionTLS13,
		Certificates: []tls.Certificate{serverCert()},
		NextProtos:   []string{"c05"},
	}
	res := &hsResult{clientRTT: utils.NewRTTStats(), serverRTT: utils.NewRTTStats()}
	ctp := &wire.TransportParameters{ActiveConnectionIDLimit: 2}
	if forceSuite == 0 {
		res.client = handshake.NewCryptoSetupClient(dcid, ctp, clientConf, false, res.clientRTT, nil, utils.DefaultLogger, version)
	} else {
		res.client = handshake.NewUCryptoSetupClient(dcid, ctp, clientConf, false, res.clientRTT, nil, utils.DefaultLogger, version, forcedSpec(forceSuite))
	}
	var token protocol.StatelessResetToken
	stp := &wire.TransportParameters{ActiveConnectionIDLimit: 2, StatelessResetToken: &token}
	res.server = handshake.NewCryptoSetupServer(dcid,
		&net.UDPAddr{IP: net.IPv6loopback, Port: 1234}, &net.UDPAddr{IP: net.IPv6loopback, Port: 4321},
		stp, serverConf, false, res.serverRTT, nil, utils.DefaultLogger, version)

	client, server := res.client, res.server
	if err := client.StartHandshake(context.Background()); err != nil {
		return nil, fmt.Errorf("client start: %w", err)
	}
	if err := server.StartHandshake(context.Background()); err != nil {
		return nil, fmt.Errorf("server start: %w", err)
	}
	var cDone, sDone bool
	for round := 0; !(cDone && sDone); round++ {
		if round > 20 {
			return nil, fmt.Errorf("handshake did not complete")
		}
	clientLoop:
		for {
			ev := client.NextEvent()
			switch ev.Kind {
			case handshake.EventNoEvent:
				break clientLoop
			case handshake.EventWriteInitialData:
				if err := server.HandleMessage(ev.Data, protocol.EncryptionInitial); err != nil {
					return nil, fmt.Errorf("server: %w", err)
				}
			case handshake.EventWriteHandshakeData:
				if err := server.HandleMessage(ev.Data, protocol.EncryptionHandshake); err != nil {
					return nil, fmt.Errorf("server: %w", err)
				}
			case handshake.EventHandshakeComplete:
				cDone = true
			}
		}
	serverLoop:
		for {
			ev := server.NextEvent()
			switch ev.Kind {
			case handshake.EventNoEvent:
				break serverLoop
			case handshake.EventWriteInitialData:
				if err := client.HandleMessage(ev.Data, protocol.EncryptionInitial); err != nil {
					return nil, fmt.Errorf("client: %w", err)
				}
			case handshake.EventWriteHandshakeData:
				if err := client.HandleMessage(ev.Data, protocol.EncryptionHandshake); err != nil {
					return nil, fmt.Errorf("client: %w", err)
				}
			case handshake.EventHandshakeComplete:
				sDone = true
			}
		}
	}
	res.suite = client.ConnectionState().CipherSuite
	if s := server.ConnectionState().CipherSuite; s != res.suite {
		return nil, fmt.Errorf("cipher suite mismatch %x %x", res.suite, s)
	}
	sec := kl.secrets()
	res.cHS = sec["CLIENT_HANDSHAKE_TRAFFIC_SECRET"]
	res.sHS = sec["SERVER_HANDSHAKE_TRAFFIC_SECRET"]
	res.cAp = sec["CLIENT_TRAFFIC_SECRET_0"]
	res.sAp = sec["SERVER_TRAFFIC_SECRET_0"]
	if res.cHS == nil || res.sHS == nil || res.cAp == nil || res.sAp == nil {
		return nil, fmt.Errorf("key log incomplete: %v", len(sec))
	}
	return res, nil
}

func (r *hsResult) close() {
	r.client.Close()
	r.server.Close()
}
