package c05

import (
	"errors"
	"fmt"
	"testing"

	"pgregory.net/rapid"

	"github.com/refraction-networking/uquic/internal/handshake"
	"github.com/refraction-networking/uquic/internal/monotime"
	"github.com/refraction-networking/uquic/internal/protocol"
	"github.com/refraction-networking/uquic/internal/utils"
	"github.com/refraction-networking/uquic/verif/refcrypto"
	"github.com/refraction-networking/uquic/verif/vf"
)

// (c) Tampering and differential for Handshake-level (long header) and 1-RTT (updatable) AEADs of all three
// cipher suites and both versions. The AEADs come either from a completed in-memory TLS handshake
// (Via "hs": standard client, or the uTLS client offering exactly one suite) or from the verif hook
// constructors around createAEAD/newLongHeaderSealer/newUpdatableAEAD with a drawn traffic secret (Via "hook").

type Mut struct {
	Kind string `json:"k"` // flip-ct | flip-tag | flip-ad | trunc | extend | prepend | ad-trunc | ad-extend | pn-bit | pn-add | kp | shift-l | shift-r | tag-swap | zero-tag | empty
	Pos  int    `json:"pos,omitempty"`
	Bit  int    `json:"bit,omitempty"`
	N    int    `json:"n,omitempty"`
}

type TamperCase struct {
	Via    string `json:"via"`   // hook | hs
	Level  string `json:"level"` // handshake | 1rtt
	Suite  uint16 `json:"suite"` // hs: 0 = let the TLS stack choose
	V      int    `json:"v"`
	Dir    string `json:"dir"`    // c2s | s2c
	Secret B      `json:"secret"` // hook only
	PN     uint64 `json:"pn"`
	ADLen  int    `json:"adlen"`
	PayLen int    `json:"paylen"`
	Seed   uint64 `json:"seed"`
	Muts   []Mut  `json:"muts"`
}

var mutKinds = []string{"flip-ct", "flip-ct", "flip-tag", "flip-tag", "flip-ad", "flip-ad", "trunc", "extend", "prepend", "ad-trunc", "ad-extend",
	"pn-bit", "pn-add", "kp", "shift-l", "shift-r", "tag-swap", "zero-tag", "empty"}

func genPN(t *rapid.T) uint64 {
	switch rapid.IntRange(0, 5).Draw(t, "pn-mode") {
	case 0:
		return 0
	case 1:
		return refcrypto.MaxPN
	case 2:
		return uint64(rapid.IntRange(0, 300).Draw(t, "pn-small"))
	default:
		bits := rapid.IntRange(1, 62).Draw(t, "pn-bits")
		return rapid.Uint64Range(0, uint64(1)<<uint(bits)-1).Draw(t, "pn")
	}
}

func genTamper(t *rapid.T) TamperCase {
	c := TamperCase{}
	c.Via = "hook"
	if rapid.IntRange(0, 7).Draw(t, "via") == 0 {
		c.Via = "hs"
	}
	c.Level = rapid.SampledFrom([]string{"handshake", "1rtt"}).Draw(t, "level")
	c.V = rapid.IntRange(1, 2).Draw(t, "v")
	c.Dir = rapid.SampledFrom([]string{"c2s", "s2c"}).Draw(t, "dir")
	if c.Via == "hs" {
		c.Suite = rapid.SampledFrom([]uint16{0, refcrypto.TLS_AES_128_GCM_SHA256, refcrypto.TLS_AES_256_GCM_SHA384, refcrypto.TLS_CHACHA20_POLY1305_SHA256}).Draw(t, "suite")
	} else {
		c.Suite = rapid.SampledFrom(refcrypto.Suites).Draw(t, "suite")
		n := refcrypto.HashLen(c.Suite)
		c.Secret = B(rapid.SliceOfN(rapid.Byte(), n, n).Draw(t, "secret"))
	}
	c.PN = genPN(t)
	c.ADLen = rapid.IntRange(1, 64).Draw(t, "adlen")
	switch rapid.IntRange(0, 5).Draw(t, "paylen-mode") {
	case 0:
		c.PayLen = 0
	case 1:
		c.PayLen = rapid.IntRange(0, 4).Draw(t, "paylen-tiny")
	case 2:
		c.PayLen = maxPayload
	default:
		c.PayLen = rapid.IntRange(0, maxPayload).Draw(t, "paylen")
	}
	c.Seed = rapid.Uint64().Draw(t, "seed")
	n := rapid.IntRange(1, 8).Draw(t, "nmuts")
	for i := 0; i < n; i++ {
		m := Mut{Kind: rapid.SampledFrom(mutKinds).Draw(t, "mut")}
		m.Pos = rapid.IntRange(0, 1600).Draw(t, "pos")
		m.Bit = rapid.IntRange(0, 61).Draw(t, "bit")
		m.N = rapid.IntRange(1, 40).Draw(t, "n")
		c.Muts = append(c.Muts, m)
	}
	return c
}

// pktSealer / pktOpener unify the long header and the 1-RTT interfaces.
type pktSealer interface {
	Seal(dst, src []byte, pn protocol.PacketNumber, ad []byte) []byte
	EncryptHeader(sample []byte, firstByte *byte, pnBytes []byte)
	Overhead() int
}

type pktOpener struct {
	long  handshake.LongHeaderOpener
	short handshake.ShortHeaderOpener
}

func (o pktOpener) open(ct []byte, pn uint64, kp protocol.KeyPhaseBit, ad []byte) ([]byte, error) {
	// in place, like the unpacker: dst = src[:0]
	buf := append([]byte{}, ct...)
	adc := append([]byte{}, ad...)
	if o.long != nil {
		return o.long.Open(buf[:0], buf, protocol.PacketNumber(pn), adc)
	}
	return o.short.Open(buf[:0], buf, monotime.Time(1e9), protocol.PacketNumber(pn), kp, adc)
}

func (o pktOpener) decryptHeader(sample []byte, first *byte, pnb []byte) {
	if o.long != nil {
		o.long.DecryptHeader(sample, first, pnb)
		return
	}
	o.short.DecryptHeader(sample, first, pnb)
}

type tamperSetup struct {
	sealer pktSealer
	opener pktOpener
	keys   *refcrypto.Keys
	suite  uint16
	close  func()
}

func setupTamper(c TamperCase) (*tamperSetup, *vf.Verdict) {
	pv, rv := protoVersion(c.V), refVersion(c.V)
	s := &tamperSetup{close: func() {}}
	if c.Via == "hs" {
		res, err := doHandshake(pv, c.Suite, protocol.ParseConnectionID(expand(c.Seed+9, 8)))
		if err != nil {
			return nil, vf.Bad("C05/handshake/failed", "in-memory handshake (version %d, forced suite %#x) failed: %v", c.V, c.Suite, err)
		}
		if c.Suite != 0 && res.suite != c.Suite {
			res.close()
			return nil, vf.Bad("C05/handshake/failed", "forced suite %#x but negotiated %#x", c.Suite, res.suite)
		}
		s.close = res.close
		s.suite = res.suite
		snd, rcv := res.client, res.server
		var secret []byte
		if c.Dir == "s2c" {
			snd, rcv = rcv, snd
		}
		var err1, err2 error
		if c.Level == "handshake" {
			secret = res.cHS
			if c.Dir == "s2c" {
				secret = res.sHS
			}
			s.sealer, err1 = snd.GetHandshakeSealer()
			s.opener.long, err2 = rcv.GetHandshakeOpener()
		} else {
			secret = res.cAp
			if c.Dir == "s2c" {
				secret = res.sAp
			}
			s.sealer, err1 = snd.Get1RTTSealer()
			s.opener.short, err2 = rcv.Get1RTTOpener()
		}
		if err1 != nil || err2 != nil {
			res.close()
			return nil, vf.Bad("C05/handshake/failed", "keys not available after the handshake: %v %v", err1, err2)
		}
		s.keys = refcrypto.DeriveKeys(res.suite, rv, secret)
		return s, nil
	}
	s.suite = c.Suite
	s.keys = refcrypto.DeriveKeys(c.Suite, rv, c.Secret)
	if c.Level == "handshake" {
		s.sealer = handshake.VerifNewLongHeaderSealer(c.Suite, c.Secret, pv)
		s.opener.long = handshake.VerifNewLongHeaderOpener(c.Suite, c.Secret, pv)
		return s, nil
	}
	other := expand(c.Seed+7, len(c.Secret))
	clientFirst := c.Dir == "c2s"
	// sender writes with Secret; the receiver reads with Secret
	s.sealer = handshake.VerifNewUpdatableAEAD(c.Suite, other, c.Secret, clientFirst, utils.NewRTTStats(), pv)
	s.opener.short = handshake.VerifNewUpdatableAEAD(c.Suite, c.Secret, other, !clientFirst, utils.NewRTTStats(), pv)
	return s, nil
}

func allowedOpenError(err error) bool {
	return errors.Is(err, handshake.ErrDecryptionFailed) || errors.Is(err, handshake.ErrKeysDropped)
}

// applyMut returns the mutated (ct, pn, kp, ad); ok is false when the mutation does not change anything.
func applyMut(m Mut, ct []byte, pn uint64, ad []byte, alt []byte, seed uint64) (ct2 []byte, pn2 uint64, kp2 protocol.KeyPhaseBit, ad2 []byte) {
	ct2 = append([]byte{}, ct...)
	ad2 = append([]byte{}, ad...)
	pn2 = pn
	kp2 = protocol.KeyPhaseZero
	body := len(ct) - refcrypto.TagLen
	switch m.Kind {
	case "flip-ct":
		if body > 0 {
			ct2[m.Pos%body] ^= 1 << uint(m.Bit%8)
		} else {
			ct2[m.Pos%len(ct2)] ^= 1 << uint(m.Bit%8)
		}
	case "flip-tag":
		ct2[body+m.Pos%refcrypto.TagLen] ^= 1 << uint(m.Bit%8)
	case "flip-ad":
		ad2[m.Pos%len(ad2)] ^= 1 << uint(m.Bit%8)
	case "trunc":
		n := 1 + (m.N-1)%len(ct2)
		if m.Pos%4 == 0 {
			n = min(len(ct2), refcrypto.TagLen+m.N%3-1) // around the tag boundary
			n = max(n, 1)
		}
		ct2 = ct2[:len(ct2)-n]
	case "extend":
		ct2 = append(ct2, expand(seed+uint64(m.Pos), m.N)...)
	case "prepend":
		ct2 = append(expand(seed+uint64(m.Pos), m.N), ct2...)
	case "ad-trunc":
		n := 1 + (m.N-1)%len(ad2)
		ad2 = ad2[:len(ad2)-n]
	case "ad-extend":
		ad2 = append(ad2, expand(seed+uint64(m.Pos), m.N)...)
	case "pn-bit":
		pn2 = pn ^ 1<<uint(m.Bit%62)
	case "pn-add":
		pn2 = (pn + uint64(m.N)) & refcrypto.MaxPN
		if m.Pos%2 == 0 {
			pn2 = (pn - uint64(m.N)) & refcrypto.MaxPN
		}
	case "kp":
		kp2 = protocol.KeyPhaseOne
	case "shift-l": // header/payload boundary moved: last AD byte becomes the first ciphertext byte
		ct2 = append([]byte{ad2[len(ad2)-1]}, ct2...)
		ad2 = ad2[:len(ad2)-1]
	case "shift-r":
		ad2 = append(ad2, ct2[0])
		ct2 = ct2[1:]
	case "tag-swap": // body of this packet, tag of another genuine packet
		copy(ct2[body:], alt[len(alt)-refcrypto.TagLen:])
	case "zero-tag":
		for i := body; i < len(ct2); i++ {
			ct2[i] = 0
		}
	case "empty":
		ct2 = nil
	}
	return
}

func checkTamper(c TamperCase, u *vf.Unit) *vf.Verdict {
	s, bad := setupTamper(c)
	if bad != nil {
		return bad
	}
	defer s.close()
	long := c.Level == "handshake"
	ad := expand(c.Seed+2, c.ADLen)
	if long {
		ad[0] |= 0x80
	} else {
		ad[0] &^= 0x80
	}
	payload := expand(c.Seed+3, c.PayLen)
	desc := fmt.Sprintf("%s/%s %s v%d %s", c.Via, c.Level, suiteLabel(s.suite), c.V, c.Dir)

	// 1. sealing is byte-identical to RFC 9001 section 5.3 with keys derived per section 5.1 (v2: RFC 9369 3.3.2)
	ct := s.sealer.Seal(nil, payload, protocol.PacketNumber(c.PN), ad)
	want := s.keys.Seal(c.PN, ad, payload)
	if !eqBytes(ct, want) {
		return vf.Bad("C05/aead/seal-differs-from-rfc", "%s: Seal(pn=%d, %d bytes) = %s, RFC derivation gives %s", desc, c.PN, c.PayLen, hx(ct), hx(want))
	}
	if s.sealer.Overhead() != refcrypto.TagLen {
		return vf.Bad("C05/aead/seal-differs-from-rfc", "%s: Overhead() = %d", desc, s.sealer.Overhead())
	}
	// in place, as packetPacker.encryptPacket does
	buf := make([]byte, 0, len(ad)+len(payload)+32)
	buf = append(append(buf, ad...), payload...)
	off := len(ad)
	_ = s.sealer.Seal(buf[off:off], buf[off:], protocol.PacketNumber(c.PN), buf[:off])
	if got := buf[off : off+len(payload)+refcrypto.TagLen]; !eqBytes(got, want) || !eqBytes(buf[:off], ad) {
		return vf.Bad("C05/aead/seal-differs-from-rfc", "%s: in-place Seal differs from out-of-place Seal", desc)
	}

	// 2. header protection mask (RFC 9001 section 5.4)
	sample := expand(c.Seed+4, 16)
	if len(ct) >= 20 {
		sample = ct[4:20]
	}
	mask := s.keys.HPMask(sample)
	for k := 1; k <= 4; k++ {
		first := ad[0]
		pnb := []byte{0x11, 0x22, 0x33, 0x44}[:k]
		s.sealer.EncryptHeader(sample, &first, pnb)
		fm := byte(0x1f)
		if long {
			fm = 0x0f
		}
		okb := first^ad[0] == mask[0]&fm
		for i := 0; i < k; i++ {
			okb = okb && pnb[i]^[]byte{0x11, 0x22, 0x33, 0x44}[i] == mask[1+i]
		}
		if !okb {
			return vf.Bad("C05/hp/mask-differs-from-rfc", "%s: EncryptHeader with sample %x: first byte %02x->%02x pn bytes -> %x; RFC mask %x", desc, sample, ad[0], first, pnb, mask[:])
		}
		s.opener.decryptHeader(sample, &first, pnb)
		if first != ad[0] || !eqBytes(pnb, []byte{0x11, 0x22, 0x33, 0x44}[:k]) {
			return vf.Bad("C05/hp/decrypt-not-inverse", "%s: DecryptHeader does not invert EncryptHeader", desc)
		}
	}

	// 3. genuine packets open (sealed by the repo, and sealed by refcrypto)
	got, err := s.opener.open(ct, c.PN, protocol.KeyPhaseZero, ad)
	if err != nil || !eqBytes(got, payload) {
		return vf.Bad("C05/aead/genuine-rejected", "%s: genuine packet pn=%d: err=%v", desc, c.PN, err)
	}
	alt := s.keys.Seal(c.PN^1, ad, expand(c.Seed+5, c.PayLen))

	// 4. every modification is rejected
	for i, m := range c.Muts {
		if m.Kind == "kp" && long {
			m.Kind = "flip-tag"
		}
		ct2, pn2, kp2, ad2 := applyMut(m, ct, c.PN, ad, alt, c.Seed)
		if eqBytes(ct2, ct) && pn2 == c.PN && kp2 == protocol.KeyPhaseZero && eqBytes(ad2, ad) {
			u.Class("mut-noop")
			continue
		}
		r, err := s.opener.open(ct2, pn2, kp2, ad2)
		if err == nil {
			if eqBytes(r, payload) {
				return vf.Bad("C05/tamper/accepted-modified-packet", "%s: mutation #%d %+v accepted (same plaintext)", desc, i, m)
			}
			return vf.Bad("C05/tamper/different-plaintext", "%s: mutation #%d %+v accepted and yields DIFFERENT plaintext %s (want %s)", desc, i, m, hx(r), hx(payload))
		}
		if !allowedOpenError(err) {
			return vf.Bad("C05/tamper/fatal-error-on-forgery", "%s: mutation #%d %+v: Open returned %T %v (a forged packet must only be dropped)", desc, i, m, err, err)
		}
		u.Class("mut-" + m.Kind)
	}

	// 5. failed opens left no trace: the genuine packet and a fresh one still open
	got, err = s.opener.open(ct, c.PN, protocol.KeyPhaseZero, ad)
	if err != nil || !eqBytes(got, payload) {
		return vf.Bad("C05/aead/state-corrupted-by-failed-open", "%s: genuine packet rejected after forgeries: %v", desc, err)
	}
	pn2 := (c.PN + 1) & refcrypto.MaxPN
	pay2 := expand(c.Seed+6, c.PayLen)
	ct3 := s.keys.Seal(pn2, ad, pay2)
	got, err = s.opener.open(ct3, pn2, protocol.KeyPhaseZero, ad)
	if err != nil || !eqBytes(got, pay2) {
		return vf.Bad("C05/aead/ref-sealed-rejected", "%s: packet sealed by refcrypto (pn=%d) rejected: %v", desc, pn2, err)
	}
	if ct4 := s.sealer.Seal(nil, pay2, protocol.PacketNumber(pn2), ad); !eqBytes(ct4, ct3) {
		return vf.Bad("C05/aead/seal-differs-from-rfc", "%s: second Seal (pn=%d) differs from RFC derivation", desc, pn2)
	}

	u.Class(suiteLabel(s.suite))
	u.Class(c.Via + "-" + suiteLabel(s.suite))
	u.Class(c.Level)
	u.Class(fmt.Sprintf("v%d", c.V))
	if c.Via == "hs" && c.Suite == 0 {
		u.Class("hs-std-client")
	}
	u.NonTrivial("tamper", c.Via, c.Level, s.suite, c.V, c.PN, c.Seed, len(c.Muts))
	return nil
}

func TestTamper(t *testing.T) {
	vf.RunRapid(t, "tamper", genTamper, checkTamper)
}

// ---- native fuzz target ----

// FuzzTamper: the fuzzer controls suite/version/level, secret seed, packet number, associated data, payload and
// a forgery derived from the genuine packet by XOR deltas and a length change. Oracle: Open succeeds with exactly
// the original plaintext iff (ciphertext, pn, ad) are unchanged; otherwise it fails with a drop-only error.
func FuzzTamper(f *testing.F) {
	f.Add(uint8(0), uint64(0), uint64(1), []byte{0x40, 1, 2, 3}, []byte("hello"), []byte{}, []byte{}, int8(0), uint64(0))
	f.Add(uint8(1), uint64(1)<<62-1, uint64(2), []byte{0xc0}, []byte{}, []byte{1}, []byte{}, int8(0), uint64(0))
	f.Add(uint8(2), uint64(0xffffffff), uint64(3), []byte{0x43, 0, 0, 0, 0, 0, 0, 0, 0}, make([]byte, 1200), []byte{}, []byte{0, 0, 0, 0, 0, 0, 0, 0, 0, 0, 0, 0, 0, 0, 0, 0, 0x80}, int8(0), uint64(0))
	f.Add(uint8(3), uint64(77), uint64(4), []byte{0xe0, 9}, []byte{1, 2, 3}, []byte{}, []byte{}, int8(-16), uint64(0))
	f.Add(uint8(4), uint64(78), uint64(5), []byte{0xe0, 9}, []byte{1, 2, 3}, []byte{}, []byte{}, int8(5), uint64(0))
	f.Add(uint8(5), uint64(79), uint64(6), []byte{0x40}, []byte{0}, []byte{}, []byte{}, int8(0), uint64(1))
	f.Add(uint8(7), uint64(1)<<32, uint64(7), []byte{0x40}, []byte{0}, []byte{}, []byte{}, int8(0), uint64(1)<<61)
	f.Add(uint8(11), uint64(5), uint64(8), []byte{0x40}, []byte{0xff}, []byte{}, []byte{}, int8(-128), uint64(0))
	f.Fuzz(func(t *testing.T, sel uint8, pn uint64, secretSeed uint64, ad, payload, adDelta, ctDelta []byte, lenDelta int8, pnDelta uint64) {
		u := vf.U("tamper-fuzz")
		u.Case()
		suite := refcrypto.Suites[int(sel)%3]
		v := 1 + int(sel/3)%2
		long := (sel/6)%2 == 0
		pn &= refcrypto.MaxPN
		if len(ad) == 0 {
			ad = []byte{0x40}
		}
		if len(ad) > 256 {
			ad = ad[:256]
		}
		if len(payload) > 1500 {
			payload = payload[:1500]
		}
		secret := expand(secretSeed, refcrypto.HashLen(suite))
		pv, rv := protoVersion(v), refVersion(v)
		keys := refcrypto.DeriveKeys(suite, rv, secret)
		var sealer pktSealer
		var opener pktOpener
		if long {
			sealer = handshake.VerifNewLongHeaderSealer(suite, secret, pv)
			opener.long = handshake.VerifNewLongHeaderOpener(suite, secret, pv)
		} else {
			other := expand(secretSeed+7, len(secret))
			sealer = handshake.VerifNewUpdatableAEAD(suite, other, secret, true, utils.NewRTTStats(), pv)
			opener.short = handshake.VerifNewUpdatableAEAD(suite, secret, other, false, utils.NewRTTStats(), pv)
		}
		ct := sealer.Seal(nil, payload, protocol.PacketNumber(pn), ad)
		if want := keys.Seal(pn, ad, payload); !eqBytes(ct, want) {
			t.Fatalf("VIOLATION C05/aead/seal-differs-from-rfc: suite %s v%d long=%v pn=%d", suiteLabel(suite), v, long, pn)
		}
		// forgery
		ct2 := append([]byte{}, ct...)
		for i, d := range ctDelta {
			ct2[i%len(ct2)] ^= d
		}
		if lenDelta < 0 {
			ct2 = ct2[:max(0, len(ct2)+int(lenDelta))]
		} else if lenDelta > 0 {
			ct2 = append(ct2, expand(secretSeed+3, int(lenDelta))...)
		}
		ad2 := append([]byte{}, ad...)
		for i, d := range adDelta {
			ad2[i%len(ad2)] ^= d
		}
		pn2 := (pn ^ pnDelta) & refcrypto.MaxPN
		unchanged := eqBytes(ct2, ct) && eqBytes(ad2, ad) && pn2 == pn
		r, err := opener.open(ct2, pn2, protocol.KeyPhaseZero, ad2)
		switch {
		case unchanged && (err != nil || !eqBytes(r, payload)):
			t.Fatalf("VIOLATION C05/aead/genuine-rejected: suite %s v%d long=%v pn=%d err=%v", suiteLabel(suite), v, long, pn, err)
		case !unchanged && err == nil && !eqBytes(r, payload):
			t.Fatalf("VIOLATION C05/tamper/different-plaintext: suite %s v%d long=%v pn=%d->%d", suiteLabel(suite), v, long, pn, pn2)
		case !unchanged && err == nil:
			t.Fatalf("VIOLATION C05/tamper/accepted-modified-packet: suite %s v%d long=%v pn=%d->%d", suiteLabel(suite), v, long, pn, pn2)
		case !unchanged && !allowedOpenError(err):
			t.Fatalf("VIOLATION C05/tamper/fatal-error-on-forgery: %T %v", err, err)
		}
		if unchanged {
			u.Class("fuzz-genuine")
		} else {
			u.Class("fuzz-forged")
		}
	})
}
