// C13: handshakes converge or fail cleanly; forged packets cannot change the outcome.
//
// Engine: complete handshakes over the simulated network with the router acting as on-path attacker
// (fault schedules on the handshake datagrams plus injected, attacker-crafted Version Negotiation, Retry
// and Initial packets built with the independent refwire/refcrypto code, and replays of genuine datagrams).
package c13

import (
	"bytes"
	"context"
	"errors"
	_ "fmt"
	"io"
	"net"
	"strconv"
	"strings"
	"sync"
	"testing"
	"time"

	tls "github.com/refraction-networking/utls"
	"pgregory.net/rapid"

	quic "github.com/refraction-networking/uquic"
	"github.com/refraction-networking/uquic/verif/refcrypto"
	"github.com/refraction-networking/uquic/verif/refwire"
	"github.com/refraction-networking/uquic/verif/sim"
	"github.com/refraction-networking/uquic/verif/specgen"
	"github.com/refraction-networking/uquic/verif/vf"
)

func TestMain(m *testing.M) { vf.Main(m) }

type Injection struct {
	Dir   string `json:"after_dir"` // trigger: the Nth datagram of this direction (of the measured connection)
	Nth   int    `json:"after_nth"`
	Kind  string `json:"kind"` // vn | vn-same | retry-valid | retry-badtag | ini-close | ini-garbage | ini-ack | ini-wrongscid | replay | flipreplay
	To    string `json:"to"`   // "c" or "s"
	Arg   int    `json:"arg,omitempty"`
	Delay int    `json:"delay_ms,omitempty"`
}

type Case struct {
	Scenario string      `json:"scenario"` // plain | retry | vn | resume | 0rtt | 0rtt-reject | longchain
	Client   string      `json:"client"`   // plain | spec:<base>
	RTTms    int         `json:"rtt_ms"`
	Faults   []sim.Fault `json:"faults,omitempty"`
	Inj      []Injection `json:"inj,omitempty"`
	Seed     uint64      `json:"seed"`
	// InitSize: the client's Config.InitialPacketSize (0 = default 1280; 1200 is the smallest size RFC 9000 14.1
	// allows for a datagram carrying an Initial packet and the smallest the Config accepts)
	InitSize int `json:"init_size,omitempty"`
	// RejectHow (scenario 0rtt-reject): "" = the restarted server's stream limit shrank below the remembered one;
	// "disabled" = same limits, but the restarted server's Config has Allow0RTT off (same ticket keys)
	RejectHow string `json:"reject_how,omitempty"`
}

var curT *testing.T

const (
	hsIdle = 4 * time.Second // HandshakeIdleTimeout: the handshake must end (either way) within 2x this
)

func genCase(t *rapid.T) Case {
	c := Case{Seed: rapid.Uint64().Draw(t, "seed")}
	c.Scenario = rapid.SampledFrom([]string{"plain", "plain", "retry", "vn", "resume", "0rtt", "0rtt-reject", "longchain"}).Draw(t, "scenario")
	c.Client = "plain"
	if c.Scenario == "vn" {
		// the UTransport client kinds have their own dial / re-dial path (u_transport.go)
		c.Client = rapid.SampledFrom([]string{"plain", "unil", "unil", "spec:chrome115", "spec:firefoxA"}).Draw(t, "vnclient")
	}
	if (c.Scenario == "plain" || c.Scenario == "retry" || c.Scenario == "longchain") && rapid.IntRange(0, 2).Draw(t, "spec") == 0 {
		c.Client = "spec:" + rapid.SampledFrom([]string{"chrome115", "chrome146", "firefoxA"}).Draw(t, "base")
	}
	c.RTTms = rapid.SampledFrom([]int{2, 20, 60}).Draw(t, "rtt")
	nf := rapid.SampledFrom([]int{0, 0, 1, 2, 3}).Draw(t, "nfaults")
	for i := 0; i < nf; i++ {
		f := sim.Fault{Dir: rapid.SampledFrom([]string{"c2s", "s2c"}).Draw(t, "dir"), Nth: rapid.IntRange(0, 9).Draw(t, "nth"),
			Kind: rapid.SampledFrom([]string{"drop", "drop", "dup", "delay", "flip", "trunc"}).Draw(t, "kind")}
		switch f.Kind {
		case "dup":
			f.Arg = rapid.IntRange(1, 2).Draw(t, "copies")
		case "delay":
			f.Arg = rapid.SampledFrom([]int{1, 30, 150, 500}).Draw(t, "delay")
		case "flip":
			f.Arg = rapid.IntRange(5, 1300).Draw(t, "idx")
			f.Arg2 = 1 << rapid.IntRange(0, 7).Draw(t, "bit")
		case "trunc":
			f.Arg = rapid.IntRange(0, 1300).Draw(t, "len")
		}
		c.Faults = append(c.Faults, f)
	}
	ni := rapid.SampledFrom([]int{0, 1, 1, 2, 3}).Draw(t, "ninj")
	for i := 0; i < ni; i++ {
		in := Injection{Dir: rapid.SampledFrom([]string{"c2s", "c2s", "s2c"}).Draw(t, "idir"), Nth: rapid.IntRange(0, 6).Draw(t, "inth"),
			Kind: rapid.SampledFrom([]string{"vn", "vn-same", "retry-valid", "retry-badtag", "retry-badtag", "ini-close", "ini-garbage", "ini-ack", "ini-wrongscid", "replay", "flipreplay"}).Draw(t, "ikind"),
			To:   "c", Arg: rapid.IntRange(0, 1000).Draw(t, "iarg"), Delay: rapid.SampledFrom([]int{0, 0, 1, 40}).Draw(t, "idelay")}
		if strings.HasPrefix(in.Kind, "ini-") || strings.Contains(in.Kind, "replay") {
			in.To = rapid.SampledFrom([]string{"c", "c", "s"}).Draw(t, "ito")
		}
		c.Inj = append(c.Inj, in)
	}
	c.InitSize = rapid.SampledFrom([]int{0, 0, 0, 1200, 1200, 1201, 1252, 1350}).Draw(t, "initsize")
	if c.Scenario == "0rtt-reject" {
		c.RejectHow = rapid.SampledFrom([]string{"", "disabled"}).Draw(t, "rejecthow")
	}
	return c
}

// ---- attacker ----

type attacker struct {
	w       *sim.World
	mu      sync.Mutex
	inj     []Injection
	done    []bool
	counts  map[string]int
	armed   bool
	version uint32
	cDCID   []byte // client's original destination connection ID (first Initial)
	cSCID   []byte
	cSCID0  []byte // source connection ID of the client's first Initial
	sSCID   []byte
	last    map[string][]byte // last genuine datagram per direction
	crafted int
	notes   []string
}

func (a *attacker) tap(dir sim.Dir, rec *sim.Record) {
	a.mu.Lock()
	defer a.mu.Unlock()
	if !a.armed || rec.Forged {
		return
	}
	d := dir.String()
	n := a.counts[d]
	a.counts[d]++
	if rec.Data != nil {
		a.last[d] = rec.Data
	}
	pkts, _ := rec.Pkts.([]*sim.Packet)
	for _, p := range pkts {
		if p.Kind == "initial" || p.Kind == "handshake" || p.Kind == "retry" {
			if dir == sim.C2S {
				if a.cDCID == nil {
					a.cDCID = append([]byte{}, p.DCID...)
					a.cSCID0 = append([]byte{}, p.SCID...)
					a.version = p.Version
				}
				a.cSCID = append([]byte{}, p.SCID...)
			} else if p.Kind != "retry" {
				a.sSCID = append([]byte{}, p.SCID...)
			}
		}
	}
	for i, in := range a.inj {
		if a.done[i] || in.Dir != d || in.Nth != n {
			continue
		}
		a.done[i] = true
		data, note := a.craft(in)
		if data == nil {
			continue
		}
		a.crafted++
		a.notes = append(a.notes, note)
		from, to := net.Addr(sim.ServerAddr), net.Addr(sim.ClientAddr)
		idir := sim.S2C
		if in.To == "s" {
			from, to, idir = sim.ClientAddr, sim.ServerAddr, sim.C2S
		}
		if in.Delay > 0 {
			d := time.Duration(in.Delay) * time.Millisecond
			time.AfterFunc(d, func() { a.w.Router.Inject(idir, from, to, data, note) })
		} else {
			go a.w.Router.Inject(idir, from, to, data, note) // not under the router's lock
		}
	}
}

func (a *attacker) craft(in Injection) ([]byte, string) {
	if a.cDCID == nil || a.version == 0 {
		return nil, ""
	}
	ver := a.version
	rnd := func(n int, salt int) []byte {
		b := make([]byte, n)
		s := uint64(in.Arg*7919+salt) | 1
		for i := range b {
			s ^= s << 13
			s ^= s >> 7
			s ^= s << 17
			b[i] = byte(s)
		}
		return b
	}
	switch in.Kind {
	case "vn", "vn-same":
		vs := []uint32{0x1a2a3a4a, 0xff00001d}
		if in.Kind == "vn-same" {
			vs = append(vs, ver) // lists the version the client offered: must be ignored (RFC 9000 6.2)
		}
		return refwire.AppendVersionNegotiation(nil, byte(in.Arg), a.cSCID, a.cDCID, vs), in.Kind
	case "retry-valid", "retry-badtag":
		h := refwire.LongHeader{Kind: refwire.LongRetry, Version: ver, DCID: a.cSCID, SCID: rnd(8, 1), RetryToken: rnd(24, 2), FirstByte: byte(in.Arg)}
		without := refwire.AppendLongHeader(nil, h, 0, 0)
		without = without[:len(without)-16]
		tag := refcrypto.RetryIntegrityTag(ver, a.cDCID, without)
		if in.Kind == "retry-badtag" {
			tag[in.Arg%16] ^= 1 << uint(in.Arg%8)
		}
		return append(without, tag[:]...), in.Kind
	case "ini-close", "ini-garbage", "ini-ack", "ini-wrongscid":
		ck, sk := refcrypto.InitialKeys(ver, a.cDCID)
		k, dcid, scid := sk, a.cSCID, a.sSCID
		if in.To == "s" {
			k, dcid, scid = ck, a.cDCID, a.cSCID
			if a.sSCID != nil {
				dcid = a.sSCID
			}
		}
		if scid == nil || in.Kind == "ini-wrongscid" {
			scid = rnd(8, 3)
		}
		var payload []byte
		switch in.Kind {
		case "ini-close":
			payload = refwire.Frame{Type: 0x1c, Name: refwire.NameConnectionClose, ErrorCode: 0x0a, Reason: []byte("forged")}.Append(nil)
		case "ini-garbage", "ini-wrongscid":
			payload = refwire.Frame{Type: 0x06, Name: refwire.NameCrypto, Offset: uint64(in.Arg % 3000), HasOff: true, HasLen: true, Data: rnd(40+in.Arg%200, 4)}.Append(nil)
		case "ini-ack":
			payload = refwire.Frame{Type: 0x02, Name: refwire.NameAck, AckRanges: []refwire.AckRange{{Smallest: 900, Largest: 1000 + uint64(in.Arg)}}}.Append(nil)
		}
		for len(payload) < 1162 {
			payload = append(payload, 0) // PADDING: Initial datagrams are at least 1200 bytes
		}
		pn := uint64(50 + in.Arg%200)
		h := refwire.LongHeader{Kind: refwire.LongInitial, Version: ver, DCID: dcid, SCID: scid, Length: uint64(2 + len(payload) + 16)}
		hdr := refwire.AppendLongHeader(nil, h, pn, 2)
		return refcrypto.Protect(k, hdr, len(hdr)-2, 2, pn, payload), in.Kind
	case "replay", "flipreplay":
		src := "s2c"
		if in.To == "s" {
			src = "c2s"
		}
		d := a.last[src]
		if d == nil {
			return nil, ""
		}
		out := append([]byte(nil), d...)
		if in.Kind == "flipreplay" {
			i := 5 + in.Arg%max(len(out)-5, 1)
			out[i] ^= 1 << uint(in.Arg%8)
		}
		return out, in.Kind
	}
	return nil, ""
}

// ---- scenario ----

type sessionCache struct {
	inner tls.ClientSessionCache
	puts  chan struct{}
}

func (c *sessionCache) Get(k string) (*tls.ClientSessionState, bool) { return c.inner.Get(k) }
func (c *sessionCache) Put(k string, s *tls.ClientSessionState) {
	c.inner.Put(k, s)
	select {
	case c.puts <- struct{}{}:
	default:
	}
}

type result struct {
	dialErr, acceptErr  error
	dialAt, acceptAt    time.Duration
	cconn, sconn        *quic.Conn
	zeroRTTWriteErr     error
	serverGot           [][]byte
	clientSaw0RTTReject bool
}

func checkCase(c Case, u *vf.Unit) *vf.Verdict {
	u.Journal(c)
	var v *vf.Verdict
	sim.Bubble(curT, 40*time.Second, func() { v = runCase(c, u) }, func(rep sim.LeakReport) {
		if v == nil {
			v = vf.Bad("C13/leak/goroutines", "%d goroutines alive after both transports were closed:\n%s", rep.Count, rep.Dump)
		}
	})
	return v
}

func qconf() *quic.Config {
	return &quic.Config{DisablePathMTUDiscovery: true, HandshakeIdleTimeout: hsIdle, MaxIdleTimeout: 8 * time.Second}
}

func runCase(c Case, u *vf.Unit) *vf.Verdict {
	w := sim.NewWorld(time.Duration(c.RTTms)*time.Millisecond, nil, nil, nil)
	defer w.Close()
	w.Router.KeepData = true
	w.Observe()
	att := &attacker{w: w, inj: c.Inj, done: make([]bool, len(c.Inj)), counts: map[string]int{}, last: map[string][]byte{}}
	w.Router.Tap = att.tap

	// ---- server
	st := &quic.Transport{Conn: w.ServerConn}
	if c.Scenario == "retry" {
		st.VerifySourceAddress = func(net.Addr) bool { return true }
	}
	sconf := qconf()
	sconf.Allow0RTT = c.Scenario == "0rtt" || c.Scenario == "0rtt-reject"
	vnFinal := quic.Version1
	if c.Scenario == "vn" {
		if strings.HasPrefix(c.Client, "spec:") {
			vnFinal = quic.Version2 // parrots start on v1 like the browsers they imitate
		}
		sconf.Versions = []quic.Version{vnFinal}
	}
	stls := sim.ServerTLS(c.Scenario == "longchain", w.ServerKeys)
	ln, err := st.ListenEarly(stls, sconf)
	if err != nil {
		st.Close()
		return vf.Bad("C13/harness/listen", "%v", err)
	}
	ct := &quic.Transport{Conn: w.ClientConn}
	cleanup := func() {
		ln.Close()
		ct.Close()
		st.Close()
	}
	ctls := sim.ClientTLS(w.ClientKeys)
	cache := &sessionCache{inner: tls.NewLRUClientSessionCache(8), puts: make(chan struct{}, 8)}
	two := c.Scenario == "resume" || c.Scenario == "0rtt" || c.Scenario == "0rtt-reject"
	if two {
		ctls.ClientSessionCache = cache
	}
	cconf := qconf()
	cconf.InitialPacketSize = uint16(c.InitSize)
	if c.InitSize != 0 {
		u.Class("client-initial-packet-size:" + strconv.Itoa(c.InitSize))
	}
	if c.Scenario == "vn" {
		cconf.Versions = []quic.Version{quic.Version2, quic.Version1}
		if vnFinal == quic.Version2 {
			cconf.Versions = []quic.Version{quic.Version1, quic.Version2}
		}
	}
	dial := func(ctx context.Context, early bool) (*quic.Conn, error) {
		if strings.HasPrefix(c.Client, "spec:") {
			spec, e := specgen.Desc{Base: strings.TrimPrefix(c.Client, "spec:")}.Build()
			if e != nil {
				return nil, e
			}
			return (&quic.UTransport{Transport: ct, QUICSpec: spec}).Dial(ctx, sim.ServerAddr, ctls, cconf)
		}
		if c.Client == "unil" {
			return (&quic.UTransport{Transport: ct}).Dial(ctx, sim.ServerAddr, ctls, cconf)
		}
		if early {
			return ct.DialEarly(ctx, sim.ServerAddr, ctls, cconf)
		}
		return ct.Dial(ctx, sim.ServerAddr, ctls, cconf)
	}

	// ---- preparatory connection (session ticket)
	if two {
		ctx, cancel := context.WithTimeout(context.Background(), 10*time.Second)
		conn, err := dial(ctx, false)
		if err != nil {
			cancel()
			cleanup()
			return vf.Bad("C13/harness/first-connection", "%v", err)
		}
		sc, err := ln.Accept(ctx)
		if err != nil {
			cancel()
			cleanup()
			return vf.Bad("C13/harness/first-accept", "%v", err)
		}
		select {
		case <-cache.puts:
		case <-time.After(2 * time.Second):
		}
		conn.CloseWithError(0, "")
		<-sc.Context().Done()
		cancel()
		time.Sleep(500 * time.Millisecond) // let the closing period pass
		if c.Scenario == "0rtt-reject" {
			// the server restarts with a configuration under which the remembered 0-RTT parameters are no longer valid
			ln.Close()
			sconf2 := qconf()
			sconf2.Allow0RTT = true
			sconf2.MaxIncomingStreams = 3
			if c.RejectHow == "disabled" {
				sconf2.Allow0RTT = false
				sconf2.MaxIncomingStreams = 0 // (default, as for the ticket-issuing listener)
				u.Class("0rtt-reject:allow0rtt-off")
			}
			ln, err = st.ListenEarly(stls, sconf2)
			if err != nil {
				cleanup()
				return vf.Bad("C13/harness/listen2", "%v", err)
			}
		}
	}

	// ---- measured connection
	mark := w.Router.Mark()
	w.Router.Arm(c.Faults)
	att.mu.Lock()
	att.armed = true
	att.mu.Unlock()
	t0 := w.Router.Now()
	res := &result{}
	ctx, cancel := context.WithTimeout(context.Background(), 2*hsIdle+6*time.Second)
	var wg sync.WaitGroup
	payload0 := bytes.Repeat([]byte("zero-rtt-data-"), 40)
	wg.Add(2)
	go func() {
		defer wg.Done()
		conn, err := dial(ctx, c.Scenario == "0rtt" || c.Scenario == "0rtt-reject")
		res.cconn, res.dialErr, res.dialAt = conn, err, w.Router.Now()-t0
		if err != nil {
			return
		}
		if c.Scenario == "0rtt" || c.Scenario == "0rtt-reject" {
			// write before the handshake completes
			str, err := conn.OpenUniStream()
			if err == nil {
				_, err = str.Write(payload0)
				if err == nil {
					err = str.Close()
				}
			}
			res.zeroRTTWriteErr = err
			select {
			case <-conn.HandshakeComplete():
			case <-conn.Context().Done():
			case <-ctx.Done():
			}
			if errors.Is(err, quic.Err0RTTRejected) {
				res.clientSaw0RTTReject = true
			} else if str != nil {
				// after a rejection, the stream calls must report it
				if _, e := str.Write([]byte("x")); errors.Is(e, quic.Err0RTTRejected) {
					res.clientSaw0RTTReject = true
				}
			}
		}
	}()
	go func() {
		defer wg.Done()
		conn, err := ln.Accept(ctx)
		res.sconn, res.acceptErr, res.acceptAt = conn, err, w.Router.Now()-t0
		if err != nil {
			return
		}
		if c.Scenario == "0rtt" || c.Scenario == "0rtt-reject" {
			rctx, rcancel := context.WithTimeout(ctx, 3*time.Second)
			defer rcancel()
			for {
				str, err := conn.AcceptUniStream(rctx)
				if err != nil {
					return
				}
				str.SetReadDeadline(time.Now().Add(3 * time.Second))
				b, _ := io.ReadAll(str)
				res.serverGot = append(res.serverGot, b)
			}
		}
	}()
	wgDone := make(chan struct{})
	go func() { wg.Wait(); close(wgDone) }()
	hung := !sim.WaitCtx(wgDone, 2*hsIdle+8*time.Second)
	cancel()
	<-wgDone
	trace := func() any { return w.Router.Trace(120) }
	bad := func(sig, f string, a ...any) *vf.Verdict {
		v := vf.Bad(sig, f, a...)
		v.Trace = trace()
		cleanup()
		return v
	}
	if hung {
		return bad("C13/hang/dial-or-accept", "Dial / Accept did not return within %v of virtual time (dial err %v, accept err %v)", 2*hsIdle+8*time.Second, res.dialErr, res.acceptErr)
	}
	// Dial must not outlast the handshake timeout (2 x HandshakeIdleTimeout) by more than a margin
	if res.dialAt > 2*hsIdle+500*time.Millisecond {
		return bad("C13/hang/dial-late", "Dial returned after %v, the handshake timeout is %v (err %v)", res.dialAt, 2*hsIdle, res.dialErr)
	}

	// ---- classification of what the network and the attacker did (after every pending injection has happened)
	time.Sleep(300 * time.Millisecond)
	log := w.Router.Log[mark:]
	firstGenuineS2C := time.Duration(1 << 62)
	for _, r := range log {
		if r.Dir == "s2c" && !r.Forged && !r.Mutated && len(r.Dlv) > 0 {
			pk, _ := r.Pkts.([]*sim.Packet)
			for _, p := range pk {
				// a server Initial is the first packet the client can process (Handshake packets need its keys)
				if p.Kind == "initial" {
					if r.Dlv[0] < firstGenuineS2C {
						firstGenuineS2C = r.Dlv[0]
					}
				}
			}
		}
	}
	// the first intact genuine Version Negotiation packet the client received: from then on every other Version
	// Negotiation packet must be discarded (RFC 9000 6.2: "... if it has received and successfully processed any
	// other packet, including an earlier Version Negotiation packet")
	genuineVN := time.Duration(1 << 62)
	att.mu.Lock()
	cDCID0, cSCID0 := att.cDCID, att.cSCID0
	att.mu.Unlock()
	for _, r := range log {
		if r.Dir == "s2c" && !r.Forged && !r.Mutated && len(r.Dlv) > 0 && hasClass(r, "vn") && r.Dlv[0] < genuineVN {
			// a Version Negotiation packet that answers a corrupted Initial echoes connection IDs the client does not
			// use: the client discards it, nothing has been "processed" then
			pk, _ := r.Pkts.([]*sim.Packet)
			for _, p := range pk {
				if p.Kind == "vn" && bytes.Equal(p.SCID, cDCID0) && bytes.Equal(p.DCID, cSCID0) {
					genuineVN = r.Dlv[0]
				}
			}
		}
	}
	earlyKill, iniForgery, lossy := false, false, false
	for _, r := range log {
		if !r.Forged {
			continue
		}
		early := len(r.Dlv) == 0 || r.Dlv[0] <= firstGenuineS2C+time.Millisecond
		// includes (bit-flipped) replays of a genuine Version Negotiation packet; one that lists the version the client
		// is using ("vn-same") is never followed: before the genuine one by RFC 9000 6.2, afterwards like any other
		if hasClass(r, "vn") && r.Notes != "vn-same" {
			if c.Scenario == "vn" {
				// the genuine VN and the forgery race each other; whichever the client sees first decides
				early = len(r.Dlv) == 0 || r.Dlv[0] <= genuineVN+time.Millisecond
			}
			if early {
				earlyKill = true
			}
		}
		switch r.Notes {
		case "retry-valid":
			if early {
				earlyKill = true
			}
		case "ini-close", "ini-garbage", "ini-ack", "ini-wrongscid":
			iniForgery = true
		}
	}
	for _, a := range w.Router.AppliedFaults() {
		if strings.HasSuffix(a, "drop") || strings.HasSuffix(a, "flip") || strings.HasSuffix(a, "trunc") {
			lossy = true
		}
		// a corrupted Version Negotiation packet is a forged one: it carries no integrity protection
		if strings.Contains(a, "/vn/flip") || strings.Contains(a, "/vn/trunc") {
			earlyKill = true
		}
	}
	genuineRetry := false
	var retrySCID [][]byte
	for _, r := range log {
		if r.Forged || r.Dir != "s2c" {
			continue
		}
		pk, _ := r.Pkts.([]*sim.Packet)
		for _, p := range pk {
			if p.Kind == "retry" {
				genuineRetry = true
				retrySCID = append(retrySCID, p.SCID) // several Retries (one per retransmitted Initial) may be sent
			}
		}
	}

	// ---- invalid Retry tags are always ignored: no token-bearing Initial without a genuine or validly forged Retry
	validForgedRetry := false
	for _, n := range att.notes {
		if n == "retry-valid" {
			validForgedRetry = true
		}
	}
	specToken := strings.HasPrefix(c.Client, "spec:") // parrots may carry their own synthetic token
	if !genuineRetry && !validForgedRetry && !specToken {
		for _, r := range log {
			if r.Dir != "c2s" || r.Forged {
				continue
			}
			pk, _ := r.Pkts.([]*sim.Packet)
			for _, p := range pk {
				if p.Kind == "initial" && len(p.Token) > 0 {
					return bad("C13/retry/invalid-tag-followed", "the client sent an Initial with a %d-byte token although no Retry with a valid integrity tag was ever sent to it (injections: %v)", len(p.Token), att.notes)
				}
			}
		}
	}

	cOK, sOK := res.dialErr == nil, res.acceptErr == nil
	switch {
	case cOK && sOK:
		cs, ss := res.cconn.ConnectionState(), res.sconn.ConnectionState()
		// the server may hand out the connection before the handshake completes (ListenEarly): wait for both
		select {
		case <-res.sconn.HandshakeComplete():
		case <-res.sconn.Context().Done():
		case <-time.After(2 * hsIdle):
		}
		select {
		case <-res.cconn.HandshakeComplete():
		case <-res.cconn.Context().Done():
		case <-time.After(2 * hsIdle):
		}
		cs, ss = res.cconn.ConnectionState(), res.sconn.ConnectionState()
		if ce, se := context.Cause(res.cconn.Context()), context.Cause(res.sconn.Context()); ce == nil && se == nil {
			if cs.Version != ss.Version {
				return bad("C13/agree/version", "client negotiated version %v, server %v", cs.Version, ss.Version)
			}
			if cs.TLS.NegotiatedProtocol != ss.TLS.NegotiatedProtocol {
				return bad("C13/agree/alpn", "client ALPN %q, server %q", cs.TLS.NegotiatedProtocol, ss.TLS.NegotiatedProtocol)
			}
			if cs.Used0RTT != ss.Used0RTT {
				return bad("C13/agree/0rtt", "client Used0RTT=%v, server Used0RTT=%v", cs.Used0RTT, ss.Used0RTT)
			}
			if c.Scenario == "vn" && cs.Version != vnFinal {
				return bad("C13/agree/version", "version negotiation scenario ended on %v", cs.Version)
			}
			if v := checkCIDAuth(w, log, genuineRetry, retrySCID); v != nil {
				v.Trace = trace()
				cleanup()
				return v
			}
			u.Class("both-completed")
		} else {
			u.Class("completed-then-closed")
			if !earlyKill && !iniForgery && !lossy && len(c.Inj) > 0 {
				// forged VN / Retry after a genuine packet, replays: must not have hurt the connection
				return bad("C13/forgery/changed-outcome", "connection closed after the handshake (client cause %v, server cause %v) although only late Version Negotiation / Retry forgeries or replays were injected: %v", ce, se, att.notes)
			}
		}
		// 0-RTT delivery
		if c.Scenario == "0rtt" || c.Scenario == "0rtt-reject" {
			n := 0
			for _, b := range res.serverGot {
				if bytes.Equal(b, payload0) {
					n++
				} else if !bytes.HasPrefix(payload0, b) { // a prefix is a read cut short by the harness deadline
					return bad("C13/0rtt/corrupt", "server application read %d bytes of 0-RTT stream data that are not a prefix of what the client wrote", len(b))
				}
			}
			if n > 1 {
				return bad("C13/0rtt/delivered-twice", "0-RTT stream data reached the server application %d times", n)
			}
			if res.clientSaw0RTTReject && n > 0 {
				return bad("C13/0rtt/rejected-but-delivered", "the client was told Err0RTTRejected but the server application received the 0-RTT data")
			}
			if c.Scenario == "0rtt-reject" && ss.Used0RTT {
				return bad("C13/0rtt/accepted-after-config-change", "server reports Used0RTT although the restarted server must reject early data (reject_how %q: stream limit below the remembered one / Allow0RTT off)", c.RejectHow)
			}
			if cs.Used0RTT && ss.Used0RTT && n == 0 && res.zeroRTTWriteErr == nil && !lossy && !iniForgery && context.Cause(res.cconn.Context()) == nil {
				return bad("C13/0rtt/accepted-but-lost", "0-RTT accepted on both sides, the client wrote and closed the stream without error, but the server application never received the data")
			}
			if ss.Used0RTT {
				u.Class("0rtt-accepted")
			} else {
				u.Class("0rtt-not-used")
			}
		}
	case cOK != sOK:
		u.Class("one-side-failed")
		fallthrough
	default:
		if !cOK && !sOK {
			u.Class("both-failed")
		}
		// a failure must be explained by what the attacker or the network did
		if !earlyKill && !iniForgery {
			dead := w.Router.DeadStretch(w.Router.Now())
			if !(lossy && dead >= hsIdle/3) {
				return bad("C13/converge/unexplained-failure", "dial error %v, accept error %v, although the network lost nothing for long (dead stretch %v) and only harmless forgeries were injected: %v; faults applied %v", res.dialErr, res.acceptErr, dead, att.notes, w.Router.AppliedFaults())
			}
		}
		// the failing side reports an error and its context is cancelled
		if res.cconn != nil && res.dialErr == nil {
			// client completed although the server did not: its connection must end (peer gone) - close it ourselves
		}
	}

	// ---- shutdown: every failing side released its state
	if res.cconn != nil {
		res.cconn.CloseWithError(0, "")
	}
	if res.sconn != nil {
		res.sconn.CloseWithError(0, "")
	}
	// The closing period is 3 PTO of the connection's RTT estimate, which a delayed or retransmitted handshake can
	// inflate to seconds: wait for the routing tables to drain, for at most 40 s of virtual time.
	const drainLimit = 40 * time.Second
	time.Sleep(3 * time.Second)
	ids, toks := ct.VerifRouting()
	for waited := 3 * time.Second; (len(ids) > 0 || len(toks) > 0) && waited < drainLimit; waited += time.Second {
		time.Sleep(time.Second)
		ids, toks = ct.VerifRouting()
	}
	if len(ids) > 0 || len(toks) > 0 {
		return bad("C13/release/client-routing", "client transport still routes %d connection IDs and %d reset tokens %v after the connection ended (dial err %v)", len(ids), len(toks), drainLimit, res.dialErr)
	}
	time.Sleep(2*hsIdle + time.Second) // abandoned server-side attempts time out
	ids, toks = st.VerifRouting()
	for waited := time.Duration(0); (len(ids) > 0 || len(toks) > 0) && waited < drainLimit; waited += time.Second {
		time.Sleep(time.Second)
		ids, toks = st.VerifRouting()
	}
	if len(ids) > 0 || len(toks) > 0 {
		return bad("C13/release/server-routing", "server transport still routes %d connection IDs and %d reset tokens after all handshake timeouts passed (accept err %v)", len(ids), len(toks), res.acceptErr)
	}
	cleanup()
	// ---- bookkeeping
	u.Class("scenario:" + c.Scenario)
	if att.crafted > 0 {
		u.Class("injected")
	}
	if earlyKill {
		u.Class("early-vn-or-retry")
	}
	if len(w.Router.AppliedFaults()) > 0 || att.crafted > 0 {
		u.NonTrivial(c.Scenario, c.Client, strings.Join(w.Router.AppliedFaults(), ","), strings.Join(att.notes, ","))
		if u.WantSample() {
			u.Sample(c)
		}
	}
	return nil
}

func hasClass(r *sim.Record, cl string) bool {
	for _, c := range r.Class {
		if c == cl {
			return true
		}
	}
	return false
}

// checkCIDAuth: the transport parameters authenticate the connection IDs in use (RFC 9000 7.3), read off the wire.
func checkCIDAuth(w *sim.World, log []*sim.Record, genuineRetry bool, retrySCID [][]byte) *vf.Verdict {
	var firstDCID, cSCID, sSCID []byte
	for _, r := range log {
		if r.Forged {
			continue
		}
		pk, _ := r.Pkts.([]*sim.Packet)
		for _, p := range pk {
			if p.Kind != "initial" && p.Kind != "handshake" {
				continue
			}
			if r.Dir == "c2s" {
				if firstDCID == nil {
					firstDCID = p.DCID
				}
				cSCID = p.SCID
			} else if p.Kind == "handshake" {
				sSCID = p.SCID // the connection that carried EncryptedExtensions (forged Initials can spawn other server attempts)
			}
		}
	}
	var s2c []*sim.Packet
	for _, r := range log {
		if r.Dir == "s2c" && !r.Forged {
			pk, _ := r.Pkts.([]*sim.Packet)
			s2c = append(s2c, pk...)
		}
	}
	sp, ok := sim.TransportParamsFrom(s2c, false)
	if !ok {
		return nil
	}
	get := func(ps []refwire.TransportParameter, id uint64) ([]byte, bool) {
		var v []byte
		found := false
		for _, p := range ps {
			if p.ID == id {
				v, found = p.Value, true // the last connection's parameters win (two-connection scenarios)
			}
		}
		return v, found
	}
	if v, ok := get(sp, 0x0f); ok && sSCID != nil && !bytes.Equal(v, sSCID) {
		return vf.Bad("C13/agree/cid-authentication", "server's initial_source_connection_id %x differs from the source connection ID %x of its packets", v, sSCID)
	}
	_ = cSCID
	_ = firstDCID
	if v, ok := get(sp, 0x10); ok != genuineRetry {
		return vf.Bad("C13/agree/cid-authentication", "retry_source_connection_id present=%v (%x) but a genuine Retry happened=%v", ok, v, genuineRetry)
	} else if ok && len(retrySCID) > 0 {
		match := false
		for _, r := range retrySCID {
			match = match || bytes.Equal(v, r)
		}
		if !match {
			return vf.Bad("C13/agree/cid-authentication", "retry_source_connection_id %x is not the source connection ID of any Retry packet the server sent (%x)", v, retrySCID)
		}
	}
	return nil
}

func TestHandshakeAttacker(t *testing.T) {
	curT = t
	vf.ReplayRepeat = 40
	vf.RunRapid(t, "handshake-attacker", genCase, checkCase)
}

// TestHandshakeExhaustive: every schedule of one fault (quick) and of two faults (thorough) among the first 10
// datagrams per direction x {drop, dup, delay, flip, truncate}, for every scenario (no injections).
func TestHandshakeExhaustive(t *testing.T) {
	curT = t
	u := vf.U("handshake-exhaustive")
	if vf.ReplayMode() {
		t.Skip("failures are recorded under unit handshake-attacker and replay there")
	}
	var fs []sim.Fault
	for _, dir := range []string{"c2s", "s2c"} {
		for nth := 0; nth < 10; nth++ {
			for _, k := range []sim.Fault{{Kind: "drop"}, {Kind: "dup", Arg: 1}, {Kind: "delay", Arg: 60}, {Kind: "flip", Arg: 30, Arg2: 8}, {Kind: "trunc", Arg: 20}} {
				k.Dir, k.Nth = dir, nth
				fs = append(fs, k)
			}
		}
	}
	si, sk := vf.Shard()
	idx := 0
	run := func(c Case) {
		idx++
		if idx%sk != si {
			return
		}
		u.Case()
		v := vf.Guard("C13/handshake-exhaustive", func() *vf.Verdict { return checkCase(c, u) })
		if v != nil {
			if vf.U("handshake-attacker").Report(v, c) {
				t.Fatalf("VIOLATION %s: %s", v.Sig, v.Detail)
			}
		}
	}
	scen := []Case{{Scenario: "plain", Client: "plain"}, {Scenario: "retry", Client: "plain"}, {Scenario: "vn", Client: "plain"}, {Scenario: "vn", Client: "unil"}, {Scenario: "resume", Client: "plain"},
		{Scenario: "0rtt", Client: "plain"}, {Scenario: "0rtt-reject", Client: "plain"}, {Scenario: "longchain", Client: "plain"}, {Scenario: "plain", Client: "spec:chrome115"}, {Scenario: "retry", Client: "spec:firefoxA"}}
	for _, base := range scen {
		base.RTTms = 20
		for _, f := range fs {
			c := base
			c.Faults = []sim.Fault{f}
			run(c)
		}
		if vf.Thorough() {
			for i := 0; i < len(fs); i++ {
				for j := i + 1; j < len(fs); j++ {
					c := base
					c.Faults = []sim.Fault{fs[i], fs[j]}
					run(c)
				}
			}
		}
	}
	u.Extra("exhaustive", "10 scenario/client combinations x every 1-fault schedule (thorough: every 2-fault schedule) among the first 10 datagrams per direction x {drop,dup,delay,flip,trunc}")
}
