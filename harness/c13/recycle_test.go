// C13 unit cid-recycle: a server whose ConnectionIDGenerator hands out, for a new connection, a connection ID that
// an earlier - fully closed - connection of the same Transport used. While the earlier connection is in its closing
// period (3 PTO) the ID is still in the Transport's routing table (as a "closed connection" entry); afterwards it is
// gone. Either way the new handshake, and every later one from any client socket, must converge within the
// handshake timeouts, and listener and transports must shut down and release their routing state.
//
// See NOTES.md for the precondition the scripted generator honours (never the ID of a live connection).
package c13

import (
	"bytes"
	"context"
	"encoding/binary"
	"encoding/json"
	"fmt"
	"io"
	"net"
	"os"
	"sort"
	"strings"
	"sync"
	"sync/atomic"
	"testing"
	"time"

	"pgregory.net/rapid"

	quic "github.com/refraction-networking/uquic"
	"github.com/refraction-networking/uquic/verif/sim"
	"github.com/refraction-networking/uquic/verif/specgen"
	"github.com/refraction-networking/uquic/verif/vf"
)

// RConn is one connection of the sequence.
type RConn struct {
	Client  string `json:"client"`   // plain | spec:<base>
	CloseBy string `json:"close_by"` // client | server
	GapMs   int    `json:"gap_ms"`   // pause between the end of this connection and the next dial
	// Recycle: -1 = the server generates fresh IDs only; k >= 0 = one ID of connection #k (k < own index, closed by
	// then) is handed out once more: Which selects among the IDs #k was given (mod count, 0 = its first one), At says
	// as which server ID of the new connection (0 = the source connection ID of the server's first packet, i.e. the
	// one registered together with the client's destination connection ID; 1..3 = issued in NEW_CONNECTION_ID).
	Recycle int `json:"recycle"`
	Which   int `json:"which,omitempty"`
	At      int `json:"at,omitempty"`
	Echo    int `json:"echo"`
}

type RCase struct {
	CIDLen    int         `json:"cid_len"` // length of the server's connection IDs (4..20)
	RTTms     int         `json:"rtt_ms"`
	Retry     bool        `json:"retry,omitempty"` // the server validates addresses with Retry (one more generated ID per attempt)
	Conns     []RConn     `json:"conns"`
	Faults    []sim.Fault `json:"faults,omitempty"` // drop / dup among the long-header datagrams of connection #FaultAt
	FaultAt   int         `json:"fault_at,omitempty"`
	Unrelated string      `json:"unrelated"` // client kind of the final connection, dialled from a socket of its own
	Seed      uint64      `json:"seed"`
}

// recycleAdditional (VERIF_C13_RECYCLE_ADDITIONAL=1) also replays IDs as ADDITIONAL connection IDs (NEW_CONNECTION_ID) of
// the new connection. Off by default: see NOTES.md, finding C13/recycle/additional-id-not-routed.
var recycleAdditional = os.Getenv("VERIF_C13_RECYCLE_ADDITIONAL") == "1"

var recycleClients = []string{"plain", "plain", "plain", "spec:chrome115", "spec:chrome146", "spec:firefoxA"}

func genRecycle(t *rapid.T) RCase {
	c := RCase{Seed: rapid.Uint64().Draw(t, "seed")}
	c.CIDLen = rapid.SampledFrom([]int{4, 4, 5, 8, 8, 12, 16, 20}).Draw(t, "cidlen")
	c.RTTms = rapid.SampledFrom([]int{2, 20, 20, 60}).Draw(t, "rtt")
	c.Retry = rapid.IntRange(0, 3).Draw(t, "retry") == 0
	n := rapid.IntRange(2, 5).Draw(t, "nconn")
	for i := 0; i < n; i++ {
		rc := RConn{Recycle: -1}
		rc.Client = rapid.SampledFrom(recycleClients).Draw(t, "client")
		rc.CloseBy = rapid.SampledFrom([]string{"client", "server"}).Draw(t, "closeby")
		// 3 PTO is about 15 ms at an RTT of 2 ms and about 500 ms at 60 ms: gaps on both sides of it
		rc.GapMs = rapid.SampledFrom([]int{0, 0, 0, 1, 5, 20, 60, 150, 400, 1000, 3000}).Draw(t, "gap")
		rc.Echo = rapid.SampledFrom([]int{1, 100, 1500, 6000}).Draw(t, "echo")
		if i > 0 && rapid.IntRange(0, 9).Draw(t, "recycle") < 8 {
			rc.Recycle = i - 1
			if i > 1 && rapid.IntRange(0, 3).Draw(t, "older") == 0 {
				rc.Recycle = rapid.IntRange(0, i-1).Draw(t, "of")
			}
			rc.Which = rapid.SampledFrom([]int{0, 0, 0, 1, 2, 3}).Draw(t, "which")
			if recycleAdditional {
				rc.At = rapid.SampledFrom([]int{0, 0, 0, 0, 0, 1, 2}).Draw(t, "at")
			}
		}
		c.Conns = append(c.Conns, rc)
	}
	c.Unrelated = rapid.SampledFrom(recycleClients).Draw(t, "unrelated")
	if rapid.IntRange(0, 2).Draw(t, "faulty") == 0 {
		c.FaultAt = rapid.IntRange(0, n-1).Draw(t, "faultat")
		nf := rapid.IntRange(1, 3).Draw(t, "nfaults")
		for i := 0; i < nf; i++ {
			f := sim.Fault{Dir: rapid.SampledFrom([]string{"c2s", "s2c"}).Draw(t, "dir"), Cls: "long", Nth: rapid.IntRange(0, 4).Draw(t, "nth"),
				Kind: rapid.SampledFrom([]string{"drop", "drop", "dup"}).Draw(t, "kind")}
			if f.Kind == "dup" {
				f.Arg = rapid.IntRange(1, 2).Draw(t, "copies")
			}
			c.Faults = append(c.Faults, f)
		}
	}
	return c
}

// ---- the scripted generator ----

// cidScript implements quic.ConnectionIDGenerator for the server Transport: fresh, unique IDs of one length, and - when
// armed by the scenario - once more an ID it generated for an earlier connection.
type cidScript struct {
	mu     sync.Mutex
	length int
	seed   uint64
	ctr    uint32
	routed func(quic.ConnectionID) bool // is the ID in the server Transport's routing table right now?

	// state of the current epoch (= one connection of the sequence)
	newConn  bool // set by Transport.ConnContext: the next call generates the first ID of a new server connection
	idx      int  // ordinal of the previous call within the current server connection (0 = its first ID)
	started  int  // server connections created in this epoch
	ids      []quic.ConnectionID
	armed    *quic.ConnectionID
	armedAt  int
	handed   bool
	wasRoute bool
	all      map[string]bool // every ID ever handed out (uniqueness of the fresh ones)
}

func (g *cidScript) ConnectionIDLen() int { return g.length }

func (g *cidScript) fresh() quic.ConnectionID {
	for {
		g.ctr++
		b := make([]byte, g.length)
		// the first four bytes are a bijection of the counter (unique), the rest is filler derived from it
		binary.BigEndian.PutUint32(b, g.ctr*2654435761+uint32(g.seed))
		s := g.seed ^ uint64(g.ctr)*0x9e3779b97f4a7c15 | 1
		for i := 4; i < len(b); i++ {
			s ^= s << 13
			s ^= s >> 7
			s ^= s << 17
			b[i] = byte(s)
		}
		if !g.all[string(b)] {
			g.all[string(b)] = true
			return quic.ConnectionIDFromBytes(b)
		}
	}
}

func (g *cidScript) GenerateConnectionID() (quic.ConnectionID, error) {
	g.mu.Lock()
	if g.newConn {
		g.newConn, g.idx = false, 0
	} else {
		g.idx++
	}
	if g.armed != nil && !g.handed && g.started == 1 && g.idx == g.armedAt {
		id := *g.armed
		g.handed = true
		g.ids = append(g.ids, id)
		probe := g.routed
		g.mu.Unlock()
		r := probe(id) // none of the library's callers holds the Transport's mutex here
		g.mu.Lock()
		g.wasRoute = r
		g.mu.Unlock()
		return id, nil
	}
	id := g.fresh()
	g.ids = append(g.ids, id)
	g.mu.Unlock()
	return id, nil
}

// noteNewConn is called from Transport.ConnContext, i.e. by baseServer.handleInitialImpl right before it asks the
// generator for the new connection's ID.
func (g *cidScript) noteNewConn() {
	g.mu.Lock()
	g.newConn = true
	g.started++
	g.mu.Unlock()
}

func (g *cidScript) begin(arm *quic.ConnectionID, at int) {
	g.mu.Lock()
	g.newConn, g.idx, g.started, g.ids = false, 0, 0, nil
	g.armed, g.armedAt, g.handed, g.wasRoute = arm, at, false, false
	g.mu.Unlock()
}

type epochResult struct {
	ids      []quic.ConnectionID
	started  int
	handed   bool
	wasRoute bool
}

func (g *cidScript) end() epochResult {
	g.mu.Lock()
	defer g.mu.Unlock()
	r := epochResult{ids: g.ids, started: g.started, handed: g.handed, wasRoute: g.wasRoute}
	g.armed = nil
	return r
}

// ---- scenario ----

type rcState struct {
	c        RCase
	u        *vf.Unit
	w        *sim.World
	st       *quic.Transport
	ln       *quic.Listener
	gen      *cidScript
	clients  map[string]*quic.Transport
	order    []*quic.Transport
	nextPort int
	step     atomic.Int32 // progress of the shutdown sequence
	open     []*quic.Conn
}

func (s *rcState) clientTransport(kind string) *quic.Transport {
	if tr, ok := s.clients[kind]; ok {
		return tr
	}
	var pc net.PacketConn = s.w.ClientConn
	if len(s.order) > 0 {
		s.nextPort++
		pc = s.w.NewEndpoint(&net.UDPAddr{IP: net.ParseIP("1.0.0.1"), Port: s.nextPort})
	}
	tr := &quic.Transport{Conn: pc}
	s.clients[kind] = tr
	s.order = append(s.order, tr)
	return tr
}

func (s *rcState) dial(ctx context.Context, tr *quic.Transport, kind string) (*quic.Conn, error) {
	ctls := sim.ClientTLS(s.w.ClientKeys)
	if strings.HasPrefix(kind, "spec:") {
		spec, err := specgen.Desc{Base: strings.TrimPrefix(kind, "spec:")}.Build()
		if err != nil {
			return nil, err
		}
		return (&quic.UTransport{Transport: tr, QUICSpec: spec}).Dial(ctx, sim.ServerAddr, ctls, qconf())
	}
	return tr.Dial(ctx, sim.ServerAddr, ctls, qconf())
}

// shutdown closes listener and transports; it reports what did not return within bounded virtual time.
func (s *rcState) shutdown() string {
	for _, c := range s.open {
		c.CloseWithError(0, "") // returns once the run loop ended; a connection whose run loop never started is not in here
	}
	done := make(chan struct{})
	go func() {
		defer close(done)
		s.step.Store(1)
		s.ln.Close()
		s.step.Store(2)
		for _, tr := range s.order {
			tr.Close()
		}
		s.step.Store(3)
		s.st.Close()
		s.step.Store(4)
	}()
	if sim.WaitCtx(done, 20*time.Second) {
		return ""
	}
	return []string{"", "Listener.Close", "a client Transport.Close", "the server's Transport.Close", ""}[s.step.Load()]
}

// lossWindow: the longest stretch within (from, until] between two intact deliveries of one direction during which the
// network lost a datagram of that direction (same notion as sim.Router.DeadStretch, restricted to one dial).
func lossWindow(recs []*sim.Record, from, until time.Duration) time.Duration {
	var longest time.Duration
	for _, dir := range []string{"c2s", "s2c"} {
		type ev struct {
			t    time.Duration
			lost bool
		}
		var evs []ev
		for _, x := range recs {
			if x.Forged || x.Dir != dir || x.T < from {
				continue
			}
			if x.Mutated || x.Fate == "dropped" || x.Fate == "lost" || x.Fate == "blackout" || x.Fate == "noroute" {
				evs = append(evs, ev{x.T, true})
			} else { // (a datagram still in flight has no delivery yet and is not lost)
				for _, d := range x.Dlv {
					evs = append(evs, ev{d, false})
				}
			}
		}
		sort.Slice(evs, func(i, j int) bool { return evs[i].t < evs[j].t })
		last, hasLoss := from, false
		for _, e := range evs {
			if e.t > until {
				break
			}
			if e.lost {
				hasLoss = true
				continue
			}
			if hasLoss && e.t-last > longest {
				longest = e.t - last
			}
			last, hasLoss = e.t, false
		}
		if hasLoss && until-last > longest {
			longest = until - last
		}
	}
	return longest
}

type pairResult struct {
	cconn, sconn     *quic.Conn
	dialErr, accErr  error
	dialAt, acceptAt time.Duration
}

func checkRecycle(c RCase, u *vf.Unit) *vf.Verdict {
	u.Journal(c)
	var v, leak *vf.Verdict
	stuck := false
	func() {
		defer func() {
			// a bubble with goroutines that can never end (the defect this unit looks for blocks the server's
			// packet-handling goroutine for good) makes synctest panic in the caller once the root function returned
			if p := recover(); p != nil {
				if (v != nil || leak != nil) && strings.Contains(fmt.Sprint(p), "blocked goroutines remain") {
					return
				}
				panic(p)
			}
		}()
		sim.Bubble(curT, 10*time.Second, func() { v, stuck = runRecycle(c, u) }, func(rep sim.LeakReport) {
			leak = vf.Bad("C13/leak/goroutines", "%d goroutines alive after listener and transports were closed:\n%s", rep.Count, rep.Dump)
		})
	}()
	_ = stuck
	if v == nil {
		v = leak
	}
	return v
}

func runRecycle(c RCase, u *vf.Unit) (verdict *vf.Verdict, stuck bool) {
	w := sim.NewWorld(time.Duration(c.RTTms)*time.Millisecond, nil, nil, nil)
	defer func() {
		if stuck {
			// Listener.Close / Transport.Close hang while holding the server's mutex: closing the server's socket now
			// would make the Transport's read loop wait for that mutex - not a durable block, so the bubble's clock
			// would stop and the verdict would never get out. Leave the endpoints alone, only silence the network.
			w.Router.Close()
			return
		}
		w.Close()
	}()
	s := &rcState{c: c, u: u, w: w, clients: map[string]*quic.Transport{}, nextPort: 9100}
	s.gen = &cidScript{length: c.CIDLen, seed: c.Seed, all: map[string]bool{}}
	s.st = &quic.Transport{Conn: w.ServerConn, ConnectionIDGenerator: s.gen}
	s.gen.routed = func(id quic.ConnectionID) bool {
		ids, _ := s.st.VerifRouting()
		for _, x := range ids {
			if x == id {
				return true
			}
		}
		return false
	}
	s.st.ConnContext = func(ctx context.Context, _ *quic.ClientInfo) (context.Context, error) {
		s.gen.noteNewConn()
		return ctx, nil
	}
	if c.Retry {
		s.st.VerifySourceAddress = func(net.Addr) bool { return true }
	}
	ln, err := s.st.Listen(sim.ServerTLS(false, w.ServerKeys), qconf())
	if err != nil {
		s.st.Close()
		return vf.Bad("C13/harness/listen", "%v", err), false
	}
	s.ln = ln

	bad := func(sig, f string, a ...any) (*vf.Verdict, bool) {
		v := vf.Bad(sig, f, a...)
		v.Trace = w.Router.Trace(160)
		if what := s.shutdown(); what != "" {
			v.Detail += fmt.Sprintf(" [afterwards %s did not return within 20 s of virtual time]", what)
			return v, true
		}
		return v, false
	}

	// connect: one Dial / Accept pair with the oracle of property C13; ok=false with a nil verdict is a failure the
	// network justifies (the case ends there)
	connect := func(tr *quic.Transport, kind string, what string, faulty bool, failSig string) (*pairResult, *vf.Verdict, bool) {
		t0 := w.Router.Now()
		res := &pairResult{}
		ctx, cancel := context.WithTimeout(context.Background(), 2*hsIdle+6*time.Second)
		defer cancel()
		var wg sync.WaitGroup
		wg.Add(2)
		go func() {
			defer wg.Done()
			res.cconn, res.dialErr = s.dial(ctx, tr, kind)
			res.dialAt = w.Router.Now() - t0
		}()
		go func() {
			defer wg.Done()
			res.sconn, res.accErr = ln.Accept(ctx)
			res.acceptAt = w.Router.Now() - t0
		}()
		done := make(chan struct{})
		go func() { wg.Wait(); close(done) }()
		hung := !sim.WaitCtx(done, 2*hsIdle+8*time.Second)
		cancel()
		if hung {
			// do not wait for them: the verdict must get out
			v, st := bad("C13/hang/dial-or-accept", "%s: Dial / Accept did not return within %v of virtual time", what, 2*hsIdle+8*time.Second)
			return nil, v, st
		}
		if res.cconn != nil {
			s.open = append(s.open, res.cconn)
		}
		if res.sconn != nil {
			s.open = append(s.open, res.sconn)
		}
		if res.dialAt > 2*hsIdle+500*time.Millisecond {
			v, st := bad("C13/hang/dial-late", "%s: Dial returned after %v, the handshake timeout is %v (err %v)", what, res.dialAt, 2*hsIdle, res.dialErr)
			return nil, v, st
		}
		if res.dialErr != nil || res.accErr != nil {
			now := w.Router.Now()
			dead := lossWindow(w.Router.Trace(1<<30), t0, now)
			if faulty && dead >= hsIdle/3 {
				u.Class("justified-failure")
				return nil, nil, false
			}
			v, st := bad(failSig, "%s: dial error %v (after %v), accept error %v (after %v), although the network lost nothing for long (longest dead stretch during this dial %v; faults applied %v)",
				what, res.dialErr, res.dialAt, res.accErr, res.acceptAt, dead, w.Router.AppliedFaults())
			return nil, v, st
		}
		select {
		case <-res.cconn.HandshakeComplete():
		case <-res.cconn.Context().Done():
		case <-time.After(2 * hsIdle):
		}
		cs, ss := res.cconn.ConnectionState(), res.sconn.ConnectionState()
		if cs.Version != ss.Version {
			v, st := bad("C13/agree/version", "%s: client negotiated version %v, server %v", what, cs.Version, ss.Version)
			return nil, v, st
		}
		if cs.TLS.NegotiatedProtocol != ss.TLS.NegotiatedProtocol || cs.TLS.NegotiatedProtocol != "h3" {
			v, st := bad("C13/agree/alpn", "%s: client ALPN %q, server %q", what, cs.TLS.NegotiatedProtocol, ss.TLS.NegotiatedProtocol)
			return nil, v, st
		}
		return res, nil, true
	}

	// echo: a short request/response over one bidirectional stream
	echo := func(res *pairResult, n int, what string) (*vf.Verdict, bool) {
		data := make([]byte, n)
		x := c.Seed | 1
		for i := range data {
			x ^= x << 13
			x ^= x >> 7
			x ^= x << 17
			data[i] = byte(x)
		}
		ctx, cancel := context.WithTimeout(context.Background(), 20*time.Second)
		defer cancel()
		srv := make(chan error, 1)
		go func() {
			str, err := res.sconn.AcceptStream(ctx)
			if err != nil {
				srv <- err
				return
			}
			b, err := io.ReadAll(str)
			if err != nil {
				srv <- err
				return
			}
			_, err = str.Write(b)
			str.Close()
			srv <- err
		}()
		var got []byte
		str, err := res.cconn.OpenStreamSync(ctx)
		if err == nil {
			str.SetDeadline(time.Now().Add(20 * time.Second))
			if _, err = str.Write(data); err == nil {
				str.Close()
				got, err = io.ReadAll(str)
			}
		}
		if err != nil {
			res.cconn.CloseWithError(0, "")
			res.sconn.CloseWithError(0, "")
		}
		serr := <-srv
		if err != nil || serr != nil {
			return bad("C13/recycle/echo-failed", "%s: the echo over the established connection failed: client %v, server %v (only long-header datagrams are ever dropped)", what, err, serr)
		}
		if !bytes.Equal(got, data) {
			return bad("C13/recycle/echo-corrupt", "%s: echoed %d bytes differ from the %d bytes sent", what, len(got), len(data))
		}
		return nil, false
	}

	closePair := func(res *pairResult, by string) {
		first, second := res.cconn, res.sconn
		if by == "server" {
			first, second = second, first
		}
		first.CloseWithError(0, "")
		// the peer learns it from the CONNECTION_CLOSE; should that be lost it is closed here (both sides are then
		// fully closed, which is what makes the connection's IDs eligible for the generator)
		if !sim.WaitCtx(second.Context().Done(), time.Second+4*time.Duration(c.RTTms)*time.Millisecond) {
			second.CloseWithError(0, "")
		}
		<-res.cconn.Context().Done()
		<-res.sconn.Context().Done()
	}

	// ---- the sequence
	type closedConn struct {
		ids      []quic.ConnectionID
		eligible bool
	}
	var hist []closedConn
	var classes []string
	recycledAny := false
	for i, rc := range c.Conns {
		what := fmt.Sprintf("connection #%d (%s)", i, rc.Client)
		var arm *quic.ConnectionID
		if rc.Recycle >= 0 && rc.Recycle < len(hist) && hist[rc.Recycle].eligible && len(hist[rc.Recycle].ids) > 0 {
			src := hist[rc.Recycle]
			id := src.ids[rc.Which%len(src.ids)]
			arm = &id
			what += fmt.Sprintf(" whose server ID #%d is %s, used before by closed connection #%d", rc.At, id, rc.Recycle)
		}
		s.gen.begin(arm, rc.At)
		faulty := len(c.Faults) > 0 && c.FaultAt == i
		if faulty {
			w.Router.Arm(c.Faults)
		}
		failSig := "C13/converge/unexplained-failure"
		if arm != nil && rc.At > 0 {
			failSig = "C13/recycle/additional-id-not-routed"
		}
		res, v, ok := connect(s.clientTransport(rc.Client), rc.Client, what, faulty, failSig)
		if v != nil {
			return v, ok
		}
		if !ok {
			s.gen.end()
			if what := s.shutdown(); what != "" {
				return vf.Bad("C13/hang/close", "%s did not return within 20 s of virtual time after a handshake that failed for network reasons", what), true
			}
			return nil, false
		}
		if v, st := echo(res, rc.Echo, what); v != nil {
			return v, st
		}
		if faulty {
			for _, a := range w.Router.AppliedFaults() {
				classes = append(classes, "fault:"+a[strings.LastIndex(a, "/")+1:])
			}
			w.Router.Arm(nil)
		}
		closePair(res, rc.CloseBy)
		ep := s.gen.end()
		// IDs are attributed to the connection by epoch: exact as long as the epoch created exactly one server connection
		hist = append(hist, closedConn{ids: ep.ids, eligible: ep.started == 1})
		if arm != nil {
			switch {
			case !ep.handed:
				classes = append(classes, "recycle-not-reached")
			case rc.At == 0 && ep.wasRoute:
				classes = append(classes, "recycled-id-during-closing-period")
				recycledAny = true
			case rc.At == 0:
				classes = append(classes, "recycled-id-after-closing-period")
				recycledAny = true
			case ep.wasRoute:
				classes = append(classes, "recycled-additional-id-during-closing-period")
				recycledAny = true
			default:
				classes = append(classes, "recycled-additional-id-after-closing-period")
				recycledAny = true
			}
		}
		classes = append(classes, "closed-by-"+rc.CloseBy)
		if strings.HasPrefix(rc.Client, "spec:") {
			classes = append(classes, "spec-client")
		} else {
			classes = append(classes, "plain-client")
		}
		time.Sleep(time.Duration(rc.GapMs) * time.Millisecond)
	}

	// ---- one unrelated connection from another client socket
	s.gen.begin(nil, 0)
	s.nextPort++
	other := &quic.Transport{Conn: w.NewEndpoint(&net.UDPAddr{IP: net.ParseIP("1.0.0.3"), Port: s.nextPort})}
	s.order = append(s.order, other)
	res, v, ok := connect(other, c.Unrelated, fmt.Sprintf("the unrelated connection from another socket (%s) after the sequence", c.Unrelated), false, "C13/converge/unexplained-failure")
	if v != nil {
		return v, ok
	}
	if v, st := echo(res, 300, "the unrelated connection"); v != nil {
		return v, st
	}
	closePair(res, "client")
	s.gen.end()
	classes = append(classes, "unrelated-connection-after")

	// ---- release: routing tables drain (closing periods are 3 PTO), then everything closes
	time.Sleep(3 * time.Second)
	const drainLimit = 40 * time.Second
	left := func() (int, int, string) {
		for i, tr := range append([]*quic.Transport{s.st}, s.order...) {
			ids, toks := tr.VerifRouting()
			if len(ids) > 0 || len(toks) > 0 {
				name := "the server's transport"
				if i > 0 {
					name = fmt.Sprintf("client transport %d", i)
				}
				return len(ids), len(toks), name
			}
		}
		return 0, 0, ""
	}
	ni, nt, where := left()
	for waited := 3 * time.Second; where != "" && waited < drainLimit; waited += time.Second {
		time.Sleep(time.Second)
		ni, nt, where = left()
	}
	if where != "" {
		sig := "C13/release/client-routing"
		if strings.HasPrefix(where, "the server") {
			sig = "C13/release/server-routing"
		}
		return bad(sig, "%s still routes %d connection IDs and %d reset tokens %v after every connection was closed", where, ni, nt, drainLimit)
	}
	if what := s.shutdown(); what != "" {
		v := vf.Bad("C13/hang/close", "%s did not return within 20 s of virtual time after all connections had been closed", what)
		v.Trace = w.Router.Trace(160)
		return v, true
	}

	// ---- bookkeeping
	for _, cl := range classes {
		u.Class(cl)
	}
	if c.Retry {
		u.Class("retry")
	}
	u.Class(fmt.Sprintf("cidlen:%d", c.CIDLen))
	if recycledAny {
		u.NonTrivial(c.CIDLen, c.RTTms, c.Retry, strings.Join(classes, ","))
		if u.WantSample() {
			u.Sample(c)
		}
	}
	return nil, false
}

func TestCIDRecycle(t *testing.T) {
	curT = t
	vf.ReplayRepeat = 20
	vf.RunRapid(t, "cid-recycle", genRecycle, checkRecycle)
}

// TestCIDRecycleDbg runs one case given as JSON in C13_RECYCLE_CASE (development aid).
func TestCIDRecycleDbg(t *testing.T) {
	js := os.Getenv("C13_RECYCLE_CASE")
	if js == "" {
		t.Skip("no case")
	}
	curT = t
	var c RCase
	if err := json.Unmarshal([]byte(js), &c); err != nil {
		t.Fatal(err)
	}
	n := 1
	if s := os.Getenv("C13_RECYCLE_REPEAT"); s != "" {
		fmt.Sscan(s, &n)
	}
	for i := 0; i < n; i++ {
		if v := checkRecycle(c, vf.Scratch()); v != nil {
			tr, _ := json.MarshalIndent(v.Trace, "", " ")
			t.Fatalf("run %d: %s: %s\n%s", i, v.Sig, v.Detail, tr)
		}
	}
}
