package c17

import (
	"bytes"
	"encoding/hex"
	"errors"
	"fmt"
	"math/bits"
	"os"
	"sort"
	"strings"
	"time"

	quic "github.com/refraction-networking/uquic"
	"github.com/refraction-networking/uquic/verif/refwire"
	"github.com/refraction-networking/uquic/verif/sim"
	"github.com/refraction-networking/uquic/verif/vf"
)

const timeoutSlack = 2 * ms

func errKind(err error) string {
	var ae *quic.ApplicationError
	var te *quic.TransportError
	var ie *quic.IdleTimeoutError
	var he *quic.HandshakeTimeoutError
	var se *quic.StatelessResetError
	switch {
	case err == nil:
		return "nil"
	case errors.As(err, &ae):
		if ae.Remote {
			return "app-remote"
		}
		return "app-local"
	case errors.As(err, &te):
		if te.Remote {
			return "transport-remote"
		}
		return "transport-local"
	case errors.As(err, &ie):
		return "idle"
	case errors.As(err, &he):
		return "hs-timeout"
	case errors.As(err, &se):
		return "reset"
	case errors.Is(err, quic.ErrTransportClosed):
		return "transport-closed"
	case errors.Is(err, errCancelSentinel):
		return "cancel-cause"
	}
	return "other"
}

// sameCause reports whether the error a call returned is the connection's recorded cause.
func sameCause(callErr, cause error) bool {
	if callErr == nil || cause == nil {
		return false
	}
	if errKind(callErr) != errKind(cause) {
		return false
	}
	var a1, a2 *quic.ApplicationError
	if errors.As(cause, &a1) {
		return errors.As(callErr, &a2) && *a1 == *a2
	}
	var t1, t2 *quic.TransportError
	if errors.As(cause, &t1) {
		return errors.As(callErr, &t2) && t1.ErrorCode == t2.ErrorCode && t1.Remote == t2.Remote && t1.FrameType == t2.FrameType && t1.ErrorMessage == t2.ErrorMessage
	}
	return callErr.Error() == cause.Error()
}

type dlv struct {
	t    time.Duration // delivery time
	sent time.Duration
	rec  *sim.Record
}

type ccInfo struct {
	dlv
	f    refwire.Frame
	kind string // packet kind carrying the frame
}

func pktsOf(rec *sim.Record) []*sim.Packet {
	p, _ := rec.Pkts.([]*sim.Packet)
	return p
}

func decryptable(rec *sim.Record) bool {
	for _, p := range pktsOf(rec) {
		switch p.Kind {
		case "initial", "handshake", "1rtt", "0rtt":
			return true
		}
	}
	return false
}

func ackEliciting(rec *sim.Record) bool {
	for _, p := range pktsOf(rec) {
		if p.AckEliciting {
			return true
		}
	}
	return false
}

func resetShaped(rec *sim.Record) bool {
	ps := pktsOf(rec)
	return len(ps) == 1 && ps[0].Kind == "undecryptable" && rec.Len >= 21 && len(ps[0].Raw) > 0 && ps[0].Raw[0]&0xc0 == 0x40
}

// facts derived from the router's log
type facts struct {
	intactTo map[string][]dlv // genuine, unmodified, decryptable datagrams delivered to "c"/"s"
	anyTo    map[string][]dlv // everything delivered (incl. forged / replayed / modified)
	sentBy   map[string][]*sim.Record
	ccTo     map[string][]ccInfo // CONNECTION_CLOSE frames delivered to an endpoint in genuine datagrams
	ccFrom   map[string][]ccInfo // CONNECTION_CLOSE frames sent by an endpoint (delivered or not); t = send time
	resetTo  map[string][]dlv

	foreignResets int // reset-shaped datagrams with a token that is not the receiver's
}

// tokenInUse returns the stateless reset token associated with the connection ID that endpoint e sent its last 1-RTT
// packet to before t (read off the wire: NEW_CONNECTION_ID frames and the server's transport parameter).
func (r *result) tokenInUse(e string, t time.Duration) (tok [16]byte, state int) {
	var dcid []byte
	seen := false
	for _, rec := range r.log {
		if rec.Forged || rec.Dir != dirFrom(e) || rec.T > t {
			continue
		}
		for _, p := range pktsOf(rec) {
			if p.Kind == "1rtt" && p.Err == "" {
				dcid, seen = p.DCID, true
			}
		}
	}
	if !seen {
		return tok, tokUnknown
	}
	// (a zero-length ID, or the ID a client chose for itself during the handshake, has no token: no datagram can be a
	// stateless reset for an endpoint that sends to such an ID)
	tok, ok := r.tokTable[r.peer(r.ep(e)).name][hex.EncodeToString(dcid)]
	if !ok || len(dcid) == 0 {
		return tok, tokNone
	}
	return tok, tokKnown
}

const (
	tokUnknown = iota // no 1-RTT packet of the endpoint was readable: cannot tell
	tokNone           // the connection ID in use has no token
	tokKnown
)

func (r *result) facts() *facts {
	f := &facts{intactTo: map[string][]dlv{}, anyTo: map[string][]dlv{}, sentBy: map[string][]*sim.Record{}, ccTo: map[string][]ccInfo{}, ccFrom: map[string][]ccInfo{}, resetTo: map[string][]dlv{}}
	for _, rec := range r.log {
		to, from := "s", "c"
		if rec.Dir == "s2c" {
			to, from = "c", "s"
		}
		if len(rec.Dlv) > 0 {
			f.anyTo[to] = append(f.anyTo[to], dlv{rec.Dlv[0], rec.T, rec})
		}
		if rec.Forged && rec.Notes == "trickle" && len(rec.Dlv) > 0 {
			f.intactTo[to] = append(f.intactTo[to], dlv{rec.Dlv[0], rec.T, rec}) // valid packets, only not from the server
		}
		if rec.Forged {
			continue
		}
		f.sentBy[from] = append(f.sentBy[from], rec)
		for _, p := range pktsOf(rec) {
			for _, fr := range p.Frames {
				if fr.Name == refwire.NameConnectionClose {
					f.ccFrom[from] = append(f.ccFrom[from], ccInfo{dlv{rec.T, rec.T, rec}, fr, p.Kind})
				}
			}
		}
		if rec.Mutated || len(rec.Dlv) == 0 {
			continue
		}
		d := dlv{rec.Dlv[0], rec.T, rec}
		if decryptable(rec) {
			f.intactTo[to] = append(f.intactTo[to], d)
		}
		if resetShaped(rec) {
			// a stateless reset FOR this endpoint carries the token of the connection ID it sends to; anything else (e.g. a
			// stateless peer answering a crafted datagram) is noise that the endpoint must ignore
			tail, have := r.tap.tail[rec.Seq]
			if tok, st := r.tokenInUse(to, d.t); st == tokNone || (st == tokKnown && have && tail != tok) {
				f.foreignResets++
			} else {
				f.resetTo[to] = append(f.resetTo[to], d)
			}
		}
		for _, p := range pktsOf(rec) {
			for _, fr := range p.Frames {
				if fr.Name == refwire.NameConnectionClose {
					f.ccTo[to] = append(f.ccTo[to], ccInfo{d, fr, p.Kind})
				}
			}
		}
	}
	for _, m := range []map[string][]dlv{f.intactTo, f.anyTo, f.resetTo} {
		for k := range m {
			sort.SliceStable(m[k], func(i, j int) bool { return m[k][i].t < m[k][j].t })
		}
	}
	for k := range f.ccTo {
		sort.SliceStable(f.ccTo[k], func(i, j int) bool { return f.ccTo[k][i].t < f.ccTo[k][j].t })
	}
	return f
}

func (r *result) describe() string {
	var sb strings.Builder
	fmt.Fprintf(&sb, "\n  plan: arm %v cause %v (done %v) rtt %v", r.tArm, r.tCause, r.causeAt, r.rtt)
	if r.forgeName != "" {
		fmt.Fprintf(&sb, " forged %s (expect %#x)", r.forgeName, r.forgeCode)
	}
	if r.dialDone {
		fmt.Fprintf(&sb, "\n  Dial returned at %v: %v", r.dialAt, r.dialErr)
	}
	for _, e := range []*endpoint{r.C, r.S} {
		if e.conn == nil {
			fmt.Fprintf(&sb, "\n  %s: no connection surfaced", e.name)
		} else if e.didEnd {
			fmt.Fprintf(&sb, "\n  %s: conn since %v ended %v: %v", e.name, e.connAt, e.endAt, e.endErr)
		} else {
			fmt.Fprintf(&sb, "\n  %s: conn since %v never ended", e.name, e.connAt)
		}
		for _, c := range e.calls {
			if c.Returned {
				fmt.Fprintf(&sb, "\n    %-22s %v .. %v n=%d err=%v", c.Name, c.Start, c.End, c.N, c.Err)
			} else {
				fmt.Fprintf(&sb, "\n    %-22s %v .. (never returned)", c.Name, c.Start)
			}
		}
	}
	for _, n := range r.notes {
		fmt.Fprintf(&sb, "\n  note: %s", n)
	}
	if os.Getenv("VERIF_C17_DEBUG") != "" {
		for _, rec := range r.log {
			var names []string
			for _, p := range pktsOf(rec) {
				names = append(names, fmt.Sprintf("%s#%d%v", p.Kind, p.PN, p.Names))
			}
			fmt.Fprintf(&sb, "\n   %4d %s %-12v len=%-4d %-10s dlv=%v %v %s", rec.Seq, rec.Dir, rec.T, rec.Len, rec.Fate, rec.Dlv, names, rec.Notes)
		}
	}
	return sb.String()
}

func (r *result) bad(sig, f string, a ...any) *vf.Verdict {
	v := vf.Bad(sig, f, a...)
	v.Detail += r.describe()
	return v
}

// idleBounds checks the precision clause of the property for an endpoint that gave up at time T because of
// inactivity. period is the negotiated idle timeout (or HandshakeIdleTimeout before handshake completion).
func (r *result) idleBounds(f *facts, e *endpoint, T, since, period time.Duration, handshake bool) *vf.Verdict {
	lastRecv := since
	for _, d := range f.intactTo[e.name] {
		if d.t < T && d.t > lastRecv {
			lastRecv = d.t
		}
	}
	if T < lastRecv+period {
		return r.bad("C17/idle/early", "%s gave up at %v, only %v after the last packet it received (at %v); the period is %v", e.name, T, T-lastRecv, lastRecv, period)
	}
	start := lastRecv
	var later []time.Duration // send times of further ack-eliciting datagrams
	for _, rec := range f.sentBy[e.name] {
		if rec.T > lastRecv && rec.T < T && ackEliciting(rec) {
			if start == lastRecv {
				start = rec.T
			} else if rec.T > start {
				later = append(later, rec.T)
			}
		}
	}
	ptoUp := 3*r.rtt + 50*ms
	span := max(period, 3*ptoUp)
	limit := start + span + timeoutSlack
	if handshake {
		span = period
		limit = start + period + timeoutSlack
		if hl := since + 2*period + timeoutSlack; hl < limit {
			limit = hl
		}
	}
	if T > limit {
		// Root cause found with this check (repaired in /repo f1135e1): shortHeaderPacket.IsAckEliciting ignored STREAM
		// frames, so a PTO probe carrying only STREAM frames did not start the idle period; a later probe (one with a
		// control frame) did. The pattern keeps its own signature.
		for _, t := range later {
			if T >= t+period && T <= t+span+timeoutSlack {
				return r.bad("C17/idle/stream-only-probe-not-counted", "%s gave up at %v; last packet received at %v, first ack-eliciting packet sent after it at %v, period %v: the deadline was %v, but the idle period was restarted by the ack-eliciting packet sent at %v", e.name, T, lastRecv, start, period, limit, t)
			}
		}
		return r.bad("C17/idle/late", "%s gave up at %v; last packet received at %v, first ack-eliciting packet sent after it at %v, period %v: the deadline was %v at the latest", e.name, T, lastRecv, start, period, limit)
	}
	return nil
}

// craftVerdict judges the victim of crafted stateless resets (cause "craft").
//
// RFC 9000 10.3.1: "An endpoint detects a potential Stateless Reset using the trailing 16 bytes of the UDP datagram",
// compared with the tokens "associated with the connection IDs ... for datagrams it has recently sent"; tokens of
// unused or retired connection IDs MUST NOT be checked; 10.3: a reset is at least 21 bytes long (5 bytes of
// unpredictable bits + 16-byte token; protocol.MinReceivedStatelessResetSize), endpoints MUST discard packets that are
// too small to be valid QUIC packets, and other stacks send resets SMALLER than the packet they answer - so every
// length from 21 up must work, not only the 42 bytes (protocol.MinStatelessResetSize) this implementation sends.
// Detection applies to datagrams that cannot be associated with a connection (Transport.maybeHandleStatelessReset) and
// to those that can but cannot be decrypted (Conn.handleShortHeaderPacket).
func (r *result) craftVerdict(f *facts) *vf.Verdict {
	if r.c.Cause != "craft" {
		return nil
	}
	e := r.ep(r.c.By)
	if e.conn == nil {
		return nil
	}
	ended := e.didEnd && !e.neverEnded
	for i, cr := range r.crafts {
		if cr.rec < 0 || len(r.log[cr.rec].Dlv) == 0 {
			continue
		}
		d := r.log[cr.rec].Dlv[0]
		what := fmt.Sprintf("crafted datagram #%d (%d bytes, token %s, routed to the %s, %d-byte local connection IDs, client kind %q)", i, len0(cr), cr.tok, cr.path, r.cidLen(e.name), r.c.ClientKind)
		switch {
		case cr.valid && (!ended || e.endAt > d):
			state := "is still alive"
			if ended {
				state = fmt.Sprintf("ended only at %v (%v)", e.endAt, e.endErr)
			}
			return r.bad("C17/reset/valid-reset-ignored", "%s: a valid stateless reset was delivered at %v - %s - but the connection %s (%v later); blocked calls at the time: %v", e.name, d, what, state, r.finalNow-d, cr.pending)
		case cr.subMin && ended && e.endAt == d && errKind(e.endErr) == "reset":
			// Not judged (coordinator decision): Transport.maybeHandleStatelessReset accepts everything from 17 bytes
			// (1 + token) up, the connection path enforces 21 (RFC 9000 10.3: shorter datagrams are never valid QUIC
			// packets). Which datagrams count as a reset is not part of C17's statement; what IS judged is that a
			// connection ended this way ends as cleanly as after any other reset.
			r.subMinAccepted = true
			r.u.Class("obs:below-minimum-reset-accepted:path=" + cr.path)
		case !cr.valid && !cr.subMin && ended && e.endAt == d && errKind(e.endErr) == "reset":
			return r.bad("C17/reset/invalid-reset-accepted", "%s: ended with %v at %v, the instant %s was delivered; that datagram does not carry the token of a connection ID in use and must be ignored (RFC 9000 10.3.1)", e.name, e.endErr, d, what)
		}
		if (cr.valid || cr.subMin) && ended && e.endAt == d && errKind(e.endErr) == "reset" {
			// RFC 9000 10.3.1: "the endpoint MUST enter the draining period and not send any further packets on this
			// connection"
			for _, cc := range f.ccFrom[e.name] {
				if cc.t >= e.endAt {
					return r.bad("C17/reset/close-sent-after-reset", "%s: ended with %v at %v when %s was delivered, and then sent CONNECTION_CLOSE (app=%v code %#x %q, in a %s packet) at %v; after a stateless reset nothing may be sent any more (RFC 9000 10.3.1)", e.name, e.endErr, d, what, cc.f.IsApp, cc.f.ErrorCode, cc.f.Reason, cc.kind, cc.t)
				}
			}
		}
	}
	return nil
}

func len0(cr *craftRec) int { return max(cr.Len, 6) }

func (r *result) cidLen(e string) int {
	if e == "s" {
		return r.c.S.CIDLen
	}
	return r.c.C.CIDLen
}

// explainEnd decides whether the way and the time endpoint e's connection ended is justified by what the script
// did and what the network delivered.
func (r *result) explainEnd(f *facts, e *endpoint) *vf.Verdict {
	c := &r.c
	p := r.peer(e)
	T := e.endAt
	neg := time.Duration(c.negIdle()) * ms
	actor := c.By == e.name
	kind := errKind(e.endErr)

	// the earliest event that must end the connection
	type ev struct {
		t    time.Duration
		what string
	}
	var evs []ev
	for _, cc := range f.ccTo[e.name] {
		if cc.kind == "1rtt" {
			evs = append(evs, ev{cc.t, "CONNECTION_CLOSE delivered"})
			break
		}
	}
	if r.forgeRec >= 0 && actor && len(r.log[r.forgeRec].Dlv) > 0 {
		evs = append(evs, ev{r.log[r.forgeRec].Dlv[0], "protocol-violating packet delivered"})
	}
	if (r.closer == e.name || (actor && (c.Cause == "trclose" || c.Cause == "reset"))) && r.causeAt > 0 {
		evs = append(evs, ev{r.tCause, "local " + c.Cause})
	}
	for _, d := range f.resetTo[e.name] {
		if p.conn != nil && p.didEnd && p.endAt <= d.sent {
			evs = append(evs, ev{d.t, "stateless reset delivered"})
			break
		}
	}
	for _, ev := range evs {
		if ev.t < T {
			return r.bad("C17/end/ignored-event", "%s: %s at %v, but the connection only ended at %v (%v)", e.name, ev.what, ev.t, T, e.endErr)
		}
	}
	at := func(t time.Duration) bool { return T == t }

	switch kind {
	case "app-local":
		var ae *quic.ApplicationError
		errors.As(e.endErr, &ae)
		localClose := r.closer == e.name
		if !localClose {
			return r.bad("C17/cause/wrong-error", "%s ended with a local application error although it never called CloseWithError", e.name)
		}
		if uint64(ae.ErrorCode) != c.Code || ae.ErrorMessage != c.Reason {
			return r.bad("C17/cause/wrong-error", "%s called CloseWithError(%#x, %q) but the recorded cause is %v", e.name, c.Code, c.Reason, e.endErr)
		}
		if !at(r.tCause) || r.causeAt != r.tCause {
			return r.bad("C17/unblock/local-close-not-immediate", "%s called CloseWithError at %v; it returned at %v and the connection ended at %v", e.name, r.tCause, r.causeAt, T)
		}
	case "app-remote":
		var ae *quic.ApplicationError
		errors.As(e.endErr, &ae)
		peerClosed := r.closer == p.name
		if !peerClosed {
			return r.bad("C17/cause/wrong-error", "%s ended with a remote application error although the peer never called CloseWithError", e.name)
		}
		if uint64(ae.ErrorCode) != c.Code || ae.ErrorMessage != c.Reason {
			return r.bad("C17/cause/wrong-error", "the peer called CloseWithError(%#x, %q) but %s recorded %v", c.Code, c.Reason, e.name, e.endErr)
		}
		ok := false
		for _, cc := range f.ccTo[e.name] {
			if cc.f.IsApp && at(cc.t) {
				ok = true
			}
		}
		if !ok {
			return r.bad("C17/unblock/remote-close-time", "%s ended at %v with %v, but no CONNECTION_CLOSE was delivered to it at that time (deliveries: %v)", e.name, T, e.endErr, ccTimes(f.ccTo[e.name]))
		}
	case "transport-local":
		var te *quic.TransportError
		errors.As(e.endErr, &te)
		if !(c.Cause == "forge" && actor && r.forgeRec >= 0) {
			return r.bad("C17/cause/unexpected-transport-error", "%s ended with %v; nothing in the scenario violates the protocol", e.name, e.endErr)
		}
		if uint64(te.ErrorCode) != r.forgeCode {
			return r.bad("C17/cause/wrong-transport-code", "%s received a packet with %s and closed with %v; RFC 9000 requires code %#x", e.name, r.forgeName, e.endErr, r.forgeCode)
		}
		if d := r.log[r.forgeRec].Dlv; len(d) == 0 || !at(d[0]) {
			return r.bad("C17/unblock/transport-error-time", "%s: offending packet delivered at %v, connection ended at %v", e.name, r.log[r.forgeRec].Dlv, T)
		}
	case "transport-remote":
		var te *quic.TransportError
		errors.As(e.endErr, &te)
		want := uint64(0)
		switch {
		case c.Cause == "forge" && !actor && r.forgeRec >= 0:
			want = r.forgeCode
		case c.Cause == "alert" && e.name == "c":
			want = 0x178 // CRYPTO_ERROR + no_application_protocol(120)
		case (c.Phase == "edge" || c.Phase == "handshake") && r.closer == p.name:
			want = 0x0c // RFC 9000 10.2.3: an application close before the handshake is confirmed is signalled as APPLICATION_ERROR in Initial/Handshake packets
		default:
			return r.bad("C17/cause/unexpected-transport-error", "%s ended with %v; nothing in the scenario makes the peer send a transport error", e.name, e.endErr)
		}
		if uint64(te.ErrorCode) != want {
			return r.bad("C17/cause/wrong-transport-code", "%s ended with %v, expected transport error code %#x from the peer", e.name, e.endErr, want)
		}
		ok := false
		for _, cc := range f.ccTo[e.name] {
			if !cc.f.IsApp && cc.f.ErrorCode == want && at(cc.t) {
				ok = true
			}
		}
		if !ok {
			return r.bad("C17/unblock/remote-close-time", "%s ended at %v with %v, but no matching CONNECTION_CLOSE was delivered to it at that time (deliveries: %v)", e.name, T, e.endErr, ccTimes(f.ccTo[e.name]))
		}
	case "idle":
		// The period an endpoint applies is min(own, max(5 s, peer's)): wire/transport_parameters.go raises a remote
		// max_idle_timeout below protocol.MinRemoteIdleTimeout (5 s) to 5 s - a documented constant of the
		// implementation, tolerated here (RFC 9000 10.1 would give min(own, peer's) = neg).
		period := time.Duration(r.effMs(e.name)) * ms
		if a := r.advIdle[p.name]; a.seen && (!a.present || a.ms == 0) {
			r.u.Class("idle-own-period-alone(peer advertised none)")
		} else if period != neg {
			r.u.Class("idle-floor-5s-applied")
		}
		if v := r.idleBounds(f, e, T, e.connAt, period, false); v != nil {
			return v
		}
	case "reset":
		ok := false
		if c.Cause == "craft" && actor {
			for _, cr := range r.crafts {
				if cr.rec >= 0 && len(r.log[cr.rec].Dlv) > 0 && at(r.log[cr.rec].Dlv[0]) && (cr.valid || (cr.subMin && r.subMinAccepted)) {
					ok = true
				}
			}
		}
		for _, d := range f.resetTo[e.name] {
			if at(d.t) {
				// whoever sent it must have had no state for the connection any more
				if p.conn != nil && (!p.didEnd || p.endAt > d.sent) {
					return r.bad("C17/reset/sent-with-state", "%s received a stateless reset sent at %v although its peer's connection was still alive then", e.name, d.sent)
				}
				ok = true
			}
		}
		if !ok {
			return r.bad("C17/unblock/reset-time", "%s ended at %v with %v, but no stateless reset was delivered to it at that time", e.name, T, e.endErr)
		}
	case "transport-closed":
		if !(actor && (c.Cause == "trclose" || c.Cause == "reset")) {
			return r.bad("C17/cause/wrong-error", "%s ended with %v although its transport was not closed", e.name, e.endErr)
		}
		if !at(r.tCause) || r.causeAt != r.tCause {
			return r.bad("C17/unblock/transport-close-not-immediate", "%s: Transport.Close called at %v, returned at %v, connection ended at %v", e.name, r.tCause, r.causeAt, T)
		}
	default:
		return r.bad("C17/cause/wrong-error", "%s: connection ended with %v (%T), which is none of the documented causes", e.name, e.endErr, e.endErr)
	}

	// nothing may end a connection before the scripted cause (keep-alives are answered, the network is healthy)
	if c.Phase != "handshake" && c.Phase != "edge" && T < r.tCause && !r.subMinAccepted {
		if kind == "idle" && c.aliveGuaranteed() {
			return r.bad("C17/idle/despite-keepalive", "%s timed out at %v although keep-alives were configured and the network was healthy until %v", e.name, T, r.tCause)
		}
		return r.bad("C17/end/premature", "%s ended at %v (%v) before the cause was triggered at %v", e.name, T, e.endErr, r.tCause)
	}
	return nil
}

func ccTimes(cc []ccInfo) []time.Duration {
	var out []time.Duration
	for _, c := range cc {
		out = append(out, c.t)
	}
	return out
}

// judge is the oracle.
func judge(r *result, u *vf.Unit) *vf.Verdict {
	c := &r.c
	r.u = u
	if r.harness != "" {
		return r.bad("C17/harness/setup", "%s", r.harness)
	}
	if a := r.advIdle["c"]; c.ClientSpec != "" && a.seen && a.present && a.ms > 0 {
		return r.bad("C17/harness/setup", "the spec-driven client was to advertise no max_idle_timeout, the wire shows %d ms", a.ms)
	}
	f := r.facts()
	hs := c.Phase == "handshake"
	hsIdle := time.Duration(c.HSIdleMs) * ms

	// ---- the Dial call
	if !r.dialDone {
		return r.bad("C17/unblock/dial-never-returned", "Dial had not returned %v after the start", r.finalNow)
	}
	if r.dialErr != nil {
		switch k := errKind(r.dialErr); {
		case c.Cause == "cancel" && hs:
			if k != "cancel-cause" {
				return r.bad("C17/cause/dial-cancel-error", "dial context cancelled with a cause at %v, Dial returned %v at %v", r.cancelAt, r.dialErr, r.dialAt)
			}
			if r.dialAt != r.cancelAt {
				return r.bad("C17/unblock/dial-cancel-time", "dial context cancelled at %v, Dial returned at %v", r.cancelAt, r.dialAt)
			}
		case c.Cause == "alert":
			var te *quic.TransportError
			if !errors.As(r.dialErr, &te) || !te.Remote || uint64(te.ErrorCode) != 0x178 {
				return r.bad("C17/cause/wrong-error", "ALPN mismatch: Dial returned %v, expected the server's CRYPTO_ERROR 0x178", r.dialErr)
			}
			ok := false
			for _, cc := range f.ccTo["c"] {
				if !cc.f.IsApp && cc.f.ErrorCode == 0x178 && cc.t == r.dialAt {
					ok = true
				}
			}
			if !ok {
				return r.bad("C17/unblock/remote-close-time", "Dial returned at %v, CONNECTION_CLOSE deliveries to the client: %v", r.dialAt, ccTimes(f.ccTo["c"]))
			}
		case c.Cause == "hstimeout" && k == "idle" && r.trickled > 2 && r.dialAt < r.dialStart+2*hsIdle:
			return r.bad("C17/idle/early", "Dial gave up with %v at %v although the client received a valid packet every %v (HandshakeIdleTimeout %v)", r.dialErr, r.dialAt, hsIdle/2, hsIdle)
		case c.Cause == "hstimeout" && k == "idle":
			if v := r.idleBounds(f, r.C, r.dialAt, r.dialStart, hsIdle, true); v != nil {
				return v
			}
		case c.Cause == "hstimeout" && k == "hs-timeout":
			want := r.dialStart + 2*hsIdle
			if r.dialAt < want || r.dialAt > want+timeoutSlack {
				return r.bad("C17/idle/handshake-timeout-time", "Dial started at %v with HandshakeIdleTimeout %v returned %v at %v, expected at %v", r.dialStart, hsIdle, r.dialErr, r.dialAt, want)
			}
		default:
			return r.bad("C17/cause/dial-error", "Dial failed with %v at %v, which the scenario does not explain", r.dialErr, r.dialAt)
		}
	} else if c.Cause == "alert" {
		return r.bad("C17/cause/dial-error", "Dial succeeded although client and server share no application protocol")
	}
	for _, n := range r.notes {
		if strings.HasPrefix(n, "poke:") {
			return r.bad("C17/harness/setup", "%s", n)
		}
	}
	if r.cancelDone && r.dialErr == nil {
		// the dial context was cancelled after Dial had returned: the connection must not notice
		for _, e := range []*endpoint{r.C, r.S} {
			if e.conn != nil && e.didEnd && e.endAt == r.cancelAt && (r.closer == "" || r.tCause > r.cancelAt) {
				return r.bad("C17/cancel/late-cancel-kills-connection", "the dial context was cancelled at %v, after Dial had returned; %s's connection ended in that instant with %v", r.cancelAt, e.name, e.endErr)
			}
		}
	}

	// ---- each surfaced connection
	if v := r.craftVerdict(f); v != nil {
		return v
	}
	for _, e := range []*endpoint{r.C, r.S} {
		if e.conn == nil {
			continue
		}
		if !e.didEnd || e.neverEnded {
			return r.bad("C17/end/never-ended", "%s: the connection was still alive at %v, long after every idle deadline", e.name, r.finalNow)
		}
		if v := r.explainEnd(f, e); v != nil {
			return v
		}
		cause := e.endErr
		for _, cl := range e.calls {
			if strings.HasPrefix(cl.Name, "ln.") || cl.Name == "Dial" {
				continue
			}
			if !cl.Returned || has(r.stuck, e.name+":"+cl.Name) {
				return r.bad("C17/unblock/call-never-returned", "%s: %s was still blocked %v after the connection had ended", e.name, cl.Name, r.finalNow-e.endAt)
			}
			if cl.Later {
				if cl.End != cl.Start {
					return r.bad("C17/later-call/blocks", "%s: %s on the ended connection took %v", e.name, cl.Name, cl.End-cl.Start)
				}
				if cl.Name == "later:SendDatagram" && cl.Err == nil {
					// found with this check (repaired in /repo 8510b45): datagramQueue.Add never looked at the closed flag
					return r.bad("C17/later-call/send-datagram-succeeds", "%s: SendDatagram on a connection that ended at %v with %v returned nil", e.name, e.endAt, cause)
				}
				if !sameCause(cl.Err, cause) {
					return r.bad("C17/later-call/wrong-error", "%s: %s on the ended connection returned %v; the recorded cause is %v", e.name, cl.Name, cl.Err, cause)
				}
				continue
			}
			if cl.End < e.endAt {
				return r.bad("C17/harness/call-returned-early", "%s: %s returned at %v (%v) before the connection ended at %v", e.name, cl.Name, cl.End, cl.Err, e.endAt)
			}
			if cl.End != e.endAt {
				return r.bad("C17/unblock/late", "%s: %s returned at %v, %v after the connection ended (%v)", e.name, cl.Name, cl.End, cl.End-e.endAt, cause)
			}
			if !sameCause(cl.Err, cause) {
				return r.bad("C17/unblock/wrong-error", "%s: %s returned %v; the recorded cause (context.Cause) is %v", e.name, cl.Name, cl.Err, cause)
			}
		}
	}

	// ---- Listener.Accept: only the transport's end may unblock it
	if la := r.lnAccept; la != nil && la.Returned {
		trEnd := c.By == "s" && (c.Cause == "trclose" || c.Cause == "reset")
		switch {
		case trEnd:
			if !errors.Is(la.Err, quic.ErrTransportClosed) || la.End != r.causeAt {
				return r.bad("C17/unblock/listener-accept", "server transport closed at %v; the blocked Listener.Accept returned %v at %v", r.causeAt, la.Err, la.End)
			}
		case !errors.Is(la.Err, quic.ErrServerClosed) && !errors.Is(la.Err, errCtxDone):
			if la.Err == nil || !strings.Contains(la.Err.Error(), "context canceled") {
				return r.bad("C17/unblock/listener-accept", "the blocked Listener.Accept returned %v at %v although only a connection ended", la.Err, la.End)
			}
		}
	}

	// ---- what the peer was told
	type exp struct {
		app  bool
		code uint64
		due  bool
	}
	for _, e := range []*endpoint{r.C, r.S} {
		var x exp
		switch {
		case e.conn == nil && e.name == "s" && c.Cause == "alert":
			x = exp{false, 0x178, true}
		case e.conn == nil:
			// a connection that never surfaced (half-open on the server, or a failed Dial): silent unless the alert case
		default:
			switch errKind(e.endErr) {
			case "app-local":
				x = exp{true, c.Code, true}
			case "transport-local":
				x = exp{false, r.forgeCode, true}
			}
		}
		var sent []ccInfo
		for _, cc := range f.ccFrom[e.name] {
			if cc.t <= r.teardownAt() {
				sent = append(sent, cc)
			}
		}
		if !x.due {
			if len(sent) > 0 {
				if e.conn == nil && e.name == "s" && r.C.conn != nil {
					continue // the server's half-open connection may legitimately answer a client that closed
				}
				return r.bad("C17/wire/close-on-silent-end", "%s sent CONNECTION_CLOSE (%#x app=%v at %v) although its connection ended silently (%v)", e.name, sent[0].f.ErrorCode, sent[0].f.IsApp, sent[0].t, e.endErr)
			}
			continue
		}
		if len(sent) == 0 {
			return r.bad("C17/wire/no-connection-close", "%s ended with %v but never put a CONNECTION_CLOSE on the wire", e.name, e.endErr)
		}
		full := false
		for _, cc := range sent {
			switch {
			case x.app && cc.f.IsApp:
				if cc.f.ErrorCode != x.code || string(cc.f.Reason) != c.Reason {
					return r.bad("C17/wire/wrong-close-frame", "%s closed with (%#x, %q); CONNECTION_CLOSE on the wire says (%#x, %q)", e.name, x.code, c.Reason, cc.f.ErrorCode, cc.f.Reason)
				}
				full = true
			case x.app && cc.kind != "1rtt" && cc.f.ErrorCode == 0x0c:
				// RFC 9000 10.2.3: application close in Initial/Handshake packets
			case !x.app && !cc.f.IsApp && cc.f.ErrorCode == x.code:
				full = true
			default:
				return r.bad("C17/wire/wrong-close-frame", "%s ended with %v; CONNECTION_CLOSE on the wire (in a %s packet): type app=%v code %#x reason %q", e.name, e.endErr, cc.kind, cc.f.IsApp, cc.f.ErrorCode, cc.f.Reason)
			}
		}
		if !full {
			return r.bad("C17/wire/wrong-close-frame", "%s: no CONNECTION_CLOSE carrying the real error was sent", e.name)
		}
	}

	// ---- a locally closed connection re-sends its CONNECTION_CLOSE, with back-off
	if e := r.ep(c.By); (c.Cause == "close" || c.Cause == "forge") && e.conn != nil && e.didEnd && strings.HasSuffix(errKind(e.endErr), "-local") {
		t0 := e.endAt
		nLo, nHi := 0, 0
		for _, d := range f.anyTo[e.name] {
			if r.forgeRec >= 0 && d.rec == r.log[r.forgeRec] {
				continue
			}
			if d.t >= t0 && d.t < r.teardownAt() {
				nHi++ // a datagram delivered in the very instant of the close may have arrived before or after it
				if d.t > t0 && d.t <= t0+3*r.rtt && !d.rec.Mutated {
					nLo++ // (a truncated datagram may not even be attributable to the connection)
				}
			}
		}
		var first []byte
		resent := -1 // the first CONNECTION_CLOSE datagram is the original
		seen := map[*sim.Record]bool{}
		for _, cc := range f.ccFrom[e.name] {
			if seen[cc.rec] || cc.t > r.teardownAt() || cc.t < t0 {
				continue
			}
			seen[cc.rec] = true
			resent++
			if first == nil {
				first = r.tap.ccData[cc.rec.Seq]
			} else if !bytes.Equal(first, r.tap.ccData[cc.rec.Seq]) {
				return r.bad("C17/closed/retransmit-differs", "%s re-sent a CONNECTION_CLOSE datagram at %v that differs from the original one", e.name, cc.t)
			}
		}
		if resent < 0 {
			resent = 0
		}
		if resent < bits.Len(uint(nLo)) || resent > bits.Len(uint(nHi)) {
			return r.bad("C17/closed/retransmit-count", "%s closed at %v; afterwards %d datagrams reached it within 3 RTT (%d in total) and it re-sent its CONNECTION_CLOSE %d times; expected one for the 1st, 2nd, 4th, 8th ... datagram, i.e. between %d and %d", e.name, t0, nLo, nHi, resent, bits.Len(uint(nLo)), bits.Len(uint(nHi)))
		}
		if nLo >= 3 {
			u.Class("retransmit-backoff-checked")
		}
	}

	// ---- resources
	if len(r.routing) > 0 {
		return r.bad("C17/resources/routing-entries-left", "at %v, after the closing period, with the listener still open: %s", r.routingAt, strings.Join(r.routing, "; "))
	}
	return nil
}

var errCtxDone = errors.New("unused")

func (r *result) teardownAt() time.Duration { return r.routingAt }
