// C17: every way a connection ends unblocks callers, informs the peer, frees resources.
//
// One rapid unit ("end-matrix") over cause x blocked calls x phase x loss on the closing exchange x idle /
// keep-alive settings, run as complete connections over sim's network inside a synctest bubble.
package c17

import (
	"fmt"
	"sort"
	"strings"

	"pgregory.net/rapid"
)

// Side is the per-endpoint part of a case.
type Side struct {
	IdleMs    int      `json:"idle_ms"`             // Config.MaxIdleTimeout
	KeepAlive string   `json:"keepalive"`           // "off" | "short" (< idle/2) | "long" (> idle)
	Blocked   []string `json:"blocked,omitempty"`   // calls blocked when the cause occurs: read write accept acceptuni open openuni dgram
	WriteUni  bool     `json:"write_uni,omitempty"` // the blocked Write uses a unidirectional stream
	Mult      int      `json:"mult,omitempty"`      // >1: that many goroutines block in each of accept / acceptuni / open / openuni / dgram
	CIDLen    int      `json:"cid_len"`             // Transport.ConnectionIDLength
	ResetKey  bool     `json:"reset_key,omitempty"` // Transport.StatelessResetKey set (always true for the server)
}

// Case is one generated scenario.
type Case struct {
	Cause    string `json:"cause"`   // close | idle | hstimeout | reset | forge | alert | trclose | cancel | craft
	By       string `json:"by"`      // "c" | "s": the endpoint that closes / whose transport is closed / that receives the forged packet
	Phase    string `json:"phase"`   // handshake | edge | armed | transfer
	Variant  int    `json:"variant"` // cause specific (see runCase)
	AtMs     int    `json:"at_ms"`   // delay of the cause after the calls were armed (post-handshake phases) or after the start (handshake phase)
	RTTms    int    `json:"rtt_ms"`
	HSIdleMs int    `json:"hs_idle_ms"` // Config.HandshakeIdleTimeout (both sides)
	Code     uint64 `json:"code"`
	Reason   string `json:"reason"`
	C        Side   `json:"c"`
	S        Side   `json:"s"`
	DropCC   int    `json:"drop_cc,omitempty"`  // number of datagrams carrying CONNECTION_CLOSE (from the closing side) that the network drops
	Replay   int    `json:"replay,omitempty"`   // number of old datagrams replayed to the closing side right after it closed
	XferDir  string `json:"xfer_dir,omitempty"` // transfer phase: "c" or "s" writes the bulk stream
	XferUni  bool   `json:"xfer_uni,omitempty"`
	// ClientSpec makes the client a spec-driven one (quic.UTransport, Chrome 115 ClientHello) whose transport parameter
	// list mirrors its Config but leaves out max_idle_timeout ("noidle") or carries the value 0 ("idle0"): a legal
	// peer that has its idle timeout disabled (RFC 9000 10.1 / 18.2). The server then applies its own period alone.
	ClientSpec string `json:"client_spec,omitempty"`
	// cause "craft": stateless resets crafted by the harness (a peer that lost its state, or an attacker who knows /
	// guesses tokens) and injected towards endpoint By. Pre are datagrams that must be IGNORED (wrong / unused / retired
	// token, or shorter than 21 bytes); each is followed by a pause. Then the case ends either with Final - a VALID
	// reset (>= 21 bytes, token of the connection ID the victim currently sends to) - or, FinalClose, with a local
	// CloseWithError of the victim (the ignored datagrams must have changed nothing).
	ClientKind string  `json:"client_kind,omitempty"` // craft only: "" (Transport, ConnectionIDLength c.cid_len) | dial (quic.Dial: zero-length) | zerogen (Transport with a zero-length ConnectionIDGenerator) | chrome (UTransport, Chrome 115 spec, SrcConnIDLength 0) | firefox (UTransport, Firefox 116 spec, 3 bytes)
	Pre        []Craft `json:"pre,omitempty"`
	Final      Craft   `json:"final"`
	FinalClose bool    `json:"final_close,omitempty"`
	TruncDir   string  `json:"trunc_dir,omitempty"` // truncate one short-header datagram of this direction ...
	TruncNth   int     `json:"trunc_nth,omitempty"` // ... the n-th ...
	TruncLen   int     `json:"trunc_len,omitempty"` // ... to this many bytes (DESIGN section 7 suspect 9)
}

// Craft describes one crafted reset-shaped datagram: first byte 0b01xxxxxx, unpredictable filler, 16-byte token.
type Craft struct {
	Len   int    `json:"len"`             // total datagram length
	Tok   string `json:"tok"`             // valid | random | flip | unused | retired (the last two fall back to flip when the wire showed no such connection ID); valid with len < 17: only the tail of the token fits ("partial")
	Bit   int    `json:"bit,omitempty"`   // flip: which of the 128 token bits is inverted
	Known bool   `json:"known,omitempty"` // bytes 1..n carry a connection ID of the victim (the datagram is routed to the connection), else unpredictable bytes
	Seed  uint64 `json:"seed"`            // filler
	GapMs int    `json:"gap_ms,omitempty"`
}

// resetLens: RFC 9000 10.3 minimum (21 = protocol.MinReceivedStatelessResetSize) and its neighbours, sizes below what
// this implementation sends (42 = protocol.MinStatelessResetSize), that size and its neighbours, and large ones.
var resetLens = []int{21, 21, 22, 30, 38, 41, 41, 42, 43, 100, 1200}

func genCraft(t *rapid.T, label string, final bool) Craft {
	cr := Craft{}
	cr.Seed = rapid.Uint64().Draw(t, label+"seed")
	cr.Known = rapid.IntRange(0, 3).Draw(t, label+"known") == 0
	if final {
		cr.Tok = "valid"
		cr.Len = rapid.SampledFrom(resetLens).Draw(t, label+"len")
		return cr
	}
	cr.GapMs = rapid.SampledFrom([]int{1, 1, 3, 20}).Draw(t, label+"gap")
	cr.Tok = rapid.SampledFrom([]string{"valid", "valid", "random", "flip", "flip", "unused", "retired"}).Draw(t, label+"tok")
	if cr.Tok == "valid" {
		// below the RFC 9000 10.3 minimum of 21 bytes. 17..20 bytes still hold a whole token (outcome observed, not
		// judged); 6..16 bytes hold only its tail and can never be a reset
		cr.Len = rapid.OneOf(rapid.IntRange(17, 20), rapid.IntRange(17, 20), rapid.IntRange(6, 16)).Draw(t, label+"shortlen")
		return cr
	}
	cr.Len = rapid.SampledFrom(append([]int{17, 20}, resetLens...)).Draw(t, label+"len")
	cr.Bit = rapid.OneOf(rapid.IntRange(0, 127), rapid.SampledFrom([]int{0, 7, 8, 63, 64, 119, 120, 127})).Draw(t, label+"bit") // (first / last byte: a comparison that stops short)
	return cr
}

var allCalls = []string{"read", "write", "accept", "acceptuni", "open", "openuni", "dgram", "senddgram"}

func has(list []string, x string) bool {
	for _, y := range list {
		if x == y {
			return true
		}
	}
	return false
}

func genSide(t *rapid.T, label string, server bool) Side {
	s := Side{}
	s.IdleMs = rapid.OneOf(rapid.IntRange(1000, 3000), rapid.IntRange(1000, 30000)).Draw(t, label+"idle")
	s.KeepAlive = rapid.SampledFrom([]string{"off", "off", "short", "long"}).Draw(t, label+"ka")
	set := map[string]bool{}
	n := rapid.IntRange(0, len(allCalls)).Draw(t, label+"ncalls")
	for i := 0; i < n; i++ {
		set[rapid.SampledFrom(allCalls).Draw(t, label+"call")] = true
	}
	for _, c := range allCalls {
		if set[c] {
			s.Blocked = append(s.Blocked, c)
		}
	}
	s.WriteUni = rapid.Bool().Draw(t, label+"wuni")
	s.Mult = rapid.SampledFrom([]int{1, 1, 1, 2, 3}).Draw(t, label+"mult")
	s.CIDLen = rapid.SampledFrom([]int{4, 4, 8, 12, 20}).Draw(t, label+"cid")
	s.ResetKey = server || rapid.Bool().Draw(t, label+"rk")
	return s
}

func genCase(t *rapid.T) Case {
	c := Case{}
	c.Cause = rapid.SampledFrom([]string{"close", "close", "close", "close", "idle", "idle", "hstimeout", "reset", "forge", "forge", "alert", "trclose", "trclose", "cancel", "craft", "craft"}).Draw(t, "cause")
	c.By = rapid.SampledFrom([]string{"c", "s"}).Draw(t, "by")
	c.RTTms = rapid.SampledFrom([]int{2, 10, 10, 40, 100}).Draw(t, "rtt")
	c.HSIdleMs = rapid.SampledFrom([]int{500, 1000, 2000, 5000}).Draw(t, "hsidle")
	c.Code = rapid.OneOf(rapid.Uint64Range(0, 300), rapid.Uint64Range(0, 1<<62-1)).Draw(t, "code")
	c.Reason = rapid.SampledFrom([]string{"", "bye", "going away: maintenance window", strings.Repeat("r", 200)}).Draw(t, "reason")
	c.C = genSide(t, "c.", false)
	c.S = genSide(t, "s.", true)
	c.Variant = rapid.IntRange(0, 7).Draw(t, "variant")
	c.Phase = rapid.SampledFrom([]string{"armed", "armed", "transfer", "edge"}).Draw(t, "phase")
	switch c.Cause {
	case "hstimeout", "alert":
		c.Phase = "handshake"
	case "cancel":
		c.By = "c"
		if c.Variant%2 == 0 {
			c.Phase = "handshake" // cancelled before the handshake completes
		}
	case "reset":
		c.By = "s" // the server loses its state
		if c.Phase == "edge" {
			c.Phase = "armed"
		}
	case "idle", "forge", "craft":
		if c.Phase == "edge" {
			c.Phase = "armed"
		}
	}
	if c.Cause == "craft" {
		c.ClientKind = rapid.SampledFrom([]string{"", "", "dial", "zerogen", "chrome", "firefox"}).Draw(t, "clientkind")
		if c.ClientKind != "" && c.By == "s" && rapid.Bool().Draw(t, "tozero") {
			c.By = "c" // (a server whose peer has zero-length connection IDs was given no token at all: mostly aim at the client)
		}
		for i, n := 0, rapid.SampledFrom([]int{0, 0, 1, 1, 2, 3}).Draw(t, "npre"); i < n; i++ {
			c.Pre = append(c.Pre, genCraft(t, fmt.Sprintf("pre%d.", i), false))
		}
		c.Final = genCraft(t, "final.", true)
		c.FinalClose = rapid.IntRange(0, 5).Draw(t, "finalclose") == 0
	}
	if c.Phase == "handshake" {
		c.C.Blocked, c.S.Blocked = nil, nil
		c.AtMs = rapid.IntRange(0, 3*c.RTTms).Draw(t, "at_hs")
	} else {
		c.AtMs = rapid.OneOf(rapid.IntRange(0, 5), rapid.IntRange(0, 400), rapid.IntRange(0, 40000)).Draw(t, "at")
	}
	if c.Phase == "transfer" {
		c.XferDir = rapid.SampledFrom([]string{"c", "s"}).Draw(t, "xferdir")
		c.XferUni = rapid.Bool().Draw(t, "xferuni")
	}
	if c.Cause == "close" || c.Cause == "forge" {
		c.DropCC = rapid.SampledFrom([]int{0, 0, 0, 1, 1, 2, 6}).Draw(t, "dropcc")
		c.Replay = rapid.SampledFrom([]int{0, 0, 3, 5, 9, 16}).Draw(t, "replay")
	}
	switch c.Cause {
	case "idle", "close", "trclose":
		// (more often when idleness itself is under test)
		if k := rapid.IntRange(0, 9).Draw(t, "clientspec"); k < 2 || (c.Cause == "idle" && k < 4) {
			c.ClientSpec = []string{"noidle", "idle0"}[k%2]
		}
	}
	if c.Phase != "handshake" && rapid.IntRange(0, 3).Draw(t, "trunc") == 0 {
		c.TruncDir = rapid.SampledFrom([]string{"c2s", "s2c"}).Draw(t, "truncdir")
		c.TruncNth = rapid.IntRange(0, 6).Draw(t, "truncnth")
		c.TruncLen = rapid.IntRange(3, 10).Draw(t, "trunclen")
	}
	normalize(&c)
	return c
}

// negotiated idle timeout in ms
func (c *Case) negIdle() int {
	if c.C.IdleMs < c.S.IdleMs {
		return c.C.IdleMs
	}
	return c.S.IdleMs
}

// effIdle is the idle period endpoint e ("c"/"s") really applies: the in-tree implementation raises a peer's
// advertised max_idle_timeout below 5 s to 5 s (protocol.MinRemoteIdleTimeout) before taking the minimum.
func (c *Case) effIdle(e string) int {
	own, peer := c.C.IdleMs, c.S.IdleMs
	if e == "s" {
		own, peer = peer, own
		if c.ClientSpec != "" {
			return own // the client advertises no idle timeout: nothing to take the minimum with
		}
	}
	if peer < 5000 {
		peer = 5000
	}
	if own < peer {
		return own
	}
	return peer
}

// armMs is the time (since the start) at which the blocking calls are made.
func (c *Case) armMs() int {
	t := 8*c.RTTms + 30
	if c.TruncLen > 0 {
		t += 2 * (3*c.RTTms + 60)
	}
	return t
}

func (c *Case) keepAliveOn() bool { return c.C.KeepAlive != "off" || c.S.KeepAlive != "off" }

// kaInterval is the interval at which endpoint e sends keep-alives (0 = never): connection.go applyTransportParameters
// uses min(KeepAlivePeriod, idle/2) with e's effective idle period.
func (c *Case) kaInterval(e string) int {
	s := c.C
	if e == "s" {
		s = c.S
	}
	neg := c.negIdle()
	var p int
	switch s.KeepAlive {
	case "short":
		p = neg / 3
	case "long":
		p = neg * 3 / 2
	default:
		return 0
	}
	if h := c.effIdle(e) / 2; h < p {
		p = h
	}
	return p
}

// aliveGuaranteed reports whether the configured keep-alives keep BOTH endpoints from timing out on a healthy
// network. Because a remote idle timeout below 5 s is raised to 5 s, an endpoint's keep-alive interval can exceed
// the idle period its peer applies; such a configuration is treated like "no keep-alive".
func (c *Case) aliveGuaranteed() bool {
	for _, e := range []string{"c", "s"} {
		p := "s"
		if e == "s" {
			p = "c"
		}
		if c.kaInterval(e) > 0 {
			continue
		}
		if k := c.kaInterval(p); k > 0 && k+3*c.RTTms+60 < c.effIdle(e) {
			continue
		}
		return false
	}
	return true
}

// normalize makes the generated case self-consistent (also applied to replayed cases, where it is a no-op).
func normalize(c *Case) {
	if c.Cause != "craft" {
		c.ClientKind, c.Pre, c.Final, c.FinalClose = "", nil, Craft{}, false
	}
	switch c.ClientKind {
	case "dial", "zerogen", "chrome":
		c.C.CIDLen = 0
	case "firefox":
		c.C.CIDLen = 3
	}
	if c.ClientKind == "chrome" || c.ClientKind == "firefox" {
		c.TruncLen = 0 // see ClientSpec below
	}
	if c.Phase == "handshake" || c.Phase == "edge" || !(c.Cause == "idle" || c.Cause == "close" || c.Cause == "trclose") {
		c.ClientSpec = ""
	}
	if c.ClientSpec != "" {
		// Chrome's ClientHello fits one datagram and the server answers with one coalesced datagram: truncating that
		// one costs a 200 ms initial PTO, which the arming schedule does not allow for
		c.TruncLen = 0
	}
	if c.Phase == "handshake" {
		return
	}
	neg := c.negIdle()
	if c.Phase == "edge" {
		c.AtMs, c.TruncLen = 0, 0
		for _, s := range []*Side{&c.C, &c.S} {
			var keep []string
			for _, b := range s.Blocked {
				if b != "write" && b != "open" && b != "openuni" {
					keep = append(keep, b)
				}
			}
			s.Blocked = keep
		}
	}
	if !(c.Cause == "idle" && c.Variant%2 == 0) {
		// SendDatagram only blocks (send queue full) when nothing gets through any more: blackout cases only
		for _, s := range []*Side{&c.C, &c.S} {
			var keep []string
			for _, b := range s.Blocked {
				if b != "senddgram" {
					keep = append(keep, b)
				}
			}
			s.Blocked = keep
		}
	}
	preMs := 0
	for _, cr := range c.Pre {
		preMs += cr.GapMs
	}
	quietLimit := func() int { return c.RTTms + neg/2 - c.armMs() - 2 - preMs }
	if c.Cause == "idle" && c.Variant%2 == 1 {
		// natural idle timeout: nothing is sent any more, no keep-alives
		c.C.KeepAlive, c.S.KeepAlive = "off", "off"
		c.AtMs = 0
		if c.Phase == "transfer" {
			c.Phase, c.XferDir = "armed", ""
		}
		if quietLimit() < 0 {
			c.TruncLen = 0
		}
		if quietLimit() < 0 {
			c.Variant-- // the calls cannot be armed before the natural deadline: black the network out instead
		}
	}
	// Without (effective) keep-alives the connection goes quiet once the handshake and the preparations are over.
	// Unless idleness is the cause under test, the cause must strike well before the natural idle deadline.
	if !c.aliveGuaranteed() {
		if limit := quietLimit(); limit < 0 {
			c.C.KeepAlive, c.S.KeepAlive = "short", "short"
		} else if c.AtMs > limit {
			c.AtMs = limit
		}
	}
	if c.aliveGuaranteed() && c.AtMs > 10*neg {
		c.AtMs = 10 * neg // "never over 10 idle periods while keep-alives are answered"
	}
	if c.Phase == "transfer" && c.AtMs > 300 {
		c.AtMs = 300 // a bulk transfer costs real time
	}
}

func (c *Case) classKey() string {
	b := func(s Side) string {
		x := append([]string(nil), s.Blocked...)
		sort.Strings(x)
		return strings.Join(x, "+")
	}
	return fmt.Sprintf("%s/%s/%s/c[%s]/s[%s]", c.Cause, c.By, c.Phase, b(c.C), b(c.S))
}
