package c17

import (
	"context"
	"encoding/hex"
	"fmt"
	"strings"
	"sync"
	"time"

	quic "github.com/refraction-networking/uquic"
	"github.com/refraction-networking/uquic/verif/refcrypto"
	"github.com/refraction-networking/uquic/verif/refwire"
	"github.com/refraction-networking/uquic/verif/sim"
)

// doCause triggers the end of the connection.
func (r *result) doCause(ctx context.Context, wg *sync.WaitGroup) {
	defer close(r.causeDone)
	c := &r.c
	w := r.w
	e := r.ep(c.By)
	if c.Phase == "edge" {
		// the calls were made an instant ago; the one that hands out the connection is the caller itself
		for _, x := range []*endpoint{r.C, r.S} {
			x.pendingAtCause = nil
			for _, n := range x.pending() {
				if n != "Dial" && n != "ln.Accept#1" {
					x.pendingAtCause = append(x.pendingAtCause, n)
				}
			}
		}
	}
	switch c.Cause {
	case "close", "cancel":
		// (a cancelled dial context after the handshake must have no effect; the case then ends by a local close)
		r.tCause = w.Router.Now()
		r.closer = e.name
		e.conn.CloseWithError(quic.ApplicationErrorCode(c.Code), c.Reason)
		r.causeAt = w.Router.Now()
	case "trclose":
		r.tCause = w.Router.Now()
		e.tr.Close()
		r.causeAt = w.Router.Now()
	case "reset":
		// the server loses all state: transport A goes away abruptly (Transport.Close sends nothing), a fresh
		// transport B with the same reset key takes over the socket
		r.tCause = w.Router.Now()
		r.S.tr.Close()
		r.causeAt = w.Router.Now()
		key := *r.S.tr.StatelessResetKey
		r.trB = &quic.Transport{Conn: w.ServerConn, ConnectionIDLength: c.S.CIDLen, StatelessResetKey: &key}
		ln, err := r.trB.Listen(r.serverTLS(), r.config("s"))
		if err != nil {
			r.harness = "listen on the replacement transport: " + err.Error()
			return
		}
		r.lnB = ln
	case "craft":
		r.doCraft()
	case "forge":
		data, code, name, skip := r.forge(c.By, c.Variant)
		if skip != "" {
			r.forgeSkipped = skip
			// fall back to a local close so that the case still ends
			r.tCause = w.Router.Now()
			r.closer = e.name
			e.conn.CloseWithError(quic.ApplicationErrorCode(c.Code), c.Reason)
			r.causeAt = w.Router.Now()
			return
		}
		r.forgeCode, r.forgeName = code, name
		from, to := sim.ClientAddr, sim.ServerAddr
		if c.By == "c" {
			from, to = sim.ServerAddr, sim.ClientAddr
		}
		r.forgeRec = -2 // resolved from the log snapshot (record with the note "forged:...")
		w.Router.Inject(simDir(dirTo(c.By)), from, to, data, "forged:"+name)
	case "idle":
		// nothing to do: the network is blacked out from tCause on, or the connection is simply left alone.
		// A sender of datagrams fills the send queue (32 entries) and then blocks in SendDatagram.
		for _, x := range []*endpoint{r.C, r.S} {
			if has(x.side.Blocked, "senddgram") {
				conn := x.conn
				r.call(wg, x, "senddgram", func() (int, error) {
					for i := 0; i < 100000; i++ {
						if err := conn.SendDatagram(make([]byte, 100)); err != nil {
							return i, err
						}
					}
					return 0, nil
				})
			}
		}
	}
}

// replay re-sends an old datagram of the peer n times to the endpoint that just closed (an on-path attacker or a
// retransmitting peer): the closed connection must answer with its CONNECTION_CLOSE, but with back-off.
func (r *result) replay(n int) {
	w := r.w
	to := r.c.By
	// wait until that endpoint has closed (a forged packet needs half an RTT to get there)
	if !sim.WaitCtx(r.ep(to).ended, 2*r.rtt+time.Millisecond) {
		return
	}
	time.Sleep(20 * time.Microsecond)
	r.tap.mu.Lock()
	old := r.tap.lastData[dirTo(to)]
	r.tap.mu.Unlock()
	if old == nil {
		return
	}
	from, dst := sim.ClientAddr, sim.ServerAddr
	if to == "c" {
		from, dst = sim.ServerAddr, sim.ClientAddr
	}
	r.replayFrom = w.Router.Now()
	for i := 0; i < n; i++ {
		w.Router.Inject(simDir(dirTo(to)), from, dst, old, "replay")
		time.Sleep(50 * time.Microsecond)
	}
	r.replayed = n
	r.replayTo = w.Router.Now()
}

func (r *result) checkRouting(trs ...*quic.Transport) {
	r.routingAt = r.w.Router.Now()
	names := []string{"client transport", "server transport", "replacement server transport"}
	for i, tr := range trs {
		if tr == nil {
			continue
		}
		ids, toks := tr.VerifRouting()
		for _, id := range ids {
			r.routing = append(r.routing, fmt.Sprintf("%s: connection ID %s", names[i], id))
		}
		for _, tok := range toks {
			r.routing = append(r.routing, fmt.Sprintf("%s: reset token %x", names[i], tok[:]))
		}
	}
}

// ---- forged packets from a misbehaving peer (the attacker knows the 1-RTT keys: this models the genuine peer
// violating the protocol, which the public API of the in-tree peer cannot be made to do)

var forgeNames = []string{"unknown-frame", "handshake-done-or-ack-unsent", "max-streams-too-large", "stream-limit", "stream-state", "flow-control", "ack-unsent", "max-stream-data-recv-only"}

func varint8(v uint64) []byte {
	return []byte{0xc0 | byte(v>>56), byte(v >> 48), byte(v >> 40), byte(v >> 32), byte(v >> 24), byte(v >> 16), byte(v >> 8), byte(v)}
}

// forgeFrames returns the payload and the transport error code RFC 9000 prescribes for it.
func forgeFrames(victim string, variant int) (payload []byte, code uint64, name string) {
	peerBit, victimBit := uint64(0), uint64(1) // stream ID bit 0: 0 = client-initiated, 1 = server-initiated
	if victim == "c" {
		peerBit, victimBit = 1, 0
	}
	v := variant % len(forgeNames)
	if v == 1 && victim == "c" {
		v = 6 // HANDSHAKE_DONE is legal towards a client
	}
	name = forgeNames[v]
	switch v {
	case 0: // RFC 9000 12.4: a frame of unknown type is a FRAME_ENCODING_ERROR
		return []byte{0x21, 0, 0, 0, 0, 0, 0, 0}, 0x07, name
	case 1: // RFC 9000 19.20: a server that receives HANDSHAKE_DONE MUST treat it as PROTOCOL_VIOLATION
		name = "handshake-done"
		return []byte{0x1e, 0, 0, 0, 0, 0, 0, 0}, 0x0a, name
	case 2: // RFC 9000 19.11: MAX_STREAMS above 2^60 is a FRAME_ENCODING_ERROR
		return append([]byte{0x12}, varint8(1<<60+1)...), 0x07, name
	case 3: // RFC 9000 4.6 / 19.8: STREAM on a peer-initiated stream beyond the advertised limit: STREAM_LIMIT_ERROR
		id := 4*uint64(5000) + peerBit
		return append(append([]byte{0x0a}, varint8(id)...), 0x01, 'x'), 0x04, name
	case 4: // RFC 9000 19.8: STREAM for a locally-initiated stream that has not yet been created: STREAM_STATE_ERROR
		id := 4*uint64(5000) + victimBit
		return append(append([]byte{0x0a}, varint8(id)...), 0x01, 'x'), 0x05, name
	case 5: // RFC 9000 4.1: data beyond the advertised stream limit: FLOW_CONTROL_ERROR
		id := peerBit // first peer-initiated bidirectional stream: always within the stream limit (>= 1)
		p := append([]byte{0x0e}, varint8(id)...)
		p = append(p, varint8(1<<40)...)
		return append(p, 0x01, 'x'), 0x03, name
	case 6: // RFC 9000 13.1: acknowledging a packet that was never sent: PROTOCOL_VIOLATION
		p := append([]byte{0x02}, varint8(1<<30)...)
		return append(p, 0x00, 0x00, 0x00, 0, 0, 0, 0), 0x0a, name
	default: // RFC 9000 19.10: MAX_STREAM_DATA for a receive-only stream: STREAM_STATE_ERROR
		id := 2 + peerBit // first peer-initiated unidirectional stream
		p := append([]byte{0x11}, varint8(id)...)
		return append(p, varint8(1<<20)...), 0x05, name
	}
}

// trickle black-holes nothing itself (the network already is): it plays an attacker who feeds the client valid
// Initial packets (Initial keys are public) containing PING, so that the client keeps receiving packets while the
// handshake makes no progress. The client must then give up with HandshakeTimeoutError after 2*HandshakeIdleTimeout.
func (r *result) trickle(every time.Duration) {
	w := r.w
	time.Sleep(r.rtt/2 + time.Millisecond)
	r.tap.mu.Lock()
	first := r.tap.firstInitial
	r.tap.mu.Unlock()
	if first == nil {
		r.harness = "trickle: no client Initial observed"
		return
	}
	_, sk := refcrypto.InitialKeys(refcrypto.V1, first.DCID)
	scid := []byte{0xc1, 0x70, 0x0f, 0x0e, 0x0d, 0x0c, 0x0b, 0x0a}
	for pn := uint64(0); pn < 200; pn++ {
		r.C.mu.Lock()
		done := r.dialDone
		r.C.mu.Unlock()
		if done {
			return
		}
		payload := make([]byte, 40)
		payload[0] = 0x01 // PING, then PADDING
		h := refwire.LongHeader{Kind: refwire.LongInitial, Version: refwire.Version1, DCID: first.SCID, SCID: scid, Length: uint64(2 + len(payload) + 16)}
		hdr := refwire.AppendLongHeader(nil, h, pn, 2)
		w.Router.Inject(sim.S2C, sim.ServerAddr, sim.ClientAddr, refcrypto.Protect(sk, hdr, len(hdr)-2, 2, pn, payload), "trickle")
		r.trickled++
		time.Sleep(every)
	}
}

func (r *result) forge(victim string, variant int) (data []byte, code uint64, name string, skip string) {
	w := r.w
	r.tap.mu.Lock()
	last, maxPN := r.tap.last1rtt[dirTo(victim)], r.tap.maxPN[dirTo(victim)]
	r.tap.mu.Unlock()
	if last == nil {
		return nil, 0, "", "no 1-RTT packet towards the victim observed"
	}
	label := "CLIENT_TRAFFIC_SECRET_0"
	if victim == "c" {
		label = "SERVER_TRAFFIC_SECRET_0"
	}
	var secret []byte
	for _, l := range append(w.ClientKeys.Lines(), w.ServerKeys.Lines()...) {
		f := strings.Fields(l)
		if len(f) == 3 && f[0] == label {
			secret, _ = hex.DecodeString(f[2])
			break
		}
	}
	if secret == nil {
		return nil, 0, "", "no traffic secret in the key log"
	}
	suites := []uint16{refcrypto.TLS_AES_128_GCM_SHA256, refcrypto.TLS_CHACHA20_POLY1305_SHA256}
	if len(secret) == 48 {
		suites = []uint16{refcrypto.TLS_AES_256_GCM_SHA384}
	}
	pnOff := 1 + len(last.DCID)
	// the implementation updates its keys for the first time after only 100 packets: follow the generation the
	// peer currently sends with
	var keys *refcrypto.Keys
	for _, s := range suites {
		k := refcrypto.DeriveKeys(s, refcrypto.V1, secret)
		for g := 0; g < last.KeyGen; g++ {
			k = k.NextGeneration()
		}
		if _, pn, _, _, err := refcrypto.Unprotect(k, last.Raw, pnOff, int64(last.PN)-1); err == nil && pn == last.PN {
			keys = k
			break
		}
	}
	if keys == nil {
		return nil, 0, "", "could not re-derive the 1-RTT keys"
	}
	if variant%len(forgeNames) == 5 {
		// the flow-control violation needs a stream of the peer that the victim has already accepted (a STREAM frame
		// for a new stream would first hand that stream to a blocked AcceptStream)
		p := r.peer(r.ep(victim))
		visible := (has(p.side.Blocked, "write") && !p.side.WriteUni) || (r.c.Phase == "transfer" && r.c.XferDir == p.name && !r.c.XferUni)
		if !visible {
			variant = 6
		}
	}
	payload, code, name := forgeFrames(victim, variant)
	pn := maxPN + 3
	hdr := refwire.AppendShortHeader(nil, last.DCID, pn&0xffffffff, 4, last.KeyPhase, false)
	if last.KeyGen > 0 {
		r.forgeAfterKeyUpdate = true
	}
	return refcrypto.Protect(keys, hdr, pnOff, 4, pn, payload), code, name, ""
}

// tapState collects, under the router's lock, what the scenario needs from the traffic while it is running (the
// router's log itself may only be read through Router.Trace).
type tapState struct {
	mu           sync.Mutex
	tokens       map[string]map[string][16]byte // announcing side -> connection ID (hex) -> stateless reset token (NEW_CONNECTION_ID frames)
	srvSCID      []byte                         // source connection ID of the server's long header packets (the ID its transport parameter token belongs to)
	tail         map[int][16]byte               // last 16 bytes of undecryptable short-header datagrams (by sequence number): the token if it is a stateless reset
	usedDCID     map[string][]string            // direction -> destination connection IDs (hex) seen in decrypted 1-RTT packets, in order of first use
	last1rtt     map[string]*sim.Packet
	maxPN        map[string]uint64
	keyUpdate    map[string]bool
	lastData     map[string][]byte // last unmodified datagram consisting of 1-RTT packets, per direction
	firstInitial *sim.Packet
	ccData       map[int][]byte // datagrams carrying CONNECTION_CLOSE, by sequence number
}

func newTap() *tapState {
	return &tapState{tail: map[int][16]byte{}, tokens: map[string]map[string][16]byte{"c": {}, "s": {}}, usedDCID: map[string][]string{}, last1rtt: map[string]*sim.Packet{}, maxPN: map[string]uint64{}, keyUpdate: map[string]bool{}, lastData: map[string][]byte{}, ccData: map[int][]byte{}}
}

func (t *tapState) tap(dir sim.Dir, rec *sim.Record) {
	t.mu.Lock()
	defer t.mu.Unlock()
	d := rec.Dir
	if ps := pktsOf(rec); len(ps) == 1 && ps[0].Kind == "undecryptable" && len(rec.Data) >= 21 {
		t.tail[rec.Seq] = [16]byte(rec.Data[len(rec.Data)-16:])
	}
	all1rtt := true
	for _, p := range pktsOf(rec) {
		if d == "s2c" && (p.Kind == "initial" || p.Kind == "handshake") {
			t.srvSCID = p.SCID
		}
		if (p.Kind == "initial" || p.Kind == "handshake") && p.Err == "" {
			if id := hex.EncodeToString(p.DCID); !has(t.usedDCID[d], id) {
				t.usedDCID[d] = append(t.usedDCID[d], id)
			}
		}
		for _, fr := range p.Frames {
			if fr.Name == refwire.NameNewConnectionID {
				t.tokens[map[string]string{"c2s": "c", "s2c": "s"}[d]][hex.EncodeToString(fr.ConnID)] = fr.ResetToken
			}
		}
		switch p.Kind {
		case "1rtt":
			if p.Err == "" {
				if id := hex.EncodeToString(p.DCID); !has(t.usedDCID[d], id) {
					t.usedDCID[d] = append(t.usedDCID[d], id)
				}
				if p.KeyPhase || p.KeyGen != 0 {
					t.keyUpdate[d] = true
				}
				t.last1rtt[d] = p
				if p.PN > t.maxPN[d] {
					t.maxPN[d] = p.PN
				}
			}
		case "initial":
			if d == "c2s" && t.firstInitial == nil {
				t.firstInitial = p
			}
			all1rtt = false
		default:
			all1rtt = false
		}
		for _, n := range p.Names {
			if n == refwire.NameConnectionClose {
				t.ccData[rec.Seq] = rec.Data
			}
		}
	}
	if all1rtt && len(rec.Data) > 0 && len(pktsOf(rec)) > 0 {
		t.lastData[d] = rec.Data
	}
}
