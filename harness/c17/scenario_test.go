//go:build go1.25

package c17

import (
	"context"
	"crypto/sha256"
	"errors"
	"fmt"
	"strings"
	"sync"
	"testing/synctest"
	"time"

	tls "github.com/refraction-networking/utls"

	quic "github.com/refraction-networking/uquic"
	"github.com/refraction-networking/uquic/verif/sim"
	"github.com/refraction-networking/uquic/verif/specgen"
	"github.com/refraction-networking/uquic/verif/vf"
)

const ms = time.Millisecond

// callRec is one API call made by the scenario on behalf of the application.
type callRec struct {
	Side     string
	Name     string
	Start    time.Duration
	End      time.Duration
	Returned bool
	Err      error
	N        int
	Later    bool // made after the connection had ended
}

type endpoint struct {
	name     string // "c" | "s"
	side     Side
	tr       *quic.Transport
	conn     *quic.Conn
	connAt   time.Duration
	mu       sync.Mutex
	calls    []*callRec
	ended    chan struct{}
	endAt    time.Duration
	endErr   error
	didEnd   bool
	readStr  *quic.Stream
	writeStr interface {
		Write([]byte) (int, error)
		SetWriteDeadline(time.Time) error
	}
	xferW interface {
		Write([]byte) (int, error)
		SetWriteDeadline(time.Time) error
	}
	xferR interface {
		Read([]byte) (int, error)
		SetReadDeadline(time.Time) error
	}
	xferBytes      int
	neverEnded     bool
	pendingAtCause []string
}

// result is everything the oracle needs.
type result struct {
	c                    Case
	w                    *sim.World
	rtt                  time.Duration
	C, S                 *endpoint
	tArm                 time.Duration
	tCause               time.Duration // when the cause was triggered (local action / injection / blackout start)
	causeAt              time.Duration // time the local action returned
	closer               string        // endpoint that called CloseWithError ("" if none)
	forgeRec             int           // log index of the forged datagram (-1)
	forgeCode            uint64
	forgeName            string
	forgeSkipped         string
	dialErr              error
	dialAt               time.Duration
	dialStart            time.Duration
	dialDone             bool
	cancelAt             time.Duration
	cancelDone           bool
	lnAccept             *callRec // the second, blocked Listener.Accept
	accept1              *callRec
	pokeAt               time.Duration
	replayFrom, replayTo time.Duration
	replayed             int
	trickled             int
	routing              []string // non-empty: entries still routed at the resource check
	routingAt            time.Duration
	harness              string // scenario could not be set up as planned (reported, not a property violation)
	log                  []*sim.Record
	notes                []string
	stuck                []string        // calls that had to be released by the harness
	trB                  *quic.Transport // replacement server transport (stateless reset cause)
	lnB                  *quic.Listener
	serverTLS            func() *tls.Config
	tap                  *tapState
	advIdle              map[string]advIdle
	unreleasable         bool
	forgeAfterKeyUpdate  bool
	crafts               []*craftRec                    // cause "craft": the datagrams injected, in order
	subMinAccepted       bool                           // a reset of 17..20 bytes ended the connection (observation, not judged)
	tokTable             map[string]map[string][16]byte // announcing side -> connection ID (hex) -> reset token, as read off the wire
	causeDone            chan struct{}                  // closed when doCause has finished (edge phase: it runs in the Dial / Accept goroutine)
	nmu                  sync.Mutex
	finalNow             time.Duration
	u                    *vf.Unit
}

func (r *result) ep(name string) *endpoint {
	if name == "c" {
		return r.C
	}
	return r.S
}

func (r *result) peer(e *endpoint) *endpoint {
	if e == r.C {
		return r.S
	}
	return r.C
}

func (r *result) note(f string, a ...any) {
	r.nmu.Lock()
	r.notes = append(r.notes, fmt.Sprintf(f, a...))
	r.nmu.Unlock()
}

// dirTo returns the router direction label of datagrams travelling to endpoint e.
func dirTo(e string) string {
	if e == "s" {
		return "c2s"
	}
	return "s2c"
}

func dirFrom(e string) string {
	if e == "s" {
		return "s2c"
	}
	return "c2s"
}

func simDir(label string) sim.Dir {
	if label == "c2s" {
		return sim.C2S
	}
	return sim.S2C
}

func keepAlive(mode string, neg time.Duration) time.Duration {
	switch mode {
	case "short":
		return neg / 3
	case "long":
		return neg * 3 / 2
	}
	return 0
}

const streamWindow = 4096

// streamLimits returns the MaxIncomingStreams / MaxIncomingUniStreams that the PEER of opener must configure,
// and how many bidirectional / unidirectional streams the opener opens before the blocking call.
func streamLimits(c *Case, opener string) (bidiLimit, uniLimit int64, nb, nu int) {
	s := c.C
	if opener == "s" {
		s = c.S
	}
	if has(s.Blocked, "write") {
		if s.WriteUni {
			nu++
		} else {
			nb++
		}
	}
	if c.Phase == "transfer" && c.XferDir == opener {
		if c.XferUni {
			nu++
		} else {
			nb++
		}
	}
	if has(s.Blocked, "read") {
		nb++
	}
	bidiLimit, uniLimit = 100, 100
	if has(s.Blocked, "open") {
		bidiLimit = int64(max(1, nb))
	}
	if has(s.Blocked, "openuni") {
		uniLimit = int64(max(1, nu))
	}
	return
}

type advIdle struct {
	ms      uint64
	present bool
	seen    bool // the side's transport parameters were found on the wire
}

// effMs is the idle period endpoint e applies, computed from its own Config and what its peer put on the wire:
// min(own, max(5 s, peer's)) - connection.go applyTransportParameters with the 5 s floor of
// wire/transport_parameters.go - or the own value alone when the peer sent no max_idle_timeout or 0 (RFC 9000 18.2).
func (r *result) effMs(e string) int {
	own, p := r.c.C.IdleMs, "s"
	if e == "s" {
		own, p = r.c.S.IdleMs, "c"
	}
	a := r.advIdle[p]
	if !a.seen {
		return r.c.effIdle(e)
	}
	if !a.present || a.ms == 0 {
		return own
	}
	return min(own, int(max(a.ms, 5000)))
}

// clientSpec builds the QUICSpec of a spec-driven client: Chrome 115's ClientHello and Initial framing, with a
// transport parameter list that advertises exactly what config("c") would (the connection enforces what the spec
// advertises: u_connection.go applyAdvertisedTransportParameters) - except for max_idle_timeout.
func (r *result) clientSpec() (*quic.QUICSpec, error) {
	c := &r.c
	bl, ul, _, _ := streamLimits(c, "s")
	cid := c.C.CIDLen
	base := "chrome115"
	if c.ClientKind == "firefox" {
		base = "firefoxA"
	}
	tps := []specgen.TPDesc{
		{K: "maxdata", N: 4 * streamWindow}, {K: "bidi_local", N: streamWindow}, {K: "bidi_remote", N: streamWindow}, {K: "uni", N: streamWindow},
		{K: "streams_bidi", N: uint64(bl)}, {K: "streams_uni", N: uint64(ul)}, {K: "ack_delay", N: 26}, {K: "udp", N: 1452},
		{K: "cidlimit", N: 4}, {K: "disable_migration"}, {K: "iscid"}, {K: "dgram", N: 16383},
	}
	if c.ClientSpec == "idle0" {
		tps = append(tps[:3:3], append([]specgen.TPDesc{{K: "idle", N: 0}}, tps[3:]...)...)
	}
	if c.ClientSpec == "" {
		// (cause "craft": a browser parrot as it is, with the idle timeout its Config has)
		tps = append(tps[:3:3], append([]specgen.TPDesc{{K: "idle", N: uint64(c.C.IdleMs)}}, tps[3:]...)...)
	}
	return specgen.Desc{Base: base, SrcCID: &cid, TPs: tps}.Build()
}

func (r *result) config(me string) *quic.Config {
	c := &r.c
	s, opener := c.C, "s"
	if me == "s" {
		s, opener = c.S, "c"
	}
	neg := time.Duration(c.negIdle()) * ms
	bl, ul, _, _ := streamLimits(c, opener)
	return &quic.Config{
		Versions:                       []quic.Version{quic.Version1},
		DisablePathMTUDiscovery:        true,
		MaxIdleTimeout:                 time.Duration(s.IdleMs) * ms,
		HandshakeIdleTimeout:           time.Duration(c.HSIdleMs) * ms,
		KeepAlivePeriod:                keepAlive(s.KeepAlive, neg),
		EnableDatagrams:                true,
		InitialStreamReceiveWindow:     streamWindow,
		MaxStreamReceiveWindow:         streamWindow,
		InitialConnectionReceiveWindow: 4 * streamWindow,
		MaxConnectionReceiveWindow:     4 * streamWindow,
		MaxIncomingStreams:             bl,
		MaxIncomingUniStreams:          ul,
	}
}

// call runs f in its own goroutine and records when and how it returned.
func (r *result) call(wg *sync.WaitGroup, e *endpoint, name string, f func() (int, error)) *callRec {
	rec := &callRec{Side: e.name, Name: name, Start: r.w.Router.Now()}
	e.mu.Lock()
	e.calls = append(e.calls, rec)
	e.mu.Unlock()
	wg.Add(1)
	go func() {
		defer wg.Done()
		n, err := f()
		t := r.w.Router.Now()
		e.mu.Lock()
		rec.N, rec.Err, rec.End, rec.Returned = n, err, t, true
		e.mu.Unlock()
	}()
	return rec
}

func (r *result) watch(wg *sync.WaitGroup, e *endpoint) {
	e.connAt = r.w.Router.Now()
	wg.Add(1)
	go func() {
		defer wg.Done()
		<-e.conn.Context().Done()
		t := r.w.Router.Now()
		e.mu.Lock()
		e.endAt, e.endErr, e.didEnd = t, context.Cause(e.conn.Context()), true
		e.mu.Unlock()
		close(e.ended)
	}()
}

func sleepUntil(w *sim.World, t time.Duration) {
	if d := t - w.Router.Now(); d > 0 {
		time.Sleep(d)
	}
}

var errCancelSentinel = errors.New("c17: dial context cancelled by the application")

// armInstant starts the calls that block without any preparation.
func (r *result) armInstant(ctx context.Context, wg *sync.WaitGroup, e *endpoint) {
	b := e.side.Blocked
	if has(b, "read") && e.readStr == nil {
		// a bidirectional stream we opened ourselves and on which the peer never writes
		if str, err := e.conn.OpenStream(); err == nil {
			e.readStr = str
		} else {
			r.note("%s: OpenStream for the blocked Read failed: %v", e.name, err)
		}
	}
	if e.readStr != nil {
		str := e.readStr
		r.call(wg, e, "read", func() (int, error) { return str.Read(make([]byte, 16)) })
	}
	// several goroutines may block in the same call: every one of them has to be woken
	for k := 0; k < max(e.side.Mult, 1); k++ {
		if has(b, "accept") {
			r.call(wg, e, "accept", func() (int, error) { _, err := e.conn.AcceptStream(ctx); return 0, err })
		}
		if has(b, "acceptuni") {
			r.call(wg, e, "acceptuni", func() (int, error) { _, err := e.conn.AcceptUniStream(ctx); return 0, err })
		}
		if has(b, "dgram") {
			r.call(wg, e, "dgram", func() (int, error) { d, err := e.conn.ReceiveDatagram(ctx); return len(d), err })
		}
	}
}

// prelude opens the streams of e that need preparation: the stream whose Write blocks on the peer's window, the
// bulk transfer, and the streams that use up the peer's stream limit.
func (r *result) prelude(ctx context.Context, wg *sync.WaitGroup, e *endpoint) {
	c := &r.c
	b := e.side.Blocked
	_, _, nb, nu := streamLimits(c, e.name)
	openedB, openedU := 0, 0
	if has(b, "write") {
		if e.side.WriteUni {
			str, err := e.conn.OpenUniStream()
			if err != nil {
				r.harness = fmt.Sprintf("%s: OpenUniStream (write): %v", e.name, err)
				return
			}
			openedU++
			e.writeStr = str
		} else {
			str, err := e.conn.OpenStream()
			if err != nil {
				r.harness = fmt.Sprintf("%s: OpenStream (write): %v", e.name, err)
				return
			}
			openedB++
			e.writeStr = str
		}
		ws := e.writeStr
		r.call(wg, e, "write", func() (int, error) { return ws.Write(make([]byte, 64<<10)) })
	}
	if c.Phase == "transfer" && c.XferDir == e.name {
		if c.XferUni {
			str, err := e.conn.OpenUniStream()
			if err != nil {
				r.harness = fmt.Sprintf("%s: OpenUniStream (xfer): %v", e.name, err)
				return
			}
			openedU++
			e.xferW = str
		} else {
			str, err := e.conn.OpenStream()
			if err != nil {
				r.harness = fmt.Sprintf("%s: OpenStream (xfer): %v", e.name, err)
				return
			}
			openedB++
			e.xferW = str
		}
		xs := e.xferW
		r.call(wg, e, "xfer-write", func() (int, error) {
			total := 0
			buf := make([]byte, 8<<10)
			for total < 64<<20 {
				n, err := xs.Write(buf)
				total += n
				if err != nil {
					return total, err
				}
			}
			return total, nil
		})
	}
	if has(b, "read") {
		str, err := e.conn.OpenStream()
		if err != nil {
			r.harness = fmt.Sprintf("%s: OpenStream (read): %v", e.name, err)
			return
		}
		openedB++
		e.readStr = str
	}
	// fillers: use up what is left of the peer's stream limit (only when the limit was made tight)
	if has(b, "open") {
		for openedB < max(1, nb) {
			if _, err := e.conn.OpenStream(); err != nil {
				r.harness = fmt.Sprintf("%s: OpenStream (filler): %v", e.name, err)
				return
			}
			openedB++
		}
	}
	if has(b, "openuni") {
		for openedU < max(1, nu) {
			if _, err := e.conn.OpenUniStream(); err != nil {
				r.harness = fmt.Sprintf("%s: OpenUniStream (filler): %v", e.name, err)
				return
			}
			openedU++
		}
	}
}

// drain accepts the streams the peer makes visible during its prelude, so that the AcceptStream calls armed later
// really block. The bulk transfer's stream is read continuously.
func (r *result) drain(ctx context.Context, wg *sync.WaitGroup, e *endpoint, deadline time.Duration) {
	c := &r.c
	p := r.peer(e)
	var vb, vu []string
	if has(p.side.Blocked, "write") {
		if p.side.WriteUni {
			vu = append(vu, "write")
		} else {
			vb = append(vb, "write")
		}
	}
	if c.Phase == "transfer" && c.XferDir == p.name {
		if c.XferUni {
			vu = append(vu, "xfer")
		} else {
			vb = append(vb, "xfer")
		}
	}
	dctx, cancel := context.WithTimeout(ctx, deadline-r.w.Router.Now())
	defer cancel()
	startXfer := func(rd interface {
		Read([]byte) (int, error)
		SetReadDeadline(time.Time) error
	}) {
		e.xferR = rd
		r.call(wg, e, "xfer-read", func() (int, error) {
			total := 0
			buf := make([]byte, 4<<10)
			for {
				n, err := rd.Read(buf)
				total += n
				e.mu.Lock()
				e.xferBytes = total
				e.mu.Unlock()
				if err != nil {
					return total, err
				}
			}
		})
	}
	for _, what := range vb {
		str, err := e.conn.AcceptStream(dctx)
		if err != nil {
			r.harness = fmt.Sprintf("%s: AcceptStream for the peer's %s stream: %v", e.name, what, err)
			return
		}
		if what == "xfer" {
			startXfer(str)
		}
	}
	for _, what := range vu {
		str, err := e.conn.AcceptUniStream(dctx)
		if err != nil {
			r.harness = fmt.Sprintf("%s: AcceptUniStream for the peer's %s stream: %v", e.name, what, err)
			return
		}
		if what == "xfer" {
			startXfer(str)
		}
	}
}

func (r *result) armBlocking(ctx context.Context, wg *sync.WaitGroup, e *endpoint) {
	r.armInstant(ctx, wg, e)
	b := e.side.Blocked
	for k := 0; k < max(e.side.Mult, 1); k++ {
		if has(b, "open") {
			r.call(wg, e, "open", func() (int, error) { _, err := e.conn.OpenStreamSync(ctx); return 0, err })
		}
		if has(b, "openuni") {
			r.call(wg, e, "openuni", func() (int, error) { _, err := e.conn.OpenUniStreamSync(ctx); return 0, err })
		}
	}
}

func (e *endpoint) pending() []string {
	e.mu.Lock()
	defer e.mu.Unlock()
	var out []string
	for _, c := range e.calls {
		if !c.Returned && !c.Later {
			out = append(out, c.Name)
		}
	}
	return out
}

func (e *endpoint) hasEnded() bool {
	e.mu.Lock()
	defer e.mu.Unlock()
	return e.didEnd
}

// laterCalls makes every kind of call once more on a connection that has ended; each must fail at once.
func (r *result) laterCalls(e *endpoint) {
	mk := func(name string, f func() (int, error)) {
		rec := &callRec{Side: e.name, Name: name, Start: r.w.Router.Now(), Later: true}
		ch := make(chan struct{})
		go func() {
			n, err := f()
			e.mu.Lock()
			rec.N, rec.Err, rec.End, rec.Returned = n, err, r.w.Router.Now(), true
			e.mu.Unlock()
			close(ch)
		}()
		<-ch
		e.mu.Lock()
		e.calls = append(e.calls, rec)
		e.mu.Unlock()
	}
	// every context-taking call gets a deadline: a call that wrongly blocks is then released after 1 s (virtual)
	// and reported by the oracle because it did not return at once.
	lctx, cancel := context.WithTimeout(context.Background(), time.Second)
	defer cancel()
	mk("later:OpenStream", func() (int, error) { _, err := e.conn.OpenStream(); return 0, err })
	mk("later:OpenStreamSync", func() (int, error) { _, err := e.conn.OpenStreamSync(lctx); return 0, err })
	mk("later:OpenUniStream", func() (int, error) { _, err := e.conn.OpenUniStream(); return 0, err })
	mk("later:OpenUniStreamSync", func() (int, error) { _, err := e.conn.OpenUniStreamSync(lctx); return 0, err })
	mk("later:AcceptStream", func() (int, error) { _, err := e.conn.AcceptStream(lctx); return 0, err })
	mk("later:AcceptUniStream", func() (int, error) { _, err := e.conn.AcceptUniStream(lctx); return 0, err })
	mk("later:ReceiveDatagram", func() (int, error) { _, err := e.conn.ReceiveDatagram(lctx); return 0, err })
	mk("later:SendDatagram", func() (int, error) { return 0, e.conn.SendDatagram([]byte("after the end")) })
	if e.readStr != nil {
		str := e.readStr
		str.SetReadDeadline(time.Now().Add(time.Second))
		mk("later:Read", func() (int, error) { return str.Read(make([]byte, 8)) })
		mk("later:Write", func() (int, error) { return str.Write([]byte("x")) })
	}
	if e.writeStr != nil {
		ws := e.writeStr
		ws.SetWriteDeadline(time.Now().Add(time.Second))
		mk("later:Write2", func() (int, error) { return ws.Write([]byte("y")) })
	}
}

// zeroLenCIDs is a quic.ConnectionIDGenerator for zero-length connection IDs.
type zeroLenCIDs struct{}

func (zeroLenCIDs) GenerateConnectionID() (quic.ConnectionID, error) { return quic.ConnectionID{}, nil }
func (zeroLenCIDs) ConnectionIDLen() int                             { return 0 }

func alpn(c *Case, client bool) []string {
	if c.Cause == "alert" && client {
		return []string{"c17-unknown-protocol"}
	}
	return []string{"h3"}
}

// runCase executes the scenario inside the bubble.
func runCase(c Case, res *result) {
	rtt := time.Duration(c.RTTms) * ms
	hsIdle := time.Duration(c.HSIdleMs) * ms
	res.c, res.rtt, res.forgeRec = c, rtt, -1
	res.causeDone = make(chan struct{})
	hs := c.Phase == "handshake"

	// ---- time plan (absolute virtual times since the world started)
	tArm := time.Duration(c.armMs()) * ms
	tCause := tArm + 2*ms + time.Duration(c.AtMs)*ms
	if hs {
		tCause = time.Duration(c.AtMs) * ms
	}
	res.tArm, res.tCause = tArm, tCause
	const forever = 1000 * time.Hour

	// ---- network plan
	var faults []sim.Fault
	var blackouts [][2]time.Duration
	for i := 0; i < c.DropCC; i++ {
		faults = append(faults, sim.Fault{Dir: dirFrom(c.By), Cls: "frame:CONNECTION_CLOSE", Nth: i, Kind: "drop"})
	}
	if c.TruncLen > 0 {
		faults = append(faults, sim.Fault{Dir: c.TruncDir, Cls: "1rtt", Nth: c.TruncNth, Kind: "trunc", Arg: c.TruncLen - 1})
	}
	switch c.Cause {
	case "idle":
		if c.Variant%2 == 0 {
			blackouts = append(blackouts, [2]time.Duration{tCause, forever})
		}
	case "hstimeout":
		switch c.Variant % 5 {
		case 0, 4: // 4: additionally an attacker keeps the client busy with valid Initial packets (see trickle)
			blackouts = append(blackouts, [2]time.Duration{0, forever})
		case 1:
			blackouts = append(blackouts, [2]time.Duration{tCause, forever})
		case 2:
			for i := c.Variant / 5; i < c.Variant/5+80; i++ {
				faults = append(faults, sim.Fault{Dir: "s2c", Nth: i, Kind: "drop"})
			}
		case 3:
			for i := 1 + c.Variant/5; i < 1+c.Variant/5+80; i++ {
				faults = append(faults, sim.Fault{Dir: "c2s", Nth: i, Kind: "drop"})
			}
		}
	}
	w := sim.NewWorld(rtt, faults, nil, blackouts)
	res.w = w
	w.Observe()
	w.Router.KeepData = true
	res.tap = newTap()
	w.Router.Tap = res.tap.tap

	ctx, cancelAll := context.WithCancel(context.Background())
	var wg sync.WaitGroup

	// ---- endpoints
	res.C = &endpoint{name: "c", side: c.C, ended: make(chan struct{})}
	res.S = &endpoint{name: "s", side: c.S, ended: make(chan struct{})}
	key := quic.StatelessResetKey(sha256.Sum256([]byte("c17 server reset key")))
	ckey := quic.StatelessResetKey(sha256.Sum256([]byte("c17 client reset key")))
	trS := &quic.Transport{Conn: w.ServerConn, ConnectionIDLength: c.S.CIDLen, StatelessResetKey: &key}
	trC := &quic.Transport{Conn: w.ClientConn, ConnectionIDLength: c.C.CIDLen}
	if c.ClientKind == "zerogen" {
		// interface.go ConnectionIDGenerator: "A length of 0 can only be used when an endpoint doesn't need to multiplex
		// connections during migration" - one connection per transport here
		trC = &quic.Transport{Conn: w.ClientConn, ConnectionIDGenerator: zeroLenCIDs{}}
	}
	if c.C.ResetKey {
		trC.StatelessResetKey = &ckey
	}
	if c.ClientKind == "dial" {
		trC = nil // quic.Dial makes its own single-use transport (zero-length source connection ID)
	}
	res.C.tr, res.S.tr = trC, trS
	serverTLS := func() *tls.Config { return sim.ServerTLS(false, w.ServerKeys, alpn(&c, false)...) }
	res.serverTLS = serverTLS
	ln, err := trS.Listen(serverTLS(), res.config("s"))
	if err != nil {
		res.harness = "listen: " + err.Error()
		trS.Close()
		if trC != nil {
			trC.Close()
		}
		w.Close()
		cancelAll()
		return
	}

	teardown := func() {
		// release whatever is still blocked, so that the bubble can end and the oracle can report
		cancelAll()
		for _, e := range []*endpoint{res.C, res.S} {
			if e.conn == nil {
				continue
			}
			for _, name := range e.pending() {
				res.stuck = append(res.stuck, e.name+":"+name)
			}
			past := time.Now().Add(-time.Second)
			if e.readStr != nil {
				e.readStr.SetDeadline(past)
			}
			if e.writeStr != nil {
				e.writeStr.SetWriteDeadline(past)
			}
			if e.xferW != nil {
				e.xferW.SetWriteDeadline(past)
			}
			if e.xferR != nil {
				e.xferR.SetReadDeadline(past)
			}
		}
		ln.Close()
		if res.lnB != nil {
			res.lnB.Close()
		}
		for _, e := range []*endpoint{res.C, res.S} {
			if e.conn != nil && !e.hasEnded() {
				e.neverEnded = true
				e.conn.CloseWithError(0, "teardown")
			}
		}
		if trC != nil {
			trC.Close()
		}
		trS.Close()
		if res.trB != nil {
			res.trB.Close()
		}
		// every goroutine of the scenario must be gone now; one that is not (a call nothing can release) is reported
		// and left behind - the bubble then cannot end, which checkCase turns into the verdict already found
		synctest.Wait()
		for _, e := range []*endpoint{res.C, res.S} {
			for _, name := range e.pending() {
				if !has(res.stuck, e.name+":"+name) {
					res.stuck = append(res.stuck, e.name+":"+name)
				}
				res.unreleasable = true
			}
		}
		if !res.unreleasable {
			wg.Wait()
		}
		res.finalNow = w.Router.Now()
		w.Close()
		res.log = w.Router.Trace(1 << 30)
		// what each side really advertised as max_idle_timeout, read from the wire
		res.advIdle = map[string]advIdle{}
		for _, side := range []string{"c", "s"} {
			if ps, ok := w.TransportParams(side == "c"); ok {
				v, present := sim.TPValue(ps, 0x01)
				res.advIdle[side] = advIdle{ms: v, present: present, seen: true}
			}
		}
		res.tokTable = res.tokenTable()
		for i, rec := range res.log {
			var k int
			if rec.Forged {
				if n, _ := fmt.Sscanf(rec.Notes, "craft:%d", &k); n == 1 && k < len(res.crafts) {
					res.crafts[k].rec = i
				}
			}
		}
		if res.forgeRec == -2 {
			res.forgeRec = -1
			for i, rec := range res.log {
				if rec.Forged && strings.HasPrefix(rec.Notes, "forged:") {
					res.forgeRec = i
				}
			}
		}
	}

	// ---- server accept loop: first Accept yields the connection, the second stays blocked
	acceptCtx := ctx
	res.accept1 = res.call(&wg, res.S, "ln.Accept#1", func() (int, error) {
		conn, err := ln.Accept(acceptCtx)
		if err != nil {
			return 0, err
		}
		res.S.mu.Lock()
		res.S.conn = conn
		res.S.mu.Unlock()
		res.watch(&wg, res.S)
		res.lnAccept = res.call(&wg, res.S, "ln.Accept#2", func() (int, error) { _, err := ln.Accept(acceptCtx); return 0, err })
		if c.Phase == "edge" {
			res.armInstant(ctx, &wg, res.S)
			if c.By == "s" {
				res.doCause(ctx, &wg)
			}
		}
		return 1, nil
	})

	// ---- client dial
	dialCtx, dialCancel := context.WithCancelCause(ctx)
	defer dialCancel(nil)
	res.dialStart = w.Router.Now()
	dialRec := res.call(&wg, res.C, "Dial", func() (int, error) {
		var conn *quic.Conn
		var err error
		if c.ClientKind == "dial" {
			conn, err = quic.Dial(dialCtx, w.ClientConn, sim.ServerAddr, sim.ClientTLS(w.ClientKeys, alpn(&c, true)...), res.config("c"))
		} else if c.ClientSpec != "" || c.ClientKind == "chrome" || c.ClientKind == "firefox" {
			spec, serr := res.clientSpec()
			if serr != nil {
				err = serr
			} else {
				conn, err = (&quic.UTransport{Transport: trC, QUICSpec: spec}).Dial(dialCtx, sim.ServerAddr, sim.ClientTLS(w.ClientKeys, alpn(&c, true)...), res.config("c"))
			}
		} else {
			conn, err = trC.Dial(dialCtx, sim.ServerAddr, sim.ClientTLS(w.ClientKeys, alpn(&c, true)...), res.config("c"))
		}
		res.C.mu.Lock()
		res.dialErr, res.dialAt, res.dialDone = err, w.Router.Now(), true
		res.C.mu.Unlock()
		if err != nil {
			return 0, err
		}
		res.C.mu.Lock()
		res.C.conn = conn
		res.C.mu.Unlock()
		res.watch(&wg, res.C)
		if c.Phase == "edge" {
			res.armInstant(ctx, &wg, res.C)
			if c.By == "c" {
				res.doCause(ctx, &wg)
			}
		}
		return 1, nil
	})
	_ = dialRec

	if hs {
		// ---- handshake-phase causes
		res.C.pendingAtCause, res.S.pendingAtCause = []string{"Dial"}, []string{"ln.Accept#1"}
		if c.Cause == "hstimeout" && c.Variant%5 == 4 {
			wg.Add(1)
			go func() { defer wg.Done(); res.trickle(hsIdle / 2) }()
		}
		if c.Cause == "cancel" {
			sleepUntil(w, tCause)
			res.cancelAt = w.Router.Now()
			dialCancel(errCancelSentinel)
			res.cancelDone = true
		}
		// the Dial must return by itself: handshake timeout 2*hsIdle
		limit := 2*hsIdle + time.Second
		for w.Router.Now() < limit {
			res.C.mu.Lock()
			done := res.dialDone
			res.C.mu.Unlock()
			if done {
				break
			}
			time.Sleep(5 * ms)
		}
		synctest.Wait()
		res.C.mu.Lock()
		conn := res.C.conn
		res.C.mu.Unlock()
		if conn != nil {
			// the handshake completed on the client side after all (only the client's packets were lost, or the
			// cancellation came too late): the connection must be unaffected by a late cancellation
			if c.Cause == "cancel" {
				time.Sleep(3*rtt + 5*ms)
				synctest.Wait()
				if res.C.hasEnded() {
					res.note("client connection ended after its dial context was cancelled post-handshake")
				}
			}
			res.tCause = w.Router.Now()
			res.closer = "c"
			conn.CloseWithError(quic.ApplicationErrorCode(c.Code), c.Reason)
			res.causeAt = w.Router.Now()
		}
		// server side: a half-open connection lives at most 2*hsIdle, then its closed stand-in 3 PTO
		sleepUntil(w, 2*hsIdle+3*rtt+700*ms+3*(3*rtt+100*ms))
		synctest.Wait()
		// connections that surfaced nevertheless (one-sided completion) end by CONNECTION_CLOSE or idle timeout
		eff := time.Duration(max(c.effIdle("c"), c.effIdle("s"))) * ms
		horizon := w.Router.Now() + 3*max(eff, 3*(3*rtt+50*ms)) + 2*time.Second
		for _, e := range []*endpoint{res.C, res.S} {
			e.mu.Lock()
			have := e.conn != nil
			e.mu.Unlock()
			if have {
				sim.WaitCtx(e.ended, horizon-w.Router.Now())
			}
		}
		time.Sleep(3*(3*rtt+100*ms) + 700*ms)
		synctest.Wait()
		res.checkRouting(trC, trS, nil)
		teardown()
		return
	}

	// ---- post-handshake phases: wait for both connections
	gotConns := func() bool {
		res.C.mu.Lock()
		defer res.C.mu.Unlock()
		res.S.mu.Lock()
		defer res.S.mu.Unlock()
		return res.C.conn != nil && res.S.conn != nil
	}
	if c.Phase != "edge" {
		for w.Router.Now() < tArm-2*rtt-10*ms && !gotConns() {
			time.Sleep(ms)
		}
		if !gotConns() {
			res.harness = fmt.Sprintf("handshake not complete on both sides at %v (dial err %v)", w.Router.Now(), res.dialErr)
			teardown()
			return
		}
		for _, e := range []*endpoint{res.C, res.S} {
			res.prelude(ctx, &wg, e)
		}
		var dwg sync.WaitGroup
		for _, e := range []*endpoint{res.C, res.S} {
			dwg.Add(1)
			go func() { defer dwg.Done(); res.drain(ctx, &wg, e, tArm-ms) }()
		}
		dwg.Wait()
		if res.harness != "" {
			teardown()
			return
		}
		sleepUntil(w, tArm)
		for _, e := range []*endpoint{res.C, res.S} {
			res.armBlocking(ctx, &wg, e)
		}
		sleepUntil(w, tCause)
		synctest.Wait()
		for _, e := range []*endpoint{res.C, res.S} {
			e.pendingAtCause = e.pending()
		}
		res.tCause = w.Router.Now()
		if c.Cause == "cancel" {
			res.cancelAt = w.Router.Now()
			dialCancel(errCancelSentinel)
			res.cancelDone = true
			time.Sleep(3*rtt + 5*ms)
			synctest.Wait()
			if res.C.hasEnded() || res.S.hasEnded() {
				res.note("connection ended after the dial context was cancelled post-handshake")
			}
			res.tCause = w.Router.Now()
		}
		res.doCause(ctx, &wg)
	}

	// ---- wait for both sides to end
	if c.Phase == "edge" {
		sim.WaitCtx(res.causeDone, 2*hsIdle+time.Second)
	}
	ptoUp := 3*rtt + 50*ms
	eff := time.Duration(max(c.effIdle("c"), c.effIdle("s"))) * ms
	horizon := res.tCause + 3*max(eff, 3*ptoUp) + 2*time.Second
	if c.Phase == "edge" {
		horizon = 2*hsIdle + 3*max(eff, 3*ptoUp) + 2*time.Second
	}
	if c.Cause == "reset" {
		// the server lost its state; the client notices when it next sends something of substance
		res.C.mu.Lock()
		cc := res.C.conn
		res.C.mu.Unlock()
		if cc != nil {
			time.Sleep(rtt + time.Duration(c.Variant)*ms)
			res.pokeAt = w.Router.Now()
			// (if the connection has just ended - data in flight already drew a reset - the error is its cause)
			if err := cc.SendDatagram(make([]byte, 120)); err != nil && errKind(err) == "other" {
				res.note("poke: SendDatagram: %v", err)
			}
		}
	}
	if c.Replay > 0 && (c.Cause == "close" || c.Cause == "forge") {
		res.replay(c.Replay)
	}
	for _, e := range []*endpoint{res.C, res.S} {
		for w.Router.Now() < horizon {
			e.mu.Lock()
			have := e.conn != nil
			e.mu.Unlock()
			if have {
				if sim.WaitCtx(e.ended, horizon-w.Router.Now()) {
					break
				}
			} else {
				time.Sleep(5 * ms)
			}
		}
	}
	synctest.Wait()
	for _, e := range []*endpoint{res.C, res.S} {
		if e.conn != nil && e.hasEnded() {
			res.laterCalls(e)
		}
	}
	// ---- closing period, then the routing tables must be empty while listener and transports are still open
	time.Sleep(3*(3*rtt+100*ms) + 700*ms)
	synctest.Wait()
	res.checkRouting(trC, trS, res.trB)
	teardown()
}
