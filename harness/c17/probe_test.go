package c17

import (
	"context"
	"fmt"
	"os"
	"testing"
	"time"

	quic "github.com/refraction-networking/uquic"
	"github.com/refraction-networking/uquic/verif/sim"
)

// Probes for two side findings handed over by the C04 work. They concern stream cancellation, which C17's
// statement does not cover, so they are not part of the oracle; the probes only establish whether the defects are
// reachable through the public API. Run with VERIF_C17_PROBE=S1 or S2 (S1 kills the process when the defect is
// present: the panic is raised in the connection's run loop).

type probeWorld struct {
	w            *sim.World
	trS, trC     *quic.Transport
	ln           *quic.Listener
	sconn, cconn *quic.Conn
}

func newProbeWorld(t *testing.T, rtt time.Duration, conf *quic.Config) *probeWorld {
	p := &probeWorld{w: sim.NewWorld(rtt, nil, nil, nil)}
	p.trS = &quic.Transport{Conn: p.w.ServerConn}
	p.trC = &quic.Transport{Conn: p.w.ClientConn}
	ln, err := p.trS.Listen(sim.ServerTLS(false, p.w.ServerKeys), conf)
	if err != nil {
		t.Fatal(err)
	}
	p.ln = ln
	acc := make(chan *quic.Conn, 1)
	go func() { c, _ := ln.Accept(context.Background()); acc <- c }()
	c, err := p.trC.Dial(context.Background(), sim.ServerAddr, sim.ClientTLS(p.w.ClientKeys), conf)
	if err != nil {
		t.Fatal(err)
	}
	p.cconn, p.sconn = c, <-acc
	return p
}

func (p *probeWorld) close() {
	p.cconn.CloseWithError(0, "")
	p.sconn.CloseWithError(0, "")
	p.ln.Close()
	p.trC.Close()
	p.trS.Close()
	p.w.Close()
}

// S2: a Write blocked because the frame buffer is full is woken by STOP_SENDING and returns (len(p), nil).
func TestProbeS2(t *testing.T) {
	if os.Getenv("VERIF_C17_PROBE") != "S2" {
		t.Skip("VERIF_C17_PROBE != S2")
	}
	var report string
	sim.Bubble(t, time.Second, func() {
		conf := &quic.Config{DisablePathMTUDiscovery: true, InitialStreamReceiveWindow: 4096, MaxStreamReceiveWindow: 4096,
			InitialConnectionReceiveWindow: 1 << 20, MaxConnectionReceiveWindow: 1 << 20}
		p := newProbeWorld(t, 20*ms, conf)
		str, err := p.sconn.OpenUniStream()
		if err != nil {
			t.Fatal(err)
		}
		n0, err0 := str.Write(make([]byte, 4096)) // uses up the client's stream window
		time.Sleep(100 * ms)
		rs, err := p.cconn.AcceptUniStream(context.Background())
		if err != nil {
			t.Fatal(err)
		}
		n1, err1 := str.Write(make([]byte, 1000)) // buffered in nextFrame, returns at once
		type res struct {
			n   int
			err error
			at  time.Duration
		}
		done := make(chan res, 1)
		go func() {
			n, err := str.Write(make([]byte, 1000)) // 1000 + 1000 > MaxPacketBufferSize: blocks
			done <- res{n, err, p.w.Router.Now()}
		}()
		time.Sleep(50 * ms)
		blocked := len(done) == 0
		t0 := p.w.Router.Now()
		rs.CancelRead(7) // STOP_SENDING
		r := <-done
		n3, err3 := str.Write([]byte("more"))
		report = fmt.Sprintf("Write#0 = (%d, %v); Write#1 = (%d, %v); Write#2 blocked=%v; CancelRead(7) by the peer at %v; Write#2 returned (%d, %v) at %v; Write#3 = (%d, %v)",
			n0, err0, n1, err1, blocked, t0, r.n, r.err, r.at, n3, err3)
		p.close()
	}, nil)
	t.Log(report)
}

// S1: SetReliableBoundary after the peer's STOP_SENDING, then the ACK of a STREAM frame sent before it.
func TestProbeS1(t *testing.T) {
	if os.Getenv("VERIF_C17_PROBE") != "S1" {
		t.Skip("VERIF_C17_PROBE != S1")
	}
	sim.Bubble(t, time.Second, func() {
		conf := &quic.Config{DisablePathMTUDiscovery: true, EnableStreamResetPartialDelivery: true}
		p := newProbeWorld(t, 100*ms, conf)
		str, err := p.sconn.OpenUniStream()
		if err != nil {
			t.Fatal(err)
		}
		str.Write([]byte("hello")) // makes the stream known to the client
		rs, err := p.cconn.AcceptUniStream(context.Background())
		if err != nil {
			t.Fatal(err)
		}
		time.Sleep(500 * ms)
		// t0: the client stops reading; STOP_SENDING reaches the server at t0+50ms
		go func() { rs.CancelRead(7) }()
		time.Sleep(40 * ms)
		// t0+40ms: the server writes a header; its ACK cannot be back before t0+140ms
		_, werr := str.Write(make([]byte, 3000)) // three STREAM frames in flight
		time.Sleep(20 * ms)
		// t0+60ms: STOP_SENDING has been processed. An application that marks its header as reliable now
		// ("Write(header); SetReliableBoundary()" racing with the peer's cancellation) re-arms reliableSize.
		str.SetReliableBoundary()
		t.Logf("Write = %v, stream context: %v; waiting for the ACK of the frame sent before STOP_SENDING ...", werr, context.Cause(str.Context()))
		time.Sleep(500 * ms)
		t.Logf("no panic: connection state %v", context.Cause(p.sconn.Context()))
		p.close()
	}, nil)
}
