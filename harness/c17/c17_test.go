package c17

import (
	"encoding/json"
	"fmt"
	"os"
	"sort"
	"strings"
	"testing"
	"time"

	"pgregory.net/rapid"

	"github.com/refraction-networking/uquic/verif/sim"
	"github.com/refraction-networking/uquic/verif/vf"
)

func TestMain(m *testing.M) { vf.Main(m) }

var curT *testing.T

func checkCase(c Case, u *vf.Unit) *vf.Verdict {
	normalize(&c)
	u.Journal(c)
	res := &result{}
	var v *vf.Verdict
	var leak *vf.Verdict
	func() {
		defer func() {
			// a bubble with goroutines left cannot end: synctest panics in the caller once the root function returns
			if p := recover(); p != nil {
				if leak != nil && strings.Contains(fmt.Sprint(p), "blocked goroutines remain") {
					return
				}
				panic(p)
			}
		}()
		sim.Bubble(curT, 30*time.Second, func() {
			runCase(c, res)
			v = judge(res, u)
			if v != nil && v.Trace == nil && res.w != nil {
				v.Trace = res.w.Router.Trace(300)
			}
		}, func(rep sim.LeakReport) {
			leak = vf.Bad("C17/resources/goroutines-left", "%d goroutines still alive 30 s (virtual) after listener, transports and network were closed:\n%s%s", rep.Count, rep.Dump, res.describe())
		})
	}()
	if v == nil {
		v = leak
	}
	if v != nil {
		return v
	}
	bookkeeping(c, res, u)
	return nil
}

func bookkeeping(c Case, r *result, u *vf.Unit) {
	u.Class("cause:" + c.Cause)
	u.Class("phase:" + c.Phase)
	blocked := 0
	var sets []string
	for _, e := range []*endpoint{r.C, r.S} {
		names := append([]string(nil), e.pendingAtCause...)
		sort.Strings(names)
		blocked += len(names)
		sets = append(sets, e.name+"["+strings.Join(names, "+")+"]")
		for _, n := range names {
			u.Class("blocked:" + n)
		}
		for _, cl := range e.calls {
			if cl.Name == "senddgram" && cl.Returned && cl.N >= 32 {
				u.Class("blocked:senddgram(queue full)")
			}
		}
		if e.conn != nil && e.didEnd {
			u.Class("end:" + c.Cause + ":" + errKindOf(e, c) + ":" + errKind(e.endErr))
		}
	}
	if r.dialDone && r.dialErr != nil {
		u.Class("dial:" + errKind(r.dialErr))
	}
	if r.forgeSkipped != "" {
		u.Class("forge-skipped:" + r.forgeSkipped)
	}
	if a := r.advIdle["c"]; a.seen && r.S.conn != nil {
		switch {
		case !a.present:
			u.Class("peer-without-max-idle-timeout:absent")
		case a.ms == 0:
			u.Class("peer-without-max-idle-timeout:zero")
		}
	}
	if r.forgeAfterKeyUpdate {
		u.Class("forge-after-key-update")
	}
	if c.Cause == "craft" {
		kind := c.ClientKind
		if kind == "" {
			kind = "transport"
		}
		u.Class("craft:client:" + kind)
		final := "local-close"
		for _, cr := range r.crafts {
			if cr.rec < 0 || len(r.log[cr.rec].Dlv) == 0 {
				continue
			}
			lb := "21..41"
			switch n := len0(cr); {
			case n < 17:
				lb = "6..16"
			case n < 21:
				lb = "17..20"
			case n == 42:
				lb = "42"
			case n > 42:
				lb = ">42"
			}
			switch {
			case cr.valid:
				final = "valid-reset"
				u.Class(fmt.Sprintf("craft:valid:to=%s:path=%s:len=%s", c.By, cr.path, lb))
				u.Class(fmt.Sprintf("craft:valid:len=%d", cr.Len))
				if cr.keyGen > 0 {
					u.Class("craft:valid:after-key-update:path=" + cr.path)
				}
				if len(cr.pending) >= 2 {
					u.Class("craft:valid:calls-blocked>=2")
				}
				for _, n := range cr.pending {
					u.Class("craft:valid:blocked:" + n)
				}
			case cr.subMin:
				// 17..20 bytes with the token in use: the outcome is observed (obs:below-minimum-reset-*), not judged
				u.Class(fmt.Sprintf("craft:below-minimum:path=%s", cr.path))
			default:
				u.Class(fmt.Sprintf("craft:ignored:token=%s:path=%s:len=%s", cr.tok, cr.path, lb))
			}
			if cr.note != "" {
				u.Class("craft:note:" + cr.note)
			}
		}
		u.Class("craft:final:" + final)
		if !r.subMinAccepted {
			for _, cr := range r.crafts {
				if cr.subMin && cr.rec >= 0 && len(r.log[cr.rec].Dlv) > 0 {
					u.Class("obs:below-minimum-reset-ignored:path=" + cr.path)
				}
			}
		}
	}
	if r.forgeName != "" {
		u.Class("forge:" + r.forgeName)
	}
	if c.DropCC > 0 && (c.Cause == "close" || c.Cause == "forge") {
		u.Class("close-lost")
	}
	if r.replayed > 0 {
		u.Class("replayed")
	}
	if c.TruncLen > 0 {
		for _, rec := range r.log {
			if rec.Mutated && strings.HasPrefix(rec.Fate, "truncated") {
				u.Class("short-header-truncated")
				if rec.Len > 0 {
					u.Class(fmt.Sprintf("short-header-truncated:below-cid=%v", c.TruncLen <= cidLenTo(c, rec.Dir)))
				}
			}
		}
	}
	if c.aliveGuaranteed() && c.AtMs >= 5*c.negIdle() {
		u.Class("keepalive-5-idle-periods")
	}
	u.Class(fmt.Sprintf("blocked-calls:%d", min(blocked, 6)))
	if (c.C.Mult > 1 && len(c.C.Blocked) > 0) || (c.S.Mult > 1 && len(c.S.Blocked) > 0) {
		u.Class("several-goroutines-in-one-call")
	}
	if blocked >= 2 {
		u.NonTrivial(c.Cause, c.By, c.Phase, strings.Join(sets, ""))
		if u.WantSample() {
			u.Sample(c)
		}
	}
}

func cidLenTo(c Case, dir string) int {
	if dir == "c2s" {
		return c.S.CIDLen
	}
	return c.C.CIDLen
}

func errKindOf(e *endpoint, c Case) string {
	if e.name == c.By {
		return "actor"
	}
	return "peer"
}

func TestEndMatrix(t *testing.T) {
	curT = t
	vf.ReplayRepeat = 40
	vf.RunRapid(t, "end-matrix", genCase, checkCase)
}

// TestCraftOnly runs the generator restricted to one cause (development aid: VERIF_C17_ONLY=craft [-rapid.checks=n]);
// violations are collected per signature and printed, the search goes on.
func TestCraftOnly(t *testing.T) {
	only := os.Getenv("VERIF_C17_ONLY")
	if only == "" {
		t.Skip("VERIF_C17_ONLY not set")
	}
	curT = t
	u := vf.U("dev-only") // (class counters end up in the -verif.stats file)
	sigs := map[string]int{}
	first := map[string]string{}
	n := 0
	rapid.Check(t, func(rt *rapid.T) {
		c := genCase(rt)
		if c.Cause != only {
			return
		}
		n++
		t0 := time.Now()
		defer func() {
			if d := time.Since(t0); d > 100*time.Millisecond && os.Getenv("VERIF_C17_SLOW") != "" {
				b, _ := json.Marshal(c)
				t.Logf("SLOW %v %s", d, b)
			}
		}()
		if v := vf.Guard("end-matrix", func() *vf.Verdict { return checkCase(c, u) }); v != nil {
			sigs[v.Sig]++
			if _, ok := first[v.Sig]; !ok {
				b, _ := json.Marshal(c)
				first[v.Sig] = string(b) + "\n" + v.Detail
			}
		}
	})
	t.Logf("%d cases of cause %s", n, only)
	for s, k := range sigs {
		t.Logf("VIOLATION %s x%d\n%s", s, k, first[s])
	}
}

// TestOne re-runs the case in the file named by VERIF_C17_CASE (development aid; skipped otherwise).
func TestOne(t *testing.T) {
	path := os.Getenv("VERIF_C17_CASE")
	if path == "" {
		t.Skip("VERIF_C17_CASE not set")
	}
	curT = t
	b, err := os.ReadFile(path)
	if err != nil {
		t.Fatal(err)
	}
	var c Case
	if err := json.Unmarshal(b, &c); err != nil {
		t.Fatal(err)
	}
	n := 20
	if s := os.Getenv("VERIF_C17_N"); s != "" {
		fmt.Sscan(s, &n)
	}
	bad := 0
	for i := 0; i < n; i++ {
		if v := vf.Guard("end-matrix", func() *vf.Verdict { return checkCase(c, vf.Scratch()) }); v != nil {
			bad++
			if bad <= 2 || os.Getenv("VERIF_C17_ALL") != "" {
				t.Logf("run %d: %s: %s", i, v.Sig, v.Detail)
			}
		}
	}
	t.Logf("%d of %d runs violated", bad, n)
}
