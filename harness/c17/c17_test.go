package c17

import (
	"encoding/json"
	"fmt"
	"os"
	"sort"
	"strings"
	"testing"
	"time"

	"github.com/refraction-networking/uquic/verif/sim"
	"github.com/refraction-networking/uquic/verif/vf"
)

func TestMain(m *testing.M) { vf.Main(m) }

var curT *testing.T

func checkCase(c Case, u *vf.Unit) *vf.Verdict {
	normalize(&c)
	u.Journal(c)
	res := &result{}
	var v *vf.Verdict
	var leak *vf.Verdict
	func() {
		defer func() {
			// a bubble with goroutines left cannot end: synctest panics in the caller once the root function returns
			if p := recover(); p != nil {
				if leak != nil && strings.Contains(fmt.Sprint(p), "blocked goroutines remain") {
					return
				}
				panic(p)
			}
		}()
		sim.Bubble(curT, 30*time.Second, func() {
			runCase(c, res)
			v = judge(res, u)
			if v != nil && v.Trace == nil && res.w != nil {
				v.Trace = res.w.Router.Trace(300)
			}
		}, func(rep sim.LeakReport) {
			leak = vf.Bad("C17/resources/goroutines-left", "%d goroutines still alive 30 s (virtual) after listener, transports and network were closed:\n%s%s", rep.Count, rep.Dump, res.describe())
		})
	}()
	if v == nil {
		v = leak
	}
	if v != nil {
		return v
	}
	bookkeeping(c, res, u)
	return nil
}

func bookkeeping(c Case, r *result, u *vf.Unit) {
	u.Class("cause:" + c.Cause)
	u.Class("phase:" + c.Phase)
	blocked := 0
	var sets []string
	for _, e := range []*endpoint{r.C, r.S} {
		names := append([]string(nil), e.pendingAtCause...)
		sort.Strings(names)
		blocked += len(names)
		sets = append(sets, e.name+"["+strings.Join(names, "+")+"]")
		for _, n := range names {
			u.Class("blocked:" + n)
		}
		for _, cl := range e.calls {
			if cl.Name == "senddgram" && cl.Returned && cl.N >= 32 {
				u.Class("blocked:senddgram(queue full)")
			}
		}
		if e.conn != nil && e.didEnd {
			u.Class("end:" + c.Cause + ":" + errKindOf(e, c) + ":" + errKind(e.endErr))
		}
	}
	if r.dialDone && r.dialErr != nil {
		u.Class("dial:" + errKind(r.dialErr))
	}
	if r.forgeSkipped != "" {
		u.Class("forge-skipped:" + r.forgeSkipped)
	}
	if a := r.advIdle["c"]; a.seen && r.S.conn != nil {
		switch {
		case !a.present:
			u.Class("peer-without-max-idle-timeout:absent")
		case a.ms == 0:
			u.Class("peer-without-max-idle-timeout:zero")
		}
	}
	if r.forgeAfterKeyUpdate {
		u.Class("forge-after-key-update")
	}
	if r.forgeName != "" {
		u.Class("forge:" + r.forgeName)
	}
	if c.DropCC > 0 && (c.Cause == "close" || c.Cause == "forge") {
		u.Class("close-lost")
	}
	if r.replayed > 0 {
		u.Class("replayed")
	}
	if c.TruncLen > 0 {
		for _, rec := range r.log {
			if rec.Mutated && strings.HasPrefix(rec.Fate, "truncated") {
				u.Class("short-header-truncated")
				if rec.Len > 0 {
					u.Class(fmt.Sprintf("short-header-truncated:below-cid=%v", c.TruncLen <= cidLenTo(c, rec.Dir)))
				}
			}
		}
	}
	if c.aliveGuaranteed() && c.AtMs >= 5*c.negIdle() {
		u.Class("keepalive-5-idle-periods")
	}
	u.Class(fmt.Sprintf("blocked-calls:%d", min(blocked, 6)))
	if (c.C.Mult > 1 && len(c.C.Blocked) > 0) || (c.S.Mult > 1 && len(c.S.Blocked) > 0) {
		u.Class("several-goroutines-in-one-call")
	}
	if blocked >= 2 {
		u.NonTrivial(c.Cause, c.By, c.Phase, strings.Join(sets, ""))
		if u.WantSample() {
			u.Sample(c)
		}
	}
}

func cidLenTo(c Case, dir string) int {
	if dir == "c2s" {
		return c.S.CIDLen
	}
	return c.C.CIDLen
}

func errKindOf(e *endpoint, c Case) string {
	if e.name == c.By {
		return "actor"
	}
	return "peer"
}

func TestEndMatrix(t *testing.T) {
	curT = t
	vf.ReplayRepeat = 40
	vf.RunRapid(t, "end-matrix", genCase, checkCase)
}

// TestOne re-runs the case in the file named by VERIF_C17_CASE (development aid; skipped otherwise).
func TestOne(t *testing.T) {
	path := os.Getenv("VERIF_C17_CASE")
	if path == "" {
		t.Skip("VERIF_C17_CASE not set")
	}
	curT = t
	b, err := os.ReadFile(path)
	if err != nil {
		t.Fatal(err)
	}
	var c Case
	if err := json.Unmarshal(b, &c); err != nil {
		t.Fatal(err)
	}
	n := 20
	if s := os.Getenv("VERIF_C17_N"); s != "" {
		fmt.Sscan(s, &n)
	}
	bad := 0
	for i := 0; i < n; i++ {
		if v := vf.Guard("end-matrix", func() *vf.Verdict { return checkCase(c, vf.Scratch()) }); v != nil {
			bad++
			if bad <= 2 || os.Getenv("VERIF_C17_ALL") != "" {
				t.Logf("run %d: %s: %s", i, v.Sig, v.Detail)
			}
		}
	}
	t.Logf("%d of %d runs violated", bad, n)
}
