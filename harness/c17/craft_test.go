//go:build go1.25

package c17

import (
	"bytes"
	"encoding/binary"
	"encoding/hex"
	"fmt"
	"os"
	"sort"
	"testing/synctest"
	"time"

	quic "github.com/refraction-networking/uquic"
	"github.com/refraction-networking/uquic/verif/refwire"
	"github.com/refraction-networking/uquic/verif/sim"
)

// ---- crafted stateless resets (cause "craft")

// craftRec is one crafted datagram as it was really built (what the wire offered decides token kind and routing).
type craftRec struct {
	Craft
	tok     string // token kind really used
	valid   bool   // RFC 9000 10.3 / 10.3.1: >= 21 bytes and the token of the connection ID the victim currently sends to
	subMin  bool   // right token, but shorter than 21 bytes
	path    string // "conn": routed to the connection (zero-length IDs, or the datagram carries one of its IDs) | "transport": unknown connection ID
	note    string
	rec     int // index in the log (-1 until resolved)
	keyGen  int // 1-RTT key generation of the last packet sent to the victim before the injection
	atInj   time.Duration
	pending []string
}

func splitmix64(s *uint64) uint64 {
	*s += 0x9e3779b97f4a7c15
	z := *s
	z = (z ^ (z >> 30)) * 0xbf58476d1ce4e5b9
	z = (z ^ (z >> 27)) * 0x94d049bb133111eb
	return z ^ (z >> 31)
}

// resetTokens returns what the victim's peer announced: the token of the connection ID the victim currently sends to
// (ok=false: none - zero-length ID, or the initial ID of a client, for which no token exists), tokens of announced
// IDs the victim never used, and tokens of IDs it used earlier and has left (retired).
func (r *result) resetTokens(victim string) (cur [16]byte, ok bool, unused, retired [][16]byte, curID []byte) {
	peer := r.peer(r.ep(victim)).name
	toks := r.tokenTable()[peer]
	r.tap.mu.Lock()
	defer r.tap.mu.Unlock()
	used := r.tap.usedDCID[dirFrom(victim)]
	last := r.tap.last1rtt[dirFrom(victim)]
	if last == nil {
		return
	}
	curHex := hex.EncodeToString(last.DCID)
	curID = last.DCID
	if len(last.DCID) > 0 {
		cur, ok = toks[curHex]
	}
	for id, tk := range toks {
		switch {
		case id == curHex:
		case has(used, id):
			retired = append(retired, tk)
		default:
			unused = append(unused, tk)
		}
	}
	sortTokens(unused)
	sortTokens(retired)
	return
}

// tokenTable is everything both sides announced so far: NEW_CONNECTION_ID frames, and the server's
// stateless_reset_token transport parameter, which belongs to the connection ID it chose during the handshake.
func (r *result) tokenTable() map[string]map[string][16]byte {
	out := map[string]map[string][16]byte{"c": {}, "s": {}}
	r.tap.mu.Lock()
	for side, m := range r.tap.tokens {
		for k, v := range m {
			out[side][k] = v
		}
	}
	scid := r.tap.srvSCID
	r.tap.mu.Unlock()
	if scid != nil {
		if ps, found := r.w.TransportParams(false); found {
			for _, p := range ps {
				if p.ID == refwire.TPStatelessResetToken && len(p.Value) == 16 {
					out["s"][hex.EncodeToString(scid)] = [16]byte(p.Value)
				}
			}
		}
	}
	return out
}

func sortTokens(t [][16]byte) {
	sort.Slice(t, func(i, j int) bool { return bytes.Compare(t[i][:], t[j][:]) < 0 })
}

// buildCraft makes the datagram. RFC 9000 10.3: first two bits 0 1, "the remainder of the first byte and an arbitrary
// number of bytes following it are set to values that SHOULD be indistinguishable from random", the last 16 bytes are
// the token.
func (r *result) buildCraft(victim string, cr Craft) (data []byte, out *craftRec) {
	out = &craftRec{Craft: cr, rec: -1, tok: cr.Tok}
	cur, ok, unused, retired, _ := r.resetTokens(victim)
	var tok [16]byte
	seed := cr.Seed
	kind := cr.Tok
	if !ok && kind != "random" {
		kind, out.note = "random", "no token known for the connection ID in use"
	}
	if kind == "unused" && len(unused) == 0 || kind == "retired" && len(retired) == 0 {
		kind = "flip"
	}
	switch kind {
	case "valid":
		tok = cur
	case "flip":
		tok = cur
		tok[cr.Bit/8] ^= 1 << (cr.Bit % 8)
	case "unused":
		tok = unused[int(cr.Seed%uint64(len(unused)))]
	case "retired":
		tok = retired[int(cr.Seed%uint64(len(retired)))]
	default:
		for i := 0; i < 16; i += 8 {
			binary.LittleEndian.PutUint64(tok[i:], splitmix64(&seed))
		}
	}
	n := max(cr.Len, 6)
	if kind == "valid" && n < 17 {
		kind = "partial"
	}
	out.tok = kind
	if os.Getenv("VERIF_C17_DEBUG") != "" {
		r.tap.mu.Lock()
		r.note("craft %+v: kind %s token %x; current %x (ok=%v) unused %x retired %x; used DCIDs %v; table %v", cr, kind, tok, cur, ok, unused, retired, r.tap.usedDCID, r.tap.tokens)
		r.tap.mu.Unlock()
	}
	data = make([]byte, n)
	for i := 0; i < n; i += 8 {
		var b [8]byte
		binary.LittleEndian.PutUint64(b[:], splitmix64(&seed))
		copy(data[i:], b[:])
	}
	data[0] = 0x40 | data[0]&0x3f
	// which connection IDs lead to the victim's connection: the one its peer currently sends to
	r.tap.mu.Lock()
	var vid []byte
	if p := r.tap.last1rtt[dirTo(victim)]; p != nil {
		vid = p.DCID
	}
	if p := r.tap.last1rtt[dirTo(victim)]; p != nil {
		out.keyGen = p.KeyGen
	}
	r.tap.mu.Unlock()
	vlen := r.c.C.CIDLen
	if victim == "s" {
		vlen = r.c.S.CIDLen
	}
	out.path = "transport"
	switch {
	case vlen == 0:
		out.path = "conn"
	case cr.Known && len(vid) == vlen && n >= 1+vlen+16:
		copy(data[1:], vid)
		out.path = "conn"
	}
	if n >= 16 {
		copy(data[n-16:], tok[:])
	} else {
		copy(data, tok[16-n:])
	}
	data[0] = 0x40 | data[0]&0x3f
	out.valid = kind == "valid" && n >= 21
	out.subMin = kind == "valid" && n < 21
	return data, out
}

func (r *result) injectCraft(i int, cr Craft) *craftRec {
	c := &r.c
	w := r.w
	data, rec := r.buildCraft(c.By, cr)
	from, to := sim.ClientAddr, sim.ServerAddr
	if c.By == "c" {
		from, to = sim.ServerAddr, sim.ClientAddr
	}
	rec.atInj = w.Router.Now()
	rec.pending = r.ep(c.By).pending()
	r.crafts = append(r.crafts, rec)
	w.Router.Inject(simDir(dirTo(c.By)), from, to, data, fmt.Sprintf("craft:%d", i))
	return rec
}

// doCraft injects the datagrams that must be ignored, then ends the case with a valid reset or a local close.
func (r *result) doCraft() {
	c := &r.c
	w := r.w
	e := r.ep(c.By)
	for i, cr := range c.Pre {
		r.injectCraft(i, cr)
		time.Sleep(time.Duration(max(cr.GapMs, 1)) * ms)
	}
	synctest.Wait()
	r.tCause = w.Router.Now()
	for _, x := range []*endpoint{r.C, r.S} {
		x.pendingAtCause = x.pending()
	}
	if !c.FinalClose {
		if rec := r.injectCraft(len(c.Pre), c.Final); rec.valid {
			return
		}
		// no token exists for the connection ID in use (a server facing zero-length client IDs): the datagram just
		// sent is one more to be ignored
		time.Sleep(ms)
		synctest.Wait()
		r.tCause = w.Router.Now()
	}
	if e.hasEnded() {
		return // (an ignored datagram ended the connection: the oracle reports it)
	}
	r.closer = e.name
	e.conn.CloseWithError(quic.ApplicationErrorCode(c.Code), c.Reason)
	r.causeAt = w.Router.Now()
}
