package c12

import (
	"context"
	"errors"
	"fmt"
	"io"
	"os"
	"regexp"
	"strconv"
	"strings"
	"sync"
	"time"

	quic "github.com/refraction-networking/uquic"
	"github.com/refraction-networking/uquic/verif/refwire"
	"github.com/refraction-networking/uquic/verif/sim"
	"github.com/refraction-networking/uquic/verif/vf"
)

// adv is what the client really advertised: the transport parameters of the observed ClientHello, parsed by refwire.
type adv struct {
	raw                                      []refwire.TransportParameter
	maxData, bidiLocal, bidiRemote, uni      uint64
	streamsBidi, streamsUni, cidLimit, dgram uint64
	idle                                     time.Duration
	hasIdle, hasCID, hasDgram                bool
}

func (a adv) window(typ string) uint64 {
	switch typ {
	case "uni":
		return a.uni
	case "bidi_remote":
		return a.bidiRemote
	case "bidi_local":
		return a.bidiLocal
	}
	return 0
}

func readAdv(ps []refwire.TransportParameter) adv {
	a := adv{raw: ps, cidLimit: 2} // RFC 9000 18.2: active_connection_id_limit defaults to 2, everything else used here to 0 / absent
	get := func(id uint64) (uint64, bool) { return sim.TPValue(ps, id) }
	a.maxData, _ = get(0x04)
	a.bidiLocal, _ = get(0x05)
	a.bidiRemote, _ = get(0x06)
	a.uni, _ = get(0x07)
	a.streamsBidi, _ = get(0x08)
	a.streamsUni, _ = get(0x09)
	if v, ok := get(0x0e); ok {
		a.cidLimit, a.hasCID = v, true
	}
	if v, ok := get(0x20); ok {
		a.dgram, a.hasDgram = v, true
	}
	if v, ok := get(0x01); ok {
		a.idle, a.hasIdle = time.Duration(v)*time.Millisecond, true
	}
	return a
}

type result struct {
	verdicts   []*vf.Verdict
	skip       string // why the scenario did not apply
	nontrivial string // non-empty: the case satisfies the non-triviality rule; the text is the relation
}

// env is one connection between the spec-driven client and the in-tree server.
type env struct {
	c      Case
	sc     Scenario
	w      *sim.World
	rtt    time.Duration
	ctx    context.Context
	cancel context.CancelFunc
	st, ct *quic.Transport
	ln     *quic.Listener
	cconn  *quic.Conn
	sconn  *quic.Conn
	adv    adv
	rec    *paramRecorder
	wg     sync.WaitGroup

	mu      sync.Mutex
	s2cEnds map[uint64]uint64 // highest stream offset the server put on the wire, per stream
}

// tap follows the server's STREAM frames as they are sent (called by the router for every datagram).
func (e *env) tap(dir sim.Dir, rec *sim.Record) {
	if dir != sim.S2C {
		return
	}
	pkts, _ := rec.Pkts.([]*sim.Packet)
	for _, p := range pkts {
		for i := range p.Frames {
			if f := &p.Frames[i]; f.Name == refwire.NameStream {
				e.mu.Lock()
				if end := f.Offset + uint64(len(f.Data)); end > e.s2cEnds[f.StreamID] {
					e.s2cEnds[f.StreamID] = end
				}
				e.mu.Unlock()
			}
		}
	}
}

// dumpFrames prints the 1-RTT frames of both directions (development aid, VERIF_C12_DEBUG).
func (e *env) dumpFrames() {
	for _, d := range []string{"s2c", "c2s"} {
		e.frames(d, func(rec *sim.Record, p *sim.Packet, f *refwire.Frame) {
			if p.Kind == "1rtt" && f.Name != refwire.NameAck && f.Name != refwire.NamePadding {
				fmt.Printf("%s #%d t=%v pn=%d %s stream=%d off=%d len=%d fin=%v max=%d\n", d, rec.Seq, rec.T, p.PN, f.Name, f.StreamID, f.Offset, len(f.Data), f.Fin, f.Max)
			}
		})
	}
}

// serverSent is the number of distinct stream bytes the server has put on the wire so far.
func (e *env) serverSent() (total uint64) {
	e.mu.Lock()
	defer e.mu.Unlock()
	for _, v := range e.s2cEnds {
		total += v
	}
	return
}

const stallTimeout = 8 * time.Second // a Read that sees no byte for this long in a lossless network is a stall

func relation(advertised, configured uint64) string {
	switch {
	case advertised > configured:
		return "adv>cfg"
	case advertised < configured:
		return "adv<cfg"
	}
	return "adv=cfg"
}

func (e *env) trace() any { return e.w.Router.Trace(120) }

func (e *env) bad(sig, f string, a ...any) *vf.Verdict {
	v := vf.Bad(sig, f, a...)
	v.Trace = e.trace()
	return v
}

// setup builds the spec, starts the server, dials, and reads what the client advertised.
func setup(c Case, sc Scenario) (*env, *vf.Verdict) {
	spec, err := c.Spec.Build()
	if err != nil {
		return nil, vf.Bad(sigHarness, "spec build: %v", err)
	}
	e := &env{c: c, sc: sc, rtt: time.Duration(c.RTTms) * time.Millisecond}
	e.w = sim.NewWorld(e.rtt, nil, nil, nil)
	e.w.Observe()
	e.s2cEnds = map[uint64]uint64{}
	e.w.Router.Tap = e.tap
	e.st = &quic.Transport{Conn: e.w.ServerConn, ConnectionIDLength: c.Srv.CIDLen}
	sconf := &quic.Config{DisablePathMTUDiscovery: true, MaxIdleTimeout: time.Duration(c.Srv.IdleMs) * time.Millisecond,
		HandshakeIdleTimeout: 10 * time.Second, EnableDatagrams: true, MaxIncomingStreams: 1000, MaxIncomingUniStreams: 1000}
	e.ln, err = e.st.Listen(sim.ServerTLS(false, e.w.ServerKeys), sconf)
	if err != nil {
		e.st.Close()
		e.w.Close()
		return nil, vf.Bad(sigHarness, "listen: %v", err)
	}
	e.ctx, e.cancel = context.WithCancel(context.Background())
	accepted := make(chan *quic.Conn, 1)
	e.wg.Add(1)
	go func() {
		defer e.wg.Done()
		conn, err := e.ln.Accept(e.ctx)
		if err == nil {
			accepted <- conn
		}
	}()
	e.ct = &quic.Transport{Conn: e.w.ClientConn}
	ut := &quic.UTransport{Transport: e.ct, QUICSpec: spec}
	e.rec = &paramRecorder{}
	cconf := c.Cfg.quic()
	cconf.Tracer = e.rec.tracer
	dctx, dcancel := context.WithTimeout(e.ctx, 20*time.Second)
	e.cconn, err = ut.Dial(dctx, sim.ServerAddr, sim.ClientTLS(e.w.ClientKeys), cconf)
	dcancel()
	if ps, ok := e.w.TransportParams(true); ok {
		e.adv = readAdv(ps)
	} else if err == nil {
		err = errors.New("the observer could not read the client's transport parameters")
	}
	if err != nil {
		v := e.classify(err, "dial")
		if v.Sig == sigUnexpected {
			v.Sig = sigHarness
		}
		e.teardown()
		return nil, v
	}
	select {
	case e.sconn = <-accepted:
	case <-time.After(10 * time.Second):
		v := e.bad(sigHarness, "the server did not accept the connection within 10 s of the client's Dial returning (client state: %v)", context.Cause(e.cconn.Context()))
		if cause := context.Cause(e.cconn.Context()); cause != nil {
			v = e.classify(cause, "waiting for the server's Accept")
		}
		e.teardown()
		return nil, v
	}
	return e, nil
}

func (e *env) teardown() {
	if e.cconn != nil {
		e.cconn.CloseWithError(0, "")
	}
	if e.sconn != nil {
		e.sconn.CloseWithError(0, "")
	}
	e.cancel()
	e.ln.Close()
	e.st.Close()
	e.ct.Close()
	e.wg.Wait()
	e.w.Close()
}

// ---- wire queries ----

func (e *env) frames(dir string, f func(rec *sim.Record, p *sim.Packet, fr *refwire.Frame)) {
	for _, rec := range e.w.Router.Trace(1 << 30) {
		if rec.Dir != dir {
			continue
		}
		pkts, _ := rec.Pkts.([]*sim.Packet)
		for _, p := range pkts {
			for i := range p.Frames {
				f(rec, p, &p.Frames[i])
			}
		}
	}
}

// lastDelivery returns the latest virtual time at which a datagram of the direction was handed to its receiver.
func (e *env) lastDelivery(dir string) time.Duration {
	var last time.Duration
	for _, rec := range e.w.Router.Trace(1 << 30) {
		if rec.Dir != dir {
			continue
		}
		for _, d := range rec.Dlv {
			if d > last {
				last = d
			}
		}
	}
	return last
}

// sentBetween counts datagrams sent by either endpoint in (from, to].
func (e *env) sentBetween(from, to time.Duration) int {
	n := 0
	for _, rec := range e.w.Router.Trace(1 << 30) {
		if rec.T > from && rec.T <= to {
			n++
		}
	}
	return n
}

// grantedStream is the largest limit the client ever put on the wire for a stream the peer sends on.
func (e *env) grantedStream(id uint64) uint64 {
	var lim uint64
	switch {
	case id&2 != 0:
		lim = e.adv.uni
	case id&1 == 0: // client-initiated bidirectional
		lim = e.adv.bidiLocal
	default:
		lim = e.adv.bidiRemote
	}
	e.frames("c2s", func(_ *sim.Record, _ *sim.Packet, f *refwire.Frame) {
		if f.Name == refwire.NameMaxStreamData && f.StreamID == id && f.Max > lim {
			lim = f.Max
		}
	})
	return lim
}

func (e *env) grantedConn() uint64 {
	lim := e.adv.maxData
	e.frames("c2s", func(_ *sim.Record, _ *sim.Packet, f *refwire.Frame) {
		if f.Name == refwire.NameMaxData && f.Max > lim {
			lim = f.Max
		}
	})
	return lim
}

func (e *env) grantedStreams(uni bool) uint64 {
	lim := e.adv.streamsBidi
	if uni {
		lim = e.adv.streamsUni
	}
	e.frames("c2s", func(_ *sim.Record, _ *sim.Packet, f *refwire.Frame) {
		if f.Name == refwire.NameMaxStreams && f.Bidi == !uni && f.Max > lim {
			lim = f.Max
		}
	})
	return lim
}

// lastBlocked reports which *_BLOCKED frame the peer sent last ("" if none).
func (e *env) lastBlocked() (name string, at uint64) {
	e.frames("s2c", func(_ *sim.Record, _ *sim.Packet, f *refwire.Frame) {
		if f.Name == refwire.NameDataBlocked || f.Name == refwire.NameStreamDataBlocked {
			name, at = f.Name, f.Max
		}
	})
	return
}

// ---- classification of a client-side failure ----

var (
	reFCStream = regexp.MustCompile(`received (\d+) bytes on stream (\d+), allowed (\d+) bytes`)
	reFCConn   = regexp.MustCompile(`received (\d+) bytes for the connection, allowed (\d+) bytes`)
	reStreamID = regexp.MustCompile(`peer tried to open stream (\d+)`)
)

func atoi(s string) uint64 { v, _ := strconv.ParseUint(s, 10, 64); return v }

// classify turns an error seen by the client (context cause, or the error of an API call) into a verdict.
// A locally generated transport error is attributed to the client only if the wire shows that the peer
// stayed within what the client had granted.
func (e *env) classify(err error, what string) *vf.Verdict {
	if e.cconn != nil {
		if cause := context.Cause(e.cconn.Context()); cause != nil && !errors.Is(cause, context.Canceled) {
			err = cause
		}
	}
	now := e.w.Router.Now()
	var te *quic.TransportError
	var ie *quic.IdleTimeoutError
	switch {
	case errors.As(err, &te) && !te.Remote:
		msg := te.ErrorMessage
		switch te.ErrorCode {
		case quic.FlowControlError:
			if m := reFCConn.FindStringSubmatch(msg); m != nil {
				got, granted := atoi(m[1]), e.grantedConn()
				if got <= granted {
					return e.bad(sigConnWindow, "%s: client closed with %v, but it had granted %d bytes for the connection on the wire (initial_max_data %d) and the peer had sent %d; Config.InitialConnectionReceiveWindow is %d", what, err, granted, e.adv.maxData, got, e.c.Cfg.effConnWin())
				}
				return e.bad(sigUnexpected, "%s: %v - the peer really exceeded the connection credit %d", what, err, granted)
			}
			if m := reFCStream.FindStringSubmatch(msg); m != nil {
				got, id := atoi(m[1]), atoi(m[2])
				granted := e.grantedStream(id)
				if got <= granted {
					return e.bad(sigStreamWindow, "%s: client closed with %v, but it had granted %d bytes for stream %d on the wire (initial_max_stream_data: bidi_local %d, bidi_remote %d, uni %d) and the peer had sent %d; Config.InitialStreamReceiveWindow is %d", what, err, granted, id, e.adv.bidiLocal, e.adv.bidiRemote, e.adv.uni, got, e.c.Cfg.effStreamWin())
				}
				return e.bad(sigUnexpected, "%s: %v - the peer really exceeded the stream credit %d", what, err, granted)
			}
		case quic.StreamLimitError:
			if m := reStreamID.FindStringSubmatch(msg); m != nil {
				id := atoi(m[1])
				uni := id&2 != 0
				num, granted := id>>2+1, e.grantedStreams(uni)
				if num <= granted {
					sig, cfgv := sigBidiCount, effCount(e.c.Cfg.Streams)
					if uni {
						sig, cfgv = sigUniCount, effCount(e.c.Cfg.UniStreams)
					}
					return e.bad(sig, "%s: client closed with %v when the peer opened its stream number %d, but the client had granted %d streams of that type on the wire (initial_max_streams: bidi %d, uni %d); the Config limit is %d", what, err, num, granted, e.adv.streamsBidi, e.adv.streamsUni, cfgv)
				}
				return e.bad(sigUnexpected, "%s: %v - the peer really exceeded the stream limit %d", what, err, granted)
			}
		case quic.ConnectionIDLimitError:
			issued := map[uint64]bool{}
			e.frames("s2c", func(_ *sim.Record, _ *sim.Packet, f *refwire.Frame) {
				if f.Name == refwire.NameNewConnectionID {
					issued[f.SeqNum] = true
				}
			})
			if uint64(len(issued))+1 <= e.adv.cidLimit {
				return e.bad(sigCIDLimit, "%s: client closed with %v after the peer issued %d NEW_CONNECTION_ID frames (sequence numbers %v) under an advertised active_connection_id_limit of %d", what, err, len(issued), keys(issued), e.adv.cidLimit)
			}
			return e.bad(sigUnexpected, "%s: %v - the peer issued %d connection IDs, limit %d", what, err, len(issued), e.adv.cidLimit)
		case quic.FrameEncodingError, quic.ProtocolViolation:
			// DATAGRAM frames within the advertised size?
			var n, within int
			e.frames("s2c", func(_ *sim.Record, _ *sim.Packet, f *refwire.Frame) {
				if f.Name == refwire.NameDatagram {
					n++
					if uint64(f.WireLen) <= e.adv.dgram {
						within++
					}
				}
			})
			if n > 0 && n == within && (te.FrameType == 0x30 || te.FrameType == 0x31 || strings.Contains(strings.ToLower(msg), "datagram") || !e.c.Cfg.Datagrams) {
				return e.bad(sigDgramOff, "%s: client closed with %v (frame type %#x) after the peer sent %d DATAGRAM frames, all within the advertised max_datagram_frame_size %d; Config.EnableDatagrams is %v", what, err, te.FrameType, n, e.adv.dgram, e.c.Cfg.Datagrams)
			}
		}
		return e.bad(sigLocalOther, "%s: client closed with locally generated %v (code %#x, frame type %#x)", what, err, uint64(te.ErrorCode), te.FrameType)
	case errors.As(err, &ie):
		last := e.lastDelivery("s2c")
		if e.adv.hasIdle && e.adv.idle > 0 && now-last < e.adv.idle {
			return e.bad(sigIdle, "%s: client reports %v at t=%v, only %v after the last datagram was delivered to it (t=%v); it advertised max_idle_timeout %v (peer's own %v), Config.MaxIdleTimeout is %v", what, err, now, now-last, last, e.adv.idle, time.Duration(e.c.Srv.IdleMs)*time.Millisecond, e.c.Cfg.effIdle())
		}
		return e.bad(sigUnexpected, "%s: client reports %v at t=%v, %v after the last datagram was delivered to it (advertised idle timeout %v, present %v)", what, err, now, now-last, e.adv.idle, e.adv.hasIdle)
	}
	return e.bad(sigUnexpected, "%s: %v (%T)", what, err, err)
}

func keys(m map[uint64]bool) []uint64 {
	var k []uint64
	for x := range m {
		k = append(k, x)
	}
	return k
}

// alive returns a verdict if the client's connection has failed.
func (e *env) alive(what string) *vf.Verdict {
	if cause := context.Cause(e.cconn.Context()); cause != nil {
		return e.classify(cause, what)
	}
	return nil
}

// ---- data helpers ----

func fill(b []byte, off, seed uint64) {
	for i := range b {
		x := (off + uint64(i)) * 0x9E3779B97F4A7C15
		b[i] = byte(x>>56) ^ byte(x>>24) ^ byte(seed)
	}
}

func writePattern(w io.Writer, seed, from, n uint64) error {
	buf := make([]byte, 32<<10)
	for n > 0 {
		k := uint64(len(buf))
		if n < k {
			k = n
		}
		fill(buf[:k], from, seed)
		if _, err := w.Write(buf[:k]); err != nil {
			return err
		}
		from += k
		n -= k
	}
	return nil
}

type deadlineReader interface {
	io.Reader
	SetReadDeadline(time.Time) error
}

// readVerify reads exactly n pattern bytes starting at offset from, then (if eof) expects the end of the stream.
// Every Read gets stallTimeout of virtual time.
func readVerify(r deadlineReader, seed, from, n uint64, eof bool) (got uint64, err error) {
	buf := make([]byte, 32<<10)
	want := make([]byte, 32<<10)
	sawEOF := false
	for got < n {
		k := uint64(len(buf))
		if n-got < k {
			k = n - got
		}
		r.SetReadDeadline(time.Now().Add(stallTimeout))
		m, rerr := r.Read(buf[:k])
		if m > 0 {
			fill(want[:m], from+got, seed)
			for i := 0; i < m; i++ {
				if buf[i] != want[i] {
					return got + uint64(i), fmt.Errorf("byte at offset %d is %#x, the peer wrote %#x", from+got+uint64(i), buf[i], want[i])
				}
			}
			got += uint64(m)
		}
		if rerr != nil {
			if rerr == io.EOF && got == n {
				sawEOF = true
				break
			}
			return got, rerr
		}
	}
	if eof && !sawEOF {
		r.SetReadDeadline(time.Now().Add(stallTimeout))
		m, rerr := r.Read(buf[:1])
		if m != 0 || rerr != io.EOF {
			return got + uint64(m), fmt.Errorf("expected the end of the stream after %d bytes, got %d more bytes and error %v", n, m, rerr)
		}
	}
	return got, nil
}

// drainFailure classifies a failed drain: local errors first, then a stall (the peer blocked on credit the client
// never extended), then anything else.
func (e *env) drainFailure(what string, got, want uint64, err error) *vf.Verdict {
	if cause := context.Cause(e.cconn.Context()); cause != nil {
		var te *quic.TransportError
		if errors.As(cause, &te) && !te.Remote {
			return e.classify(cause, what)
		}
	}
	if name, at := e.lastBlocked(); name != "" && got < want {
		sig := sigStallStream
		if name == refwire.NameDataBlocked {
			sig = sigStallConn
		}
		return e.bad(sig, "%s: the application read %d of %d bytes and then nothing for %v (error %v; connection state %v): the peer is blocked (last %s at %d) on credit the client never extended. Advertised: initial_max_data %d, stream windows bidi_local %d bidi_remote %d uni %d; granted on the wire at the end: connection %d; Config windows: stream %d, connection %d",
			what, got, want, stallTimeout, err, context.Cause(e.cconn.Context()), name, at, e.adv.maxData, e.adv.bidiLocal, e.adv.bidiRemote, e.adv.uni, e.grantedConn(), e.c.Cfg.effStreamWin(), e.c.Cfg.effConnWin())
	}
	if cause := context.Cause(e.cconn.Context()); cause != nil {
		return e.classify(cause, what)
	}
	return e.bad(sigIncomplete, "%s: read %d of %d bytes: %v", what, got, want, err)
}

// ---- stream plumbing ----

type sendSide interface {
	io.Writer
	Close() error
}

// serverStream gets the server's sending side of the i-th stream of a type: opened by the server (uni,
// bidi_remote) or accepted from the client (bidi_local; the client wrote one byte to announce it).
func (e *env) serverStream(typ string) (sendSide, error) {
	ctx, cancel := context.WithTimeout(e.ctx, 10*time.Second)
	defer cancel()
	switch typ {
	case "uni":
		return e.sconn.OpenUniStreamSync(ctx)
	case "bidi_remote":
		return e.sconn.OpenStreamSync(ctx)
	default:
		s, err := e.sconn.AcceptStream(ctx)
		if err != nil {
			return nil, err
		}
		var b [1]byte
		if _, err := io.ReadFull(s, b[:]); err != nil {
			return nil, err
		}
		return s, nil
	}
}

// clientAnnounce opens a client-initiated bidirectional stream and announces it with one byte.
func (e *env) clientAnnounce() (*quic.Stream, error) {
	ctx, cancel := context.WithTimeout(e.ctx, 10*time.Second)
	defer cancel()
	s, err := e.cconn.OpenStreamSync(ctx)
	if err != nil {
		return nil, err
	}
	if _, err := s.Write([]byte{'x'}); err != nil {
		return nil, err
	}
	return s, nil
}

func (e *env) clientAccept(typ string) (deadlineReader, error) {
	ctx, cancel := context.WithTimeout(e.ctx, 10*time.Second)
	defer cancel()
	if typ == "uni" {
		return e.cconn.AcceptUniStream(ctx)
	}
	return e.cconn.AcceptStream(ctx)
}

// ping proves that the connection still works in the client-to-server direction (which only uses the server's limits).
func (e *env) ping(what string) *vf.Verdict {
	ctx, cancel := context.WithTimeout(e.ctx, 10*time.Second)
	defer cancel()
	got := make(chan error, 1)
	e.wg.Add(1)
	go func() {
		defer e.wg.Done()
		s, err := e.sconn.AcceptStream(ctx)
		if err != nil {
			got <- err
			return
		}
		b, err := io.ReadAll(s)
		if err == nil && string(b) != "c12-ping" {
			err = fmt.Errorf("server read %q", b)
		}
		s.Close()
		got <- err
	}()
	s, err := e.cconn.OpenStreamSync(ctx)
	if err == nil {
		_, err = s.Write([]byte("c12-ping"))
		s.Close()
	}
	if err != nil {
		cancel()
		<-got
		return e.classify(err, what+": client could not send after the scenario")
	}
	if err := <-got; err != nil {
		if v := e.alive(what); v != nil {
			return v
		}
		return e.bad(sigIncomplete, "%s: the server did not receive the client's message after the scenario: %v", what, err)
	}
	return e.alive(what)
}

// ---- scenarios ----

func runScenario(c Case, sc Scenario, u *vf.Unit) (res result) {
	e, v := setup(c, sc)
	if v != nil {
		res.verdicts = append(res.verdicts, v)
		return
	}
	if v := e.checkRecord(u); v != nil {
		res.verdicts = append(res.verdicts, v)
	}
	var r result
	switch sc.Kind {
	case "stream":
		r = e.scenStream(u)
	case "conn":
		r = e.scenConn(u)
	case "count":
		r = e.scenCount(u)
	case "cid":
		r = e.scenCID(u)
	case "dgram":
		r = e.scenDgram(u)
	case "idle":
		r = e.scenIdle(u)
	default:
		r.skip = "unknown-kind"
	}
	e.teardown()
	res.verdicts = append(res.verdicts, r.verdicts...)
	res.skip, res.nontrivial = r.skip, r.nontrivial
	return
}

func one(v *vf.Verdict) result { return result{verdicts: []*vf.Verdict{v}} }

type planned struct {
	typ    string
	amount uint64
	seed   uint64
}

// transfer runs the slow-reader pattern on a set of streams: the server writes plan[i].amount on each while the
// client application reads nothing; then the client drains everything while the server writes extra more bytes on
// the last stream and closes all of them.
func (e *env) transfer(what string, plan []planned, extra uint64) *vf.Verdict {
	nLocal := 0
	for _, p := range plan {
		if p.typ == "bidi_local" {
			nLocal++
		}
	}
	// client-initiated streams first (their order of creation is the order the server accepts them in)
	var localStreams []*quic.Stream
	for i := 0; i < nLocal; i++ {
		s, err := e.clientAnnounce()
		if err != nil {
			return e.classify(err, what+": client could not open a stream")
		}
		localStreams = append(localStreams, s)
	}
	type srvRes struct {
		phase string
		err   error
	}
	boundary := make(chan srvRes, 1)
	done := make(chan srvRes, 1)
	proceed := make(chan struct{})
	e.wg.Add(1)
	go func() {
		defer e.wg.Done()
		streams := make([]sendSide, len(plan))
		for i, p := range plan {
			s, err := e.serverStream(p.typ)
			if err != nil {
				r := srvRes{fmt.Sprintf("getting stream #%d (%s)", i, p.typ), err}
				boundary <- r
				done <- r
				return
			}
			streams[i] = s
		}
		errs := make([]error, len(plan))
		var wg sync.WaitGroup
		for i := range plan {
			wg.Add(1)
			go func(i int) {
				defer wg.Done()
				errs[i] = writePattern(streams[i], plan[i].seed, 0, plan[i].amount)
			}(i)
		}
		wg.Wait()
		for i, err := range errs {
			if err != nil {
				r := srvRes{fmt.Sprintf("writing %d bytes on stream #%d (%s)", plan[i].amount, i, plan[i].typ), err}
				boundary <- r
				done <- r
				return
			}
		}
		boundary <- srvRes{}
		select {
		case <-proceed:
		case <-e.ctx.Done():
			done <- srvRes{"waiting", e.ctx.Err()}
			return
		}
		last := len(plan) - 1
		for _, s := range streams[:last] {
			s.Close()
		}
		var err error
		if extra > 0 {
			err = writePattern(streams[last], plan[last].seed, plan[last].amount, extra)
		}
		streams[last].Close()
		done <- srvRes{"writing the extra bytes", err}
	}()
	// the client application reads nothing until the peer has written everything
	var total uint64
	for _, p := range plan {
		total += p.amount
	}
	select {
	case r := <-boundary:
		if r.err != nil {
			if os.Getenv("VERIF_C12_DEBUG") != "" {
				e.dumpFrames()
			}
			if v := e.alive(what + ": while the peer was " + r.phase + " and the client application read nothing"); v != nil {
				return v
			}
			return e.bad(sigUnexpected, "%s: server failed %s: %v", what, r.phase, r.err)
		}
	case <-time.After(3600 * time.Second):
		if os.Getenv("VERIF_C12_DEBUG") != "" {
			e.dumpFrames()
		}
		if v := e.alive(what); v != nil {
			return v
		}
		return e.bad(sigOpenBlocked, "%s: the peer could not write %d bytes within the advertised limits in an hour of virtual time (plan %v)", what, total, plan)
	}
	// Write returns as soon as the last (small) piece is buffered: wait until everything is on the wire
	for wait := time.Millisecond; e.serverSent() < total; wait *= 2 {
		if wait > 20*time.Second {
			if v := e.alive(what); v != nil {
				return v
			}
			return e.bad(sigOpenBlocked, "%s: the peer put only %d of the %d bytes on the wire although they are within the advertised limits (plan %v)", what, e.serverSent(), total, plan)
		}
		time.Sleep(wait)
	}
	time.Sleep(e.rtt + 100*time.Millisecond)
	if v := e.alive(what + ": after the peer wrote exactly the advertised credit and the client application read nothing"); v != nil {
		return v
	}
	close(proceed)
	// drain
	readers := make([]deadlineReader, len(plan))
	li := 0
	for i, p := range plan {
		if p.typ == "bidi_local" {
			readers[i] = localStreams[li]
			li++
			continue
		}
		r, err := e.clientAccept(p.typ)
		if err != nil {
			if v := e.alive(what); v != nil {
				return v
			}
			return e.bad(sigIncomplete, "%s: the client application was not offered stream #%d (%s) on which the peer wrote %d bytes: %v", what, i, p.typ, p.amount, err)
		}
		readers[i] = r
	}
	type rd struct {
		got uint64
		err error
	}
	out := make([]rd, len(plan))
	var wg sync.WaitGroup
	for i := range plan {
		wg.Add(1)
		go func(i int) {
			defer wg.Done()
			n := plan[i].amount
			if i == len(plan)-1 {
				n += extra
			}
			out[i].got, out[i].err = readVerify(readers[i], plan[i].seed, 0, n, true)
		}(i)
	}
	wg.Wait()
	for j := range out {
		i := (j + len(out) - 1) % len(out) // the stream that carries the extra bytes first
		o := out[i]
		n := plan[i].amount
		if i == len(plan)-1 {
			n += extra
		}
		if o.err != nil {
			return e.drainFailure(fmt.Sprintf("%s: draining stream #%d (%s; boundary %d, extra %d)", what, i, plan[i].typ, plan[i].amount, n-plan[i].amount), o.got, n, o.err)
		}
	}
	select {
	case r := <-done:
		if r.err != nil {
			if v := e.alive(what); v != nil {
				return v
			}
			return e.bad(sigUnexpected, "%s: server failed %s: %v", what, r.phase, r.err)
		}
	case <-time.After(60 * time.Second):
		return e.bad(sigUnexpected, "%s: the server did not finish although the client read everything", what)
	}
	for _, s := range localStreams {
		s.Close()
	}
	if os.Getenv("VERIF_C12_DEBUG") == "2" {
		e.dumpFrames()
	}
	return e.alive(what)
}

func (e *env) streamAvailable(typ string, already int) bool {
	switch typ {
	case "uni":
		return e.adv.streamsUni > uint64(already)
	case "bidi_remote":
		return e.adv.streamsBidi > uint64(already)
	}
	return true
}

// extra bounds the bytes written beyond the boundary: they flow at one window per round trip at worst, and a
// window of a few bytes would otherwise cost hundreds of thousands of round trips.
func (e *env) extra(window uint64) uint64 {
	return min(uint64(e.sc.Extra), 256*max(window, 1))
}

func (e *env) scenStream(u *vf.Unit) result {
	typ := e.sc.Type
	w := e.adv.window(typ)
	target := min(w, e.adv.maxData)
	switch {
	case !e.streamAvailable(typ, 0):
		return result{skip: "no-stream-credit"}
	case target == 0:
		return result{skip: "no-data-credit"}
	case target > 64<<20:
		return result{skip: "too-big"}
	}
	what := fmt.Sprintf("stream window %s (advertised %d, initial_max_data %d)", typ, w, e.adv.maxData)
	if v := e.transfer(what, []planned{{typ, target, e.c.Seed}}, e.extra(target)); v != nil {
		return one(v)
	}
	rel := relation(w, e.c.Cfg.effStreamWin())
	u.Class("stream:" + typ + ":" + rel)
	if e.sc.Extra > 0 {
		u.Class("stream:with-extra:" + rel)
	}
	if w <= e.adv.maxData && rel != "adv=cfg" {
		return result{nontrivial: rel}
	}
	return result{}
}

func (e *env) scenConn(u *vf.Unit) result {
	if e.adv.maxData == 0 {
		return result{skip: "no-data-credit"}
	}
	if e.adv.maxData > 64<<20 {
		return result{skip: "too-big"}
	}
	remaining := e.adv.maxData
	used := map[string]int{}
	var plan []planned
	add := func(typ string, share int, all bool) {
		w := e.adv.window(typ)
		if w == 0 || remaining == 0 || !e.streamAvailable(typ, used[typ]) {
			return
		}
		amt := w
		if !all {
			amt = max(1, w*uint64(share)/1000)
		}
		amt = min(amt, remaining)
		used[typ]++
		remaining -= amt
		plan = append(plan, planned{typ, amt, e.c.Seed + uint64(len(plan))*7919})
	}
	for i, typ := range e.sc.Types {
		add(typ, e.sc.Shares[i], i == len(e.sc.Types)-1)
	}
	for i := 0; remaining > 0 && len(plan) < 12 && i < 36; i++ {
		add(streamTypes[i%3], 1000, true)
	}
	if len(plan) == 0 {
		return result{skip: "no-stream-usable"}
	}
	sum := e.adv.maxData - remaining
	what := fmt.Sprintf("connection window (initial_max_data %d; %d streams carrying %d bytes)", e.adv.maxData, len(plan), sum)
	if v := e.transfer(what, plan, e.extra(min(e.adv.window(plan[len(plan)-1].typ), e.adv.maxData))); v != nil {
		return one(v)
	}
	rel := relation(e.adv.maxData, e.c.Cfg.effConnWin())
	u.Class("conn:" + rel)
	if remaining == 0 {
		u.Class("conn:reached-limit")
	}
	if e.sc.Extra > 0 {
		u.Class("conn:with-extra:" + rel)
	}
	if float64(sum) >= 0.95*float64(e.adv.maxData) && rel != "adv=cfg" {
		return result{nontrivial: rel}
	}
	return result{}
}

func (e *env) scenCount(u *vf.Unit) result {
	uni := e.sc.Type == "uni"
	n, cfgv, wtyp := e.adv.streamsBidi, effCount(e.c.Cfg.Streams), "bidi_remote"
	if uni {
		n, cfgv, wtyp = e.adv.streamsUni, effCount(e.c.Cfg.UniStreams), "uni"
	}
	switch {
	case n == 0:
		return result{skip: "zero"}
	case n > 2000:
		return result{skip: "too-many"}
	}
	withData := e.adv.window(wtyp) >= 1 && e.adv.maxData >= n
	what := fmt.Sprintf("stream count %s (advertised %d)", e.sc.Type, n)
	type srvRes struct {
		idx int
		err error
	}
	opened := make(chan srvRes, 1)
	closeAll := make(chan struct{})
	e.wg.Add(1)
	go func() {
		defer e.wg.Done()
		var streams []sendSide
		for i := 0; i < int(n); i++ {
			ctx, cancel := context.WithTimeout(e.ctx, 5*time.Second)
			var s sendSide
			var err error
			if uni {
				s, err = e.sconn.OpenUniStreamSync(ctx)
			} else {
				s, err = e.sconn.OpenStreamSync(ctx)
			}
			cancel()
			if err == nil {
				if withData {
					_, err = s.Write([]byte{byte(i)})
					if err == nil && i == 0 && e.sc.Lag {
						err = s.Close() // the first stream is complete at once: the lagging application finishes it early
					}
				} else {
					err = s.Close()
				}
			}
			if err != nil {
				opened <- srvRes{i, err}
				return
			}
			streams = append(streams, s)
		}
		opened <- srvRes{int(n), nil}
		select {
		case <-closeAll:
		case <-e.ctx.Done():
		}
		for _, s := range streams {
			s.Close()
		}
	}()
	r := <-opened
	if r.err != nil {
		close(closeAll)
		if v := e.alive(fmt.Sprintf("%s: while the peer was opening its stream number %d", what, r.idx+1)); v != nil {
			return one(v)
		}
		if errors.Is(r.err, context.DeadlineExceeded) {
			return one(e.bad(sigOpenBlocked, "%s: the peer's OpenStreamSync for stream number %d blocked for 5 s although the client advertised %d", what, r.idx+1, n))
		}
		return one(e.bad(sigUnexpected, "%s: server failed at stream number %d: %v", what, r.idx+1, r.err))
	}
	time.Sleep(e.rtt + 100*time.Millisecond)
	if v := e.alive(fmt.Sprintf("%s: after the peer opened exactly %d streams", what, n)); v != nil {
		close(closeAll)
		return one(v)
	}
	readers := make([]deadlineReader, 0, n)
	lagged := false
	if e.sc.Lag && n >= 2 {
		// a lagging accept loop: the application takes the first stream only and reads it to its end (the stream
		// completes while the peer's other streams are open but not yet accepted) ...
		rd, err := e.clientAccept(wtyp)
		if err != nil {
			close(closeAll)
			if v := e.alive(what); v != nil {
				return one(v)
			}
			return one(e.bad(sigIncomplete, "%s: the client application was offered none of the %d streams the peer opened: %v", what, n, err))
		}
		var want []byte
		if withData {
			want = []byte{0}
		}
		rd.SetReadDeadline(time.Now().Add(stallTimeout))
		if b, err := io.ReadAll(rd); err != nil || string(b) != string(want) {
			close(closeAll)
			if v := e.alive(what); v != nil {
				return one(v)
			}
			return one(e.bad(sigIncomplete, "%s: stream #0 delivered %x (error %v), the peer wrote %x and closed", what, b, err, want))
		}
		// ... and the peer goes on using the streams it has opened (their FINs arrive before they are accepted)
		close(closeAll)
		lagged = true
		time.Sleep(e.rtt + 100*time.Millisecond)
		if v := e.alive(fmt.Sprintf("%s: after the peer closed its %d streams while the application had accepted only the first", what, n)); v != nil {
			return one(v)
		}
		u.Class("count:lagging-accept")
	}
	for i := len(readers); i < int(n); i++ {
		if lagged && i == 0 {
			readers = append(readers, nil)
			continue
		}
		rd, err := e.clientAccept(wtyp)
		if err != nil {
			if !lagged {
				close(closeAll)
			}
			if v := e.alive(what); v != nil {
				return one(v)
			}
			return one(e.bad(sigIncomplete, "%s: the client application was offered only %d of the %d streams the peer opened: %v", what, i, n, err))
		}
		readers = append(readers, rd)
	}
	if !lagged {
		close(closeAll)
	}
	for i, rd := range readers {
		if rd == nil {
			continue // read already
		}
		var want []byte
		if withData {
			want = []byte{byte(i)}
		}
		rd.SetReadDeadline(time.Now().Add(stallTimeout))
		b, err := io.ReadAll(rd)
		if err != nil || string(b) != string(want) {
			if v := e.alive(what); v != nil {
				return one(v)
			}
			return one(e.bad(sigIncomplete, "%s: stream #%d delivered %x (error %v), the peer wrote %x and closed", what, i, b, err, want))
		}
	}
	if v := e.ping(what); v != nil {
		return one(v)
	}
	rel := relation(n, cfgv)
	u.Class("count:" + e.sc.Type + ":" + rel)
	if rel != "adv=cfg" {
		return result{nontrivial: rel}
	}
	return result{}
}

func (e *env) scenCID(u *vf.Unit) result {
	what := fmt.Sprintf("connection IDs (advertised active_connection_id_limit %d, present %v)", e.adv.cidLimit, e.adv.hasCID)
	time.Sleep(3*e.rtt + 200*time.Millisecond)
	if v := e.alive(what + ": after the handshake"); v != nil {
		return one(v)
	}
	if v := e.ping(what); v != nil {
		return one(v)
	}
	issued := map[uint64]bool{}
	e.frames("s2c", func(_ *sim.Record, _ *sim.Packet, f *refwire.Frame) {
		if f.Name == refwire.NameNewConnectionID {
			issued[f.SeqNum] = true
		}
	})
	u.Class(fmt.Sprintf("cid:limit=%d:issued=%d", min(e.adv.cidLimit, 99), len(issued)))
	rel := relation(e.adv.cidLimit, 4) // protocol.MaxActiveConnectionIDs
	if rel != "adv=cfg" && float64(len(issued)+1) >= 0.95*float64(e.adv.cidLimit) {
		return result{nontrivial: rel}
	}
	return result{}
}

func (e *env) scenDgram(u *vf.Unit) result {
	if e.adv.dgram == 0 {
		return result{skip: "not-advertised"}
	}
	what := fmt.Sprintf("datagrams (advertised max_datagram_frame_size %d, Config.EnableDatagrams %v)", e.adv.dgram, e.c.Cfg.Datagrams)
	var tooLarge *quic.DatagramTooLargeError
	err := e.sconn.SendDatagram(make([]byte, 100000))
	if !errors.As(err, &tooLarge) {
		if v := e.alive(what); v != nil {
			return one(v)
		}
		return one(e.bad(sigUnexpected, "%s: the server's SendDatagram probe returned %v", what, err))
	}
	maxP := int(tooLarge.MaxDatagramPayloadSize)
	if maxP <= 0 {
		return result{skip: "no-room"}
	}
	// The server's own bound is its MTU estimate, which ignores the packet header: a datagram above what really
	// fits is silently dropped by its packer. What certainly fits a 1280-byte packet: short header (1 + client
	// connection ID + at most 4 bytes of packet number), AEAD tag, frame type and 2-byte length. Negative deltas
	// try the few bytes above that (they are sent if the packet number is short enough).
	dcid := 0
	for _, rec := range e.w.Router.Trace(1 << 30) {
		if pkts, _ := rec.Pkts.([]*sim.Packet); rec.Dir == "s2c" && len(pkts) > 0 && pkts[0].Kind == "1rtt" {
			dcid = len(pkts[0].DCID)
			break
		}
	}
	fit := 1280 - 1 - dcid - 4 - 16
	srvMax := maxP
	maxP = min(maxP, fit-3)
	var sent [][]byte
	for i, d := range e.sc.Deltas {
		p := make([]byte, min(srvMax, max(0, maxP-min(d, maxP))))
		fill(p, 0, e.c.Seed+uint64(i))
		if err := e.sconn.SendDatagram(p); err != nil {
			if v := e.alive(fmt.Sprintf("%s: while the peer was sending datagram #%d of %d bytes", what, i, len(p))); v != nil {
				return one(v)
			}
			return one(e.bad(sigUnexpected, "%s: the server's SendDatagram(%d bytes) failed: %v", what, len(p), err))
		}
		sent = append(sent, p)
		time.Sleep(time.Millisecond)
	}
	time.Sleep(e.rtt + 100*time.Millisecond)
	// what was really delivered to the client, and was it within the advertised size?
	var delivered [][]byte
	exceeded, largest := 0, 0
	e.frames("s2c", func(rec *sim.Record, _ *sim.Packet, f *refwire.Frame) {
		if f.Name != refwire.NameDatagram || len(rec.Dlv) == 0 {
			return
		}
		if uint64(f.WireLen) > e.adv.dgram {
			exceeded++
			return
		}
		largest = max(largest, f.WireLen)
		delivered = append(delivered, append([]byte(nil), f.Data...))
	})
	if os.Getenv("VERIF_C12_DEBUG") != "" {
		fmt.Printf("dgram: adv %d maxP %d sent %d delivered %d exceeded %d largest %d\n", e.adv.dgram, maxP, len(sent), len(delivered), exceeded, largest)
	}
	if exceeded > 0 {
		u.Class("dgram:peer-exceeded")
		return result{skip: "peer-exceeded"}
	}
	if v := e.alive(fmt.Sprintf("%s: after the peer sent %d DATAGRAM frames of at most %d bytes (payloads up to %d)", what, len(delivered), largest, maxP)); v != nil {
		return one(v)
	}
	received := 0
	{
		pending := map[string]int{}
		for _, d := range delivered {
			pending[string(d)]++
		}
		for range delivered {
			ctx, cancel := context.WithTimeout(e.ctx, 3*time.Second)
			b, err := e.cconn.ReceiveDatagram(ctx)
			cancel()
			if err != nil && !e.c.Cfg.Datagrams && received == 0 && strings.Contains(err.Error(), "datagram support disabled") {
				// the user did not ask for datagrams: the API may refuse to hand them out (the connection must survive them)
				u.Class("dgram:api-refused")
				break
			}
			if err != nil {
				if v := e.alive(what); v != nil {
					return one(v)
				}
				return one(e.bad(sigDgramLost, "%s: %d DATAGRAM frames were delivered to the client, its application received %d, then: %v", what, len(delivered), received, err))
			}
			if pending[string(b)] == 0 {
				return one(e.bad(sigDgramLost, "%s: the application received a datagram of %d bytes that was not on the wire", what, len(b)))
			}
			pending[string(b)]--
			received++
		}
	}
	if v := e.ping(what); v != nil {
		return one(v)
	}
	u.Class(fmt.Sprintf("dgram:enabled=%v", e.c.Cfg.Datagrams))
	atBoundary := float64(largest) >= 0.95*float64(min(int(e.adv.dgram), fit+3))
	if atBoundary {
		u.Class("dgram:at-boundary")
	}
	if len(delivered) < len(sent) {
		u.Class("dgram:sender-dropped")
	}
	if atBoundary && (!e.c.Cfg.Datagrams || e.adv.dgram != 16383) {
		rel := relation(e.adv.dgram, 16383)
		if !e.c.Cfg.Datagrams {
			rel = "adv>cfg(off)"
		}
		return result{nontrivial: rel}
	}
	return result{}
}

func (e *env) scenIdle(u *vf.Unit) result {
	if !e.adv.hasIdle || e.adv.idle == 0 {
		return result{skip: "not-advertised"}
	}
	A, S := e.adv.idle, time.Duration(e.c.Srv.IdleMs)*time.Millisecond
	M := min(A, S)
	what := fmt.Sprintf("idle (advertised max_idle_timeout %v, peer's own %v, Config.MaxIdleTimeout %v)", A, S, e.c.Cfg.effIdle())
	// a client-initiated stream for the exchange after the silence; the server may answer if it has credit
	canReply := e.adv.bidiLocal >= 4 && e.adv.maxData >= 4
	type srvMsg struct {
		what string
		err  error
	}
	srv := make(chan srvMsg, 4)
	speak := make(chan struct{})
	e.wg.Add(1)
	go func() {
		defer e.wg.Done()
		ctx, cancel := context.WithTimeout(e.ctx, 10*time.Second)
		s, err := e.sconn.AcceptStream(ctx)
		cancel()
		if err != nil {
			srv <- srvMsg{"accept", err}
			return
		}
		var b [4]byte
		_, err = io.ReadFull(s, b[:])
		srv <- srvMsg{"first message", err}
		if err != nil {
			return
		}
		select {
		case <-speak:
		case <-e.ctx.Done():
			return
		}
		if e.sc.ServerFirst && canReply {
			_, err = s.Write([]byte("pong"))
			srv <- srvMsg{"write after the silence", err}
			if err != nil {
				return
			}
		}
		s.SetReadDeadline(time.Now().Add(10 * time.Second))
		_, err = io.ReadFull(s, b[:])
		if err == nil && string(b[:]) != "done" {
			err = fmt.Errorf("server read %q", b[:])
		}
		srv <- srvMsg{"read after the silence", err}
		s.Close()
	}()
	ctx, cancel := context.WithTimeout(e.ctx, 10*time.Second)
	cs, err := e.cconn.OpenStreamSync(ctx)
	cancel()
	if err == nil {
		_, err = cs.Write([]byte("ping"))
	}
	if err != nil {
		close(speak)
		return one(e.classify(err, what+": client could not send the first message"))
	}
	if m := <-srv; m.err != nil {
		close(speak)
		if v := e.alive(what); v != nil {
			return one(v)
		}
		return one(e.bad(sigUnexpected, "%s: server %s: %v", what, m.what, m.err))
	}
	time.Sleep(3*e.rtt + 300*time.Millisecond)
	quiet := e.w.Router.Now()
	lastC, lastS := e.lastDelivery("s2c"), e.lastDelivery("c2s")
	x := min(lastC, lastS) + M*9/10
	if d := x - e.w.Router.Now(); d > 0 {
		time.Sleep(d)
	}
	now := e.w.Router.Now()
	silent := e.sentBetween(quiet, now) == 0
	if v := e.alive(fmt.Sprintf("%s: after %v without traffic (last datagram delivered to the client at t=%v, now t=%v)", what, now-lastC, lastC, now)); v != nil {
		close(speak)
		return one(v)
	}
	close(speak)
	if e.sc.ServerFirst && canReply {
		if m := <-srv; m.err != nil {
			return one(e.bad(sigUnexpected, "%s: server %s: %v", what, m.what, m.err))
		}
		var b [4]byte
		cs.SetReadDeadline(time.Now().Add(10 * time.Second))
		if _, err := io.ReadFull(cs, b[:]); err != nil || string(b[:]) != "pong" {
			if v := e.alive(what + ": reading the peer's message after the silence"); v != nil {
				return one(v)
			}
			return one(e.bad(sigIncomplete, "%s: the client read %q (error %v) after the silence, the peer wrote \"pong\"", what, b[:], err))
		}
	}
	if _, err := cs.Write([]byte("done")); err != nil {
		return one(e.classify(err, what+": client write after the silence"))
	}
	if m := <-srv; m.err != nil {
		if v := e.alive(what + ": after the silence"); v != nil {
			return one(v)
		}
		return one(e.bad(sigUnexpected, "%s: server %s: %v", what, m.what, m.err))
	}
	cs.Close()
	if v := e.alive(what + ": after the exchange that followed the silence"); v != nil {
		return one(v)
	}
	rel := relation(uint64(A), uint64(e.c.Cfg.effIdle()))
	u.Class("idle:" + rel)
	if !silent {
		u.Class("idle:not-silent")
		return result{}
	}
	if S < A {
		u.Class("idle:peer-timeout-binding")
	}
	if rel != "adv=cfg" && float64(now-lastC) >= 0.95*0.9*float64(M) {
		return result{nontrivial: rel}
	}
	return result{}
}
