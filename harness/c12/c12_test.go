// C12: a spec-driven client enforces exactly the limits it advertises.
//
// The client is a quic.UTransport with a built-in or generated spec, crossed with user Config values drawn
// independently of the spec. The peer is the in-tree server, which never exceeds what the client put on the
// wire. One scenario per advertised limit drives that limit to its boundary. What the client advertised is
// read back from the wire (ClientHello reassembled by the observer, transport parameters parsed by refwire);
// the oracle never looks at the spec structure.
package c12

import (
	"encoding/json"
	"fmt"
	"os"
	"testing"
	"time"

	"pgregory.net/rapid"

	quic "github.com/refraction-networking/uquic"
	"github.com/refraction-networking/uquic/verif/sim"
	"github.com/refraction-networking/uquic/verif/specgen"
	"github.com/refraction-networking/uquic/verif/vf"
)

func TestMain(m *testing.M) { vf.Main(m) }

// Violation signatures (root causes).
const (
	sigStreamWindow = "C12/flow-control/stream-window"       // local FLOW_CONTROL_ERROR on a stream inside the advertised stream window
	sigConnWindow   = "C12/flow-control/conn-window"         // local FLOW_CONTROL_ERROR inside the advertised initial_max_data
	sigStallStream  = "C12/flow-control/stall-stream-window" // advertised stream credit used up and read by the application, never extended
	sigStallConn    = "C12/flow-control/stall-conn-window"   // same for the connection credit
	sigUniCount     = "C12/streams/uni-count"                // local STREAM_LIMIT_ERROR below initial_max_streams_uni
	sigBidiCount    = "C12/streams/bidi-count"               // local STREAM_LIMIT_ERROR below initial_max_streams_bidi
	sigOpenBlocked  = "C12/streams/open-blocked"             // the peer could not open a stream below the advertised number
	sigCIDLimit     = "C12/cid/limit"                        // local CONNECTION_ID_LIMIT_ERROR below active_connection_id_limit
	sigDgramOff     = "C12/datagram/disabled"                // DATAGRAM frame rejected although max_datagram_frame_size was advertised
	sigDgramLost    = "C12/datagram/not-received"            // a delivered DATAGRAM frame within the advertised size never reached the application
	sigIdle         = "C12/idle/config-below-advertised"     // idle timeout before the advertised max_idle_timeout elapsed
	sigRecord       = "C12/record/parameters-differ"         // qlog parameters_set (owner local) differs from the bytes sent
	sigLocalOther   = "C12/conn/local-transport-error"       // any other locally generated transport error against the conformant peer
	sigIncomplete   = "C12/data/incomplete"                  // data within the advertised limits did not arrive / arrived wrong
	sigUnexpected   = "C12/conn/unexpected-error"            // connection failed for a reason that is neither of the above (lossless network)
	sigHarness      = "C12/harness/setup"                    // the scenario could not be set up (spec did not build, dial failed, ...)
	sigLeak         = "C12/leak/goroutines"
)

// ClientCfg is the user Config of the client, drawn independently of the spec.
type ClientCfg struct {
	StreamWin    uint64 `json:"stream_win,omitempty"`     // InitialStreamReceiveWindow, 0 = default (512 KiB)
	StreamWinMax uint64 `json:"stream_win_max,omitempty"` // MaxStreamReceiveWindow, 0 = default (6 MiB)
	ConnWin      uint64 `json:"conn_win,omitempty"`       // InitialConnectionReceiveWindow, 0 = default (768 KiB)
	ConnWinMax   uint64 `json:"conn_win_max,omitempty"`   // MaxConnectionReceiveWindow, 0 = default (15 MiB)
	Streams      int64  `json:"streams,omitempty"`        // MaxIncomingStreams, 0 = default (100), < 0 = none
	UniStreams   int64  `json:"uni_streams,omitempty"`    // MaxIncomingUniStreams
	Datagrams    bool   `json:"datagrams,omitempty"`
	IdleMs       int    `json:"idle_ms,omitempty"` // MaxIdleTimeout, 0 = default (30 s)
}

func (c ClientCfg) effStreamWin() uint64 {
	if c.StreamWin == 0 {
		return 512 << 10
	}
	return c.StreamWin
}

func (c ClientCfg) effConnWin() uint64 {
	if c.ConnWin == 0 {
		return 768 << 10
	}
	return c.ConnWin
}

func effCount(v int64) uint64 {
	switch {
	case v == 0:
		return 100
	case v < 0:
		return 0
	}
	return uint64(v)
}

func (c ClientCfg) effIdle() time.Duration {
	if c.IdleMs == 0 {
		return 30 * time.Second
	}
	return time.Duration(c.IdleMs) * time.Millisecond
}

func (c ClientCfg) quic() *quic.Config {
	return &quic.Config{
		DisablePathMTUDiscovery:        true,
		InitialStreamReceiveWindow:     c.StreamWin,
		MaxStreamReceiveWindow:         c.StreamWinMax,
		InitialConnectionReceiveWindow: c.ConnWin,
		MaxConnectionReceiveWindow:     c.ConnWinMax,
		MaxIncomingStreams:             c.Streams,
		MaxIncomingUniStreams:          c.UniStreams,
		EnableDatagrams:                c.Datagrams,
		MaxIdleTimeout:                 time.Duration(c.IdleMs) * time.Millisecond,
		HandshakeIdleTimeout:           10 * time.Second,
	}
}

// ServerCfg is the (generous) configuration of the peer.
type ServerCfg struct {
	CIDLen int `json:"cid_len,omitempty"` // 0 = default (4)
	IdleMs int `json:"idle_ms"`           // the server's own max_idle_timeout
}

// Scenario drives one advertised limit to its boundary on a connection of its own.
type Scenario struct {
	Kind string `json:"kind"` // stream | conn | count | cid | dgram | idle
	// stream: which window (uni | bidi_remote | bidi_local); count: uni | bidi
	Type string `json:"type,omitempty"`
	// conn: the streams that share initial_max_data and the share (per mille of its own window) each one takes;
	// the last ones take what is left
	Types  []string `json:"types,omitempty"`
	Shares []int    `json:"shares,omitempty"`
	// stream / conn: bytes the peer goes on writing after the boundary while the client drains (needs new credit)
	Extra int `json:"extra,omitempty"`
	// dgram: payload sizes as distance below the largest payload the peer may send
	Deltas []int `json:"deltas,omitempty"`
	// idle: who speaks first after the silence
	ServerFirst bool `json:"server_first,omitempty"`
	// count: the client application accepts and finishes the first stream before it accepts the others (a lagging
	// accept loop), and the peer goes on using the streams it has opened meanwhile
	Lag bool `json:"lag,omitempty"`
}

// Case is one generated configuration with the scenarios to run on it.
type Case struct {
	Spec  specgen.Desc `json:"spec"`
	Cfg   ClientCfg    `json:"cfg"`
	Srv   ServerCfg    `json:"srv"`
	RTTms int          `json:"rtt_ms"`
	Scen  []Scenario   `json:"scen"`
	Seed  uint64       `json:"seed"`
}

// ---- generator ----

var stdID = map[string]uint64{"idle": 1, "udp": 3, "maxdata": 4, "bidi_local": 5, "bidi_remote": 6, "uni": 7, "streams_bidi": 8,
	"streams_uni": 9, "ack_delay": 0x0b, "disable_migration": 0x0c, "cidlimit": 0x0e, "iscid": 0x0f, "dgram": 0x20}

func varintBytes(v uint64) []byte {
	switch {
	case v < 1<<6:
		return []byte{byte(v)}
	case v < 1<<14:
		return []byte{byte(v>>8) | 0x40, byte(v)}
	case v < 1<<30:
		return []byte{byte(v>>24) | 0x80, byte(v >> 16), byte(v >> 8), byte(v)}
	}
	return []byte{byte(v>>56) | 0xc0, byte(v >> 48), byte(v >> 40), byte(v >> 32), byte(v >> 24), byte(v >> 16), byte(v >> 8), byte(v)}
}

func genWindow(t *rapid.T, label string) uint64 {
	switch rapid.IntRange(0, 11).Draw(t, label+"-class") {
	case 0:
		return uint64(rapid.IntRange(1, 3000).Draw(t, label))
	case 1, 2, 3:
		return uint64(rapid.IntRange(3000, 70000).Draw(t, label))
	case 4, 5:
		return uint64(rapid.IntRange(70000, 500000).Draw(t, label))
	case 6:
		return uint64(rapid.SampledFrom([]int{524287, 524288, 524289, 786431, 786432, 786433, 65536, 1 << 20}).Draw(t, label))
	case 7:
		return uint64(rapid.IntRange(500000, 1100000).Draw(t, label))
	case 8:
		return uint64(rapid.IntRange(1100000, 2500000).Draw(t, label))
	default:
		return uint64(rapid.IntRange(10000, 200000).Draw(t, label))
	}
}

func genCount(t *rapid.T, label string) uint64 {
	switch rapid.IntRange(0, 7).Draw(t, label+"-class") {
	case 0:
		return uint64(rapid.IntRange(1, 3).Draw(t, label))
	case 1, 2:
		return uint64(rapid.IntRange(3, 40).Draw(t, label))
	case 3, 4:
		return uint64(rapid.SampledFrom([]int{99, 100, 101, 103, 128}).Draw(t, label))
	case 5:
		return uint64(rapid.IntRange(100, 300).Draw(t, label))
	default:
		return uint64(rapid.IntRange(1, 120).Draw(t, label))
	}
}

// genLimitTPs draws a transport parameter list: a random prefix from specgen.GenTPs (GREASE, fake and unknown
// parameters, version information, ...) in which every limit parameter is then replaced by a value drawn here
// (so that each scenario finds its parameter with high probability), in typed or raw form, at a random position.
func genLimitTPs(t *rapid.T) []specgen.TPDesc {
	base := specgen.GenTPs(t, 0, 6)
	limit := map[string]bool{"idle": true, "maxdata": true, "bidi_local": true, "bidi_remote": true, "uni": true,
		"streams_bidi": true, "streams_uni": true, "cidlimit": true, "dgram": true}
	var out []specgen.TPDesc
	once := map[uint64]bool{} // ids the peer knows must not repeat (it rejects duplicates of those)
	for _, d := range base {
		if limit[d.K] {
			continue
		}
		// the in-tree server rejects a repeated id of any kind, known or not
		id := d.ID
		switch d.K {
		case "greasebit":
			id = 0x2ab2
		case "versioninfo":
			id = 0x11
		case "grease", "fake":
		default:
			id = stdID[d.K]
		}
		if id != 0 {
			if once[id] {
				continue
			}
			once[id] = true
		}
		if d.K == "fake" {
			switch d.ID { // raw forms of the limit parameters are drawn below
			case 1, 4, 5, 6, 7, 8, 9, 0x0e, 0x20:
				continue
			}
		}
		out = append(out, d)
	}
	add := func(k string, v uint64) {
		d := specgen.TPDesc{K: k, N: v}
		if rapid.IntRange(0, 5).Draw(t, "raw-"+k) == 0 {
			d = specgen.TPDesc{K: "fake", ID: stdID[k], V: varintBytes(v)}
		}
		pos := rapid.IntRange(0, len(out)).Draw(t, "pos-"+k)
		out = append(out[:pos:pos], append([]specgen.TPDesc{d}, out[pos:]...)...)
	}
	present := func(k string, oneIn int) bool { return rapid.IntRange(1, oneIn).Draw(t, "absent-"+k) != 1 }
	if present("maxdata", 14) {
		add("maxdata", genWindow(t, "maxdata"))
	}
	for _, k := range []string{"bidi_local", "bidi_remote", "uni"} {
		if present(k, 10) {
			add(k, genWindow(t, k))
		}
	}
	for _, k := range []string{"streams_bidi", "streams_uni"} {
		if present(k, 10) {
			add(k, genCount(t, k))
		}
	}
	if present("cidlimit", 5) {
		add("cidlimit", uint64(rapid.SampledFrom([]int{2, 3, 4, 5, 6, 7, 8, 16, 1000}).Draw(t, "cidlimit")))
	}
	if present("dgram", 4) {
		add("dgram", uint64(rapid.SampledFrom([]int{0, 1, 2, 3, 20, 63, 64, 65, 66, 300, 1100, 1200, 1252, 1300, 1500, 16383, 65535, 65536}).Draw(t, "dgram")))
	}
	if present("idle", 6) {
		add("idle", uint64(rapid.SampledFrom([]int{1500, 3000, 5000, 8000, 20000, 30000, 45000, 120000, 600000}).Draw(t, "idle")))
	}
	if rapid.IntRange(0, 4).Draw(t, "ade") == 0 {
		// ack_delay_exponent in raw form (uTLS has no typed parameter for it)
		out = append(out, specgen.TPDesc{K: "fake", ID: 0x0a, V: varintBytes(uint64(rapid.IntRange(0, 20).Draw(t, "ade-v")))})
	}
	return out
}

var scenarioKinds = []string{"stream", "stream", "conn", "conn", "count", "count", "cid", "dgram", "idle"}

// The built-in parrots advertise only a few distinct (and large: 6..24 MiB) windows, so their bulk scenarios are
// both expensive and repetitive: they get a smaller share.
var scenarioKindsBuiltin = []string{"stream", "conn", "count", "count", "count", "cid", "dgram", "dgram", "idle", "idle"}
var streamTypes = []string{"uni", "bidi_remote", "bidi_local"}

func genScenario(t *rapid.T, kind string) Scenario {
	s := Scenario{Kind: kind}
	extra := func() int {
		return rapid.SampledFrom([]int{0, 0, 1, 1200, 30000, 140000, 700000}).Draw(t, "extra")
	}
	switch kind {
	case "stream":
		s.Type = rapid.SampledFrom(streamTypes).Draw(t, "stype")
		s.Extra = extra()
	case "conn":
		n := rapid.IntRange(1, 6).Draw(t, "nstreams")
		for i := 0; i < n; i++ {
			s.Types = append(s.Types, rapid.SampledFrom(streamTypes).Draw(t, "ctype"))
			s.Shares = append(s.Shares, rapid.SampledFrom([]int{1000, 1000, 500, 250, 100, 10}).Draw(t, "share"))
		}
		s.Extra = extra()
	case "count":
		s.Type = rapid.SampledFrom([]string{"uni", "bidi"}).Draw(t, "ctype")
		s.Lag = rapid.Bool().Draw(t, "lag")
	case "dgram":
		n := rapid.IntRange(1, 6).Draw(t, "ndgram")
		for i := 0; i < n; i++ {
			s.Deltas = append(s.Deltas, rapid.SampledFrom([]int{0, 0, 1, 2, -1, -2, -3, 64, 500, 1 << 20}).Draw(t, "delta"))
		}
	case "idle":
		s.ServerFirst = rapid.Bool().Draw(t, "server-first")
	}
	return s
}

func genCase(t *rapid.T) Case {
	c := Case{Seed: rapid.Uint64().Draw(t, "seed")}
	c.Spec.Base = rapid.SampledFrom(specgen.BaseNames()).Draw(t, "base")
	builtin := rapid.IntRange(0, 6).Draw(t, "builtin") == 0
	if !builtin {
		c.Spec.TPs = genLimitTPs(t)
		if rapid.IntRange(0, 3).Draw(t, "e-src") == 0 {
			v := rapid.SampledFrom([]int{0, 4, 8, 20}).Draw(t, "src")
			c.Spec.SrcCID = &v
		}
	}
	if rapid.IntRange(0, 3).Draw(t, "e-rand") == 0 {
		v := rapid.Bool().Draw(t, "randomize")
		c.Spec.Randomize = &v
	}
	if rapid.IntRange(0, 5).Draw(t, "e-suppress") == 0 {
		// suppressed parameters never reach the wire: the advertised value is then the default, whatever the spec lists
		n := rapid.IntRange(1, 2).Draw(t, "nsupp")
		for i := 0; i < n; i++ {
			c.Spec.Suppress = append(c.Spec.Suppress, rapid.SampledFrom([]uint64{0x01, 0x03, 0x04, 0x05, 0x06, 0x07, 0x08, 0x09, 0x0b, 0x0e, 0x20, 27, 0x4752}).Draw(t, "supp"))
		}
	}
	// user Config, independent of the spec
	cfg := &c.Cfg
	if rapid.IntRange(0, 2).Draw(t, "cfg-sw") != 0 {
		cfg.StreamWin = genWindow(t, "cfg-stream-win")
		if rapid.Bool().Draw(t, "cfg-swm") {
			cfg.StreamWinMax = cfg.StreamWin * uint64(rapid.SampledFrom([]int{1, 2, 8}).Draw(t, "cfg-swm-f"))
		} else if cfg.StreamWin > 6<<20 {
			cfg.StreamWinMax = cfg.StreamWin
		}
	}
	if rapid.IntRange(0, 2).Draw(t, "cfg-cw") != 0 {
		cfg.ConnWin = genWindow(t, "cfg-conn-win")
		if rapid.Bool().Draw(t, "cfg-cwm") {
			cfg.ConnWinMax = cfg.ConnWin * uint64(rapid.SampledFrom([]int{1, 2, 8}).Draw(t, "cfg-cwm-f"))
		}
	}
	if rapid.IntRange(0, 2).Draw(t, "cfg-s") != 0 {
		cfg.Streams = int64(genCount(t, "cfg-streams"))
		if rapid.IntRange(0, 9).Draw(t, "cfg-s-none") == 0 {
			cfg.Streams = -1
		}
	}
	if rapid.IntRange(0, 2).Draw(t, "cfg-u") != 0 {
		cfg.UniStreams = int64(genCount(t, "cfg-uni-streams"))
		if rapid.IntRange(0, 9).Draw(t, "cfg-u-none") == 0 {
			cfg.UniStreams = -1
		}
	}
	cfg.Datagrams = rapid.Bool().Draw(t, "cfg-dgram")
	if rapid.IntRange(0, 2).Draw(t, "cfg-i") != 0 {
		cfg.IdleMs = rapid.SampledFrom([]int{1000, 2000, 4000, 10000, 30000, 60000, 300000}).Draw(t, "cfg-idle")
	}
	c.Srv = ServerCfg{CIDLen: rapid.SampledFrom([]int{0, 0, 8, 16}).Draw(t, "scid"),
		IdleMs: rapid.SampledFrom([]int{600000, 600000, 600000, 60000, 15000, 6000}).Draw(t, "sidle")}
	c.RTTms = rapid.SampledFrom([]int{2, 20, 20, 80}).Draw(t, "rtt")
	n := rapid.IntRange(1, 3).Draw(t, "nscen")
	for i := 0; i < n; i++ {
		kinds := scenarioKinds
		if builtin {
			kinds = scenarioKindsBuiltin
		}
		c.Scen = append(c.Scen, genScenario(t, rapid.SampledFrom(kinds).Draw(t, "kind")))
	}
	return c
}

// ---- runner ----

var curT *testing.T

func checkCase(c Case, u *vf.Unit) *vf.Verdict {
	u.Journal(c)
	var v *vf.Verdict
	sim.Bubble(curT, 90*time.Second, func() { v = runCase(c, u) }, func(rep sim.LeakReport) {
		if v == nil {
			v = vf.Bad(sigLeak, "%d goroutines alive after shutdown:\n%s", rep.Count, rep.Dump)
		}
	})
	return v
}

// simBubble runs f in a bubble of its own and reports leaked goroutines through *leak.
func simBubble(f func(), leak **vf.Verdict) {
	sim.Bubble(curT, 90*time.Second, f, func(rep sim.LeakReport) {
		*leak = vf.Bad(sigLeak, "%d goroutines alive after shutdown:\n%s", rep.Count, rep.Dump)
	})
}

func specID(c Case) string {
	if len(c.Spec.TPs) == 0 {
		return c.Spec.Base
	}
	return fmt.Sprintf("%s+%x", c.Spec.Base, vf.Hash(fmt.Sprintf("%v|%v", c.Spec.TPs, c.Spec.Suppress)))
}

func runCase(c Case, u *vf.Unit) *vf.Verdict {
	u.Class("base:" + c.Spec.Base)
	if len(c.Spec.TPs) == 0 {
		u.Class("spec:builtin")
	} else {
		u.Class("spec:generated")
	}
	nt := false
	for i, sc := range c.Scen {
		r := runScenario(c, sc, u)
		u.Class("scen:" + sc.Kind)
		for _, v := range r.verdicts {
			if u.KnownHit(v.Sig) {
				u.Class("known:" + v.Sig)
				showKnown(c, i, v)
				continue
			}
			v.Detail = fmt.Sprintf("scenario #%d %s: %s", i, describe(sc), v.Detail)
			return v
		}
		if r.skip != "" {
			u.Class("skip:" + sc.Kind + ":" + r.skip)
		}
		if r.nontrivial != "" && len(r.verdicts) == 0 {
			nt = true
			u.Class("nt:" + sc.Kind)
			u.NonTrivial(sc.Kind, sc.Type, specID(c), r.nontrivial)
		}
	}
	if nt && u.WantSample() {
		u.Sample(c)
	}
	return nil
}

var shown = map[string]int{}

// showKnown prints the first hits of each open finding when VERIF_C12_SHOW is set (development aid).
func showKnown(c Case, i int, v *vf.Verdict) {
	if os.Getenv("VERIF_C12_SHOW") == "" || shown[v.Sig] >= 2 {
		return
	}
	shown[v.Sig]++
	one := c
	one.Scen = []Scenario{c.Scen[i]}
	b, _ := json.Marshal(one)
	fmt.Printf("KNOWN %s\n  %s\n  case %s\n", v.Sig, v.Detail, b)
}

func describe(sc Scenario) string {
	switch sc.Kind {
	case "stream":
		return fmt.Sprintf("stream window (%s, extra %d)", sc.Type, sc.Extra)
	case "conn":
		return fmt.Sprintf("connection window (streams %v shares %v, extra %d)", sc.Types, sc.Shares, sc.Extra)
	case "count":
		return fmt.Sprintf("stream count (%s)", sc.Type)
	case "cid":
		return "connection IDs"
	case "dgram":
		return fmt.Sprintf("datagrams (deltas %v)", sc.Deltas)
	case "idle":
		return fmt.Sprintf("idle (server first: %v)", sc.ServerFirst)
	}
	return sc.Kind
}

func TestLimits(t *testing.T) {
	curT = t
	vf.ReplayRepeat = 30
	vf.RunRapid(t, "limits", genCase, checkCase)
}
