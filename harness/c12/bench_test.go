package c12

import (
	"encoding/json"
	"fmt"
	"os"
	"testing"
	"time"

	"github.com/refraction-networking/uquic/verif/vf"
)

func TestBenchBig(t *testing.T) {
	if os.Getenv("C12_BENCH") == "" {
		t.Skip()
	}
	curT = t
	var c Case
	json.Unmarshal([]byte(`{"spec":{"base":"chrome115"},"cfg":{"stream_win":6291456,"stream_win_max":6291456,"conn_win":15728640,"conn_win_max":15728640,"streams":100,"uni_streams":103,"datagrams":true,"idle_ms":30000},"srv":{"idle_ms":600000},"rtt_ms":20,"scen":[{"kind":"stream","type":"uni"}],"seed":14}`), &c)
	u := vf.Scratch()
	for i := 0; i < 5; i++ {
		t0 := time.Now()
		var r result
		var lv *vf.Verdict
		simBubble(func() { r = runScenario(c, c.Scen[0], u) }, &lv)
		fmt.Println(time.Since(t0), len(r.verdicts))
	}
}
