package c12

import (
	"encoding/json"
	"fmt"
	"testing"

	"github.com/refraction-networking/uquic/verif/vf"
)

// minimalCases are hand-written smallest configurations, one per root cause the design expects (DESIGN.md
// section 7 item 3 and Appendix A) plus the ones the generated search found. They run through the same oracle
// as generated cases on every invocation: a deterministic regression tier, and the re-confirmation that each
// open finding is still present (classes "finding-present:<sig>" / "finding-absent:<sig>").
var minimalCases = []struct {
	Sig  string
	JSON string
}{
	{sigStreamWindow, `{"spec":{"base":"chrome115"},"cfg":{},"srv":{"idle_ms":600000},"rtt_ms":20,"scen":[{"kind":"stream","type":"uni"}],"seed":1}`},
	{sigStreamWindow, `{"spec":{"base":"firefoxA"},"cfg":{},"srv":{"idle_ms":600000},"rtt_ms":20,"scen":[{"kind":"stream","type":"bidi_local"}],"seed":2}`},
	{sigConnWindow, `{"spec":{"base":"chrome115"},"cfg":{"stream_win":6291456,"stream_win_max":6291456},"srv":{"idle_ms":600000},"rtt_ms":20,"scen":[{"kind":"stream","type":"uni"}],"seed":3}`},
	{sigConnWindow, `{"spec":{"base":"chrome146"},"cfg":{},"srv":{"idle_ms":600000},"rtt_ms":20,"scen":[{"kind":"conn","types":["uni","bidi_remote","bidi_local","uni"],"shares":[50,50,50,50]}],"seed":4}`},
	{sigStallStream, `{"spec":{"base":"chrome115","tps":[{"k":"maxdata","n":1048576},{"k":"uni","n":65536},{"k":"streams_uni","n":3},{"k":"iscid"},{"k":"idle","n":30000}]},"cfg":{},"srv":{"idle_ms":600000},"rtt_ms":20,"scen":[{"kind":"stream","type":"uni","extra":30000}],"seed":5}`},
	{sigStallConn, `{"spec":{"base":"chrome115","tps":[{"k":"maxdata","n":65536},{"k":"uni","n":1048576},{"k":"streams_uni","n":3},{"k":"iscid"},{"k":"idle","n":30000}]},"cfg":{},"srv":{"idle_ms":600000},"rtt_ms":20,"scen":[{"kind":"stream","type":"uni","extra":30000}],"seed":6}`},
	{sigUniCount, `{"spec":{"base":"chrome115"},"cfg":{},"srv":{"idle_ms":600000},"rtt_ms":20,"scen":[{"kind":"count","type":"uni"}],"seed":7}`},
	{sigBidiCount, `{"spec":{"base":"chrome115"},"cfg":{"streams":50},"srv":{"idle_ms":600000},"rtt_ms":20,"scen":[{"kind":"count","type":"bidi"}],"seed":8}`},
	{sigDgramOff, `{"spec":{"base":"chrome115"},"cfg":{},"srv":{"idle_ms":600000},"rtt_ms":20,"scen":[{"kind":"dgram","deltas":[0]}],"seed":9}`},
	{sigIdle, `{"spec":{"base":"chrome115"},"cfg":{"idle_ms":10000},"srv":{"idle_ms":600000},"rtt_ms":20,"scen":[{"kind":"idle","server_first":true}],"seed":10}`},
	{sigCIDLimit, `{"spec":{"base":"firefoxA"},"cfg":{},"srv":{"idle_ms":600000},"rtt_ms":20,"scen":[{"kind":"cid"}],"seed":11}`},
	{sigRecord, `{"spec":{"base":"chrome115"},"cfg":{},"srv":{"idle_ms":600000},"rtt_ms":20,"scen":[{"kind":"cid"}],"seed":12}`},
	{sigRecord, `{"spec":{"base":"firefoxA","tps":[{"k":"maxdata","n":1048576},{"k":"iscid"},{"k":"fake","id":10,"v":"BQ=="}]},"cfg":{},"srv":{"idle_ms":600000},"rtt_ms":20,"scen":[{"kind":"cid"}],"seed":13}`},
	// the same limits with a Config that agrees with (or exceeds) the spec: must hold on any tree
	{"", `{"spec":{"base":"chrome115"},"cfg":{"stream_win":6291456,"stream_win_max":6291456,"conn_win":15728640,"conn_win_max":15728640,"streams":100,"uni_streams":103,"datagrams":true,"idle_ms":30000},"srv":{"idle_ms":600000},"rtt_ms":20,"scen":[{"kind":"stream","type":"uni","extra":1200},{"kind":"count","type":"uni"},{"kind":"count","type":"bidi"},{"kind":"dgram","deltas":[0,1,1048576]},{"kind":"idle"}],"seed":14}`},
	{"", `{"spec":{"base":"firefoxB"},"cfg":{"stream_win":12582912,"stream_win_max":12582912,"conn_win":25165824,"conn_win_max":25165824,"streams":16,"uni_streams":16,"datagrams":true,"idle_ms":30000},"srv":{"idle_ms":20000},"rtt_ms":20,"scen":[{"kind":"conn","types":["uni","bidi_remote"],"shares":[1000,1000]},{"kind":"cid"},{"kind":"idle","server_first":true}],"seed":15}`},
}

func TestMinimalCases(t *testing.T) {
	curT = t
	u := vf.U("minimal")
	if vf.ReplayMode() {
		raw, ok := vf.ReplayCase(t, "minimal")
		if !ok {
			t.Skip("replay file is for another unit")
		}
		var c Case
		if err := json.Unmarshal(raw, &c); err != nil {
			t.Fatalf("bad replay case: %v", err)
		}
		for i := 0; i < 10; i++ {
			u.Case()
			if v := checkCase(c, u); v != nil && u.Report(v, c) {
				t.Fatalf("VIOLATION %s: %s", v.Sig, v.Detail)
			}
		}
		return
	}
	i, k := vf.Shard()
	for idx, mc := range minimalCases {
		if idx%k != i {
			continue
		}
		var c Case
		if err := json.Unmarshal([]byte(mc.JSON), &c); err != nil {
			t.Fatalf("minimal case %d: %v", idx, err)
		}
		u.Case()
		// which signatures does this case raise? (scratch unit: the hits are classified below)
		probe := vf.Scratch()
		var sigs []string
		for _, sc := range c.Scen {
			var r result
			one := c
			one.Scen = []Scenario{sc}
			var lv *vf.Verdict
			simBubble(func() { r = runScenario(one, sc, probe) }, &lv)
			if lv != nil {
				r.verdicts = append(r.verdicts, lv)
			}
			for _, v := range r.verdicts {
				sigs = append(sigs, v.Sig)
				if u.KnownHit(v.Sig) {
					u.Class("known:" + v.Sig)
					continue
				}
				v.Detail = fmt.Sprintf("minimal case #%d, %s: %s", idx, describe(sc), v.Detail)
				if u.Report(v, one) {
					t.Fatalf("VIOLATION %s: %s", v.Sig, v.Detail)
				}
			}
		}
		if mc.Sig != "" {
			present := false
			for _, s := range sigs {
				if s == mc.Sig {
					present = true
				}
			}
			if present {
				u.Class("finding-present:" + mc.Sig)
			} else {
				u.Class("finding-absent:" + mc.Sig)
			}
		} else if len(sigs) == 0 {
			u.Class("agreeing-config-ok")
		}
	}
}
