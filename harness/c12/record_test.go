package c12

import (
	"bytes"
	"context"
	"fmt"
	"strings"
	"sync"
	"time"

	quic "github.com/refraction-networking/uquic"
	"github.com/refraction-networking/uquic/qlog"
	"github.com/refraction-networking/uquic/qlogwriter"
	"github.com/refraction-networking/uquic/verif/refwire"
	"github.com/refraction-networking/uquic/verif/vf"
)

// paramRecorder is a Config.Tracer that keeps the transport:parameters_set events of the connection and drops the rest.
type paramRecorder struct {
	mu     sync.Mutex
	events []qlog.ParametersSet
}

func (r *paramRecorder) tracer(_ context.Context, isClient bool, _ quic.ConnectionID) qlogwriter.Trace {
	if !isClient {
		return nil
	}
	return recTrace{r}
}

type recTrace struct{ r *paramRecorder }

func (t recTrace) AddProducer() qlogwriter.Recorder { return t.r }
func (t recTrace) SupportsSchemas(string) bool      { return true }

func (r *paramRecorder) RecordEvent(ev qlogwriter.Event) {
	if p, ok := ev.(qlog.ParametersSet); ok {
		r.mu.Lock()
		r.events = append(r.events, p)
		r.mu.Unlock()
	}
}

func (r *paramRecorder) Close() error { return nil }

func (r *paramRecorder) local() (qlog.ParametersSet, int) {
	r.mu.Lock()
	defer r.mu.Unlock()
	var out qlog.ParametersSet
	n := 0
	for _, e := range r.events {
		if e.Initiator == qlog.InitiatorLocal && !e.Restore {
			if n == 0 {
				out = e
			}
			n++
		}
	}
	return out, n
}

// checkRecord compares the client's own record of its transport parameters (qlog transport:parameters_set,
// owner local) with the refwire reading of the bytes it sent, field by field.
//
// A parameter that is on the wire must be recorded with exactly its wire value. A parameter that is absent from
// the wire must be recorded as absent: the zero value (which the qlog encoder omits) or the default RFC 9000
// section 18.2 assigns to an absent parameter.
func (e *env) checkRecord(u *vf.Unit) *vf.Verdict {
	ev, n := e.rec.local()
	if n == 0 {
		return e.bad(sigRecord, "the client emitted no transport:parameters_set event with owner local (Config.Tracer was set)")
	}
	seen := map[uint64][]byte{}
	dup := map[uint64]bool{}
	for _, p := range e.adv.raw {
		if _, ok := seen[p.ID]; ok {
			dup[p.ID] = true
			continue
		}
		seen[p.ID] = p.Value
	}
	var diffs []string
	num := func(id uint64, name string, recorded int64, defaults ...int64) {
		if dup[id] {
			return
		}
		raw, present := seen[id]
		if present {
			v, err := refwire.TPVarint(raw)
			if err != nil {
				return // not a well-formed integer on the wire: nothing to compare with
			}
			if recorded != int64(v) {
				diffs = append(diffs, fmt.Sprintf("%s (%#x): wire %d, recorded %d", name, id, v, recorded))
			}
			return
		}
		if recorded == 0 {
			return
		}
		for _, d := range defaults {
			if recorded == d {
				return
			}
		}
		diffs = append(diffs, fmt.Sprintf("%s (%#x): absent from the wire, recorded %d", name, id, recorded))
	}
	ms := func(d time.Duration) int64 {
		if d%time.Millisecond != 0 {
			return -int64(d) // cannot equal a wire value
		}
		return int64(d / time.Millisecond)
	}
	num(0x01, "max_idle_timeout", ms(ev.MaxIdleTimeout))
	num(0x03, "max_udp_payload_size", int64(ev.MaxUDPPayloadSize), 65527)
	num(0x04, "initial_max_data", int64(ev.InitialMaxData))
	num(0x05, "initial_max_stream_data_bidi_local", int64(ev.InitialMaxStreamDataBidiLocal))
	num(0x06, "initial_max_stream_data_bidi_remote", int64(ev.InitialMaxStreamDataBidiRemote))
	num(0x07, "initial_max_stream_data_uni", int64(ev.InitialMaxStreamDataUni))
	num(0x08, "initial_max_streams_bidi", ev.InitialMaxStreamsBidi)
	num(0x09, "initial_max_streams_uni", ev.InitialMaxStreamsUni)
	num(0x0a, "ack_delay_exponent", int64(ev.AckDelayExponent), 3)
	num(0x0b, "max_ack_delay", ms(ev.MaxAckDelay), 25)
	num(0x0e, "active_connection_id_limit", int64(ev.ActiveConnectionIDLimit), 2)
	num(0x20, "max_datagram_frame_size", int64(ev.MaxDatagramFrameSize), -1) // -1 = protocol.InvalidByteCount = "not sent"
	if _, present := seen[0x0c]; present != ev.DisableActiveMigration {
		diffs = append(diffs, fmt.Sprintf("disable_active_migration (0xc): on the wire %v, recorded %v", present, ev.DisableActiveMigration))
	}
	if raw, present := seen[0x0f]; present && !dup[0x0f] {
		if !bytes.Equal(raw, ev.InitialSourceConnectionID.Bytes()) {
			diffs = append(diffs, fmt.Sprintf("initial_source_connection_id (0xf): wire %x, recorded %x", raw, ev.InitialSourceConnectionID.Bytes()))
		}
	} else if !present && ev.InitialSourceConnectionID.Len() != 0 {
		diffs = append(diffs, fmt.Sprintf("initial_source_connection_id (0xf): absent from the wire, recorded %x", ev.InitialSourceConnectionID.Bytes()))
	}
	if _, present := seen[0x00]; present || ev.OriginalDestinationConnectionID.Len() != 0 {
		if present != (ev.OriginalDestinationConnectionID.Len() != 0) {
			diffs = append(diffs, fmt.Sprintf("original_destination_connection_id: on the wire %v, recorded %x", present, ev.OriginalDestinationConnectionID.Bytes()))
		}
	}
	if _, present := seen[0x02]; present != (ev.StatelessResetToken != nil) {
		diffs = append(diffs, fmt.Sprintf("stateless_reset_token: on the wire %v, recorded %v", present, ev.StatelessResetToken != nil))
	}
	if _, present := seen[0x10]; present != (ev.RetrySourceConnectionID != nil) {
		diffs = append(diffs, fmt.Sprintf("retry_source_connection_id: on the wire %v, recorded %v", present, ev.RetrySourceConnectionID != nil))
	}
	if _, present := seen[0x0d]; present != (ev.PreferredAddress != nil) {
		diffs = append(diffs, fmt.Sprintf("preferred_address: on the wire %v, recorded %v", present, ev.PreferredAddress != nil))
	}
	u.Class("record:checked")
	if len(diffs) == 0 {
		return nil
	}
	var ids []string
	for _, p := range e.adv.raw {
		ids = append(ids, fmt.Sprintf("%#x=%x", p.ID, p.Value))
	}
	return e.bad(sigRecord, "the client's transport:parameters_set (owner local) differs from the transport parameters in its ClientHello: %s; wire: %s", strings.Join(diffs, "; "), strings.Join(ids, " "))
}
