package c12

// Unit "cid-peer": the client's connection ID manager, limited the way a spec-driven client limits it
// (SetConnectionIDLimit with the advertised active_connection_id_limit, or not called = the built-in limit),
// driven by a peer that uses the advertised limit to the full and stays within it in the sense of RFC 9000 5.1.1:
// at the moment a NEW_CONNECTION_ID frame is sent, the connection IDs the peer has issued, minus those below the
// frame's Retire Prior To, minus those whose RETIRE_CONNECTION_ID the peer has seen, number at most the limit.
// Frames may be retransmitted (duplicates) and reordered (held back and delivered later); the client rotates
// connection IDs on its own. Oracle: connIDManager.Add never returns an error (any error closes the connection
// with a locally generated transport error, which C12 forbids against such a peer).
//
// The end-to-end scenario "cid" of TestLimits uses the in-tree server as the peer, which issues at most 6 IDs and
// never sets Retire Prior To; this unit covers the rest of the limit's domain (limits up to 1000, rotation by
// Retire Prior To at the boundary).

import (
	"fmt"
	"sort"
	"testing"

	quic "github.com/refraction-networking/uquic"
	"github.com/refraction-networking/uquic/internal/protocol"
	"github.com/refraction-networking/uquic/internal/wire"
	"github.com/refraction-networking/uquic/verif/vf"
	"pgregory.net/rapid"
)

type CIDParams struct {
	Limit   int  `json:"limit"`    // 0 = SetConnectionIDLimit is never called (spec without the parameter)
	InitLen int  `json:"init_len"` // length of the server's first connection ID
	HSFirst bool `json:"hs_first"` // handshake completes before the first NEW_CONNECTION_ID frame
}

type CIDOp struct {
	K    string `json:"k"`              // new | deliver | dup | see | hs | sent | get
	RPT  uint64 `json:"rpt,omitempty"`  // new: Retire Prior To of the frame
	Hold bool   `json:"hold,omitempty"` // new: sent now, delivered by a later "deliver"
	Idx  int    `json:"idx,omitempty"`  // deliver / dup: index into held / sent
	N    int    `json:"n,omitempty"`    // sent: number of packets
}

type cidMachine struct {
	p       CIDParams
	limit   int
	m       *quic.VerifConnIDManager
	retires []uint64 // RETIRE_CONNECTION_ID frames queued by the client, not yet seen by the peer
	// peer
	nextSeq    uint64
	rpt        uint64
	peerActive map[uint64]bool
	sent       []*wire.NewConnectionIDFrame
	held       []*wire.NewConnectionIDFrame
	hsDone     bool
	// bookkeeping
	atLimit, rotatedAtLimit, dups, reordered, clientRotations int
	accepted                                                   int
}

func cidFor(seq uint64, n int) protocol.ConnectionID {
	b := make([]byte, n)
	for i := range b {
		b[i] = byte(seq>>(8*uint(i%8))) ^ byte(0x5a+i)
	}
	return protocol.ParseConnectionID(b)
}

func tokenFor(seq uint64) protocol.StatelessResetToken {
	var t protocol.StatelessResetToken
	for i := range t {
		t[i] = byte(seq>>(8*uint(i%8))) ^ byte(0xa5-i)
	}
	return t
}

func newCIDMachine(p CIDParams) vf.Machine[CIDOp] {
	c := &cidMachine{p: p, nextSeq: 1, peerActive: map[uint64]bool{0: true}}
	c.m = quic.VerifNewConnIDManager(cidFor(0, p.InitLen), func(protocol.StatelessResetToken) {}, func(protocol.StatelessResetToken) {},
		func(f wire.Frame) {
			if r, ok := f.(*wire.RetireConnectionIDFrame); ok {
				c.retires = append(c.retires, r.SequenceNumber)
			}
		})
	c.limit = protocol.MaxActiveConnectionIDs
	if p.Limit > 0 {
		c.m.SetConnectionIDLimit(uint64(p.Limit)) // what newUClientConnection does with the advertised value
		c.limit = p.Limit
	}
	if p.HSFirst {
		c.m.SetHandshakeComplete()
		c.hsDone = true
	}
	return c
}

// activeAfter counts the IDs the peer would consider in use after a frame with this Retire Prior To.
func (c *cidMachine) activeAfter(rpt uint64) int {
	n := 1 // the new one
	for s := range c.peerActive {
		if s >= rpt {
			n++
		}
	}
	return n
}

func (c *cidMachine) Gen(t *rapid.T) CIDOp {
	kinds := []string{"new", "new", "new", "new", "see", "sent", "get"}
	if len(c.held) > 0 {
		kinds = append(kinds, "deliver", "deliver")
	}
	if len(c.sent) > 0 {
		kinds = append(kinds, "dup")
	}
	if !c.hsDone {
		kinds = append(kinds, "hs")
	}
	op := CIDOp{K: rapid.SampledFrom(kinds).Draw(t, "k")}
	switch op.K {
	case "new":
		// candidate Retire Prior To values: unchanged, one more, just past each ID still in use, everything
		cands := map[uint64]bool{c.rpt: true, c.rpt + 1: true, c.nextSeq: true}
		for s := range c.peerActive {
			cands[s+1] = true
		}
		var ok []uint64
		for r := range cands {
			if r >= c.rpt && r <= c.nextSeq && c.activeAfter(r) <= c.limit {
				ok = append(ok, r)
			}
		}
		sort.Slice(ok, func(i, j int) bool { return ok[i] < ok[j] })
		// prefer the smallest feasible values: they keep the peer at the limit
		if rapid.IntRange(0, 3).Draw(t, "tight") > 0 {
			ok = ok[:min(len(ok), 2)]
		}
		op.RPT = rapid.SampledFrom(ok).Draw(t, "rpt")
		op.Hold = rapid.IntRange(0, 5).Draw(t, "hold") == 0
	case "deliver":
		op.Idx = rapid.IntRange(0, len(c.held)-1).Draw(t, "idx")
	case "dup":
		op.Idx = rapid.IntRange(0, len(c.sent)-1).Draw(t, "idx")
	case "sent":
		op.N = rapid.SampledFrom([]int{1, 100, 5000, 25000}).Draw(t, "n")
	}
	return op
}

func (c *cidMachine) deliver(f *wire.NewConnectionIDFrame, how string) *vf.Verdict {
	if err := c.m.Add(f); err != nil {
		return vf.Bad("C12/cid/limit", "%s NEW_CONNECTION_ID{seq %d, retire prior to %d}: the client's connection ID manager (limit %d, set=%v) returned %v although the peer had at most %d connection IDs in use when it sent the frame (peer's view now: %v, largest Retire Prior To sent %d)",
			how, f.SequenceNumber, f.RetirePriorTo, c.limit, c.p.Limit > 0, err, c.limit, c.peerView(), c.rpt)
	}
	c.accepted++
	return nil
}

func (c *cidMachine) peerView() []uint64 {
	var v []uint64
	for s := range c.peerActive {
		v = append(v, s)
	}
	sort.Slice(v, func(i, j int) bool { return v[i] < v[j] })
	return v
}

func (c *cidMachine) Apply(op CIDOp) *vf.Verdict {
	switch op.K {
	case "new":
		if op.RPT < c.rpt || op.RPT > c.nextSeq || c.activeAfter(op.RPT) > c.limit {
			return nil // not a conformant frame in this state (shrunk history)
		}
		wasAtLimit := len(c.peerActive) == c.limit
		for s := range c.peerActive {
			if s < op.RPT {
				delete(c.peerActive, s)
			}
		}
		c.rpt = op.RPT
		f := &wire.NewConnectionIDFrame{SequenceNumber: c.nextSeq, RetirePriorTo: op.RPT, ConnectionID: cidFor(c.nextSeq, 8), StatelessResetToken: tokenFor(c.nextSeq)}
		c.peerActive[c.nextSeq] = true
		c.nextSeq++
		c.sent = append(c.sent, f)
		if len(c.peerActive) == c.limit {
			c.atLimit++
			if wasAtLimit {
				c.rotatedAtLimit++
			}
		}
		if op.Hold {
			c.held = append(c.held, f)
			return nil
		}
		return c.deliver(f, "new")
	case "deliver":
		if op.Idx >= len(c.held) {
			return nil
		}
		f := c.held[op.Idx]
		c.held = append(c.held[:op.Idx], c.held[op.Idx+1:]...)
		c.reordered++
		return c.deliver(f, "reordered")
	case "dup":
		if op.Idx >= len(c.sent) {
			return nil
		}
		for _, h := range c.held {
			if h == c.sent[op.Idx] {
				return nil // not delivered for the first time yet: "deliver" does that
			}
		}
		c.dups++
		return c.deliver(c.sent[op.Idx], "retransmitted")
	case "see":
		for _, s := range c.retires {
			if s >= c.nextSeq {
				return vf.Bad("C12/cid/retired-unissued", "the client retired connection ID %d, the peer has only issued up to %d", s, c.nextSeq-1)
			}
			delete(c.peerActive, s)
		}
		c.retires = nil
	case "hs":
		if !c.hsDone {
			c.m.SetHandshakeComplete()
			c.hsDone = true
		}
	case "sent":
		before := c.m.Get()
		for i := 0; i < op.N; i++ {
			c.m.SentPacket()
		}
		if after := c.m.Get(); after != before {
			c.clientRotations++
		}
	case "get":
		c.m.Get()
	}
	return nil
}

func (c *cidMachine) Finish(u *vf.Unit) *vf.Verdict {
	u.Class(fmt.Sprintf("limit:%s", limitClass(c.p.Limit)))
	if c.atLimit > 0 {
		u.Class("peer-at-limit")
	}
	if c.rotatedAtLimit > 0 {
		u.Class("rotation-at-limit")
	}
	if c.dups > 0 {
		u.Class("retransmitted-frame")
	}
	if c.reordered > 0 {
		u.Class("reordered-frame")
	}
	if c.clientRotations > 0 {
		u.Class("client-rotation")
	}
	if c.rotatedAtLimit > 0 && c.accepted >= 3 {
		u.NonTrivial("cid", c.p.Limit, c.rotatedAtLimit, c.dups > 0, c.reordered > 0, c.clientRotations > 0, c.accepted)
	}
	return nil
}

func limitClass(l int) string {
	switch {
	case l == 0:
		return "builtin"
	case l <= 4:
		return "2-4"
	case l <= 8:
		return "5-8"
	default:
		return ">8"
	}
}

func genCIDParams(t *rapid.T) CIDParams {
	return CIDParams{
		Limit:   rapid.OneOf(rapid.Just(0), rapid.IntRange(2, 8), rapid.IntRange(2, 8), rapid.SampledFrom([]int{16, 100, 1000})).Draw(t, "limit"),
		InitLen: rapid.SampledFrom([]int{4, 8, 20}).Draw(t, "initlen"),
		HSFirst: rapid.Bool().Draw(t, "hsfirst"),
	}
}

func TestCIDPeer(t *testing.T) {
	vf.RunMachine(t, "cid-peer", 60, genCIDParams, newCIDMachine)
}
