package c12

import (
	"context"
	"fmt"
	"io"
	"testing"
	"time"

	quic "github.com/refraction-networking/uquic"
	"github.com/refraction-networking/uquic/verif/sim"
	"github.com/refraction-networking/uquic/verif/specgen"
)

func TestProbeStall(t *testing.T) {
	t0 := time.Now()
	sim.Bubble(t, 30*time.Second, func() {
		d := specgen.Desc{Base: "chrome115", TPs: []specgen.TPDesc{{K: "maxdata", N: 1 << 20}, {K: "uni", N: 65536}, {K: "streams_uni", N: 3}, {K: "iscid"}, {K: "idle", N: 30000}}}
		spec, err := d.Build()
		if err != nil {
			panic(err)
		}
		w := sim.NewWorld(20*time.Millisecond, nil, nil, nil)
		w.Observe()
		st := &quic.Transport{Conn: w.ServerConn}
		ln, err := st.Listen(sim.ServerTLS(false, w.ServerKeys), &quic.Config{DisablePathMTUDiscovery: true, MaxIdleTimeout: 600 * time.Second, EnableDatagrams: true})
		if err != nil {
			panic(err)
		}
		ctx, cancel := context.WithTimeout(context.Background(), 300*time.Second)
		wrote := make(chan error, 1)
		go func() {
			conn, err := ln.Accept(ctx)
			if err != nil {
				wrote <- err
				return
			}
			s, err := conn.OpenUniStreamSync(ctx)
			if err != nil {
				wrote <- err
				return
			}
			_, err = s.Write(make([]byte, 200000))
			s.Close()
			wrote <- err
		}()
		ct := &quic.Transport{Conn: w.ClientConn}
		ut := &quic.UTransport{Transport: ct, QUICSpec: spec}
		conn, err := ut.Dial(ctx, sim.ServerAddr, sim.ClientTLS(w.ClientKeys), &quic.Config{DisablePathMTUDiscovery: true})
		if err != nil {
			panic(err)
		}
		str, err := conn.AcceptUniStream(ctx)
		fmt.Println("accept", err)
		n, err := io.Copy(io.Discard, str)
		fmt.Println("drained", n, err, "at", w.Router.Now())
		werr := <-wrote
		fmt.Println("server write:", werr, "at", w.Router.Now())
		fmt.Println("cause:", context.Cause(conn.Context()))
		conn.CloseWithError(0, "")
		cancel()
		ln.Close()
		st.Close()
		ct.Close()
		w.Close()
	}, func(rep sim.LeakReport) { fmt.Println("LEAK", rep.Count, rep.Dump) })
	fmt.Println("wall", time.Since(t0))
}
