package c12

import (
	"context"
	"fmt"
	"io"
	"testing"
	"time"

	quic "github.com/refraction-networking/uquic"
	"github.com/refraction-networking/uquic/verif/sim"
	"github.com/refraction-networking/uquic/verif/specgen"
)

func TestProbe(t *testing.T) {
	for _, base := range []string{"chrome115", "firefoxA"} {
		t0 := time.Now()
		sim.Bubble(t, 30*time.Second, func() {
			spec, err := specgen.Desc{Base: base}.Build()
			if err != nil {
				panic(err)
			}
			w := sim.NewWorld(20*time.Millisecond, nil, nil, nil)
			w.Observe()
			st := &quic.Transport{Conn: w.ServerConn}
			ln, err := st.Listen(sim.ServerTLS(false, w.ServerKeys), &quic.Config{DisablePathMTUDiscovery: true, MaxIdleTimeout: 600 * time.Second, EnableDatagrams: true})
			if err != nil {
				panic(err)
			}
			ctx, cancel := context.WithTimeout(context.Background(), 300*time.Second)
			wrote := make(chan error, 1)
			go func() {
				conn, err := ln.Accept(ctx)
				if err != nil {
					wrote <- err
					return
				}
				s, err := conn.OpenUniStreamSync(ctx)
				if err != nil {
					wrote <- err
					return
				}
				_, err = s.Write(make([]byte, 6291456))
				s.Close()
				wrote <- err
			}()
			ct := &quic.Transport{Conn: w.ClientConn}
			ut := &quic.UTransport{Transport: ct, QUICSpec: spec}
			conn, err := ut.Dial(ctx, sim.ServerAddr, sim.ClientTLS(w.ClientKeys), &quic.Config{DisablePathMTUDiscovery: true, InitialStreamReceiveWindow: 6291456, MaxStreamReceiveWindow: 6291456, InitialConnectionReceiveWindow: 15728640, MaxConnectionReceiveWindow: 15728640})
			if err != nil {
				panic(err)
			}
			tps, ok := w.TransportParams(true)
			fmt.Println(base, ok, len(tps))
			for _, p := range tps {
				fmt.Printf("  %#x=%x", p.ID, p.Value)
			}
			fmt.Println()
			str, err := conn.AcceptUniStream(ctx)
			fmt.Println("accept", err)
			werr := <-wrote
			fmt.Println("server write:", werr, "at", w.Router.Now())
			time.Sleep(200 * time.Millisecond)
			fmt.Println("cause:", context.Cause(conn.Context()))
			if str != nil {
				n, err := io.Copy(io.Discard, str)
				fmt.Println("drained", n, err)
			}
			conn.CloseWithError(0, "")
			cancel()
			ln.Close()
			st.Close()
			ct.Close()
			w.Close()
		}, func(rep sim.LeakReport) { fmt.Println("LEAK", rep.Count, rep.Dump) })
		fmt.Println(base, "wall", time.Since(t0))
	}
}
