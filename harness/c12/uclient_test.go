package c12

// Unit "uclient-datagram-size": a peer may use the advertised max_datagram_frame_size to the full, with
// either encoding of the DATAGRAM frame.
//
// The end-to-end scenario "dgram" of TestLimits uses the in-tree server as the peer: it always writes the
// length field and caps the payload with the very computation a receiver-side limit would use, and it cannot
// send more than fits its 1280-byte packets. This unit builds the spec-driven client connection with the
// production constructor (hook quic.VerifNewUClientConn through package uclient, run loop not started), reads
// max_datagram_frame_size from the ClientHello bytes with independent readers, and lets a scripted server
// deliver DATAGRAM frames encoded by refwire - with length field (type 0x31, minimal or longer varint,
// possibly followed by other frames) and without (type 0x30, last frame of the packet) - whose size on the
// wire (type + length field + payload: RFC 9221 section 3) is exactly the advertised size, just below, just
// above, at the encoding boundaries, and at what fits a packet - through Conn.handleFrames.
//
// Oracle (property C12): max_datagram_frame_size present and > 0 on the wire and frame size on the wire <=
// that value => no error, and ReceiveDatagram hands out exactly that payload (whatever the user's
// Config.EnableDatagrams says: the parameter is on the wire). Frames beyond the advertised size and frames
// for a client that advertised no support are NOT judged (the property only protects a peer within the
// limits); what happens is counted in classes obs:*. The connection's own record of the parameter must equal
// the wire.

import (
	"bytes"
	"fmt"
	"testing"

	"pgregory.net/rapid"

	"github.com/refraction-networking/uquic/internal/protocol"
	"github.com/refraction-networking/uquic/verif/refwire"
	"github.com/refraction-networking/uquic/verif/specgen"
	"github.com/refraction-networking/uquic/verif/uclient"
	"github.com/refraction-networking/uquic/verif/vf"
)

const (
	sigDgramSize     = "C12/datagram/size-limit-below-advertised" // DATAGRAM frame within the advertised max_datagram_frame_size rejected as too large
	sigDgramModified = "C12/datagram/payload-modified"            // ReceiveDatagram returned other bytes than the frame carried
	sigDgramOther    = "C12/datagram/unexpected-error"            // any other error for a DATAGRAM frame within the advertised size
	sigUSetup        = "C12/uclient/setup"
)

// dgPacketFit is the largest DATAGRAM frame the scripted peer sends: what certainly fits a packet the client
// can receive (receive buffer protocol.MaxPacketBufferSize = 1452 bytes, minus short header with a
// connection ID of up to 20 bytes, packet number and AEAD tag).
const dgPacketFit = 1400

// DGFrame is one packet of the scripted server carrying one DATAGRAM frame.
type DGFrame struct {
	Mode     string `json:"mode"`               // adv: size = advertised + Delta | abs: size = Delta | fit: size = dgPacketFit + Delta (Delta <= 0)
	Delta    int    `json:"delta"`              //
	WithLen  bool   `json:"len,omitempty"`      // type 0x31
	LenBytes int    `json:"lenbytes,omitempty"` // with length: force a 2- / 4- / 8-byte varint (0: shortest layout with exactly this size)
	Before   string `json:"before,omitempty"`   // ping | padding : frame preceding the DATAGRAM frame in the packet
	After    string `json:"after,omitempty"`    // with length only: ping | padding | dgram (a second, 5-byte DATAGRAM frame with length)
	Fill     byte   `json:"fill,omitempty"`
}

type DGCase struct {
	Spec   specgen.Desc `json:"spec"`
	Cfg    uclient.Cfg  `json:"cfg"`
	Frames []DGFrame    `json:"frames"`
}

func dgPayload(n int, fill byte) []byte {
	b := make([]byte, n)
	for i := range b {
		b[i] = fill + byte(i*7)
	}
	return b
}

func advClass(adv uint64, has bool) string {
	switch {
	case !has:
		return "adv:absent"
	case adv == 0:
		return "adv:zero"
	case adv <= 67:
		return "adv:1-67"
	case adv < 1200:
		return "adv:68-1199"
	case adv == 1200:
		return "adv:1200"
	case adv <= dgPacketFit:
		return "adv:1201-fit"
	case adv <= 16383:
		return "adv:above-packet"
	default:
		return "adv:above-16383"
	}
}

func checkDG(c DGCase, u *vf.Unit) *vf.Verdict {
	cl, err := uclient.New(c.Spec, c.Cfg)
	if err != nil {
		return vf.Bad(sigUSetup, "cannot build the client connection: %v", err)
	}
	closed := false
	defer func() {
		if !closed {
			cl.Close(nil)
		}
	}()
	has := cl.Adv.Has(refwire.TPMaxDatagramFrameSize)
	adv := cl.Adv.MaxDatagramFrameSize()
	classes := map[string]bool{}
	class := func(l string) { classes[l] = true }
	defer func() {
		for l := range classes {
			u.Class(l)
		}
	}()

	// the connection's record of what it advertised
	if rec := cl.V.AdvertisedRecord(); rec != nil {
		r := rec.MaxDatagramFrameSize
		if (has && uint64(r) != adv) || (!has && r != 0 && r != protocol.InvalidByteCount) {
			return vf.Bad(sigRecord, "max_datagram_frame_size on the wire: present=%v value=%d; the connection's record of its own parameters says %d", has, adv, r)
		}
		class("record:checked")
	}
	if err := cl.Complete(nil); err != nil {
		return vf.Bad(sigUSetup, "handshake completion failed: %v", err)
	}

	class(advClass(adv, has))
	listed, raw, suppressed := len(c.Spec.TPs) == 0, false, false
	for _, tp := range c.Spec.TPs {
		if tp.K == "dgram" {
			listed = true
		}
		if tp.K == "fake" && tp.ID == refwire.TPMaxDatagramFrameSize {
			listed, raw = true, true
		}
	}
	for _, s := range c.Spec.Suppress {
		if s == refwire.TPMaxDatagramFrameSize {
			suppressed = true
		}
	}
	switch {
	case len(c.Spec.TPs) == 0:
		class("form:builtin")
	case raw:
		class("form:raw")
	case listed:
		class("form:typed")
	}
	if listed && suppressed {
		class("adv:suppressed")
	}
	cfgOn := c.Cfg.EnableDatagrams && !c.Cfg.Nil
	if cfgOn {
		class("cfg-datagrams:on")
	} else {
		class("cfg-datagrams:off")
	}

	judged, atBoundary := 0, false
	var sizes []int
	for i, fr := range c.Frames {
		size := fr.Delta
		switch fr.Mode {
		case "adv":
			if adv > dgPacketFit+8 { // the advertised size itself is beyond what a packet carries
				class("adv-beyond-packet:frame-at-packet-fit")
				size = dgPacketFit + min(fr.Delta, 0)
			} else if adv == 0 {
				size = 5 + max(fr.Delta, -fr.Delta) // nothing advertised: any frame will do
			} else {
				size = int(adv) + fr.Delta
			}
		case "fit":
			size = dgPacketFit + min(fr.Delta, 0)
		}
		if size > dgPacketFit {
			size = dgPacketFit
		}
		n, lb, ok := uclient.DatagramLayout(size, fr.WithLen)
		if ok && fr.WithLen && fr.LenBytes > lb {
			// a longer length field than necessary; keep the size on the wire
			if n2 := size - 1 - fr.LenBytes; n2 >= 0 {
				n, lb = n2, fr.LenBytes
			}
		}
		if !ok {
			class("frame-skipped:no-such-size")
			continue
		}
		payload := dgPayload(n, fr.Fill)
		var pkt []byte
		switch fr.Before {
		case "ping":
			pkt = uclient.Encode(uclient.Ping())
		case "padding":
			pkt = uclient.Encode(uclient.Padding(2))
		}
		pkt = append(pkt, uclient.DatagramBytes(payload, lb)...)
		wire := uclient.DatagramWireSize(n, lb)
		if wire != size {
			panic("harness: datagram layout")
		}
		var second []byte
		if fr.WithLen {
			switch fr.After {
			case "ping":
				pkt = append(pkt, uclient.Encode(uclient.Ping())...)
			case "padding":
				pkt = append(pkt, uclient.Encode(uclient.Padding(3))...)
			case "dgram":
				if adv >= 5 {
					second = []byte{0xd1, 0xd2, 0xd3}
					pkt = append(pkt, uclient.DatagramBytes(second, 1)...)
				}
			}
		}
		err := cl.FeedRaw(pkt)
		ei := uclient.Classify(err)
		what := fmt.Sprintf("packet %d: DATAGRAM frame type 0x%02x, %d bytes on the wire (1 type + %d length field + %d payload); max_datagram_frame_size on the wire = %d (present=%v); user Config.EnableDatagrams=%v",
			i+1, 0x30+min(lb, 1), wire, lb, n, adv, has, cfgOn)

		if !has || adv == 0 {
			// no support advertised: not judged
			switch {
			case err == nil:
				class("obs:unsupported-accepted")
				cl.Datagrams()
			case ei.Transport && ei.Code == uclient.CodeFrameEncodingError:
				class("obs:unsupported-frame-encoding-error")
			case ei.Transport && ei.Code == uclient.CodeProtocolViolation:
				class("obs:unsupported-protocol-violation")
			default:
				class("obs:unsupported-other-error")
			}
			if err != nil {
				cl.Close(err)
				closed = true
				break
			}
			continue
		}
		if uint64(wire) > adv {
			// beyond the advertised size: not judged
			class("frame:beyond-advertised")
			if uint64(wire) == adv+1 {
				class("frame:one-above")
			}
			if err == nil {
				class("obs:oversize-accepted")
				cl.Datagrams()
				continue
			}
			if ei.Transport && ei.Code == uclient.CodeProtocolViolation {
				class("obs:oversize-rejected")
			} else {
				class("obs:oversize-other-error")
			}
			cl.Close(err)
			closed = true
			break
		}

		// within the advertised size: judged
		if err != nil {
			switch {
			case ei.Transport && ei.Code == uclient.CodeFrameEncodingError && fr.Before == "" && lb <= 1:
				return vf.Bad(sigDgramOff, "%s: rejected with %v", what, err)
			case ei.Transport && ei.Code == uclient.CodeFrameEncodingError:
				return vf.Bad(sigDgramOff, "%s (preceded by %q): rejected with %v", what, fr.Before, err)
			case ei.Transport && ei.Code == uclient.CodeProtocolViolation:
				return vf.Bad(sigDgramSize, "%s: the peer is within the advertised size but got %v", what, err)
			}
			return vf.Bad(sigDgramOther, "%s: %v", what, err)
		}
		got, rerr := cl.Datagrams()
		want := [][]byte{payload}
		if second != nil {
			want = append(want, second)
		}
		if len(got) != len(want) {
			return vf.Bad(sigDgramLost, "%s: accepted, but ReceiveDatagram handed out %d datagrams instead of %d (then: %v)", what, len(got), len(want), rerr)
		}
		for j := range want {
			if !bytes.Equal(got[j], want[j]) {
				return vf.Bad(sigDgramModified, "%s: ReceiveDatagram returned %d bytes %x..., the frame carried %d bytes %x...", what, len(got[j]), head(got[j]), len(want[j]), head(want[j]))
			}
		}
		judged++
		sizes = append(sizes, wire*4+lb)
		class("frame:within-advertised")
		enc := "no-length-field"
		if lb > 0 {
			enc = "with-length-field"
			if lb > refwire.VarintLen(uint64(n)) {
				class("frame:nonminimal-length")
			}
		}
		switch uint64(wire) {
		case adv:
			atBoundary = true
			class("exact-size-" + enc)
		case adv - 1:
			class("one-below-" + enc)
		}
		if wire == dgPacketFit {
			class("packet-fit-" + enc)
		}
		if n == 0 {
			class("frame:empty-payload")
		}
		if !cfgOn {
			class("within-advertised-config-off")
		}
		if fr.Before != "" || (fr.After != "" && fr.WithLen) {
			class("frame:with-neighbours")
		}
	}
	// non-trivial: a frame at the advertised size (or at what fits a packet when more is advertised) was
	// delivered on a connection whose user Config alone would have advertised something else
	// (nothing when EnableDatagrams is off, 16383 when on)
	cfgAlone := uint64(0)
	if cfgOn {
		cfgAlone = 16383
	}
	if judged > 0 && (atBoundary || adv > dgPacketFit) && adv != cfgAlone {
		u.NonTrivial("dg", adv, has, cfgOn, fmt.Sprint(sizes), c.Spec.Base)
		if u.WantSample() {
			u.Sample(c)
		}
	}
	return nil
}

func head(b []byte) []byte { return b[:min(len(b), 8)] }

// ---- generator ----

func genDGValue(t *rapid.T) uint64 {
	switch rapid.SampledFrom([]int{0, 1, 1, 2, 2, 3, 4, 5}).Draw(t, "dg-cls") {
	case 0:
		return 0
	case 1:
		return rapid.SampledFrom([]uint64{1, 2, 3, 4, 5, 63, 64, 65, 66, 67, 68}).Draw(t, "dg-tiny")
	case 2:
		return rapid.SampledFrom([]uint64{100, 300, 1000, 1199, 1200, 1201, 1252, 1399, 1400}).Draw(t, "dg-packet")
	case 3:
		return uint64(rapid.IntRange(1, dgPacketFit).Draw(t, "dg-any"))
	case 4:
		return rapid.SampledFrom([]uint64{1401, 1452, 1500, 9000, 16382, 16383}).Draw(t, "dg-above-packet")
	}
	return rapid.SampledFrom([]uint64{16384, 65535, 65536, 1 << 30, 1<<62 - 1}).Draw(t, "dg-huge")
}

func genDGSpec(t *rapid.T) specgen.Desc {
	d := specgen.Desc{Base: rapid.SampledFrom(specgen.BaseNames()).Draw(t, "base")}
	if rapid.SampledFrom([]int{0, 1, 1, 1, 1, 1}).Draw(t, "list") == 1 {
		var tps []specgen.TPDesc
		for _, tp := range specgen.GenTPs(t, 0, 6) {
			if tp.K == "dgram" || (tp.K == "fake" && tp.ID == refwire.TPMaxDatagramFrameSize) {
				continue
			}
			tps = append(tps, tp)
		}
		var own *specgen.TPDesc
		switch rapid.SampledFrom([]string{"absent", "typed", "typed", "typed", "raw", "raw-long"}).Draw(t, "dg-form") {
		case "typed":
			own = &specgen.TPDesc{K: "dgram", N: genDGValue(t)}
		case "raw":
			own = &specgen.TPDesc{K: "fake", ID: refwire.TPMaxDatagramFrameSize, V: refwire.AppendVarint(nil, genDGValue(t))}
		case "raw-long": // the value in a longer varint than necessary (legal, RFC 9000 16)
			v := genDGValue(t)
			l := rapid.SampledFrom([]int{4, 8}).Draw(t, "dg-varint")
			if refwire.VarintLen(v) > l {
				l = 8
			}
			own = &specgen.TPDesc{K: "fake", ID: refwire.TPMaxDatagramFrameSize, V: refwire.AppendVarintLen(nil, v, l)}
		}
		if own != nil {
			pos := rapid.IntRange(0, len(tps)).Draw(t, "dg-pos")
			tps = append(tps[:pos:pos], append([]specgen.TPDesc{*own}, tps[pos:]...)...)
		}
		d.TPs = tps
	}
	if rapid.SampledFrom([]int{0, 0, 0, 1}).Draw(t, "suppress") == 1 {
		pool := []uint64{refwire.TPMaxDatagramFrameSize, refwire.TPMaxDatagramFrameSize, refwire.TPInitialMaxStreamsBidi, refwire.TPInitialMaxData, 27, 0x4752}
		n := rapid.SampledFrom([]int{1, 1, 2}).Draw(t, "nsupp")
		for i := 0; i < n; i++ {
			d.Suppress = append(d.Suppress, rapid.SampledFrom(pool).Draw(t, "supp"))
		}
	}
	if rapid.SampledFrom([]int{0, 0, 1}).Draw(t, "e-rand") == 1 {
		b := true
		d.Randomize = &b
	}
	if rapid.SampledFrom([]int{0, 0, 1}).Draw(t, "e-src") == 1 {
		n := rapid.SampledFrom([]int{0, 4, 8, 20}).Draw(t, "src")
		d.SrcCID = &n
	}
	return d
}

func genDGFrames(t *rapid.T) []DGFrame {
	n := rapid.SampledFrom([]int{1, 2, 3, 4, 6, 8}).Draw(t, "nframes")
	// frames beyond the advertised size end the connection when the client enforces it; most scripts keep
	// them for the end
	conformant := rapid.SampledFrom([]bool{true, true, false}).Draw(t, "conformant")
	var out []DGFrame
	for i := 0; i < n; i++ {
		fr := DGFrame{WithLen: rapid.Bool().Draw(t, "withlen"), Fill: rapid.Byte().Draw(t, "fill")}
		switch rapid.SampledFrom([]string{"adv", "adv", "adv", "adv", "abs", "fit"}).Draw(t, "mode") {
		case "adv":
			fr.Mode = "adv"
			deltas := []int{0, 0, 0, -1, -1, -2, -3, -64}
			if !conformant || i == n-1 {
				deltas = append(deltas, 1, 1, 2, 3)
			}
			fr.Delta = rapid.SampledFrom(deltas).Draw(t, "delta")
		case "abs":
			fr.Mode = "abs"
			fr.Delta = rapid.SampledFrom([]int{1, 2, 3, 10, 64, 65, 66, 67, 68, 500, 1199, 1200, 1201}).Draw(t, "size")
		case "fit":
			fr.Mode = "fit"
			fr.Delta = -rapid.SampledFrom([]int{0, 0, 1, 2, 100}).Draw(t, "below-fit")
		}
		if fr.WithLen {
			fr.LenBytes = rapid.SampledFrom([]int{0, 0, 0, 2, 4, 8}).Draw(t, "lenbytes")
			fr.After = rapid.SampledFrom([]string{"", "", "ping", "padding", "dgram"}).Draw(t, "after")
		}
		fr.Before = rapid.SampledFrom([]string{"", "", "", "ping", "padding"}).Draw(t, "before")
		out = append(out, fr)
	}
	return out
}

func genDGCase(t *rapid.T) DGCase {
	return DGCase{Spec: genDGSpec(t), Cfg: uclient.GenCfg(t), Frames: genDGFrames(t)}
}

func TestUClientDatagramSize(t *testing.T) {
	vf.RunRapid(t, "uclient-datagram-size", genDGCase, checkDG)
}
