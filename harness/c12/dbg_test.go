package c12

import (
	"encoding/json"
	"fmt"
	"os"
	"testing"

	"github.com/refraction-networking/uquic/verif/vf"
)

func TestDbg(t *testing.T) {
	curT = t
	var c Case
	if err := json.Unmarshal([]byte(os.Getenv("C12_CASE")), &c); err != nil {
		t.Fatal(err)
	}
	u := vf.Scratch()
	for _, sc := range c.Scen {
		var r result
		var lv *vf.Verdict
		simBubble(func() { r = runScenario(c, sc, u) }, &lv)
		fmt.Printf("scenario %s: skip=%q nt=%q leak=%v\n", describe(sc), r.skip, r.nontrivial, lv)
		for _, v := range r.verdicts {
			fmt.Printf("  %s: %s\n", v.Sig, v.Detail)
		}
	}
}
