package c12

import (
	"encoding/json"
	"fmt"
	"os"
	"strconv"
	"testing"

	"github.com/refraction-networking/uquic/verif/vf"
)

// TestDbg runs one hand-written Case (C12_CASE=<json>) and prints what each scenario found.
func TestDbg(t *testing.T) {
	if os.Getenv("C12_CASE") == "" {
		t.Skip("development aid: set C12_CASE to a Case in JSON form")
	}
	curT = t
	var c Case
	if err := json.Unmarshal([]byte(os.Getenv("C12_CASE")), &c); err != nil {
		t.Fatal(err)
	}
	u := vf.Scratch()
	rep, _ := strconv.Atoi(os.Getenv("C12_REPEAT"))
	for i := 0; i < rep; i++ {
		for _, sc := range c.Scen {
			var r result
			var lv *vf.Verdict
			simBubble(func() { r = runScenario(c, sc, u) }, &lv)
			for _, v := range r.verdicts {
				if v.Sig != sigRecord {
					b, _ := json.Marshal(v.Trace)
					fmt.Printf("run %d: %s: %s\n%s\n", i, v.Sig, v.Detail, b)
					return
				}
			}
		}
	}
	for _, sc := range c.Scen {
		var r result
		var lv *vf.Verdict
		simBubble(func() { r = runScenario(c, sc, u) }, &lv)
		fmt.Printf("scenario %s: skip=%q nt=%q leak=%v\n", describe(sc), r.skip, r.nontrivial, lv)
		for _, v := range r.verdicts {
			fmt.Printf("  %s: %s\n", v.Sig, v.Detail)
		}
	}
}
