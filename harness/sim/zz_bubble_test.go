package sim

import (
	"testing"
	"time"
)

func TestBubbleLeakVerdictSurvives(t *testing.T) {
	got := 0
	Bubble(t, time.Second, func() {
		ch := make(chan struct{})
		go func() { <-ch }()
	}, func(rep LeakReport) { got = rep.Count })
	if got != 1 {
		t.Fatalf("leak report count %d, want 1", got)
	}
}
