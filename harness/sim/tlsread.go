package sim

import (
	"encoding/binary"
	"errors"
)

// Independent, minimal TLS 1.3 handshake message reader (RFC 8446 section 4) for the wire observer:
// ClientHello fields, extension list in order, and the extensions of EncryptedExtensions.

type TLSExtension struct {
	ID   uint16 `json:"id"`
	Data []byte `json:"data"`
}

type ClientHello struct {
	LegacyVersion uint16
	Random        []byte
	SessionID     []byte
	CipherSuites  []uint16
	Compression   []byte
	Extensions    []TLSExtension
	Raw           []byte // the whole handshake message including the 4-byte header
}

var errTLS = errors.New("tls: malformed handshake message")

type rd struct {
	b   []byte
	err bool
}

func (r *rd) take(n int) []byte {
	if r.err || n < 0 || len(r.b) < n {
		r.err = true
		return nil
	}
	x := r.b[:n]
	r.b = r.b[n:]
	return x
}
func (r *rd) u8() int {
	x := r.take(1)
	if x == nil {
		return 0
	}
	return int(x[0])
}
func (r *rd) u16() int {
	x := r.take(2)
	if x == nil {
		return 0
	}
	return int(binary.BigEndian.Uint16(x))
}
func (r *rd) u24() int {
	x := r.take(3)
	if x == nil {
		return 0
	}
	return int(x[0])<<16 | int(x[1])<<8 | int(x[2])
}

// HandshakeMessages splits a TLS handshake byte stream into (type, body, raw) triples; it stops at the
// first incomplete message and reports how many bytes were consumed.
func HandshakeMessages(stream []byte) (msgs []struct {
	Type byte
	Body []byte
	Raw  []byte
}, consumed int) {
	for len(stream)-consumed >= 4 {
		b := stream[consumed:]
		n := int(b[1])<<16 | int(b[2])<<8 | int(b[3])
		if len(b) < 4+n {
			break
		}
		msgs = append(msgs, struct {
			Type byte
			Body []byte
			Raw  []byte
		}{b[0], b[4 : 4+n], b[:4+n]})
		consumed += 4 + n
	}
	return
}

func parseExtensions(b []byte) ([]TLSExtension, error) {
	r := &rd{b: b}
	var out []TLSExtension
	for len(r.b) > 0 && !r.err {
		id := r.u16()
		n := r.u16()
		d := r.take(n)
		if r.err {
			return nil, errTLS
		}
		out = append(out, TLSExtension{uint16(id), d})
	}
	return out, nil
}

// ParseClientHello parses one complete ClientHello handshake message (with its 4-byte header).
func ParseClientHello(msg []byte) (*ClientHello, error) {
	if len(msg) < 4 || msg[0] != 1 {
		return nil, errTLS
	}
	n := int(msg[1])<<16 | int(msg[2])<<8 | int(msg[3])
	if len(msg) != 4+n {
		return nil, errTLS
	}
	r := &rd{b: msg[4:]}
	ch := &ClientHello{Raw: msg}
	ch.LegacyVersion = uint16(r.u16())
	ch.Random = r.take(32)
	ch.SessionID = r.take(r.u8())
	cs := r.take(r.u16())
	if r.err || len(cs)%2 != 0 {
		return nil, errTLS
	}
	for i := 0; i < len(cs); i += 2 {
		ch.CipherSuites = append(ch.CipherSuites, binary.BigEndian.Uint16(cs[i:]))
	}
	ch.Compression = r.take(r.u8())
	if r.err {
		return nil, errTLS
	}
	if len(r.b) == 0 {
		return ch, nil
	}
	ext := r.take(r.u16())
	if r.err || len(r.b) != 0 {
		return nil, errTLS
	}
	var err error
	ch.Extensions, err = parseExtensions(ext)
	return ch, err
}

// Ext returns the first extension with the given id.
func (c *ClientHello) Ext(id uint16) ([]byte, bool) {
	for _, e := range c.Extensions {
		if e.ID == id {
			return e.Data, true
		}
	}
	return nil, false
}

// SNI returns the host_name of the server_name extension.
func (c *ClientHello) SNI() string {
	d, ok := c.Ext(0)
	if !ok {
		return ""
	}
	r := &rd{b: d}
	l := r.take(r.u16())
	r2 := &rd{b: l}
	for len(r2.b) > 0 && !r2.err {
		t := r2.u8()
		name := r2.take(r2.u16())
		if t == 0 && !r2.err {
			return string(name)
		}
	}
	return ""
}

// ALPN returns the protocol list of the ALPN extension.
func (c *ClientHello) ALPN() []string {
	d, ok := c.Ext(16)
	if !ok {
		return nil
	}
	r := &rd{b: d}
	l := &rd{b: r.take(r.u16())}
	var out []string
	for len(l.b) > 0 && !l.err {
		out = append(out, string(l.take(l.u8())))
	}
	return out
}

// KeyShareGroups returns (group, key length) pairs of the key_share extension.
func (c *ClientHello) KeyShareGroups() [][2]int {
	d, ok := c.Ext(51)
	if !ok {
		return nil
	}
	r := &rd{b: d}
	l := &rd{b: r.take(r.u16())}
	var out [][2]int
	for len(l.b) > 0 && !l.err {
		g := l.u16()
		k := l.take(l.u16())
		out = append(out, [2]int{g, len(k)})
	}
	return out
}

// IsGREASE16 reports whether a 16-bit TLS codepoint is a GREASE value (RFC 8701).
func IsGREASE16(v uint16) bool { return v&0x0f0f == 0x0a0a && v>>8 == v&0xff }

// EncryptedExtensions parses an EncryptedExtensions body.
func EncryptedExtensions(body []byte) ([]TLSExtension, error) {
	r := &rd{b: body}
	ext := r.take(r.u16())
	if r.err {
		return nil, errTLS
	}
	return parseExtensions(ext)
}

// ServerHelloSuite returns the cipher suite selected in a ServerHello body.
func ServerHelloSuite(body []byte) (uint16, bool) {
	r := &rd{b: body}
	r.u16()
	r.take(32)
	r.take(r.u8())
	s := r.u16()
	return uint16(s), !r.err
}
