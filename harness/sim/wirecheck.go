package sim

import (
	"crypto/sha256"
	"fmt"
	"sort"
	"time"

	"github.com/refraction-networking/uquic/verif/refwire"
)

// WireFinding is a violation of a wire-level invariant found by WireCheck.
type WireFinding struct {
	Sig    string
	Detail string
}

// WireOptions relaxes individual checks for scenarios in which they do not apply.
type WireOptions struct {
	AllowStatelessReset bool // undecryptable short-header datagrams from an endpoint may be stateless resets
	SkipFlowControl     bool
	// AliveUntil > 0: both connections were observed alive (no error) at this virtual time; enables the
	// "ACK due no later than max_ack_delay after arrival" check for packets that arrived well before it.
	AliveUntil time.Duration
	// FromSeq > 0: only the datagrams from this log position on are judged (a scenario that ran a preparatory
	// connection first - e.g. to obtain a session ticket - passes the Router.Mark / ArmAll value taken in between, after
	// the preparatory connection has gone quiet); transport parameters are then read from that part of the log too.
	FromSeq int
	// ZeroRTTSameLimits: the server configuration did not change since the session ticket was issued, so the limits the
	// client remembers for 0-RTT are the server's new transport parameters: STREAM frames in 0-RTT packets (the
	// observer opens them when it was given the resumption PSK) are held to the same limits as 1-RTT ones.
	ZeroRTTSameLimits bool
	// ZeroRTTAccepted: the client reports that the server accepted its 0-RTT data (ConnectionState().Used0RTT) in a
	// scenario in which nothing entitles the server to reject it; enables the "intact packets are opened by the peer"
	// check for 0-RTT packets (openedByPeerCheck).
	ZeroRTTAccepted bool
}

func space(kind string) string {
	switch kind {
	case "initial":
		return "initial"
	case "handshake":
		return "handshake"
	case "0rtt", "1rtt":
		return "app"
	}
	return ""
}

// TransportParams extracts the quic_transport_parameters of one side from the observed CRYPTO streams
// (client: ClientHello; server: EncryptedExtensions). It returns the raw ordered list.
func (w *World) TransportParams(client bool) ([]refwire.TransportParameter, bool) {
	o := w.Obs
	if o == nil {
		return nil, false
	}
	o.mu.Lock()
	defer o.mu.Unlock()
	if client {
		return TransportParamsFrom(o.Packets[C2S], true)
	}
	return TransportParamsFrom(o.Packets[S2C], false)
}

// TransportParamsFrom extracts the quic_transport_parameters from the CRYPTO frames of the given packets of ONE
// connection and one direction (client: ClientHello in Initial packets; server: EncryptedExtensions in
// Handshake packets).
func TransportParamsFrom(pkts []*Packet, client bool) ([]refwire.TransportParameter, bool) {
	if client {
		data, _, _, _ := CryptoStream(pkts, "initial")
		msgs, _ := HandshakeMessages(data)
		for _, m := range msgs {
			if m.Type == 1 {
				ch, err := ParseClientHello(m.Raw)
				if err != nil {
					return nil, false
				}
				for _, id := range []uint16{0x39, 0xffa5} {
					if d, ok := ch.Ext(id); ok {
						ps, err := refwire.ParseTransportParameters(d)
						return ps, err == nil
					}
				}
			}
		}
		return nil, false
	}
	data, _, _, _ := CryptoStream(pkts, "handshake")
	msgs, _ := HandshakeMessages(data)
	for _, m := range msgs {
		if m.Type == 8 {
			exts, err := EncryptedExtensions(m.Body)
			if err != nil {
				return nil, false
			}
			for _, e := range exts {
				if e.ID == 0x39 || e.ID == 0xffa5 {
					ps, err := refwire.ParseTransportParameters(e.Data)
					return ps, err == nil
				}
			}
		}
	}
	return nil, false
}

// TPValue returns the varint value of the first parameter with the given id.
func TPValue(ps []refwire.TransportParameter, id uint64) (uint64, bool) {
	for _, p := range ps {
		if p.ID == id {
			v, err := refwire.TPVarint(p.Value)
			return v, err == nil
		}
	}
	return 0, false
}

// WireCheck inspects everything the endpoints put on the wire during the run (single connection worlds).
func (w *World) WireCheck(opt WireOptions) []WireFinding {
	var out []WireFinding
	add := func(sig, f string, a ...any) {
		if len(out) < 8 {
			out = append(out, WireFinding{sig, fmt.Sprintf(f, a...)})
		}
	}
	r := w.Router
	r.mu.Lock()
	log := append([]*Record(nil), r.Log...)
	r.mu.Unlock()
	if opt.FromSeq > 0 && opt.FromSeq <= len(log) {
		log = log[opt.FromSeq:]
	}

	// ---- C05(b): every genuine packet opens with independently derived keys to well-formed frames;
	// packet numbers are never reused within a space.
	type pnKey struct {
		dir   string
		space string
		pn    uint64
	}
	seenPN := map[pnKey][32]byte{}
	for _, rec := range log {
		if rec.Forged {
			continue
		}
		pkts, _ := rec.Pkts.([]*Packet)
		for _, p := range pkts {
			switch p.Kind {
			case "undecryptable":
				if opt.AllowStatelessReset && !refwire.IsLongHeader(p.Raw[0]) {
					continue
				}
				add("C05/wire/undecryptable", "datagram #%d (%s, t=%v): %s (len %d, first byte %#x)", rec.Seq, rec.Dir, rec.T, p.Err, p.Len, p.Raw[0])
			case "garbage":
				add("C05/wire/malformed-packet", "datagram #%d (%s): %s", rec.Seq, rec.Dir, p.Err)
			case "initial", "handshake", "0rtt", "1rtt":
				if p.Err != "" {
					add("C05/wire/malformed-frames", "datagram #%d (%s) %s pn %d: %s", rec.Seq, rec.Dir, p.Kind, p.PN, p.Err)
				}
				if p.V2KULabelFallback {
					add("C05/keyupdate/v2-uses-v1-ku-label", "datagram #%d (%s): 1-RTT packet pn %d of key generation %d opens only with keys derived with the v1 label \"quic ku\" on a QUIC v2 connection (RFC 9369 3.3.2 requires \"quicv2 ku\")", rec.Seq, rec.Dir, p.PN, p.KeyGen)
				}
				k := pnKey{rec.Dir, space(p.Kind), p.PN}
				if p.Kind == "1rtt" {
					// such a second connection attempt has its own 1-RTT keys and numbers its 0.5-RTT packets from 0 again
					k.space += fmt.Sprintf("/conn%d", p.Conn)
				} else {
					// a late duplicate of the client's first Initial can make the server start a second connection
					// attempt with the same Initial keys; long-header packets are told apart by their source connection ID
					k.space += fmt.Sprintf("/%x", p.SCID)
				}
				h := sha256.Sum256(p.Raw)
				if old, ok := seenPN[k]; ok && old != h {
					add("C05/wire/pn-reuse", "%s %s packet number %d used for two different packets (second in datagram #%d)", rec.Dir, k.space, p.PN, rec.Seq)
				}
				seenPN[k] = h
				for _, f := range p.Frames {
					lvl := map[string]int{"initial": 0, "0rtt": 1, "handshake": 2, "1rtt": 3}[p.Kind]
					if !refwire.AllowedIn(f.Type, lvl) {
						add("C05/wire/frame-not-allowed", "datagram #%d (%s): frame %s (type %#x) in a %s packet", rec.Seq, rec.Dir, f.Name, f.Type, p.Kind)
					}
				}
			}
		}
	}

	// ---- C05(c): the truncated packet number decodes to the true one given what the sender knows to be acknowledged
	// (RFC 9000 17.1: the encoding must cover more than twice the distance to the largest acknowledged packet). Checked
	// for Handshake and 1-RTT packets; the length of Initial packet numbers may be pinned by a spec (its own duty).
	{
		type ackSeen struct {
			t       time.Duration
			largest uint64
		}
		for _, dir := range []string{"c2s", "s2c"} {
			for _, sp := range []string{"handshake", "app"} {
				// ACKs for dir's packets travel the other way and are known to the sender once delivered intact
				var known []ackSeen
				for _, rec := range log {
					if rec.Dir == dir || rec.Forged || rec.Mutated || len(rec.Dlv) == 0 {
						continue
					}
					pkts, _ := rec.Pkts.([]*Packet)
					for _, p := range pkts {
						if space(p.Kind) != sp {
							continue
						}
						for _, f := range p.Frames {
							if f.Name == refwire.NameAck && len(f.AckRanges) > 0 {
								known = append(known, ackSeen{rec.Dlv[0], f.AckRanges[0].Largest})
							}
						}
					}
				}
				sort.SliceStable(known, func(i, j int) bool { return known[i].t < known[j].t })
				ki, largestAcked, any := 0, uint64(0), false
				for _, rec := range log {
					if rec.Dir != dir || rec.Forged {
						continue
					}
					// strictly earlier deliveries only: an ACK handed over in the same instant may not have been processed yet
					for ki < len(known) && known[ki].t < rec.T {
						if !any || known[ki].largest > largestAcked {
							largestAcked, any = known[ki].largest, true
						}
						ki++
					}
					pkts, _ := rec.Pkts.([]*Packet)
					for _, p := range pkts {
						if space(p.Kind) != sp || p.Kind == "0rtt" || p.PNLen == 0 {
							continue
						}
						unacked := p.PN + 1 // nothing acknowledged yet: distance to "-1"
						if any {
							if p.PN <= largestAcked {
								continue
							}
							unacked = p.PN - largestAcked
						}
						if p.PNLen < 4 && 2*unacked >= uint64(1)<<(8*uint(p.PNLen)) {
							add("C05/wire/pn-length-insufficient", "datagram #%d (%s, t=%v): %s packet number %d is sent with a %d-byte encoding although the largest packet number the sender knows to be acknowledged is %d (known=%v): a receiver that has seen nothing since cannot decode it (RFC 9000 17.1 / A.2)", rec.Seq, rec.Dir, rec.T, p.Kind, p.PN, p.PNLen, largestAcked, any)
						}
					}
				}
			}
		}
	}

	// ---- C07(b): an endpoint acknowledges only packet numbers of packets that were delivered to it.
	type dl struct {
		t       time.Duration
		certain bool
	}
	delivered := map[pnKey]time.Duration{} // earliest possible delivery time of (dir of the acked packet, space, pn)
	for _, rec := range log {
		if len(rec.Dlv) == 0 {
			continue
		}
		pkts, _ := rec.Pkts.([]*Packet)
		for _, p := range pkts {
			if sp := space(p.Kind); sp != "" {
				k := pnKey{rec.Dir, sp, p.PN}
				if old, ok := delivered[k]; !ok || rec.Dlv[0] < old {
					delivered[k] = rec.Dlv[0]
				}
			}
		}
	}
	for _, rec := range log {
		if rec.Forged {
			continue
		}
		other := "s2c"
		if rec.Dir == "s2c" {
			other = "c2s"
		}
		pkts, _ := rec.Pkts.([]*Packet)
		for _, p := range pkts {
			sp := space(p.Kind)
			if sp == "" {
				continue
			}
			for _, f := range p.Frames {
				if f.Name != refwire.NameAck {
					continue
				}
				for i, rg := range f.AckRanges {
					if rg.Smallest > rg.Largest || (i > 0 && !(f.AckRanges[i-1].Smallest > rg.Largest+1)) {
						add("C07/wire/ack-malformed", "datagram #%d (%s) %s: ACK ranges not descending and disjoint: %v", rec.Seq, rec.Dir, p.Kind, f.AckRanges)
						break
					}
					if rg.Largest-rg.Smallest > 1<<20 {
						add("C07/wire/ack-not-received", "datagram #%d (%s) %s: absurd ACK range %v", rec.Seq, rec.Dir, p.Kind, rg)
						break
					}
					for pn := rg.Smallest; pn <= rg.Largest; pn++ {
						t, ok := delivered[pnKey{other, sp, pn}]
						if !ok || t > rec.T {
							add("C07/wire/ack-not-received", "datagram #%d (%s, t=%v) %s packet acknowledges pn %d, which had not been delivered to the sender of the ACK at that time (delivered: %v at %v); ranges %v", rec.Seq, rec.Dir, rec.T, p.Kind, pn, ok, t, f.AckRanges)
							break
						}
					}
				}
			}
		}
	}

	// ---- C07(c): every ack-eliciting 1-RTT packet that arrives in order on an established, living connection is
	// covered by an ACK frame its receiver sends no later than max_ack_delay after the arrival (ACK-only packets are
	// neither congestion controlled nor paced).
	if opt.AliveUntil > 0 {
		out = append(out, ackDueCheck(log, opt.AliveUntil)...)
	}

	// ---- C05(d): a packet the sender protected correctly (the observer opens it with independently derived keys) that
	// reaches the peer intact while the peer holds the keys of that level is opened by the peer: the peer acknowledges it.
	{
		fs, judged := openedByPeerCheck(log, opt)
		out = append(out, fs...)
		w.mu.Lock()
		if w.Judged == nil {
			w.Judged = map[string]int{}
		}
		for k, v := range judged {
			w.Judged[k] += v
		}
		w.mu.Unlock()
	}

	// ---- C04(c): senders stay within the limits delivered to them.
	if !opt.SkipFlowControl {
		out = append(out, w.flowControlCheck(log, opt)...)
	}
	return out
}

// openedByPeerCheck: see NOTES.md of c05, section "wire-packets: intact packets are opened by the peer".
//
// 0-RTT (client -> server), only when the server accepted 0-RTT. A 0-RTT packet P is judged when
//   - the observer opened it (the client protected it correctly) and it is ack-eliciting,
//   - it was delivered intact; td = first delivery,
//   - the server demonstrably held the 0-RTT keys before td: it had SENT a Handshake or 1-RTT packet at a time < td (the
//     keys of all three levels are installed while it processes the ClientHello; 0-RTT packets that arrive earlier are
//     queued with a limit and may be dropped: server.go zeroRTTQueue, protocol.Max0RTTQueueLen / MaxUndecryptablePackets),
//   - it still held them: td is earlier than the first delivery of a short-header datagram of the client and not later
//     than the delivery of the client's Finished (cryptoSetup.Get1RTTOpener drops the 0-RTT opener 3 PTO after
//     handshakeCompleteTime, which is the zero time until the handshake completes: in effect with the first 1-RTT
//     packet that arrives, as RFC 9001 4.9.3 allows),
//   - after a Retry: it carries the connection ID chosen by the Retry (earlier ones are not routed to the connection),
//   - it arrived in order: its packet number is above every application-data packet number delivered at an earlier
//     instant (a late packet may lie below the "ignore packets below" mark and is dropped as a possible duplicate),
//   - the received-packet history cannot have overflowed (protocol.MaxNumAckRanges ranges): the number of
//     application-data packets sent until td + max_ack_delay that had not arrived intact by then, plus the largest
//     number of datagrams delivered in one instant in that period (their processing order is arbitrary), is below 30,
//   - the server was alive and able to send afterwards: it sent a 1-RTT packet without CONNECTION_CLOSE at a time
//     >= td + max_ack_delay + slack, before any CONNECTION_CLOSE appeared on the wire.
// Then some ACK frame in a 1-RTT packet the server sent at a time >= td covers P's packet number (fate of that packet
// irrelevant). Duplicates are harmless (the first intact copy counts).
//
// Handshake (server -> client): a Handshake packet of the server is judged likewise when the client had sent a
// Handshake packet at a time < td (it holds the Handshake keys), td is earlier than the first delivery of a 1-RTT packet
// with HANDSHAKE_DONE or an ACK frame (the client drops the Handshake keys when the handshake is confirmed) and the client sent a Handshake packet
// again at a time >= td (Handshake packets are acknowledged without delay): an ACK frame in a Handshake packet of the
// client sent at a time >= td covers it.
func openedByPeerCheck(log []*Record, opt WireOptions) (out []WireFinding, judged map[string]int) {
	judged = map[string]int{}
	type pk struct {
		rec *Record
		p   *Packet
	}
	var c2sApp, zero, sHS []pk
	var sAcks, cHSAcks []pk // packets carrying ACK frames: server 1-RTT, client Handshake
	tServerKeys, tClientHSKeys := time.Duration(-1), time.Duration(-1)
	tClientFin, tHSDone, firstClose := time.Duration(-1), time.Duration(-1), time.Duration(-1)
	tFirstShort := time.Duration(-1) // first delivery of a datagram of the client that contains a short-header packet
	var retrySCID []byte
	var serverLive, clientHSSends []time.Duration // send times of server 1-RTT packets without CONNECTION_CLOSE; of client Handshake packets
	for _, rec := range log {
		if rec.Forged {
			continue
		}
		pkts, _ := rec.Pkts.([]*Packet)
		intact := len(rec.Dlv) > 0 && !rec.Mutated
		for _, p := range pkts {
			if rec.Dir == "c2s" && len(rec.Dlv) > 0 && len(p.Raw) > 0 && !refwire.IsLongHeader(p.Raw[0]) && p.Kind != "dgram-padding" {
				if tFirstShort < 0 || rec.Dlv[0] < tFirstShort {
					tFirstShort = rec.Dlv[0]
				}
			}
			hasAck, hasCrypto, hasClose, hasDone := false, false, false, false
			for _, f := range p.Frames {
				switch f.Name {
				case refwire.NameAck:
					hasAck = true
				case refwire.NameCrypto:
					hasCrypto = true
				case refwire.NameConnectionClose:
					hasClose = true
				case refwire.NameHandshakeDone:
					hasDone = true
				}
			}
			if hasClose && (firstClose < 0 || rec.T < firstClose) {
				firstClose = rec.T
			}
			if rec.Dir == "c2s" {
				switch p.Kind {
				case "0rtt", "1rtt":
					c2sApp = append(c2sApp, pk{rec, p})
					if p.Kind == "0rtt" {
						zero = append(zero, pk{rec, p})
					}
				case "handshake":
					clientHSSends = append(clientHSSends, rec.T)
					if tClientHSKeys < 0 || rec.T < tClientHSKeys {
						tClientHSKeys = rec.T
					}
					if hasAck {
						cHSAcks = append(cHSAcks, pk{rec, p})
					}
					if hasCrypto && intact && (tClientFin < 0 || rec.Dlv[0] < tClientFin) {
						tClientFin = rec.Dlv[0]
					}
				}
			} else {
				switch p.Kind {
				case "retry":
					retrySCID = p.SCID
				case "handshake", "1rtt":
					if tServerKeys < 0 || rec.T < tServerKeys {
						tServerKeys = rec.T
					}
					if p.Kind == "handshake" {
						sHS = append(sHS, pk{rec, p})
					} else {
						if hasAck {
							sAcks = append(sAcks, pk{rec, p})
						}
						if !hasClose {
							serverLive = append(serverLive, rec.T)
						}
						// the client drops its Handshake keys when the handshake is confirmed: HANDSHAKE_DONE, or an
						// acknowledgement for a 1-RTT packet (any delivered 1-RTT ACK is taken as one)
						if (hasDone || hasAck) && len(rec.Dlv) > 0 && (tHSDone < 0 || rec.Dlv[0] < tHSDone) {
							tHSDone = rec.Dlv[0]
						}
					}
				}
			}
		}
	}
	covered := func(acks []pk, pn uint64, from time.Duration) bool {
		for _, a := range acks {
			if a.rec.T < from {
				continue
			}
			for _, f := range a.p.Frames {
				if f.Name != refwire.NameAck {
					continue
				}
				for _, rg := range f.AckRanges {
					if rg.Smallest <= pn && pn <= rg.Largest {
						return true
					}
				}
			}
		}
		return false
	}
	sentAtOrAfter := func(ts []time.Duration, t time.Duration) bool {
		for _, x := range ts {
			if x >= t && (firstClose < 0 || x < firstClose) {
				return true
			}
		}
		return false
	}
	add := func(sig, f string, a ...any) {
		if len(out) < 3 {
			out = append(out, WireFinding{sig, fmt.Sprintf(f, a...)})
		}
	}

	// ---- 0-RTT
	if opt.ZeroRTTAccepted && tServerKeys >= 0 {
		// deliveries of datagrams to the server per instant (processing order within an instant is arbitrary)
		group := map[time.Duration]int{}
		for _, rec := range log {
			if rec.Dir == "c2s" && !rec.Forged {
				for _, t := range rec.Dlv {
					group[t]++
				}
			}
		}
		for _, z := range zero {
			rec, p := z.rec, z.p
			if !p.AckEliciting || len(rec.Dlv) == 0 || rec.Mutated || p.Err != "" {
				continue
			}
			td := rec.Dlv[0]
			if !(tServerKeys < td) || (tClientFin >= 0 && td > tClientFin) || (tFirstShort >= 0 && td >= tFirstShort) {
				continue
			}
			if retrySCID != nil && !HexEq(p.DCID, retrySCID) {
				continue
			}
			horizon := td + maxAckDelay + ackSlack
			inOrder, gaps := true, 0
			for _, o := range c2sApp {
				if o.p == p {
					continue
				}
				od := time.Duration(-1)
				if len(o.rec.Dlv) > 0 && !o.rec.Mutated {
					od = o.rec.Dlv[0]
				}
				if od >= 0 && od < td && o.p.PN > p.PN {
					inOrder = false
					break
				}
				if o.rec.T <= horizon && (od < 0 || od > horizon) {
					gaps++
				}
			}
			if !inOrder {
				continue
			}
			burst := 0
			for t, n := range group {
				if t >= td && t <= horizon && n > burst {
					burst = n
				}
			}
			if gaps+burst+2 >= 32 {
				judged["0rtt-skipped:history-may-overflow"]++
				continue
			}
			if !sentAtOrAfter(serverLive, horizon) {
				judged["0rtt-skipped:server-not-seen-alive"]++
				continue
			}
			judged["0rtt-judged"]++
			if !covered(sAcks, p.PN, td) {
				add("C05/wire/intact-0rtt-not-opened", "datagram #%d (c2s, sent %v): 0-RTT packet pn %d (ack-eliciting, %d bytes, opens with the early traffic secret derived from the resumption PSK) was delivered intact to the server at %v - after the server had sent its first Handshake/1-RTT packet (%v), before the first short-header packet of the client arrived (%v) and not later than its Finished (%v; -1ns = never), in order, 0-RTT accepted - and the server sent 1-RTT packets afterwards, but no ACK frame the server sent from %v on covers it: the server did not open a correctly protected packet (RFC 9001 5.3-5.4)",
					rec.Seq, rec.T, p.PN, p.Len, td, tServerKeys, tFirstShort, tClientFin, td)
			}
		}
	}

	// ---- Handshake packets of the server
	if tClientHSKeys >= 0 {
		for _, h := range sHS {
			rec, p := h.rec, h.p
			if !p.AckEliciting || len(rec.Dlv) == 0 || rec.Mutated || p.Err != "" {
				continue
			}
			td := rec.Dlv[0]
			if !(tClientHSKeys < td) || (tHSDone >= 0 && td >= tHSDone) {
				continue
			}
			// in order among the server's Handshake packets
			inOrder := true
			for _, o := range sHS {
				if o.p != p && len(o.rec.Dlv) > 0 && !o.rec.Mutated && o.rec.Dlv[0] < td && o.p.PN > p.PN {
					inOrder = false
					break
				}
			}
			if !inOrder || !sentAtOrAfter(clientHSSends, td) {
				continue
			}
			judged["handshake-judged"]++
			if !covered(cHSAcks, p.PN, td) {
				add("C05/wire/intact-handshake-not-opened", "datagram #%d (s2c, sent %v): Handshake packet pn %d (ack-eliciting, %d bytes, opens with the key-log secret) was delivered intact to the client at %v - after the client had sent its first Handshake packet (%v), before a 1-RTT packet with HANDSHAKE_DONE or an ACK reached it (%v; -1ns = never), in order - and the client sent Handshake packets afterwards, but no ACK frame in a Handshake packet it sent from %v on covers it: the client did not open a correctly protected packet",
					rec.Seq, rec.T, p.PN, p.Len, td, tClientHSKeys, tHSDone, td)
			}
		}
	}
	return out, judged
}

const (
	maxAckDelay = 25 * time.Millisecond // protocol.MaxAckDelay: the delay the endpoints themselves use
	ackSlack    = 3 * time.Millisecond
)

func ackDueCheck(log []*Record, aliveUntil time.Duration) []WireFinding {
	var out []WireFinding
	// the connection is established on both sides once an intact HANDSHAKE_DONE has reached the client
	established := time.Duration(-1)
	firstClose := aliveUntil
	for _, rec := range log {
		pkts, _ := rec.Pkts.([]*Packet)
		for _, p := range pkts {
			for _, f := range p.Frames {
				if f.Name == refwire.NameConnectionClose && rec.T < firstClose {
					firstClose = rec.T
				}
				if f.Name == refwire.NameHandshakeDone && p.Kind == "1rtt" && rec.Dir == "s2c" && !rec.Forged && !rec.Mutated && len(rec.Dlv) > 0 {
					if established < 0 || rec.Dlv[0] < established {
						established = rec.Dlv[0]
					}
				}
			}
		}
	}
	if established < 0 {
		return nil
	}
	type ackEv struct {
		t      time.Duration
		ranges []refwire.AckRange
	}
	type arrival struct {
		t   time.Duration
		pn  uint64
		ae  bool
		seq int
	}
	for _, dir := range []string{"c2s", "s2c"} {
		var acks []ackEv // ACK frames sent by the receiver of dir
		var arr []arrival
		for _, rec := range log {
			if rec.Forged {
				continue
			}
			pkts, _ := rec.Pkts.([]*Packet)
			for _, p := range pkts {
				if p.Kind != "1rtt" {
					continue
				}
				if rec.Dir != dir {
					for _, f := range p.Frames {
						if f.Name == refwire.NameAck {
							acks = append(acks, ackEv{rec.T, f.AckRanges})
						}
					}
				} else if !rec.Mutated && len(rec.Dlv) > 0 {
					arr = append(arr, arrival{rec.Dlv[0], p.PN, p.AckEliciting, rec.Seq})
				}
			}
		}
		// the oracle needs to see every ACK of the receiver: if the observer could not open one of its packets
		// (a limitation of the observer, counted in Observer.Undecryptable), this direction is not judged
		blind := false
		for _, rec := range log {
			if rec.Forged || rec.Dir == dir || rec.T < established {
				continue
			}
			pkts, _ := rec.Pkts.([]*Packet)
			for _, p := range pkts {
				if p.Kind == "undecryptable" {
					blind = true
				}
			}
		}
		if blind {
			continue
		}
		sort.SliceStable(arr, func(i, j int) bool { return arr[i].t < arr[j].t })
		sort.SliceStable(acks, func(i, j int) bool { return acks[i].t < acks[j].t })
		// Datagrams handed over in the same virtual instant are processed in an order the log does not show
		// (one timer per datagram), so "in order" can only be decided for a packet that is alone in its instant.
		sameInstant := map[time.Duration]int{}
		for _, rec := range log {
			if rec.Dir == dir {
				for _, t := range rec.Dlv {
					sameInstant[t]++
				}
			}
		}
		largest := int64(-1)
		ai := 0
		for i, a := range arr {
			inOrder := int64(a.pn) > largest && sameInstant[a.t] == 1
			// the whole instant counts as received before anything later
			for j := i; j < len(arr) && arr[j].t == a.t; j++ {
				if int64(arr[j].pn) > largest {
					largest = int64(arr[j].pn)
				}
			}
			if !a.ae || !inOrder || a.t < established || a.t+maxAckDelay+ackSlack+50*time.Millisecond > firstClose {
				continue
			}
			for ai < len(acks) && acks[ai].t < a.t {
				ai++
			}
			covered := false
			for k := ai; k < len(acks) && acks[k].t <= a.t+maxAckDelay+ackSlack && !covered; k++ {
				for _, rg := range acks[k].ranges {
					if rg.Smallest <= a.pn && a.pn <= rg.Largest {
						covered = true
						break
					}
				}
			}
			if !covered {
				next := time.Duration(-1)
				for k := ai; k < len(acks) && next < 0; k++ {
					for _, rg := range acks[k].ranges {
						if rg.Smallest <= a.pn && a.pn <= rg.Largest {
							next = acks[k].t
							break
						}
					}
				}
				var after []string
				for k := ai; k < len(acks) && len(after) < 4; k++ {
					after = append(after, fmt.Sprintf("%v:%v", acks[k].t, acks[k].ranges))
				}
				if len(out) < 4 {
					out = append(out, WireFinding{"C07/wire/ack-overdue", fmt.Sprintf("[next ACKs of the receiver: %v] ack-eliciting 1-RTT packet pn %d (%s, datagram #%d) arrived in order at %v on an established connection that stayed alive; its receiver sent no ACK covering it until %v (first covering ACK: %v; -1ns = never), i.e. later than max_ack_delay %v after the arrival", after, a.pn, dir, a.seq, a.t, a.t+maxAckDelay+ackSlack, next, maxAckDelay)})
				}
			}
		}
	}
	return out
}

const (
	tpInitialMaxData          = 0x04
	tpInitialMaxStreamDataBL  = 0x05
	tpInitialMaxStreamDataBR  = 0x06
	tpInitialMaxStreamDataUni = 0x07
	tpInitialMaxStreamsBidi   = 0x08
	tpInitialMaxStreamsUni    = 0x09
)

func (w *World) flowControlCheck(log []*Record, opt WireOptions) []WireFinding {
	var out []WireFinding
	cps, okc := w.TransportParams(true)
	sps, oks := w.TransportParams(false)
	if opt.FromSeq > 0 {
		var byDir [2][]*Packet
		for _, rec := range log {
			if rec.Forged {
				continue
			}
			d := C2S
			if rec.Dir == "s2c" {
				d = S2C
			}
			pkts, _ := rec.Pkts.([]*Packet)
			byDir[d] = append(byDir[d], pkts...)
		}
		cps, okc = TransportParamsFrom(byDir[C2S], true)
		sps, oks = TransportParamsFrom(byDir[S2C], false)
	}
	if !okc || !oks {
		return nil // handshake did not get far enough
	}
	// limits granted BY side x (index 0 client, 1 server) to its peer
	tp := [2][]refwire.TransportParameter{cps, sps}
	for sender := 0; sender < 2; sender++ {
		recvr := 1 - sender
		dirOut := []string{"c2s", "s2c"}[sender]
		dirIn := []string{"s2c", "c2s"}[sender]
		connLimit, _ := TPValue(tp[recvr], tpInitialMaxData)
		streamLimit := map[uint64]uint64{}
		highest := map[uint64]uint64{}
		var sum uint64
		initialFor := func(id uint64) uint64 {
			uni := id&2 != 0
			initiatedBySender := int(id&1) == sender
			var pid uint64
			switch {
			case uni:
				pid = tpInitialMaxStreamDataUni
			case initiatedBySender:
				pid = tpInitialMaxStreamDataBR // remote-initiated from the receiver's point of view
			default:
				pid = tpInitialMaxStreamDataBL
			}
			v, _ := TPValue(tp[recvr], pid)
			return v
		}
		// events in time order: deliveries of MAX_* to the sender, sends of STREAM by the sender
		type ev struct {
			t    time.Duration
			send bool
			rec  *Record
		}
		var evs []ev
		for _, rec := range log {
			if rec.Forged {
				continue
			}
			if rec.Dir == dirOut {
				evs = append(evs, ev{rec.T, true, rec})
			} else if rec.Dir == dirIn && len(rec.Dlv) > 0 {
				evs = append(evs, ev{rec.Dlv[0], false, rec})
			}
		}
		// stable order by time; deliveries before sends at equal times (lenient)
		for i := 1; i < len(evs); i++ {
			for j := i; j > 0 && (evs[j].t < evs[j-1].t || (evs[j].t == evs[j-1].t && !evs[j].send && evs[j-1].send)); j-- {
				evs[j], evs[j-1] = evs[j-1], evs[j]
			}
		}
		for _, e := range evs {
			pkts, _ := e.rec.Pkts.([]*Packet)
			for _, p := range pkts {
				if p.Kind != "1rtt" && !(p.Kind == "0rtt" && opt.ZeroRTTSameLimits && e.send) { // 0-RTT uses remembered limits
					continue
				}
				for _, f := range p.Frames {
					if !e.send {
						switch f.Name {
						case refwire.NameMaxData:
							if f.Max > connLimit {
								connLimit = f.Max
							}
						case refwire.NameMaxStreamData:
							if f.Max > streamLimit[f.StreamID] {
								streamLimit[f.StreamID] = f.Max
							}
						}
						continue
					}
					if f.Name != refwire.NameStream {
						continue
					}
					end := f.Offset + uint64(len(f.Data))
					lim := streamLimit[f.StreamID]
					if ini := initialFor(f.StreamID); ini > lim {
						lim = ini
					}
					if end > lim {
						out = append(out, WireFinding{"C04/wire/stream-limit-exceeded", fmt.Sprintf("%s datagram #%d (t=%v): STREAM frame on stream %d ends at offset %d, beyond the largest limit %d the peer had delivered by then", dirOut, e.rec.Seq, e.rec.T, f.StreamID, end, lim)})
						return out
					}
					if end > highest[f.StreamID] {
						sum += end - highest[f.StreamID]
						highest[f.StreamID] = end
					}
					if sum > connLimit {
						out = append(out, WireFinding{"C04/wire/connection-limit-exceeded", fmt.Sprintf("%s datagram #%d (t=%v): total stream data %d exceeds the connection limit %d delivered by then", dirOut, e.rec.Seq, e.rec.T, sum, connLimit)})
						return out
					}
				}
			}
		}
	}
	// No sender went beyond a limit it had been given. A receiver that nevertheless closes the connection with
	// FLOW_CONTROL_ERROR enforces less than it advertised (its limits can only be larger than what had reached the sender).
	for _, rec := range log {
		if rec.Forged {
			continue
		}
		pkts, _ := rec.Pkts.([]*Packet)
		for _, p := range pkts {
			for _, f := range p.Frames {
				if f.Name == refwire.NameConnectionClose && f.Type == 0x1c && f.ErrorCode == 0x03 {
					out = append(out, WireFinding{"C04/wire/receiver-rejects-within-limits", fmt.Sprintf("%s datagram #%d (t=%v): CONNECTION_CLOSE with FLOW_CONTROL_ERROR (%q) although the peer's STREAM frames stayed within every stream and connection limit it had been given", rec.Dir, rec.Seq, rec.T, string(f.Reason))})
					return out
				}
			}
		}
	}
	return out
}
