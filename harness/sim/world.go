//go:build go1.25

package sim

import (
	"bytes"
	"context"
	"crypto/ecdsa"
	"crypto/elliptic"
	"crypto/rand"
	"crypto/x509"
	"crypto/x509/pkix"
	"fmt"
	"github.com/refraction-networking/uquic/internal/utils"
	"github.com/refraction-networking/uquic/qlogwriter"
	"io"
	"log"
	"math/big"
	"net"
	"os"
	"regexp"
	"runtime"
	"strings"
	"sync"
	"testing"
	"testing/synctest"
	"time"

	tls "github.com/refraction-networking/utls"

	quic "github.com/refraction-networking/uquic"
	"github.com/refraction-networking/uquic/testutils/simnet"
)

// ---- certificates (generated once per process, outside any bubble) ----

var (
	certOnce   sync.Once
	caPool     *x509.CertPool
	leafShort  tls.Certificate
	leafLong   tls.Certificate
	ServerName = "sim.example"
)

func mkCert(tmpl, parent *x509.Certificate, pub *ecdsa.PublicKey, signer *ecdsa.PrivateKey) (*x509.Certificate, []byte) {
	der, err := x509.CreateCertificate(rand.Reader, tmpl, parent, pub, signer)
	if err != nil {
		panic(err)
	}
	c, err := x509.ParseCertificate(der)
	if err != nil {
		panic(err)
	}
	return c, der
}

func initCerts() {
	certOnce.Do(func() {
		notBefore := time.Date(1990, 1, 1, 0, 0, 0, 0, time.UTC)
		notAfter := time.Date(2120, 1, 1, 0, 0, 0, 0, time.UTC)
		caKey, _ := ecdsa.GenerateKey(elliptic.P256(), rand.Reader)
		caT := &x509.Certificate{SerialNumber: big.NewInt(1), Subject: pkix.Name{CommonName: "sim root"}, NotBefore: notBefore, NotAfter: notAfter,
			IsCA: true, BasicConstraintsValid: true, KeyUsage: x509.KeyUsageCertSign | x509.KeyUsageDigitalSignature}
		ca, caDER := mkCert(caT, caT, &caKey.PublicKey, caKey)
		_ = caDER
		caPool = x509.NewCertPool()
		caPool.AddCert(ca)
		leafKey, _ := ecdsa.GenerateKey(elliptic.P256(), rand.Reader)
		leafT := &x509.Certificate{SerialNumber: big.NewInt(2), Subject: pkix.Name{CommonName: ServerName}, DNSNames: []string{ServerName, "localhost"},
			NotBefore: notBefore, NotAfter: notAfter, KeyUsage: x509.KeyUsageDigitalSignature, ExtKeyUsage: []x509.ExtKeyUsage{x509.ExtKeyUsageServerAuth}}
		_, leafDER := mkCert(leafT, ca, &leafKey.PublicKey, caKey)
		leafShort = tls.Certificate{Certificate: [][]byte{leafDER}, PrivateKey: leafKey}
		// long chain: root -> 4 fat intermediates -> leaf (about 5-6 kB of certificates => multi-datagram server flight)
		parent, parentKey := ca, caKey
		var chain [][]byte
		for i := 0; i < 4; i++ {
			k, _ := ecdsa.GenerateKey(elliptic.P256(), rand.Reader)
			t := &x509.Certificate{SerialNumber: big.NewInt(int64(10 + i)), Subject: pkix.Name{CommonName: fmt.Sprintf("sim intermediate %d %s", i, strings.Repeat("x", 60)),
				Organization: []string{strings.Repeat("o", 60)}, OrganizationalUnit: []string{strings.Repeat("u", 60), strings.Repeat("v", 60)}},
				NotBefore: notBefore, NotAfter: notAfter, IsCA: true, BasicConstraintsValid: true, KeyUsage: x509.KeyUsageCertSign,
				ExtraExtensions: []pkix.Extension{{Id: []int{1, 3, 6, 1, 4, 1, 55555, 1}, Value: bytes.Repeat([]byte{0x04}, 900)}}}
			c, der := mkCert(t, parent, &k.PublicKey, parentKey)
			chain = append([][]byte{der}, chain...)
			parent, parentKey = c, k
		}
		lk, _ := ecdsa.GenerateKey(elliptic.P256(), rand.Reader)
		_, lder := mkCert(leafT, parent, &lk.PublicKey, parentKey)
		leafLong = tls.Certificate{Certificate: append([][]byte{lder}, chain...), PrivateKey: lk}
	})
}

// KeyLog collects NSS key log lines (safe for concurrent use).
type KeyLog struct {
	mu     sync.Mutex
	lines  []string
	OnLine func(line string)
}

func (k *KeyLog) Write(p []byte) (int, error) {
	k.mu.Lock()
	for _, l := range strings.Split(strings.TrimSpace(string(p)), "\n") {
		k.lines = append(k.lines, l)
		if k.OnLine != nil {
			k.OnLine(l)
		}
	}
	k.mu.Unlock()
	return len(p), nil
}

// Lines returns a copy of the collected lines.
func (k *KeyLog) Lines() []string {
	k.mu.Lock()
	defer k.mu.Unlock()
	return append([]string(nil), k.lines...)
}

// ServerTLS returns a server tls.Config (ALPN "h3" unless given).
func ServerTLS(longChain bool, keylog *KeyLog, alpn ...string) *tls.Config {
	initCerts()
	c := &tls.Config{MinVersion: tls.VersionTLS13, NextProtos: []string{"h3"}}
	if len(alpn) > 0 {
		c.NextProtos = alpn
	}
	if longChain {
		c.Certificates = []tls.Certificate{leafLong}
	} else {
		c.Certificates = []tls.Certificate{leafShort}
	}
	if keylog != nil {
		c.KeyLogWriter = keylog
	}
	return c
}

// ClientTLS returns a client tls.Config trusting the simulation root.
func ClientTLS(keylog *KeyLog, alpn ...string) *tls.Config {
	initCerts()
	c := &tls.Config{MinVersion: tls.VersionTLS13, NextProtos: []string{"h3"}, RootCAs: caPool, ServerName: ServerName}
	if len(alpn) > 0 {
		c.NextProtos = alpn
	}
	if keylog != nil {
		c.KeyLogWriter = keylog
	}
	return c
}

// ---- world ----

var (
	ClientAddr = &net.UDPAddr{IP: net.ParseIP("1.0.0.1"), Port: 9001}
	ServerAddr = &net.UDPAddr{IP: net.ParseIP("1.0.0.2"), Port: 9002}
)

// World is a client endpoint, a server endpoint and the router between them.
type World struct {
	Router     *Router
	ClientConn *simnet.SimConn
	ServerConn *simnet.SimConn
	ClientKeys *KeyLog
	ServerKeys *KeyLog
	Obs        *Observer
	mu         sync.Mutex
	Judged     map[string]int // counters of WireCheck: how many packets the "opened by the peer" check judged / skipped
}

// Observe attaches the decrypting wire observer to the router (classes then include packet kinds of all
// coalesced packets and "frame:<NAME>" labels; Record.Pkts holds []*Packet).
func (w *World) Observe() *Observer {
	w.Obs = NewObserver(w.ClientKeys, w.ServerKeys)
	w.Router.Classify = w.Obs.Classify
	return w.Obs
}

// NewWorld creates the endpoints. Must be called inside a bubble.
func NewWorld(rtt time.Duration, faults []Fault, loss *Loss, blackouts [][2]time.Duration) *World {
	r := NewRouter(rtt/2, faults, loss, blackouts)
	w := &World{Router: r, ClientKeys: &KeyLog{}, ServerKeys: &KeyLog{}}
	w.ClientConn = simnet.NewBlockingSimConn(ClientAddr, r)
	w.ServerConn = simnet.NewBlockingSimConn(ServerAddr, r)
	r.SetEndpoints(ClientAddr, ServerAddr)
	return w
}

// NewEndpoint adds a further endpoint (e.g. a second client address or an attacker).
func (w *World) NewEndpoint(addr *net.UDPAddr) *simnet.SimConn {
	return simnet.NewBlockingSimConn(addr, w.Router)
}

// Close closes router and endpoints.
func (w *World) Close() {
	w.Router.Close()
	w.ClientConn.Close()
	if w.ServerConn != nil {
		w.ServerConn.Close()
	}
}

// ---- bubble runner ----

var bubbleRe = regexp.MustCompile(`(?m)^goroutine \d+ \[[^\]]*synctest bubble (\d+)[^\]]*\]:`)

// LeakReport describes goroutines left in the bubble after the scenario cleaned up.
type LeakReport struct {
	Count int
	Dump  string
}

// Bubble runs f inside a synctest bubble. After f returns it lets virtual time run for settle,
// then looks for goroutines still alive in this bubble. If there are any it returns a report
// BEFORE the bubble ends (the caller should record the verdict and flush stats, because such a
// bubble cannot end and the runtime will abort the process with a deadlock report).
func Bubble(t *testing.T, settle time.Duration, f func(), onLeak func(LeakReport)) {
	reported := false
	defer func() {
		// A bubble whose goroutines are blocked for ever cannot end: synctest panics ("deadlock: main bubble goroutine
		// has exited but blocked goroutines remain") when its root function returns. Once the leak has been handed to
		// onLeak (with the goroutine dump) that panic carries no further information and would only replace the
		// caller's verdict by a bare stack trace.
		if reported {
			if r := recover(); r != nil && !strings.Contains(fmt.Sprint(r), "deadlock") {
				panic(r)
			}
		}
	}()
	synctest.Test(t, func(t *testing.T) {
		f()
		if settle > 0 {
			time.Sleep(settle)
		}
		synctest.Wait()
		if onLeak == nil {
			return
		}
		if rep := leaked(); rep.Count > 0 {
			reported = true
			onLeak(rep)
		}
	})
}

func leaked() LeakReport {
	buf := make([]byte, 1<<20)
	n := runtime.Stack(buf, true)
	dump := string(buf[:n])
	// our own goroutine is the first block ("goroutine N [running, synctest bubble B]:")
	m := bubbleRe.FindAllStringSubmatch(dump, -1)
	if len(m) == 0 {
		return LeakReport{}
	}
	own := m[0][1]
	blocks := strings.Split(dump, "\n\n")
	var keep []string
	for i, b := range blocks {
		if i == 0 {
			continue
		}
		mm := bubbleRe.FindStringSubmatch(b)
		if mm != nil && mm[1] == own && !strings.Contains(b, "internal/synctest.Run(") && !strings.Contains(b, "synctest.testingSynctestTest(") {
			keep = append(keep, b)
		}
	}
	d := strings.Join(keep, "\n\n")
	if len(d) > 12000 {
		d = d[:12000] + "\n...(truncated)"
	}
	return LeakReport{Count: len(keep), Dump: d}
}

// WaitCtx waits (in virtual time) until done is closed or d elapsed; reports whether done was closed.
func WaitCtx(done <-chan struct{}, d time.Duration) bool {
	tm := time.NewTimer(d)
	defer tm.Stop()
	select {
	case <-done:
		return true
	case <-tm.C:
		return false
	}
}

// DefaultQUICConfig returns a config suited to the simulated network (no PMTUD: SimConn has no DF support).
func DefaultQUICConfig() *quic.Config {
	return &quic.Config{DisablePathMTUDiscovery: true, MaxIdleTimeout: 10 * time.Second, HandshakeIdleTimeout: 5 * time.Second}
}

// Ctx returns a context with a virtual-time timeout.
func Ctx(d time.Duration) (context.Context, context.CancelFunc) {
	return context.WithTimeout(context.Background(), d)
}

type sink struct{}

func (sink) RecvPacket(simnet.Packet) {}

// Blackhole makes addr swallow every datagram (no reader needed).
func (w *World) Blackhole(addr net.Addr) { w.Router.AddNode(addr, sink{}) }

// NewWorldBlackholeServer is NewWorld, but nothing listens at the server address: datagrams sent there vanish.
func NewWorldBlackholeServer(rtt time.Duration) *World {
	r := NewRouter(rtt/2, nil, nil, nil)
	w := &World{Router: r, ClientKeys: &KeyLog{}, ServerKeys: &KeyLog{}}
	w.ClientConn = simnet.NewBlockingSimConn(ClientAddr, r)
	r.AddNode(ServerAddr, sink{})
	r.SetEndpoints(ClientAddr, ServerAddr)
	return w
}

// ---- observability switched on: what the endpoints do must not depend on it ----

type discardTrace struct{}

func (discardTrace) AddProducer() qlogwriter.Recorder { return discardTrace{} }
func (discardTrace) SupportsSchemas(string) bool      { return true }
func (discardTrace) RecordEvent(qlogwriter.Event)     {}
func (discardTrace) Close() error                     { return nil }

// DiscardTracer is a quic.Config.Tracer that accepts every event and drops it.
func DiscardTracer(context.Context, bool, quic.ConnectionID) qlogwriter.Trace { return discardTrace{} }

// DebugLogging switches the library's default logger to debug level (output discarded) and returns the function
// that switches it off again. The level is process-wide: cases run one after the other in a process.
func DebugLogging() func() {
	if os.Getenv("VERIF_SIM_LOG") == "" {
		log.SetOutput(io.Discard)
	} else {
		utils.DefaultLogger.SetLogTimeFormat("05.000") // development aid: the library's debug log (virtual time) on stderr
	}
	utils.DefaultLogger.SetLogLevel(utils.LogLevelDebug)
	return func() { utils.DefaultLogger.SetLogLevel(utils.LogLevelNothing) }
}
