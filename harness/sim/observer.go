package sim

import (
	"bytes"
	"crypto/sha256"
	"crypto/sha512"
	"encoding/hex"
	"fmt"
	"hash"
	"strings"
	"sync"

	"github.com/refraction-networking/uquic/verif/refcrypto"
	"github.com/refraction-networking/uquic/verif/refwire"
)

// Packet is one QUIC packet decoded by the observer with keys it derived independently
// (Initial keys from the client's destination connection ID; Handshake/0-RTT/1-RTT secrets from
// the TLS key logs of the endpoints).
type Packet struct {
	Kind              string          `json:"kind"` // initial | 0rtt | handshake | retry | vn | 1rtt | undecryptable | garbage
	Version           uint32          `json:"version,omitempty"`
	DCID              []byte          `json:"dcid,omitempty"`
	SCID              []byte          `json:"scid,omitempty"`
	Token             []byte          `json:"token,omitempty"`
	PN                uint64          `json:"pn"`
	PNLen             int             `json:"pnlen,omitempty"`
	KeyPhase          bool            `json:"kp,omitempty"`
	KeyGen            int             `json:"keygen,omitempty"` // 1-RTT key generation the packet opened with
	Conn              int             `json:"conn,omitempty"`   // 1-RTT: index of the connection (TLS key log entry) whose keys opened the packet
	Len               int             `json:"len"`
	Frames            []refwire.Frame `json:"-"`
	Names             []string        `json:"frames,omitempty"`
	Err               string          `json:"err,omitempty"`
	Versions          []uint32        `json:"versions,omitempty"` // vn
	RetrySCID         []byte          `json:"-"`
	Raw               []byte          `json:"-"`
	AckEliciting      bool            `json:"ae,omitempty"`
	V2KULabelFallback bool            `json:"v2_ku_fallback,omitempty"` // opened only with the v1 "quic ku" chain on a v2 connection
}

type keyset struct {
	k       *refcrypto.Keys
	largest int64
	owner   string // client random (hex) or "initial:<dcid>"
}

type oneRTT struct {
	gens    []*refcrypto.Keys // gens[i] = generation i
	v1chain []bool            // generation derived with the v1 ku label on a v2 connection
	largest int64
	secret  []byte
	suite   uint16
	version uint32 // the version whose labels derive this connection's 1-RTT keys (found by trial)
}

// Observer decodes every datagram passing the router.
type Observer struct {
	mu            sync.Mutex
	version       uint32
	initial       [2][]*keyset // per direction: candidates (one per client DCID seen)
	handshake     [2][]*keyset // per direction
	zeroRTT       []*keyset    // c2s only
	app           [2][]*oneRTT // per direction: one per connection (client random)
	seenDCID      map[string]bool
	seenSecret    map[string]bool
	cidLen        [2]int // short-header DCID length per direction (c2s: server CID length; s2c: client CID length)
	cidKnown      [2]bool
	Packets       [2][]*Packet // all decoded packets per direction in send order
	Undecryptable int
	// resumption PSKs handed over by the scenario (AddResumptionPSK): the TLS stack does not write
	// CLIENT_EARLY_TRAFFIC_SECRET to the key log, the observer derives it itself (RFC 8446 7.1)
	psks [][]byte
	// InitialPNHint seeds the "largest packet number seen" of the client's Initial space (-1 = none). A spec may
	// start at a packet number no stateless receiver could decode; the observer, which knows the spec, still can.
	InitialPNHint int64
}

// NewObserver creates an observer and subscribes it to the key logs.
func NewObserver(keylogs ...*KeyLog) *Observer {
	o := &Observer{seenDCID: map[string]bool{}, seenSecret: map[string]bool{}, InitialPNHint: -1}
	for _, kl := range keylogs {
		kl.mu.Lock()
		for _, l := range kl.lines {
			o.addLine(l)
		}
		kl.OnLine = o.addLine
		kl.mu.Unlock()
	}
	return o
}

// AddResumptionPSK tells the observer the pre-shared key of a session ticket the client is going to resume with (the
// "secret" of the client's TLS 1.3 session state). With it the observer derives client_early_traffic_secret from the
// ClientHello it reads off the wire, and so opens 0-RTT packets, which the key log alone does not allow.
func (o *Observer) AddResumptionPSK(psk []byte) {
	o.mu.Lock()
	o.psks = append(o.psks, append([]byte(nil), psk...))
	o.mu.Unlock()
}

// PSKFromSessionState extracts the TLS 1.3 resumption PSK from the serialized client session state
// (crypto/tls SessionState.Bytes: version u16, type u8, cipher suite u16, created u64, secret<0..255>, ...).
func PSKFromSessionState(b []byte) ([]byte, bool) {
	if len(b) < 14 || b[0] != 0x03 || b[1] != 0x04 || len(b) < 14+int(b[13]) || b[13] == 0 {
		return nil, false
	}
	return b[14 : 14+int(b[13])], true
}

// deriveEarly (o.mu held) adds 0-RTT key candidates for the connection whose client Initial packets carry dcid:
// client_early_traffic_secret = Derive-Secret(HKDF-Extract(0, PSK), "c e traffic", ClientHello). Reports whether
// new candidates were added.
func (o *Observer) deriveEarly(dcid []byte, prior []*Packet) bool {
	if len(o.psks) == 0 {
		return false
	}
	var ini []*Packet
	for _, p := range o.Packets[C2S] {
		if p.Kind == "initial" && bytes.Equal(p.DCID, dcid) {
			ini = append(ini, p)
		}
	}
	for _, p := range prior {
		if p.Kind == "initial" && bytes.Equal(p.DCID, dcid) {
			ini = append(ini, p)
		}
	}
	data, _, _, _ := CryptoStream(ini, "initial")
	msgs, _ := HandshakeMessages(data)
	if len(msgs) == 0 || msgs[0].Type != 1 {
		return false
	}
	added := false
	for _, psk := range o.psks {
		for _, suite := range suitesFor(len(psk)) {
			h := newSuiteHash(suite)
			h.Write(msgs[0].Raw)
			secret := refcrypto.HKDFExpandLabel(suite, refcrypto.HKDFExtract(suite, psk, nil), h.Sum(nil), "c e traffic", refcrypto.HashLen(suite))
			key := fmt.Sprintf("early/%x/%x", suite, secret)
			if o.seenSecret[key] {
				continue
			}
			o.seenSecret[key] = true
			added = true
			for _, v := range []uint32{refcrypto.V1, refcrypto.V2} {
				o.zeroRTT = append(o.zeroRTT, &keyset{k: refcrypto.DeriveKeys(suite, v, secret), largest: -1, owner: "early"})
			}
		}
	}
	return added
}

func newSuiteHash(suite uint16) hash.Hash {
	if suite == refcrypto.TLS_AES_256_GCM_SHA384 {
		return sha512.New384()
	}
	return sha256.New()
}

func suitesFor(secretLen int) []uint16 {
	if secretLen == 48 {
		return []uint16{refcrypto.TLS_AES_256_GCM_SHA384}
	}
	return []uint16{refcrypto.TLS_AES_128_GCM_SHA256, refcrypto.TLS_CHACHA20_POLY1305_SHA256}
}

func (o *Observer) addLine(line string) {
	f := strings.Fields(line)
	if len(f) != 3 {
		return
	}
	secret, err := hex.DecodeString(f[2])
	if err != nil {
		return
	}
	o.mu.Lock()
	defer o.mu.Unlock()
	key := f[0] + f[1] + f[2]
	if o.seenSecret[key] {
		return
	}
	o.seenSecret[key] = true
	// keys are derived lazily for both versions because the version may not be known yet
	add := func(dst *[]*keyset) {
		for _, v := range []uint32{refcrypto.V1, refcrypto.V2} {
			for _, s := range suitesFor(len(secret)) {
				*dst = append(*dst, &keyset{k: refcrypto.DeriveKeys(s, v, secret), largest: -1, owner: f[1]})
			}
		}
	}
	switch f[0] {
	case "CLIENT_HANDSHAKE_TRAFFIC_SECRET":
		add(&o.handshake[C2S])
	case "SERVER_HANDSHAKE_TRAFFIC_SECRET":
		add(&o.handshake[S2C])
	case "CLIENT_EARLY_TRAFFIC_SECRET":
		add(&o.zeroRTT)
	case "CLIENT_TRAFFIC_SECRET_0":
		o.app[C2S] = append(o.app[C2S], &oneRTT{secret: secret, largest: -1})
	case "SERVER_TRAFFIC_SECRET_0":
		o.app[S2C] = append(o.app[S2C], &oneRTT{secret: secret, largest: -1})
	}
}

// Classify implements the router's Classifier.
func (o *Observer) Classify(dir Dir, data []byte) ([]string, any) {
	pkts := o.Decode(dir, data)
	o.mu.Lock()
	o.Packets[dir] = append(o.Packets[dir], pkts...)
	o.mu.Unlock()
	seen := map[string]bool{}
	var classes []string
	add := func(c string) {
		if !seen[c] {
			seen[c] = true
			classes = append(classes, c)
		}
	}
	for _, p := range pkts {
		add(p.Kind)
		if p.Kind != "1rtt" && p.Kind != "undecryptable" && p.Kind != "garbage" && p.Kind != "dgram-padding" {
			add("long")
		}
	}
	for _, p := range pkts {
		for _, n := range p.Names {
			add("frame:" + n)
		}
	}
	return classes, pkts
}

// Decode splits a datagram into packets and decrypts what it can.
func (o *Observer) Decode(dir Dir, data []byte) []*Packet {
	var out []*Packet
	rest := data
	for len(rest) > 0 {
		if len(out) > 0 && allZero(rest) {
			// zero bytes after the last packet: datagram padding outside any QUIC packet (UDPDatagramMinSize)
			out = append(out, &Packet{Kind: "dgram-padding", Len: len(rest), Raw: rest})
			break
		}
		if !refwire.IsLongHeader(rest[0]) {
			out = append(out, o.decodeShort(dir, rest))
			break
		}
		if len(rest) >= 5 && rest[1] == 0 && rest[2] == 0 && rest[3] == 0 && rest[4] == 0 {
			p := &Packet{Kind: "vn", Len: len(rest), Raw: rest}
			d, s, vs, err := refwire.ParseVersionNegotiation(rest)
			if err != nil {
				p.Err = err.Error()
			}
			p.DCID, p.SCID, p.Versions = d, s, vs
			out = append(out, p)
			break
		}
		h, err := refwire.ParseLongHeader(rest)
		if err != nil {
			out = append(out, &Packet{Kind: "garbage", Len: len(rest), Err: err.Error(), Raw: rest})
			break
		}
		if h.Kind == refwire.LongRetry {
			out = append(out, &Packet{Kind: "retry", Version: h.Version, DCID: h.DCID, SCID: h.SCID, Token: h.RetryToken, Len: len(rest), Raw: rest})
			break
		}
		end := h.PNOffset + int(h.Length)
		if end > len(rest) || int(h.Length) < 0 {
			out = append(out, &Packet{Kind: "garbage", Version: h.Version, Len: len(rest), Err: "length field exceeds datagram", Raw: rest})
			break
		}
		out = append(out, o.decodeLong(dir, h, rest[:end], out))
		rest = rest[end:]
	}
	return out
}

func names(fs []refwire.Frame) (n []string, ae bool) {
	for _, f := range fs {
		n = append(n, f.Name)
		if f.Name != refwire.NameAck && f.Name != refwire.NamePadding && f.Name != refwire.NameConnectionClose {
			ae = true
		}
	}
	return
}

func (o *Observer) decodeLong(dir Dir, h refwire.LongHeader, pkt []byte, prior []*Packet) *Packet {
	kind := []string{"initial", "0rtt", "handshake", "retry"}[h.Kind]
	p := &Packet{Kind: kind, Version: h.Version, DCID: h.DCID, SCID: h.SCID, Token: h.Token, Len: len(pkt), Raw: pkt}
	o.mu.Lock()
	defer o.mu.Unlock()
	if o.version == 0 || h.Kind == refwire.LongInitial {
		o.version = h.Version
	}
	if dir == C2S && !o.cidKnown[S2C] {
		o.cidLen[S2C], o.cidKnown[S2C] = len(h.SCID), true
	}
	if dir == S2C {
		o.cidLen[C2S], o.cidKnown[C2S] = len(h.SCID), true // may change after Retry; updated on every server long header
	}
	var cands []*keyset
	switch h.Kind {
	case refwire.LongInitial:
		if dir == C2S {
			id := fmt.Sprintf("%x/%x", h.Version, h.DCID)
			if !o.seenDCID[id] && (h.Version == refcrypto.V1 || h.Version == refcrypto.V2) {
				o.seenDCID[id] = true
				ck, sk := refcrypto.InitialKeys(h.Version, h.DCID)
				o.initial[C2S] = append(o.initial[C2S], &keyset{k: ck, largest: o.InitialPNHint, owner: "initial:" + id})
				o.initial[S2C] = append(o.initial[S2C], &keyset{k: sk, largest: -1, owner: "initial:" + id})
			}
		}
		cands = o.initial[dir]
	case refwire.LongHandshake:
		cands = o.handshake[dir]
	case refwire.Long0RTT:
		cands = o.zeroRTT
	}
	// try the most recently added candidates first
	open := func() bool {
		for i := len(cands) - 1; i >= 0; i-- {
			ks := cands[i]
			if ks.k.Version != h.Version {
				continue
			}
			_, pn, pnLen, payload, err := refcrypto.Unprotect(ks.k, pkt, h.PNOffset, ks.largest)
			if err != nil {
				continue
			}
			if int64(pn) > ks.largest {
				ks.largest = int64(pn)
			}
			p.PN, p.PNLen = pn, pnLen
			fs, ferr := refwire.ParseFrames(payload)
			if ferr != nil {
				p.Err = "frames: " + ferr.Error()
			}
			p.Frames = fs
			p.Names, p.AckEliciting = names(fs)
			return true
		}
		return false
	}
	if open() {
		return p
	}
	if h.Kind == refwire.Long0RTT && dir == C2S && o.deriveEarly(h.DCID, prior) {
		cands = o.zeroRTT
		if open() {
			return p
		}
	}
	p.Kind = "undecryptable"
	p.Err = "no key opens this " + kind + " packet"
	o.Undecryptable++
	return p
}

func (o *Observer) decodeShort(dir Dir, pkt []byte) *Packet {
	p := &Packet{Kind: "1rtt", Len: len(pkt), Raw: pkt}
	o.mu.Lock()
	defer o.mu.Unlock()
	cl := o.cidLen[dir]
	if len(pkt) < 1+cl+4+16 {
		p.Kind, p.Err = "undecryptable", "too short"
		return p
	}
	p.DCID = pkt[1 : 1+cl]
	pnOff := 1 + cl
	version := o.version
	if version == 0 {
		version = refcrypto.V1
	}
	for ci := len(o.app[dir]) - 1; ci >= 0; ci-- {
		a := o.app[dir][ci]
		if len(a.gens) == 0 {
			// the suite is found by trial; so is the version: o.version follows the latest Initial packet seen, and
			// after a Version Negotiation the closed connection of the old version may still repeat its
			// CONNECTION_CLOSE Initial while the new connection already sends 1-RTT packets
			other := uint32(refcrypto.V2)
			if version == refcrypto.V2 {
				other = refcrypto.V1
			}
		trial:
			for _, ver := range []uint32{version, other} {
				for _, s := range suitesFor(len(a.secret)) {
					k := refcrypto.DeriveKeys(s, ver, a.secret)
					// The first 1-RTT packet of this direction may already be in key phase 1: an endpoint that has
					// received 100 packets (FirstKeyUpdateInterval) before it sends its first one - a client that
					// only had Handshake packets to send while the server's 0.5-RTT data arrived - updates its keys
					// as soon as the handshake is confirmed. The generations are found by the code below once suite
					// and version are known.
					cands := []*refcrypto.Keys{k, k.NextGeneration()}
					if ver == refcrypto.V2 {
						cands = append(cands, k.NextGenerationWithLabel("quic ku"))
					}
					for _, c := range cands {
						if _, _, _, _, err := refcrypto.Unprotect(c, pkt, pnOff, a.largest); err == nil {
							a.gens = []*refcrypto.Keys{k}
							a.v1chain = []bool{false}
							a.suite = s
							a.version = ver
							break trial
						}
					}
				}
			}
			if len(a.gens) == 0 {
				continue
			}
		}
		// try known generations (newest first), then the next one
		try := func(k *refcrypto.Keys) bool {
			hdr, pn, pnLen, payload, err := refcrypto.Unprotect(k, pkt, pnOff, a.largest)
			if err != nil {
				return false
			}
			if int64(pn) > a.largest {
				a.largest = int64(pn)
			}
			p.PN, p.PNLen = pn, pnLen
			p.Conn = ci
			p.KeyPhase = hdr[0]&0x04 != 0
			fs, ferr := refwire.ParseFrames(payload)
			if ferr != nil {
				p.Err = "frames: " + ferr.Error()
			}
			p.Frames = fs
			p.Names, p.AckEliciting = names(fs)
			return true
		}
		for g := len(a.gens) - 1; g >= 0 && g >= len(a.gens)-3; g-- {
			if try(a.gens[g]) {
				p.KeyGen = g
				p.V2KULabelFallback = a.v1chain[g]
				return p
			}
		}
		last := a.gens[len(a.gens)-1]
		next := last.NextGeneration()
		if try(next) {
			a.gens = append(a.gens, next)
			a.v1chain = append(a.v1chain, a.v1chain[len(a.v1chain)-1])
			p.KeyGen = len(a.gens) - 1
			p.V2KULabelFallback = a.v1chain[p.KeyGen]
			return p
		}
		if a.version == refcrypto.V2 {
			alt := last.NextGenerationWithLabel("quic ku")
			if try(alt) {
				a.gens = append(a.gens, alt)
				a.v1chain = append(a.v1chain, true)
				p.KeyGen = len(a.gens) - 1
				p.V2KULabelFallback = true
				return p
			}
		}
	}
	p.Kind = "undecryptable"
	p.Err = "no key opens this short header packet"
	o.Undecryptable++
	return p
}

// CryptoStream reassembles the CRYPTO data of the given packets (all of one level and direction).
// It returns the contiguous prefix, whether overlapping ranges disagreed, and the covered ranges.
func CryptoStream(pkts []*Packet, kind string) (data []byte, conflict bool, maxEnd uint64, complete bool) {
	type seg struct {
		off uint64
		b   []byte
	}
	var segs []seg
	for _, p := range pkts {
		if p.Kind != kind {
			continue
		}
		for _, f := range p.Frames {
			if f.Name == refwire.NameCrypto {
				segs = append(segs, seg{f.Offset, f.Data})
				if e := f.Offset + uint64(len(f.Data)); e > maxEnd {
					maxEnd = e
				}
			}
		}
	}
	if maxEnd > 1<<20 {
		return nil, false, maxEnd, false
	}
	buf := make([]byte, maxEnd)
	have := make([]bool, maxEnd)
	for _, s := range segs {
		for i, b := range s.b {
			j := s.off + uint64(i)
			if have[j] && buf[j] != b {
				conflict = true
			}
			buf[j], have[j] = b, true
		}
	}
	n := 0
	for n < len(have) && have[n] {
		n++
	}
	return buf[:n], conflict, maxEnd, n == len(have)
}

// HexEq compares two byte slices.
func HexEq(a, b []byte) bool { return bytes.Equal(a, b) }

func allZero(b []byte) bool {
	for _, x := range b {
		if x != 0 {
			return false
		}
	}
	return true
}
