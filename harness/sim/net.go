// Package sim runs complete uQUIC connections over an in-memory, fault-injecting network inside a
// testing/synctest bubble (virtual time). It is the shared engine of the simulated checks.
package sim

import (
	"fmt"
	"net"
	"sort"
	"sync"
	"time"

	"github.com/refraction-networking/uquic/testutils/simnet"
)

// Dir is the direction of a datagram.
type Dir int

const (
	C2S Dir = 0
	S2C Dir = 1
)

func (d Dir) String() string {
	if d == C2S {
		return "c2s"
	}
	return "s2c"
}

// Fault describes one network fault. A fault applies to the datagram selected by Sel.
type Fault struct {
	Dir  string `json:"dir"`             // "c2s" | "s2c"
	Nth  int    `json:"nth"`             // 0-based ordinal among the datagrams of Dir that match Class
	Cls  string `json:"class,omitempty"` // "" (any) | "initial" | "handshake" | "0rtt" | "1rtt" | "retry" | "vn" | "long" or "frame:<NAME>" (needs observer)
	Kind string `json:"kind"`            // drop | dup | delay | flip | trunc
	Arg  int    `json:"arg,omitempty"`   // dup: copies; delay: extra ms; flip: byte index (mod len); trunc: new length (mod len)
	Arg2 int    `json:"arg2,omitempty"`  // flip: bit mask (0 => 0x01)
}

// Loss is a Bernoulli loss window.
type Loss struct {
	Permille int    `json:"p_permille"`
	FromMs   int    `json:"from_ms"`
	ToMs     int    `json:"to_ms"`
	Seed     uint64 `json:"seed"`
}

// Record is one datagram as seen by the router.
type Record struct {
	Seq     int             `json:"seq"`
	Dir     string          `json:"dir"`
	T       time.Duration   `json:"t_ns"` // virtual time since the world started
	Len     int             `json:"len"`
	Class   []string        `json:"class,omitempty"` // packet classes found in the datagram (observer / first-byte sniffing)
	Fate    string          `json:"fate"`            // delivered | dropped | dup:n | delayed:ms | flipped | truncated | injected | blackout | lost
	Notes   string          `json:"notes,omitempty"`
	Data    []byte          `json:"-"`
	Pkts    any             `json:"pkts,omitempty"` // decoded packets (observer)
	Forged  bool            `json:"forged,omitempty"`
	Dlv     []time.Duration `json:"dlv_ns,omitempty"`  // virtual times at which (copies of) the datagram were handed to the receiver
	Mutated bool            `json:"mutated,omitempty"` // content was altered (flip / truncate)
}

// Classifier inspects a datagram before the fault decision and returns its classes
// (packet types, frame classes) plus an optional decoded form for the trace.
type Classifier func(dir Dir, data []byte) (classes []string, decoded any)

// Router is a simnet.Router with a fault schedule and a full datagram log.
type Router struct {
	mu        sync.Mutex
	nodes     map[string]simnet.PacketReceiver
	client    string
	server    string
	latency   time.Duration // one way
	start     time.Time
	faults    []Fault
	used      []bool
	loss      *Loss
	lossState uint64
	blackouts [][2]time.Duration
	epoch     time.Duration  // virtual time the loss window and the blackouts are relative to (ArmAll)
	counts    map[string]int // per dir+class ordinals
	Log       []*Record
	Classify  Classifier
	// OnDeliver is called (without the router lock) when a datagram is handed to the receiver.
	OnDeliver func(dir Dir, rec *Record, data []byte)
	// Tap is called for every datagram sent by an endpoint, before faults.
	Tap       func(dir Dir, rec *Record)
	BytesSent [2]int64 // per direction, as sent by endpoints (before faults)
	BytesDlv  [2]int64 // delivered
	closed    bool
	Applied   []string // "dir/class/kind" of faults that actually hit a datagram
	KeepData  bool
}

// NewRouter creates a router. Latency is one-way.
func NewRouter(latency time.Duration, faults []Fault, loss *Loss, blackouts [][2]time.Duration) *Router {
	r := &Router{nodes: map[string]simnet.PacketReceiver{}, latency: latency, faults: faults, used: make([]bool, len(faults)),
		loss: loss, blackouts: blackouts, counts: map[string]int{}, start: time.Now()}
	if loss != nil {
		r.lossState = loss.Seed | 1
	}
	return r
}

func (r *Router) AddNode(addr net.Addr, recv simnet.PacketReceiver) {
	r.mu.Lock()
	r.nodes[addr.String()] = recv
	r.mu.Unlock()
}

// SetEndpoints tells the router which address is the client and which the server.
func (r *Router) SetEndpoints(client, server net.Addr) {
	r.mu.Lock()
	r.client, r.server = client.String(), server.String()
	r.mu.Unlock()
}

// Close stops all deliveries.
func (r *Router) Close() { r.mu.Lock(); r.closed = true; r.mu.Unlock() }

// Now returns virtual time since the router was created.
func (r *Router) Now() time.Duration { return time.Since(r.start) }

func splitmix(s *uint64) uint64 {
	*s += 0x9e3779b97f4a7c15
	z := *s
	z = (z ^ (z >> 30)) * 0xbf58476d1ce4e5b9
	z = (z ^ (z >> 27)) * 0x94d049bb133111eb
	return z ^ (z >> 31)
}

func sniff(data []byte) []string {
	// without keys only the long-header type is visible; coalesced packets beyond the first need lengths.
	if len(data) == 0 {
		return nil
	}
	if data[0]&0x80 == 0 {
		return []string{"1rtt"}
	}
	if len(data) >= 5 && data[1] == 0 && data[2] == 0 && data[3] == 0 && data[4] == 0 {
		return []string{"vn", "long"}
	}
	var ver uint32
	if len(data) >= 5 {
		ver = uint32(data[1])<<24 | uint32(data[2])<<16 | uint32(data[3])<<8 | uint32(data[4])
	}
	t := (data[0] >> 4) & 3
	if ver == 0x6b3343cf { // v2 type bits are rotated
		t = (t + 3) & 3
	}
	return []string{[]string{"initial", "0rtt", "handshake", "retry"}[t], "long"}
}

// SendPacket implements simnet.Router.
func (r *Router) SendPacket(p simnet.Packet) error {
	r.mu.Lock()
	if r.closed {
		r.mu.Unlock()
		return nil
	}
	var dir Dir
	switch p.From.String() {
	case r.client:
		dir = C2S
	case r.server:
		dir = S2C
	default:
		if p.To.String() == r.server {
			dir = C2S
		} else {
			dir = S2C
		}
	}
	now := time.Since(r.start)
	rec := &Record{Seq: len(r.Log), Dir: dir.String(), T: now, Len: len(p.Data), Fate: "delivered"}
	if r.KeepData {
		rec.Data = p.Data
	}
	r.Log = append(r.Log, rec)
	r.BytesSent[dir] += int64(len(p.Data))
	if r.Classify != nil {
		rec.Class, rec.Pkts = r.Classify(dir, p.Data)
	} else {
		rec.Class = sniff(p.Data)
	}
	if r.Tap != nil {
		r.Tap(dir, rec)
	}
	// ordinals: any + each class
	keys := append([]string{""}, rec.Class...)
	ords := make(map[string]int, len(keys))
	for _, k := range keys {
		ck := dir.String() + "/" + k
		ords[k] = r.counts[ck]
		r.counts[ck]++
	}
	// blackout / loss window (times count from the epoch: the creation of the router or the last ArmAll)
	rel := now - r.epoch
	for _, b := range r.blackouts {
		if rel >= b[0] && rel < b[1] {
			rec.Fate = "blackout"
			r.mu.Unlock()
			return nil
		}
	}
	if r.loss != nil && rel >= time.Duration(r.loss.FromMs)*time.Millisecond && rel < time.Duration(r.loss.ToMs)*time.Millisecond {
		if int(splitmix(&r.lossState)%1000) < r.loss.Permille {
			rec.Fate = "lost"
			r.Applied = append(r.Applied, dir.String()+"/"+first(rec.Class)+"/lost")
			r.mu.Unlock()
			return nil
		}
	}
	data := p.Data
	copies := 1
	extra := time.Duration(0)
	for i, f := range r.faults {
		if r.used[i] || f.Dir != dir.String() {
			continue
		}
		ord, ok := ords[f.Cls]
		if !ok || ord != f.Nth {
			continue
		}
		r.used[i] = true
		r.Applied = append(r.Applied, dir.String()+"/"+first(rec.Class)+"/"+f.Kind)
		switch f.Kind {
		case "drop":
			rec.Fate = "dropped"
			r.mu.Unlock()
			return nil
		case "dup":
			n := f.Arg
			if n < 1 {
				n = 1
			}
			if n > 4 {
				n = 4
			}
			copies += n
			rec.Fate = fmt.Sprintf("dup:%d", n)
		case "delay":
			extra += time.Duration(f.Arg) * time.Millisecond
			rec.Fate = fmt.Sprintf("delayed:%dms", f.Arg)
		case "flip":
			if len(data) > 0 {
				d2 := append([]byte(nil), data...)
				idx := ((f.Arg % len(d2)) + len(d2)) % len(d2)
				if f.Arg >= 5 && len(d2) > 5 {
					// an index that was chosen outside the version field stays outside it when it wraps
					// around a short datagram (a flipped version word can forge a Version Negotiation packet)
					idx = 5 + (f.Arg-5)%(len(d2)-5)
				}
				m := byte(f.Arg2)
				if m == 0 {
					m = 1
				}
				d2[idx] ^= m
				data = d2
				rec.Fate = fmt.Sprintf("flipped:%d^%02x", idx, m)
				rec.Mutated = true
			}
		case "trunc":
			if len(data) > 1 {
				n := 1 + ((f.Arg%(len(data)-1))+(len(data)-1))%(len(data)-1)
				data = append([]byte(nil), data[:n]...)
				rec.Fate = fmt.Sprintf("truncated:%d", n)
				rec.Mutated = true
			}
		}
	}
	recv := r.nodes[p.To.String()]
	r.mu.Unlock()
	if recv == nil {
		rec.Fate = "noroute"
		return nil
	}
	for i := 0; i < copies; i++ {
		d := r.latency + extra + time.Duration(i)*50*time.Microsecond
		pkt := simnet.Packet{To: p.To, From: p.From, Data: data}
		time.AfterFunc(d, func() { r.deliver(dir, rec, recv, pkt) })
	}
	return nil
}

func first(c []string) string {
	if len(c) == 0 {
		return "?"
	}
	return c[0]
}

func (r *Router) deliver(dir Dir, rec *Record, recv simnet.PacketReceiver, pkt simnet.Packet) {
	r.mu.Lock()
	if r.closed {
		r.mu.Unlock()
		return
	}
	r.BytesDlv[dir] += int64(len(pkt.Data))
	rec.Dlv = append(rec.Dlv, time.Since(r.start))
	cb := r.OnDeliver
	r.mu.Unlock()
	if cb != nil {
		cb(dir, rec, pkt.Data)
	}
	recv.RecvPacket(pkt)
}

// Inject sends an attacker-crafted datagram to one endpoint after the link latency.
func (r *Router) Inject(dir Dir, from, to net.Addr, data []byte, note string) {
	r.mu.Lock()
	if r.closed {
		r.mu.Unlock()
		return
	}
	rec := &Record{Seq: len(r.Log), Dir: dir.String(), T: time.Since(r.start), Len: len(data), Fate: "injected", Notes: note, Forged: true, Class: sniff(data)}
	r.Log = append(r.Log, rec)
	recv := r.nodes[to.String()]
	r.mu.Unlock()
	if recv == nil {
		return
	}
	pkt := simnet.Packet{To: to, From: from, Data: append([]byte(nil), data...)}
	time.AfterFunc(r.latency, func() { r.deliver(dir, rec, recv, pkt) })
}

// Trace returns a compact copy of the log for replay files.
func (r *Router) Trace(max int) []*Record {
	r.mu.Lock()
	defer r.mu.Unlock()
	out := make([]*Record, 0, len(r.Log))
	for i, x := range r.Log {
		if i >= max {
			break
		}
		c := *x
		c.Data = nil
		c.Dlv = append([]time.Duration(nil), x.Dlv...)
		out = append(out, &c)
	}
	return out
}

// AppliedFaults returns the labels of faults that hit a datagram.
func (r *Router) AppliedFaults() []string {
	r.mu.Lock()
	defer r.mu.Unlock()
	return append([]string(nil), r.Applied...)
}

// Silence analyses the log for the period (from, to]: how many intact datagrams were handed to the endpoint
// receiving direction dirToE, and how many datagrams (either direction) the network lost or corrupted.
func (r *Router) Silence(dirToE string, from, to time.Duration) (intactToE, lostAny, sentAny int) {
	r.mu.Lock()
	defer r.mu.Unlock()
	if from < r.epoch {
		from = r.epoch // a preparatory phase (before ArmAll) is not part of the judged connection
	}
	for _, x := range r.Log {
		if x.Forged {
			continue
		}
		if x.T > from && x.T <= to {
			sentAny++
			if x.Mutated || len(x.Dlv) == 0 {
				lostAny++
			}
		}
		if x.Dir == dirToE && !x.Mutated && len(x.Dlv) > 0 && len(x.Class) > 0 && x.Class[0] == "1rtt" {
			// only the first copy of a short-header datagram certainly resets the receiver's idle timer
			if d := x.Dlv[0]; d > from && d <= to {
				intactToE++
			}
		}
	}
	return
}

// DeadStretch returns the longest period, up to 'until', between two consecutive intact deliveries in one
// direction during which the network lost or corrupted at least one datagram of that direction (maximum over
// both directions). It measures for how long the path was effectively dead. After ArmAll only the new phase counts.
func (r *Router) DeadStretch(until time.Duration) time.Duration {
	r.mu.Lock()
	defer r.mu.Unlock()
	var longest time.Duration
	for _, dir := range []string{"c2s", "s2c"} {
		type ev struct {
			t    time.Duration
			lost bool
		}
		var evs []ev
		for _, x := range r.Log {
			if x.Forged || x.Dir != dir || x.T < r.epoch {
				continue
			}
			if x.Mutated || len(x.Dlv) == 0 {
				evs = append(evs, ev{x.T, true})
			} else {
				for _, d := range x.Dlv {
					evs = append(evs, ev{d, false})
				}
			}
		}
		sort.Slice(evs, func(i, j int) bool { return evs[i].t < evs[j].t })
		last, hasLoss := r.epoch, false // the pause after a preparatory phase (ArmAll) is not a dead path
		for _, e := range evs {
			if e.t > until {
				break
			}
			if e.lost {
				hasLoss = true
				continue
			}
			if hasLoss && e.t-last > longest {
				longest = e.t - last
			}
			last, hasLoss = e.t, false
		}
		if hasLoss && until-last > longest {
			longest = until - last
		}
	}
	return longest
}

// Arm installs a new fault schedule and restarts the datagram ordinals (used by scenarios that run a
// preparatory connection first: the faults then apply to the measured connection only).
func (r *Router) Arm(faults []Fault) {
	r.mu.Lock()
	r.faults = faults
	r.used = make([]bool, len(faults))
	r.counts = map[string]int{}
	r.Applied = nil
	r.mu.Unlock()
}

// ArmAll is Arm for the whole fault model: explicit faults (ordinals restart at 0), the Bernoulli loss window and the
// blackouts, whose times count from now on. It returns the length of the log (the first record of the new phase).
func (r *Router) ArmAll(faults []Fault, loss *Loss, blackouts [][2]time.Duration) int {
	r.mu.Lock()
	defer r.mu.Unlock()
	r.faults = faults
	r.used = make([]bool, len(faults))
	r.counts = map[string]int{}
	r.Applied = nil
	r.loss, r.lossState = loss, 0
	if loss != nil {
		r.lossState = loss.Seed | 1
	}
	r.blackouts = blackouts
	r.epoch = time.Since(r.start)
	return len(r.Log)
}

// Mark returns the current length of the log (to separate phases of a scenario).
func (r *Router) Mark() int { r.mu.Lock(); defer r.mu.Unlock(); return len(r.Log) }
