package sim

import (
	"context"
	"fmt"
	"io"
	"testing"
	"time"

	quic "github.com/refraction-networking/uquic"
)

func runOnce(t *testing.T, faults []Fault, quicID *quic.QUICID) (err error, leak *LeakReport, nlog int) {
	Bubble(t, 40*time.Second, func() {
		w := NewWorld(20*time.Millisecond, faults, nil, nil)
		defer w.Close()
		obs := w.Observe()
		defer func() {
			if obs.Undecryptable > 0 && err == nil {
				for _, r := range w.Router.Log {
					for _, p := range r.Pkts.([]*Packet) {
						if p.Err != "" {
							err = fmt.Errorf("observer: %s datagram %d: %s %s", r.Dir, r.Seq, p.Kind, p.Err)
							return
						}
					}
				}
			}
		}()
		st := &quic.Transport{Conn: w.ServerConn}
		ln, e := st.Listen(ServerTLS(false, w.ServerKeys), DefaultQUICConfig())
		if e != nil {
			err = e
			return
		}
		ctx, cancel := Ctx(30 * time.Second)
		defer cancel()
		done := make(chan error, 1)
		go func() {
			c, e := ln.Accept(ctx)
			if e != nil {
				done <- e
				return
			}
			s, e := c.AcceptStream(ctx)
			if e != nil {
				done <- e
				return
			}
			b, e := io.ReadAll(s)
			if e != nil {
				done <- e
				return
			}
			s.Write(b)
			s.Close()
			done <- nil
		}()
		ct := &quic.Transport{Conn: w.ClientConn}
		var conn *quic.Conn
		if quicID != nil {
			spec, e := quic.QUICID2Spec(*quicID)
			if e != nil {
				err = e
				return
			}
			ut := &quic.UTransport{Transport: ct, QUICSpec: &spec}
			conn, err = ut.Dial(ctx, ServerAddr, ClientTLS(w.ClientKeys), DefaultQUICConfig())
		} else {
			conn, err = ct.Dial(ctx, ServerAddr, ClientTLS(w.ClientKeys), DefaultQUICConfig())
		}
		if err != nil {
			st.Close()
			ct.Close()
			return
		}
		s, e := conn.OpenStreamSync(ctx)
		if e != nil {
			err = e
		} else {
			s.Write(make([]byte, 20000))
			s.Close()
			b, e := io.ReadAll(s)
			if e != nil || len(b) != 20000 {
				err = e
			}
		}
		if e := <-done; e != nil && err == nil {
			err = e
		}
		conn.CloseWithError(0, "")
		ln.Close()
		st.Close()
		ct.Close()
		nlog = len(w.Router.Log)
		_ = context.Background
	}, func(r LeakReport) { leak = &r })
	return
}

func TestSmoke(t *testing.T) {
	t0 := time.Now()
	n := 200
	for i := 0; i < n; i++ {
		err, leak, nlog := runOnce(t, []Fault{{Dir: "c2s", Nth: i % 7, Kind: "drop"}, {Dir: "s2c", Nth: i % 5, Kind: "dup", Arg: 1}}, nil)
		if err != nil || leak != nil {
			t.Fatalf("i=%d err=%v leak=%v nlog=%d", i, err, leak, nlog)
		}
	}
	t.Logf("%d plain conns in %v", n, time.Since(t0))
	t0 = time.Now()
	for i := 0; i < 50; i++ {
		err, leak, nlog := runOnce(t, nil, &quic.QUICChrome_115)
		if err != nil || leak != nil {
			t.Fatalf("chrome i=%d err=%v leak=%v nlog=%d", i, err, leak, nlog)
		}
	}
	t.Logf("50 chrome conns in %v", time.Since(t0))
}
