package c08

import (
	"bytes"
	"fmt"
	"testing"
	"time"

	"pgregory.net/rapid"

	"github.com/refraction-networking/uquic/internal/protocol"
	"github.com/refraction-networking/uquic/internal/qerr"
	"github.com/refraction-networking/uquic/internal/wire"
	"github.com/refraction-networking/uquic/verif/refwire"
	"github.com/refraction-networking/uquic/verif/vf"
)

// ---- unit parser-state --------------------------------------------------------------------
//
// A connection owns exactly ONE wire.FrameParser (connection.go:165 `frameParser wire.FrameParser`,
// built in preSetup with the three extension switches) and uses it for the packets of all packet
// number spaces, in whatever order they arrive. The peer's ack_delay_exponent reaches it once,
// through Conn.applyTransportParameters -> SetAckDelayExponent (connection.go:2447), which runs
// while the packet carrying the peer's transport parameters is being handled (server: the Initial
// with the ClientHello; client: the Handshake packet with EncryptedExtensions). All other C08 frame
// units use a fresh parser per payload; this one keeps the parser for a whole sequence of payloads
// and demands that what a payload decodes to is a function of (payload, level, configuration)
// only - never of what the parser saw before (RFC 9000 13.2.5 / 18.2: the ACK Delay field of a
// 1-RTT / 0-RTT packet is scaled with the peer's ack_delay_exponent, Initial and Handshake ACKs
// with the default 3).

type PSPayload struct {
	Level int `json:"level"` // refwire.Level*
	Data  Hex `json:"data"`
}

type ParserStateCase struct {
	Dg  bool  `json:"dg"`
	Rsa bool  `json:"rsa"`
	Af  bool  `json:"af"`
	V2  bool  `json:"v2"`
	Exp uint8 `json:"exp"` // the peer's ack_delay_exponent
	// SetAt: SetAckDelayExponent(Exp) is called immediately before payload number SetAt is parsed.
	// Payloads before it are Initial / Handshake only (nothing else can be decrypted before the
	// peer's transport parameters were processed).
	SetAt    int         `json:"set_at"`
	Payloads []PSPayload `json:"payloads"`
}

// ackHeavy returns the frame names acceptable at level with ACK over-represented (about half of
// the draws at levels that allow ACK).
func ackHeavy(level int, dg, rsa, af bool) []string {
	names := namesFor(level, dg, rsa, af)
	nAck := 0
	for _, n := range names {
		if n == refwire.NameAck {
			nAck++
		}
	}
	if nAck == 0 {
		return names // 0-RTT: ACK is not allowed (RFC 9000 Table 3)
	}
	out := append([]string(nil), names...)
	for i := len(names) - 2*nAck; i > 0; i-- {
		out = append(out, refwire.NameAck)
	}
	return out
}

func genParserStateCase(t *rapid.T) ParserStateCase {
	c := ParserStateCase{
		Dg:  rapid.IntRange(0, 3).Draw(t, "dg") != 0,
		Rsa: rapid.IntRange(0, 3).Draw(t, "rsa") != 0,
		Af:  rapid.IntRange(0, 3).Draw(t, "af") == 0, // connection.go passes false; kept as a dimension
		V2:  rapid.IntRange(0, 3).Draw(t, "v2") == 0,
	}
	c.Exp = uint8(rapid.IntRange(0, 20).Draw(t, "exp"))
	if rapid.IntRange(0, 7).Draw(t, "exp3") == 0 {
		c.Exp = 3
	}
	n := rapid.IntRange(2, 12).Draw(t, "npayloads")
	// the transport parameters arrive early: before the first payload (they are handled before the
	// other frames of that packet matter) or after a few Initial / Handshake packets
	c.SetAt = rapid.SampledFrom([]int{0, 0, 0, 1, 1, 2, 3}).Draw(t, "set-at")
	c.SetAt = min(c.SetAt, n-1)
	// level sequence: the handshake order (Initial*, Handshake*, then mostly 1-RTT with late
	// Handshake / Initial / 0-RTT packets mixed in) or arbitrary interleaving (reordering,
	// coalesced packets)
	ordered := rapid.Bool().Draw(t, "ordered")
	phase := 0
	for i := 0; i < n; i++ {
		var lvl int
		switch {
		case i < c.SetAt:
			lvl = rapid.SampledFrom([]int{refwire.LevelInitial, refwire.LevelInitial, refwire.LevelHandshake}).Draw(t, "level")
		case ordered:
			if phase < 2 && rapid.IntRange(0, 1).Draw(t, "advance") == 0 {
				phase++
			}
			switch phase {
			case 0:
				lvl = refwire.LevelInitial
			case 1:
				lvl = refwire.LevelHandshake
			default:
				lvl = rapid.SampledFrom([]int{refwire.Level1RTT, refwire.Level1RTT, refwire.Level1RTT, refwire.Level1RTT,
					refwire.LevelHandshake, refwire.LevelHandshake, refwire.LevelInitial, refwire.Level0RTT}).Draw(t, "level")
			}
		default:
			lvl = rapid.SampledFrom([]int{refwire.LevelInitial, refwire.LevelHandshake, refwire.LevelHandshake, refwire.Level0RTT,
				refwire.Level1RTT, refwire.Level1RTT, refwire.Level1RTT}).Draw(t, "level")
		}
		names := ackHeavy(lvl, c.Dg, c.Rsa, c.Af)
		var data []byte
		if rapid.IntRange(0, 24).Draw(t, "hostile") == 17 {
			// a payload the parser may have to reject (the connection dies there: the case ends)
			data = mutatedN(t, func(t *rapid.T) []byte { return genPayload(t, allFrameNames, false) }, maxInput, 2)
		} else {
			data = genPayload(t, names, true)
		}
		c.Payloads = append(c.Payloads, PSPayload{Level: lvl, Data: data})
	}
	return c
}

func checkParserState(c ParserStateCase, u *vf.Unit) *vf.Verdict {
	if c.Exp > 20 || len(c.Payloads) == 0 {
		return nil
	}
	v := version(c.V2)
	// constructed like Conn.preSetup does; used as a value inside Conn, the pointer is the same object
	p := wire.NewFrameParser(c.Dg, c.Rsa, c.Af)
	isSet := false
	var (
		acksEarly      int  // ACKs decoded at Initial / Handshake so far (after the exponent was set)
		acksEarlyAny   int  // the same, also counting those before SetAckDelayExponent
		ackLateAfter   bool // an ACK decoded at 1-RTT after one at Initial / Handshake
		ackECN         bool
		acks           int
		framesTotal    int
		rejectedAt     = -1
		levelsSeen     [4]bool
		ackAfterStream bool
		sawOther       bool
	)
	for i, pl := range c.Payloads {
		if pl.Level < 0 || pl.Level > 3 || len(pl.Data) > maxInput {
			return nil
		}
		if i == c.SetAt {
			p.SetAckDelayExponent(c.Exp)
			isSet = true
		}
		if !isSet && pl.Level != refwire.LevelInitial && pl.Level != refwire.LevelHandshake {
			return nil // not producible: no 0-RTT / 1-RTT keys before the peer's parameters were seen
		}
		lvl := levels[pl.Level]
		orig := append([]byte(nil), pl.Data...)
		var fs []parsedFrame
		var failed bool
		var perr error
		if vd := guardPanic("parser-state", func() *vf.Verdict {
			var vd *vf.Verdict
			fs, failed, perr, vd = parseAll(p, pl.Data, lvl, v)
			return vd
		}); vd != nil {
			return vd
		}
		if !bytes.Equal(orig, pl.Data) {
			putBack(fs)
			return bad("parser-state", "input-modified", "payload %d: the parser wrote into its input", i)
		}
		if failed {
			if _, ok := perr.(*qerr.TransportError); !ok {
				putBack(fs)
				return bad("parser-state", "error-type", "payload %d: parser error is %T (%v), not a *qerr.TransportError", i, perr, perr)
			}
		}
		// the independent reading of this payload alone
		ref, refErr := refwire.ParseFrames(pl.Data)
		exp := c.Exp
		if lvl != protocol.Encryption1RTT && lvl != protocol.Encryption0RTT {
			exp = protocol.DefaultAckDelayExponent // RFC 9000 13.2.5: Initial and Handshake ACKs use the default
		}
		nRef, refFailed := 0, refErr != nil
		var refFrames []refwire.Frame
		for _, r := range ref {
			if r.Name == refwire.NamePadding {
				continue
			}
			if !refAcceptable(r, pl.Level, c.Dg, c.Rsa, c.Af, nRef < len(fs)) {
				refFailed = true
				break
			}
			refFrames = append(refFrames, r)
			nRef++
		}
		history := func() string { return describeHistory(c, i) }
		for k := 0; k < min(len(fs), nRef); k++ {
			r := refFrames[k]
			w := toRef(fs[k].f, exp)
			if af, ok := fs[k].f.(*wire.AckFrame); ok && r.Name == refwire.NameAck {
				// the explicit ACK delay oracle: raw << exponent(level) microseconds, whatever came before
				if ackDelayRepresentable(r.AckDelay, exp) {
					want := time.Duration(r.AckDelay<<exp) * time.Microsecond
					if af.DelayTime != want {
						cause := "ack-delay"
						if acksEarlyAny > 0 || framesTotal > 0 {
							// would a fresh parser have decoded it right? then the parser's state leaked
							fp := wire.NewFrameParser(c.Dg, c.Rsa, c.Af)
							if isSet {
								fp.SetAckDelayExponent(c.Exp)
							}
							if ffs, _, _, _ := parseAll(fp, pl.Data, lvl, v); k < len(ffs) {
								if faf, ok := ffs[k].f.(*wire.AckFrame); ok && faf.DelayTime == want {
									cause = "ack-delay-depends-on-history"
								}
								putBack(ffs)
							}
						}
						putBack(fs)
						return bad("parser-state", cause, "payload %d (%s), frame %d: ACK Delay field %d with ack_delay_exponent %d (peer announced %d) must decode to %v, got %v\n history: %s\n bytes=%x",
							i, levelNames[pl.Level], k, r.AckDelay, exp, c.Exp, want, af.DelayTime, history(), clip(fs[k].raw, 64))
					}
				} else {
					if af.DelayTime < 0 {
						putBack(fs)
						return bad("parser-state", "negative-ack-delay", "payload %d: ACK delay %d<<%d parsed to %v", i, r.AckDelay, exp, af.DelayTime)
					}
					w.AckDelay = r.AckDelay
					u.Class("norm:ack-delay-overflow")
				}
			}
			if r.Name == refwire.NameAckFrequency && r.RequestMaxAckDelay > (1<<63-1)/1000 {
				if fs[k].f.(*wire.AckFrequencyFrame).RequestMaxAckDelay < 0 {
					putBack(fs)
					return bad("parser-state", "negative-ack-delay", "payload %d: ACK_FREQUENCY max ack delay %d parsed negative", i, r.RequestMaxAckDelay)
				}
				w.RequestMaxAckDelay = r.RequestMaxAckDelay
			}
			if !eqRef(w, r) {
				putBack(fs)
				return bad("parser-state", "refwire-disagrees", "payload %d (%s), frame %d: implementation and independent reader disagree\n impl=%+v\n ref =%+v\n history: %s\n bytes=%x",
					i, levelNames[pl.Level], k, normRef(w), normRef(r), history(), clip(fs[k].raw, 80))
			}
			if uint64(fs[k].typ) != r.Type {
				putBack(fs)
				return bad("parser-state", "refwire-disagrees", "payload %d, frame %d: type %#x vs %#x", i, k, uint64(fs[k].typ), r.Type)
			}
		}
		if len(fs) != nRef || failed != refFailed {
			which := "accepts-invalid"
			if len(fs) < nRef || failed && !refFailed {
				which = "rejects-valid"
			}
			putBack(fs)
			return bad("parser-state", which, "payload %d level=%s dg=%v rsa=%v af=%v: implementation parsed %d frames (error: %v), RFC reading gives %d acceptable frames (error: %v / %v)\n history: %s\n bytes=%x",
				i, levelNames[pl.Level], c.Dg, c.Rsa, c.Af, len(fs), perr, nRef, refFailed, refErr, history(), clip(pl.Data, 96))
		}
		total := 0
		for _, pf := range fs {
			total += pf.consumed
		}
		if !failed {
			if rest := pl.Data[total:]; len(rest) > 0 {
				if rf, err := refwire.ParseFrames(rest); err != nil || !allPadding(rf) {
					putBack(fs)
					return bad("parser-state", "consumed-mismatch", "payload %d: clean end but %d unconsumed non-padding bytes", i, len(rest))
				}
			}
		}
		// bookkeeping
		levelsSeen[pl.Level] = true
		for _, pf := range fs {
			framesTotal++
			af, isAck := pf.f.(*wire.AckFrame)
			if !isAck {
				sawOther = true
				continue
			}
			acks++
			if sawOther {
				ackAfterStream = true
			}
			if af.ECT0 > 0 || af.ECT1 > 0 || af.ECNCE > 0 || pf.typ == wire.FrameTypeAckECN {
				ackECN = true
			}
			switch lvl {
			case protocol.EncryptionInitial, protocol.EncryptionHandshake:
				acksEarlyAny++
				if isSet {
					acksEarly++
				}
			case protocol.Encryption1RTT:
				if acksEarly > 0 {
					ackLateAfter = true
				}
			}
		}
		putBack(fs) // Conn.handleFrames hands STREAM frames to the stream, which puts them back
		if failed {
			rejectedAt = i
			break // the connection is closed with the error; the parser is never used again
		}
	}
	if c.Exp != protocol.DefaultAckDelayExponent {
		u.Class("exponent-not-3")
	} else {
		u.Class("exponent-3")
	}
	if ackLateAfter {
		u.Class("ack-at-handshake-then-1rtt")
		if c.Exp != protocol.DefaultAckDelayExponent {
			u.Class("ack-at-handshake-then-1rtt:exponent-not-3")
		}
	}
	if ackECN {
		u.Class("ack-ecn")
	}
	if acks > 0 {
		u.Class("ack")
	}
	if acksEarlyAny > acksEarly {
		u.Class("ack-before-exponent-set")
	}
	if ackAfterStream {
		u.Class("ack-after-other-frames")
	}
	if rejectedAt >= 0 {
		u.Class("ended-by-rejection")
	} else {
		u.Class("all-payloads-parsed")
	}
	for l, seen := range levelsSeen {
		if seen {
			u.Class("level:" + levelNames[l])
		}
	}
	u.Class(fmt.Sprintf("payloads:%02d", len(c.Payloads)))
	if framesTotal >= 2 {
		parts := []any{c.Dg, c.Rsa, c.Af, c.Exp, c.SetAt}
		for _, pl := range c.Payloads {
			parts = append(parts, pl.Level, []byte(pl.Data))
		}
		u.NonTrivial(parts...)
	}
	if u.WantSample() && acks > 1 {
		u.Sample(c)
	}
	return nil
}

// describeHistory lists what the parser was fed before payload i (levels and frame kinds).
func describeHistory(c ParserStateCase, i int) string {
	var b bytes.Buffer
	for k := 0; k <= i && k < len(c.Payloads); k++ {
		if k == c.SetAt {
			fmt.Fprintf(&b, "SetAckDelayExponent(%d); ", c.Exp)
		}
		fmt.Fprintf(&b, "%s[", levelNames[c.Payloads[k].Level])
		fr, _ := refwire.ParseFrames(c.Payloads[k].Data)
		n := 0
		for _, f := range fr {
			if f.Name == refwire.NamePadding {
				continue
			}
			if n > 0 {
				b.WriteByte(' ')
			}
			b.WriteString(f.Name)
			n++
		}
		b.WriteString("]")
		if k < i {
			b.WriteString(" -> ")
		}
	}
	return b.String()
}

func TestParserState(t *testing.T) {
	vf.RunRapid(t, "parser-state", genParserStateCase, checkParserState)
}
