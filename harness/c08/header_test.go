package c08

import (
	"bytes"
	"errors"
	"io"
	"testing"

	"pgregory.net/rapid"

	"github.com/refraction-networking/uquic/internal/protocol"
	"github.com/refraction-networking/uquic/internal/wire"
	"github.com/refraction-networking/uquic/verif/refwire"
	"github.com/refraction-networking/uquic/verif/vf"
)

// ---- generators of valid packets (independent encoder) ------------------------------------

var versionsKnown = []uint32{refwire.Version1, refwire.Version2}

func genCID(t *rapid.T, label string, minLen int) []byte {
	n := rapid.SampledFrom([]int{0, 4, 8, 8, 16, 20, 20, -1}).Draw(t, label+"-len")
	if n < 0 {
		n = rapid.IntRange(0, 20).Draw(t, label+"-anylen")
	}
	n = max(n, minLen)
	return genBytes(t, label, n, n)
}

type longSpec struct {
	H     refwire.LongHeader
	PN    uint64
	PNLen int
}

// genLongSpec draws a long header of every kind for v1 or v2 with a Length consistent with the
// payload that genLongPacket will append.
func genLongSpec(t *rapid.T) longSpec {
	var s longSpec
	s.H.Version = rapid.SampledFrom(versionsKnown).Draw(t, "version")
	s.H.Kind = rapid.IntRange(0, 3).Draw(t, "kind")
	s.H.DCID = genCID(t, "dcid", 0)
	s.H.SCID = genCID(t, "scid", 0)
	s.PNLen = rapid.IntRange(1, 4).Draw(t, "pnlen")
	s.PN = rapid.Uint64Range(0, 1<<(8*uint(s.PNLen))-1).Draw(t, "pn")
	switch s.H.Kind {
	case refwire.LongInitial:
		n := genDataLen(t, "toklen", 300)
		s.H.Token = genBytes(t, "token", n, n)
	case refwire.LongRetry:
		n := max(1, genDataLen(t, "toklen", 300))
		s.H.RetryToken = genBytes(t, "token", n, n)
		copy(s.H.RetryTag[:], genBytes(t, "tag", 16, 16))
	}
	if s.H.Kind != refwire.LongRetry {
		payload := rapid.SampledFrom([]int{0, 1, 16, 20, 59, 60, 63, 64, 100, 1000}).Draw(t, "payload")
		s.H.Length = uint64(s.PNLen + payload)
	}
	return s
}

func genLongPacket(t *rapid.T) []byte {
	s := genLongSpec(t)
	b := refwire.AppendLongHeader(nil, s.H, s.PN, s.PNLen)
	if s.H.Kind != refwire.LongRetry {
		n := int(s.H.Length) - s.PNLen
		b = append(b, genBytes(t, "body", n, n)...)
		if rapid.IntRange(0, 3).Draw(t, "coalesced") == 0 {
			b = append(b, genBytes(t, "next", 1, 40)...)
		}
	}
	return b
}

func genShortPacket(t *rapid.T, cidLen int) []byte {
	pnLen := rapid.IntRange(1, 4).Draw(t, "pnlen")
	b := refwire.AppendShortHeader(nil, genBytes(t, "dcid", cidLen, cidLen), rapid.Uint64Range(0, 1<<(8*uint(pnLen))-1).Draw(t, "pn"), pnLen,
		rapid.Bool().Draw(t, "kp"), rapid.Bool().Draw(t, "spin"))
	return append(b, genBytes(t, "body", 0, 40)...)
}

func genVNPacket(t *rapid.T) []byte {
	n := rapid.IntRange(0, 6).Draw(t, "nversions")
	vs := make([]uint32, n)
	for i := range vs {
		vs[i] = rapid.SampledFrom([]uint32{1, refwire.Version2, 0x0a0a0a0a, 0xff00001d, 0, 0xffffffff}).Draw(t, "v")
	}
	cid := func(l string) []byte {
		n := rapid.SampledFrom([]int{0, 8, 20, 21, 255}).Draw(t, l+"-len")
		return genBytes(t, l, n, n)
	}
	return refwire.AppendVersionNegotiation(nil, rapid.Byte().Draw(t, "unused"), cid("dcid"), cid("scid"), vs)
}

// ---- unit header-bytes ---------------------------------------------------------------------

type HeaderCase struct {
	CIDLen int `json:"cid_len"`
	Data   Hex `json:"data"`
}

func genHeaderCase(t *rapid.T) HeaderCase {
	c := HeaderCase{CIDLen: rapid.SampledFrom([]int{0, 4, 8, 8, 20, -1}).Draw(t, "cidlen")}
	if c.CIDLen < 0 {
		c.CIDLen = rapid.IntRange(0, 20).Draw(t, "cidlen-any") // Transport.ConnectionIDLength is validated to 0..20 (transport.go init)
	}
	c.Data = mutated(t, func(t *rapid.T) []byte {
		switch rapid.IntRange(0, 9).Draw(t, "form") {
		case 0, 1, 2:
			return genShortPacket(t, c.CIDLen)
		case 3:
			return genVNPacket(t)
		default:
			return genLongPacket(t)
		}
	}, maxInput)
	return c
}

func pktType(kind int) protocol.PacketType {
	return [4]protocol.PacketType{refwire.LongInitial: protocol.PacketTypeInitial, refwire.Long0RTT: protocol.PacketType0RTT,
		refwire.LongHandshake: protocol.PacketTypeHandshake, refwire.LongRetry: protocol.PacketTypeRetry}[kind]
}

func supported(v uint32) bool { return v == refwire.Version1 || v == refwire.Version2 }

func checkHeaderBytes(c HeaderCase, u *vf.Unit) *vf.Verdict {
	if len(c.Data) > maxInput || c.CIDLen < 0 || c.CIDLen > 20 {
		return nil
	}
	return guardPanic("header", func() *vf.Verdict { return checkHeaderBytesInner(c, u) })
}

func checkHeaderBytesInner(c HeaderCase, u *vf.Unit) *vf.Verdict {
	data := []byte(c.Data)
	orig := append([]byte(nil), data...)
	defer func() {
		if !bytes.Equal(orig, data) {
			panic("parser modified its input")
		}
	}()

	// --- ParseConnectionID (transport.go handlePacket) against the invariants of RFC 8999
	cid, cidErr := wire.ParseConnectionID(data, c.CIDLen)
	switch {
	case len(data) == 0:
		if cidErr == nil {
			return bad("header", "connid", "ParseConnectionID accepted empty input")
		}
		u.Class("empty")
		return nil
	case !refwire.IsLongHeader(data[0]):
		if ok := len(data) >= 1+c.CIDLen; ok != (cidErr == nil) {
			return bad("header", "connid", "short header, %d bytes, cid len %d: err=%v", len(data), c.CIDLen, cidErr)
		}
		if cidErr == nil && !bytes.Equal(cid.Bytes(), data[1:1+c.CIDLen]) {
			return bad("header", "connid", "short header DCID %x, want %x", cid.Bytes(), data[1:1+c.CIDLen])
		}
	default:
		ok := len(data) >= 6 && int(data[5]) <= 20 && len(data) >= 6+int(data[5])
		if ok != (cidErr == nil) {
			return bad("header", "connid", "long header %x: err=%v, expected ok=%v", clip(data, 30), cidErr, ok)
		}
		if ok && !bytes.Equal(cid.Bytes(), data[6:6+int(data[5])]) {
			return bad("header", "connid", "long header DCID %x, want %x", cid.Bytes(), data[6:6+int(data[5])])
		}
	}

	if !refwire.IsLongHeader(data[0]) {
		return checkShortBytes(c, data, u)
	}
	if wire.IsLongHeaderPacket(data[0]) != true {
		return bad("header", "form", "IsLongHeaderPacket(%#x) = false", data[0])
	}
	isVN := len(data) >= 5 && data[1]|data[2]|data[3]|data[4] == 0
	if wire.IsVersionNegotiationPacket(data) != isVN {
		return bad("header", "form", "IsVersionNegotiationPacket = %v, want %v", !isVN, isVN)
	}
	if isVN {
		return checkVNBytes(data, u)
	}
	return checkLongBytes(data, u)
}

func checkVNBytes(data []byte, u *vf.Unit) *vf.Verdict {
	dest, src, versions, err := wire.ParseVersionNegotiationPacket(data)
	rd, rs, rv, rerr := refwire.ParseVersionNegotiation(data)
	refOK := rerr == nil && len(rv) > 0 // an empty list is useless to a client; rejecting it is the documented choice (version_negotiation.go)
	if rerr == nil && len(rv) == 0 {
		u.Class("vn-empty-list")
	}
	if refOK != (err == nil) {
		return bad("header", "vn-accept-mismatch", "VN %x: implementation err=%v, independent reader err=%v (%d versions)", clip(data, 60), err, rerr, len(rv))
	}
	if err != nil {
		u.Class("vn-rejected")
		return nil
	}
	if !bytes.Equal(dest, rd) || !bytes.Equal(src, rs) || len(versions) != len(rv) {
		return bad("header", "vn-differs", "VN %x: dest %x/%x src %x/%x versions %v/%v", clip(data, 60), dest, rd, src, rs, versions, rv)
	}
	for i := range rv {
		if uint32(versions[i]) != rv[i] {
			return bad("header", "vn-differs", "version %d: %v vs %#x", i, versions[i], rv[i])
		}
	}
	u.Class("vn-parsed")
	u.NonTrivial("vn", data)
	return nil
}

func checkShortBytes(c HeaderCase, data []byte, u *vf.Unit) *vf.Verdict {
	l, pn, pnLen, kp, err := wire.ParseShortHeader(data, c.CIDLen)
	rh, rerr := refwire.ParseShortHeader(data, c.CIDLen)
	refOK := rerr == nil && rh.HasPN && data[0]&0x40 != 0
	if err != nil && !errors.Is(err, wire.ErrInvalidReservedBits) {
		if refOK {
			return bad("header", "short-rejects-valid", "short header %x (cid len %d) rejected: %v", clip(data, 30), c.CIDLen, err)
		}
		if l != 0 {
			return bad("header", "consumed-mismatch", "ParseShortHeader failed (%v) but reports %d bytes", err, l)
		}
		u.Class("short-rejected")
		return nil
	}
	if !refOK {
		return bad("header", "short-accepts-invalid", "short header %x (cid len %d) accepted; independent reader: %v, fixed bit %v", clip(data, 30), c.CIDLen, rerr, data[0]&0x40 != 0)
	}
	if (rh.Reserved != 0) != errors.Is(err, wire.ErrInvalidReservedBits) {
		return bad("header", "reserved-bits", "reserved bits %02b, err=%v", rh.Reserved, err)
	}
	wantKP := protocol.KeyPhaseZero
	if rh.KeyPhase {
		wantKP = protocol.KeyPhaseOne
	}
	if l != rh.PNOffset+rh.PNLen || uint64(pn) != rh.PN || int(pnLen) != rh.PNLen || kp != wantKP {
		return bad("header", "short-differs", "short header %x: len %d/%d pn %d/%d pnlen %d/%d kp %v/%v", clip(data, 30), l, rh.PNOffset+rh.PNLen, pn, rh.PN, pnLen, rh.PNLen, kp, wantKP)
	}
	if l > len(data) {
		return bad("header", "consumed-mismatch", "short header length %d > input %d", l, len(data))
	}
	// re-encode
	connID := protocol.ParseConnectionID(data[1 : 1+c.CIDLen])
	b, aerr := wire.AppendShortHeader(nil, connID, pn, pnLen, kp)
	if aerr != nil {
		return bad("header", "reencode-error", "AppendShortHeader: %v", aerr)
	}
	if int(wire.ShortHeaderLen(connID, pnLen)) != len(b) || len(b) != l {
		return bad("header", "length-mismatch", "ShortHeaderLen=%d, wrote %d, parsed %d", wire.ShortHeaderLen(connID, pnLen), len(b), l)
	}
	want := append([]byte(nil), data[:l]...)
	want[0] &^= 0x20 | 0x18 // spin bit is not written by this function; reserved bits are zero
	if !bytes.Equal(b, want) {
		return bad("header", "reparse-differs", "short header re-encodes to %x, want %x", b, want)
	}
	u.Class("short-parsed")
	u.NonTrivial("short", c.CIDLen, data[:l])
	return nil
}

func checkLongBytes(data []byte, u *vf.Unit) *vf.Verdict {
	hdr, packet, rest, err := wire.ParsePacket(data)
	rh, rerr := refwire.ParseLongHeader(data)
	ver := uint32(0)
	if len(data) >= 5 {
		ver = uint32(data[1])<<24 | uint32(data[2])<<16 | uint32(data[3])<<8 | uint32(data[4])
	}
	// Is0RTTPacket is used by the server to decide about queueing before the header is parsed
	want0RTT := rerr == nil && supported(ver) && rh.Kind == refwire.Long0RTT
	if len(data) >= 5 && supported(ver) { // decidable from the first 5 bytes
		want0RTT = refwire.LongTypeBits(ver, refwire.Long0RTT) == data[0]>>4&3
	}
	if wire.Is0RTTPacket(data) != want0RTT {
		return bad("header", "is0rtt", "Is0RTTPacket(%x) = %v", clip(data, 8), !want0RTT)
	}
	if v, verr := wire.ParseVersion(data); (verr == nil) != (len(data) >= 5) || verr == nil && uint32(v) != ver {
		return bad("header", "version", "ParseVersion(%x) = %v, %v", clip(data, 8), v, verr)
	}

	if len(data) >= 5 && !supported(ver) {
		// only the invariant part is parsed; the connection IDs must be limited to 20 bytes
		// (transport.go answers with Version Negotiation using ParseArbitraryLenConnectionIDs instead)
		if err == nil {
			return bad("header", "long-accepts-invalid", "unsupported version %#x accepted", ver)
		}
		if errors.Is(err, wire.ErrUnsupportedVersion) {
			if hdr == nil || uint32(hdr.Version) != ver || data[0]&0x40 == 0 {
				return bad("header", "unsupported-version", "ErrUnsupportedVersion with header %+v (first byte %#x)", hdr, data[0])
			}
			n, d, s, aerr := wire.ParseArbitraryLenConnectionIDs(data)
			if aerr != nil || !bytes.Equal(d, hdr.DestConnectionID.Bytes()) || !bytes.Equal(s, hdr.SrcConnectionID.Bytes()) || n != 7+len(d)+len(s) || int(hdr.ParsedLen()) != n {
				return bad("header", "unsupported-version", "invariant header: %x/%x vs %x/%x, n=%d parsedLen=%d err=%v", d, s, hdr.DestConnectionID.Bytes(), hdr.SrcConnectionID.Bytes(), n, hdr.ParsedLen(), aerr)
			}
			if !bytes.Equal(d, rh.DCID) && rerr == nil {
				return bad("header", "refwire-disagrees", "unsupported version DCID %x vs %x", d, rh.DCID)
			}
			u.Class("long-unsupported-version")
		} else {
			if hdr != nil {
				return bad("header", "unsupported-version", "error %v with non-nil header", err)
			}
			u.Class("long-rejected")
		}
		return nil
	}

	refOK := rerr == nil && rh.Check(len(data)) == nil
	if refOK && rh.Kind == refwire.LongRetry && len(rh.RetryToken) == 0 {
		refOK = false // RFC 9000 17.2.5.2: a Retry with an empty token is discarded
	}
	if refOK != (err == nil) {
		which := "long-accepts-invalid"
		if refOK {
			which = "long-rejects-valid"
		}
		return bad("header", which, "long header %x: implementation err=%v; independent reader err=%v check=%v", clip(data, 60), err, rerr, rh.Check(len(data)))
	}
	if err != nil {
		if hdr != nil || packet != nil || rest != nil {
			return bad("header", "error-with-values", "ParsePacket failed (%v) but returned values", err)
		}
		u.Class("long-rejected")
		return nil
	}
	// field agreement
	tok := rh.Token
	if rh.Kind == refwire.LongRetry {
		tok = rh.RetryToken
	}
	if hdr.Type != pktType(rh.Kind) || uint32(hdr.Version) != rh.Version || !bytes.Equal(hdr.DestConnectionID.Bytes(), rh.DCID) ||
		!bytes.Equal(hdr.SrcConnectionID.Bytes(), rh.SCID) || !bytes.Equal(hdr.Token, tok) || uint64(hdr.Length) != rh.Length {
		return bad("header", "refwire-disagrees", "long header %x:\n impl=%+v\n ref =%+v", clip(data, 60), hdr, rh)
	}
	wantParsed, wantPacket := rh.PNOffset, rh.PNOffset+int(rh.Length)
	if rh.Kind == refwire.LongRetry {
		wantParsed, wantPacket = len(data), len(data)
	}
	if int(hdr.ParsedLen()) != wantParsed || len(packet) != wantPacket || len(packet)+len(rest) != len(data) ||
		!bytes.Equal(packet, data[:len(packet)]) || !bytes.Equal(rest, data[len(packet):]) {
		return bad("header", "consumed-mismatch", "long header %x: ParsedLen=%d (want %d), packet %d bytes (want %d), rest %d of %d", clip(data, 60), hdr.ParsedLen(), wantParsed, len(packet), wantPacket, len(rest), len(data))
	}
	u.Class("long-parsed:" + hdr.Type.String())
	if rh.Kind == refwire.LongRetry {
		// connection.handleRetryPacket works on the Header; re-encode through ExtendedHeader like packet_packer / server.sendRetry
		eh := &wire.ExtendedHeader{Header: *hdr}
		b, aerr := eh.Append(nil, hdr.Version)
		if aerr != nil {
			return bad("header", "reencode-error", "Retry: %v", aerr)
		}
		b = append(b, rh.RetryTag[:]...)
		if len(b) != len(data) || !bytes.Equal(b[1:], data[1:]) || b[0]&0xf0 != data[0]&0xf0 {
			return bad("header", "reparse-differs", "Retry re-encodes to %x, want %x", clip(b, 60), clip(data, 60))
		}
		u.NonTrivial("retry", data)
		return nil
	}

	// --- ParseExtended on the packet (packet_unpacker.go unpackLongHeader, after header protection removal)
	eh, eerr := hdr.ParseExtended(packet)
	pnLen := int(packet[0]&3) + 1
	if len(packet) < rh.PNOffset+pnLen {
		if eerr != io.EOF || eh != nil {
			return bad("header", "extended", "packet shorter than its packet number: err=%v", eerr)
		}
		u.Class("long-pn-truncated")
		return nil
	}
	if eerr != nil && !errors.Is(eerr, wire.ErrInvalidReservedBits) || eh == nil {
		return bad("header", "extended", "ParseExtended(%x): %v", clip(packet, 60), eerr)
	}
	if (packet[0]&0x0c != 0) != errors.Is(eerr, wire.ErrInvalidReservedBits) {
		return bad("header", "reserved-bits", "first byte %#x, err=%v", packet[0], eerr)
	}
	var wantPN uint64
	for _, x := range packet[rh.PNOffset : rh.PNOffset+pnLen] {
		wantPN = wantPN<<8 | uint64(x)
	}
	if int(eh.PacketNumberLen) != pnLen || uint64(eh.PacketNumber) != wantPN || int(eh.ParsedLen()) != rh.PNOffset+pnLen {
		return bad("header", "extended", "pn %d/%d pnlen %d/%d parsedLen %d/%d", eh.PacketNumber, wantPN, eh.PacketNumberLen, pnLen, eh.ParsedLen(), rh.PNOffset+pnLen)
	}
	// re-encode (the packer always writes Length in 2 bytes; the input size keeps Length < 16384)
	b, aerr := eh.Append(nil, hdr.Version)
	if aerr != nil {
		return bad("header", "reencode-error", "%v", aerr)
	}
	if int(eh.GetLength(hdr.Version)) != len(b) {
		return bad("header", "length-mismatch", "GetLength=%d, Append wrote %d (%+v)", eh.GetLength(hdr.Version), len(b), eh)
	}
	full := append(append([]byte(nil), b...), packet[eh.ParsedLen():]...)
	hdr2, packet2, rest2, err2 := wire.ParsePacket(full)
	if err2 != nil || len(rest2) != 0 || len(packet2) != len(full) {
		return bad("header", "reparse-failed", "own encoding %x: %v", clip(full, 60), err2)
	}
	eh2, eerr2 := hdr2.ParseExtended(packet2)
	if eerr2 != nil {
		return bad("header", "reparse-failed", "own encoding, extended: %v", eerr2)
	}
	if hdr2.Type != hdr.Type || hdr2.Version != hdr.Version || hdr2.DestConnectionID != hdr.DestConnectionID || hdr2.SrcConnectionID != hdr.SrcConnectionID ||
		!bytes.Equal(hdr2.Token, hdr.Token) || hdr2.Length != hdr.Length || eh2.PacketNumber != eh.PacketNumber || eh2.PacketNumberLen != eh.PacketNumberLen {
		return bad("header", "reparse-differs", "parse(encode(h)) != h:\n %+v\n %+v", eh, eh2)
	}
	b2, _ := eh2.Append(nil, hdr2.Version)
	if !bytes.Equal(b, b2) {
		return bad("header", "reencode-unstable", "%x vs %x", b, b2)
	}
	u.NonTrivial("long", data[:eh.ParsedLen()])
	if u.WantSample() {
		u.Sample(HeaderCase{Data: data})
	}
	return nil
}

func TestHeaderBytes(t *testing.T) {
	vf.RunRapid(t, "header-bytes", genHeaderCase, checkHeaderBytes)
}

// ---- unit header-struct --------------------------------------------------------------------

type HeaderStructCase struct {
	Form     string             `json:"form"` // long | short | vn
	Long     refwire.LongHeader `json:"long"`
	PN       uint64             `json:"pn"`
	PNLen    int                `json:"pn_len"`
	KeyPhase bool               `json:"kp"`
	DCID     Hex                `json:"dcid"`
	SCID     Hex                `json:"scid"`
	Versions []uint32           `json:"versions"`
}

func genHeaderStructCase(t *rapid.T) HeaderStructCase {
	c := HeaderStructCase{Form: rapid.SampledFrom([]string{"long", "long", "long", "short", "vn"}).Draw(t, "form")}
	switch c.Form {
	case "long":
		s := genLongSpec(t)
		// the packer's precondition: Length is written in 2 bytes (extended_header.go Append)
		if s.H.Kind != refwire.LongRetry {
			s.H.Length = uint64(s.PNLen) + rapid.SampledFrom([]uint64{0, 1, 59, 60, 63, 64, 1200, 1452, 16383 - 4}).Draw(t, "payload")
		}
		c.Long, c.PN, c.PNLen = s.H, s.PN, s.PNLen
	case "short":
		c.DCID = genCID(t, "dcid", 0)
		c.PNLen = rapid.IntRange(1, 4).Draw(t, "pnlen")
		c.PN = rapid.Uint64Range(0, 1<<(8*uint(c.PNLen))-1).Draw(t, "pn")
		c.KeyPhase = rapid.Bool().Draw(t, "kp")
	case "vn":
		n := rapid.SampledFrom([]int{0, 8, 20, 21, 100, 255}).Draw(t, "dcidlen")
		c.DCID = genBytes(t, "dcid", n, n)
		n = rapid.SampledFrom([]int{0, 8, 20, 21, 100, 255}).Draw(t, "scidlen")
		c.SCID = genBytes(t, "scid", n, n)
		nv := rapid.IntRange(1, 5).Draw(t, "nv")
		for i := 0; i < nv; i++ {
			c.Versions = append(c.Versions, rapid.SampledFrom([]uint32{1, refwire.Version2, 0xff00001d, 0x12345678}).Draw(t, "v"))
		}
	}
	return c
}

func isReservedVersion(v uint32) bool { return v&0x0f0f0f0f == 0x0a0a0a0a }

func checkHeaderStruct(c HeaderStructCase, u *vf.Unit) *vf.Verdict {
	switch c.Form {
	case "short":
		connID := protocol.ParseConnectionID(c.DCID)
		kp := protocol.KeyPhaseZero
		if c.KeyPhase {
			kp = protocol.KeyPhaseOne
		}
		b, err := wire.AppendShortHeader(nil, connID, protocol.PacketNumber(c.PN), protocol.PacketNumberLen(c.PNLen), kp)
		if err != nil {
			return bad("header", "encode-error", "AppendShortHeader: %v", err)
		}
		if int(wire.ShortHeaderLen(connID, protocol.PacketNumberLen(c.PNLen))) != len(b) {
			return bad("header", "length-mismatch", "ShortHeaderLen=%d, wrote %d", wire.ShortHeaderLen(connID, protocol.PacketNumberLen(c.PNLen)), len(b))
		}
		rh, rerr := refwire.ParseShortHeader(b, len(c.DCID))
		if rerr != nil || !rh.HasPN || rh.PN != c.PN || rh.PNLen != c.PNLen || rh.KeyPhase != c.KeyPhase || rh.Reserved != 0 || rh.Spin ||
			!bytes.Equal(rh.DCID, c.DCID) || b[0]&0x40 == 0 || rh.PNOffset+rh.PNLen != len(b) {
			return bad("header", "refwire-disagrees", "short header %x read as %+v (%v)", b, rh, rerr)
		}
		full := append(append([]byte(nil), b...), 1, 2, 3)
		l, pn, pnLen, kp2, err := wire.ParseShortHeader(full, len(c.DCID))
		if err != nil || l != len(b) || uint64(pn) != c.PN || int(pnLen) != c.PNLen || kp2 != kp {
			return bad("header", "roundtrip-differs", "short header %x: %d %d %d %v %v", b, l, pn, pnLen, kp2, err)
		}
		got, err := wire.ParseConnectionID(full, len(c.DCID))
		if err != nil || got != connID {
			return bad("header", "roundtrip-differs", "ParseConnectionID: %v %v", got, err)
		}
		u.Class("short")
		u.NonTrivial(b)
	case "vn":
		b := wire.ComposeVersionNegotiation(protocol.ArbitraryLenConnectionID(c.DCID), protocol.ArbitraryLenConnectionID(c.SCID), versionsOf(c.Versions))
		rd, rs, rv, rerr := refwire.ParseVersionNegotiation(b)
		if rerr != nil || !bytes.Equal(rd, c.DCID) || !bytes.Equal(rs, c.SCID) {
			return bad("header", "refwire-disagrees", "VN %x read as %x %x (%v)", clip(b, 60), rd, rs, rerr)
		}
		// the encoder inserts exactly one reserved (GREASE) version at a random position (RFC 9000 6.3)
		okVersions := false
		for i := range rv {
			if isReservedVersion(rv[i]) && equalU32(append(append([]uint32(nil), rv[:i]...), rv[i+1:]...), c.Versions) {
				okVersions = true
				break
			}
		}
		if !okVersions {
			return bad("header", "refwire-disagrees", "VN versions on the wire %x, encoded %x", rv, c.Versions)
		}
		if !wire.IsVersionNegotiationPacket(b) || !wire.IsLongHeaderPacket(b[0]) {
			return bad("header", "form", "composed VN not recognised")
		}
		d, s, vs, err := wire.ParseVersionNegotiationPacket(b)
		if err != nil || !bytes.Equal(d, c.DCID) || !bytes.Equal(s, c.SCID) || len(vs) != len(rv) {
			return bad("header", "roundtrip-differs", "VN: %x %x %v %v", d, s, vs, err)
		}
		for i := range vs {
			if uint32(vs[i]) != rv[i] {
				return bad("header", "roundtrip-differs", "VN version %d", i)
			}
		}
		u.Class("vn")
		u.NonTrivial(b)
	case "long":
		h := c.Long
		v := protocol.Version(h.Version)
		eh := &wire.ExtendedHeader{}
		eh.Type = pktType(h.Kind)
		eh.Version = v
		eh.DestConnectionID = protocol.ParseConnectionID(h.DCID)
		eh.SrcConnectionID = protocol.ParseConnectionID(h.SCID)
		eh.Length = protocol.ByteCount(h.Length)
		eh.Token = h.Token
		if h.Kind == refwire.LongRetry {
			eh.Token = h.RetryToken
		} else {
			eh.PacketNumber = protocol.PacketNumber(c.PN)
			eh.PacketNumberLen = protocol.PacketNumberLen(c.PNLen)
		}
		b, err := eh.Append(nil, v)
		if err != nil {
			return bad("header", "encode-error", "%+v: %v", eh, err)
		}
		if h.Kind != refwire.LongRetry {
			if int(eh.GetLength(v)) != len(b) {
				return bad("header", "length-mismatch", "GetLength=%d, Append wrote %d (%+v)", eh.GetLength(v), len(b), eh)
			}
			b = append(b, make([]byte, int(h.Length)-c.PNLen)...)
		} else {
			b = append(b, h.RetryTag[:]...)
		}
		full := append(append([]byte(nil), b...), 0x40, 1, 2) // a coalesced packet follows
		if h.Kind == refwire.LongRetry {
			full = b // a Retry packet fills the datagram
		}
		rh, rerr := refwire.ParseLongHeader(full)
		if rerr != nil || rh.Check(len(full)) != nil {
			return bad("header", "refwire-disagrees", "independent reader rejects %x: %v %v", clip(b, 60), rerr, rh.Check(len(full)))
		}
		if rh.Kind != h.Kind || rh.Version != h.Version || !bytes.Equal(rh.DCID, h.DCID) || !bytes.Equal(rh.SCID, h.SCID) || !bytes.Equal(rh.Token, h.Token) ||
			rh.Length != h.Length || !bytes.Equal(rh.RetryToken, h.RetryToken) || rh.RetryTag != h.RetryTag || rh.FirstByte&0x40 == 0 {
			return bad("header", "refwire-disagrees", "encoded %+v, independent reader sees %+v\n %x", h, rh, clip(b, 60))
		}
		if h.Kind != refwire.LongRetry {
			var pn uint64
			for _, x := range full[rh.PNOffset : rh.PNOffset+c.PNLen] {
				pn = pn<<8 | uint64(x)
			}
			if int(rh.FirstByte&3)+1 != c.PNLen || pn != c.PN || rh.FirstByte&0x0c != 0 || rh.PNOffset+int(rh.Length) != len(b) {
				return bad("header", "refwire-disagrees", "pn %d/%d pnlen %d/%d first byte %#x end %d/%d", pn, c.PN, int(rh.FirstByte&3)+1, c.PNLen, rh.FirstByte, rh.PNOffset+int(rh.Length), len(b))
			}
		}
		hdr, packet, rest, err := wire.ParsePacket(full)
		if err != nil {
			return bad("header", "roundtrip-rejected", "%x: %v", clip(full, 60), err)
		}
		if len(packet) != len(b) || len(rest) != len(full)-len(b) {
			return bad("header", "consumed-mismatch", "packet %d (want %d) rest %d", len(packet), len(b), len(rest))
		}
		if hdr.Type != eh.Type || hdr.Version != v || hdr.DestConnectionID != eh.DestConnectionID || hdr.SrcConnectionID != eh.SrcConnectionID ||
			!bytes.Equal(hdr.Token, eh.Token) || hdr.Length != eh.Length {
			return bad("header", "roundtrip-differs", "parse(encode(h)) != h:\n %+v\n %+v", eh.Header, hdr)
		}
		if got, err := wire.ParseConnectionID(full, 0); err != nil || got != eh.DestConnectionID {
			return bad("header", "roundtrip-differs", "ParseConnectionID: %v %v", got, err)
		}
		if wire.Is0RTTPacket(full) != (h.Kind == refwire.Long0RTT) {
			return bad("header", "is0rtt", "Is0RTTPacket = %v for kind %d", h.Kind != refwire.Long0RTT, h.Kind)
		}
		if h.Kind != refwire.LongRetry {
			eh2, err := hdr.ParseExtended(packet)
			if err != nil || eh2.PacketNumber != eh.PacketNumber || eh2.PacketNumberLen != eh.PacketNumberLen || int(eh2.ParsedLen()) != int(eh.GetLength(v)) {
				return bad("header", "roundtrip-differs", "extended: %+v vs %+v (%v)", eh2, eh, err)
			}
		}
		u.Class("long:" + eh.Type.String())
		if h.Version == refwire.Version2 {
			u.Class("v2")
		} else {
			u.Class("v1")
		}
		u.NonTrivial(b[:min(len(b), 80)])
	}
	if u.WantSample() {
		u.Sample(c)
	}
	return nil
}

func versionsOf(vs []uint32) []protocol.Version {
	out := make([]protocol.Version, len(vs))
	for i, v := range vs {
		out[i] = protocol.Version(v)
	}
	return out
}

func equalU32(a, b []uint32) bool {
	if len(a) != len(b) {
		return false
	}
	for i := range a {
		if a[i] != b[i] {
			return false
		}
	}
	return true
}

func TestHeaderStruct(t *testing.T) {
	vf.RunRapid(t, "header-struct", genHeaderStructCase, checkHeaderStruct)
}
