package c08

import (
	"bytes"
	"crypto/aes"
	"crypto/cipher"
	"crypto/sha256"
	"encoding/asn1"
	"fmt"
	"io"
	"net"
	"strings"
	"testing"
	"time"

	"golang.org/x/crypto/hkdf"
	"pgregory.net/rapid"

	"github.com/refraction-networking/uquic/internal/handshake"
	"github.com/refraction-networking/uquic/internal/protocol"
	"github.com/refraction-networking/uquic/internal/wire"
	"github.com/refraction-networking/uquic/quicvarint"
	"github.com/refraction-networking/uquic/verif/refwire"
	"github.com/refraction-networking/uquic/verif/vf"
)

// ---- unit varint ---------------------------------------------------------------------------

type VarintCase struct {
	Data Hex    `json:"data"`
	V    uint64 `json:"v"`
	W    int    `json:"w"`
}

func genVarintCase(t *rapid.T) VarintCase {
	c := VarintCase{V: genVarint(t, "v"), W: rapid.SampledFrom([]int{1, 2, 4, 8}).Draw(t, "w")}
	c.Data = mutatedN(t, func(t *rapid.T) []byte {
		v := genVarint(t, "dv")
		w := rapid.SampledFrom([]int{1, 2, 4, 8}).Draw(t, "dw")
		b := refwire.AppendVarintLen(nil, v, max(w, refwire.VarintLen(v)))
		return append(b, genBytes(t, "tail", 0, 3)...)
	}, 16, 2)
	return c
}

type peeker struct{ b []byte }

func (p peeker) Peek(b []byte) (int, error) {
	n := copy(b, p.b)
	if n < len(b) {
		return n, io.EOF
	}
	return n, nil
}

func checkVarint(c VarintCase, u *vf.Unit) *vf.Verdict {
	return guardPanic("varint", func() *vf.Verdict {
		data := []byte(c.Data)
		v, n, err := quicvarint.Parse(data)
		rv, rn, rerr := refwire.ReadVarint(data)
		if (err == nil) != (rerr == nil) {
			return bad("varint", "accept-mismatch", "Parse(%x): err=%v, independent reader err=%v", data, err, rerr)
		}
		if err != nil {
			want := io.ErrUnexpectedEOF
			if len(data) == 0 {
				want = io.EOF
			}
			if err != want || n != 0 || v != 0 {
				return bad("varint", "error-shape", "Parse(%x) = %d, %d, %v; want 0, 0, %v", data, v, n, err, want)
			}
			u.Class("truncated")
		} else {
			if v != rv || n != rn || n > len(data) {
				return bad("varint", "value", "Parse(%x) = %d (%d bytes), independent reader %d (%d bytes)", data, v, n, rv, rn)
			}
			u.Class(fmt.Sprintf("parsed:%d", n))
		}
		// Read from an io.ByteReader consumes exactly the same bytes
		r := bytes.NewReader(data)
		v2, err2 := quicvarint.Read(r)
		if (err2 == nil) != (rerr == nil) || err2 == nil && (v2 != rv || len(data)-r.Len() != rn) {
			return bad("varint", "read", "Read(%x) = %d, %v after %d bytes; independent reader %d, %v, %d bytes", data, v2, err2, len(data)-r.Len(), rv, rerr, rn)
		}
		v3, err3 := quicvarint.Peek(peeker{data})
		if (err3 == nil) != (rerr == nil) || err3 == nil && v3 != rv {
			return bad("varint", "peek", "Peek(%x) = %d, %v; independent reader %d, %v", data, v3, err3, rv, rerr)
		}
		// encoder side
		if c.V > refwire.MaxVarint {
			return nil
		}
		enc := quicvarint.Append([]byte{0xee}, c.V)
		if !bytes.Equal(enc[1:], refwire.AppendVarint(nil, c.V)) || enc[0] != 0xee {
			return bad("varint", "encode", "Append(%d) = %x, want %x", c.V, enc[1:], refwire.AppendVarint(nil, c.V))
		}
		if quicvarint.Len(c.V) != len(enc)-1 || quicvarint.Len(c.V) != refwire.VarintLen(c.V) {
			return bad("varint", "length-mismatch", "Len(%d) = %d, Append wrote %d bytes", c.V, quicvarint.Len(c.V), len(enc)-1)
		}
		if v, n, err := quicvarint.Parse(enc[1:]); err != nil || v != c.V || n != len(enc)-1 {
			return bad("varint", "roundtrip", "Parse(Append(%d)) = %d, %d, %v", c.V, v, n, err)
		}
		if c.W >= quicvarint.Len(c.V) {
			w := quicvarint.AppendWithLen([]byte{0xee}, c.V, c.W)
			if !bytes.Equal(w[1:], refwire.AppendVarintLen(nil, c.V, c.W)) {
				return bad("varint", "encode", "AppendWithLen(%d, %d) = %x, want %x", c.V, c.W, w[1:], refwire.AppendVarintLen(nil, c.V, c.W))
			}
			if v, n, err := quicvarint.Parse(w[1:]); err != nil || v != c.V || n != c.W {
				return bad("varint", "roundtrip", "Parse(AppendWithLen(%d,%d)) = %d, %d, %v", c.V, c.W, v, n, err)
			}
			u.Class(fmt.Sprintf("encoded:%d-in-%d", quicvarint.Len(c.V), c.W))
		} else {
			// documented: panics rather than writing a truncated value
			panicked := func() (p bool) {
				defer func() { p = recover() != nil }()
				quicvarint.AppendWithLen(nil, c.V, c.W)
				return false
			}()
			if !panicked {
				return bad("varint", "encode", "AppendWithLen(%d, %d) wrote a value that does not fit", c.V, c.W)
			}
			u.Class("encode-too-narrow-refused")
		}
		u.NonTrivial(data, c.V, c.W)
		return nil
	})
}

func TestVarint(t *testing.T) { vf.RunRapid(t, "varint", genVarintCase, checkVarint) }

// ---- unit tokens -----------------------------------------------------------------------------

type TokenCase struct {
	Mode  string `json:"mode"` // bytes | new | retry | auth
	Key   Hex    `json:"key"`
	Data  Hex    `json:"data"`
	IP    Hex    `json:"ip"`
	Port  int    `json:"port"`
	UDP   bool   `json:"udp"`
	RTTNs int64  `json:"rtt_ns"`
	ODCID Hex    `json:"odcid"`
	RSCID Hex    `json:"rscid"`
	// tamper: index and mask applied to a valid token (mask 0 = truncate at index)
	TamperAt   int  `json:"tamper_at"`
	TamperMask byte `json:"tamper_mask"`
	// auth mode: the ASN.1 body sealed with the correct key
	Auth authToken `json:"auth"`
}

// authToken mirrors the serialisation in token_generator.go (struct `token`); it exists here
// only to craft authenticated-but-hostile tokens.
type authToken struct {
	IsRetryToken             bool
	RemoteAddr               []byte
	Timestamp                int64
	RTT                      int64
	OriginalDestConnectionID []byte
	RetrySrcConnectionID     []byte
}

func genTokenCase(t *rapid.T) TokenCase {
	c := TokenCase{Mode: rapid.SampledFrom([]string{"bytes", "bytes", "new", "new", "retry", "retry", "auth"}).Draw(t, "mode")}
	c.Key = genBytes(t, "key", 32, 32)
	ipLen := rapid.SampledFrom([]int{4, 16}).Draw(t, "iplen")
	c.IP = genBytes(t, "ip", ipLen, ipLen)
	c.Port = rapid.IntRange(0, 65535).Draw(t, "port")
	c.UDP = rapid.IntRange(0, 3).Draw(t, "udp") != 0
	c.RTTNs = rapid.SampledFrom([]int64{0, 1, 999, 1000, 1001, 25_000_000, 1 << 40, 1<<63 - 1}).Draw(t, "rtt")
	c.ODCID = genCID(t, "odcid", 0)
	c.RSCID = genCID(t, "rscid", 0)
	c.TamperAt = rapid.IntRange(0, 120).Draw(t, "tamper-at")
	c.TamperMask = byte(rapid.SampledFrom([]int{0, 1, 0x80, 0xff}).Draw(t, "tamper-mask"))
	switch c.Mode {
	case "bytes":
		c.Data = genBytes(t, "data", 0, 120)
	case "auth":
		c.Auth = authToken{
			IsRetryToken: rapid.Bool().Draw(t, "isretry"),
			RemoteAddr:   genBytes(t, "raddr", 0, 40),
			Timestamp:    rapid.SampledFrom([]int64{0, -1, 1 << 62, -1 << 63, 1700000000_000000000}).Draw(t, "ts"),
			RTT:          rapid.SampledFrom([]int64{0, -1, 1 << 62, 1<<63 - 1, 25000}).Draw(t, "rtt"),
		}
		c.Auth.OriginalDestConnectionID = genBytes(t, "aodcid", 0, 20)
		c.Auth.RetrySrcConnectionID = genBytes(t, "arscid", 0, 20)
		if rapid.IntRange(0, 3).Draw(t, "oversized") == 0 {
			c.Auth.OriginalDestConnectionID = genBytes(t, "aodcid-long", 21, 40)
		}
		if rapid.IntRange(0, 3).Draw(t, "garbage") == 0 {
			c.Data = genBytes(t, "garbage", 0, 60) // sealed as is instead of the ASN.1 body
		}
		// which of the two connection IDs is over-long (drawn last: older replay files keep their meaning)
		switch rapid.IntRange(0, 3).Draw(t, "oversized-which") {
		case 1:
			if len(c.Auth.OriginalDestConnectionID) > 20 {
				c.Auth.RetrySrcConnectionID, c.Auth.OriginalDestConnectionID = c.Auth.OriginalDestConnectionID, c.Auth.RetrySrcConnectionID
			}
		case 2:
			if len(c.Auth.OriginalDestConnectionID) > 20 {
				c.Auth.RetrySrcConnectionID = append([]byte(nil), c.Auth.OriginalDestConnectionID...)
			}
		}
	}
	return c
}

// sealToken re-implements token_protector.go NewToken with a fixed nonce (independent of the
// code under test except for the published construction: HKDF-SHA256(key, nonce, "quic-go token
// source") -> AES-256-GCM key and nonce).
func sealToken(key []byte, nonce [32]byte, plaintext []byte) []byte {
	h := hkdf.New(sha256.New, key, nonce[:], []byte("quic-go token source"))
	k := make([]byte, 32)
	io.ReadFull(h, k)
	n := make([]byte, 12)
	io.ReadFull(h, n)
	blk, _ := aes.NewCipher(k)
	aead, _ := cipher.NewGCM(blk)
	return append(append([]byte(nil), nonce[:]...), aead.Seal(nil, n, plaintext, nil)...)
}

func (c TokenCase) addr(portDelta int) net.Addr {
	if c.UDP {
		return &net.UDPAddr{IP: net.IP(c.IP), Port: c.Port + portDelta}
	}
	return &net.TCPAddr{IP: net.IP(c.IP), Port: c.Port + portDelta}
}

func checkToken(c TokenCase, u *vf.Unit) *vf.Verdict {
	if len(c.Key) != 32 || len(c.IP) != 4 && len(c.IP) != 16 || len(c.ODCID) > 20 || len(c.RSCID) > 20 {
		return nil
	}
	var key handshake.TokenProtectorKey
	copy(key[:], c.Key)
	tg := handshake.NewTokenGenerator(key)
	switch c.Mode {
	case "bytes":
		return guardPanic("token", func() *vf.Verdict {
			tok, err := tg.DecodeToken(c.Data)
			if len(c.Data) == 0 {
				if tok != nil || err != nil {
					return bad("token", "empty", "DecodeToken(empty) = %v, %v", tok, err)
				}
				u.Class("empty")
				return nil
			}
			if err == nil || tok != nil {
				return bad("token", "forged-accepted", "DecodeToken accepted %d unauthenticated bytes", len(c.Data))
			}
			u.Class("garbage-rejected")
			return nil
		})
	case "new", "retry":
		return guardPanic("token", func() *vf.Verdict {
			before := time.Now()
			var enc []byte
			var err error
			odcid, rscid := protocol.ParseConnectionID(c.ODCID), protocol.ParseConnectionID(c.RSCID)
			if c.Mode == "new" {
				enc, err = tg.NewToken(c.addr(0), time.Duration(c.RTTNs))
			} else {
				enc, err = tg.NewRetryToken(c.addr(0), odcid, rscid)
			}
			if err != nil {
				return bad("token", "encode-error", "%v", err)
			}
			after := time.Now()
			tok, err := tg.DecodeToken(enc)
			if err != nil || tok == nil {
				return bad("token", "roundtrip-rejected", "DecodeToken(NewToken()) = %v", err)
			}
			if tok.IsRetryToken != (c.Mode == "retry") || tok.SentTime.Before(before.Add(-2*time.Second)) || tok.SentTime.After(after.Add(2*time.Second)) {
				return bad("token", "roundtrip-differs", "kind/time: %+v (window %v..%v)", tok, before, after)
			}
			if c.Mode == "new" {
				if tok.RTT != time.Duration(c.RTTNs).Truncate(time.Microsecond) || tok.OriginalDestConnectionID.Len() != 0 || tok.RetrySrcConnectionID.Len() != 0 {
					return bad("token", "roundtrip-differs", "RTT %v, want %v (%+v)", tok.RTT, time.Duration(c.RTTNs).Truncate(time.Microsecond), tok)
				}
			} else if tok.OriginalDestConnectionID != odcid || tok.RetrySrcConnectionID != rscid {
				return bad("token", "roundtrip-differs", "connection IDs %s/%s, want %s/%s", tok.OriginalDestConnectionID, tok.RetrySrcConnectionID, odcid, rscid)
			}
			if !tok.ValidateRemoteAddr(c.addr(0)) {
				return bad("token", "roundtrip-differs", "token does not validate the address it was issued for")
			}
			other := append(Hex(nil), c.IP...)
			other[len(other)-1] ^= 1
			c2 := c
			c2.IP = other
			if tok.ValidateRemoteAddr(c2.addr(0)) {
				return bad("token", "address-binding", "token validates a different IP address")
			}
			// tampering / truncation / wrong key must be detected (AEAD)
			t2 := append([]byte(nil), enc...)
			at := c.TamperAt % len(t2)
			if c.TamperMask == 0 {
				t2 = t2[:at]
			} else {
				t2[at] ^= c.TamperMask
			}
			if len(t2) > 0 {
				if tok2, err := tg.DecodeToken(t2); err == nil || tok2 != nil {
					return bad("token", "forged-accepted", "tampered token (at %d mask %#x) accepted", at, c.TamperMask)
				}
			}
			var key2 handshake.TokenProtectorKey
			copy(key2[:], c.Key)
			key2[at%32] ^= 0x10
			if tok2, err := handshake.NewTokenGenerator(key2).DecodeToken(enc); err == nil || tok2 != nil {
				return bad("token", "forged-accepted", "token accepted under a different key")
			}
			u.Class("roundtrip:" + c.Mode)
			u.NonTrivial(c.Mode, []byte(c.IP), c.Port, c.UDP, c.RTTNs, []byte(c.ODCID), []byte(c.RSCID))
			return nil
		})
	case "auth":
		body := []byte(c.Data)
		if len(body) == 0 {
			var err error
			if body, err = asn1.Marshal(c.Auth); err != nil {
				return nil
			}
		}
		var nonce [32]byte
		copy(nonce[:], c.IP)
		enc := sealToken(c.Key, nonce, body)
		oversized := len(c.Data) == 0 && c.Auth.IsRetryToken && (len(c.Auth.OriginalDestConnectionID) > 20 || len(c.Auth.RetrySrcConnectionID) > 20)
		isCIDPanic := func(v *vf.Verdict) bool { return v != nil && strings.Contains(v.Detail, "invalid conn id length") }
		v := guardPanic("token", func() *vf.Verdict {
			tok, err := tg.DecodeToken(enc)
			if len(c.Data) != 0 {
				// garbage under a valid seal: must be an error unless it happens to be the ASN.1 struct
				if err == nil {
					u.Class("auth-garbage-decoded")
				} else {
					u.Class("auth-garbage-rejected")
				}
				return nil
			}
			if oversized && err != nil {
				u.Class("auth-oversized-cid-rejected") // a connection ID longer than 20 bytes cannot be represented: an error is the right answer
				return nil
			}
			if err != nil || tok == nil {
				return bad("token", "roundtrip-rejected", "authentic token with body %+v rejected: %v", c.Auth, err)
			}
			if tok.IsRetryToken != c.Auth.IsRetryToken || tok.SentTime.UnixNano() != c.Auth.Timestamp {
				return bad("token", "roundtrip-differs", "%+v vs %+v", tok, c.Auth)
			}
			u.Class("auth-decoded")
			return nil
		})
		// An AUTHENTIC Retry token (sealed with the server's own key) that carries a connection ID longer than 20
		// bytes used to make DecodeToken panic in protocol.ParseConnectionID (repaired in /repo 0d728da): a panic is
		// a violation of "never panics" for either connection ID field.
		if isCIDPanic(v) {
			v.Sig = "C08/token/authentic-oversized-cid-panic"
		}
		return v
	}
	return nil
}

func TestTokens(t *testing.T) { vf.RunRapid(t, "tokens", genTokenCase, checkToken) }

// ---- unit ack-truncate -----------------------------------------------------------------------

type AckTruncateCase struct {
	Spec    refwire.Frame `json:"spec"`
	MaxSize int           `json:"max_size"`
}

func genAckTruncateCase(t *rapid.T) AckTruncateCase {
	f := refwire.Frame{Name: refwire.NameAck}
	f.AckDelay = genVarintMax(t, "ackdelay", (1<<63-1)/8000)
	if rapid.Bool().Draw(t, "ecn") {
		f.HasECN = true
		f.ECT0, f.ECT1, f.ECNCE = genVarint(t, "ect0"), genVarint(t, "ect1"), max(1, genVarint(t, "ce"))
	}
	n := rapid.SampledFrom([]int{1, 2, 3, 10, 63, 64, 65, 100, -1}).Draw(t, "nranges")
	if n < 0 {
		n = rapid.IntRange(1, 130).Draw(t, "nranges-any")
	}
	top := max(genVarint(t, "largest"), uint64(1)<<uint(rapid.IntRange(10, 61).Draw(t, "largest-min")))
	wide := rapid.IntRange(0, 2).Draw(t, "wide") == 0
	for i := 0; i < n; i++ {
		l := uint64(rapid.IntRange(0, 70).Draw(t, "rlen"))
		if wide && rapid.IntRange(0, 4).Draw(t, "rlen-wide") == 0 {
			l = min(top, uint64(rapid.IntRange(16000, 17000).Draw(t, "rlen-w")))
		}
		l = min(l, top)
		f.AckRanges = append(f.AckRanges, refwire.AckRange{Smallest: top - l, Largest: top})
		if top-l < 2 {
			break
		}
		gap := uint64(rapid.IntRange(0, 70).Draw(t, "gap"))
		if wide && rapid.IntRange(0, 4).Draw(t, "gap-wide") == 0 {
			gap = uint64(rapid.IntRange(16000, 17000).Draw(t, "gap-w"))
		}
		gap = min(gap, top-l-2)
		top = top - l - 2 - gap
	}
	c := AckTruncateCase{Spec: f}
	w := fromRef(f).(*wire.AckFrame)
	full := int(w.Length(protocol.Version1))
	one := *w
	one.AckRanges = one.AckRanges[:1]
	minLen := int(one.Length(protocol.Version1))
	// documented precondition: maxSize fits at least one range
	switch rapid.IntRange(0, 4).Draw(t, "size-mode") {
	case 0:
		c.MaxSize = minLen
	case 1:
		c.MaxSize = rapid.IntRange(minLen, full+8).Draw(t, "max")
	case 2:
		c.MaxSize = rapid.IntRange(max(minLen, full-6), full+2).Draw(t, "max")
	default:
		c.MaxSize = rapid.IntRange(minLen, max(minLen, min(full, minLen+200))).Draw(t, "max")
	}
	return c
}

func checkAckTruncate(c AckTruncateCase, u *vf.Unit) *vf.Verdict {
	if c.Spec.Name != refwire.NameAck || len(c.Spec.AckRanges) == 0 {
		return nil
	}
	v := protocol.Version1
	f := fromRef(c.Spec).(*wire.AckFrame)
	orig := append([]wire.AckRange(nil), f.AckRanges...)
	f.Truncate(protocol.ByteCount(c.MaxSize), v)
	k := len(f.AckRanges)
	if k < 1 || k > len(orig) || k > protocol.MaxNumAckRanges {
		return bad("ack", "truncate-count", "Truncate(%d) left %d of %d ranges", c.MaxSize, k, len(orig))
	}
	for i := range f.AckRanges {
		if f.AckRanges[i] != orig[i] {
			return bad("ack", "truncate-not-prefix", "range %d changed: %v -> %v", i, orig[i], f.AckRanges[i])
		}
	}
	b, err := f.Append(nil, v)
	if err != nil {
		return bad("ack", "encode-error", "%v", err)
	}
	if int(f.Length(v)) != len(b) {
		return bad("ack", "length-mismatch", "Length()=%d, Append wrote %d", f.Length(v), len(b))
	}
	if len(b) > c.MaxSize {
		return bad("ack", "truncate-too-long", "Truncate(%d) left a frame of %d bytes (%d ranges)", c.MaxSize, len(b), k)
	}
	if k < min(len(orig), protocol.MaxNumAckRanges) {
		g := &wire.AckFrame{AckRanges: orig[:k+1], DelayTime: f.DelayTime, ECT0: f.ECT0, ECT1: f.ECT1, ECNCE: f.ECNCE}
		if int(g.Length(v)) <= c.MaxSize {
			return bad("ack", "truncate-not-maximal", "Truncate(%d) kept %d ranges although %d ranges need only %d bytes", c.MaxSize, k, k+1, g.Length(v))
		}
		u.Class("truncated-by-size")
	} else if k < len(orig) {
		u.Class("truncated-by-cap")
	} else {
		u.Class("untouched")
	}
	// the truncated frame is what the independent reader sees
	r, n, err := refwire.ParseFrame(b)
	if err != nil || n != len(b) || len(r.AckRanges) != k {
		return bad("ack", "refwire-disagrees", "truncated frame read as %d ranges (%v)", len(r.AckRanges), err)
	}
	for i, ar := range r.AckRanges {
		if ar.Largest != uint64(orig[i].Largest) || ar.Smallest != uint64(orig[i].Smallest) {
			return bad("ack", "refwire-disagrees", "range %d on the wire %v, in the frame %v", i, ar, orig[i])
		}
	}
	u.NonTrivial(b, c.MaxSize)
	return nil
}

func TestAckTruncate(t *testing.T) {
	vf.RunRapid(t, "ack-truncate", genAckTruncateCase, checkAckTruncate)
}

// ---- unit frame-split: MaxDataLen / MaybeSplitOffFrame predict lengths the packer trusts -----

type SplitCase struct {
	Kind     string `json:"kind"` // stream | crypto | datagram
	StreamID uint64 `json:"sid"`
	Offset   uint64 `json:"off"`
	DataLen  int    `json:"dlen"`
	Fin      bool   `json:"fin"`
	HasLen   bool   `json:"haslen"`
	MaxSize  int    `json:"max_size"`
}

func genSplitCase(t *rapid.T) SplitCase {
	c := SplitCase{Kind: rapid.SampledFrom([]string{"stream", "stream", "crypto", "datagram"}).Draw(t, "kind")}
	c.StreamID = genVarint(t, "sid")
	c.DataLen = max(1, genDataLen(t, "dlen", 1400))
	c.Offset = genVarintMax(t, "off", refwire.MaxVarint-uint64(c.DataLen))
	c.Fin = rapid.Bool().Draw(t, "fin")
	c.HasLen = rapid.IntRange(0, 3).Draw(t, "haslen") != 0
	// packet payload budgets: anything from nothing to a full packet, biased to the 63/64 boundary
	switch rapid.IntRange(0, 4).Draw(t, "size-mode") {
	case 0:
		c.MaxSize = rapid.IntRange(0, 30).Draw(t, "max")
	case 1:
		c.MaxSize = rapid.IntRange(60, 90).Draw(t, "max")
	case 2:
		c.MaxSize = c.DataLen + rapid.IntRange(-3, 25).Draw(t, "max-delta")
	default:
		c.MaxSize = rapid.IntRange(0, maxInput).Draw(t, "max")
	}
	c.MaxSize = max(0, c.MaxSize)
	return c
}

func checkSplit(c SplitCase, u *vf.Unit) *vf.Verdict {
	if c.DataLen < 1 || c.DataLen > 1400 || c.MaxSize < 0 || c.MaxSize > 16383 || c.Offset > refwire.MaxVarint-uint64(c.DataLen) || c.StreamID > refwire.MaxVarint {
		return nil
	}
	v := protocol.Version1
	data := make([]byte, c.DataLen)
	for i := range data {
		data[i] = byte(i*7 + 1)
	}
	maxSize := protocol.ByteCount(c.MaxSize)
	var lengthWith func(n int) protocol.ByteCount
	var maxDataLen protocol.ByteCount
	switch c.Kind {
	case "stream":
		mk := func(n int) *wire.StreamFrame {
			return &wire.StreamFrame{StreamID: protocol.StreamID(c.StreamID), Offset: protocol.ByteCount(c.Offset), Data: data[:n], Fin: c.Fin, DataLenPresent: c.HasLen}
		}
		lengthWith = func(n int) protocol.ByteCount { return mk(n).Length(v) }
		maxDataLen = mk(c.DataLen).MaxDataLen(maxSize, v)
	case "crypto":
		mk := func(n int) *wire.CryptoFrame {
			return &wire.CryptoFrame{Offset: protocol.ByteCount(c.Offset), Data: data[:n]}
		}
		lengthWith = func(n int) protocol.ByteCount { return mk(n).Length(v) }
		maxDataLen = mk(c.DataLen).MaxDataLen(maxSize)
	case "datagram":
		mk := func(n int) *wire.DatagramFrame { return &wire.DatagramFrame{DataLenPresent: c.HasLen, Data: data[:n]} }
		lengthWith = func(n int) protocol.ByteCount { return mk(n).Length(v) }
		maxDataLen = mk(c.DataLen).MaxDataLen(maxSize, v)
	default:
		return nil
	}
	big := make([]byte, 20000)
	lengthOf := func(n protocol.ByteCount) protocol.ByteCount {
		if int(n) <= len(data) {
			return lengthWith(int(n))
		}
		old := data
		data = big
		defer func() { data = old }()
		return lengthWith(int(n))
	}
	if maxDataLen < 0 {
		return bad("split", "maxdatalen", "%s: MaxDataLen(%d) = %d", c.Kind, c.MaxSize, maxDataLen)
	}
	if maxDataLen > 0 && lengthOf(maxDataLen) > maxSize {
		return bad("split", "maxdatalen-overflows", "%s: MaxDataLen(%d) = %d but such a frame is %d bytes long", c.Kind, c.MaxSize, maxDataLen, lengthOf(maxDataLen))
	}
	if lengthOf(maxDataLen+1) <= maxSize {
		return bad("split", "maxdatalen-not-maximal", "%s: MaxDataLen(%d) = %d but %d bytes fit as well (%d bytes)", c.Kind, c.MaxSize, maxDataLen, maxDataLen+1, lengthOf(maxDataLen+1))
	}
	u.Class("maxdatalen:" + c.Kind)
	// MaybeSplitOffFrame
	switch c.Kind {
	case "stream":
		f := wire.GetStreamFrame()
		f.StreamID, f.Offset, f.Fin, f.DataLenPresent = protocol.StreamID(c.StreamID), protocol.ByteCount(c.Offset), c.Fin, c.HasLen
		f.Data = append(f.Data[:0], data...)
		full := f.Length(v)
		nf, split := f.MaybeSplitOffFrame(maxSize, v)
		defer f.PutBack()
		if !split {
			if nf != nil || full > maxSize || !bytes.Equal(f.Data, data) {
				return bad("split", "not-split", "stream frame of %d bytes, max %d: not split (new=%v)", full, c.MaxSize, nf != nil)
			}
			u.Class("fits")
			return nil
		}
		if full <= maxSize {
			return bad("split", "split-unneeded", "stream frame of %d bytes fits %d but was split", full, c.MaxSize)
		}
		if nf == nil {
			if maxDataLen != 0 {
				return bad("split", "split-nil", "MaxDataLen=%d but no frame split off", maxDataLen)
			}
			u.Class("too-small")
			return nil
		}
		defer nf.PutBack()
		if nf.Length(v) > maxSize || nf.DataLen() != maxDataLen {
			return bad("split", "split-too-long", "split frame is %d bytes (data %d), max %d, MaxDataLen %d", nf.Length(v), nf.DataLen(), c.MaxSize, maxDataLen)
		}
		if !bytes.Equal(append(append([]byte(nil), nf.Data...), f.Data...), data) || nf.Offset != protocol.ByteCount(c.Offset) ||
			f.Offset != protocol.ByteCount(c.Offset)+nf.DataLen() || nf.Fin || f.Fin != c.Fin || nf.StreamID != f.StreamID ||
			nf.StreamID != protocol.StreamID(c.StreamID) || nf.DataLenPresent != c.HasLen || f.DataLenPresent != c.HasLen {
			return bad("split", "split-content", "split lost or reordered data: new{off %d len %d fin %v} rest{off %d len %d fin %v}", nf.Offset, nf.DataLen(), nf.Fin, f.Offset, f.DataLen(), f.Fin)
		}
		u.Class("split:stream")
		u.NonTrivial(c.Kind, c.StreamID, c.Offset, c.DataLen, c.HasLen, c.MaxSize)
	case "crypto":
		f := &wire.CryptoFrame{Offset: protocol.ByteCount(c.Offset), Data: append([]byte(nil), data...)}
		full := f.Length(v)
		nf, split := f.MaybeSplitOffFrame(maxSize, v)
		if !split {
			if nf != nil || full > maxSize || !bytes.Equal(f.Data, data) {
				return bad("split", "not-split", "crypto frame of %d bytes, max %d: not split", full, c.MaxSize)
			}
			u.Class("fits")
			return nil
		}
		if full <= maxSize {
			return bad("split", "split-unneeded", "crypto frame of %d bytes fits %d but was split", full, c.MaxSize)
		}
		if nf == nil {
			if maxDataLen != 0 {
				return bad("split", "split-nil", "MaxDataLen=%d but no frame split off", maxDataLen)
			}
			u.Class("too-small")
			return nil
		}
		if nf.Length(v) > maxSize || protocol.ByteCount(len(nf.Data)) != maxDataLen {
			return bad("split", "split-too-long", "split crypto frame is %d bytes, max %d", nf.Length(v), c.MaxSize)
		}
		if !bytes.Equal(append(append([]byte(nil), nf.Data...), f.Data...), data) || nf.Offset != protocol.ByteCount(c.Offset) ||
			f.Offset != protocol.ByteCount(c.Offset)+protocol.ByteCount(len(nf.Data)) {
			return bad("split", "split-content", "crypto split lost or reordered data")
		}
		u.Class("split:crypto")
		u.NonTrivial(c.Kind, c.Offset, c.DataLen, c.MaxSize)
	}
	return nil
}

func TestFrameSplit(t *testing.T) { vf.RunRapid(t, "frame-split", genSplitCase, checkSplit) }
