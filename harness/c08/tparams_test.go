package c08

import (
	"bytes"
	"fmt"
	"net/netip"
	"strings"
	"testing"
	"time"

	"pgregory.net/rapid"

	"github.com/refraction-networking/uquic/internal/protocol"
	"github.com/refraction-networking/uquic/internal/qerr"
	"github.com/refraction-networking/uquic/internal/wire"
	"github.com/refraction-networking/uquic/verif/refwire"
	"github.com/refraction-networking/uquic/verif/vf"
)

// TPSpec is a JSON-serialisable description of a TransportParameters value.
type TPSpec struct {
	Server bool `json:"server"`

	BidiLocal, BidiRemote, Uni, MaxData uint64
	MaxBidi, MaxUni                     uint64
	IdleMs                              uint64
	UDPPayload                          uint64 // 0 = absent
	MaxAckDelayMs                       uint64
	AckDelayExp                         uint8
	DisableMigration                    bool
	ActiveCIDLimit                      uint64
	ISCID                               Hex
	Datagram                            int64 // -1 = absent
	ResetStreamAt                       bool
	MinAckDelayUs                       int64 // -1 = absent

	// server only
	ODCID      Hex
	HasRetry   bool
	RetrySCID  Hex
	HasSRT     bool
	SRT        Hex
	HasPA      bool
	PA4        [4]byte
	PA4Port    uint16
	PA6        [16]byte
	PA6Port    uint16
	PACID      Hex
	PAToken    Hex
	Additional []refwire.TransportParameter `json:"additional,omitempty"` // unknown / GREASE ids appended (bytes mode only)
}

func genTPSpec(t *rapid.T) TPSpec {
	s := TPSpec{Server: rapid.Bool().Draw(t, "server")}
	s.BidiLocal, s.BidiRemote, s.Uni, s.MaxData = genVarint(t, "bidilocal"), genVarint(t, "bidiremote"), genVarint(t, "uni"), genVarint(t, "maxdata")
	s.MaxBidi, s.MaxUni = genVarintMax(t, "maxbidi", refwire.MaxStreams), genVarintMax(t, "maxuni", refwire.MaxStreams)
	// idle timeout: the decoder floors at MinRemoteIdleTimeout (5 s) and the value must fit a Duration in ms
	s.IdleMs = rapid.SampledFrom([]uint64{0, 1, 4999, 5000, 5001, 30000, 30000, 600000, 1 << 30, uint64((1<<63 - 1) / int64(time.Millisecond))}).Draw(t, "idle")
	if rapid.IntRange(0, 3).Draw(t, "idle-any") == 0 {
		s.IdleMs = genVarintMax(t, "idle-v", uint64((1<<63-1)/int64(time.Millisecond)))
	}
	if rapid.IntRange(0, 3).Draw(t, "udp") != 0 {
		s.UDPPayload = max(1200, genVarint(t, "udppayload"))
	}
	s.MaxAckDelayMs = rapid.SampledFrom([]uint64{25, 25, 0, 1, 24, 26, 63, 64, 16382, 16383}).Draw(t, "maxackdelay")
	s.AckDelayExp = uint8(rapid.SampledFrom([]int{3, 3, 0, 1, 2, 4, 19, 20}).Draw(t, "exp"))
	s.DisableMigration = rapid.Bool().Draw(t, "dam")
	s.ActiveCIDLimit = max(2, genVarint(t, "acil"))
	s.ISCID = genCID(t, "iscid", 0)
	s.Datagram = -1
	if rapid.Bool().Draw(t, "dg") {
		s.Datagram = int64(genVarint(t, "dgsize"))
	}
	s.ResetStreamAt = rapid.Bool().Draw(t, "rsa")
	s.MinAckDelayUs = -1
	if rapid.IntRange(0, 2).Draw(t, "mad") == 0 {
		s.MinAckDelayUs = int64(genVarintMax(t, "minackdelay", s.MaxAckDelayMs*1000))
	}
	if s.Server {
		s.ODCID = genCID(t, "odcid", 0)
		if s.HasRetry = rapid.Bool().Draw(t, "retry"); s.HasRetry {
			s.RetrySCID = genCID(t, "rscid", 0)
		}
		if s.HasSRT = rapid.Bool().Draw(t, "srt"); s.HasSRT {
			s.SRT = genBytes(t, "srt", 16, 16)
		}
		if s.HasPA = rapid.Bool().Draw(t, "pa"); s.HasPA {
			if rapid.Bool().Draw(t, "pa4") {
				copy(s.PA4[:], genBytes(t, "pa4", 4, 4))
				s.PA4[0] |= 1
				s.PA4Port = uint16(rapid.IntRange(1, 65535).Draw(t, "pa4port"))
			}
			if rapid.Bool().Draw(t, "pa6") {
				copy(s.PA6[:], genBytes(t, "pa6", 16, 16))
				s.PA6[0] = 0x20 // a real IPv6 address (not v4-mapped, not unspecified)
				s.PA6Port = uint16(rapid.IntRange(1, 65535).Draw(t, "pa6port"))
			}
			s.PACID = genCID(t, "pacid", 1)
			s.PAToken = genBytes(t, "patoken", 16, 16)
		}
	}
	return s
}

func (s TPSpec) build() *wire.TransportParameters {
	p := &wire.TransportParameters{
		InitialMaxStreamDataBidiLocal:  protocol.ByteCount(s.BidiLocal),
		InitialMaxStreamDataBidiRemote: protocol.ByteCount(s.BidiRemote),
		InitialMaxStreamDataUni:        protocol.ByteCount(s.Uni),
		InitialMaxData:                 protocol.ByteCount(s.MaxData),
		MaxBidiStreamNum:               protocol.StreamNum(s.MaxBidi),
		MaxUniStreamNum:                protocol.StreamNum(s.MaxUni),
		MaxIdleTimeout:                 time.Duration(s.IdleMs) * time.Millisecond,
		MaxUDPPayloadSize:              protocol.ByteCount(s.UDPPayload),
		MaxAckDelay:                    time.Duration(s.MaxAckDelayMs) * time.Millisecond,
		AckDelayExponent:               s.AckDelayExp,
		DisableActiveMigration:         s.DisableMigration,
		ActiveConnectionIDLimit:        s.ActiveCIDLimit,
		InitialSourceConnectionID:      protocol.ParseConnectionID(s.ISCID),
		MaxDatagramFrameSize:           protocol.ByteCount(s.Datagram),
		EnableResetStreamAt:            s.ResetStreamAt,
	}
	if s.MinAckDelayUs >= 0 {
		d := time.Duration(s.MinAckDelayUs) * time.Microsecond
		p.MinAckDelay = &d
	}
	if s.Server {
		p.OriginalDestinationConnectionID = protocol.ParseConnectionID(s.ODCID)
		if s.HasRetry {
			c := protocol.ParseConnectionID(s.RetrySCID)
			p.RetrySourceConnectionID = &c
		}
		if s.HasSRT {
			var tok protocol.StatelessResetToken
			copy(tok[:], s.SRT)
			p.StatelessResetToken = &tok
		}
		if s.HasPA {
			pa := &wire.PreferredAddress{ConnectionID: protocol.ParseConnectionID(s.PACID)}
			copy(pa.StatelessResetToken[:], s.PAToken)
			if s.PA4Port != 0 {
				pa.IPv4 = netip.AddrPortFrom(netip.AddrFrom4(s.PA4), s.PA4Port)
			}
			if s.PA6Port != 0 {
				pa.IPv6 = netip.AddrPortFrom(netip.AddrFrom16(s.PA6), s.PA6Port)
			}
			p.PreferredAddress = pa
		}
	}
	return p
}

// wireImage is what RFC 9000 section 18.2 says the encoding of s contains: id -> value. Parameters
// the RFC lets a sender omit when they have their default value are marked optional.
func (s TPSpec) wireImage() (must map[uint64][]byte, optionalDefault map[uint64][]byte) {
	vi := func(v uint64) []byte { return refwire.AppendVarint(nil, v) }
	must = map[uint64][]byte{
		refwire.TPInitialMaxStreamDataBidiLocal:  vi(s.BidiLocal),
		refwire.TPInitialMaxStreamDataBidiRemote: vi(s.BidiRemote),
		refwire.TPInitialMaxStreamDataUni:        vi(s.Uni),
		refwire.TPInitialMaxData:                 vi(s.MaxData),
		refwire.TPInitialMaxStreamsBidi:          vi(s.MaxBidi),
		refwire.TPInitialMaxStreamsUni:           vi(s.MaxUni),
		refwire.TPMaxIdleTimeout:                 vi(s.IdleMs),
		refwire.TPInitialSourceConnectionID:      s.ISCID,
	}
	optionalDefault = map[uint64][]byte{}
	put := func(id uint64, val []byte, isDefault bool) {
		if isDefault {
			optionalDefault[id] = val
		} else {
			must[id] = val
		}
	}
	// zero-valued limits may be omitted by a sender (absent = 0): the encoder happens to write them
	for _, id := range []uint64{refwire.TPInitialMaxStreamDataBidiLocal, refwire.TPInitialMaxStreamDataBidiRemote, refwire.TPInitialMaxStreamDataUni,
		refwire.TPInitialMaxData, refwire.TPInitialMaxStreamsBidi, refwire.TPInitialMaxStreamsUni, refwire.TPMaxIdleTimeout} {
		if v, _ := refwire.TPVarint(must[id]); v == 0 {
			optionalDefault[id] = must[id]
			delete(must, id)
		}
	}
	if s.UDPPayload != 0 {
		put(refwire.TPMaxUDPPayloadSize, vi(s.UDPPayload), s.UDPPayload == 65527)
	}
	put(refwire.TPMaxAckDelay, vi(s.MaxAckDelayMs), s.MaxAckDelayMs == 25)
	put(refwire.TPAckDelayExponent, vi(uint64(s.AckDelayExp)), s.AckDelayExp == 3)
	put(refwire.TPActiveConnectionIDLimit, vi(s.ActiveCIDLimit), s.ActiveCIDLimit == 2)
	if s.DisableMigration {
		must[refwire.TPDisableActiveMigration] = nil
	}
	if s.Datagram >= 0 {
		must[refwire.TPMaxDatagramFrameSize] = vi(uint64(s.Datagram))
	}
	if s.ResetStreamAt {
		must[refwire.TPResetStreamAt] = nil
	}
	if s.MinAckDelayUs >= 0 {
		must[refwire.TPMinAckDelay] = vi(uint64(s.MinAckDelayUs))
	}
	if s.Server {
		must[refwire.TPOriginalDestinationConnectionID] = s.ODCID
		if s.HasRetry {
			must[refwire.TPRetrySourceConnectionID] = s.RetrySCID
		}
		if s.HasSRT {
			must[refwire.TPStatelessResetToken] = s.SRT
		}
		if s.HasPA {
			pa := refwire.PreferredAddress{ConnID: s.PACID}
			if s.PA4Port != 0 {
				pa.IPv4, pa.IPv4Port = s.PA4, s.PA4Port
			}
			if s.PA6Port != 0 {
				pa.IPv6, pa.IPv6Port = s.PA6, s.PA6Port
			}
			copy(pa.ResetToken[:], s.PAToken)
			must[refwire.TPPreferredAddress] = pa.Append(nil)
		}
	}
	return must, optionalDefault
}

// encodeRef encodes the spec with the independent encoder (all parameters explicit, drawn order).
// With tweak set, 1..2 parameter-level mutations are applied first (value replaced by a boundary
// integer, non-minimal value encoding, duplicate, drop, id swapped, value one byte short/long).
func (s TPSpec) encodeRef(t *rapid.T, tweak bool) []byte {
	must, opt := s.wireImage()
	var ps []refwire.TransportParameter
	for id, v := range must {
		ps = append(ps, refwire.TransportParameter{ID: id, Value: v})
	}
	for id, v := range opt {
		ps = append(ps, refwire.TransportParameter{ID: id, Value: v})
	}
	ps = append(ps, s.Additional...)
	sortParams(ps) // map order must not leak into the case
	if tweak {
		for k := rapid.IntRange(1, 2).Draw(t, "ntweak"); k > 0 && len(ps) > 0; k-- {
			i := rapid.IntRange(0, len(ps)-1).Draw(t, "tweak-at")
			switch rapid.IntRange(0, 7).Draw(t, "tweak") {
			case 0, 1: // boundary integer
				ps[i].Value = refwire.AppendVarint(nil, rapid.SampledFrom([]uint64{0, 1, 2, 3, 20, 21, 1199, 1200, 16383, 16384, 1 << 60, 1<<60 + 1, 1<<62 - 1}).Draw(t, "tweak-v"))
			case 2: // non-minimal encoding of the same integer
				if v, err := refwire.TPVarint(ps[i].Value); err == nil {
					ps[i].Value = refwire.AppendVarintLen(nil, v, rapid.SampledFrom([]int{refwire.VarintLen(v), 8}).Draw(t, "tweak-w"))
				}
			case 3:
				ps = append(ps, ps[i])
			case 4:
				ps = append(ps[:i], ps[i+1:]...)
			case 5:
				ps[i].ID = rapid.SampledFrom([]uint64{0, 1, 2, 3, 8, 9, 0xa, 0xb, 0xc, 0xd, 0xe, 0xf, 0x10, 0x20, refwire.TPMinAckDelay, refwire.TPResetStreamAt}).Draw(t, "tweak-id")
			case 6:
				if len(ps[i].Value) > 0 {
					ps[i].Value = ps[i].Value[:len(ps[i].Value)-1]
				}
			case 7:
				ps[i].Value = append(append([]byte(nil), ps[i].Value...), rapid.Byte().Draw(t, "tweak-b"))
			}
		}
	}
	perm := rapid.Uint64().Draw(t, "tp-order")
	for i := len(ps) - 1; i > 0; i-- {
		perm = perm*6364136223846793005 + 1442695040888963407
		j := int(perm>>33) % (i + 1)
		ps[i], ps[j] = ps[j], ps[i]
	}
	return refwire.AppendTransportParameters(nil, ps)
}

func sortParams(ps []refwire.TransportParameter) {
	for i := 1; i < len(ps); i++ {
		for j := i; j > 0 && ps[j].ID < ps[j-1].ID; j-- {
			ps[j], ps[j-1] = ps[j-1], ps[j]
		}
	}
}

func pers(server bool) protocol.Perspective {
	if server {
		return protocol.PerspectiveServer
	}
	return protocol.PerspectiveClient
}

// tpDiff compares two decoded parameter sets field by field; durations are compared in the unit
// of their wire field (ms for idle timeout / max_ack_delay, us for min_ack_delay).
func tpDiff(a, b *wire.TransportParameters) string {
	type kv struct {
		n    string
		x, y any
	}
	deref := func(p *protocol.ConnectionID) string {
		if p == nil {
			return "<nil>"
		}
		return "cid:" + p.String()
	}
	srt := func(p *protocol.StatelessResetToken) string {
		if p == nil {
			return "<nil>"
		}
		return fmt.Sprintf("%x", p[:])
	}
	pa := func(p *wire.PreferredAddress) string {
		if p == nil {
			return "<nil>"
		}
		return fmt.Sprintf("%v %v %s %x", p.IPv4, p.IPv6, p.ConnectionID, p.StatelessResetToken)
	}
	mad := func(p *time.Duration) string {
		if p == nil {
			return "<nil>"
		}
		return fmt.Sprint(int64(*p / time.Microsecond))
	}
	for _, f := range []kv{
		{"InitialMaxStreamDataBidiLocal", a.InitialMaxStreamDataBidiLocal, b.InitialMaxStreamDataBidiLocal},
		{"InitialMaxStreamDataBidiRemote", a.InitialMaxStreamDataBidiRemote, b.InitialMaxStreamDataBidiRemote},
		{"InitialMaxStreamDataUni", a.InitialMaxStreamDataUni, b.InitialMaxStreamDataUni},
		{"InitialMaxData", a.InitialMaxData, b.InitialMaxData},
		{"MaxAckDelay", a.MaxAckDelay / time.Millisecond, b.MaxAckDelay / time.Millisecond},
		{"AckDelayExponent", a.AckDelayExponent, b.AckDelayExponent},
		{"DisableActiveMigration", a.DisableActiveMigration, b.DisableActiveMigration},
		{"MaxUDPPayloadSize", a.MaxUDPPayloadSize, b.MaxUDPPayloadSize},
		{"MaxUniStreamNum", a.MaxUniStreamNum, b.MaxUniStreamNum},
		{"MaxBidiStreamNum", a.MaxBidiStreamNum, b.MaxBidiStreamNum},
		{"MaxIdleTimeout", a.MaxIdleTimeout / time.Millisecond, b.MaxIdleTimeout / time.Millisecond},
		{"PreferredAddress", pa(a.PreferredAddress), pa(b.PreferredAddress)},
		{"OriginalDestinationConnectionID", a.OriginalDestinationConnectionID, b.OriginalDestinationConnectionID},
		{"InitialSourceConnectionID", a.InitialSourceConnectionID, b.InitialSourceConnectionID},
		{"RetrySourceConnectionID", deref(a.RetrySourceConnectionID), deref(b.RetrySourceConnectionID)},
		{"StatelessResetToken", srt(a.StatelessResetToken), srt(b.StatelessResetToken)},
		{"ActiveConnectionIDLimit", a.ActiveConnectionIDLimit, b.ActiveConnectionIDLimit},
		{"MaxDatagramFrameSize", a.MaxDatagramFrameSize, b.MaxDatagramFrameSize},
		{"EnableResetStreamAt", a.EnableResetStreamAt, b.EnableResetStreamAt},
		{"MinAckDelay", mad(a.MinAckDelay), mad(b.MinAckDelay)},
	} {
		if f.x != f.y {
			return fmt.Sprintf("%s: %v vs %v", f.n, f.x, f.y)
		}
	}
	return ""
}

// ---- unit tparams-struct -------------------------------------------------------------------

func checkTPStruct(s TPSpec, u *vf.Unit) *vf.Verdict {
	p := s.build()
	b := p.Marshal(pers(s.Server))
	// the independent reader: exactly the parameters RFC 9000 prescribes for this value, plus GREASE
	ps, err := refwire.ParseTransportParameters(b)
	if err != nil {
		return bad("tparams", "refwire-disagrees", "independent reader cannot read Marshal output %x: %v", clip(b, 80), err)
	}
	if err := refwire.CheckTransportParameters(ps, !s.Server); err != nil {
		return bad("tparams", "refwire-disagrees", "Marshal output violates RFC 9000: %v\n %x", err, clip(b, 120))
	}
	must, opt := s.wireImage()
	seen := map[uint64]bool{}
	for _, tp := range ps {
		seen[tp.ID] = true
		if refwire.IsGREASETransportParameter(tp.ID) {
			u.Class("grease-present")
			continue
		}
		want, ok := must[tp.ID]
		if !ok {
			want, ok = opt[tp.ID]
		}
		if !ok {
			return bad("tparams", "refwire-disagrees", "Marshal wrote parameter %#x (value %x) that the value does not contain", tp.ID, tp.Value)
		}
		if !bytes.Equal(want, tp.Value) {
			return bad("tparams", "refwire-disagrees", "parameter %#x on the wire is %x, the value encoded is %x", tp.ID, tp.Value, want)
		}
	}
	for id := range must {
		if !seen[id] {
			return bad("tparams", "refwire-disagrees", "parameter %#x missing from Marshal output", id)
		}
	}
	// round trip through the implementation
	var q wire.TransportParameters
	if err := q.Unmarshal(b, pers(s.Server)); err != nil {
		return bad("tparams", "roundtrip-rejected", "Unmarshal(Marshal(x)): %v\n x=%+v", err, s)
	}
	want := s.build()
	if want.MaxUDPPayloadSize == 0 {
		want.MaxUDPPayloadSize = protocol.MaxByteCount // absent = no limit (transport_parameters.go unmarshal)
	}
	if want.MaxIdleTimeout == 0 {
		// 0 = disabled (RFC 9000 18.2): written as an explicit 0 and must parse back as 0
		if q.MaxIdleTimeout != 0 && strict() && !u.KnownHit("C08/tparams/idle-zero-floored") {
			return bad("tparams", "idle-zero-floored", "MaxIdleTimeout 0 (disabled) is written as an explicit 0 and parses back as %v", q.MaxIdleTimeout)
		}
		want.MaxIdleTimeout = q.MaxIdleTimeout
	} else if want.MaxIdleTimeout < protocol.MinRemoteIdleTimeout {
		want.MaxIdleTimeout = protocol.MinRemoteIdleTimeout // documented floor for the peer's idle timeout (params.go MinRemoteIdleTimeout)
		u.Class("norm:idle-floor")
	}
	if d := tpDiff(want, &q); d != "" {
		return bad("tparams", "roundtrip-differs", "Unmarshal(Marshal(x)) != x: %s", d)
	}
	// session ticket form
	st := p.MarshalForSessionTicket(nil)
	var r wire.TransportParameters
	if err := r.UnmarshalFromSessionTicket(st); err != nil {
		return bad("tparams", "roundtrip-rejected", "UnmarshalFromSessionTicket(MarshalForSessionTicket(x)): %v", err)
	}
	if r.InitialMaxStreamDataBidiLocal != p.InitialMaxStreamDataBidiLocal || r.InitialMaxStreamDataBidiRemote != p.InitialMaxStreamDataBidiRemote ||
		r.InitialMaxStreamDataUni != p.InitialMaxStreamDataUni || r.InitialMaxData != p.InitialMaxData || r.MaxBidiStreamNum != p.MaxBidiStreamNum ||
		r.MaxUniStreamNum != p.MaxUniStreamNum || r.ActiveConnectionIDLimit != p.ActiveConnectionIDLimit || r.MaxDatagramFrameSize != p.MaxDatagramFrameSize ||
		r.EnableResetStreamAt != p.EnableResetStreamAt {
		return bad("tparams", "roundtrip-differs", "session ticket round trip: %+v vs %+v", r, p)
	}
	if !p.ValidFor0RTT(&r) || !p.ValidForUpdate(&r) {
		return bad("tparams", "roundtrip-differs", "a value is not valid for its own saved copy")
	}
	// the session ticket body after the version varint is an ordinary parameter list
	if v, n, err := refwire.ReadVarint(st); err != nil || v != 1 {
		return bad("tparams", "refwire-disagrees", "session ticket version %d (%v)", v, err)
	} else if _, err := refwire.ParseTransportParameters(st[n:]); err != nil {
		return bad("tparams", "refwire-disagrees", "session ticket body: %v", err)
	}
	if s.Server {
		u.Class("server")
	} else {
		u.Class("client")
	}
	if s.HasPA {
		u.Class("preferred-address")
	}
	u.NonTrivial(fmt.Sprintf("%+v", s)) // the encoding itself starts with a random GREASE parameter
	if u.WantSample() {
		u.Sample(s)
	}
	return nil
}

func TestTPStruct(t *testing.T) {
	vf.RunRapid(t, "tparams-struct", genTPSpec, checkTPStruct)
}

// ---- unit tparams-bytes --------------------------------------------------------------------

type TPCase struct {
	Mode int `json:"mode"` // 0 sent by client, 1 sent by server, 2 session ticket
	Data Hex `json:"data"`
}

func genAdditional(t *rapid.T) []refwire.TransportParameter {
	n := rapid.IntRange(0, 2).Draw(t, "nextra")
	var out []refwire.TransportParameter
	for i := 0; i < n; i++ {
		id := rapid.SampledFrom([]uint64{27, 27 + 31*7, refwire.TPVersionInformation, refwire.TPGreaseQUICBit, 0x3f, 0x4000, 1<<62 - 1,
			27 + 31*100, 0x21, 0x1f, 0x3e, 0x7fff, 1 << 30, 27 + 31*3,
			refwire.TPMaxIdleTimeout, refwire.TPDisableActiveMigration}).Draw(t, "extra-id")
		out = append(out, refwire.TransportParameter{ID: id, Value: genBytes(t, "extra-val", 0, 12)})
	}
	return out
}

func genTPCase(t *rapid.T) TPCase {
	c := TPCase{Mode: rapid.IntRange(0, 2).Draw(t, "mode")}
	gen := mutatedN
	if rapid.Bool().Draw(t, "no-byte-mutation") {
		gen = func(t *rapid.T, valid func(*rapid.T) []byte, max int, _ int) []byte { return clip(valid(t), max) }
	}
	c.Data = gen(t, func(t *rapid.T) []byte {
		s := genTPSpec(t)
		if rapid.IntRange(0, 7).Draw(t, "match-mode") != 0 {
			s.Server = c.Mode != 0
			if !s.Server {
				s.HasRetry, s.HasSRT, s.HasPA = false, false, false
			}
		}
		s.Additional = genAdditional(t)
		b := s.encodeRef(t, rapid.Bool().Draw(t, "tweak"))
		if c.Mode == 2 {
			b = append(refwire.AppendVarint(nil, rapid.SampledFrom([]uint64{1, 1, 1, 0, 2}).Draw(t, "stver")), b...)
		}
		return b
	}, 700, 2)
	return c
}

// refTPVerdict decides, from RFC 9000 section 7.4 / 18.2 (plus the extension drafts the
// implementation knows), whether a receiver must accept the list. inconclusive is set for
// inputs whose acceptance hinges on arithmetic outside the representable range.
func refTPVerdict(ps []refwire.TransportParameter, mode int) (ok bool, why string, inconclusive bool) {
	// parameters the implementation does not interpret are opaque to it: blank their values
	cp := make([]refwire.TransportParameter, len(ps))
	copy(cp, ps)
	for i := range cp {
		switch cp[i].ID {
		case refwire.TPVersionInformation:
			cp[i].Value = []byte{0, 0, 0, 1}
		case refwire.TPGreaseQUICBit:
			cp[i].Value = nil
		}
	}
	if err := refwire.CheckTransportParameters(cp, mode == 0); err != nil {
		return false, err.Error(), false
	}
	have := map[uint64][]byte{}
	for _, p := range ps {
		have[p.ID] = p.Value
	}
	if v, ok := have[refwire.TPResetStreamAt]; ok && len(v) != 0 {
		return false, "reset_stream_at with a value", false
	}
	if mode != 2 {
		if _, ok := have[refwire.TPInitialSourceConnectionID]; !ok {
			return false, "missing initial_source_connection_id", false
		}
		if _, ok := have[refwire.TPOriginalDestinationConnectionID]; !ok && mode == 1 {
			return false, "missing original_destination_connection_id", false
		}
	}
	if v, ok := have[refwire.TPMinAckDelay]; ok {
		mad, _ := refwire.TPVarint(v)
		maxAck := uint64(25)
		if w, ok := have[refwire.TPMaxAckDelay]; ok {
			maxAck, _ = refwire.TPVarint(w)
		}
		if mad > (1<<63-1)/1000 {
			return false, "", true // Duration overflow in the decoder: either outcome is arithmetic noise
		}
		if mad > maxAck*1000 {
			return false, "min_ack_delay > max_ack_delay", false
		}
	}
	return true, "", false
}

func checkTPBytes(c TPCase, u *vf.Unit) *vf.Verdict {
	if c.Mode < 0 || c.Mode > 2 || len(c.Data) > 4096 {
		return nil
	}
	return guardPanic("tparams", func() *vf.Verdict { return checkTPBytesInner(c, u) })
}

func checkTPBytesInner(c TPCase, u *vf.Unit) *vf.Verdict {
	data := []byte(c.Data)
	orig := append([]byte(nil), data...)
	var p wire.TransportParameters
	var err error
	body := data
	stOK := true
	switch c.Mode {
	case 0, 1:
		err = p.Unmarshal(data, pers(c.Mode == 1))
		if err != nil {
			if te, ok := err.(*qerr.TransportError); !ok || te.ErrorCode != qerr.TransportParameterError {
				return bad("tparams", "error-type", "Unmarshal error %T %v is not a TRANSPORT_PARAMETER_ERROR", err, err)
			}
		}
	case 2:
		err = p.UnmarshalFromSessionTicket(data)
		v, n, verr := refwire.ReadVarint(data)
		stOK = verr == nil && v == 1
		if stOK {
			body = data[n:]
		}
	}
	if !bytes.Equal(orig, data) {
		return bad("tparams", "input-modified", "Unmarshal wrote into its input")
	}
	ps, perr := refwire.ParseTransportParameters(body)
	refOK, why, inconclusive := false, "", false
	if stOK && perr == nil {
		refOK, why, inconclusive = refTPVerdict(ps, c.Mode)
	} else if perr != nil {
		why = perr.Error()
	} else {
		why = "bad session ticket version"
	}
	if inconclusive {
		u.Class("norm:min-ack-delay-overflow")
		return nil
	}
	if refOK != (err == nil) {
		which := "accepts-invalid"
		if refOK {
			which = "rejects-valid"
		}
		return bad("tparams", which, "mode %d, %x: implementation err=%v; RFC reading: ok=%v (%s)", c.Mode, clip(data, 100), err, refOK, why)
	}
	if err != nil {
		u.Class("rejected")
		w := why
		if i := strings.IndexAny(w, "0123456789"); i > 0 {
			w = w[:i]
		}
		u.Class("rejected:" + strings.TrimSpace(w))
		return nil
	}
	// field agreement with the independent reader
	have := map[uint64][]byte{}
	for _, tp := range ps {
		have[tp.ID] = tp.Value
	}
	num := func(id uint64, def uint64) uint64 {
		if v, ok := have[id]; ok {
			x, _ := refwire.TPVarint(v)
			return x
		}
		return def
	}
	type chk struct {
		n    string
		x, y uint64
	}
	idle := num(refwire.TPMaxIdleTimeout, 0)
	idleOK := idle <= uint64((1<<63-1)/int64(time.Millisecond))
	wantIdle := uint64(0) // absent: no idle timeout requested
	if _, ok := have[refwire.TPMaxIdleTimeout]; ok {
		// present: floored at MinRemoteIdleTimeout (params.go); an explicit 0 means "disabled" (RFC 9000 18.2)
		// and stays 0 (it used to become 5 s: finding C08/tparams/idle-zero-floored, repaired in /repo)
		wantIdle = max(idle, uint64(protocol.MinRemoteIdleTimeout/time.Millisecond))
		if idle == 0 {
			wantIdle = 0
			if p.MaxIdleTimeout != 0 && u.KnownHit("C08/tparams/idle-zero-floored") {
				wantIdle = uint64(p.MaxIdleTimeout / time.Millisecond)
			}
		}
	}
	if !idleOK {
		u.Class("norm:idle-overflow")
		wantIdle = uint64(p.MaxIdleTimeout / time.Millisecond)
		if p.MaxIdleTimeout < protocol.MinRemoteIdleTimeout {
			return bad("tparams", "idle-timeout", "max_idle_timeout %d parsed to %v, below the documented floor", idle, p.MaxIdleTimeout)
		}
	}
	udpDefault := uint64(protocol.MaxByteCount)
	if c.Mode == 2 {
		udpDefault = 0
	}
	dg := uint64(1<<64 - 1) // InvalidByteCount
	if v, ok := have[refwire.TPMaxDatagramFrameSize]; ok {
		dg, _ = refwire.TPVarint(v)
	}
	for _, f := range []chk{
		{"initial_max_stream_data_bidi_local", uint64(p.InitialMaxStreamDataBidiLocal), num(refwire.TPInitialMaxStreamDataBidiLocal, 0)},
		{"initial_max_stream_data_bidi_remote", uint64(p.InitialMaxStreamDataBidiRemote), num(refwire.TPInitialMaxStreamDataBidiRemote, 0)},
		{"initial_max_stream_data_uni", uint64(p.InitialMaxStreamDataUni), num(refwire.TPInitialMaxStreamDataUni, 0)},
		{"initial_max_data", uint64(p.InitialMaxData), num(refwire.TPInitialMaxData, 0)},
		{"initial_max_streams_bidi", uint64(p.MaxBidiStreamNum), num(refwire.TPInitialMaxStreamsBidi, 0)},
		{"initial_max_streams_uni", uint64(p.MaxUniStreamNum), num(refwire.TPInitialMaxStreamsUni, 0)},
		{"max_idle_timeout", uint64(p.MaxIdleTimeout / time.Millisecond), wantIdle},
		{"max_udp_payload_size", uint64(p.MaxUDPPayloadSize), num(refwire.TPMaxUDPPayloadSize, udpDefault)},
		{"max_ack_delay", uint64(p.MaxAckDelay / time.Millisecond), num(refwire.TPMaxAckDelay, 25)},
		{"ack_delay_exponent", uint64(p.AckDelayExponent), num(refwire.TPAckDelayExponent, 3)},
		{"active_connection_id_limit", p.ActiveConnectionIDLimit, num(refwire.TPActiveConnectionIDLimit, 2)},
		{"max_datagram_frame_size", uint64(p.MaxDatagramFrameSize), dg},
	} {
		if f.x != f.y {
			return bad("tparams", "refwire-disagrees", "%s: implementation %d, independent reader %d\n %x", f.n, f.x, f.y, clip(data, 100))
		}
	}
	_, dam := have[refwire.TPDisableActiveMigration]
	_, rsa := have[refwire.TPResetStreamAt]
	if p.DisableActiveMigration != dam || p.EnableResetStreamAt != rsa {
		return bad("tparams", "refwire-disagrees", "flags: disable_active_migration %v/%v reset_stream_at %v/%v", p.DisableActiveMigration, dam, p.EnableResetStreamAt, rsa)
	}
	if v, ok := have[refwire.TPMinAckDelay]; ok != (p.MinAckDelay != nil) {
		return bad("tparams", "refwire-disagrees", "min_ack_delay presence")
	} else if ok {
		if x, _ := refwire.TPVarint(v); uint64(*p.MinAckDelay/time.Microsecond) != x {
			return bad("tparams", "refwire-disagrees", "min_ack_delay %v vs %d us", *p.MinAckDelay, x)
		}
	}
	if !bytes.Equal(p.InitialSourceConnectionID.Bytes(), have[refwire.TPInitialSourceConnectionID]) ||
		!bytes.Equal(p.OriginalDestinationConnectionID.Bytes(), have[refwire.TPOriginalDestinationConnectionID]) {
		return bad("tparams", "refwire-disagrees", "connection IDs: %s / %s vs %x / %x", p.InitialSourceConnectionID, p.OriginalDestinationConnectionID,
			have[refwire.TPInitialSourceConnectionID], have[refwire.TPOriginalDestinationConnectionID])
	}
	if v, ok := have[refwire.TPRetrySourceConnectionID]; ok != (p.RetrySourceConnectionID != nil) || ok && !bytes.Equal(v, p.RetrySourceConnectionID.Bytes()) {
		return bad("tparams", "refwire-disagrees", "retry_source_connection_id %x vs %v", v, p.RetrySourceConnectionID)
	}
	if v, ok := have[refwire.TPStatelessResetToken]; ok != (p.StatelessResetToken != nil) || ok && !bytes.Equal(v, p.StatelessResetToken[:]) {
		return bad("tparams", "refwire-disagrees", "stateless_reset_token %x vs %v", v, p.StatelessResetToken)
	}
	if v, ok := have[refwire.TPPreferredAddress]; ok != (p.PreferredAddress != nil) {
		return bad("tparams", "refwire-disagrees", "preferred_address presence")
	} else if ok {
		pa, _ := refwire.ParsePreferredAddress(v)
		w := p.PreferredAddress
		// an all-zero address or port means "no address of this family" (RFC 9000 18.2)
		ok4 := pa.IPv4Port != 0 && pa.IPv4 != [4]byte{}
		ok6 := pa.IPv6Port != 0 && pa.IPv6 != [16]byte{}
		if w.IPv4.IsValid() != ok4 || ok4 && (w.IPv4.Addr().As4() != pa.IPv4 || w.IPv4.Port() != pa.IPv4Port) ||
			w.IPv6.IsValid() != ok6 || ok6 && (w.IPv6.Addr().As16() != pa.IPv6 || w.IPv6.Port() != pa.IPv6Port) ||
			!bytes.Equal(w.ConnectionID.Bytes(), pa.ConnID) || w.StatelessResetToken != protocol.StatelessResetToken(pa.ResetToken) {
			return bad("tparams", "refwire-disagrees", "preferred_address %+v vs %+v", w, pa)
		}
		u.Class("preferred-address")
	}
	_ = p.String()

	// re-encode, re-parse
	var q wire.TransportParameters
	var b []byte
	if c.Mode == 2 {
		b = p.MarshalForSessionTicket(nil)
		err = q.UnmarshalFromSessionTicket(b)
		// only the remembered subset survives a session ticket
		p2 := p
		p = wire.TransportParameters{InitialMaxStreamDataBidiLocal: p2.InitialMaxStreamDataBidiLocal, InitialMaxStreamDataBidiRemote: p2.InitialMaxStreamDataBidiRemote,
			InitialMaxStreamDataUni: p2.InitialMaxStreamDataUni, InitialMaxData: p2.InitialMaxData, MaxBidiStreamNum: p2.MaxBidiStreamNum, MaxUniStreamNum: p2.MaxUniStreamNum,
			ActiveConnectionIDLimit: p2.ActiveConnectionIDLimit, MaxDatagramFrameSize: p2.MaxDatagramFrameSize, EnableResetStreamAt: p2.EnableResetStreamAt,
			AckDelayExponent: protocol.DefaultAckDelayExponent, MaxAckDelay: protocol.DefaultMaxAckDelay}
	} else {
		b = p.Marshal(pers(c.Mode == 1))
		err = q.Unmarshal(b, pers(c.Mode == 1))
	}
	if err != nil {
		return bad("tparams", "reparse-failed", "own encoding of a parsed value is rejected: %v\n parsed from %x\n re-encoded %x", err, clip(data, 100), clip(b, 100))
	}
	if c.Mode != 2 && p.MaxIdleTimeout == 0 && q.MaxIdleTimeout != 0 {
		// Absent max_idle_timeout parses to 0 ("none") and Marshal writes an explicit 0. Unmarshal used to floor an
		// explicit 0 at MinRemoteIdleTimeout (5 s) although RFC 9000 18.2 gives 0 the meaning "disabled": a breach
		// of "re-encoding what parsed parses to the same result" (repaired in /repo, see known_findings.json).
		if strict() && !u.KnownHit("C08/tparams/idle-zero-floored") {
			return bad("tparams", "idle-zero-floored", "absent max_idle_timeout parsed as 0, re-encoded as explicit 0, re-parsed as %v\n b=%x", q.MaxIdleTimeout, clip(data, 100))
		}
		u.Class("norm:idle-zero-floored")
		q.MaxIdleTimeout = 0
	}
	if d := tpDiff(&p, &q); d != "" {
		return bad("tparams", "reparse-differs", "parse(encode(parse(b))) != parse(b): %s\n b=%x", d, clip(data, 100))
	}
	u.Class([]string{"parsed:client", "parsed:server", "parsed:ticket"}[c.Mode])
	u.NonTrivial(c.Mode, data)
	if u.WantSample() {
		u.Sample(c)
	}
	return nil
}

func TestTPBytes(t *testing.T) {
	vf.RunRapid(t, "tparams-bytes", genTPCase, checkTPBytes)
}
