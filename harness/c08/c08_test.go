// C08: wire codecs are total, consistent with their length predictions, and round-trip.
//
// Engines: rapid byte-string generators biased by mutation of valid encodings (built with the
// independent refwire encoder), rapid structured generators, enumerators, and native fuzz
// targets. The oracle is threefold: (1) the implementation against itself (consumed bytes,
// Length(), parse . encode = id, encode . parse . encode idempotent), (2) the implementation
// against refwire (field-by-field agreement and accept/reject agreement), (3) RFC range rules.
package c08

import (
	"encoding/hex"
	"encoding/json"
	"fmt"
	"os"
	"testing"

	"pgregory.net/rapid"

	"github.com/refraction-networking/uquic/internal/protocol"
	"github.com/refraction-networking/uquic/verif/refwire"
	"github.com/refraction-networking/uquic/verif/vf"
)

func TestMain(m *testing.M) { vf.Main(m) }

// Hex is a byte string that serialises as a hex string (readable replay files).
type Hex []byte

func (h Hex) MarshalJSON() ([]byte, error) { return json.Marshal(hex.EncodeToString(h)) }
func (h *Hex) UnmarshalJSON(b []byte) error {
	var s string
	if err := json.Unmarshal(b, &s); err != nil {
		return err
	}
	d, err := hex.DecodeString(s)
	*h = d
	return err
}

// maxInput is the largest byte string handed to a packet/frame parser: datagrams are read into
// buffers of protocol.MaxPacketBufferSize bytes (packet_handler / sys_conn read path, buffer_pool.go).
const maxInput = int(protocol.MaxPacketBufferSize)

// levels: index -> encryption level. Index order matches refwire.Level*.
var levels = [4]protocol.EncryptionLevel{
	refwire.LevelInitial:   protocol.EncryptionInitial,
	refwire.Level0RTT:      protocol.Encryption0RTT,
	refwire.LevelHandshake: protocol.EncryptionHandshake,
	refwire.Level1RTT:      protocol.Encryption1RTT,
}

var levelNames = [4]string{refwire.LevelInitial: "initial", refwire.Level0RTT: "0rtt", refwire.LevelHandshake: "handshake", refwire.Level1RTT: "1rtt"}

// varint width boundaries (the property's quantifier) and neighbours.
var boundaries = []uint64{0, 1, 63, 64, 65, 16383, 16384, 16385, 1<<30 - 1, 1 << 30, 1<<30 + 1, 1<<60 - 1, 1 << 60, 1<<60 + 1, 1<<62 - 2, 1<<62 - 1}

// genVarint draws a 62-bit integer: a width boundary, a small number, or uniform in a random width.
func genVarint(t *rapid.T, label string) uint64 {
	switch rapid.IntRange(0, 5).Draw(t, label+"-mode") {
	case 0, 1:
		return rapid.SampledFrom(boundaries).Draw(t, label)
	case 2:
		return rapid.Uint64Range(0, 300).Draw(t, label)
	default:
		bits := rapid.IntRange(1, 62).Draw(t, label+"-bits")
		return rapid.Uint64Range(0, 1<<uint(bits)-1).Draw(t, label)
	}
}

// genVarintMax draws like genVarint but capped at max (inclusive), keeping boundaries below it.
func genVarintMax(t *rapid.T, label string, max uint64) uint64 {
	v := genVarint(t, label)
	if v > max {
		switch rapid.IntRange(0, 2).Draw(t, label+"-cap") {
		case 0:
			return max
		case 1:
			return max - min(max, 1)
		default:
			return v % (max + 1)
		}
	}
	return v
}

func genBytes(t *rapid.T, label string, minLen, maxLen int) []byte {
	n := rapid.IntRange(minLen, maxLen).Draw(t, label+"-len")
	if n == 0 {
		return nil
	}
	// cheap: one seed, expanded deterministically (rapid slices of bytes are slow for 1 KiB)
	seed := rapid.Uint64().Draw(t, label+"-seed")
	b := make([]byte, n)
	x := seed | 1
	for i := range b {
		x ^= x << 13
		x ^= x >> 7
		x ^= x << 17
		b[i] = byte(x >> 32)
	}
	return b
}

// genDataLen draws a payload length biased to the interesting sizes: empty, tiny, the varint
// boundary 63/64, the StreamFrame pool threshold 127/128, and large.
func genDataLen(t *rapid.T, label string, max int) int {
	var n int
	switch rapid.IntRange(0, 9).Draw(t, label+"-mode") {
	case 0:
		n = 0
	case 1, 2, 3:
		n = rapid.IntRange(1, 20).Draw(t, label)
	case 4:
		n = rapid.IntRange(62, 66).Draw(t, label)
	case 5:
		n = rapid.IntRange(126, 130).Draw(t, label)
	case 6:
		n = rapid.IntRange(0, max).Draw(t, label)
	default:
		n = rapid.IntRange(0, 200).Draw(t, label)
	}
	return min(n, max)
}

// ---- mutation of byte strings -------------------------------------------------------------

var hostileChunks = [][]byte{
	{0xff, 0xff, 0xff, 0xff, 0xff, 0xff, 0xff, 0xff}, // 2^62-1
	{0xc0, 0, 0, 0, 0, 0, 0, 0},                      // 0 in 8 bytes
	{0x80, 0, 0, 0},
	{0x40, 0},
	{0x7f, 0xff},
	{0xbf, 0xff, 0xff, 0xff},
	{0xd0, 0, 0, 0, 0, 0, 0, 0}, // 2^60
	{0xd0, 0, 0, 0, 0, 0, 0, 1}, // 2^60+1
	{0x00},
	{0x14},
	{0x15},
	{0xc0},
}

// mutate applies one drawn mutation: bit flip, byte set, truncate, extend, splice from another
// valid encoding, delete a run, duplicate a run, varint width change, hostile constant insert.
func mutate(t *rapid.T, b []byte, other []byte) []byte {
	out := append([]byte(nil), b...)
	kind := rapid.IntRange(0, 9).Draw(t, "mut")
	pos := 0
	if len(out) > 0 {
		// bias to the head of the string, where types and lengths live
		if rapid.Bool().Draw(t, "mut-head") {
			pos = rapid.IntRange(0, min(len(out)-1, 24)).Draw(t, "mut-pos")
		} else {
			pos = rapid.IntRange(0, len(out)-1).Draw(t, "mut-pos")
		}
	}
	switch kind {
	case 0: // flip
		if len(out) > 0 {
			out[pos] ^= 1 << uint(rapid.IntRange(0, 7).Draw(t, "bit"))
		}
	case 1: // set byte
		if len(out) > 0 {
			out[pos] = rapid.Byte().Draw(t, "byte")
		}
	case 2: // truncate
		out = out[:pos]
	case 3: // extend with random bytes
		out = append(out, genBytes(t, "ext", 1, 12)...)
	case 4: // splice: head of this, tail of other from a drawn point
		if len(other) > 0 {
			q := rapid.IntRange(0, len(other)-1).Draw(t, "splice-at")
			out = append(out[:pos], other[q:]...)
		}
	case 5: // delete a run
		if len(out) > 0 {
			n := rapid.IntRange(1, 8).Draw(t, "del")
			end := min(len(out), pos+n)
			out = append(out[:pos], out[end:]...)
		}
	case 6: // duplicate a run
		if len(out) > 0 {
			n := rapid.IntRange(1, 16).Draw(t, "dup")
			end := min(len(out), pos+n)
			run := append([]byte(nil), out[pos:end]...)
			out = append(out[:end], append(run, out[end:]...)...)
		}
	case 7, 8: // varint width change at pos (interpreting whatever is there as a varint)
		if len(out) > 0 {
			if v, n, err := refwire.ReadVarint(out[pos:]); err == nil {
				w := rapid.SampledFrom([]int{1, 2, 4, 8}).Draw(t, "width")
				if w >= refwire.VarintLen(v) {
					enc := refwire.AppendVarintLen(nil, v, w)
					out = append(out[:pos], append(enc, out[pos+n:]...)...)
				} else { // same width, boundary value
					enc := refwire.AppendVarintLen(nil, rapid.SampledFrom(boundaries).Draw(t, "bv"), 8)
					out = append(out[:pos], append(enc, out[pos+n:]...)...)
				}
			}
		}
	case 9: // hostile constant
		c := rapid.SampledFrom(hostileChunks).Draw(t, "hostile")
		if rapid.Bool().Draw(t, "overwrite") && pos+len(c) <= len(out) {
			copy(out[pos:], c)
		} else {
			out = append(out[:pos], append(append([]byte(nil), c...), out[pos:]...)...)
		}
	}
	return out
}

// mutated draws a byte string from a generator of valid encodings: unchanged (1/4), with 1..4
// mutations, or (1/10) pure random bytes.
func mutated(t *rapid.T, valid func(*rapid.T) []byte, max int) []byte {
	return mutatedN(t, valid, max, 4)
}

func mutatedN(t *rapid.T, valid func(*rapid.T) []byte, max int, maxMut int) []byte {
	mode := rapid.IntRange(0, 19).Draw(t, "bytes-mode")
	if mode < 2 {
		return genBytes(t, "raw", 0, 64)
	}
	b := valid(t)
	if mode >= 15 {
		return clip(b, max)
	}
	n := rapid.IntRange(1, maxMut).Draw(t, "nmut")
	var other []byte
	for i := 0; i < n; i++ {
		if other == nil && rapid.IntRange(0, 3).Draw(t, "want-other") == 0 {
			other = valid(t)
		}
		b = mutate(t, b, other)
	}
	return clip(b, max)
}

func clip(b []byte, max int) []byte {
	if len(b) > max {
		return b[:max]
	}
	return b
}

func bad(area, cause, format string, args ...any) *vf.Verdict {
	return vf.Bad("C08/"+area+"/"+cause, format, args...)
}

// guardPanic runs f; a panic becomes a verdict with the given signature (the property says
// parsing never panics, so a panic inside a parser gets a proper root-cause signature).
func guardPanic(area string, f func() *vf.Verdict) *vf.Verdict {
	v := vf.Guard("C08/"+area, f)
	return v
}

func errStr(err error) string {
	if err == nil {
		return "<nil>"
	}
	return err.Error()
}

// strict enables the sub-checks that the unchanged tree is known to fail (see NOTES.md, "suspected
// genuine defects"); off by default so that the tiers stay green until the owner decides.
func strict() bool { return os.Getenv("VERIF_C08_LENIENT") != "1" } // strict by default: both defects were repaired in /repo

func jsonUnmarshal(raw json.RawMessage, v any) error { return json.Unmarshal(raw, v) }

var _ = fmt.Sprintf
