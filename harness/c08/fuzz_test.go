package c08

import (
	"testing"

	"github.com/refraction-networking/uquic/verif/refwire"
	"github.com/refraction-networking/uquic/verif/vf"
)

// Native coverage-guided targets. Each decodes a small configuration prefix and hands the rest
// to the SAME check function the rapid units use, so the semantic oracle (not only "no crash")
// runs on every input. Seeds: valid encodings from the independent encoder + hostile constants.

// replayed runs the saved case of a replay file (driver: ./check C08 --replay file) instead of the
// fuzz input; it reports whether it did so.
func replayed[C any](t *testing.T, unit string, check func(C, *vf.Unit) *vf.Verdict) bool {
	if !vf.ReplayMode() {
		return false
	}
	raw, ok := vf.ReplayCase(t, unit)
	if !ok {
		return true
	}
	var c C
	if err := jsonUnmarshal(raw, &c); err != nil {
		t.Fatalf("bad replay case: %v", err)
	}
	u := vf.U(unit)
	u.Case()
	failFuzz(t, u, vf.Guard(unit, func() *vf.Verdict { return check(c, vf.Scratch()) }), c)
	return true
}

func failFuzz(t *testing.T, u *vf.Unit, v *vf.Verdict, c any) {
	if v == nil {
		return
	}
	if u.Report(v, c) {
		t.Fatalf("VIOLATION %s: %s", v.Sig, v.Detail)
	}
}

func seedPayloads() [][]byte {
	var out [][]byte
	var all []byte
	for typ := uint64(1); typ <= 0xaf; typ++ {
		if f, ok := canonicalFrame(typ); ok {
			if f.Name == refwire.NameStream || f.Name == refwire.NameDatagram {
				f.HasLen = true
			}
			b := f.Append(nil)
			out = append(out, b)
			if len(all) < 900 {
				all = append(all, b...)
			}
		}
	}
	out = append(out, all)
	for _, h := range hostileChunks {
		out = append(out, append([]byte{0x02}, h...), append([]byte{0x0e, 0x04}, h...), append([]byte{0x18}, h...), h)
	}
	// ACK with many ranges, non-minimal varints everywhere
	ack := refwire.AppendVarintLen(nil, 2, 2)
	ack = refwire.AppendVarintLen(ack, 10000, 8)
	ack = refwire.AppendVarintLen(ack, 1, 4)
	ack = refwire.AppendVarintLen(ack, 70, 2)
	ack = refwire.AppendVarintLen(ack, 0, 8)
	for i := 0; i < 70; i++ {
		ack = append(ack, 0, 0)
	}
	out = append(out, ack)
	return out
}

func FuzzFrames(f *testing.F) {
	for _, p := range seedPayloads() {
		for _, cfg := range []byte{0x1f, 0x03, 0x00, 0x01, 0x02, 0x3f} {
			f.Add(append([]byte{cfg, 3}, p...))
		}
	}
	u := vf.U("fuzz-frames")
	f.Fuzz(func(t *testing.T, in []byte) {
		if replayed(t, "fuzz-frames", checkFramesBytes) {
			return
		}
		if len(in) < 2 {
			return
		}
		c := FramesCase{Level: int(in[0] & 3), Dg: in[0]&4 != 0, Rsa: in[0]&8 != 0, Af: in[0]&16 != 0, V2: in[0]&32 != 0, Exp: in[1] % 21, Data: clip(in[2:], maxInput)}
		u.Case()
		failFuzz(t, u, vf.Guard("fuzz-frames", func() *vf.Verdict { return checkFramesBytes(c, vf.Scratch()) }), c)
	})
}

func seedPackets() [][]byte {
	var out [][]byte
	for _, ver := range []uint32{refwire.Version1, refwire.Version2, 0xff00001d} {
		for kind := 0; kind < 4; kind++ {
			h := refwire.LongHeader{Kind: kind, Version: ver, DCID: []byte{1, 2, 3, 4, 5, 6, 7, 8}, SCID: []byte{9, 10, 11, 12}}
			if kind == refwire.LongInitial {
				h.Token = []byte("tok")
			}
			if kind == refwire.LongRetry {
				h.RetryToken = []byte("retry token")
			} else {
				h.Length = 22
			}
			b := refwire.AppendLongHeader(nil, h, 0x1234, 2)
			if kind != refwire.LongRetry {
				b = append(b, make([]byte, 20)...)
			}
			out = append(out, b)
		}
	}
	out = append(out, refwire.AppendShortHeader(nil, []byte{1, 2, 3, 4, 5, 6, 7, 8}, 0x123456, 3, true, true))
	out = append(out, refwire.AppendVersionNegotiation(nil, 0x2a, []byte{1, 2, 3, 4}, make([]byte, 30), []uint32{1, refwire.Version2, 0x0a0a0a0a}))
	long21 := refwire.LongHeader{Kind: refwire.LongInitial, Version: 1, DCID: make([]byte, 21), Length: 5}
	out = append(out, append(refwire.AppendLongHeader(nil, long21, 1, 1), 0, 0, 0, 0))
	return out
}

func FuzzHeader(f *testing.F) {
	for _, p := range seedPackets() {
		for _, cid := range []byte{8, 0, 20, 4} {
			f.Add(append([]byte{cid}, p...))
		}
	}
	u := vf.U("fuzz-header")
	f.Fuzz(func(t *testing.T, in []byte) {
		if replayed(t, "fuzz-header", checkHeaderBytes) {
			return
		}
		if len(in) < 1 {
			return
		}
		c := HeaderCase{CIDLen: int(in[0] % 21), Data: clip(in[1:], maxInput)}
		u.Case()
		failFuzz(t, u, vf.Guard("fuzz-header", func() *vf.Verdict { return checkHeaderBytes(c, vf.Scratch()) }), c)
	})
}

func seedTPs() [][]byte {
	pa := refwire.PreferredAddress{IPv4: [4]byte{127, 0, 0, 1}, IPv4Port: 443, IPv6Port: 443, ConnID: []byte{1, 2, 3, 4}}
	pa.IPv6[0] = 0x20
	client := []refwire.TransportParameter{
		refwire.VarintParam(refwire.TPMaxIdleTimeout, 30000), refwire.VarintParam(refwire.TPMaxUDPPayloadSize, 1472),
		refwire.VarintParam(refwire.TPInitialMaxData, 1<<20), refwire.VarintParam(refwire.TPInitialMaxStreamDataBidiLocal, 1<<18),
		refwire.VarintParam(refwire.TPInitialMaxStreamDataBidiRemote, 1<<18), refwire.VarintParam(refwire.TPInitialMaxStreamDataUni, 1<<18),
		refwire.VarintParam(refwire.TPInitialMaxStreamsBidi, 100), refwire.VarintParam(refwire.TPInitialMaxStreamsUni, 1<<60),
		refwire.VarintParam(refwire.TPAckDelayExponent, 20), refwire.VarintParam(refwire.TPMaxAckDelay, 16383),
		{ID: refwire.TPDisableActiveMigration}, refwire.VarintParam(refwire.TPActiveConnectionIDLimit, 2),
		{ID: refwire.TPInitialSourceConnectionID, Value: []byte{1, 2, 3, 4, 5, 6, 7, 8}}, refwire.VarintParam(refwire.TPMaxDatagramFrameSize, 1200),
		{ID: refwire.TPResetStreamAt}, refwire.VarintParam(refwire.TPMinAckDelay, 1000), {ID: 27 + 31*9, Value: []byte{1, 2, 3}},
		{ID: refwire.TPVersionInformation, Value: refwire.AppendVersionInformation(nil, 1, []uint32{1, refwire.Version2})},
	}
	server := append(append([]refwire.TransportParameter(nil), client...),
		refwire.TransportParameter{ID: refwire.TPOriginalDestinationConnectionID, Value: []byte{8, 7, 6, 5, 4, 3, 2, 1}},
		refwire.TransportParameter{ID: refwire.TPStatelessResetToken, Value: make([]byte, 16)},
		refwire.TransportParameter{ID: refwire.TPRetrySourceConnectionID, Value: []byte{}},
		refwire.TransportParameter{ID: refwire.TPPreferredAddress, Value: pa.Append(nil)})
	var out [][]byte
	out = append(out, append([]byte{0}, refwire.AppendTransportParameters(nil, client)...))
	out = append(out, append([]byte{1}, refwire.AppendTransportParameters(nil, server)...))
	out = append(out, append([]byte{0}, refwire.AppendTransportParameters(nil, server)...))
	out = append(out, append([]byte{2, 1}, refwire.AppendTransportParameters(nil, client[2:8])...))
	out = append(out, []byte{0, 0x0f, 0x00}, []byte{1, 0x0f, 0x00, 0x00, 0x00})
	for _, h := range hostileChunks {
		out = append(out, append([]byte{0, 0x0f, 0x00, 0x04}, append(refwire.AppendVarint(nil, uint64(len(h))), h...)...))
		out = append(out, append([]byte{1, 0x0f, 0x00, 0x00, 0x00, 0x08}, append(refwire.AppendVarint(nil, uint64(len(h))), h...)...))
	}
	return out
}

func FuzzTransportParameters(f *testing.F) {
	for _, p := range seedTPs() {
		f.Add(p)
	}
	u := vf.U("fuzz-tparams")
	f.Fuzz(func(t *testing.T, in []byte) {
		if replayed(t, "fuzz-tparams", checkTPBytes) {
			return
		}
		if len(in) < 1 {
			return
		}
		c := TPCase{Mode: int(in[0] % 3), Data: clip(in[1:], 2048)}
		u.Case()
		failFuzz(t, u, vf.Guard("fuzz-tparams", func() *vf.Verdict { return checkTPBytes(c, vf.Scratch()) }), c)
	})
}

func FuzzTokens(f *testing.F) {
	key := make([]byte, 32)
	for i := range key {
		key[i] = byte(i)
	}
	f.Add([]byte{})
	f.Add(make([]byte, 31))
	f.Add(make([]byte, 32))
	f.Add(make([]byte, 48))
	f.Add(sealToken(key, [32]byte{1}, []byte{0x30, 0x00}))
	u := vf.U("fuzz-tokens")
	f.Fuzz(func(t *testing.T, in []byte) {
		if replayed(t, "fuzz-tokens", checkToken) {
			return
		}
		c := TokenCase{Mode: "bytes", Key: key, Data: clip(in, 512), IP: make([]byte, 4)}
		u.Case()
		failFuzz(t, u, vf.Guard("fuzz-tokens", func() *vf.Verdict { return checkToken(c, vf.Scratch()) }), c)
	})
}

func FuzzVarint(f *testing.F) {
	for _, b := range boundaries {
		for _, w := range []int{1, 2, 4, 8} {
			if w >= refwire.VarintLen(b) {
				f.Add(refwire.AppendVarintLen(nil, b, w), b, byte(w))
			}
		}
	}
	f.Add([]byte{0xc0}, uint64(0), byte(1))
	u := vf.U("fuzz-varint")
	f.Fuzz(func(t *testing.T, in []byte, v uint64, w byte) {
		if replayed(t, "fuzz-varint", checkVarint) {
			return
		}
		c := VarintCase{Data: clip(in, 16), V: v & refwire.MaxVarint, W: 1 << (w & 3)}
		u.Case()
		failFuzz(t, u, vf.Guard("fuzz-varint", func() *vf.Verdict { return checkVarint(c, vf.Scratch()) }), c)
	})
}

// FuzzRepoEntryPoints drives the repository's own go-fuzz entry points (all but the TLS
// handshake one, which is too slow and too global for coverage-guided workers).
func FuzzRepoEntryPoints(f *testing.F) {
	for _, p := range seedPayloads() {
		f.Add(append([]byte{0, 2}, p...))
		f.Add(append([]byte{0, 0}, p...))
	}
	for _, p := range seedPackets() {
		f.Add(append([]byte{1, 8}, p...))
	}
	for _, p := range seedTPs() {
		f.Add(append([]byte{2, []byte{0, 2, 1}[p[0]%3]}, p[1:]...))
	}
	f.Add(append([]byte{3}, make([]byte, 60)...))
	u := vf.U("fuzz-repo-entrypoints")
	f.Fuzz(func(t *testing.T, in []byte) {
		if replayed(t, "fuzz-repo-entrypoints", checkRepoFuzz) {
			return
		}
		if len(in) < 1 {
			return
		}
		c := RepoFuzzCase{Target: []string{"frames", "header", "transportparameters", "tokens"}[in[0]%4], Data: clip(in[1:], maxInput)}
		u.Case()
		failFuzz(t, u, checkRepoFuzz(c, vf.Scratch()), c)
	})
}
