package c08

import (
	"bytes"
	"fmt"
	"io"
	"testing"

	"github.com/refraction-networking/uquic/internal/protocol"
	"github.com/refraction-networking/uquic/internal/qerr"
	"github.com/refraction-networking/uquic/internal/wire"
	"github.com/refraction-networking/uquic/quicvarint"
	"github.com/refraction-networking/uquic/verif/refwire"
	"github.com/refraction-networking/uquic/verif/vf"
)

// TestExhaustiveVarint decides every 1-byte and every 2-byte input of quicvarint.Parse / Read /
// Peek against direct RFC 9000 section 16 arithmetic, and the encoder on every value below 2^14.
func TestExhaustiveVarint(t *testing.T) {
	u := vf.U("varint-exhaustive")
	si, sk := vf.Shard()
	type C struct {
		Data Hex `json:"data"`
	}
	fail := func(v *vf.Verdict, data []byte) {
		if u.Report(v, C{Data: data}) {
			t.Fatalf("VIOLATION %s: %s", v.Sig, v.Detail)
		}
	}
	if data, ok := vf.ReplayCase(t, "varint-exhaustive"); ok {
		_ = data // enumeration units re-run the whole (small) space on replay
	}
	check := func(data []byte) {
		u.Case()
		// expected by the RFC
		var wantV uint64
		wantN, ok := 0, false
		if len(data) > 0 {
			switch data[0] >> 6 {
			case 0:
				wantV, wantN, ok = uint64(data[0]), 1, true
			case 1:
				if len(data) >= 2 {
					wantV, wantN, ok = uint64(data[0]&0x3f)<<8|uint64(data[1]), 2, true
				}
			}
		}
		v, n, err := quicvarint.Parse(data)
		if ok != (err == nil) || ok && (v != wantV || n != wantN) || !ok && (n != 0 || v != 0) {
			fail(bad("varint", "value", "Parse(%x) = %d, %d, %v; want %d, %d, ok=%v", data, v, n, err, wantV, wantN, ok), data)
			return
		}
		if !ok {
			want := io.ErrUnexpectedEOF
			if len(data) == 0 {
				want = io.EOF
			}
			if err != want {
				fail(bad("varint", "error-shape", "Parse(%x): error %v, want %v", data, err, want), data)
			}
		}
		r := bytes.NewReader(data)
		v2, err2 := quicvarint.Read(r)
		if ok != (err2 == nil) || ok && (v2 != wantV || len(data)-r.Len() != wantN) {
			fail(bad("varint", "read", "Read(%x) = %d, %v (consumed %d)", data, v2, err2, len(data)-r.Len()), data)
		}
		v3, err3 := quicvarint.Peek(peeker{data})
		if ok != (err3 == nil) || ok && v3 != wantV {
			fail(bad("varint", "peek", "Peek(%x) = %d, %v", data, v3, err3), data)
		}
		rv, rn, rerr := refwire.ReadVarint(data)
		if ok != (rerr == nil) || ok && (rv != wantV || rn != wantN) {
			t.Fatalf("refwire disagrees with the RFC arithmetic on %x", data)
		}
		if ok {
			u.Class(fmt.Sprintf("decoded:%d", wantN))
			u.NonTrivial(data)
		} else {
			u.Class("truncated")
		}
	}
	idx := 0
	next := func() bool { idx++; return (idx-1)%sk == si }
	if next() {
		check(nil)
	}
	for a := 0; a < 256; a++ {
		if next() {
			check([]byte{byte(a)})
		}
	}
	for a := 0; a < 65536; a++ {
		if next() {
			check([]byte{byte(a >> 8), byte(a)})
		}
	}
	// encoder: every value that fits 1 or 2 bytes, plus the width boundaries
	vals := append([]uint64(nil), boundaries...)
	for v := uint64(0); v < 1<<14+2; v++ {
		vals = append(vals, v)
	}
	for _, v := range vals {
		if !next() {
			continue
		}
		u.Case()
		enc := quicvarint.Append(nil, v)
		wantLen := 1
		switch {
		case v >= 1<<30:
			wantLen = 8
		case v >= 1<<14:
			wantLen = 4
		case v >= 1<<6:
			wantLen = 2
		}
		if len(enc) != wantLen || quicvarint.Len(v) != wantLen || int(enc[0]>>6) != map[int]int{1: 0, 2: 1, 4: 2, 8: 3}[wantLen] {
			fail(bad("varint", "length-mismatch", "Append(%d) = %x, Len = %d, want %d bytes", v, enc, quicvarint.Len(v), wantLen), enc)
		}
		if got, n, err := quicvarint.Parse(enc); err != nil || got != v || n != wantLen {
			fail(bad("varint", "roundtrip", "Parse(Append(%d)) = %d, %d, %v", v, got, n, err), enc)
		}
		for _, w := range []int{1, 2, 4, 8} {
			if w < wantLen {
				continue
			}
			e := quicvarint.AppendWithLen(nil, v, w)
			if got, n, err := quicvarint.Parse(e); err != nil || got != v || n != w || len(e) != w {
				fail(bad("varint", "roundtrip", "AppendWithLen(%d,%d) = %x parses to %d, %d, %v", v, w, e, got, n, err), e)
			}
		}
		u.Class(fmt.Sprintf("encoded:%d", wantLen))
	}
}

// canonicalFrame returns a valid frame of the given type (field values fixed) for dispatch checks.
func canonicalFrame(typ uint64) (refwire.Frame, bool) {
	name := refwire.FrameName(typ)
	if name == "" {
		return refwire.Frame{}, false
	}
	f := refwire.Frame{Type: typ, Name: name}
	switch name {
	case refwire.NameAck:
		f.AckRanges = []refwire.AckRange{{Smallest: 90, Largest: 100}, {Smallest: 70, Largest: 80}}
		f.AckDelay = 77
		if typ == refwire.TypeAckECN {
			f.HasECN, f.ECT0, f.ECT1, f.ECNCE = true, 1, 2, 3
		}
	case refwire.NameResetStream:
		f.StreamID, f.ErrorCode, f.FinalSize = 4, 5, 6
	case refwire.NameResetStreamAt:
		f.StreamID, f.ErrorCode, f.FinalSize, f.ReliableSize = 4, 5, 6, 3
	case refwire.NameStopSending:
		f.StreamID, f.ErrorCode = 4, 5
	case refwire.NameCrypto:
		f.Offset, f.Data, f.HasOff, f.HasLen = 9, []byte("crypto"), true, true
	case refwire.NameNewToken:
		f.Token = []byte("token")
	case refwire.NameStream:
		f.HasOff, f.HasLen, f.Fin = typ&4 != 0, typ&2 != 0, typ&1 != 0
		f.StreamID, f.Data = 8, []byte("stream data")
		if f.HasOff {
			f.Offset = 1000
		}
	case refwire.NameMaxData, refwire.NameDataBlocked:
		f.Max = 123456
	case refwire.NameMaxStreamData, refwire.NameStreamDataBlocked:
		f.StreamID, f.Max = 12, 123456
	case refwire.NameMaxStreams, refwire.NameStreamsBlocked:
		f.Bidi, f.Max = typ&1 == 0, 100
	case refwire.NameNewConnectionID:
		f.SeqNum, f.RetirePriorTo, f.ConnID = 7, 3, []byte{1, 2, 3, 4, 5, 6, 7, 8}
		f.ResetToken = [16]byte{1, 2, 3, 4, 5, 6, 7, 8, 9, 10, 11, 12, 13, 14, 15, 16}
	case refwire.NameRetireConnectionID:
		f.SeqNum = 7
	case refwire.NamePathChallenge, refwire.NamePathResponse:
		f.PathData = [8]byte{8, 7, 6, 5, 4, 3, 2, 1}
	case refwire.NameConnectionClose:
		f.IsApp = typ == refwire.TypeApplicationClose
		f.ErrorCode, f.Reason = 0x0a, []byte("bye")
		if !f.IsApp {
			f.FrameType = 0x08
		}
	case refwire.NameDatagram:
		f.HasLen, f.Data = typ&1 != 0, []byte("datagram")
	case refwire.NameAckFrequency:
		f.SeqNum, f.AckElicitingThreshold, f.RequestMaxAckDelay, f.ReorderingThreshold = 1, 2, 3000, 4
	}
	return f, true
}

type FrameTypeCase struct {
	Typ   uint64 `json:"typ"`
	Width int    `json:"width"`
	Level int    `json:"level"`
	Dg    bool   `json:"dg"`
	Rsa   bool   `json:"rsa"`
	Af    bool   `json:"af"`
	Raw   Hex    `json:"raw,omitempty"` // raw-first-byte sub-space: the input itself
}

// checkFrameType decides one (type value, encoding width, level, extension switches) point.
func checkFrameType(c FrameTypeCase, u *vf.Unit) *vf.Verdict {
	return guardPanic("frametype", func() *vf.Verdict {
		p := wire.NewFrameParser(c.Dg, c.Rsa, c.Af)
		p.SetAckDelayExponent(3)
		lvl := levels[c.Level]
		var input []byte
		typ := c.Typ
		width := c.Width
		if c.Raw != nil {
			input = c.Raw
			v, n, err := refwire.ReadVarint(input)
			if err != nil {
				return nil
			}
			typ, width = v, n
		} else {
			input = refwire.AppendVarintLen(nil, typ, width)
		}
		canon, known := canonicalFrame(typ)
		if known && typ != 0 {
			body := canon.Append(nil)[refwire.VarintLen(typ):]
			input = append(append([]byte(nil), input[:width]...), body...)
		}
		ft, l, err := p.ParseType(input, lvl)
		if typ == 0 {
			// PADDING in any encoding is skipped; a payload of only PADDING ends with io.EOF
			rest := input[width:]
			allZero := len(bytes.Trim(rest, "\x00")) == 0
			if allZero && (err != io.EOF || l != len(input)) {
				return bad("frametype", "padding", "PADDING (%d-byte type) + zeros: ParseType = %v, %d, %v", width, ft, l, err)
			}
			u.Class("padding")
			return nil
		}
		expect := polReject
		if known && extensionEnabled(typ, c.Dg, c.Rsa, c.Af) {
			expect = levelPolicy(typ, c.Level)
		}
		accepted := err == nil
		if expect == polReject && accepted {
			return bad("frametype", "accepts-forbidden", "type %#x (%s) accepted at %s with dg=%v rsa=%v af=%v", typ, refwire.FrameName(typ), levelNames[c.Level], c.Dg, c.Rsa, c.Af)
		}
		if expect == polAccept && !accepted {
			return bad("frametype", "rejects-allowed", "type %#x (%s, %d-byte encoding) rejected at %s with dg=%v rsa=%v af=%v: %v", typ, refwire.FrameName(typ), width, levelNames[c.Level], c.Dg, c.Rsa, c.Af, err)
		}
		if !accepted {
			te, ok := err.(*qerr.TransportError)
			if !ok {
				return bad("frametype", "error-type", "type %#x: error %T %v", typ, err, err)
			}
			if !known && te.ErrorCode != qerr.FrameEncodingError {
				return bad("frametype", "error-type", "unknown type %#x: error code %v, RFC 9000 12.4 wants FRAME_ENCODING_ERROR", typ, te.ErrorCode)
			}
			if l > len(input) || l < 0 {
				return bad("frametype", "consumed-out-of-range", "ParseType consumed %d of %d", l, len(input))
			}
			if known {
				u.Class("rejected-at-level-or-switch")
			} else {
				u.Class("rejected-unknown")
			}
			if expect == polEither {
				u.Class("either:rejected")
			}
			return nil
		}
		if uint64(ft) != typ || l != width {
			return bad("frametype", "dispatch", "type %#x in %d bytes: ParseType = %#x, %d", typ, width, uint64(ft), l)
		}
		// full parse: the type must reach the right body parser
		p2 := wire.NewFrameParser(c.Dg, c.Rsa, c.Af)
		p2.SetAckDelayExponent(3)
		fs, failed, perr, vd := parseAll(p2, input, lvl, protocol.Version1)
		defer putBack(fs)
		if vd != nil {
			return vd
		}
		if failed || len(fs) != 1 || fs[0].consumed != len(input) {
			return bad("frametype", "dispatch", "type %#x: canonical frame %x parsed to %d frames, err %v", typ, input, len(fs), perr)
		}
		if got := toRef(fs[0].f, 3); !eqRef(got, canon) {
			return bad("frametype", "dispatch", "type %#x: canonical frame parsed as %+v, want %+v", typ, normRef(got), normRef(canon))
		}
		u.Class("accepted:" + canon.Name)
		if expect == polEither {
			u.Class("either:accepted")
		}
		u.NonTrivial(typ, width, c.Level, c.Dg, c.Rsa, c.Af)
		return nil
	})
}

// TestExhaustiveFrameTypes enumerates every frame type value 0..255 in every varint width that
// can hold it, at every encryption level and for every combination of the three extension
// switches, plus every raw first byte 0..255 followed by zeros (which exercises the multi-byte
// type decodings) - against RFC 9000 Table 3 / section 12.4.
func TestExhaustiveFrameTypes(t *testing.T) {
	u := vf.U("frametype-exhaustive")
	si, sk := vf.Shard()
	idx := 0
	run := func(c FrameTypeCase) {
		idx++
		if (idx-1)%sk != si {
			return
		}
		u.Case()
		if v := checkFrameType(c, u); v != nil {
			if u.Report(v, c) {
				t.Fatalf("VIOLATION %s: %s", v.Sig, v.Detail)
			}
		}
	}
	if raw, ok := vf.ReplayCase(t, "frametype-exhaustive"); ok {
		var c FrameTypeCase
		if err := jsonUnmarshal(raw, &c); err != nil {
			t.Fatal(err)
		}
		sk, si = 1, 0
		run(c)
		return
	}
	for level := 0; level < 4; level++ {
		for sw := 0; sw < 8; sw++ {
			dg, rsa, af := sw&1 != 0, sw&2 != 0, sw&4 != 0
			for typ := uint64(0); typ < 256; typ++ {
				for _, w := range []int{1, 2, 4, 8} {
					if w < refwire.VarintLen(typ) {
						continue
					}
					run(FrameTypeCase{Typ: typ, Width: w, Level: level, Dg: dg, Rsa: rsa, Af: af})
				}
			}
			for b0 := 0; b0 < 256; b0++ {
				for _, tail := range []byte{0x00, 0x01, 0x1e, 0xaf} {
					raw := []byte{byte(b0), 0, 0, 0, 0, 0, 0, 0}
					raw[(1<<(b0>>6))-1] |= tail // low byte of the type value
					if b0>>6 == 0 {
						raw = []byte{byte(b0)}
					}
					run(FrameTypeCase{Level: level, Dg: dg, Rsa: rsa, Af: af, Raw: raw[:1<<(b0>>6)]})
				}
			}
		}
	}
	u.Extra("space", "type 0..255 x widths {1,2,4,8} x 4 levels x 8 switch sets + 256 first bytes x 4 low bytes x 4 levels x 8 switch sets")
}
