package c08

import (
	"errors"
	"fmt"
	"sort"
	"testing"

	"pgregory.net/rapid"

	"github.com/refraction-networking/uquic/internal/protocol"
	"github.com/refraction-networking/uquic/internal/wire"
	"github.com/refraction-networking/uquic/verif/refwire"
	"github.com/refraction-networking/uquic/verif/vf"
)

// RejectCase selects one RFC range rule, a distance from its boundary, and the side of the
// boundary. Valid=true puts the value ON the last legal point (must be accepted: catches a
// check that became too strict); Valid=false puts it Delta+1 beyond (must be rejected).
type RejectCase struct {
	Item  string `json:"item"`
	Valid bool   `json:"valid"`
	Delta uint64 `json:"delta"`
	A     uint64 `json:"a"` // free filler value (sequence number, stream id, ...)
	Sel   int    `json:"sel"`
}

type rejectItem struct {
	name string
	// build returns the crafted input and the parser to run on it
	build func(c RejectCase) ([]byte, func([]byte) error)
	rfc   string
}

func parseFramesAt(level int, dg, rsa, af bool) func([]byte) error {
	return func(b []byte) error {
		p := wire.NewFrameParser(dg, rsa, af)
		p.SetAckDelayExponent(3)
		fs, failed, err, vd := parseAll(p, b, levels[level], protocol.Version1)
		putBack(fs)
		if vd != nil {
			return errors.New(vd.Detail)
		}
		if failed {
			return err
		}
		if len(fs) != 1 {
			return fmt.Errorf("parsed %d frames", len(fs))
		}
		return nil
	}
}

var parse1RTT = parseFramesAt(refwire.Level1RTT, true, true, true)

func unmarshalAs(server bool) func([]byte) error {
	return func(b []byte) error {
		var p wire.TransportParameters
		return p.Unmarshal(b, pers(server))
	}
}

// baseTP is a minimal valid parameter list for the given sender.
func baseTP(server bool, extra ...refwire.TransportParameter) []byte {
	ps := []refwire.TransportParameter{{ID: refwire.TPInitialSourceConnectionID, Value: []byte{1, 2, 3, 4}}}
	if server {
		ps = append(ps, refwire.TransportParameter{ID: refwire.TPOriginalDestinationConnectionID, Value: []byte{5, 6, 7, 8}})
	}
	// an extra with the same id replaces the base one unless it is meant as a duplicate
	return refwire.AppendTransportParameters(nil, append(ps, extra...))
}

func replaceTP(server bool, id uint64, val []byte) []byte {
	ps := []refwire.TransportParameter{}
	if id != refwire.TPInitialSourceConnectionID {
		ps = append(ps, refwire.TransportParameter{ID: refwire.TPInitialSourceConnectionID, Value: []byte{1, 2, 3, 4}})
	}
	if server && id != refwire.TPOriginalDestinationConnectionID {
		ps = append(ps, refwire.TransportParameter{ID: refwire.TPOriginalDestinationConnectionID, Value: []byte{5, 6, 7, 8}})
	}
	return refwire.AppendTransportParameters(nil, append(ps, refwire.TransportParameter{ID: id, Value: val}))
}

func pick[T any](sel int, xs ...T) T { return xs[((sel%len(xs))+len(xs))%len(xs)] }

func parsePacketErr(b []byte) error { _, _, _, err := wire.ParsePacket(b); return err }

// above returns limit+1+delta clipped to the varint range, below returns limit-delta floored at lo.
func above(limit, delta uint64) uint64 {
	return min(refwire.MaxVarint, limit+1+min(delta, refwire.MaxVarint-limit-1))
}

var rejectItems = []rejectItem{
	{name: "frame-max-streams", rfc: "RFC 9000 19.11: MAX_STREAMS above 2^60 -> FRAME_ENCODING_ERROR",
		build: func(c RejectCase) ([]byte, func([]byte) error) {
			v := refwire.MaxStreams - min(c.Delta, refwire.MaxStreams)
			if !c.Valid {
				v = above(refwire.MaxStreams, c.Delta)
			}
			return refwire.Frame{Name: refwire.NameMaxStreams, Max: v, Bidi: c.Sel%2 == 0}.Append(nil), parse1RTT
		}},
	{name: "frame-streams-blocked", rfc: "RFC 9000 19.14: STREAMS_BLOCKED above 2^60 -> STREAM_LIMIT_ERROR or FRAME_ENCODING_ERROR",
		build: func(c RejectCase) ([]byte, func([]byte) error) {
			v := refwire.MaxStreams - min(c.Delta, refwire.MaxStreams)
			if !c.Valid {
				v = above(refwire.MaxStreams, c.Delta)
			}
			return refwire.Frame{Name: refwire.NameStreamsBlocked, Max: v, Bidi: c.Sel%2 == 0}.Append(nil), parse1RTT
		}},
	{name: "frame-new-token-empty", rfc: "RFC 9000 19.7: empty Token -> FRAME_ENCODING_ERROR",
		build: func(c RejectCase) ([]byte, func([]byte) error) {
			f := refwire.Frame{Name: refwire.NameNewToken}
			if c.Valid {
				f.Token = make([]byte, 1+c.Delta%64)
			}
			return f.Append(nil), parse1RTT
		}},
	{name: "frame-ncid-retire-prior-to", rfc: "RFC 9000 19.15: Retire Prior To > Sequence Number -> FRAME_ENCODING_ERROR",
		build: func(c RejectCase) ([]byte, func([]byte) error) {
			seq := c.A % (refwire.MaxVarint - 1)
			f := refwire.Frame{Name: refwire.NameNewConnectionID, SeqNum: seq, RetirePriorTo: seq, ConnID: make([]byte, 8)}
			if !c.Valid {
				f.RetirePriorTo = above(seq, c.Delta)
			}
			return f.Append(nil), parse1RTT
		}},
	{name: "frame-ncid-cid-length", rfc: "RFC 9000 19.15: connection ID length < 1 or > 20 -> FRAME_ENCODING_ERROR",
		build: func(c RejectCase) ([]byte, func([]byte) error) {
			n := pick(c.Sel, 1, 20, 8)
			if !c.Valid {
				n = pick(c.Sel, 0, 21, 22, 255, int(21+c.Delta%235))
			}
			f := refwire.Frame{Name: refwire.NameNewConnectionID, SeqNum: c.A % 1000, ConnID: make([]byte, n)}
			return f.Append(nil), parse1RTT
		}},
	{name: "frame-reset-stream-at-reliable-size", rfc: "draft-ietf-quic-reliable-stream-reset 3: Reliable Size > Final Size -> FRAME_ENCODING_ERROR (property: final size below reliable size)",
		build: func(c RejectCase) ([]byte, func([]byte) error) {
			final := c.A % (refwire.MaxVarint - 1)
			f := refwire.Frame{Name: refwire.NameResetStreamAt, StreamID: 4, ErrorCode: 1, FinalSize: final, ReliableSize: final - min(final, c.Delta)}
			if f.ReliableSize == 0 {
				f.ReliableSize, f.FinalSize = 1, max(final, 1)
			}
			if !c.Valid {
				f.ReliableSize = above(final, c.Delta)
				f.FinalSize = final
			}
			return f.Append(nil), parse1RTT
		}},
	{name: "frame-stream-offset-overflow", rfc: "RFC 9000 19.8: offset + length beyond 2^62-1 -> FRAME_ENCODING_ERROR or FLOW_CONTROL_ERROR",
		build: func(c RejectCase) ([]byte, func([]byte) error) {
			n := 1 + c.Delta%100
			f := refwire.Frame{Name: refwire.NameStream, StreamID: c.A % 1000, Data: make([]byte, n), HasLen: c.Sel%2 == 0, HasOff: true, Offset: refwire.MaxVarint - n}
			if !c.Valid {
				f.Offset = refwire.MaxVarint - n + 1 + c.Delta%n
			}
			return f.Append(nil), parse1RTT
		}},
	{name: "frame-extension-disabled", rfc: "RFC 9000 12.4: unknown frame type -> FRAME_ENCODING_ERROR (extension not negotiated)",
		build: func(c RejectCase) ([]byte, func([]byte) error) {
			f := pick(c.Sel, refwire.Frame{Name: refwire.NameDatagram, HasLen: true, Data: []byte{1}}, refwire.Frame{Name: refwire.NameDatagram, Data: []byte{1}},
				refwire.Frame{Name: refwire.NameResetStreamAt, FinalSize: 2, ReliableSize: 1}, refwire.Frame{Name: refwire.NameImmediateAck}, refwire.Frame{Name: refwire.NameAckFrequency})
			on := c.Valid
			return f.Append(nil), parseFramesAt(refwire.Level1RTT, on, on, on)
		}},
	{name: "tp-initial-max-streams", rfc: "RFC 9000 18.2: initial_max_streams_* above 2^60 -> TRANSPORT_PARAMETER_ERROR",
		build: func(c RejectCase) ([]byte, func([]byte) error) {
			v := refwire.MaxStreams - min(c.Delta, refwire.MaxStreams)
			if !c.Valid {
				v = above(refwire.MaxStreams, c.Delta)
			}
			id := pick(c.Sel, uint64(refwire.TPInitialMaxStreamsBidi), uint64(refwire.TPInitialMaxStreamsUni))
			srv := c.Sel/2%2 == 0
			return baseTP(srv, refwire.VarintParam(id, v)), unmarshalAs(srv)
		}},
	{name: "tp-ack-delay-exponent", rfc: "RFC 9000 18.2: ack_delay_exponent above 20 is invalid",
		build: func(c RejectCase) ([]byte, func([]byte) error) {
			v := 20 - min(c.Delta, 20)
			if !c.Valid {
				v = above(20, c.Delta)
			}
			srv := c.Sel%2 == 0
			return baseTP(srv, refwire.VarintParam(refwire.TPAckDelayExponent, v)), unmarshalAs(srv)
		}},
	{name: "tp-max-ack-delay", rfc: "RFC 9000 18.2: max_ack_delay of 2^14 or greater is invalid",
		build: func(c RejectCase) ([]byte, func([]byte) error) {
			v := 1<<14 - 1 - min(c.Delta, 1<<14-1)
			if !c.Valid {
				v = above(1<<14-1, c.Delta)
			}
			srv := c.Sel%2 == 0
			return baseTP(srv, refwire.VarintParam(refwire.TPMaxAckDelay, v)), unmarshalAs(srv)
		}},
	{name: "tp-active-connection-id-limit", rfc: "RFC 9000 18.2: active_connection_id_limit below 2 -> TRANSPORT_PARAMETER_ERROR",
		build: func(c RejectCase) ([]byte, func([]byte) error) {
			v := min(refwire.MaxVarint, 2+c.Delta)
			if !c.Valid {
				v = c.Delta % 2
			}
			srv := c.Sel%2 == 0
			return baseTP(srv, refwire.VarintParam(refwire.TPActiveConnectionIDLimit, v)), unmarshalAs(srv)
		}},
	{name: "tp-max-udp-payload-size", rfc: "RFC 9000 18.2: max_udp_payload_size below 1200 is invalid",
		build: func(c RejectCase) ([]byte, func([]byte) error) {
			v := min(refwire.MaxVarint, 1200+c.Delta)
			if !c.Valid {
				v = 1199 - min(c.Delta, 1199)
			}
			srv := c.Sel%2 == 0
			return baseTP(srv, refwire.VarintParam(refwire.TPMaxUDPPayloadSize, v)), unmarshalAs(srv)
		}},
	{name: "tp-connection-id-length", rfc: "RFC 9000 17.2 / 18.2: connection IDs are at most 20 bytes in QUIC v1",
		build: func(c RejectCase) ([]byte, func([]byte) error) {
			n := pick(c.Sel, 20, 0, 8)
			if !c.Valid {
				n = 21 + int(c.Delta%200)
			}
			id := pick(c.Sel/3, uint64(refwire.TPInitialSourceConnectionID), uint64(refwire.TPOriginalDestinationConnectionID), uint64(refwire.TPRetrySourceConnectionID))
			return replaceTP(true, id, make([]byte, n)), unmarshalAs(true)
		}},
	{name: "tp-duplicate", rfc: "RFC 9000 7.4: an endpoint MUST NOT send a parameter more than once (property: duplicate parameters)",
		build: func(c RejectCase) ([]byte, func([]byte) error) {
			srv := c.Sel%2 == 0
			p := pick(c.Sel/2, refwire.VarintParam(refwire.TPInitialMaxData, c.A%refwire.MaxVarint), refwire.VarintParam(refwire.TPMaxIdleTimeout, 30000),
				refwire.TransportParameter{ID: refwire.TPDisableActiveMigration}, refwire.TransportParameter{ID: refwire.TPInitialSourceConnectionID, Value: []byte{1, 2, 3, 4}},
				refwire.TransportParameter{ID: 27 + 31*(c.A%1000), Value: []byte{1}}, refwire.TransportParameter{ID: 0x7777, Value: nil},
				refwire.VarintParam(refwire.TPMaxDatagramFrameSize, 1200), refwire.TransportParameter{ID: refwire.TPResetStreamAt})
			if p.ID == refwire.TPInitialSourceConnectionID {
				if c.Valid {
					return baseTP(srv), unmarshalAs(srv)
				}
				return baseTP(srv, p), unmarshalAs(srv)
			}
			if c.Valid {
				return baseTP(srv, p), unmarshalAs(srv)
			}
			q := p
			if c.Delta%2 == 1 && len(p.Value) > 0 { // same id, different value
				q.Value = append([]byte(nil), p.Value...)
				q.Value[len(q.Value)-1] ^= 1
			}
			return baseTP(srv, p, refwire.VarintParam(refwire.TPInitialMaxStreamDataUni, 7), q), unmarshalAs(srv)
		}},
	{name: "tp-server-only-from-client", rfc: "RFC 9000 18.2: a client MUST NOT include original_destination_connection_id, preferred_address, retry_source_connection_id, stateless_reset_token (property: perspective-forbidden)",
		build: func(c RejectCase) ([]byte, func([]byte) error) {
			pa := refwire.PreferredAddress{IPv4: [4]byte{127, 0, 0, 1}, IPv4Port: 443, ConnID: []byte{1, 2, 3, 4}}
			p := pick(c.Sel, refwire.TransportParameter{ID: refwire.TPOriginalDestinationConnectionID, Value: []byte{5, 6, 7, 8}},
				refwire.TransportParameter{ID: refwire.TPStatelessResetToken, Value: make([]byte, 16)},
				refwire.TransportParameter{ID: refwire.TPRetrySourceConnectionID, Value: []byte{9}},
				refwire.TransportParameter{ID: refwire.TPPreferredAddress, Value: pa.Append(nil)})
			// the same list is legal when a server sends it
			if p.ID == refwire.TPOriginalDestinationConnectionID {
				return baseTP(false, p), unmarshalAs(c.Valid)
			}
			return baseTP(c.Valid, p), unmarshalAs(c.Valid)
		}},
	{name: "tp-stateless-reset-token-length", rfc: "RFC 9000 18.2: stateless_reset_token is a sequence of 16 bytes",
		build: func(c RejectCase) ([]byte, func([]byte) error) {
			n := 16
			if !c.Valid {
				n = pick(c.Sel, 0, 15, 17, 32, int(c.Delta%16))
			}
			return baseTP(true, refwire.TransportParameter{ID: refwire.TPStatelessResetToken, Value: make([]byte, n)}), unmarshalAs(true)
		}},
	{name: "tp-preferred-address-cid", rfc: "RFC 9000 18.2 / 5.1: preferred_address carries a connection ID of 1..20 bytes and is exactly as long as its fields",
		build: func(c RejectCase) ([]byte, func([]byte) error) {
			pa := refwire.PreferredAddress{IPv6Port: 443, ConnID: make([]byte, pick(c.Sel, 1, 20, 8))}
			pa.IPv6[0] = 0x20
			v := pa.Append(nil)
			if !c.Valid {
				switch c.Sel % 4 {
				case 0:
					pa.ConnID = nil
					v = pa.Append(nil)
				case 1:
					pa.ConnID = make([]byte, 21+c.Delta%100)
					v = pa.Append(nil)
				case 2:
					v = append(v, 0) // trailing byte
				case 3:
					v = v[:len(v)-1-int(c.Delta%uint64(len(v)-1))]
				}
			}
			return baseTP(true, refwire.TransportParameter{ID: refwire.TPPreferredAddress, Value: v}), unmarshalAs(true)
		}},
	{name: "tp-missing-required", rfc: "RFC 9000 7.3: initial_source_connection_id (both) and original_destination_connection_id (server) MUST be present",
		build: func(c RejectCase) ([]byte, func([]byte) error) {
			srv := c.Sel%2 == 0
			if c.Valid {
				return baseTP(srv, refwire.VarintParam(refwire.TPInitialMaxData, 100)), unmarshalAs(srv)
			}
			ps := []refwire.TransportParameter{refwire.VarintParam(refwire.TPInitialMaxData, 100)}
			if srv && c.Sel/2%2 == 0 {
				ps = append(ps, refwire.TransportParameter{ID: refwire.TPInitialSourceConnectionID, Value: []byte{1}}) // ODCID missing
			} else if srv {
				ps = append(ps, refwire.TransportParameter{ID: refwire.TPOriginalDestinationConnectionID, Value: []byte{1}}) // ISCID missing
			}
			return refwire.AppendTransportParameters(nil, ps), unmarshalAs(srv)
		}},
	{name: "tp-integer-encoding", rfc: "RFC 9000 18: an integer-valued parameter is exactly one variable-length integer; flags are zero-length",
		build: func(c RejectCase) ([]byte, func([]byte) error) {
			srv := c.Sel%2 == 0
			id := pick(c.Sel/2, uint64(refwire.TPInitialMaxData), uint64(refwire.TPMaxIdleTimeout), uint64(refwire.TPInitialMaxStreamsBidi), uint64(refwire.TPMaxDatagramFrameSize), uint64(refwire.TPAckDelayExponent))
			val := refwire.AppendVarintLen(nil, c.A%21, pick(int(c.Delta), 1, 2, 4, 8)) // non-minimal encodings are legal
			if !c.Valid {
				switch c.Delta % 3 {
				case 0:
					val = append(val, 0)
				case 1:
					val = refwire.AppendVarintLen(nil, 5, 4)[:3]
				case 2:
					if c.Sel%3 == 0 {
						return baseTP(srv, refwire.TransportParameter{ID: refwire.TPDisableActiveMigration, Value: []byte{0}}), unmarshalAs(srv)
					}
					val = nil
				}
			}
			return baseTP(srv, refwire.TransportParameter{ID: id, Value: val}), unmarshalAs(srv)
		}},
	{name: "header-connection-id-length", rfc: "RFC 9000 17.2: v1 endpoints drop long headers with connection IDs longer than 20 bytes (property: connection ID lengths)",
		build: func(c RejectCase) ([]byte, func([]byte) error) {
			n := pick(c.Sel, 20, 0, 8)
			if !c.Valid {
				n = 21 + int(c.Delta%235)
			}
			h := refwire.LongHeader{Kind: pick(c.Sel/3, refwire.LongInitial, refwire.Long0RTT, refwire.LongHandshake), Version: pick(c.Sel/9, refwire.Version1, refwire.Version2), Length: 20}
			h.DCID, h.SCID = make([]byte, 8), make([]byte, 8)
			dcid := c.Sel/18%2 == 0
			if dcid {
				h.DCID = make([]byte, n)
			} else {
				h.SCID = make([]byte, n)
			}
			b := append(refwire.AppendLongHeader(nil, h, 1, 2), make([]byte, 18)...)
			if dcid && c.Delta%2 == 0 {
				return b, func(b []byte) error { _, err := wire.ParseConnectionID(b, 8); return err }
			}
			return b, parsePacketErr
		}},
	{name: "header-fixed-bit", rfc: "RFC 9000 17.2 / 17.3: packets with the Fixed Bit cleared MUST be discarded",
		build: func(c RejectCase) ([]byte, func([]byte) error) {
			if c.Sel%2 == 0 {
				b := refwire.AppendShortHeader(nil, make([]byte, 8), c.A%65536, 2, c.Sel/2%2 == 0, false)
				if !c.Valid {
					b[0] &^= 0x40
				}
				return append(b, make([]byte, 20)...), func(b []byte) error { _, _, _, _, err := wire.ParseShortHeader(b, 8); return err }
			}
			h := refwire.LongHeader{Kind: pick(c.Sel/2, refwire.LongInitial, refwire.Long0RTT, refwire.LongHandshake), Version: pick(c.Sel/8, refwire.Version1, refwire.Version2), DCID: make([]byte, 8), Length: 20}
			b := append(refwire.AppendLongHeader(nil, h, 1, 2), make([]byte, 18)...)
			if !c.Valid {
				b[0] &^= 0x40
			}
			return b, parsePacketErr
		}},
	{name: "header-length-beyond-datagram", rfc: "RFC 9000 17.2 / 12.2: the Length field cannot exceed the datagram",
		build: func(c RejectCase) ([]byte, func([]byte) error) {
			payload := 18 + int(c.A%40)
			h := refwire.LongHeader{Kind: pick(c.Sel, refwire.LongInitial, refwire.Long0RTT, refwire.LongHandshake), Version: pick(c.Sel/3, refwire.Version1, refwire.Version2), DCID: make([]byte, 8), SCID: make([]byte, 4)}
			h.Length = uint64(2 + payload)
			if !c.Valid {
				h.Length = above(uint64(2+payload), c.Delta)
			}
			return append(refwire.AppendLongHeader(nil, h, 1, 2), make([]byte, payload)...), parsePacketErr
		}},
	{name: "header-retry-empty-token", rfc: "RFC 9000 17.2.5.2: a Retry packet with a zero-length Retry Token MUST be discarded",
		build: func(c RejectCase) ([]byte, func([]byte) error) {
			h := refwire.LongHeader{Kind: refwire.LongRetry, Version: pick(c.Sel, refwire.Version1, refwire.Version2), DCID: make([]byte, 8), SCID: make([]byte, 8)}
			if c.Valid {
				h.RetryToken = make([]byte, 1+c.Delta%50)
			}
			return refwire.AppendLongHeader(nil, h, 0, 0), parsePacketErr
		}},
	{name: "vn-version-list", rfc: "RFC 9000 17.2.1: Supported Version fields are 32 bits each; a list that is empty or ends mid-version is unusable",
		build: func(c RejectCase) ([]byte, func([]byte) error) {
			b := refwire.AppendVersionNegotiation(nil, byte(c.A), make([]byte, c.Delta%30), make([]byte, c.A%30), []uint32{1, refwire.Version2}[:1+c.Sel%2])
			if !c.Valid {
				switch c.Sel % 2 {
				case 0:
					b = b[:len(b)-1-int(c.Delta%3)]
				case 1:
					b = refwire.AppendVersionNegotiation(nil, 0, make([]byte, 8), nil, nil)
				}
			}
			return b, func(b []byte) error { _, _, _, err := wire.ParseVersionNegotiationPacket(b); return err }
		}},
}

func rejectItemNames() []string {
	var out []string
	for _, it := range rejectItems {
		out = append(out, it.name)
	}
	sort.Strings(out)
	return out
}

func genRejectCase(t *rapid.T) RejectCase {
	c := RejectCase{Item: rapid.SampledFrom(rejectItemNames()).Draw(t, "item"), Valid: rapid.IntRange(0, 2).Draw(t, "valid") == 0}
	c.Delta = rapid.SampledFrom([]uint64{0, 0, 0, 1, 2, 5, 62, 63, 16382, 1 << 30, 1 << 61}).Draw(t, "delta")
	if rapid.IntRange(0, 3).Draw(t, "delta-any") == 0 {
		c.Delta = genVarint(t, "delta-v")
	}
	c.A = genVarint(t, "a")
	c.Sel = rapid.IntRange(0, 1000).Draw(t, "sel")
	return c
}

func checkReject(c RejectCase, u *vf.Unit) *vf.Verdict {
	var item *rejectItem
	for i := range rejectItems {
		if rejectItems[i].name == c.Item {
			item = &rejectItems[i]
		}
	}
	if item == nil {
		return nil
	}
	input, parse := item.build(c)
	var err error
	if vd := guardPanic("reject", func() *vf.Verdict { err = parse(input); return nil }); vd != nil {
		return vd
	}
	if c.Valid && err != nil {
		return bad("reject", "boundary-value-rejected:"+c.Item, "%s: the last legal value is rejected: %v\n input=%x", item.rfc, err, clip(input, 80))
	}
	if !c.Valid && err == nil {
		return bad("reject", "out-of-range-accepted:"+c.Item, "%s\n input=%x", item.rfc, clip(input, 80))
	}
	u.Class(c.Item)
	if c.Valid {
		u.Class("side:legal-boundary")
	} else {
		u.Class("side:forbidden")
	}
	u.NonTrivial(c.Item, input)
	return nil
}

func TestReject(t *testing.T) { vf.RunRapid(t, "range-reject", genRejectCase, checkReject) }
