package c08

import (
	"testing"

	"pgregory.net/rapid"

	fuzzframes "github.com/refraction-networking/uquic/fuzzing/frames"
	fuzzhandshake "github.com/refraction-networking/uquic/fuzzing/handshake"
	fuzzheader "github.com/refraction-networking/uquic/fuzzing/header"
	fuzztokens "github.com/refraction-networking/uquic/fuzzing/tokens"
	fuzztp "github.com/refraction-networking/uquic/fuzzing/transportparameters"
	"github.com/refraction-networking/uquic/verif/refwire"
	"github.com/refraction-networking/uquic/verif/vf"
)

// The repository ships go-fuzz style entry points (fuzzing/*/fuzz.go) that panic when one of
// their own consistency checks fails (inconsistent frame length, header length, transport
// parameter round trip, token round trip, 1-RTT keys after a handshake). They are not part of
// `go test`. This unit feeds them the harness' generators; the oracle is "does not panic".

type RepoFuzzCase struct {
	Target string `json:"target"`
	Data   Hex    `json:"data"`
}

func genTLSMessage(t *rapid.T) []byte {
	typ := rapid.SampledFrom([]byte{1, 2, 4, 8, 11, 13, 15, 20, 24, 0, 255}).Draw(t, "tlstype")
	body := genBytes(t, "tlsbody", 0, 80)
	if rapid.Bool().Draw(t, "tls-tp") {
		// something that looks like a quic_transport_parameters extension somewhere in the body
		s := genTPSpec(t)
		body = append(body, 0x00, 0x39)
		tp := s.encodeRef(t, rapid.Bool().Draw(t, "tweak"))
		body = append(body, byte(len(tp)>>8), byte(len(tp)))
		body = append(body, tp...)
	}
	n := len(body)
	if rapid.IntRange(0, 4).Draw(t, "badlen") == 0 {
		n = rapid.IntRange(0, 1<<16).Draw(t, "tlslen")
	}
	return append([]byte{typ, byte(n >> 16), byte(n >> 8), byte(n)}, body...)
}

func genRepoFuzzCase(t *rapid.T) RepoFuzzCase {
	c := RepoFuzzCase{Target: rapid.SampledFrom([]string{"frames", "frames", "frames", "frames", "header", "header", "header", "transportparameters", "transportparameters", "transportparameters", "tokens", "tokens", "handshake"}).Draw(t, "target")}
	switch c.Target {
	case "frames":
		lvl := rapid.IntRange(0, 2).Draw(t, "lvl") // the entry point maps byte%3 to Initial/Handshake/1-RTT
		names := allFrameNames
		if rapid.IntRange(0, 3).Draw(t, "fit") != 0 {
			names = namesFor([]int{refwire.LevelInitial, refwire.LevelHandshake, refwire.Level1RTT}[lvl], true, true, true)
		}
		c.Data = append(Hex{byte(lvl)}, mutated(t, func(t *rapid.T) []byte { return genPayload(t, names, rapid.IntRange(0, 3).Draw(t, "legal") != 0) }, maxInput)...)
	case "header":
		cidLen := rapid.IntRange(0, 20).Draw(t, "cidlen")
		c.Data = append(Hex{byte(cidLen)}, genHeaderCaseData(t, cidLen)...)
	case "transportparameters":
		tc := genTPCase(t)
		prefix := byte(0)
		switch tc.Mode {
		case 1:
			prefix = 2
		case 2:
			prefix = 1
		}
		c.Data = append(Hex{prefix | byte(rapid.IntRange(0, 63).Draw(t, "hi")<<2)}, tc.Data...)
	case "tokens":
		key := genBytes(t, "key", 32, 32)
		sel := byte(rapid.IntRange(0, 2).Draw(t, "sel"))
		var rest []byte
		switch sel {
		case 0:
			rest = genBytes(t, "tok", 0, 100)
		case 1:
			rest = append([]byte{byte(rapid.IntRange(0, 1).Draw(t, "udp"))}, genBytes(t, "addr", 18, 18)...)
			rest = append(rest, rapid.Byte().Draw(t, "rtt"))
		case 2:
			o, r := rapid.IntRange(0, 20).Draw(t, "olen"), rapid.IntRange(0, 20).Draw(t, "rlen")
			rest = append([]byte{byte(o), byte(r)}, genBytes(t, "cids", o+r, o+r)...)
			rest = append(rest, byte(rapid.IntRange(0, 1).Draw(t, "udp")))
			rest = append(rest, genBytes(t, "addr", 18, 18)...)
		}
		c.Data = append(append(append(Hex(nil), key...), sel), rest...)
	case "handshake":
		conf := genBytes(t, "conf", 12, 12)
		// message to replace: one of the handshake message types, at a drawn level
		conf[5] = rapid.SampledFrom([]byte{1, 2, 8, 11, 15, 20, 4, 31}).Draw(t, "replace1") | byte(rapid.IntRange(0, 3).Draw(t, "lvl1")<<6)
		conf[11] = rapid.SampledFrom([]byte{1, 2, 8, 11, 15, 20, 4, 31}).Draw(t, "replace2") | byte(rapid.IntRange(0, 3).Draw(t, "lvl2")<<6)
		c.Data = append(Hex(conf), genTLSMessage(t)...)
	}
	return c
}

func genHeaderCaseData(t *rapid.T, cidLen int) []byte {
	return mutated(t, func(t *rapid.T) []byte {
		switch rapid.IntRange(0, 9).Draw(t, "form") {
		case 0, 1, 2:
			return genShortPacket(t, cidLen)
		case 3:
			return genVNPacket(t)
		default:
			return genLongPacket(t)
		}
	}, maxInput)
}

func checkRepoFuzz(c RepoFuzzCase, u *vf.Unit) *vf.Verdict {
	var f func([]byte) int
	switch c.Target {
	case "frames":
		f = fuzzframes.Fuzz
	case "header":
		f = fuzzheader.Fuzz
	case "transportparameters":
		f = fuzztp.Fuzz
	case "tokens":
		f = fuzztokens.Fuzz
	case "handshake":
		f = fuzzhandshake.Fuzz
		u.Journal(c) // this entry point calls log.Fatal on some failures
	default:
		return nil
	}
	if len(c.Data) > maxInput+64 {
		return nil
	}
	var ret int
	if v := vf.Guard("C08/repofuzz/"+c.Target, func() *vf.Verdict { ret = f(append([]byte(nil), c.Data...)); return nil }); v != nil {
		return v
	}
	u.Class(c.Target)
	if ret == 1 {
		u.Class(c.Target + ":interesting")
		u.NonTrivial(c.Target, []byte(c.Data))
	}
	return nil
}

func TestRepoFuzzEntryPoints(t *testing.T) {
	vf.RunRapid(t, "repo-fuzz-entrypoints", genRepoFuzzCase, checkRepoFuzz)
}
