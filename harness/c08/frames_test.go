package c08

import (
	"bytes"
	"fmt"
	"io"
	"reflect"
	"slices"
	"testing"
	"time"

	"pgregory.net/rapid"

	"github.com/refraction-networking/uquic/internal/protocol"
	"github.com/refraction-networking/uquic/internal/qerr"
	"github.com/refraction-networking/uquic/internal/wire"
	"github.com/refraction-networking/uquic/verif/refwire"
	"github.com/refraction-networking/uquic/verif/vf"
)

// encoderAckDelayExponent is the exponent wire.AckFrame.Append scales with (the local endpoint's
// own ack_delay_exponent); the parser scales with the PEER's exponent. Round trips through the
// implementation are therefore only the identity when the parser is configured with this value.
const encoderAckDelayExponent = protocol.AckDelayExponent

// ---- conversion between wire frames and refwire frames (harness code, the "field map") ------

// toRef maps a wire frame to the refwire representation. ACK delay is expressed in units of
// 2^exp microseconds (truncating), which is the documented normalisation of the delay field.
func toRef(f wire.Frame, exp uint8) refwire.Frame {
	switch x := f.(type) {
	case *wire.PingFrame:
		return refwire.Frame{Name: refwire.NamePing}
	case *wire.HandshakeDoneFrame:
		return refwire.Frame{Name: refwire.NameHandshakeDone}
	case *wire.ImmediateAckFrame:
		return refwire.Frame{Name: refwire.NameImmediateAck}
	case *wire.AckFrame:
		r := refwire.Frame{Name: refwire.NameAck, ECT0: x.ECT0, ECT1: x.ECT1, ECNCE: x.ECNCE}
		r.HasECN = x.ECT0 > 0 || x.ECT1 > 0 || x.ECNCE > 0
		r.AckDelay = uint64(x.DelayTime.Nanoseconds() / (1000 << exp))
		for _, ar := range x.AckRanges {
			r.AckRanges = append(r.AckRanges, refwire.AckRange{Smallest: uint64(ar.Smallest), Largest: uint64(ar.Largest)})
		}
		return r
	case *wire.ResetStreamFrame:
		r := refwire.Frame{Name: refwire.NameResetStream, StreamID: uint64(x.StreamID), ErrorCode: uint64(x.ErrorCode),
			FinalSize: uint64(x.FinalSize), ReliableSize: uint64(x.ReliableSize)}
		if x.ReliableSize != 0 {
			r.Name = refwire.NameResetStreamAt
		}
		return r
	case *wire.StopSendingFrame:
		return refwire.Frame{Name: refwire.NameStopSending, StreamID: uint64(x.StreamID), ErrorCode: uint64(x.ErrorCode)}
	case *wire.CryptoFrame:
		return refwire.Frame{Name: refwire.NameCrypto, Offset: uint64(x.Offset), Data: x.Data, HasOff: true, HasLen: true}
	case *wire.NewTokenFrame:
		return refwire.Frame{Name: refwire.NameNewToken, Token: x.Token}
	case *wire.StreamFrame:
		return refwire.Frame{Name: refwire.NameStream, StreamID: uint64(x.StreamID), Offset: uint64(x.Offset), Data: x.Data,
			Fin: x.Fin, HasLen: x.DataLenPresent, HasOff: x.Offset != 0}
	case *wire.MaxDataFrame:
		return refwire.Frame{Name: refwire.NameMaxData, Max: uint64(x.MaximumData)}
	case *wire.MaxStreamDataFrame:
		return refwire.Frame{Name: refwire.NameMaxStreamData, StreamID: uint64(x.StreamID), Max: uint64(x.MaximumStreamData)}
	case *wire.MaxStreamsFrame:
		return refwire.Frame{Name: refwire.NameMaxStreams, Max: uint64(x.MaxStreamNum), Bidi: x.Type == protocol.StreamTypeBidi}
	case *wire.DataBlockedFrame:
		return refwire.Frame{Name: refwire.NameDataBlocked, Max: uint64(x.MaximumData)}
	case *wire.StreamDataBlockedFrame:
		return refwire.Frame{Name: refwire.NameStreamDataBlocked, StreamID: uint64(x.StreamID), Max: uint64(x.MaximumStreamData)}
	case *wire.StreamsBlockedFrame:
		return refwire.Frame{Name: refwire.NameStreamsBlocked, Max: uint64(x.StreamLimit), Bidi: x.Type == protocol.StreamTypeBidi}
	case *wire.NewConnectionIDFrame:
		return refwire.Frame{Name: refwire.NameNewConnectionID, SeqNum: x.SequenceNumber, RetirePriorTo: x.RetirePriorTo,
			ConnID: x.ConnectionID.Bytes(), ResetToken: x.StatelessResetToken}
	case *wire.RetireConnectionIDFrame:
		return refwire.Frame{Name: refwire.NameRetireConnectionID, SeqNum: x.SequenceNumber}
	case *wire.PathChallengeFrame:
		return refwire.Frame{Name: refwire.NamePathChallenge, PathData: x.Data}
	case *wire.PathResponseFrame:
		return refwire.Frame{Name: refwire.NamePathResponse, PathData: x.Data}
	case *wire.ConnectionCloseFrame:
		return refwire.Frame{Name: refwire.NameConnectionClose, IsApp: x.IsApplicationError, ErrorCode: x.ErrorCode,
			FrameType: x.FrameType, Reason: []byte(x.ReasonPhrase)}
	case *wire.DatagramFrame:
		return refwire.Frame{Name: refwire.NameDatagram, HasLen: x.DataLenPresent, Data: x.Data}
	case *wire.AckFrequencyFrame:
		return refwire.Frame{Name: refwire.NameAckFrequency, SeqNum: x.SequenceNumber, AckElicitingThreshold: x.AckElicitingThreshold,
			RequestMaxAckDelay: uint64(x.RequestMaxAckDelay / time.Microsecond), ReorderingThreshold: uint64(x.ReorderingThreshold)}
	}
	return refwire.Frame{Name: fmt.Sprintf("?%T", f)}
}

// fromRef builds the wire frame a spec describes (spec must satisfy the encoder preconditions).
func fromRef(r refwire.Frame) wire.Frame {
	st := protocol.StreamTypeUni
	if r.Bidi {
		st = protocol.StreamTypeBidi
	}
	switch r.Name {
	case refwire.NamePing:
		return &wire.PingFrame{}
	case refwire.NameHandshakeDone:
		return &wire.HandshakeDoneFrame{}
	case refwire.NameImmediateAck:
		return &wire.ImmediateAckFrame{}
	case refwire.NameAck:
		f := &wire.AckFrame{ECT0: r.ECT0, ECT1: r.ECT1, ECNCE: r.ECNCE}
		f.DelayTime = time.Duration(r.AckDelay) * (time.Microsecond << encoderAckDelayExponent)
		for _, ar := range r.AckRanges {
			f.AckRanges = append(f.AckRanges, wire.AckRange{Smallest: protocol.PacketNumber(ar.Smallest), Largest: protocol.PacketNumber(ar.Largest)})
		}
		return f
	case refwire.NameResetStream, refwire.NameResetStreamAt:
		return &wire.ResetStreamFrame{StreamID: protocol.StreamID(r.StreamID), ErrorCode: qerr.StreamErrorCode(r.ErrorCode),
			FinalSize: protocol.ByteCount(r.FinalSize), ReliableSize: protocol.ByteCount(r.ReliableSize)}
	case refwire.NameStopSending:
		return &wire.StopSendingFrame{StreamID: protocol.StreamID(r.StreamID), ErrorCode: qerr.StreamErrorCode(r.ErrorCode)}
	case refwire.NameCrypto:
		return &wire.CryptoFrame{Offset: protocol.ByteCount(r.Offset), Data: r.Data}
	case refwire.NameNewToken:
		return &wire.NewTokenFrame{Token: r.Token}
	case refwire.NameStream:
		return &wire.StreamFrame{StreamID: protocol.StreamID(r.StreamID), Offset: protocol.ByteCount(r.Offset), Data: r.Data, Fin: r.Fin, DataLenPresent: r.HasLen}
	case refwire.NameMaxData:
		return &wire.MaxDataFrame{MaximumData: protocol.ByteCount(r.Max)}
	case refwire.NameMaxStreamData:
		return &wire.MaxStreamDataFrame{StreamID: protocol.StreamID(r.StreamID), MaximumStreamData: protocol.ByteCount(r.Max)}
	case refwire.NameMaxStreams:
		return &wire.MaxStreamsFrame{Type: st, MaxStreamNum: protocol.StreamNum(r.Max)}
	case refwire.NameDataBlocked:
		return &wire.DataBlockedFrame{MaximumData: protocol.ByteCount(r.Max)}
	case refwire.NameStreamDataBlocked:
		return &wire.StreamDataBlockedFrame{StreamID: protocol.StreamID(r.StreamID), MaximumStreamData: protocol.ByteCount(r.Max)}
	case refwire.NameStreamsBlocked:
		return &wire.StreamsBlockedFrame{Type: st, StreamLimit: protocol.StreamNum(r.Max)}
	case refwire.NameNewConnectionID:
		return &wire.NewConnectionIDFrame{SequenceNumber: r.SeqNum, RetirePriorTo: r.RetirePriorTo,
			ConnectionID: protocol.ParseConnectionID(r.ConnID), StatelessResetToken: r.ResetToken}
	case refwire.NameRetireConnectionID:
		return &wire.RetireConnectionIDFrame{SequenceNumber: r.SeqNum}
	case refwire.NamePathChallenge:
		return &wire.PathChallengeFrame{Data: r.PathData}
	case refwire.NamePathResponse:
		return &wire.PathResponseFrame{Data: r.PathData}
	case refwire.NameConnectionClose:
		return &wire.ConnectionCloseFrame{IsApplicationError: r.IsApp, ErrorCode: r.ErrorCode, FrameType: r.FrameType, ReasonPhrase: string(r.Reason)}
	case refwire.NameDatagram:
		return &wire.DatagramFrame{DataLenPresent: r.HasLen, Data: r.Data}
	case refwire.NameAckFrequency:
		return &wire.AckFrequencyFrame{SequenceNumber: r.SeqNum, AckElicitingThreshold: r.AckElicitingThreshold,
			RequestMaxAckDelay: time.Duration(r.RequestMaxAckDelay) * time.Microsecond, ReorderingThreshold: protocol.PacketNumber(r.ReorderingThreshold)}
	}
	panic("fromRef: " + r.Name)
}

// normRef brings a refwire frame into the canonical form used for comparisons: position fields
// dropped, nil for empty slices, and the documented normalisations of the implementation:
//   - STREAM: the OFF bit is not remembered; offset 0 is encoded without it;
//   - ACK: type 0x03 with all-zero ECN counts is indistinguishable from 0x02;
//   - RESET_STREAM_AT with Reliable Size 0 is RESET_STREAM (draft: logically equivalent).
func normRef(r refwire.Frame) refwire.Frame {
	r.Type, r.WireLen = 0, 0
	if len(r.Data) == 0 {
		r.Data = nil
	}
	if len(r.Token) == 0 {
		r.Token = nil
	}
	if len(r.ConnID) == 0 {
		r.ConnID = nil
	}
	if len(r.Reason) == 0 {
		r.Reason = nil
	}
	if len(r.AckRanges) == 0 {
		r.AckRanges = nil
	}
	switch r.Name {
	case refwire.NameStream:
		r.HasOff = r.Offset != 0
	case refwire.NameAck:
		r.HasECN = r.ECT0 > 0 || r.ECT1 > 0 || r.ECNCE > 0
	case refwire.NameResetStreamAt:
		if r.ReliableSize == 0 {
			r.Name = refwire.NameResetStream
		}
	case refwire.NameCrypto:
		r.HasOff, r.HasLen = true, true
	case refwire.NamePadding:
		r.PaddingLen = 0
	}
	return r
}

func eqRef(a, b refwire.Frame) bool { return reflect.DeepEqual(normRef(a), normRef(b)) }

// ackDelayRepresentable reports whether raw<<exp microseconds fits a time.Duration without the
// wrap-arounds the parser's arithmetic has for absurd peer values (then only "some non-negative
// duration" is required of it).
func ackDelayRepresentable(raw uint64, exp uint8) bool {
	return raw <= (1<<63-1)/1000>>exp
}

// ---- the parse loop of connection.handleFrames (connection.go:1789ff) ------------------------

type parsedFrame struct {
	f        wire.Frame
	typ      wire.FrameType
	consumed int // type (with preceding padding) + body
	bodyLen  int
	raw      []byte // the bytes of this frame incl. preceding padding
}

// parseAll mirrors Conn.handleFrames. It returns the frames parsed before the first error (or the
// clean end), whether an error stopped it, and a verdict for totality violations.
func parseAll(p *wire.FrameParser, data []byte, lvl protocol.EncryptionLevel, v protocol.Version) (out []parsedFrame, failed bool, perr error, verdict *vf.Verdict) {
	for len(data) > 0 {
		start := data
		typ, l, err := p.ParseType(data, lvl)
		if l < 0 || l > len(data) {
			return out, false, nil, bad("frames", "consumed-out-of-range", "ParseType reported %d bytes of %d", l, len(data))
		}
		if err != nil {
			if err == io.EOF {
				// only PADDING was left: everything must have been consumed
				if l != len(data) {
					return out, false, nil, bad("frames", "padding-eof", "io.EOF from ParseType with %d of %d bytes consumed", l, len(data))
				}
				return out, false, nil, nil
			}
			return out, true, err, nil
		}
		if l == 0 {
			return out, false, nil, bad("frames", "consumed-out-of-range", "ParseType consumed 0 bytes for type %#x", uint64(typ))
		}
		data = data[l:]
		var f wire.Frame
		var n int
		switch {
		case typ.IsStreamFrameType():
			var sf *wire.StreamFrame
			sf, n, err = p.ParseStreamFrame(typ, data, v)
			f = sf
		case typ.IsAckFrameType():
			var af *wire.AckFrame
			af, n, err = p.ParseAckFrame(typ, data, lvl, v)
			if err == nil {
				cp := *af // the parser reuses one AckFrame
				cp.AckRanges = slices.Clone(af.AckRanges)
				f = &cp
			}
		case typ.IsDatagramFrameType():
			var df *wire.DatagramFrame
			df, n, err = p.ParseDatagramFrame(typ, data, v)
			f = df
		default:
			f, n, err = p.ParseLessCommonFrame(typ, data, v)
		}
		if err != nil {
			return out, true, err, nil
		}
		if n < 0 || n > len(data) {
			return out, false, nil, bad("frames", "consumed-out-of-range", "frame type %#x: body parser reported %d bytes of %d", uint64(typ), n, len(data))
		}
		if f == nil || reflect.ValueOf(f).IsNil() {
			return out, false, nil, bad("frames", "nil-frame", "frame type %#x: nil frame without error", uint64(typ))
		}
		data = data[n:]
		out = append(out, parsedFrame{f: f, typ: typ, consumed: l + n, bodyLen: n, raw: start[:l+n]})
	}
	return out, false, nil, nil
}

// Level policy of a frame type.
const (
	polReject = iota
	polAccept
	polEither
)

// levelPolicy is the per-level allow-list the frames units use: RFC 9000 Table 3 as transcribed
// in refwire.AllowedIn, with three (type, level) pairs at which the RFC text lets a receiver go
// either way, all for 0-RTT packets:
//   - RETIRE_CONNECTION_ID and HANDSHAKE_DONE: RFC 9000 12.5 "A server MAY treat receipt of these
//     frames in 0-RTT packets as a connection error" (the implementation rejects the first in the
//     parser and the second in Conn.handleHandshakeDoneFrame, server side);
//   - CONNECTION_CLOSE 0x1c: Table 3 allows it, upstream quic-go's parser rejects it in 0-RTT (a
//     client giving up early sends it in Initial packets instead). See NOTES.md.
func levelPolicy(typ uint64, level int) int {
	if level == refwire.Level0RTT && (typ == refwire.TypeRetireConnectionID || typ == refwire.TypeConnectionClose || typ == refwire.TypeHandshakeDone) {
		return polEither
	}
	if refwire.AllowedIn(typ, level) {
		return polAccept
	}
	return polReject
}

func extensionEnabled(typ uint64, dg, rsa, af bool) bool {
	switch typ {
	case refwire.TypeDatagram, refwire.TypeDatagramLen:
		return dg
	case refwire.TypeResetStreamAt:
		return rsa
	case refwire.TypeAckFrequency, refwire.TypeImmediateAck:
		return af
	}
	return true
}

// refAcceptable: would a conforming RFC 9000 receiver with the given extensions process r?
func refAcceptable(r refwire.Frame, level int, dg, rsa, af bool, implAccepted bool) bool {
	if !extensionEnabled(r.Type, dg, rsa, af) {
		return false
	}
	switch levelPolicy(r.Type, level) {
	case polReject:
		return false
	case polEither:
		if !implAccepted {
			return false
		}
	}
	if r.Name == refwire.NameCrypto {
		// offset+length > 2^62-1 is rejected by the crypto stream (CRYPTO_BUFFER_EXCEEDED), which
		// RFC 9000 19.6 allows instead of FRAME_ENCODING_ERROR; not a parser rule.
		return true
	}
	return r.Check() == nil
}

// ---- unit frames-bytes --------------------------------------------------------------------

type FramesCase struct {
	Level int   `json:"level"`
	Dg    bool  `json:"dg"`
	Rsa   bool  `json:"rsa"`
	Af    bool  `json:"af"`
	Exp   uint8 `json:"exp"`
	V2    bool  `json:"v2"`
	Data  Hex   `json:"data"`
}

// genRefFrame draws a frame spec of any kind. With legal=true all values respect the RFC ranges
// and the encoder's preconditions; otherwise values are unconstrained 62-bit integers.
func genRefFrame(t *rapid.T, canBeLast bool, legal bool, maxData int) refwire.Frame {
	return genRefFrameOf(t, allFrameNames, canBeLast, legal, maxData)
}

var allFrameNames = []string{refwire.NamePing, refwire.NameAck, refwire.NameAck, refwire.NameResetStream, refwire.NameResetStreamAt,
	refwire.NameStopSending, refwire.NameCrypto, refwire.NameNewToken, refwire.NameStream, refwire.NameStream, refwire.NameMaxData,
	refwire.NameMaxStreamData, refwire.NameMaxStreams, refwire.NameDataBlocked, refwire.NameStreamDataBlocked, refwire.NameStreamsBlocked,
	refwire.NameNewConnectionID, refwire.NameRetireConnectionID, refwire.NamePathChallenge, refwire.NamePathResponse,
	refwire.NameConnectionClose, refwire.NameHandshakeDone, refwire.NameDatagram, refwire.NameImmediateAck, refwire.NameAckFrequency}

// namesFor lists the frame names a parser with the given configuration must accept at level.
func namesFor(level int, dg, rsa, af bool) []string {
	var out []string
	for _, n := range allFrameNames {
		typ := refwire.Frame{Name: n, HasLen: true}.WireType()
		if extensionEnabled(typ, dg, rsa, af) && levelPolicy(typ, level) == polAccept {
			out = append(out, n)
		}
	}
	return out
}

func genRefFrameOf(t *rapid.T, names []string, canBeLast bool, legal bool, maxData int) refwire.Frame {
	f := refwire.Frame{Name: rapid.SampledFrom(names).Draw(t, "frame")}
	vi := func(l string) uint64 { return genVarint(t, l) }
	switch f.Name {
	case refwire.NameAck:
		f.AckDelay = genVarintMax(t, "ackdelay", (1<<63-1)/8000)
		if !legal && rapid.IntRange(0, 5).Draw(t, "hugedelay") == 0 {
			f.AckDelay = vi("ackdelay2")
		}
		if rapid.Bool().Draw(t, "ecn") {
			f.HasECN = true
			f.ECT0, f.ECT1, f.ECNCE = vi("ect0"), vi("ect1"), vi("ce")
		}
		n := 1
		switch rapid.IntRange(0, 9).Draw(t, "nranges-mode") {
		case 0, 1, 2:
			n = 1
		case 3, 4, 5, 6:
			n = rapid.IntRange(2, 6).Draw(t, "nranges")
		case 7:
			n = rapid.IntRange(60, 70).Draw(t, "nranges")
		default:
			n = rapid.IntRange(2, 40).Draw(t, "nranges")
		}
		top := vi("largest")
		for i := 0; i < n; i++ {
			l := genVarintMax(t, "rlen", top)
			if i > 0 || rapid.Bool().Draw(t, "shortrange") {
				l = min(l, uint64(rapid.IntRange(0, 70).Draw(t, "rlen-small")))
			}
			f.AckRanges = append(f.AckRanges, refwire.AckRange{Smallest: top - l, Largest: top})
			if top-l < 2 {
				break
			}
			gap := genVarintMax(t, "gap", top-l-2)
			if rapid.IntRange(0, 3).Draw(t, "smallgap") != 0 {
				gap = min(gap, uint64(rapid.IntRange(0, 70).Draw(t, "gap-small")))
			}
			top = top - l - 2 - gap
		}
	case refwire.NameResetStream:
		f.StreamID, f.ErrorCode, f.FinalSize = vi("sid"), vi("ec"), vi("final")
	case refwire.NameResetStreamAt:
		f.StreamID, f.ErrorCode, f.FinalSize = vi("sid"), vi("ec"), vi("final")
		if legal {
			f.ReliableSize = genVarintMax(t, "reliable", f.FinalSize)
		} else {
			f.ReliableSize = vi("reliable")
		}
	case refwire.NameStopSending:
		f.StreamID, f.ErrorCode = vi("sid"), vi("ec")
	case refwire.NameCrypto:
		f.HasOff, f.HasLen = true, true
		n := genDataLen(t, "dlen", maxData)
		f.Data = genBytes(t, "data", n, n)
		f.Offset = genVarintMax(t, "off", refwire.MaxVarint-uint64(n))
	case refwire.NameNewToken:
		lo := 1
		if !legal {
			lo = 0
		}
		n := max(lo, genDataLen(t, "tlen", min(maxData, 300)))
		f.Token = genBytes(t, "token", n, n)
	case refwire.NameStream:
		f.StreamID = vi("sid")
		f.Fin = rapid.Bool().Draw(t, "fin")
		n := genDataLen(t, "dlen", maxData)
		if legal && n == 0 {
			f.Fin = true // the encoder refuses empty STREAM frames without FIN (stream_frame.go Append)
		}
		f.Data = genBytes(t, "data", n, n)
		f.HasLen = !canBeLast || rapid.Bool().Draw(t, "haslen")
		if rapid.Bool().Draw(t, "hasoff") {
			if legal {
				f.Offset = genVarintMax(t, "off", refwire.MaxVarint-uint64(n))
			} else {
				f.Offset = vi("off")
			}
			f.HasOff = f.Offset != 0 || !legal && rapid.Bool().Draw(t, "off0")
		}
	case refwire.NameMaxData, refwire.NameDataBlocked:
		f.Max = vi("max")
	case refwire.NameMaxStreamData, refwire.NameStreamDataBlocked:
		f.StreamID, f.Max = vi("sid"), vi("max")
	case refwire.NameMaxStreams, refwire.NameStreamsBlocked:
		f.Bidi = rapid.Bool().Draw(t, "bidi")
		if legal {
			f.Max = genVarintMax(t, "max", refwire.MaxStreams)
		} else {
			f.Max = vi("max")
		}
	case refwire.NameNewConnectionID:
		f.SeqNum = vi("seq")
		if legal {
			f.RetirePriorTo = genVarintMax(t, "rpt", f.SeqNum)
			f.ConnID = genBytes(t, "cid", 1, 20)
		} else {
			f.RetirePriorTo = vi("rpt")
			f.ConnID = genBytes(t, "cid", 0, 24)
		}
		copy(f.ResetToken[:], genBytes(t, "srt", 16, 16))
	case refwire.NameRetireConnectionID:
		f.SeqNum = vi("seq")
	case refwire.NamePathChallenge, refwire.NamePathResponse:
		copy(f.PathData[:], genBytes(t, "path", 8, 8))
	case refwire.NameConnectionClose:
		f.IsApp = rapid.Bool().Draw(t, "app")
		f.ErrorCode = vi("ec")
		if !f.IsApp {
			f.FrameType = vi("ft")
		}
		n := genDataLen(t, "rlen", min(maxData, 300))
		f.Reason = genBytes(t, "reason", n, n)
	case refwire.NameDatagram:
		n := genDataLen(t, "dlen", maxData)
		f.Data = genBytes(t, "data", n, n)
		f.HasLen = !canBeLast || rapid.Bool().Draw(t, "haslen")
	case refwire.NameAckFrequency:
		f.SeqNum, f.AckElicitingThreshold, f.ReorderingThreshold = vi("seq"), vi("aeth"), vi("reorder")
		f.RequestMaxAckDelay = genVarintMax(t, "rmad", (1<<63-1)/1000)
		if !legal && rapid.IntRange(0, 5).Draw(t, "hugermad") == 0 {
			f.RequestMaxAckDelay = vi("rmad2")
		}
	}
	f.Type = f.WireType()
	return f
}

// genPayload builds a valid packet payload with the independent encoder: 1..5 frames with
// optional PADDING runs in between.
func genPayload(t *rapid.T, names []string, legal bool) []byte {
	n := rapid.IntRange(1, 5).Draw(t, "nframes")
	var b []byte
	budget := maxInput - 64
	for i := 0; i < n; i++ {
		if rapid.IntRange(0, 5).Draw(t, "pad") == 0 {
			b = refwire.Frame{Name: refwire.NamePadding, PaddingLen: rapid.IntRange(1, 4).Draw(t, "padlen")}.Append(b)
		}
		f := genRefFrameOf(t, names, i == n-1, legal, max(0, min(budget-len(b)-40, 1300)))
		if f.Name == refwire.NameConnectionClose && f.IsApp && len(names) < 8 {
			f.IsApp, f.Type = false, refwire.TypeConnectionClose // Initial/Handshake: only 0x1c
		}
		nb := f.Append(b)
		if len(nb) > maxInput {
			break
		}
		b = nb
	}
	return b
}

func genFramesCase(t *rapid.T) FramesCase {
	c := FramesCase{
		Level: rapid.SampledFrom([]int{0, 1, 2, 3, 3, 3, 3}).Draw(t, "level"),
		Dg:    rapid.IntRange(0, 3).Draw(t, "dg") != 0,
		Rsa:   rapid.IntRange(0, 3).Draw(t, "rsa") != 0,
		Af:    rapid.IntRange(0, 3).Draw(t, "af") != 0,
		V2:    rapid.Bool().Draw(t, "v2"),
	}
	c.Exp = uint8(rapid.SampledFrom([]int{3, 3, 3, 0, 1, 10, 20, -1}).Draw(t, "exp") & 0xff)
	if c.Exp == 0xff {
		c.Exp = uint8(rapid.IntRange(0, 20).Draw(t, "exp-any"))
	}
	names := allFrameNames
	if rapid.IntRange(0, 3).Draw(t, "fit-level") != 0 {
		names = namesFor(c.Level, c.Dg, c.Rsa, c.Af)
	}
	c.Data = mutated(t, func(t *rapid.T) []byte { return genPayload(t, names, rapid.IntRange(0, 3).Draw(t, "legal") != 0) }, maxInput)
	return c
}

func version(v2 bool) protocol.Version {
	if v2 {
		return protocol.Version2
	}
	return protocol.Version1
}

// checkReencode: f parsed successfully -> Append succeeds, Length() is the encoded size, the
// encoding re-parses (1-RTT, all extensions, encoder exponent) to an equal frame consuming all of
// it, and encoding that again is byte-identical.
func checkReencode(f wire.Frame, v protocol.Version, u *vf.Unit) *vf.Verdict {
	if sf, ok := f.(*wire.StreamFrame); ok && sf.DataLen() == 0 && !sf.Fin {
		// Empty STREAM frames without FIN are accepted (RFC 9000 19.8 permits them) but never
		// written: the encoder must refuse rather than emit something else.
		if _, err := sf.Append(nil, v); err == nil {
			return bad("frames", "empty-stream-written", "Append wrote an empty STREAM frame without FIN")
		}
		u.Class("norm:empty-stream-not-rewritten")
		return nil
	}
	b, err := f.Append(nil, v)
	if err != nil {
		return bad("frames", "reencode-error", "%T parsed but Append failed: %v (%+v)", f, err, f)
	}
	if got := f.Length(v); int(got) != len(b) {
		return bad("frames", "length-mismatch", "%T: Length()=%d but Append wrote %d bytes: %x", f, got, len(b), clip(b, 64))
	}
	p := wire.NewFrameParser(true, true, true)
	p.SetAckDelayExponent(encoderAckDelayExponent)
	fs, failed, perr, vd := parseAll(p, b, protocol.Encryption1RTT, v)
	if vd != nil {
		return vd
	}
	if failed || len(fs) != 1 {
		return bad("frames", "reparse-failed", "%T: own encoding %x does not re-parse to one frame: %v (%d frames)", f, clip(b, 64), perr, len(fs))
	}
	if fs[0].consumed != len(b) {
		return bad("frames", "reparse-consumed", "%T: re-parse consumed %d of %d bytes", f, fs[0].consumed, len(b))
	}
	want, got := toRef(f, encoderAckDelayExponent), toRef(fs[0].f, encoderAckDelayExponent)
	if af, ok := f.(*wire.AckFrame); ok && len(af.AckRanges) > protocol.MaxNumAckRanges {
		want.AckRanges = want.AckRanges[:protocol.MaxNumAckRanges] // documented cap on encode (ack_frame.go Append)
		u.Class("norm:ack-range-cap")
	}
	if !eqRef(want, got) {
		return bad("frames", "reparse-differs", "%T: parse(encode(x)) != x:\n x=%+v\n got=%+v\n enc=%x", f, normRef(want), normRef(got), clip(b, 64))
	}
	b2, err := fs[0].f.Append(nil, v)
	if err != nil || !bytes.Equal(b, b2) {
		return bad("frames", "reencode-unstable", "%T: encode(parse(encode(x))) differs: %x vs %x (%v)", f, clip(b, 64), clip(b2, 64), err)
	}
	return nil
}

func putBack(fs []parsedFrame) {
	for _, pf := range fs {
		if sf, ok := pf.f.(*wire.StreamFrame); ok {
			sf.PutBack()
		}
	}
}

func checkFramesBytes(c FramesCase, u *vf.Unit) *vf.Verdict {
	if len(c.Data) > maxInput || c.Level < 0 || c.Level > 3 || c.Exp > 20 {
		return nil
	}
	v := version(c.V2)
	p := wire.NewFrameParser(c.Dg, c.Rsa, c.Af)
	p.SetAckDelayExponent(c.Exp)
	lvl := levels[c.Level]
	orig := append([]byte(nil), c.Data...)
	var fs []parsedFrame
	var failed bool
	var perr error
	if vd := guardPanic("frames", func() *vf.Verdict {
		var vd *vf.Verdict
		fs, failed, perr, vd = parseAll(p, c.Data, lvl, v)
		return vd
	}); vd != nil {
		return vd
	}
	defer putBack(fs)
	if !bytes.Equal(orig, c.Data) {
		return bad("frames", "input-modified", "the parser wrote into its input")
	}
	if failed {
		if _, ok := perr.(*qerr.TransportError); !ok {
			return bad("frames", "error-type", "parser error is %T (%v), handleFrames closes the connection with it and expects a *qerr.TransportError", perr, perr)
		}
	}
	// the independent reading
	ref, refErr := refwire.ParseFrames(c.Data)
	exp := c.Exp
	if lvl != protocol.Encryption1RTT {
		exp = protocol.DefaultAckDelayExponent // RFC 9000 13.2.5 / frame_parser.go ParseAckFrame
	}
	nRef, refFailed := 0, refErr != nil
	var refFrames []refwire.Frame
	for _, r := range ref {
		if r.Name == refwire.NamePadding {
			continue
		}
		if !refAcceptable(r, c.Level, c.Dg, c.Rsa, c.Af, nRef < len(fs)) {
			refFailed = true
			break
		}
		refFrames = append(refFrames, r)
		nRef++
	}
	// field-by-field agreement on the common prefix
	for i := 0; i < min(len(fs), nRef); i++ {
		r := refFrames[i]
		w := toRef(fs[i].f, exp)
		if r.Name == refwire.NameAck && !ackDelayRepresentable(r.AckDelay, exp) {
			if fs[i].f.(*wire.AckFrame).DelayTime < 0 {
				return bad("frames", "negative-ack-delay", "ACK delay %d<<%d parsed to %v", r.AckDelay, exp, fs[i].f.(*wire.AckFrame).DelayTime)
			}
			w.AckDelay = r.AckDelay
			u.Class("norm:ack-delay-overflow")
		}
		if r.Name == refwire.NameAckFrequency && r.RequestMaxAckDelay > (1<<63-1)/1000 {
			if fs[i].f.(*wire.AckFrequencyFrame).RequestMaxAckDelay < 0 {
				return bad("frames", "negative-ack-delay", "ACK_FREQUENCY max ack delay %d parsed negative", r.RequestMaxAckDelay)
			}
			w.RequestMaxAckDelay = r.RequestMaxAckDelay
			u.Class("norm:ack-delay-overflow")
		}
		if !eqRef(w, r) {
			return bad("frames", "refwire-disagrees", "frame %d: implementation and independent reader disagree\n impl=%+v\n ref =%+v\n bytes=%x", i, normRef(w), normRef(r), clip(fs[i].raw, 80))
		}
		if uint64(fs[i].typ) != r.Type {
			return bad("frames", "refwire-disagrees", "frame %d: type %#x vs %#x", i, uint64(fs[i].typ), r.Type)
		}
	}
	if len(fs) != nRef || failed != refFailed {
		which := "accepts-invalid"
		if len(fs) < nRef || failed && !refFailed {
			which = "rejects-valid"
		}
		return bad("frames", which, "level=%s dg=%v rsa=%v af=%v: implementation parsed %d frames (error: %v), RFC reading gives %d acceptable frames (error: %v / %v)\n bytes=%x",
			levelNames[c.Level], c.Dg, c.Rsa, c.Af, len(fs), perr, nRef, refFailed, refErr, clip(c.Data, 96))
	}
	// consumed bytes: the frames tile the input up to the failure point / the end
	total := 0
	for _, pf := range fs {
		total += pf.consumed
	}
	if !failed {
		rest := c.Data[total:]
		for _, x := range rest { // only trailing PADDING may remain unaccounted
			if x != 0 {
				// could be a non-minimal PADDING type encoding; let refwire decide
				if rf, err := refwire.ParseFrames(rest); err != nil || len(rf) == 0 || !allPadding(rf) {
					return bad("frames", "consumed-mismatch", "clean end but %d unconsumed non-padding bytes", len(rest))
				}
				break
			}
		}
	}
	// re-encode legs
	for _, pf := range fs {
		if vd := guardPanic("frames-reencode", func() *vf.Verdict { return checkReencode(pf.f, v, u) }); vd != nil {
			return vd
		}
		// the encoder writes minimal varints: it never needs more bytes than were parsed, except
		// for the ACK delay when the peer's exponent differs from ours
		if _, isAck := pf.f.(*wire.AckFrame); !isAck || exp == encoderAckDelayExponent {
			if sf, ok := pf.f.(*wire.StreamFrame); !ok || sf.DataLen() > 0 || sf.Fin {
				if int(pf.f.Length(v)) > pf.consumed {
					return bad("frames", "length-mismatch", "%T: Length()=%d exceeds the %d bytes it was parsed from", pf.f, pf.f.Length(v), pf.consumed)
				}
			}
		}
		u.Class("kind:" + toRef(pf.f, 3).Name)
	}
	u.Class("level:" + levelNames[c.Level])
	switch {
	case len(fs) > 0 && failed:
		u.Class("parsed-then-rejected")
		u.NonTrivial(c.Level, c.Dg, c.Rsa, c.Af, []byte(c.Data))
	case len(fs) > 0:
		u.Class("parsed-all")
		u.NonTrivial(c.Level, c.Dg, c.Rsa, c.Af, []byte(c.Data))
	case failed:
		u.Class("rejected-first")
	default:
		u.Class("empty-or-padding")
	}
	if u.WantSample() && len(fs) > 1 {
		u.Sample(c)
	}
	return nil
}

func allPadding(fs []refwire.Frame) bool {
	for _, f := range fs {
		if f.Name != refwire.NamePadding {
			return false
		}
	}
	return true
}

func TestFramesBytes(t *testing.T) {
	vf.RunRapid(t, "frames-bytes", genFramesCase, checkFramesBytes)
}

// ---- unit frames-struct -------------------------------------------------------------------

type FrameStructCase struct {
	Specs []refwire.Frame `json:"specs"`
	V2    bool            `json:"v2"`
	// NoiseNs is added to every ACK DelayTime: the encoder truncates to its 8 us unit.
	NoiseNs int64 `json:"noise_ns"`
}

func genFrameStructCase(t *rapid.T) FrameStructCase {
	n := rapid.IntRange(1, 4).Draw(t, "n")
	c := FrameStructCase{V2: rapid.Bool().Draw(t, "v2"), NoiseNs: rapid.SampledFrom([]int64{0, 0, 1, 999, 1000, 4000, 7999}).Draw(t, "noise")}
	budget := maxInput - 64
	for i := 0; i < n; i++ {
		f := genRefFrame(t, i == n-1, true, max(0, min(budget-40, 1300)))
		l := len(f.Append(nil))
		if l > budget {
			break
		}
		budget -= l
		c.Specs = append(c.Specs, f)
	}
	if len(c.Specs) == 0 {
		c.Specs = []refwire.Frame{{Name: refwire.NamePing, Type: 1}}
	}
	// only the last frame may omit its length
	for i := range c.Specs[:len(c.Specs)-1] {
		if c.Specs[i].Name == refwire.NameStream || c.Specs[i].Name == refwire.NameDatagram {
			c.Specs[i].HasLen = true
		}
	}
	return c
}

func checkFramesStruct(c FrameStructCase, u *vf.Unit) *vf.Verdict {
	v := version(c.V2)
	var payload []byte
	var want []refwire.Frame
	build := func(spec refwire.Frame) wire.Frame {
		w := fromRef(spec)
		if af, ok := w.(*wire.AckFrame); ok && af.DelayTime <= (1<<63-1)-8000 {
			af.DelayTime += time.Duration(c.NoiseNs)
		}
		return w
	}
	for i, spec := range c.Specs {
		w := build(spec)
		b, err := w.Append(nil, v)
		if err != nil {
			return bad("frames", "encode-error", "spec %d %+v: Append failed: %v", i, spec, err)
		}
		if int(w.Length(v)) != len(b) {
			return bad("frames", "length-mismatch", "%s: Length()=%d but Append wrote %d bytes (%+v)", spec.Name, w.Length(v), len(b), normRef(spec))
		}
		// Append must append (not overwrite a prefix)
		pre := []byte{0xde, 0xad}
		b2, _ := build(spec).Append(pre, v)
		if !bytes.Equal(b2[:2], pre) || !bytes.Equal(b2[2:], b) {
			return bad("frames", "append-prefix", "%s: Append(prefix) != prefix+Append(nil)", spec.Name)
		}
		exp := spec
		if spec.Name == refwire.NameAck && len(spec.AckRanges) > protocol.MaxNumAckRanges {
			exp.AckRanges = spec.AckRanges[:protocol.MaxNumAckRanges]
			u.Class("norm:ack-range-cap")
		}
		// independent reader on the single frame
		r, n, err := refwire.ParseFrame(b)
		if err != nil || n != len(b) {
			return bad("frames", "refwire-disagrees", "%s: independent reader cannot read the encoding %x: %v (consumed %d of %d)", spec.Name, clip(b, 80), err, n, len(b))
		}
		if !eqRef(r, exp) {
			return bad("frames", "refwire-disagrees", "%s: encoder output read by the independent reader differs from the value encoded\n spec=%+v\n read=%+v\n enc=%x", spec.Name, normRef(exp), normRef(r), clip(b, 80))
		}
		if r.Check() != nil {
			return bad("frames", "refwire-disagrees", "%s: encoder produced an RFC-invalid frame: %v", spec.Name, r.Check())
		}
		payload = append(payload, b...)
		want = append(want, exp)
		u.Class("kind:" + normRef(spec).Name)
		for _, x := range []uint64{spec.StreamID, spec.Offset, spec.Max, spec.ErrorCode, spec.FinalSize, spec.SeqNum, uint64(len(spec.Data))} {
			u.Class(fmt.Sprintf("width:%d", refwire.VarintLen(x)))
		}
	}
	p := wire.NewFrameParser(true, true, true)
	p.SetAckDelayExponent(encoderAckDelayExponent)
	fs, failed, perr, vd := parseAll(p, payload, protocol.Encryption1RTT, v)
	if vd != nil {
		return vd
	}
	defer putBack(fs)
	if failed || len(fs) != len(want) {
		return bad("frames", "roundtrip-rejected", "own encoding of %d frames parsed to %d frames, error %v\n payload=%x", len(want), len(fs), perr, clip(payload, 96))
	}
	total := 0
	for i, pf := range fs {
		got := toRef(pf.f, encoderAckDelayExponent)
		if !eqRef(got, want[i]) {
			return bad("frames", "roundtrip-differs", "%s: parse(encode(x)) != x\n x  =%+v\n got=%+v\n enc=%x", want[i].Name, normRef(want[i]), normRef(got), clip(pf.raw, 80))
		}
		total += pf.consumed
		if pf.consumed != int(fromRef(c.Specs[i]).Length(v)) {
			return bad("frames", "consumed-mismatch", "%s: parser consumed %d bytes, Length() predicted %d", want[i].Name, pf.consumed, fromRef(c.Specs[i]).Length(v))
		}
	}
	if total != len(payload) {
		return bad("frames", "consumed-mismatch", "frames consumed %d of %d bytes", total, len(payload))
	}
	u.NonTrivial(payload)
	if u.WantSample() {
		u.Sample(c)
	}
	return nil
}

func TestFramesStruct(t *testing.T) {
	vf.RunRapid(t, "frames-struct", genFrameStructCase, checkFramesStruct)
}
