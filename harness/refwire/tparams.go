package refwire

import (
	"errors"
	"fmt"
)

// TransportParameter is one (id, value) pair of the quic_transport_parameters extension body
// (RFC 9000 section 18).
type TransportParameter struct {
	ID    uint64
	Value []byte
}

// Transport parameter IDs (RFC 9000 section 18.2 and extensions).
const (
	TPOriginalDestinationConnectionID = 0x00
	TPMaxIdleTimeout                  = 0x01
	TPStatelessResetToken             = 0x02
	TPMaxUDPPayloadSize               = 0x03
	TPInitialMaxData                  = 0x04
	TPInitialMaxStreamDataBidiLocal   = 0x05
	TPInitialMaxStreamDataBidiRemote  = 0x06
	TPInitialMaxStreamDataUni         = 0x07
	TPInitialMaxStreamsBidi           = 0x08
	TPInitialMaxStreamsUni            = 0x09
	TPAckDelayExponent                = 0x0a
	TPMaxAckDelay                     = 0x0b
	TPDisableActiveMigration          = 0x0c
	TPPreferredAddress                = 0x0d
	TPActiveConnectionIDLimit         = 0x0e
	TPInitialSourceConnectionID       = 0x0f
	TPRetrySourceConnectionID         = 0x10
	TPVersionInformation              = 0x11   // RFC 9368
	TPMaxDatagramFrameSize            = 0x20   // RFC 9221
	TPGreaseQUICBit                   = 0x2ab2 // RFC 9287
	TPMinAckDelay                     = 0xff04de1b
	TPResetStreamAt                   = 0x17f7586d2cb571
)

// ParseTransportParameters reads the TLV sequence in wire order. Values are raw and alias b;
// duplicates and unknown IDs are preserved. The only errors are structural.
func ParseTransportParameters(b []byte) ([]TransportParameter, error) {
	r := &reader{b: b}
	var out []TransportParameter
	for r.left() > 0 {
		id, err := r.varint()
		if err != nil {
			return out, fmt.Errorf("parameter id: %w", err)
		}
		l, err := r.varint()
		if err != nil {
			return out, fmt.Errorf("parameter 0x%x length: %w", id, err)
		}
		v, err := r.bytes(l)
		if err != nil {
			return out, fmt.Errorf("parameter 0x%x value: %w", id, err)
		}
		out = append(out, TransportParameter{ID: id, Value: v})
	}
	return out, nil
}

// AppendTransportParameters appends the parameters in the given order with minimal varints.
func AppendTransportParameters(b []byte, ps []TransportParameter) []byte {
	for _, p := range ps {
		b = AppendVarint(b, p.ID)
		b = AppendVarint(b, uint64(len(p.Value)))
		b = append(b, p.Value...)
	}
	return b
}

// VarintParam builds an integer-valued parameter (minimal varint value).
func VarintParam(id, v uint64) TransportParameter {
	return TransportParameter{ID: id, Value: AppendVarint(nil, v)}
}

// IsGREASETransportParameter reports whether id is a reserved identifier of the form
// 31*N+27 (RFC 9000 section 18.1).
func IsGREASETransportParameter(id uint64) bool { return id >= 27 && (id-27)%31 == 0 }

// TPVarint decodes the value of an integer-valued parameter: exactly one varint filling the
// whole value.
func TPVarint(value []byte) (uint64, error) {
	v, n, err := ReadVarint(value)
	if err != nil {
		return 0, err
	}
	if n != len(value) {
		return 0, fmt.Errorf("refwire: %d trailing bytes after varint value", len(value)-n)
	}
	return v, nil
}

// IsVarintTransportParameter reports whether RFC 9000 (or the extension) defines the value of
// id as a single variable-length integer.
func IsVarintTransportParameter(id uint64) bool {
	switch id {
	case TPMaxIdleTimeout, TPMaxUDPPayloadSize, TPInitialMaxData, TPInitialMaxStreamDataBidiLocal,
		TPInitialMaxStreamDataBidiRemote, TPInitialMaxStreamDataUni, TPInitialMaxStreamsBidi,
		TPInitialMaxStreamsUni, TPAckDelayExponent, TPMaxAckDelay, TPActiveConnectionIDLimit,
		TPMaxDatagramFrameSize, TPMinAckDelay:
		return true
	}
	return false
}

// IsServerOnlyTransportParameter lists the parameters a client MUST NOT send (RFC 9000
// section 18.2: original_destination_connection_id, preferred_address,
// retry_source_connection_id, stateless_reset_token).
func IsServerOnlyTransportParameter(id uint64) bool {
	switch id {
	case TPOriginalDestinationConnectionID, TPPreferredAddress, TPRetrySourceConnectionID, TPStatelessResetToken:
		return true
	}
	return false
}

// PreferredAddress is the decoded preferred_address value (RFC 9000 Figure 22).
type PreferredAddress struct {
	IPv4       [4]byte
	IPv4Port   uint16
	IPv6       [16]byte
	IPv6Port   uint16
	ConnID     []byte
	ResetToken [16]byte
}

// ParsePreferredAddress decodes a preferred_address value; the value must be consumed exactly.
func ParsePreferredAddress(v []byte) (PreferredAddress, error) {
	var p PreferredAddress
	r := &reader{b: v}
	a4, err := r.bytes(4)
	if err != nil {
		return p, err
	}
	copy(p.IPv4[:], a4)
	pt, err := r.bytes(2)
	if err != nil {
		return p, err
	}
	p.IPv4Port = uint16(pt[0])<<8 | uint16(pt[1])
	a6, err := r.bytes(16)
	if err != nil {
		return p, err
	}
	copy(p.IPv6[:], a6)
	if pt, err = r.bytes(2); err != nil {
		return p, err
	}
	p.IPv6Port = uint16(pt[0])<<8 | uint16(pt[1])
	l, err := r.byte()
	if err != nil {
		return p, err
	}
	if p.ConnID, err = r.bytes(uint64(l)); err != nil {
		return p, err
	}
	tok, err := r.bytes(16)
	if err != nil {
		return p, err
	}
	copy(p.ResetToken[:], tok)
	if r.left() != 0 {
		return p, errors.New("refwire: trailing bytes in preferred_address")
	}
	return p, nil
}

// Append encodes a preferred_address value.
func (p PreferredAddress) Append(b []byte) []byte {
	b = append(b, p.IPv4[:]...)
	b = append(b, byte(p.IPv4Port>>8), byte(p.IPv4Port))
	b = append(b, p.IPv6[:]...)
	b = append(b, byte(p.IPv6Port>>8), byte(p.IPv6Port))
	b = append(b, byte(len(p.ConnID)))
	b = append(b, p.ConnID...)
	return append(b, p.ResetToken[:]...)
}

// ParseVersionInformation decodes a version_information value (RFC 9368 section 3): Chosen
// Version followed by zero or more Available Versions, 32 bits each.
func ParseVersionInformation(v []byte) (chosen uint32, available []uint32, err error) {
	if len(v) < 4 || len(v)%4 != 0 {
		return 0, nil, errors.New("refwire: malformed version_information")
	}
	r := &reader{b: v}
	chosen, _ = r.uint32()
	for r.left() > 0 {
		x, _ := r.uint32()
		available = append(available, x)
	}
	return chosen, available, nil
}

// AppendVersionInformation encodes a version_information value.
func AppendVersionInformation(b []byte, chosen uint32, available []uint32) []byte {
	for _, v := range append([]uint32{chosen}, available...) {
		b = append(b, byte(v>>24), byte(v>>16), byte(v>>8), byte(v))
	}
	return b
}

// CheckTransportParameters reports the first RFC 9000 section 7.4 / 18.2 rule the list breaks
// when sent by a client (fromClient) or a server, or nil:
// duplicate IDs; integer-valued parameter that is not exactly one varint; server-only parameter
// sent by a client; stateless_reset_token not 16 bytes; disable_active_migration (and
// grease_quic_bit) with a non-empty value; max_udp_payload_size < 1200; ack_delay_exponent > 20;
// max_ack_delay >= 2^14; active_connection_id_limit < 2; initial_max_streams_* > 2^60;
// connection ID parameters longer than 20 bytes; malformed preferred_address (including a
// zero-length or over-long connection ID) or version_information.
func CheckTransportParameters(ps []TransportParameter, fromClient bool) error {
	seen := map[uint64]bool{}
	for _, p := range ps {
		if seen[p.ID] {
			return fmt.Errorf("duplicate transport parameter 0x%x", p.ID)
		}
		seen[p.ID] = true
		if fromClient && IsServerOnlyTransportParameter(p.ID) {
			return fmt.Errorf("client sent server-only transport parameter 0x%x", p.ID)
		}
		if IsVarintTransportParameter(p.ID) {
			v, err := TPVarint(p.Value)
			if err != nil {
				return fmt.Errorf("transport parameter 0x%x: %w", p.ID, err)
			}
			switch p.ID {
			case TPMaxUDPPayloadSize:
				if v < 1200 {
					return fmt.Errorf("max_udp_payload_size %d < 1200", v)
				}
			case TPAckDelayExponent:
				if v > 20 {
					return fmt.Errorf("ack_delay_exponent %d > 20", v)
				}
			case TPMaxAckDelay:
				if v >= 1<<14 {
					return fmt.Errorf("max_ack_delay %d >= 2^14", v)
				}
			case TPActiveConnectionIDLimit:
				if v < 2 {
					return fmt.Errorf("active_connection_id_limit %d < 2", v)
				}
			case TPInitialMaxStreamsBidi, TPInitialMaxStreamsUni:
				if v > MaxStreams {
					return fmt.Errorf("initial_max_streams %d > 2^60", v)
				}
			}
			continue
		}
		switch p.ID {
		case TPStatelessResetToken:
			if len(p.Value) != 16 {
				return fmt.Errorf("stateless_reset_token of %d bytes", len(p.Value))
			}
		case TPDisableActiveMigration, TPGreaseQUICBit:
			if len(p.Value) != 0 {
				return fmt.Errorf("transport parameter 0x%x must be empty", p.ID)
			}
		case TPOriginalDestinationConnectionID, TPInitialSourceConnectionID, TPRetrySourceConnectionID:
			if len(p.Value) > MaxConnIDLen {
				return fmt.Errorf("connection ID parameter 0x%x of %d bytes", p.ID, len(p.Value))
			}
		case TPPreferredAddress:
			pa, err := ParsePreferredAddress(p.Value)
			if err != nil {
				return fmt.Errorf("preferred_address: %w", err)
			}
			if len(pa.ConnID) < 1 || len(pa.ConnID) > MaxConnIDLen {
				return fmt.Errorf("preferred_address: connection ID of %d bytes", len(pa.ConnID))
			}
		case TPVersionInformation:
			if _, _, err := ParseVersionInformation(p.Value); err != nil {
				return err
			}
		}
	}
	return nil
}
