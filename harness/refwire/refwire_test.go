package refwire

import (
	"bytes"
	"encoding/hex"
	"math/rand"
	"reflect"
	"testing"
)

func unhex(t *testing.T, s string) []byte {
	t.Helper()
	b, err := hex.DecodeString(s)
	if err != nil {
		t.Fatal(err)
	}
	return b
}

// RFC 9000 Appendix A.1 sample decodings.
func TestVarintRFCExamples(t *testing.T) {
	for _, c := range []struct {
		hex string
		v   uint64
	}{
		{"c2197c5eff14e88c", 151288809941952652},
		{"9d7f3e7d", 494878333},
		{"7bbd", 15293},
		{"25", 37},
		{"4025", 37},
	} {
		b := unhex(t, c.hex)
		v, n, err := ReadVarint(append(b, 0xff))
		if err != nil || v != c.v || n != len(b) {
			t.Fatalf("%s: got %d,%d,%v", c.hex, v, n, err)
		}
		if c.hex != "4025" && !bytes.Equal(AppendVarint(nil, c.v), b) {
			t.Fatalf("%s: encode mismatch %x", c.hex, AppendVarint(nil, c.v))
		}
	}
	if !bytes.Equal(AppendVarintLen(nil, 37, 2), []byte{0x40, 0x25}) {
		t.Fatal("non-minimal encoding")
	}
	if _, _, err := ReadVarint([]byte{0xc0, 1, 2}); err == nil {
		t.Fatal("truncated varint accepted")
	}
	if _, _, err := ReadVarint(nil); err == nil {
		t.Fatal("empty varint accepted")
	}
}

func TestVarintBoundaries(t *testing.T) {
	for _, c := range []struct {
		v uint64
		n int
	}{{0, 1}, {63, 1}, {64, 2}, {16383, 2}, {16384, 4}, {1<<30 - 1, 4}, {1 << 30, 8}, {MaxVarint, 8}} {
		if VarintLen(c.v) != c.n {
			t.Fatalf("VarintLen(%d)=%d", c.v, VarintLen(c.v))
		}
		for _, l := range []int{1, 2, 4, 8} {
			if l < c.n {
				continue
			}
			b := AppendVarintLen([]byte{0xaa}, c.v, l)
			v, n, err := ReadVarint(b[1:])
			if err != nil || v != c.v || n != l || len(b) != 1+l {
				t.Fatalf("v=%d l=%d: %d %d %v", c.v, l, v, n, err)
			}
		}
	}
	// exhaustive 1- and 2-byte encodings
	for i := 0; i < 1<<16; i++ {
		b := []byte{byte(i >> 8), byte(i)}
		v, n, err := ReadVarint(b)
		switch b[0] >> 6 {
		case 0:
			if err != nil || n != 1 || v != uint64(b[0]) {
				t.Fatalf("%x", b)
			}
		case 1:
			if err != nil || n != 2 || v != uint64(i&0x3fff) {
				t.Fatalf("%x", b)
			}
		default:
			if err == nil {
				t.Fatalf("%x accepted", b)
			}
		}
	}
}

// RFC 9001 Appendix A.2-A.4 and RFC 9369 Appendix A.2-A.4 headers (unprotected).
func TestLongHeaderRFCExamples(t *testing.T) {
	dcid := unhex(t, "8394c8f03e515708")
	scid := unhex(t, "f067a5502a4262b5")
	for _, c := range []struct {
		name, hex string
		kind      int
		ver       uint32
		dcid      []byte
		scid      []byte
		length    uint64
		pnLen     int
		pn        uint64
	}{
		{"v1 client initial", "c300000001088394c8f03e5157080000449e00000002", LongInitial, Version1, dcid, nil, 1182, 4, 2},
		{"v1 server initial", "c1000000010008f067a5502a4262b50040750001", LongInitial, Version1, nil, scid, 117, 2, 1},
		{"v2 client initial", "d36b3343cf088394c8f03e5157080000449e00000002", LongInitial, Version2, dcid, nil, 1182, 4, 2},
		{"v2 server initial", "d16b3343cf0008f067a5502a4262b50040750001", LongInitial, Version2, nil, scid, 117, 2, 1},
	} {
		b := unhex(t, c.hex)
		h, err := ParseLongHeader(b)
		if err != nil {
			t.Fatalf("%s: %v", c.name, err)
		}
		if h.Kind != c.kind || h.Version != c.ver || !bytes.Equal(h.DCID, c.dcid) || !bytes.Equal(h.SCID, c.scid) ||
			h.Length != c.length || len(h.Token) != 0 || h.PNOffset != len(b)-c.pnLen || h.HeaderLen != h.PNOffset {
			t.Fatalf("%s: %+v", c.name, h)
		}
		if int(h.FirstByte&3)+1 != c.pnLen {
			t.Fatalf("%s: pn len", c.name)
		}
		if err := h.Check(h.PNOffset + int(h.Length)); err != nil {
			t.Fatalf("%s: %v", c.name, err)
		}
		// the RFC examples write Length with 2 bytes, which is minimal for these values
		out := AppendLongHeader(nil, LongHeader{Kind: c.kind, Version: c.ver, DCID: c.dcid, SCID: c.scid, Length: c.length}, c.pn, c.pnLen)
		if !bytes.Equal(out, b) {
			t.Fatalf("%s: re-encode %x", c.name, out)
		}
	}
	for _, c := range []struct {
		hex string
		ver uint32
		tag string
	}{
		{"ff000000010008f067a5502a4262b5746f6b656e04a265ba2eff4d829058fb3f0f2496ba", Version1, "04a265ba2eff4d829058fb3f0f2496ba"},
		{"cf6b3343cf0008f067a5502a4262b5746f6b656ec8646ce8bfe33952d955543665dcc7b6", Version2, "c8646ce8bfe33952d955543665dcc7b6"},
	} {
		b := unhex(t, c.hex)
		h, err := ParseLongHeader(b)
		if err != nil {
			t.Fatal(err)
		}
		if h.Kind != LongRetry || h.Version != c.ver || len(h.DCID) != 0 || !bytes.Equal(h.SCID, scid) ||
			string(h.RetryToken) != "token" || !bytes.Equal(h.RetryTag[:], unhex(t, c.tag)) || h.HeaderLen != 15 {
			t.Fatalf("retry: %+v", h)
		}
		out := AppendLongHeader(nil, h, 0, 0)
		if !bytes.Equal(out, b) {
			t.Fatalf("retry re-encode %x", out)
		}
	}
	if _, err := ParseLongHeader(unhex(t, "c30000000108")); err == nil {
		t.Fatal("truncated header accepted")
	}
	if _, err := ParseLongHeader(unhex(t, "4300000001")); err == nil {
		t.Fatal("short header accepted as long")
	}
	h, err := ParseLongHeader(unhex(t, "8300000001150102030405060708090a0b0c0d0e0f101112131415000001"))
	if err != nil || h.Check(-1) == nil {
		t.Fatalf("21-byte DCID and cleared fixed bit must parse structurally and fail Check: %v", err)
	}
}

func TestLongHeaderRoundTrip(t *testing.T) {
	rnd := rand.New(rand.NewSource(1))
	for i := 0; i < 5000; i++ {
		h := LongHeader{Kind: rnd.Intn(4), Version: []uint32{Version1, Version2, 0xff00001d}[rnd.Intn(3)]}
		h.DCID = randBytes(rnd, rnd.Intn(21))
		h.SCID = randBytes(rnd, rnd.Intn(21))
		pnLen := 1 + rnd.Intn(4)
		pn := rnd.Uint64() & (1<<(8*uint(pnLen)) - 1)
		if h.Kind == LongInitial {
			h.Token = randBytes(rnd, rnd.Intn(80))
		}
		if h.Kind == LongRetry {
			h.RetryToken = randBytes(rnd, rnd.Intn(80))
			rnd.Read(h.RetryTag[:])
		} else {
			h.Length = boundary(rnd)
		}
		b := AppendLongHeader(nil, h, pn, pnLen)
		g, err := ParseLongHeader(b)
		if err != nil {
			t.Fatalf("%+v: %v", h, err)
		}
		if g.Kind != h.Kind || g.Version != h.Version || !bytes.Equal(g.DCID, h.DCID) || !bytes.Equal(g.SCID, h.SCID) ||
			!bytes.Equal(g.Token, h.Token) || g.Length != h.Length || !bytes.Equal(g.RetryToken, h.RetryToken) || g.RetryTag != h.RetryTag {
			t.Fatalf("mismatch\n%+v\n%+v", h, g)
		}
		if h.Kind != LongRetry {
			if g.PNOffset != len(b)-pnLen || int(g.FirstByte&3)+1 != pnLen {
				t.Fatalf("pn offset %d len %d", g.PNOffset, len(b))
			}
			var got uint64
			for _, c := range b[g.PNOffset:] {
				got = got<<8 | uint64(c)
			}
			if got != pn {
				t.Fatalf("pn %d != %d", got, pn)
			}
		}
	}
}

func TestShortHeader(t *testing.T) {
	b := AppendShortHeader(nil, []byte{1, 2, 3, 4}, 0x1234, 2, true, false)
	if !bytes.Equal(b, []byte{0x45, 1, 2, 3, 4, 0x12, 0x34}) {
		t.Fatalf("%x", b)
	}
	h, err := ParseShortHeader(b, 4)
	if err != nil || !h.KeyPhase || h.Spin || h.PNLen != 2 || h.PN != 0x1234 || !h.HasPN || h.PNOffset != 5 || !bytes.Equal(h.DCID, []byte{1, 2, 3, 4}) {
		t.Fatalf("%+v %v", h, err)
	}
	if _, err := ParseShortHeader(b[:3], 4); err == nil {
		t.Fatal("truncated short header accepted")
	}
}

func TestVersionNegotiation(t *testing.T) {
	b := AppendVersionNegotiation(nil, 0x55, []byte{1, 2, 3}, []byte{4, 5}, []uint32{Version1, Version2, 0x1a2a3a4a})
	d, s, vs, err := ParseVersionNegotiation(b)
	if err != nil || !bytes.Equal(d, []byte{1, 2, 3}) || !bytes.Equal(s, []byte{4, 5}) || !reflect.DeepEqual(vs, []uint32{Version1, Version2, 0x1a2a3a4a}) {
		t.Fatalf("%x %x %x %v", d, s, vs, err)
	}
	if _, _, _, err := ParseVersionNegotiation(b[:len(b)-1]); err == nil {
		t.Fatal("partial version accepted")
	}
	if _, err := ParseLongHeader(b); err == nil {
		t.Fatal("VN accepted as long header")
	}
	// connection IDs longer than 20 bytes are legal in VN (RFC 8999)
	long := bytes.Repeat([]byte{7}, 255)
	b = AppendVersionNegotiation(nil, 0, long, long, []uint32{1})
	if d, s, _, err = ParseVersionNegotiation(b); err != nil || len(d) != 255 || len(s) != 255 {
		t.Fatal("255-byte connection IDs in VN")
	}
}

func randBytes(rnd *rand.Rand, n int) []byte {
	if n == 0 {
		return nil
	}
	b := make([]byte, n)
	rnd.Read(b)
	return b
}

var bounds = []uint64{0, 1, 63, 64, 16383, 16384, 1<<30 - 1, 1 << 30, MaxVarint}

func boundary(rnd *rand.Rand) uint64 {
	if rnd.Intn(2) == 0 {
		return bounds[rnd.Intn(len(bounds))]
	}
	return rnd.Uint64() >> uint(2+rnd.Intn(62))
}

func randFrame(rnd *rand.Rand, last bool) Frame {
	names := []string{NamePadding, NamePing, NameAck, NameResetStream, NameResetStreamAt, NameStopSending, NameCrypto, NameNewToken,
		NameStream, NameMaxData, NameMaxStreamData, NameMaxStreams, NameDataBlocked, NameStreamDataBlocked, NameStreamsBlocked,
		NameNewConnectionID, NameRetireConnectionID, NamePathChallenge, NamePathResponse, NameConnectionClose, NameHandshakeDone,
		NameDatagram, NameImmediateAck, NameAckFrequency}
	f := Frame{Name: names[rnd.Intn(len(names))]}
	switch f.Name {
	case NamePadding:
		f.PaddingLen = 1 + rnd.Intn(5)
	case NameAck:
		f.AckDelay = boundary(rnd)
		f.HasECN = rnd.Intn(2) == 0
		if f.HasECN {
			f.ECT0, f.ECT1, f.ECNCE = boundary(rnd), boundary(rnd), boundary(rnd)
		}
		top := boundary(rnd)
		n := 1 + rnd.Intn(5)
		for i := 0; i < n; i++ {
			l := uint64(rnd.Intn(4))
			if l > top {
				l = top
			}
			f.AckRanges = append(f.AckRanges, AckRange{Smallest: top - l, Largest: top})
			gap := uint64(2 + rnd.Intn(3))
			if top-l < gap {
				break
			}
			top = top - l - gap
		}
	case NameResetStream:
		f.StreamID, f.ErrorCode, f.FinalSize = boundary(rnd), boundary(rnd), boundary(rnd)
	case NameResetStreamAt:
		f.StreamID, f.ErrorCode, f.FinalSize, f.ReliableSize = boundary(rnd), boundary(rnd), boundary(rnd), boundary(rnd)
	case NameStopSending:
		f.StreamID, f.ErrorCode = boundary(rnd), boundary(rnd)
	case NameCrypto:
		f.Offset, f.Data, f.HasLen, f.HasOff = boundary(rnd), randBytes(rnd, rnd.Intn(100)), true, true
	case NameNewToken:
		f.Token = randBytes(rnd, rnd.Intn(100))
	case NameStream:
		f.StreamID, f.Data, f.Fin = boundary(rnd), randBytes(rnd, rnd.Intn(100)), rnd.Intn(2) == 0
		f.HasLen = !last || rnd.Intn(2) == 0
		if rnd.Intn(2) == 0 {
			f.HasOff, f.Offset = true, boundary(rnd)
		}
	case NameMaxData, NameDataBlocked:
		f.Max = boundary(rnd)
	case NameMaxStreamData, NameStreamDataBlocked:
		f.StreamID, f.Max = boundary(rnd), boundary(rnd)
	case NameMaxStreams, NameStreamsBlocked:
		f.Max, f.Bidi = boundary(rnd), rnd.Intn(2) == 0
	case NameNewConnectionID:
		f.SeqNum, f.RetirePriorTo, f.ConnID = boundary(rnd), boundary(rnd), randBytes(rnd, rnd.Intn(30))
		rnd.Read(f.ResetToken[:])
	case NameRetireConnectionID:
		f.SeqNum = boundary(rnd)
	case NamePathChallenge, NamePathResponse:
		rnd.Read(f.PathData[:])
	case NameConnectionClose:
		f.IsApp, f.ErrorCode, f.Reason = rnd.Intn(2) == 0, boundary(rnd), randBytes(rnd, rnd.Intn(50))
		if !f.IsApp {
			f.FrameType = boundary(rnd)
		}
	case NameDatagram:
		f.Data = randBytes(rnd, rnd.Intn(100))
		f.HasLen = !last || rnd.Intn(2) == 0
	case NameAckFrequency:
		f.SeqNum, f.AckElicitingThreshold, f.RequestMaxAckDelay, f.ReorderingThreshold = boundary(rnd), boundary(rnd), boundary(rnd), boundary(rnd)
	}
	return f
}

func TestFrameRoundTrip(t *testing.T) {
	rnd := rand.New(rand.NewSource(2))
	seen := map[string]int{}
	for i := 0; i < 20000; i++ {
		n := 1 + rnd.Intn(5)
		var frames []Frame
		var payload []byte
		for j := 0; j < n; j++ {
			f := randFrame(rnd, j == n-1)
			if f.Name == NamePadding && len(frames) > 0 && frames[len(frames)-1].Name == NamePadding {
				continue // runs merge
			}
			before := len(payload)
			payload = f.Append(payload)
			f.Type = f.WireType()
			f.WireLen = len(payload) - before
			frames = append(frames, f)
			seen[f.Name]++
		}
		got, err := ParseFrames(payload)
		if err != nil {
			t.Fatalf("%x: %v", payload, err)
		}
		if len(got) != len(frames) {
			t.Fatalf("%x: %d frames, want %d", payload, len(got), len(frames))
		}
		for j := range got {
			w := frames[j]
			if w.Name == NameStream && w.Offset != 0 {
				w.HasOff = true
			}
			if len(w.AckRanges) == 0 {
				w.AckRanges = nil
			}
			if !reflect.DeepEqual(normalize(got[j]), normalize(w)) {
				t.Fatalf("frame %d of %x:\n got %+v\nwant %+v", j, payload, got[j], w)
			}
		}
	}
	if len(seen) != 24 {
		t.Fatalf("generator covered %d frame names", len(seen))
	}
}

func normalize(f Frame) Frame {
	if len(f.Data) == 0 {
		f.Data = nil
	}
	if len(f.Token) == 0 {
		f.Token = nil
	}
	if len(f.ConnID) == 0 {
		f.ConnID = nil
	}
	if len(f.Reason) == 0 {
		f.Reason = nil
	}
	return f
}

// RFC 9001 Appendix A.3: the server Initial payload starts with an ACK for packet 0 followed by a
// CRYPTO frame of 90 bytes at offset 0.
func TestFrameRFCExample(t *testing.T) {
	payload := append(unhex(t, "02000000000600405a"), bytes.Repeat([]byte{0xee}, 90)...)
	payload = append(payload, 0, 0, 0)
	fs, err := ParseFrames(payload)
	if err != nil || len(fs) != 3 {
		t.Fatalf("%v %v", fs, err)
	}
	if fs[0].Name != NameAck || !reflect.DeepEqual(fs[0].AckRanges, []AckRange{{0, 0}}) || fs[0].AckDelay != 0 || fs[0].WireLen != 5 {
		t.Fatalf("%+v", fs[0])
	}
	if fs[1].Name != NameCrypto || fs[1].Offset != 0 || len(fs[1].Data) != 90 || fs[1].WireLen != 94 {
		t.Fatalf("%+v", fs[1])
	}
	if fs[2].Name != NamePadding || fs[2].PaddingLen != 3 || fs[2].WireLen != 3 {
		t.Fatalf("%+v", fs[2])
	}
}

func TestAckRangeArithmetic(t *testing.T) {
	// largest 100, first range 10 (90..100), gap 0 -> next largest 88, length 8 (80..88)
	f, n, err := ParseFrame([]byte{0x02, 0x40, 100, 0x05, 0x01, 10, 0, 8})
	if err != nil || n != 8 {
		t.Fatal(err)
	}
	if !reflect.DeepEqual(f.AckRanges, []AckRange{{90, 100}, {80, 88}}) || f.AckDelay != 5 {
		t.Fatalf("%+v", f)
	}
	for _, bad := range [][]byte{
		{0x02, 5, 0, 0, 6},          // first range > largest
		{0x02, 5, 0, 1, 0, 4, 0},    // 5..5, gap 4 -> largest = 5-4-2 < 0
		{0x02, 9, 0, 1, 0, 0, 8},    // 9..9, gap 0 -> largest 7, length 8 > 7
		{0x02, 9, 0, 0x7f, 0xff, 0}, // absurd range count
		{0x03, 9, 0, 0, 0, 1, 2},    // ECN counts truncated
		{0x02, 1, 0, 1, 0, 0, 0},    // 1..1: smallest 1 < 2
		{0x02, 0x40},                // truncated varint
	} {
		if _, _, err := ParseFrame(bad); err == nil {
			t.Fatalf("%x accepted", bad)
		}
	}
	// lowest legal second range: 2..2 then gap 0 -> 0..0
	f, _, err = ParseFrame([]byte{0x02, 2, 0, 1, 0, 0, 0})
	if err != nil || !reflect.DeepEqual(f.AckRanges, []AckRange{{2, 2}, {0, 0}}) {
		t.Fatalf("%+v %v", f, err)
	}
}

func TestFrameChecks(t *testing.T) {
	bad := []Frame{
		{Name: NameNewToken},
		{Name: NameMaxStreams, Max: MaxStreams + 1},
		{Name: NameStreamsBlocked, Max: MaxStreams + 1, Bidi: true},
		{Name: NameNewConnectionID, SeqNum: 1, RetirePriorTo: 2, ConnID: []byte{1}},
		{Name: NameNewConnectionID, SeqNum: 1},
		{Name: NameNewConnectionID, SeqNum: 1, ConnID: make([]byte, 21)},
		{Name: NameStream, Offset: MaxVarint, Data: []byte{1}, HasLen: true},
		{Name: NameCrypto, Offset: MaxVarint - 1, Data: []byte{1, 2}},
		{Name: NameResetStreamAt, FinalSize: 5, ReliableSize: 6},
	}
	for _, f := range bad {
		g, _, err := ParseFrame(f.Append(nil))
		if err != nil {
			t.Fatalf("%+v must parse structurally: %v", f, err)
		}
		if g.Check() == nil {
			t.Fatalf("%+v passed Check", g)
		}
	}
	good := []Frame{
		{Name: NameNewToken, Token: []byte{1}},
		{Name: NameMaxStreams, Max: MaxStreams},
		{Name: NameNewConnectionID, SeqNum: 2, RetirePriorTo: 2, ConnID: make([]byte, 20)},
		{Name: NameStream, Offset: MaxVarint - 1, Data: []byte{1}},
		{Name: NameResetStreamAt, FinalSize: 5, ReliableSize: 5},
	}
	for _, f := range good {
		g, _, err := ParseFrame(f.Append(nil))
		if err != nil || g.Check() != nil {
			t.Fatalf("%+v: %v %v", f, err, g.Check())
		}
	}
	if _, _, err := ParseFrame([]byte{0x40, 0x21}); err == nil {
		t.Fatal("unknown frame type 0x21 accepted")
	}
	// non-minimal frame type encodings decode to the same frame
	f, n, err := ParseFrame([]byte{0x40, 0x01})
	if err != nil || f.Name != NamePing || n != 2 {
		t.Fatal("2-byte PING")
	}
}

// RFC 9000 Table 3, "Pkts" column.
func TestAllowedIn(t *testing.T) {
	table := map[string]string{
		NamePadding: "IH01", NamePing: "IH01", NameAck: "IH_1", NameResetStream: "__01", NameStopSending: "__01",
		NameCrypto: "IH_1", NameNewToken: "___1", NameStream: "__01", NameMaxData: "__01", NameMaxStreamData: "__01",
		NameMaxStreams: "__01", NameDataBlocked: "__01", NameStreamDataBlocked: "__01", NameStreamsBlocked: "__01",
		NameNewConnectionID: "__01", NameRetireConnectionID: "__01", NamePathChallenge: "__01", NamePathResponse: "___1",
		NameHandshakeDone: "___1",
	}
	for typ := uint64(0); typ <= 0x1e; typ++ {
		name := FrameName(typ)
		col, ok := table[name]
		if typ == 0x1c {
			col, ok = "IH01", true
		}
		if typ == 0x1d {
			col, ok = "__01", true
		}
		if !ok {
			t.Fatalf("type 0x%x (%s) missing", typ, name)
		}
		for i, level := range []int{LevelInitial, LevelHandshake, Level0RTT, Level1RTT} {
			if AllowedIn(typ, level) != (col[i] != '_') {
				t.Fatalf("type 0x%x level %d: table says %q", typ, level, col)
			}
		}
	}
	for _, typ := range []uint64{0x1f, 0x24, 0x30, 0x31, 0xaf} {
		if AllowedIn(typ, LevelInitial) || AllowedIn(typ, LevelHandshake) || !AllowedIn(typ, Level0RTT) || !AllowedIn(typ, Level1RTT) {
			t.Fatalf("extension type 0x%x", typ)
		}
	}
	if AllowedIn(0x20, Level1RTT) || FrameName(0x20) != "" {
		t.Fatal("0x20 is not a frame type")
	}
}

func TestTransportParameters(t *testing.T) {
	ps := []TransportParameter{
		VarintParam(TPMaxIdleTimeout, 30000),
		VarintParam(TPInitialMaxData, 1<<30),
		{ID: TPDisableActiveMigration},
		{ID: TPInitialSourceConnectionID, Value: []byte{1, 2, 3, 4}},
		{ID: 31*5 + 27, Value: []byte{9}},
		VarintParam(TPMaxIdleTimeout, 1), // duplicate is preserved
		{ID: TPResetStreamAt},
	}
	b := AppendTransportParameters(nil, ps)
	got, err := ParseTransportParameters(b)
	if err != nil || len(got) != len(ps) {
		t.Fatal(err)
	}
	for i := range ps {
		if got[i].ID != ps[i].ID || !bytes.Equal(got[i].Value, ps[i].Value) {
			t.Fatalf("param %d: %+v", i, got[i])
		}
	}
	if v, err := TPVarint(got[1].Value); err != nil || v != 1<<30 {
		t.Fatal("varint value")
	}
	if !IsGREASETransportParameter(27) || !IsGREASETransportParameter(31*5+27) || IsGREASETransportParameter(28) || IsGREASETransportParameter(0) {
		t.Fatal("grease")
	}
	if CheckTransportParameters(got, true) == nil {
		t.Fatal("duplicate not flagged")
	}
	if _, err := ParseTransportParameters(b[:len(b)-3]); err == nil {
		t.Fatal("truncated parameters accepted")
	}
	for _, bad := range [][]TransportParameter{
		{VarintParam(TPAckDelayExponent, 21)},
		{VarintParam(TPMaxAckDelay, 1<<14)},
		{VarintParam(TPActiveConnectionIDLimit, 1)},
		{VarintParam(TPMaxUDPPayloadSize, 1199)},
		{VarintParam(TPInitialMaxStreamsBidi, MaxStreams+1)},
		{{ID: TPStatelessResetToken, Value: make([]byte, 15)}},
		{{ID: TPDisableActiveMigration, Value: []byte{0}}},
		{{ID: TPInitialMaxData, Value: []byte{0x40, 1, 0}}},
		{{ID: TPInitialSourceConnectionID, Value: make([]byte, 21)}},
		{{ID: TPVersionInformation, Value: []byte{0, 0, 0}}},
	} {
		if CheckTransportParameters(bad, false) == nil {
			t.Fatalf("%+v not flagged", bad)
		}
	}
	srv := []TransportParameter{{ID: TPOriginalDestinationConnectionID, Value: []byte{1}}, {ID: TPStatelessResetToken, Value: make([]byte, 16)},
		VarintParam(TPAckDelayExponent, 20), VarintParam(TPMaxAckDelay, 1<<14-1), VarintParam(TPActiveConnectionIDLimit, 2), VarintParam(TPMaxUDPPayloadSize, 1200)}
	if err := CheckTransportParameters(srv, false); err != nil {
		t.Fatal(err)
	}
	if CheckTransportParameters(srv, true) == nil {
		t.Fatal("server-only parameters from a client not flagged")
	}
	pa := PreferredAddress{IPv4: [4]byte{127, 0, 0, 1}, IPv4Port: 443, IPv6Port: 8443, ConnID: []byte{1, 2, 3, 4}}
	pa.IPv6[15] = 1
	q, err := ParsePreferredAddress(pa.Append(nil))
	if err != nil || !reflect.DeepEqual(q, pa) {
		t.Fatalf("%+v %v", q, err)
	}
	c, av, err := ParseVersionInformation(AppendVersionInformation(nil, Version1, []uint32{Version2, Version1}))
	if err != nil || c != Version1 || !reflect.DeepEqual(av, []uint32{Version2, Version1}) {
		t.Fatal("version_information")
	}
}

func FuzzParsersTotal(f *testing.F) {
	f.Add([]byte{0x02, 2, 0, 1, 0, 0, 0})
	f.Add([]byte{0xc3, 0, 0, 0, 1, 8, 1, 2, 3, 4, 5, 6, 7, 8, 0, 0, 0x44, 0x9e, 0, 0, 0, 2})
	f.Fuzz(func(t *testing.T, b []byte) {
		if fs, err := ParseFrames(b); err == nil {
			n := 0
			for _, fr := range fs {
				n += fr.WireLen
			}
			if n != len(b) {
				t.Fatalf("frames cover %d of %d bytes", n, len(b))
			}
		}
		if fr, n, err := ParseFrame(b); err == nil {
			if n != fr.WireLen || n > len(b) || n == 0 {
				t.Fatalf("consumed %d", n)
			}
			out := fr.Append(nil)
			g, m, err := ParseFrame(out)
			if err != nil || m != len(out) {
				t.Fatalf("re-parse: %v", err)
			}
			g.WireLen, fr.WireLen, g.Type, fr.Type = 0, 0, 0, 0
			if !reflect.DeepEqual(normalize(g), normalize(fr)) {
				t.Fatalf("re-parse differs:\n%+v\n%+v", g, fr)
			}
		}
		if h, err := ParseLongHeader(b); err == nil && h.Kind != LongRetry && h.PNOffset > len(b) {
			t.Fatal("pn offset beyond input")
		}
		_, _ = ParseShortHeader(b, 8)
		_, _, _, _ = ParseVersionNegotiation(b)
		if ps, err := ParseTransportParameters(b); err == nil {
			out := AppendTransportParameters(nil, ps)
			qs, err := ParseTransportParameters(out)
			if err != nil || !reflect.DeepEqual(qs, ps) && len(ps) > 0 {
				for i := range ps {
					if qs[i].ID != ps[i].ID || !bytes.Equal(qs[i].Value, ps[i].Value) {
						t.Fatalf("tp re-parse differs at %d", i)
					}
				}
			}
			_ = CheckTransportParameters(ps, true)
		}
	})
}
