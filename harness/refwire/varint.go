// Package refwire is an independent reader and encoder of the QUIC wire image, written from
// RFC 9000 (transport), RFC 9221 (DATAGRAM), RFC 9368 (version_information), RFC 9369 (QUIC v2
// long-header type bits), draft-ietf-quic-reliable-stream-reset (RESET_STREAM_AT, 0x24) and
// draft-ietf-quic-ack-frequency (ACK_FREQUENCY 0xaf, IMMEDIATE_ACK 0x1f).
//
// It uses only the Go standard library and imports nothing from the code under test, so that
// it can serve as a differential oracle (a symmetric encoder/decoder bug in the implementation
// is invisible to a round trip through the implementation but not to this reader) and as a
// crafting tool (the encoders refuse nothing: they emit values the RFCs forbid when asked to).
//
// Parsing is STRUCTURAL: a parser fails only when the bytes cannot be decoded (truncation,
// arithmetic that leaves the packet-number space, lengths exceeding the buffer). Semantic
// range rules of RFC 9000 are reported separately by Frame.Check, LongHeader.Check and
// CheckTransportParameters, so that an observer can still display a hostile packet.
package refwire

import (
	"errors"
	"fmt"
)

// MaxVarint is the largest value a QUIC variable-length integer can carry (2^62-1).
const MaxVarint = uint64(1)<<62 - 1

// ErrTruncated is returned (possibly wrapped) when the input ends inside a field.
var ErrTruncated = errors.New("refwire: truncated")

// ReadVarint decodes an RFC 9000 section 16 variable-length integer from the start of b.
// It returns the value and the number of bytes consumed (1, 2, 4 or 8). Non-minimal encodings
// are accepted, as the RFC requires.
func ReadVarint(b []byte) (v uint64, n int, err error) {
	if len(b) == 0 {
		return 0, 0, ErrTruncated
	}
	n = 1 << (b[0] >> 6)
	if len(b) < n {
		return 0, 0, ErrTruncated
	}
	v = uint64(b[0] & 0x3f)
	for i := 1; i < n; i++ {
		v = v<<8 | uint64(b[i])
	}
	return v, n, nil
}

// VarintLen returns the number of bytes of the minimal encoding of v (1, 2, 4 or 8).
// It panics if v does not fit into 62 bits.
func VarintLen(v uint64) int {
	switch {
	case v < 1<<6:
		return 1
	case v < 1<<14:
		return 2
	case v < 1<<30:
		return 4
	case v <= MaxVarint:
		return 8
	}
	panic(fmt.Sprintf("refwire: %d does not fit into a varint", v))
}

// AppendVarint appends the minimal encoding of v. Values above 2^62-1 are truncated to 62
// bits (the encoder never refuses; crafting tools may rely on that).
func AppendVarint(b []byte, v uint64) []byte {
	v &= MaxVarint
	return AppendVarintLen(b, v, VarintLen(v))
}

// AppendVarintLen appends v using exactly length bytes (1, 2, 4 or 8). The value is truncated
// to the bits that fit; callers wanting a faithful non-minimal encoding must pass
// length >= VarintLen(v).
func AppendVarintLen(b []byte, v uint64, length int) []byte {
	var prefix byte
	switch length {
	case 1:
		prefix = 0x00
	case 2:
		prefix = 0x40
	case 4:
		prefix = 0x80
	case 8:
		prefix = 0xc0
	default:
		panic(fmt.Sprintf("refwire: invalid varint length %d", length))
	}
	start := len(b)
	for i := length - 1; i >= 0; i-- {
		b = append(b, byte(v>>(8*uint(i))))
	}
	b[start] = b[start]&0x3f | prefix
	return b
}

// reader is a bounds-checked cursor.
type reader struct {
	b   []byte
	off int
}

func (r *reader) left() int { return len(r.b) - r.off }

func (r *reader) varint() (uint64, error) {
	v, n, err := ReadVarint(r.b[r.off:])
	if err != nil {
		return 0, err
	}
	r.off += n
	return v, nil
}

func (r *reader) byte() (byte, error) {
	if r.left() < 1 {
		return 0, ErrTruncated
	}
	c := r.b[r.off]
	r.off++
	return c, nil
}

// bytes returns a copy-free sub-slice of n bytes.
func (r *reader) bytes(n uint64) ([]byte, error) {
	if n > uint64(r.left()) {
		return nil, ErrTruncated
	}
	s := r.b[r.off : r.off+int(n) : r.off+int(n)]
	r.off += int(n)
	return s, nil
}

func (r *reader) uint32() (uint32, error) {
	s, err := r.bytes(4)
	if err != nil {
		return 0, err
	}
	return uint32(s[0])<<24 | uint32(s[1])<<16 | uint32(s[2])<<8 | uint32(s[3]), nil
}
