package refwire

import (
	"errors"
	"fmt"
)

// Long header packet kinds (version-independent numbering of this package; the two type bits
// on the wire depend on the version, see RFC 9369 section 3.2).
const (
	LongInitial   = 0
	Long0RTT      = 1
	LongHandshake = 2
	LongRetry     = 3
)

// QUIC versions with known long-header type bit assignments.
const (
	Version1 uint32 = 0x00000001
	Version2 uint32 = 0x6b3343cf
)

// MaxConnIDLen is the largest connection ID length QUIC v1 and v2 permit.
const MaxConnIDLen = 20

// LongHeader is a parsed long header (RFC 9000 section 17.2).
type LongHeader struct {
	FirstByte byte // as on the wire (low 4 bits still header-protected for non-Retry packets)
	Kind      int  // LongInitial .. LongRetry
	Version   uint32
	DCID      []byte
	SCID      []byte
	Token     []byte // Initial only (may be empty)
	Length    uint64 // Initial, 0-RTT, Handshake: value of the Length field (packet number + payload)
	// PNOffset is the index of the first (protected) packet number byte; the packet ends at
	// PNOffset+Length. Zero for Retry.
	PNOffset int
	// HeaderLen is the number of header bytes that precede the packet number (== PNOffset) for
	// Initial/0-RTT/Handshake; for Retry it is the number of bytes before the Retry Token.
	HeaderLen  int
	RetryToken []byte   // Retry only
	RetryTag   [16]byte // Retry only: Retry Integrity Tag
}

// IsLongHeader reports whether the first byte announces a long header (Header Form bit).
func IsLongHeader(b0 byte) bool { return b0&0x80 != 0 }

// longKind maps the two wire type bits to a kind for the given version. Versions other than
// v2 are read with the v1 assignment.
func longKind(version uint32, bits byte) int {
	if version == Version2 {
		// RFC 9369: Initial 0b01, 0-RTT 0b10, Handshake 0b11, Retry 0b00
		return [4]int{LongRetry, LongInitial, Long0RTT, LongHandshake}[bits&3]
	}
	// RFC 9000: Initial 0, 0-RTT 1, Handshake 2, Retry 3
	return int(bits & 3)
}

// LongTypeBits is the inverse of the mapping above.
func LongTypeBits(version uint32, kind int) byte {
	if version == Version2 {
		return [4]byte{1, 2, 3, 0}[kind&3]
	}
	return byte(kind & 3)
}

// ParseLongHeader parses the unprotected part of a long header packet that is not a Version
// Negotiation packet (version 0 is an error: use ParseVersionNegotiation). Slices alias b.
// The Fixed Bit is not enforced here (see LongHeader.Check).
func ParseLongHeader(b []byte) (LongHeader, error) {
	var h LongHeader
	r := &reader{b: b}
	fb, err := r.byte()
	if err != nil {
		return h, fmt.Errorf("first byte: %w", err)
	}
	if !IsLongHeader(fb) {
		return h, errors.New("refwire: not a long header")
	}
	h.FirstByte = fb
	if h.Version, err = r.uint32(); err != nil {
		return h, fmt.Errorf("version: %w", err)
	}
	if h.Version == 0 {
		return h, errors.New("refwire: version negotiation packet")
	}
	dl, err := r.byte()
	if err != nil {
		return h, fmt.Errorf("dcid length: %w", err)
	}
	if h.DCID, err = r.bytes(uint64(dl)); err != nil {
		return h, fmt.Errorf("dcid: %w", err)
	}
	sl, err := r.byte()
	if err != nil {
		return h, fmt.Errorf("scid length: %w", err)
	}
	if h.SCID, err = r.bytes(uint64(sl)); err != nil {
		return h, fmt.Errorf("scid: %w", err)
	}
	h.Kind = longKind(h.Version, fb>>4)
	if h.Kind == LongRetry {
		h.HeaderLen = r.off
		if r.left() < 16 {
			return h, fmt.Errorf("retry integrity tag: %w", ErrTruncated)
		}
		h.RetryToken, _ = r.bytes(uint64(r.left() - 16))
		tag, _ := r.bytes(16)
		copy(h.RetryTag[:], tag)
		return h, nil
	}
	if h.Kind == LongInitial {
		tl, err := r.varint()
		if err != nil {
			return h, fmt.Errorf("token length: %w", err)
		}
		if h.Token, err = r.bytes(tl); err != nil {
			return h, fmt.Errorf("token: %w", err)
		}
	}
	if h.Length, err = r.varint(); err != nil {
		return h, fmt.Errorf("length: %w", err)
	}
	h.PNOffset = r.off
	h.HeaderLen = r.off
	return h, nil
}

// Check reports the first RFC 9000 rule a v1/v2 receiver would drop this header for:
// Fixed Bit clear (17.2), connection ID longer than 20 bytes (17.2), Length exceeding the
// datagram (pass the number of bytes available from the start of the packet; negative = skip),
// Length too small to hold a 4-byte sample after the packet number (checked by the AEAD
// layer, not here).
func (h LongHeader) Check(avail int) error {
	if h.FirstByte&0x40 == 0 {
		return errors.New("fixed bit not set")
	}
	if len(h.DCID) > MaxConnIDLen || len(h.SCID) > MaxConnIDLen {
		return fmt.Errorf("connection ID too long (%d / %d)", len(h.DCID), len(h.SCID))
	}
	if h.Kind != LongRetry && avail >= 0 && uint64(h.PNOffset)+h.Length > uint64(avail) {
		return fmt.Errorf("length %d exceeds the datagram", h.Length)
	}
	return nil
}

// AppendLongHeader appends a long header followed by the packet number in pnLen bytes
// (1..4; ignored for Retry). The first byte is 0x80 | 0x40 | type bits for (h.Version, h.Kind);
// the low nibble is (h.FirstByte & 0x0c) | (pnLen-1) for Initial/0-RTT/Handshake (so reserved
// bits can be crafted) and h.FirstByte & 0x0f for Retry. If h.FirstByte has the Header Form
// bit set but the Fixed Bit clear, the Fixed Bit is left clear (crafting). h.Length is written
// as given with a minimal varint (it is the caller's job to make it pnLen + payload length).
// For Retry the Retry Token and the Retry Integrity Tag follow the SCID.
func AppendLongHeader(b []byte, h LongHeader, pn uint64, pnLen int) []byte {
	fb := byte(0xc0) | LongTypeBits(h.Version, h.Kind)<<4
	if h.FirstByte&0x80 != 0 && h.FirstByte&0x40 == 0 {
		fb &^= 0x40
	}
	if h.Kind == LongRetry {
		fb |= h.FirstByte & 0x0f
	} else {
		if pnLen < 1 || pnLen > 4 {
			panic(fmt.Sprintf("refwire: invalid packet number length %d", pnLen))
		}
		fb |= h.FirstByte&0x0c | byte(pnLen-1)
	}
	b = append(b, fb, byte(h.Version>>24), byte(h.Version>>16), byte(h.Version>>8), byte(h.Version))
	b = append(b, byte(len(h.DCID)))
	b = append(b, h.DCID...)
	b = append(b, byte(len(h.SCID)))
	b = append(b, h.SCID...)
	if h.Kind == LongRetry {
		b = append(b, h.RetryToken...)
		return append(b, h.RetryTag[:]...)
	}
	if h.Kind == LongInitial {
		b = AppendVarint(b, uint64(len(h.Token)))
		b = append(b, h.Token...)
	}
	b = AppendVarint(b, h.Length)
	for i := pnLen - 1; i >= 0; i-- {
		b = append(b, byte(pn>>(8*uint(i))))
	}
	return b
}

// ShortHeader is a parsed 1-RTT header (RFC 9000 section 17.3.1). The receiver must know the
// connection ID length. KeyPhase, the reserved bits and the packet number length are
// header-protected on the wire: they are meaningful only after protection was removed.
type ShortHeader struct {
	FirstByte byte
	Spin      bool
	KeyPhase  bool // bit 0x04
	Reserved  byte // bits 0x18 >> 3
	PNLen     int  // (FirstByte & 3) + 1
	DCID      []byte
	PNOffset  int    // == 1 + len(DCID)
	PN        uint64 // truncated packet number (only if the buffer holds PNLen more bytes)
	HasPN     bool
}

// ParseShortHeader reads a short header given the connection ID length in use.
func ParseShortHeader(b []byte, cidLen int) (ShortHeader, error) {
	var h ShortHeader
	if len(b) == 0 {
		return h, ErrTruncated
	}
	if IsLongHeader(b[0]) {
		return h, errors.New("refwire: not a short header")
	}
	if len(b) < 1+cidLen {
		return h, fmt.Errorf("dcid: %w", ErrTruncated)
	}
	h.FirstByte = b[0]
	h.Spin = b[0]&0x20 != 0
	h.KeyPhase = b[0]&0x04 != 0
	h.Reserved = b[0] & 0x18 >> 3
	h.PNLen = int(b[0]&3) + 1
	h.DCID = b[1 : 1+cidLen : 1+cidLen]
	h.PNOffset = 1 + cidLen
	if len(b) >= h.PNOffset+h.PNLen {
		h.HasPN = true
		for _, c := range b[h.PNOffset : h.PNOffset+h.PNLen] {
			h.PN = h.PN<<8 | uint64(c)
		}
	}
	return h, nil
}

// AppendShortHeader appends 0x40 | spin | reserved | key phase | pnLen-1, the DCID and the
// packet number in pnLen bytes.
func AppendShortHeader(b []byte, dcid []byte, pn uint64, pnLen int, keyPhase, spin bool) []byte {
	if pnLen < 1 || pnLen > 4 {
		panic(fmt.Sprintf("refwire: invalid packet number length %d", pnLen))
	}
	fb := byte(0x40) | byte(pnLen-1)
	if keyPhase {
		fb |= 0x04
	}
	if spin {
		fb |= 0x20
	}
	b = append(b, fb)
	b = append(b, dcid...)
	for i := pnLen - 1; i >= 0; i-- {
		b = append(b, byte(pn>>(8*uint(i))))
	}
	return b
}

// ParseVersionNegotiation parses a Version Negotiation packet (RFC 9000 section 17.2.1, RFC
// 8999 section 6): Header Form bit set, version 0, connection IDs of up to 255 bytes, then a
// list of 32-bit versions filling the rest of the datagram. A trailing partial version is an
// error; an empty list is returned as such (RFC 8999 does not forbid it structurally).
func ParseVersionNegotiation(b []byte) (dcid, scid []byte, versions []uint32, err error) {
	r := &reader{b: b}
	fb, err := r.byte()
	if err != nil {
		return nil, nil, nil, fmt.Errorf("first byte: %w", err)
	}
	if !IsLongHeader(fb) {
		return nil, nil, nil, errors.New("refwire: not a long header")
	}
	v, err := r.uint32()
	if err != nil {
		return nil, nil, nil, fmt.Errorf("version: %w", err)
	}
	if v != 0 {
		return nil, nil, nil, errors.New("refwire: not a version negotiation packet")
	}
	dl, err := r.byte()
	if err != nil {
		return nil, nil, nil, fmt.Errorf("dcid length: %w", err)
	}
	if dcid, err = r.bytes(uint64(dl)); err != nil {
		return nil, nil, nil, fmt.Errorf("dcid: %w", err)
	}
	sl, err := r.byte()
	if err != nil {
		return nil, nil, nil, fmt.Errorf("scid length: %w", err)
	}
	if scid, err = r.bytes(uint64(sl)); err != nil {
		return nil, nil, nil, fmt.Errorf("scid: %w", err)
	}
	if r.left()%4 != 0 {
		return nil, nil, nil, errors.New("refwire: version list is not a multiple of 4 bytes")
	}
	versions = make([]uint32, 0, r.left()/4)
	for r.left() > 0 {
		x, _ := r.uint32()
		versions = append(versions, x)
	}
	return dcid, scid, versions, nil
}

// AppendVersionNegotiation appends a Version Negotiation packet; the 7 unused bits of the
// first byte are taken from unused.
func AppendVersionNegotiation(b []byte, unused byte, dcid, scid []byte, versions []uint32) []byte {
	b = append(b, 0x80|unused&0x7f, 0, 0, 0, 0, byte(len(dcid)))
	b = append(b, dcid...)
	b = append(b, byte(len(scid)))
	b = append(b, scid...)
	for _, v := range versions {
		b = append(b, byte(v>>24), byte(v>>16), byte(v>>8), byte(v))
	}
	return b
}
