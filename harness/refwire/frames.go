package refwire

import (
	"errors"
	"fmt"
)

// AckRange is one contiguous range of acknowledged packet numbers (both ends inclusive).
type AckRange struct{ Smallest, Largest uint64 }

// Frame is the union of all frame layouts this reader knows. Only the fields of the frame
// named by Name are meaningful.
type Frame struct {
	Type uint64 // first varint on the wire (e.g. 0x08..0x0f for STREAM with its flag bits)
	Name string // see the Name* constants

	StreamID, Offset    uint64
	Fin, HasLen, HasOff bool
	Data                []byte // STREAM, CRYPTO, DATAGRAM payload (aliases the input)

	ErrorCode, FinalSize, ReliableSize uint64

	Max  uint64 // MAX_DATA / MAX_STREAM_DATA / MAX_STREAMS / *_BLOCKED value
	Bidi bool   // MAX_STREAMS / STREAMS_BLOCKED: bidirectional (0x12 / 0x16) vs unidirectional

	AckRanges         []AckRange // descending, as on the wire; [0].Largest is Largest Acknowledged
	AckDelay          uint64     // raw field, NOT scaled by ack_delay_exponent
	HasECN            bool
	ECT0, ECT1, ECNCE uint64

	SeqNum, RetirePriorTo uint64 // NEW_CONNECTION_ID, RETIRE_CONNECTION_ID (SeqNum), ACK_FREQUENCY (SeqNum)
	ConnID                []byte
	ResetToken            [16]byte

	Token    []byte  // NEW_TOKEN
	PathData [8]byte // PATH_CHALLENGE / PATH_RESPONSE

	IsApp     bool   // CONNECTION_CLOSE of type 0x1d
	FrameType uint64 // CONNECTION_CLOSE 0x1c: offending frame type
	Reason    []byte

	// ACK_FREQUENCY (draft-ietf-quic-ack-frequency): SeqNum plus these, all raw.
	AckElicitingThreshold, RequestMaxAckDelay, ReorderingThreshold uint64

	PaddingLen int // PADDING: length of the run of zero bytes this Frame stands for
	WireLen    int // bytes this frame occupied on the wire
}

// Frame names.
const (
	NamePadding            = "PADDING"
	NamePing               = "PING"
	NameAck                = "ACK"
	NameResetStream        = "RESET_STREAM"
	NameResetStreamAt      = "RESET_STREAM_AT"
	NameStopSending        = "STOP_SENDING"
	NameCrypto             = "CRYPTO"
	NameNewToken           = "NEW_TOKEN"
	NameStream             = "STREAM"
	NameMaxData            = "MAX_DATA"
	NameMaxStreamData      = "MAX_STREAM_DATA"
	NameMaxStreams         = "MAX_STREAMS"
	NameDataBlocked        = "DATA_BLOCKED"
	NameStreamDataBlocked  = "STREAM_DATA_BLOCKED"
	NameStreamsBlocked     = "STREAMS_BLOCKED"
	NameNewConnectionID    = "NEW_CONNECTION_ID"
	NameRetireConnectionID = "RETIRE_CONNECTION_ID"
	NamePathChallenge      = "PATH_CHALLENGE"
	NamePathResponse       = "PATH_RESPONSE"
	NameConnectionClose    = "CONNECTION_CLOSE"
	NameHandshakeDone      = "HANDSHAKE_DONE"
	NameDatagram           = "DATAGRAM"
	NameImmediateAck       = "IMMEDIATE_ACK"
	NameAckFrequency       = "ACK_FREQUENCY"
)

// Frame type codepoints (RFC 9000 Table 3 and the extensions above).
const (
	TypePadding            = 0x00
	TypePing               = 0x01
	TypeAck                = 0x02
	TypeAckECN             = 0x03
	TypeResetStream        = 0x04
	TypeStopSending        = 0x05
	TypeCrypto             = 0x06
	TypeNewToken           = 0x07
	TypeStreamBase         = 0x08 // ..0x0f; bits: 0x04 OFF, 0x02 LEN, 0x01 FIN
	TypeMaxData            = 0x10
	TypeMaxStreamData      = 0x11
	TypeMaxStreamsBidi     = 0x12
	TypeMaxStreamsUni      = 0x13
	TypeDataBlocked        = 0x14
	TypeStreamDataBlocked  = 0x15
	TypeStreamsBlockedBidi = 0x16
	TypeStreamsBlockedUni  = 0x17
	TypeNewConnectionID    = 0x18
	TypeRetireConnectionID = 0x19
	TypePathChallenge      = 0x1a
	TypePathResponse       = 0x1b
	TypeConnectionClose    = 0x1c
	TypeApplicationClose   = 0x1d
	TypeHandshakeDone      = 0x1e
	TypeImmediateAck       = 0x1f
	TypeResetStreamAt      = 0x24
	TypeDatagram           = 0x30
	TypeDatagramLen        = 0x31
	TypeAckFrequency       = 0xaf
)

// ErrUnknownFrameType is returned (wrapped) by ParseFrame for a type it has no layout for.
var ErrUnknownFrameType = errors.New("refwire: unknown frame type")

// FrameName maps a frame type to its name ("" when unknown).
func FrameName(typ uint64) string {
	switch {
	case typ == TypePadding:
		return NamePadding
	case typ == TypePing:
		return NamePing
	case typ == TypeAck, typ == TypeAckECN:
		return NameAck
	case typ == TypeResetStream:
		return NameResetStream
	case typ == TypeStopSending:
		return NameStopSending
	case typ == TypeCrypto:
		return NameCrypto
	case typ == TypeNewToken:
		return NameNewToken
	case typ >= 0x08 && typ <= 0x0f:
		return NameStream
	case typ == TypeMaxData:
		return NameMaxData
	case typ == TypeMaxStreamData:
		return NameMaxStreamData
	case typ == TypeMaxStreamsBidi, typ == TypeMaxStreamsUni:
		return NameMaxStreams
	case typ == TypeDataBlocked:
		return NameDataBlocked
	case typ == TypeStreamDataBlocked:
		return NameStreamDataBlocked
	case typ == TypeStreamsBlockedBidi, typ == TypeStreamsBlockedUni:
		return NameStreamsBlocked
	case typ == TypeNewConnectionID:
		return NameNewConnectionID
	case typ == TypeRetireConnectionID:
		return NameRetireConnectionID
	case typ == TypePathChallenge:
		return NamePathChallenge
	case typ == TypePathResponse:
		return NamePathResponse
	case typ == TypeConnectionClose, typ == TypeApplicationClose:
		return NameConnectionClose
	case typ == TypeHandshakeDone:
		return NameHandshakeDone
	case typ == TypeImmediateAck:
		return NameImmediateAck
	case typ == TypeResetStreamAt:
		return NameResetStreamAt
	case typ == TypeDatagram, typ == TypeDatagramLen:
		return NameDatagram
	case typ == TypeAckFrequency:
		return NameAckFrequency
	}
	return ""
}

// ParseFrame decodes one frame from the start of b and returns it with the number of bytes
// consumed. A single PADDING byte yields a PADDING frame with PaddingLen 1 (ParseFrames merges
// runs). Data, Token, ConnID and Reason alias b.
func ParseFrame(b []byte) (Frame, int, error) {
	r := &reader{b: b}
	typ, err := r.varint()
	if err != nil {
		return Frame{}, 0, fmt.Errorf("frame type: %w", err)
	}
	f := Frame{Type: typ, Name: FrameName(typ)}
	fail := func(field string, err error) (Frame, int, error) {
		return Frame{}, 0, fmt.Errorf("%s (0x%x) %s: %w", f.Name, typ, field, err)
	}
	switch f.Name {
	case "":
		return Frame{}, 0, fmt.Errorf("%w 0x%x", ErrUnknownFrameType, typ)

	case NamePadding:
		f.PaddingLen = 1

	case NamePing, NameHandshakeDone, NameImmediateAck:

	case NameAck:
		f.HasECN = typ == TypeAckECN
		largest, err := r.varint()
		if err != nil {
			return fail("largest acknowledged", err)
		}
		if f.AckDelay, err = r.varint(); err != nil {
			return fail("ack delay", err)
		}
		count, err := r.varint()
		if err != nil {
			return fail("ack range count", err)
		}
		first, err := r.varint()
		if err != nil {
			return fail("first ack range", err)
		}
		if first > largest {
			return fail("first ack range", errors.New("exceeds largest acknowledged"))
		}
		smallest := largest - first
		// every further range needs at least two bytes: a hostile count cannot make us allocate
		if count > uint64(r.left())/2 {
			return fail("ack range count", ErrTruncated)
		}
		f.AckRanges = make([]AckRange, 0, count+1)
		f.AckRanges = append(f.AckRanges, AckRange{Smallest: smallest, Largest: largest})
		for i := uint64(0); i < count; i++ {
			gap, err := r.varint()
			if err != nil {
				return fail("gap", err)
			}
			length, err := r.varint()
			if err != nil {
				return fail("ack range length", err)
			}
			// RFC 9000 19.3.1: largest = previous_smallest - gap - 2
			if smallest < 2 || gap > smallest-2 {
				return fail("gap", errors.New("packet number below zero"))
			}
			largest = smallest - gap - 2
			if length > largest {
				return fail("ack range length", errors.New("packet number below zero"))
			}
			smallest = largest - length
			f.AckRanges = append(f.AckRanges, AckRange{Smallest: smallest, Largest: largest})
		}
		if f.HasECN {
			if f.ECT0, err = r.varint(); err != nil {
				return fail("ect0", err)
			}
			if f.ECT1, err = r.varint(); err != nil {
				return fail("ect1", err)
			}
			if f.ECNCE, err = r.varint(); err != nil {
				return fail("ecn-ce", err)
			}
		}

	case NameResetStream, NameResetStreamAt:
		if f.StreamID, err = r.varint(); err != nil {
			return fail("stream id", err)
		}
		if f.ErrorCode, err = r.varint(); err != nil {
			return fail("error code", err)
		}
		if f.FinalSize, err = r.varint(); err != nil {
			return fail("final size", err)
		}
		if f.Name == NameResetStreamAt {
			if f.ReliableSize, err = r.varint(); err != nil {
				return fail("reliable size", err)
			}
		}

	case NameStopSending:
		if f.StreamID, err = r.varint(); err != nil {
			return fail("stream id", err)
		}
		if f.ErrorCode, err = r.varint(); err != nil {
			return fail("error code", err)
		}

	case NameCrypto:
		f.HasOff, f.HasLen = true, true
		if f.Offset, err = r.varint(); err != nil {
			return fail("offset", err)
		}
		n, err := r.varint()
		if err != nil {
			return fail("length", err)
		}
		if f.Data, err = r.bytes(n); err != nil {
			return fail("data", err)
		}

	case NameNewToken:
		n, err := r.varint()
		if err != nil {
			return fail("token length", err)
		}
		if f.Token, err = r.bytes(n); err != nil {
			return fail("token", err)
		}

	case NameStream:
		f.HasOff, f.HasLen, f.Fin = typ&0x04 != 0, typ&0x02 != 0, typ&0x01 != 0
		if f.StreamID, err = r.varint(); err != nil {
			return fail("stream id", err)
		}
		if f.HasOff {
			if f.Offset, err = r.varint(); err != nil {
				return fail("offset", err)
			}
		}
		if f.HasLen {
			n, err := r.varint()
			if err != nil {
				return fail("length", err)
			}
			if f.Data, err = r.bytes(n); err != nil {
				return fail("data", err)
			}
		} else {
			f.Data, _ = r.bytes(uint64(r.left()))
		}

	case NameMaxData, NameDataBlocked:
		if f.Max, err = r.varint(); err != nil {
			return fail("value", err)
		}

	case NameMaxStreamData, NameStreamDataBlocked:
		if f.StreamID, err = r.varint(); err != nil {
			return fail("stream id", err)
		}
		if f.Max, err = r.varint(); err != nil {
			return fail("value", err)
		}

	case NameMaxStreams, NameStreamsBlocked:
		f.Bidi = typ&1 == 0
		if f.Max, err = r.varint(); err != nil {
			return fail("value", err)
		}

	case NameNewConnectionID:
		if f.SeqNum, err = r.varint(); err != nil {
			return fail("sequence number", err)
		}
		if f.RetirePriorTo, err = r.varint(); err != nil {
			return fail("retire prior to", err)
		}
		l, err := r.byte()
		if err != nil {
			return fail("length", err)
		}
		if f.ConnID, err = r.bytes(uint64(l)); err != nil {
			return fail("connection id", err)
		}
		tok, err := r.bytes(16)
		if err != nil {
			return fail("stateless reset token", err)
		}
		copy(f.ResetToken[:], tok)

	case NameRetireConnectionID:
		if f.SeqNum, err = r.varint(); err != nil {
			return fail("sequence number", err)
		}

	case NamePathChallenge, NamePathResponse:
		d, err := r.bytes(8)
		if err != nil {
			return fail("data", err)
		}
		copy(f.PathData[:], d)

	case NameConnectionClose:
		f.IsApp = typ == TypeApplicationClose
		if f.ErrorCode, err = r.varint(); err != nil {
			return fail("error code", err)
		}
		if !f.IsApp {
			if f.FrameType, err = r.varint(); err != nil {
				return fail("frame type", err)
			}
		}
		n, err := r.varint()
		if err != nil {
			return fail("reason length", err)
		}
		if f.Reason, err = r.bytes(n); err != nil {
			return fail("reason", err)
		}

	case NameDatagram:
		f.HasLen = typ&1 != 0
		if f.HasLen {
			n, err := r.varint()
			if err != nil {
				return fail("length", err)
			}
			if f.Data, err = r.bytes(n); err != nil {
				return fail("data", err)
			}
		} else {
			f.Data, _ = r.bytes(uint64(r.left()))
		}

	case NameAckFrequency:
		if f.SeqNum, err = r.varint(); err != nil {
			return fail("sequence number", err)
		}
		if f.AckElicitingThreshold, err = r.varint(); err != nil {
			return fail("ack-eliciting threshold", err)
		}
		if f.RequestMaxAckDelay, err = r.varint(); err != nil {
			return fail("requested max ack delay", err)
		}
		if f.ReorderingThreshold, err = r.varint(); err != nil {
			return fail("reordering threshold", err)
		}
	}
	f.WireLen = r.off
	return f, r.off, nil
}

// ParseFrames decodes a whole packet payload. A run of consecutive PADDING bytes becomes one
// PADDING Frame with PaddingLen = WireLen = length of the run. On error the frames decoded so
// far are returned together with the error.
func ParseFrames(payload []byte) ([]Frame, error) {
	var out []Frame
	off := 0
	for off < len(payload) {
		if payload[off] == 0 {
			n := 1
			for off+n < len(payload) && payload[off+n] == 0 {
				n++
			}
			out = append(out, Frame{Type: TypePadding, Name: NamePadding, PaddingLen: n, WireLen: n})
			off += n
			continue
		}
		f, n, err := ParseFrame(payload[off:])
		if err != nil {
			return out, fmt.Errorf("offset %d: %w", off, err)
		}
		out = append(out, f)
		off += n
	}
	return out, nil
}

// WireType returns the frame type varint this Frame encodes to: it is derived from Name and
// the flag fields (STREAM: OFF/LEN/FIN; ACK: ECN; MAX_STREAMS / STREAMS_BLOCKED: Bidi;
// CONNECTION_CLOSE: IsApp; DATAGRAM: HasLen). When Name is empty, Type is used as is.
// For STREAM the OFF bit is set if HasOff is set or Offset is non-zero.
func (f Frame) WireType() uint64 {
	bit := func(c bool, v uint64) uint64 {
		if c {
			return v
		}
		return 0
	}
	switch f.Name {
	case NamePadding:
		return TypePadding
	case NamePing:
		return TypePing
	case NameAck:
		return TypeAck | bit(f.HasECN, 1)
	case NameResetStream:
		return TypeResetStream
	case NameResetStreamAt:
		return TypeResetStreamAt
	case NameStopSending:
		return TypeStopSending
	case NameCrypto:
		return TypeCrypto
	case NameNewToken:
		return TypeNewToken
	case NameStream:
		return TypeStreamBase | bit(f.HasOff || f.Offset != 0, 0x04) | bit(f.HasLen, 0x02) | bit(f.Fin, 0x01)
	case NameMaxData:
		return TypeMaxData
	case NameMaxStreamData:
		return TypeMaxStreamData
	case NameMaxStreams:
		return TypeMaxStreamsBidi | bit(!f.Bidi, 1)
	case NameDataBlocked:
		return TypeDataBlocked
	case NameStreamDataBlocked:
		return TypeStreamDataBlocked
	case NameStreamsBlocked:
		return TypeStreamsBlockedBidi | bit(!f.Bidi, 1)
	case NameNewConnectionID:
		return TypeNewConnectionID
	case NameRetireConnectionID:
		return TypeRetireConnectionID
	case NamePathChallenge:
		return TypePathChallenge
	case NamePathResponse:
		return TypePathResponse
	case NameConnectionClose:
		return TypeConnectionClose | bit(f.IsApp, 1)
	case NameHandshakeDone:
		return TypeHandshakeDone
	case NameImmediateAck:
		return TypeImmediateAck
	case NameDatagram:
		return TypeDatagram | bit(f.HasLen, 1)
	case NameAckFrequency:
		return TypeAckFrequency
	}
	return f.Type
}

// Append appends the encoding of f with minimal varints. The layout is chosen by Name (or by
// Type when Name is empty); the type varint is WireType(). The encoder refuses nothing: it
// writes out-of-range values, empty tokens, over-long connection IDs (the length byte is
// truncated to 8 bits) and ACK ranges as given. ACK ranges must be in descending order and
// non-adjacent for the gap arithmetic to be representable; otherwise Append panics.
// PADDING appends max(PaddingLen,1) zero bytes.
func (f Frame) Append(b []byte) []byte {
	if f.Name == "" {
		f.Name = FrameName(f.Type)
		switch f.Name {
		case NameStream:
			f.HasOff, f.HasLen, f.Fin = f.Type&4 != 0, f.Type&2 != 0, f.Type&1 != 0
		case NameAck:
			f.HasECN = f.Type == TypeAckECN
		case NameMaxStreams, NameStreamsBlocked:
			f.Bidi = f.Type&1 == 0
		case NameConnectionClose:
			f.IsApp = f.Type == TypeApplicationClose
		case NameDatagram:
			f.HasLen = f.Type&1 != 0
		}
	}
	typ := f.WireType()
	if f.Name == NamePadding {
		n := f.PaddingLen
		if n < 1 {
			n = 1
		}
		for i := 0; i < n; i++ {
			b = append(b, 0)
		}
		return b
	}
	b = AppendVarint(b, typ)
	switch f.Name {
	case NamePing, NameHandshakeDone, NameImmediateAck:
	case NameAck:
		if len(f.AckRanges) == 0 {
			panic("refwire: ACK frame without ranges")
		}
		first := f.AckRanges[0]
		b = AppendVarint(b, first.Largest)
		b = AppendVarint(b, f.AckDelay)
		b = AppendVarint(b, uint64(len(f.AckRanges)-1))
		b = AppendVarint(b, first.Largest-first.Smallest)
		prev := first.Smallest
		for _, r := range f.AckRanges[1:] {
			if r.Largest+2 > prev || r.Smallest > r.Largest {
				panic(fmt.Sprintf("refwire: ACK ranges not descending/disjoint: %v", f.AckRanges))
			}
			b = AppendVarint(b, prev-r.Largest-2)
			b = AppendVarint(b, r.Largest-r.Smallest)
			prev = r.Smallest
		}
		if f.HasECN {
			b = AppendVarint(b, f.ECT0)
			b = AppendVarint(b, f.ECT1)
			b = AppendVarint(b, f.ECNCE)
		}
	case NameResetStream, NameResetStreamAt:
		b = AppendVarint(b, f.StreamID)
		b = AppendVarint(b, f.ErrorCode)
		b = AppendVarint(b, f.FinalSize)
		if f.Name == NameResetStreamAt {
			b = AppendVarint(b, f.ReliableSize)
		}
	case NameStopSending:
		b = AppendVarint(b, f.StreamID)
		b = AppendVarint(b, f.ErrorCode)
	case NameCrypto:
		b = AppendVarint(b, f.Offset)
		b = AppendVarint(b, uint64(len(f.Data)))
		b = append(b, f.Data...)
	case NameNewToken:
		b = AppendVarint(b, uint64(len(f.Token)))
		b = append(b, f.Token...)
	case NameStream:
		b = AppendVarint(b, f.StreamID)
		if typ&0x04 != 0 {
			b = AppendVarint(b, f.Offset)
		}
		if typ&0x02 != 0 {
			b = AppendVarint(b, uint64(len(f.Data)))
		}
		b = append(b, f.Data...)
	case NameMaxData, NameDataBlocked, NameMaxStreams, NameStreamsBlocked:
		b = AppendVarint(b, f.Max)
	case NameMaxStreamData, NameStreamDataBlocked:
		b = AppendVarint(b, f.StreamID)
		b = AppendVarint(b, f.Max)
	case NameNewConnectionID:
		b = AppendVarint(b, f.SeqNum)
		b = AppendVarint(b, f.RetirePriorTo)
		b = append(b, byte(len(f.ConnID)))
		b = append(b, f.ConnID...)
		b = append(b, f.ResetToken[:]...)
	case NameRetireConnectionID:
		b = AppendVarint(b, f.SeqNum)
	case NamePathChallenge, NamePathResponse:
		b = append(b, f.PathData[:]...)
	case NameConnectionClose:
		b = AppendVarint(b, f.ErrorCode)
		if !f.IsApp {
			b = AppendVarint(b, f.FrameType)
		}
		b = AppendVarint(b, uint64(len(f.Reason)))
		b = append(b, f.Reason...)
	case NameDatagram:
		if f.HasLen {
			b = AppendVarint(b, uint64(len(f.Data)))
		}
		b = append(b, f.Data...)
	case NameAckFrequency:
		b = AppendVarint(b, f.SeqNum)
		b = AppendVarint(b, f.AckElicitingThreshold)
		b = AppendVarint(b, f.RequestMaxAckDelay)
		b = AppendVarint(b, f.ReorderingThreshold)
	default:
		// unknown type: just the type varint
	}
	return b
}

// MaxStreams is the largest stream count RFC 9000 allows in MAX_STREAMS / STREAMS_BLOCKED and
// the initial_max_streams_* transport parameters (2^60).
const MaxStreams = uint64(1) << 60

// Check reports the first RFC 9000 (or extension) rule that makes a receiver treat this
// structurally valid frame as an error, or nil. Rules:
//   - NEW_TOKEN with an empty token (19.7: FRAME_ENCODING_ERROR);
//   - MAX_STREAMS / STREAMS_BLOCKED above 2^60 (19.11, 19.14);
//   - NEW_CONNECTION_ID with Retire Prior To > Sequence Number, or a connection ID length
//     outside 1..20 (19.15);
//   - STREAM whose offset + length exceeds 2^62-1 (19.8), CRYPTO likewise (19.6);
//   - RESET_STREAM_AT with Reliable Size > Final Size (draft, section 3).
func (f Frame) Check() error {
	switch f.Name {
	case NameNewToken:
		if len(f.Token) == 0 {
			return errors.New("NEW_TOKEN: empty token")
		}
	case NameMaxStreams, NameStreamsBlocked:
		if f.Max > MaxStreams {
			return fmt.Errorf("%s: %d exceeds 2^60", f.Name, f.Max)
		}
	case NameNewConnectionID:
		if f.RetirePriorTo > f.SeqNum {
			return fmt.Errorf("NEW_CONNECTION_ID: retire prior to %d > sequence number %d", f.RetirePriorTo, f.SeqNum)
		}
		if len(f.ConnID) < 1 || len(f.ConnID) > 20 {
			return fmt.Errorf("NEW_CONNECTION_ID: invalid connection ID length %d", len(f.ConnID))
		}
	case NameStream, NameCrypto:
		if f.Offset+uint64(len(f.Data)) > MaxVarint {
			return fmt.Errorf("%s: data extends beyond 2^62-1", f.Name)
		}
	case NameResetStreamAt:
		if f.ReliableSize > f.FinalSize {
			return fmt.Errorf("RESET_STREAM_AT: reliable size %d > final size %d", f.ReliableSize, f.FinalSize)
		}
	}
	return nil
}

// Encryption levels / packet number spaces for AllowedIn.
const (
	LevelInitial = iota
	Level0RTT
	LevelHandshake
	Level1RTT
)

// AllowedIn reports whether a frame of the given type may appear in a packet of the given
// level, transcribed from the "Pkts" column of RFC 9000 Table 3 (IH01 / IH_1 / __01 / ___1 /
// ih01) and the text of section 12.4/12.5. Extension frames (DATAGRAM: RFC 9221 section 4;
// RESET_STREAM_AT; ACK_FREQUENCY / IMMEDIATE_ACK) are application-data frames: 0-RTT and 1-RTT.
// Unknown types report false.
func AllowedIn(typ uint64, level int) bool {
	name := FrameName(typ)
	switch name {
	case "":
		return false
	case NamePadding, NamePing: // IH01
		return true
	case NameCrypto: // IH_1
		return level != Level0RTT
	case NameAck: // IH_1
		return level != Level0RTT
	case NameConnectionClose:
		if typ == TypeConnectionClose { // ih01
			return true
		}
		return level == Level0RTT || level == Level1RTT // __01
	case NameNewToken, NamePathResponse, NameHandshakeDone: // ___1
		return level == Level1RTT
	case NameRetireConnectionID:
		// Table 3 lists __01, but section 12.5 notes a client has no connection ID to retire
		// in 0-RTT; the table is the normative column.
		return level == Level0RTT || level == Level1RTT
	default: // __01
		return level == Level0RTT || level == Level1RTT
	}
}
