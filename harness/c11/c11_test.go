// C11: ClientHello and transport parameters on the wire are exactly what the spec says.
//
// Engine: black-hole capture of the first flight (independent observer: refcrypto + refwire + own TLS
// reader), pure-function PBT of suppression / shuffle / TransportParameterIDs, a chi-square test of the
// per-dial permutation, and the third-party fingerprinter clienthellod over the captured datagrams.
package c11

import (
	"bytes"
	"encoding/binary"
	"fmt"
	"github.com/refraction-networking/uquic/internal/utils"
	"io"
	"log"
	"sort"
	"strings"
	"testing"
	"time"

	"github.com/refraction-networking/clienthellod"
	tls "github.com/refraction-networking/utls"
	"pgregory.net/rapid"

	quic "github.com/refraction-networking/uquic"
	"github.com/refraction-networking/uquic/verif/refwire"
	"github.com/refraction-networking/uquic/verif/sim"
	"github.com/refraction-networking/uquic/verif/specgen"
	"github.com/refraction-networking/uquic/verif/vf"
)

func TestMain(m *testing.M) { vf.Main(m) }

var curT *testing.T

type Case struct {
	Spec  specgen.Desc `json:"spec"`
	Dials int          `json:"dials"`
	// PreIDs: how often QUICSpec.TransportParameterIDs() is called before each dial (the documented pre-dial check)
	PreIDs int `json:"pre_ids,omitempty"`
	// Reuse: both dials use the same QUICSpec value (one spec value may serve many connections) instead of a fresh one
	Reuse bool `json:"reuse,omitempty"`
	// DebugLog: the process runs with QUIC_GO_LOG_LEVEL=debug (log output discarded)
	DebugLog bool `json:"debug_log,omitempty"`
}

func genCase(t *rapid.T) Case {
	c := Case{Dials: 2, PreIDs: rapid.SampledFrom([]int{0, 0, 1, 2}).Draw(t, "pre-ids"), Reuse: rapid.IntRange(0, 2).Draw(t, "reuse") == 0,
		DebugLog: rapid.IntRange(0, 3).Draw(t, "debuglog") == 0}
	c.Spec = specgen.Desc{Base: rapid.SampledFrom(specgen.BaseNames()).Draw(t, "base")}
	if rapid.IntRange(0, 3).Draw(t, "own-tps") != 0 {
		c.Spec.TPs = specgen.GenTPsOpt(t, 2, 10, specgen.TPOptions{RawStd: true})
	}
	if rapid.IntRange(0, 2).Draw(t, "e-suppress") != 0 {
		pool := []uint64{0x01, 0x03, 0x04, 0x05, 0x06, 0x07, 0x08, 0x09, 0x0b, 0x0c, 0x0e, 0x20, 27, 27, 0x11, 0x2ab2, 0x4752, 0x3127, 0x7157, 12345, 58, 999}
		n := rapid.IntRange(1, 5).Draw(t, "nsupp")
		for i := 0; i < n; i++ {
			c.Spec.Suppress = append(c.Spec.Suppress, rapid.SampledFrom(pool).Draw(t, "supp"))
		}
	}
	r := rapid.Bool().Draw(t, "randomize")
	c.Spec.Randomize = &r
	if rapid.IntRange(0, 3).Draw(t, "e-src") == 0 {
		v := rapid.SampledFrom([]int{0, 4, 8, 20}).Draw(t, "src")
		c.Spec.SrcCID = &v
	}
	// initial_source_connection_id in raw form meets a non-empty source connection ID often (Chrome bases have none)
	if rawISCID(c.Spec.TPs) && c.Spec.SrcCID == nil && rapid.Bool().Draw(t, "e-src-raw") {
		v := rapid.SampledFrom([]int{4, 8, 20}).Draw(t, "src-raw")
		c.Spec.SrcCID = &v
	}
	return c
}

func rawISCID(tps []specgen.TPDesc) bool {
	for _, tp := range tps {
		if tp.K == "fake" && tp.ID == 0x0f {
			return true
		}
	}
	return false
}

type idval struct {
	id uint64
	v  []byte
	// fill: the typed placeholder tls.InitialSourceConnectionID{} ("if empty, will be set to the Connection ID used for
	// the Initial packet", utls). Only that one is filled in; a parameter in raw form (tls.FakeQUICTransportParameter)
	// says what its bytes are, also when the id is 0x0f and the value is empty.
	fill bool
}

func (x idval) String() string { return fmt.Sprintf("%#x=%x", x.id, norm(x.id, x.v)) }

// norm masks what uTLS re-draws on every Value() call: the GREASE versions (0x?a?a?a?a) inside version_information.
func norm(id uint64, v []byte) []byte {
	if (id != 0x11 && id != 0xff73db) || len(v)%4 != 0 {
		return v
	}
	out := append([]byte(nil), v...)
	for i := 0; i+4 <= len(out); i += 4 {
		// uTLS draws it as rand|0x0a0a0a0a (so the low nibbles are a, b, e or f), anew on every Value() call
		if out[i]&0x0a == 0x0a && out[i+1]&0x0a == 0x0a && out[i+2]&0x0a == 0x0a && out[i+3]&0x0a == 0x0a {
			copy(out[i:], []byte{0x0a, 0x0a, 0x0a, 0x0a})
		}
	}
	return out
}

func qtpExt(spec *quic.QUICSpec) *tls.QUICTransportParametersExtension {
	if spec.ClientHelloSpec == nil {
		return nil
	}
	for _, e := range spec.ClientHelloSpec.Extensions {
		if q, ok := e.(*tls.QUICTransportParametersExtension); ok {
			return q
		}
	}
	return nil
}

// expectedTPs: the spec's (id, value) list after suppression, as an independent reading of the documentation
// of QUICSpec.SuppressTransportParameters (listed ids removed; 27 removes every 31N+27).
func expectedTPs(spec *quic.QUICSpec, scid []byte) []idval {
	q := qtpExt(spec)
	drop := map[uint64]bool{}
	grease := false
	for _, id := range spec.SuppressTransportParameters {
		if id == 27 {
			grease = true
		}
		drop[id] = true
	}
	var out []idval
	for _, tp := range q.TransportParameters {
		id := tp.ID()
		if drop[id] || (grease && id >= 27 && (id-27)%31 == 0) {
			continue
		}
		v := tp.Value()
		_, typed := tp.(tls.InitialSourceConnectionID)
		fill := typed && len(v) == 0
		if fill {
			v = scid // the empty typed initial_source_connection_id is filled in with the connection's own ID
		}
		out = append(out, idval{id, append([]byte(nil), v...), fill})
	}
	return out
}

func extID(e tls.TLSExtension) (id int, known bool) {
	if _, ok := e.(*tls.UtlsGREASEExtension); ok {
		return -1, true
	}
	n := e.Len()
	if n < 4 {
		return 0, false
	}
	b := make([]byte, n)
	if _, err := e.Read(b); err != nil && err.Error() != "EOF" {
		return 0, false
	}
	return int(binary.BigEndian.Uint16(b)), true
}

func checkCase(c Case, u *vf.Unit) *vf.Verdict {
	u.Journal(c)
	if c.DebugLog {
		// what the wire carries must not depend on whether anybody is listening to the logger
		log.SetOutput(io.Discard)
		utils.DefaultLogger.SetLogLevel(utils.LogLevelDebug)
		defer utils.DefaultLogger.SetLogLevel(utils.LogLevelNothing)
		u.Class("debug-logging-on")
	}
	var perms []string
	var spec *quic.QUICSpec
	var pristine []idval
	for dial := 0; dial < c.Dials; dial++ {
		if spec == nil || !c.Reuse {
			var err error
			spec, err = c.Spec.Build() // a fresh spec per dial, as QUICID2Spec documents - or one value for all dials
			if err != nil {
				return vf.Bad("C11/harness/spec-build", "%v", err)
			}
			// what the spec says before anything has been done with it (own reading of the list and of the suppression set)
			pristine = expectedTPs(spec, nil)
		}
		want := make([]idval, len(pristine))
		for i, iv := range pristine {
			want[i] = idval{iv.id, append([]byte(nil), iv.v...), iv.fill}
		}
		var preReports [][]uint64
		for i := 0; i < c.PreIDs; i++ {
			preReports = append(preReports, spec.TransportParameterIDs())
		}
		var f specgen.Flight
		pv := vf.Guard("C11/dial", func() *vf.Verdict {
			f = specgen.CaptureBlackhole(curT, spec, nil, 150*time.Millisecond, true)
			return nil
		})
		if pv != nil {
			pv.Sig = "C11/dial/panic"
			return pv
		}
		if f.CH == nil {
			if f.FirstBurst >= 10 {
				return nil
			}
			return vf.Bad("C11/flight/no-clienthello", "dial %d: no complete ClientHello in the first flight (dial error %v, %d datagrams)", dial+1, f.DialErr, len(f.Datagrams))
		}
		ch := f.CH
		var scid []byte
		for _, p := range f.Datagrams[0].Packets {
			if p.Kind == "initial" {
				scid = p.SCID
			}
		}
		// ---- transport parameters
		raw, ok := ch.Ext(0x39)
		if !ok {
			return vf.Bad("C11/tp/extension-missing", "dial %d: ClientHello has no quic_transport_parameters extension", dial+1)
		}
		wire, err := refwire.ParseTransportParameters(raw)
		if err != nil {
			return vf.Bad("C11/tp/malformed", "dial %d: quic_transport_parameters does not parse: %v (%x)", dial+1, err, raw)
		}
		for i := range want {
			if want[i].fill {
				want[i].v = scid // the typed placeholder is filled in with the connection's own ID
			}
		}
		if c.Reuse && dial > 0 {
			u.Class("spec-value-reused")
		}
		if after := expectedTPs(spec, scid); fmt.Sprint(after) != fmt.Sprint(want) {
			return vf.Bad("C11/tp/spec-rewritten", "dial %d: the spec's parameter list read after %d TransportParameterIDs() calls and a dial is %s, before it was %s", dial+1, c.PreIDs, fmt.Sprint(after), fmt.Sprint(want))
		}
		var got []idval
		for _, p := range wire {
			got = append(got, idval{p.ID, p.Value, false})
		}
		gs, ws := fmt.Sprint(got), fmt.Sprint(want)
		if spec.RandomizeTransportParameters {
			a, b := append([]idval(nil), got...), append([]idval(nil), want...)
			key := func(x []idval) { sort.Slice(x, func(i, j int) bool { return x[i].String() < x[j].String() }) }
			key(a)
			key(b)
			if fmt.Sprint(a) != fmt.Sprint(b) {
				return vf.Bad("C11/tp/set-differs", "dial %d (randomised): wire parameters %s, spec after suppression %s", dial+1, gs, ws)
			}
			perms = append(perms, gs)
		} else if gs != ws {
			return vf.Bad("C11/tp/list-differs", "dial %d: wire parameters %s, spec after suppression (in order) %s; suppress=%v", dial+1, gs, ws, spec.SuppressTransportParameters)
		}
		// TransportParameterIDs() = what a canonicalising fingerprinter sees
		var fold []uint64
		for _, p := range wire {
			id := p.ID
			if id >= 27 && (id-27)%31 == 0 {
				id = 27
			}
			fold = append(fold, id)
		}
		sort.Slice(fold, func(i, j int) bool { return fold[i] < fold[j] })
		for i, rep := range append(preReports, spec.TransportParameterIDs(), spec.TransportParameterIDs()) {
			if fmt.Sprint(rep) != fmt.Sprint(fold) && !(len(rep) == 0 && len(fold) == 0) {
				return vf.Bad("C11/tp/reported-ids", "dial %d: QUICSpec.TransportParameterIDs() call %d (%d of them before the dial) = %v, canonicalised wire ids = %v", dial+1, i+1, len(preReports), rep, fold)
			}
		}
		if c.PreIDs > 0 && len(spec.SuppressTransportParameters) > 0 {
			u.Class("ids-reported-before-dial-with-suppression")
		}
		// ---- ClientHello against the ClientHelloSpec
		chs := spec.ClientHelloSpec
		if len(ch.CipherSuites) != len(chs.CipherSuites) {
			return vf.Bad("C11/ch/cipher-suites", "dial %d: %d cipher suites on the wire, spec lists %d", dial+1, len(ch.CipherSuites), len(chs.CipherSuites))
		}
		for i, cs := range chs.CipherSuites {
			w := ch.CipherSuites[i]
			if cs == tls.GREASE_PLACEHOLDER {
				if !sim.IsGREASE16(w) {
					return vf.Bad("C11/ch/cipher-suites", "dial %d: cipher suite %d is %#x, spec has a GREASE placeholder", dial+1, i, w)
				}
			} else if w != cs {
				return vf.Bad("C11/ch/cipher-suites", "dial %d: cipher suite %d is %#x, spec says %#x", dial+1, i, w, cs)
			}
		}
		var wantExt []int
		for _, e := range chs.Extensions {
			if id, ok := extID(e); ok {
				wantExt = append(wantExt, id)
			} else {
				// conditional extensions (padding when no padding is due, pre_shared_key without a session)
				switch e.(type) {
				case *tls.UtlsPaddingExtension, *tls.UtlsPreSharedKeyExtension, *tls.FakePreSharedKeyExtension:
				default:
					wantExt = append(wantExt, -2) // unknown: wildcard
				}
			}
		}
		var gotExt []int
		for _, e := range ch.Extensions {
			if sim.IsGREASE16(e.ID) {
				gotExt = append(gotExt, -1)
			} else {
				gotExt = append(gotExt, int(e.ID))
			}
		}
		if !extOrderMatches(wantExt, gotExt) {
			return vf.Bad("C11/ch/extension-order", "dial %d: extension ids on the wire %v, spec order %v (-1 = GREASE, padding 21 / pre_shared_key 41 may be absent)", dial+1, gotExt, wantExt)
		}
		if ch.SNI() != sim.ServerName {
			return vf.Bad("C11/ch/sni", "dial %d: SNI %q, configured server name %q", dial+1, ch.SNI(), sim.ServerName)
		}
		for _, e := range chs.Extensions {
			switch x := e.(type) {
			case *tls.ALPNExtension:
				if fmt.Sprint(ch.ALPN()) != fmt.Sprint(x.AlpnProtocols) {
					return vf.Bad("C11/ch/alpn", "dial %d: ALPN %v, spec %v", dial+1, ch.ALPN(), x.AlpnProtocols)
				}
			case *tls.KeyShareExtension:
				ks := ch.KeyShareGroups()
				if len(ks) != len(x.KeyShares) {
					return vf.Bad("C11/ch/key-share", "dial %d: %d key shares, spec %d", dial+1, len(ks), len(x.KeyShares))
				}
				for i, k := range x.KeyShares {
					g := uint16(k.Group)
					if g == tls.GREASE_PLACEHOLDER {
						if !sim.IsGREASE16(uint16(ks[i][0])) {
							return vf.Bad("C11/ch/key-share", "dial %d: key share %d group %#x, spec has GREASE", dial+1, i, ks[i][0])
						}
					} else if int(g) != ks[i][0] {
						return vf.Bad("C11/ch/key-share", "dial %d: key share %d group %#x, spec %#x", dial+1, i, ks[i][0], g)
					}
				}
			}
		}
		u.Class("dial-checked")
	}
	if len(perms) >= 2 && len(qtpExt2(c)) >= 4 && perms[0] == perms[1] {
		u.Class("same-permutation-twice") // expected with probability 1/n!; counted, not a violation
	}
	d := c.Spec
	classifyRaw(c, spec, u)
	hasGrease, hasFake := false, false
	for _, t := range d.TPs {
		hasGrease = hasGrease || t.K == "grease"
		hasFake = hasFake || t.K == "fake"
	}
	if len(d.TPs) == 0 {
		u.Class("base-tps")
		hasGrease = true
	}
	if (hasGrease || hasFake) && len(d.Suppress) > 0 {
		u.NonTrivial(fmt.Sprintf("%+v", d))
		if u.WantSample() {
			u.Sample(c)
		}
	}
	return nil
}

// classifyRaw counts the raw-form dimension of a checked case.
func classifyRaw(c Case, spec *quic.QUICSpec, u *vf.Unit) {
	scidLen := spec.InitialPacketSpec.SrcConnIDLength
	suppressed := map[uint64]bool{}
	for _, id := range c.Spec.Suppress {
		suppressed[id] = true
	}
	std := map[uint64]bool{0x01: true, 0x03: true, 0x04: true, 0x05: true, 0x06: true, 0x07: true, 0x08: true, 0x09: true, 0x0a: true, 0x0b: true, 0x0c: true, 0x0e: true, 0x20: true, 0x2ab2: true}
	for _, tp := range c.Spec.TPs {
		if suppressed[tp.ID] && tp.K == "fake" {
			continue
		}
		switch {
		case tp.K == "iscid" && len(tp.V) == 0:
			u.Class("iscid:typed-placeholder")
		case tp.K == "iscid":
			u.Class("iscid:typed-value")
		case tp.K == "fake" && tp.ID == 0x0f && len(tp.V) == 0 && scidLen > 0:
			u.Class("iscid:raw-empty,scid>0")
		case tp.K == "fake" && tp.ID == 0x0f && len(tp.V) == 0:
			u.Class("iscid:raw-empty,scid=0")
		case tp.K == "fake" && tp.ID == 0x0f:
			u.Class("iscid:raw-value")
		case tp.K == "fake" && std[tp.ID]:
			v, n, err := refwire.ReadVarint(tp.V)
			ok := err == nil
			switch {
			case len(tp.V) == 0:
				u.Class("raw-std:empty")
			case ok && n == len(tp.V) && n > refwire.VarintLen(v):
				u.Class("raw-std:non-minimal-varint")
			case ok && n == len(tp.V):
				u.Class("raw-std:minimal-varint")
			default:
				u.Class("raw-std:bytes")
			}
		}
	}
}

func qtpExt2(c Case) []specgen.TPDesc { return c.Spec.TPs }

// extOrderMatches: got must equal want after deleting from want some entries that are allowed to be absent
// (padding 21, pre_shared_key 41, wildcard -2), in order.
func extOrderMatches(want, got []int) bool {
	i := 0
	for _, w := range want {
		if i < len(got) && (got[i] == w || w == -2) {
			i++
			continue
		}
		if w == 21 || w == 41 || w == -2 {
			continue
		}
		return false
	}
	return i == len(got)
}

func TestWireParameters(t *testing.T) {
	curT = t
	vf.ReplayRepeat = 5
	vf.RunRapid(t, "wire-params", genCase, checkCase)
}

// ---------------------------------------------------------------------------------------------------
// pure functions: suppression and shuffle

type PureCase struct {
	TPs      []specgen.TPDesc `json:"tps"`
	Suppress []uint64         `json:"suppress"`
}

func genPure(t *rapid.T) PureCase {
	c := PureCase{TPs: specgen.GenTPsOpt(t, 0, 12, specgen.TPOptions{RawStd: true})}
	pool := []uint64{0x01, 0x03, 0x04, 0x05, 0x06, 0x07, 0x08, 0x09, 0x0b, 0x0e, 0x0f, 0x20, 27, 27, 58, 0x11, 0x2ab2, 0x4752, 0x3127, 0x7157, 12345, 999}
	n := rapid.IntRange(0, 6).Draw(t, "nsupp")
	for i := 0; i < n; i++ {
		c.Suppress = append(c.Suppress, rapid.SampledFrom(pool).Draw(t, "supp"))
	}
	return c
}

func listOf(q *tls.QUICTransportParametersExtension) []idval {
	var out []idval
	for _, tp := range q.TransportParameters {
		out = append(out, idval{tp.ID(), append([]byte(nil), tp.Value()...), false})
	}
	return out
}

func checkPure(c PureCase, u *vf.Unit) *vf.Verdict {
	q := &tls.QUICTransportParametersExtension{}
	for _, t := range c.TPs {
		q.TransportParameters = append(q.TransportParameters, t.ToTLS())
	}
	before := listOf(q)
	drop := map[uint64]bool{}
	grease := false
	for _, id := range c.Suppress {
		drop[id] = true
		grease = grease || id == 27
	}
	var want []idval
	removed := 0
	for _, x := range before {
		if drop[x.id] || (grease && x.id >= 27 && (x.id-27)%31 == 0) {
			removed++
			continue
		}
		want = append(want, x)
	}
	r := quic.SuppressQUICTransportParameters(q, c.Suppress)
	if r != q {
		return vf.Bad("C11/suppress/return", "SuppressQUICTransportParameters does not return its argument")
	}
	after := listOf(q)
	if fmt.Sprint(after) != fmt.Sprint(want) {
		return vf.Bad("C11/suppress/wrong-set", "suppress %v on %v gives %v, want %v (exactly the listed ids removed, order kept)", c.Suppress, before, after, want)
	}
	quic.SuppressQUICTransportParameters(q, c.Suppress)
	if again := listOf(q); fmt.Sprint(again) != fmt.Sprint(want) {
		return vf.Bad("C11/suppress/not-idempotent", "second application changes the list: %v -> %v", want, again)
	}
	// shuffle: a permutation of the same multiset
	quic.ShuffleQUICTransportParameters(q)
	sh := listOf(q)
	a, b := append([]idval(nil), sh...), append([]idval(nil), want...)
	sort.Slice(a, func(i, j int) bool { return a[i].String() < a[j].String() })
	sort.Slice(b, func(i, j int) bool { return b[i].String() < b[j].String() })
	if fmt.Sprint(a) != fmt.Sprint(b) {
		return vf.Bad("C11/shuffle/not-a-permutation", "shuffle turned %v into %v", want, sh)
	}
	// IsGREASEQTPID agrees with 31N+27
	for _, x := range before {
		if quic.IsGREASEQTPID(x.id) != (x.id >= 27 && (x.id-27)%31 == 0) {
			return vf.Bad("C11/suppress/grease-predicate", "IsGREASEQTPID(%d) wrong", x.id)
		}
	}
	if removed > 0 {
		u.Class("removed-some")
	}
	if grease {
		u.Class("suppress-grease")
	}
	if removed > 0 && removed < len(before) {
		u.NonTrivial(fmt.Sprint(before), fmt.Sprint(c.Suppress))
	}
	return nil
}

func TestSuppressShufflePure(t *testing.T) { vf.RunRapid(t, "suppress-pure", genPure, checkPure) }

// ---------------------------------------------------------------------------------------------------
// distribution of the per-dial permutation

func permIndex(order []uint64) string { return fmt.Sprint(order) }

// chi-square critical values at significance 1e-9 (scipy.stats.chi2.isf(1e-9, dof))
var chi2Crit = map[int]float64{5: 50.70, 23: 89.12, 2: 41.45, 3: 44.85}

func TestShuffleDistribution(t *testing.T) {
	curT = t
	u := vf.U("shuffle-distribution")
	if vf.ReplayMode() {
		t.Skip()
	}
	report := func(v *vf.Verdict) {
		if u.Report(v, map[string]any{"note": "statistical test"}) {
			t.Fatalf("VIOLATION %s: %s", v.Sig, v.Detail)
		}
	}
	// (1) the shuffle function itself: all n! permutations, uniform frequencies
	for _, n := range []int{3, 4} {
		M := 30000
		counts := map[string]int{}
		pos := make([][]int, n)
		for i := range pos {
			pos[i] = make([]int, n)
		}
		for k := 0; k < M; k++ {
			q := &tls.QUICTransportParametersExtension{}
			for i := 0; i < n; i++ {
				q.TransportParameters = append(q.TransportParameters, &tls.FakeQUICTransportParameter{Id: uint64(0x1000 + i), Val: []byte{byte(i)}})
			}
			quic.ShuffleQUICTransportParameters(q)
			var order []uint64
			for p, tp := range q.TransportParameters {
				order = append(order, tp.ID())
				pos[int(tp.ID()-0x1000)][p]++
			}
			counts[permIndex(order)]++
		}
		u.Cases(M)
		fact := 1
		for i := 2; i <= n; i++ {
			fact *= i
		}
		if len(counts) != fact {
			report(vf.Bad("C11/shuffle/permutation-unreachable", "n=%d: only %d of %d permutations occur in %d shuffles", n, len(counts), fact, M))
		}
		exp := float64(M) / float64(fact)
		chi := 0.0
		for _, c := range counts {
			chi += (float64(c) - exp) * (float64(c) - exp) / exp
		}
		chi += float64(fact-len(counts)) * exp
		if chi > chi2Crit[fact-1] {
			report(vf.Bad("C11/shuffle/not-uniform", "n=%d: chi-square %.1f over %d permutations exceeds the 1e-9 critical value %.1f (counts %v)", n, chi, fact, chi2Crit[fact-1], counts))
		}
		// position frequencies of each element
		for e := 0; e < n; e++ {
			chiP := 0.0
			ep := float64(M) / float64(n)
			for p := 0; p < n; p++ {
				chiP += (float64(pos[e][p]) - ep) * (float64(pos[e][p]) - ep) / ep
			}
			if chiP > chi2Crit[n-1] {
				report(vf.Bad("C11/shuffle/not-uniform", "n=%d: element %d position frequencies %v, chi-square %.1f > %.1f", n, e, pos[e], chiP, chi2Crit[n-1]))
			}
		}
		u.NonTrivial("fn", n)
	}
	// (2) the wiring: per dial a fresh permutation when RandomizeTransportParameters is on (one spec value, many dials)
	M := 600
	if vf.Thorough() {
		M = 3000
	}
	tr := true
	d := specgen.Desc{Base: "firefoxA", Randomize: &tr, TPs: []specgen.TPDesc{{K: "iscid"}, {K: "idle", N: 30000}, {K: "maxdata", N: 1 << 20}}}
	spec, err := d.Build()
	if err != nil {
		t.Fatal(err)
	}
	counts := map[string]int{}
	for k := 0; k < M; k++ {
		f := specgen.CaptureBlackhole(t, spec, nil, 100*time.Millisecond, true)
		if f.CH == nil {
			report(vf.Bad("C11/flight/no-clienthello", "distribution dial %d: no ClientHello (err %v)", k, f.DialErr))
			return
		}
		raw, _ := f.CH.Ext(0x39)
		ps, _ := refwire.ParseTransportParameters(raw)
		var order []uint64
		for _, p := range ps {
			order = append(order, p.ID)
		}
		counts[permIndex(order)]++
	}
	u.Cases(M)
	if len(counts) != 6 {
		report(vf.Bad("C11/shuffle/permutation-unreachable", "dials with one reused spec value: only %d of 6 permutations of 3 parameters in %d dials: %v", len(counts), M, counts))
	}
	exp := float64(M) / 6
	chi := 0.0
	for _, c := range counts {
		chi += (float64(c) - exp) * (float64(c) - exp) / exp
	}
	chi += float64(6-len(counts)) * exp
	if chi > chi2Crit[5] {
		report(vf.Bad("C11/shuffle/not-uniform", "per-dial permutations over %d dials: chi-square %.1f > %.1f (counts %v)", M, chi, chi2Crit[5], counts))
	}
	u.NonTrivial("dial", 3)
	u.Extra("distribution", fmt.Sprintf("30000 shuffles each for n=3,4 (all n! permutations, chi-square at 1e-9 on permutations and positions); %d dials of one reused spec value with 3 parameters", M))
}

// ---------------------------------------------------------------------------------------------------
// fingerprint identifier stability (clienthellod over the captured datagrams)

func fingerprint(f specgen.Flight) (string, error) {
	gci := clienthellod.GatherClientInitialsWithDeadline(time.Now().Add(time.Minute))
	for i, d := range f.Datagrams {
		if i >= f.FirstBurst {
			break
		}
		ci, err := clienthellod.UnmarshalQUICClientInitialPacket(d.Raw)
		if err != nil {
			return "", fmt.Errorf("datagram %d: %w", i, err)
		}
		if err := gci.AddPacket(ci); err != nil {
			return "", fmt.Errorf("datagram %d: %w", i, err)
		}
		if gci.Completed() {
			break
		}
	}
	if !gci.Completed() {
		return "", fmt.Errorf("fingerprinter could not complete the ClientHello from %d datagrams", f.FirstBurst)
	}
	fp, err := clienthellod.GenerateQUICFingerprint(gci)
	if err != nil {
		return "", err
	}
	return fp.HexID, nil
}

func TestFingerprintStability(t *testing.T) {
	curT = t
	u := vf.U("fingerprint")
	if vf.ReplayMode() {
		t.Skip()
	}
	n := 60
	if vf.Thorough() {
		n = 400
	}
	recorded := map[string]bool{"chrome115": true, "chrome115v6": true, "firefoxA": true, "firefoxB": true, "firefoxC": true}
	for _, base := range specgen.BaseNames() {
		ids := map[string]int{}
		id := specgen.Bases[base]
		for k := 0; k < n; k++ {
			spec, err := quic.QUICID2Spec(id) // fresh spec per dial, as documented
			if err != nil {
				t.Fatal(err)
			}
			f := specgen.CaptureBlackhole(t, &spec, nil, 100*time.Millisecond, true)
			u.Case()
			hex, err := fingerprint(f)
			if err != nil {
				v := vf.Bad("C11/fingerprint/unreadable", "%s dial %d: %v", base, k, err)
				if u.Report(v, map[string]any{"base": base}) {
					t.Fatalf("VIOLATION %s: %s", v.Sig, v.Detail)
				}
				continue
			}
			ids[hex]++
		}
		if len(ids) != 1 {
			sig := "C11/fingerprint/unstable"
			if strings.HasPrefix(base, "chrome115") {
				sig = "C11/fingerprint/unstable-ping0"
			}
			v := vf.Bad(sig, "%s: %d different fingerprint identifiers over %d dials: %v (recorded %s)", base, len(ids), n, ids, id.Fingerprint)
			if u.Report(v, map[string]any{"base": base, "ids": ids}) {
				t.Fatalf("VIOLATION %s: %s", v.Sig, v.Detail)
			}
		}
		if recorded[base] {
			if _, ok := ids[id.Fingerprint]; !ok {
				v := vf.Bad("C11/fingerprint/not-recorded-id", "%s: identifiers %v, QUICID records %s", base, ids, id.Fingerprint)
				if u.Report(v, map[string]any{"base": base, "ids": ids}) {
					t.Fatalf("VIOLATION %s: %s", v.Sig, v.Detail)
				}
			}
		}
		u.NonTrivial(base)
		u.Class("base:" + base)
	}
	_ = bytes.Equal
}
