package c02

import (
	"encoding/json"
	"os"
	"testing"

	"github.com/refraction-networking/uquic/verif/vf"
)

// TestDbg runs one spec-dial case given as JSON in C02_CASE (C02_TRACE=1 also prints the datagram trace):
//
//	C02_CASE='{"spec":{"base":"firefoxA"},"dials":1,"server":{},"rtt_ms":2,"echo":10,"seed":1}' go1.26.8 test -tags verif -count=1 -run TestDbg ./c02 -v
func TestDbg(t *testing.T) {
	js := os.Getenv("C02_CASE")
	if js == "" {
		t.Skip()
	}
	curT = t
	var c Case
	if err := json.Unmarshal([]byte(js), &c); err != nil {
		t.Fatal(err)
	}
	u := vf.U("dbg")
	v := checkCase(c, u)
	if v != nil {
		t.Logf("VERDICT %s: %s", v.Sig, v.Detail)
		if os.Getenv("C02_TRACE") != "" {
			b, _ := json.MarshalIndent(v.Trace, "", " ")
			t.Logf("%s", b)
		}
	} else {
		t.Logf("held")
	}
}
