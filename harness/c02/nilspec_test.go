package c02

import (
	"bytes"
	"context"
	"fmt"
	"io"
	"net"
	"sort"
	"strings"
	"testing"
	"time"

	"pgregory.net/rapid"

	quic "github.com/refraction-networking/uquic"
	"github.com/refraction-networking/uquic/verif/sim"
	"github.com/refraction-networking/uquic/verif/vf"
)

// NilCase: one scenario executed twice, through Transport.Dial and through UTransport{QUICSpec: nil}.Dial.
type NilCase struct {
	V2        bool        `json:"v2,omitempty"`
	Datagrams bool        `json:"datagrams,omitempty"`
	InitSize  int         `json:"initial_packet_size,omitempty"`
	Server    ServerCfg   `json:"server"`
	RTTms     int         `json:"rtt_ms"`
	EchoSize  int         `json:"echo"`
	Faults    []sim.Fault `json:"faults,omitempty"`
	Seed      uint64      `json:"seed"`
}

type flightSummary struct {
	Outcome    string
	FirstPNs   []uint64
	PNLens     []int
	TokenLens  []int
	SCIDLens   []int
	Sizes      []int
	FrameKinds []string // per first-flight packet: sorted set of frame names
	CHComplete bool
	Version    uint32
}

type plainSummary flightSummary

func (s flightSummary) String() string { return fmt.Sprintf("%+v", plainSummary(s)) }

func genNilCase(t *rapid.T) NilCase {
	c := NilCase{Seed: rapid.Uint64().Draw(t, "seed"), V2: rapid.Bool().Draw(t, "v2"), Datagrams: rapid.Bool().Draw(t, "dg")}
	c.InitSize = rapid.SampledFrom([]int{0, 0, 1200, 1252, 1280}).Draw(t, "initsize") // > 1280 makes the run loop busy-wait on the pacer (pacer starts at 1280): a livelock in virtual time, see DESIGN.md
	c.Server = ServerCfg{Retry: rapid.IntRange(0, 3).Draw(t, "retry") == 0, SmallWindows: rapid.Bool().Draw(t, "smallwin"), CIDLen: rapid.SampledFrom([]int{0, 8, 20}).Draw(t, "scid")}
	c.RTTms = rapid.SampledFrom([]int{2, 20, 100}).Draw(t, "rtt")
	c.EchoSize = rapid.IntRange(1, 40000).Draw(t, "echo")
	n := rapid.IntRange(0, 3).Draw(t, "nfaults")
	for i := 0; i < n; i++ {
		f := sim.Fault{Dir: rapid.SampledFrom([]string{"c2s", "s2c"}).Draw(t, "dir"), Nth: rapid.IntRange(0, 6).Draw(t, "nth"),
			Kind: rapid.SampledFrom([]string{"drop", "dup", "delay"}).Draw(t, "kind")}
		if f.Kind == "dup" {
			f.Arg = 1
		}
		if f.Kind == "delay" {
			f.Arg = rapid.SampledFrom([]int{5, 50, 300}).Draw(t, "delay")
		}
		c.Faults = append(c.Faults, f)
	}
	return c
}

func runNil(c NilCase, useU bool) (sum flightSummary, v *vf.Verdict) {
	w := sim.NewWorld(time.Duration(c.RTTms)*time.Millisecond, c.Faults, nil, nil)
	defer w.Close()
	obs := w.Observe()
	st := &quic.Transport{Conn: w.ServerConn, ConnectionIDLength: c.Server.CIDLen}
	if c.Server.Retry {
		st.VerifySourceAddress = func(net.Addr) bool { return true }
	}
	defer st.Close()
	sc := serverConf(c.Server)
	sc.EnableDatagrams = c.Datagrams
	ln, err := st.Listen(sim.ServerTLS(false, w.ServerKeys), sc)
	if err != nil {
		return sum, vf.Bad("C02/harness/listen", "%v", err)
	}
	defer ln.Close()
	ctx, cancel := context.WithTimeout(context.Background(), 60*time.Second)
	defer cancel()
	done := make(chan struct{})
	go func() {
		defer close(done)
		conn, err := ln.Accept(ctx)
		if err != nil {
			return
		}
		str, err := conn.AcceptStream(ctx)
		if err != nil {
			return
		}
		b, _ := io.ReadAll(str)
		str.Write(b)
		str.Close()
		<-conn.Context().Done()
	}()
	ct := &quic.Transport{Conn: w.ClientConn}
	defer ct.Close()
	cconf := &quic.Config{DisablePathMTUDiscovery: true, MaxIdleTimeout: 20 * time.Second, HandshakeIdleTimeout: 10 * time.Second, EnableDatagrams: c.Datagrams, InitialPacketSize: uint16(c.InitSize)}
	if c.V2 {
		cconf.Versions = []quic.Version{quic.Version2}
	}
	var conn *quic.Conn
	if useU {
		conn, err = (&quic.UTransport{Transport: ct}).Dial(ctx, sim.ServerAddr, sim.ClientTLS(w.ClientKeys), cconf)
	} else {
		conn, err = ct.Dial(ctx, sim.ServerAddr, sim.ClientTLS(w.ClientKeys), cconf)
	}
	sum.Outcome = "ok"
	if err != nil {
		sum.Outcome = "dial: " + errClass(err)
	} else {
		data := pattern(c.Seed, c.EchoSize)
		str, err := conn.OpenStreamSync(ctx)
		if err != nil {
			sum.Outcome = "open: " + errClass(err)
		} else {
			go func() { str.Write(data); str.Close() }()
			got, err := io.ReadAll(str)
			if err != nil {
				sum.Outcome = "read: " + errClass(err)
			} else if !bytes.Equal(got, data) {
				sum.Outcome = "echo-mismatch"
			}
		}
		conn.CloseWithError(0, "")
	}
	cancel()
	<-done
	// first flight = the Initial packets the client sent at the very beginning (same virtual instant as its first
	// datagram); later retransmissions depend on timer/scheduling order and are not compared
	var first []*sim.Packet
	t0 := time.Duration(-1)
	for _, r := range w.Router.Log {
		if r.Dir != "c2s" {
			continue
		}
		if t0 < 0 {
			t0 = r.T
		}
		if r.T != t0 {
			break
		}
		pkts, _ := r.Pkts.([]*sim.Packet)
		for _, p := range pkts {
			if p.Kind == "initial" {
				first = append(first, p)
				sum.Sizes = append(sum.Sizes, r.Len)
			}
		}
	}
	_ = obs
	for _, p := range first {
		sum.Version = p.Version
		sum.FirstPNs = append(sum.FirstPNs, p.PN)
		sum.PNLens = append(sum.PNLens, p.PNLen)
		sum.TokenLens = append(sum.TokenLens, len(p.Token))
		sum.SCIDLens = append(sum.SCIDLens, len(p.SCID))
		set := map[string]bool{}
		for _, n := range p.Names {
			set[n] = true
		}
		var ks []string
		for k := range set {
			ks = append(ks, k)
		}
		sort.Strings(ks)
		sum.FrameKinds = append(sum.FrameKinds, strings.Join(ks, "+"))
	}
	_, conflict, _, complete := sim.CryptoStream(first, "initial")
	sum.CHComplete = complete && !conflict
	return sum, nil
}

func errClass(err error) string {
	s := err.Error()
	if i := strings.Index(s, ":"); i > 0 && i < 40 {
		return s[:i]
	}
	if len(s) > 40 {
		s = s[:40]
	}
	return s
}

func checkNilCase(c NilCase, u *vf.Unit) *vf.Verdict {
	u.Journal(c)
	var sums [2]flightSummary
	var v *vf.Verdict
	for i, useU := range []bool{false, true} {
		i, useU := i, useU
		sim.Bubble(curT, 60*time.Second, func() {
			s, vv := runNil(c, useU)
			sums[i] = s
			if vv != nil && v == nil {
				v = vv
			}
		}, func(rep sim.LeakReport) {
			if v == nil {
				v = vf.Bad("C02/leak/goroutines", "useUTransport=%v: %d goroutines alive after shutdown:\n%s", useU, rep.Count, rep.Dump)
			}
		})
	}
	if v != nil {
		return v
	}
	a, b := sums[0], sums[1]
	if a.String() != b.String() {
		return vf.Bad("C02/nilspec/differs", "plain Transport: %s\nUTransport without spec: %s", a, b)
	}
	// absolute expectations for the default client: first packet number 0, no token
	if len(a.FirstPNs) == 0 || a.FirstPNs[0] != 0 || a.TokenLens[0] != 0 || !a.CHComplete {
		return vf.Bad("C02/nilspec/default-flight", "unexpected default first flight: %s", a)
	}
	u.Class("outcome:" + a.Outcome)
	if len(c.Faults) > 0 || c.Server.Retry {
		u.NonTrivial(fmt.Sprintf("%+v", c))
	}
	return nil
}

func TestNilSpecDifferential(t *testing.T) {
	curT = t
	vf.ReplayRepeat = 10
	vf.RunRapid(t, "nilspec-diff", genNilCase, checkNilCase)
}
