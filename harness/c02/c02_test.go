// C02: every parrot or derived spec yields a working connection, dial after dial; a UTransport without a
// spec behaves exactly like a plain Transport.
package c02

import (
	"bytes"
	"context"
	"errors"
	"fmt"
	"io"
	"net"
	"strings"
	"sync/atomic"
	"testing"
	"time"

	"pgregory.net/rapid"

	quic "github.com/refraction-networking/uquic"
	"github.com/refraction-networking/uquic/verif/sim"
	"github.com/refraction-networking/uquic/verif/specgen"
	"github.com/refraction-networking/uquic/verif/vf"
)

func TestMain(m *testing.M) { vf.Main(m) }

type ServerCfg struct {
	Retry        bool `json:"retry,omitempty"`
	SmallWindows bool `json:"small_windows,omitempty"`
	CIDLen       int  `json:"cid_len,omitempty"` // 0 = default (4)
	V1Only       bool `json:"v1_only,omitempty"`
}

type Case struct {
	Spec     specgen.Desc `json:"spec"`
	Dials    int          `json:"dials"`
	FreshTr  bool         `json:"fresh_transport,omitempty"` // a new UTransport (new socket) per dial, same spec value
	CloseBy  string       `json:"close_by,omitempty"`        // "" = the client closes each connection; "server" = the server does, the client re-dials at once
	Observed string       `json:"observed,omitempty"`        // "" | log | trace | both: debug logging on / Config.Tracer set (output dropped)
	// SwapBase: dials #2.. on the same Transport use a spec built from this other base (another source connection ID length)
	SwapBase string `json:"swap_base,omitempty"`
	// PreUse: what the client's Transport has already been used for when the first spec dial happens:
	// "" nothing | "listen" it also listens (server role on the same socket) | "plain" a plain Transport.Dial + close
	PreUse   string      `json:"pre_use,omitempty"`
	SchedUs  int         `json:"sched_us,omitempty"` // virtual microseconds that pass at every schedule point of the library (quic.VerifSchedHook)
	Server   ServerCfg   `json:"server"`
	RTTms    int         `json:"rtt_ms"`
	EchoSize int         `json:"echo"`
	Faults   []sim.Fault `json:"faults,omitempty"`
	Seed     uint64      `json:"seed"`
}

func pattern(seed uint64, n int) []byte {
	b := make([]byte, n)
	s := seed | 1
	for i := range b {
		s ^= s << 13
		s ^= s >> 7
		s ^= s << 17
		b[i] = byte(s)
	}
	return b
}

var chlen func(specgen.Desc) (int, int)

func genCase(t *rapid.T) Case {
	c := Case{Seed: rapid.Uint64().Draw(t, "seed")}
	bases := specgen.BaseNames()
	c.Spec = specgen.Gen(t, specgen.Options{Bases: bases, CHLen: chlen, ExactFit: true})
	c.Observed = rapid.SampledFrom([]string{"", "", "", "", "", "", "", "", "", "log", "trace", "both"}).Draw(t, "observed")
	c.Dials = rapid.SampledFrom([]int{1, 1, 2, 3}).Draw(t, "dials")
	// A Transport that was initialised before the first spec dial keeps its connection ID length, so the ClientHello
	// (initial_source_connection_id) can be a few bytes longer or shorter than the spec alone implies: only specs whose
	// builder and plans do not depend on the exact ClientHello length are combined with a pre-used Transport.
	if rapid.IntRange(0, 5).Draw(t, "shared-transport") == 0 && c.Spec.Builder == nil && len(c.Spec.Plans) == 0 {
		c.PreUse = rapid.SampledFrom([]string{"listen", "plain"}).Draw(t, "preuse")
	}
	if c.Dials > 1 && rapid.IntRange(0, 4).Draw(t, "swap") == 0 {
		c.SwapBase = rapid.SampledFrom(bases).Draw(t, "swapbase")
	}
	c.FreshTr = rapid.Bool().Draw(t, "fresh")
	if rapid.IntRange(0, 2).Draw(t, "closeby") == 0 {
		c.CloseBy = "server"
		c.SchedUs = rapid.SampledFrom([]int{0, 50, 50}).Draw(t, "sched")
	}
	c.Server = ServerCfg{Retry: rapid.IntRange(0, 3).Draw(t, "retry") == 0, SmallWindows: rapid.IntRange(0, 3).Draw(t, "smallwin") == 0,
		CIDLen: rapid.SampledFrom([]int{0, 0, 5, 8, 20}).Draw(t, "scid"), V1Only: rapid.Bool().Draw(t, "v1only")}
	c.RTTms = rapid.SampledFrom([]int{2, 20, 100}).Draw(t, "rtt")
	c.EchoSize = rapid.OneOf(rapid.IntRange(1, 3000), rapid.IntRange(1000, 65536)).Draw(t, "echo")
	n := rapid.IntRange(0, 4).Draw(t, "nfaults")
	for i := 0; i < n; i++ {
		f := sim.Fault{Dir: rapid.SampledFrom([]string{"c2s", "c2s", "s2c"}).Draw(t, "dir"), Nth: rapid.IntRange(0, 9).Draw(t, "nth"),
			Kind: rapid.SampledFrom([]string{"drop", "drop", "dup", "delay"}).Draw(t, "kind")}
		if f.Kind == "dup" {
			f.Arg = 1
		}
		if f.Kind == "delay" {
			f.Arg = rapid.SampledFrom([]int{5, 50, 300}).Draw(t, "delay")
		}
		c.Faults = append(c.Faults, f)
	}
	return c
}

func classifyDialErr(err error, dial int) string {
	s := err.Error()
	switch {
	case strings.Contains(s, "CONNECTION_ID_LIMIT_ERROR"):
		return "C02/handshake/cid-limit"
	case dial > 0 && strings.Contains(s, "tls: internal error"):
		return "C02/redial/tls-internal-error"
	case dial > 0 && strings.Contains(s, "TRANSPORT_PARAMETER_ERROR"):
		return "C02/redial/iscid-stale"
	case strings.Contains(s, "BuildFlight") || strings.Contains(s, "does not fit the packet buffer"):
		return "C02/dial/spec-rejected"
	}
	return "C02/dial/failed"
}

var curT *testing.T

func checkCase(c Case, u *vf.Unit) *vf.Verdict {
	u.Journal(c)
	var v *vf.Verdict
	sim.Bubble(curT, 60*time.Second, func() { v = runCase(c, u) }, func(rep sim.LeakReport) {
		if v == nil {
			v = vf.Bad("C02/leak/goroutines", "%d goroutines alive after shutdown:\n%s", rep.Count, rep.Dump)
		}
	})
	return v
}

func serverConf(s ServerCfg) *quic.Config {
	q := &quic.Config{DisablePathMTUDiscovery: true, MaxIdleTimeout: 20 * time.Second, HandshakeIdleTimeout: 10 * time.Second}
	if s.SmallWindows {
		q.InitialStreamReceiveWindow, q.MaxStreamReceiveWindow = 2000, 8000
		q.InitialConnectionReceiveWindow, q.MaxConnectionReceiveWindow = 3000, 12000
	}
	if s.V1Only {
		q.Versions = []quic.Version{quic.Version1}
	}
	return q
}

// schedDelay is what the library's schedule points (build tag verif) sleep in virtual time: every other runnable
// goroutine of the bubble runs before a connection changes its transport's routing table, which turns "the
// application re-dialled a few instructions before the old connection touched the table" from a rare
// preemption into the schedule of the case.
var schedDelay atomic.Int64

func init() {
	quic.VerifSchedHook = func(string) {
		if d := schedDelay.Load(); d > 0 {
			time.Sleep(time.Duration(d))
		}
	}
}

func runCase(c Case, u *vf.Unit) *vf.Verdict {
	schedDelay.Store(int64(c.SchedUs) * int64(time.Microsecond))
	defer schedDelay.Store(0)
	spec, err := c.Spec.Build()
	if err != nil {
		return vf.Bad("C02/harness/spec-build", "%v", err)
	}
	w := sim.NewWorld(time.Duration(c.RTTms)*time.Millisecond, c.Faults, nil, nil)
	defer w.Close()
	w.Observe()
	st := &quic.Transport{Conn: w.ServerConn, ConnectionIDLength: c.Server.CIDLen}
	if c.Server.Retry {
		st.VerifySourceAddress = func(net.Addr) bool { return true }
	}
	defer st.Close()
	ln, err := st.Listen(sim.ServerTLS(false, w.ServerKeys), serverConf(c.Server))
	if err != nil {
		return vf.Bad("C02/harness/listen", "%v", err)
	}
	defer ln.Close()
	ctx, cancel := context.WithTimeout(context.Background(), 120*time.Second)
	defer cancel()

	// echo server
	srvDone := make(chan struct{})
	closeReq := make(chan struct{}, 8)
	go func() {
		defer close(srvDone)
		for {
			conn, err := ln.Accept(ctx)
			if err != nil {
				return
			}
			if c.CloseBy == "server" {
				go func() {
					select {
					case <-closeReq:
						conn.CloseWithError(5, "server closes")
					case <-conn.Context().Done():
					}
				}()
			}
			go func() {
				str, err := conn.AcceptStream(ctx)
				if err != nil {
					return
				}
				b, err := io.ReadAll(str)
				if err != nil {
					return
				}
				str.Write(b)
				str.Close()
			}()
		}
	}()

	var transports []*quic.Transport
	defer func() {
		for _, t := range transports {
			t.Close()
		}
	}()
	newUT := func(i int) *quic.UTransport {
		var pc net.PacketConn = w.ClientConn
		if i > 0 {
			pc = w.NewEndpoint(&net.UDPAddr{IP: net.ParseIP("1.0.0.1"), Port: 9001 + i})
		}
		tr := &quic.Transport{Conn: pc}
		transports = append(transports, tr)
		return &quic.UTransport{Transport: tr, QUICSpec: spec}
	}
	ut := newUT(0)
	// a Transport is a long-lived object: it may have been used before the first spec dial
	switch c.PreUse {
	case "listen":
		pln, err := ut.Transport.Listen(sim.ServerTLS(false, w.ServerKeys), &quic.Config{DisablePathMTUDiscovery: true})
		if err != nil {
			return vf.Bad("C02/harness/pre-listen", "%v", err)
		}
		defer pln.Close()
		u.Class("transport-also-listens")
	case "plain":
		pc, err := ut.Transport.Dial(ctx, sim.ServerAddr, sim.ClientTLS(w.ClientKeys), &quic.Config{DisablePathMTUDiscovery: true, MaxIdleTimeout: 20 * time.Second, HandshakeIdleTimeout: 10 * time.Second})
		if err == nil {
			pc.CloseWithError(0, "")
			time.Sleep(2 * time.Second) // its closing period
		}
		u.Class("transport-dialled-plain-before")
	}
	var swapSpec *quic.QUICSpec
	if c.SwapBase != "" {
		var err error
		if swapSpec, err = (specgen.Desc{Base: c.SwapBase}).Build(); err != nil {
			return vf.Bad("C02/harness/spec-build", "%v", err)
		}
	}
	cconf := &quic.Config{DisablePathMTUDiscovery: true, MaxIdleTimeout: 20 * time.Second, HandshakeIdleTimeout: 10 * time.Second}
	if c.Observed == "trace" || c.Observed == "both" {
		cconf.Tracer = sim.DiscardTracer
	}
	if c.Observed == "log" || c.Observed == "both" {
		defer sim.DebugLogging()()
	}
	if c.Observed != "" {
		u.Class("observability-on")
	}
	data := pattern(c.Seed, c.EchoSize)
	retransmitted := false
	for i := 0; i < c.Dials; i++ {
		if i > 0 && c.FreshTr {
			ut = newUT(i)
		} else if i > 0 && swapSpec != nil {
			// another UTransport value over the SAME Transport, with another spec
			ut = &quic.UTransport{Transport: ut.Transport, QUICSpec: swapSpec}
			u.Class("spec-swapped-on-one-transport")
		}
		t0 := w.Router.Now()
		mark := w.Router.Mark()
		conn, err := ut.Dial(ctx, sim.ServerAddr, sim.ClientTLS(w.ClientKeys), cconf)
		if fit := c.Spec.Fit; fit != nil && ut.QUICSpec == spec {
			if v := checkBudgets(c, spec, i); v != nil {
				if conn != nil {
					conn.CloseWithError(0, "")
				}
				return v
			}
			if fit.Mode == "over" {
				// "A longer payload cannot be sent and is rejected" (InitialDatagramBudget.MaxFrameBytes): the dial fails
				// with an error, and none of the ClientHello goes on the wire
				if err == nil {
					conn.CloseWithError(0, "")
					sig := "C02/plan/oversize-accepted"
					if fit.PNLens[fit.At[0]] > fit.PNLens[0] {
						// its own root cause: the over-size datagram has a longer packet number than the flight's first packet
						sig = "C02/plan/oversize-accepted-pn-length"
					}
					return &vf.Verdict{Sig: sig, Detail: fmt.Sprintf("dial #%d: datagram %v of the %s plan carries one frame byte more than a %v-byte packet holds (capacity %v with %v-byte packet numbers), but the dial succeeded", i+1, fit.At, fit.Kind, fit.Sizes, fit.Caps, fit.PNLens), Trace: w.Router.Trace(20)}
				}
				for _, r := range w.Router.Trace(1 << 30)[mark:] {
					for _, cl := range r.Class {
						if r.Dir == "c2s" && cl == "frame:CRYPTO" {
							return &vf.Verdict{Sig: "C02/plan/oversize-partly-sent", Detail: fmt.Sprintf("dial #%d: the over-size %s plan was rejected (%v), but part of the ClientHello was sent before", i+1, fit.Kind, err), Trace: w.Router.Trace(20)}
						}
					}
				}
				u.Class("plan:over-rejected:" + fit.Kind)
				continue
			}
		}
		if err != nil {
			sig := classifyDialErr(err, i)
			if sig == "C02/dial/spec-rejected" && c.Spec.Fit != nil && ut.QUICSpec == spec {
				sig = "C02/plan/exact-fit-rejected" // a plan that fills its pinned packet size (or stays one byte below) was refused
				for j, l := range c.Spec.Fit.PNLens {
					if l < c.Spec.Fit.PNLens[0] && (j >= len(c.Spec.Fit.Sizes) || c.Spec.Fit.Sizes[j] > 0) {
						// its own root cause: a pinned datagram with a shorter packet number than the flight's first packet
						sig = "C02/plan/exact-fit-rejected-pn-length"
					}
				}
			}
			if sig == "C02/dial/failed" {
				// only the network may justify a failure: a dead stretch of at least a third of the handshake timeout
				if dead := w.Router.DeadStretch(w.Router.Now()); dead >= 10*time.Second/3 {
					u.Class("justified-timeout")
					return nil
				}
			}
			return &vf.Verdict{Sig: sig, Detail: fmt.Sprintf("dial #%d (started at %v) with spec %s failed: %v; faults applied %v", i+1, t0, c.Spec.Base, err, w.Router.AppliedFaults()), Trace: w.Router.Trace(60)}
		}
		str, err := conn.OpenStreamSync(ctx)
		if err != nil {
			return connFail(c, w, u, i, "OpenStreamSync", err)
		}
		go func() { str.Write(data); str.Close() }()
		got, err := io.ReadAll(str)
		if err != nil {
			conn.CloseWithError(0, "")
			return connFail(c, w, u, i, "echo read", err)
		}
		if !bytes.Equal(got, data) {
			conn.CloseWithError(0, "")
			return vf.Bad("C02/echo/corrupt", "dial #%d: echoed %d bytes differ from the %d bytes sent", i+1, len(got), len(data))
		}
		if cause := context.Cause(conn.Context()); cause != nil {
			return connFail(c, w, u, i, "connection context", cause)
		}
		if c.CloseBy == "server" {
			// the application blocks in a stream Read; the moment it fails (the peer's CONNECTION_CLOSE was
			// processed) it re-dials, as an HTTP client would - possibly before the old connection has finished
			// shutting down
			rerr := make(chan struct{})
			if s2, err := conn.OpenStreamSync(ctx); err == nil {
				go func() {
					s2.Write([]byte{1})
					io.ReadAll(s2) // the echo server never answers on this stream: returns when the connection dies
					close(rerr)
				}()
			} else {
				close(rerr)
			}
			closeReq <- struct{}{}
			<-rerr
			u.Class("closed-by-server")
			if c.SchedUs > 0 {
				u.Class("sched-point-redial")
			}
		} else {
			conn.CloseWithError(0, "")
		}
		for _, a := range w.Router.AppliedFaults() {
			if strings.Contains(a, "initial") && (strings.HasSuffix(a, "drop")) {
				retransmitted = true
			}
		}
	}
	ln.Close()
	cancel()
	<-srvDone
	if fit := c.Spec.Fit; fit != nil {
		if fit.Mode == "over" {
			u.Class("plan:over")
			return nil
		}
		m := map[string]string{"exact": "plan:exact-fit", "below": "plan:one-below"}[fit.Mode]
		u.Class(m)
		u.Class(m + ":" + fit.Kind)
	}
	u.Class("ok")
	u.Class("base:" + c.Spec.Base)
	if c.Spec.Builder != nil {
		u.Class("builder:" + c.Spec.Builder.Kind)
	}
	if c.Dials > 1 {
		u.Class("redial")
	}
	if retransmitted {
		u.Class("initial-retransmitted")
	}
	if c.Server.Retry {
		u.Class("retry")
	}
	if retransmitted || c.Dials > 1 || c.Spec.ExtraCH > 0 {
		u.NonTrivial(fmt.Sprintf("%+v", c.Spec), c.Dials, strings.Join(w.Router.AppliedFaults(), ","))
		if u.WantSample() {
			u.Sample(c)
		}
	}
	return nil
}

// checkBudgets: a caller-written flight builder is told, per datagram, "the largest frame payload this datagram can
// carry: its QUIC packet size (Plan.PacketSize ...) minus the long header and the AEAD tag"
// (InitialDatagramBudget.MaxFrameBytes). For the datagrams with a pinned size that number is known from the wire
// format alone (specgen computes it from the description).
func checkBudgets(c Case, spec *quic.QUICSpec, dial int) *vf.Verdict {
	fit := c.Spec.Fit
	if fit.Kind != "budget" {
		return nil
	}
	for _, offered := range specgen.OfferedBudgets(spec) {
		for i, b := range offered {
			if i >= len(fit.Sizes) || fit.Sizes[i] == 0 {
				continue
			}
			if b.PacketSize != fit.Sizes[i] {
				return vf.Bad("C02/plan/budget-differs", "dial #%d: budget %d names packet size %d, the plan pins %d", dial+1, i, b.PacketSize, fit.Sizes[i])
			}
			if b.MaxFrameBytes != fit.Caps[i] {
				sig := "C02/plan/budget-differs"
				if fit.PNLens[i] != fit.PNLens[0] && b.MaxFrameBytes == fit.Caps[i]+fit.PNLens[i]-fit.PNLens[0] {
					sig = "C02/plan/budget-ignores-pn-length"
				}
				return vf.Bad(sig, "dial #%d: the flight builder is offered MaxFrameBytes=%d for datagram %d (PacketSize %d), but a %d-byte Initial packet with this spec's header (%d-byte packet number) carries %d frame bytes", dial+1, b.MaxFrameBytes, i, fit.Sizes[i], fit.Sizes[i], fit.PNLens[i], fit.Caps[i])
			}
		}
	}
	return nil
}

func connFail(c Case, w *sim.World, u *vf.Unit, dial int, what string, err error) *vf.Verdict {
	sig := "C02/conn/error"
	s := err.Error()
	var ie *quic.IdleTimeoutError
	switch {
	case strings.Contains(s, "CONNECTION_ID_LIMIT_ERROR"):
		sig = "C02/handshake/cid-limit"
	case strings.Contains(s, "FLOW_CONTROL_ERROR"):
		sig = "C02/conn/flow-control"
	case errors.As(err, &ie):
		if dead := w.Router.DeadStretch(w.Router.Now()); dead >= 20*time.Second/3 {
			u.Class("justified-timeout")
			return nil
		}
	}
	return &vf.Verdict{Sig: sig, Detail: fmt.Sprintf("dial #%d with spec %s: %s failed: %v; faults applied %v", dial+1, c.Spec.Base, what, err, w.Router.AppliedFaults()), Trace: w.Router.Trace(80)}
}

func TestSpecDial(t *testing.T) {
	curT = t
	chlen = specgen.CHLen(t)
	vf.ReplayRepeat = 30
	vf.RunRapid(t, "spec-dial", genCase, checkCase)
}
