package c02

// Standalone reproducer (no http3) for: spec with a zero-length source connection ID, the peer closes the
// connection, the application re-dials on the SAME quic.Transport the moment its blocked stream Read fails, and the
// new handshake never completes.
//
//	VERIF_C02_REPRO=1 [VERIF_C02_REPRO_N=3000] [VERIF_C02_REPRO_BASE=chrome115] [VERIF_C02_REPRO_READERS=4] \
//	  go1.26.8 test -tags verif -count=1 -run TestRedialRepro ./c02 -v
//
// Scenario per run: plain quic server accepts, reads a 1-byte request on a stream, answers with 200 KiB, waits
// 2 RTT and calls CloseWithError(7). The client (UTransport{Transport: ct, QUICSpec: fresh spec}) has READERS
// goroutines blocked in stream Reads; the first one whose Read fails dials again on ct (fresh spec value, fresh
// UTransport, same quic.Transport) with a 3 s (virtual) deadline and runs one echo. A dial that does not complete
// is a stall.

import (
	"context"
	"fmt"
	"io"
	"os"
	"strconv"
	"sync"
	"testing"
	"time"

	quic "github.com/refraction-networking/uquic"
	"github.com/refraction-networking/uquic/verif/sim"
	"github.com/refraction-networking/uquic/verif/specgen"
)

type reproResult struct {
	firstErr   error
	stalled    bool
	dial2Err   error
	redialAt   time.Duration // virtual time at which the second dial started
	routeAt    []string      // routing table snapshots during the second dial
	trace      any
	closeAt    time.Duration
	hsDone     bool
	otherError string
}

func routing(ct *quic.Transport) string {
	ids, toks := ct.VerifRouting()
	s := fmt.Sprintf("%d ids [", len(ids))
	for i, id := range ids {
		if i > 0 {
			s += " "
		}
		if id.Len() == 0 {
			s += "<empty>"
		} else {
			s += id.String()
		}
	}
	return s + fmt.Sprintf("], %d reset tokens", len(toks))
}

func reproOnce(t *testing.T, base string, rttMs, readers int) (res reproResult) {
	sim.Bubble(t, 30*time.Second, func() {
		rtt := time.Duration(rttMs) * time.Millisecond
		w := sim.NewWorld(rtt, nil, nil, nil)
		defer w.Close()
		st := &quic.Transport{Conn: w.ServerConn}
		defer st.Close()
		conf := &quic.Config{DisablePathMTUDiscovery: true, MaxIdleTimeout: 10 * time.Second, HandshakeIdleTimeout: 5 * time.Second}
		ln, err := st.Listen(sim.ServerTLS(false, w.ServerKeys), conf)
		if err != nil {
			res.otherError = "listen: " + err.Error()
			return
		}
		defer ln.Close()
		ctx, cancel := context.WithTimeout(context.Background(), 60*time.Second)
		defer cancel()
		var swg sync.WaitGroup
		swg.Add(1)
		go func() {
			defer swg.Done()
			for n := 0; ; n++ {
				conn, err := ln.Accept(ctx)
				if err != nil {
					return
				}
				swg.Add(1)
				go func() {
					defer swg.Done()
					for {
						str, err := conn.AcceptStream(ctx)
						if err != nil {
							return
						}
						swg.Add(1)
						go func() {
							defer swg.Done()
							b := make([]byte, 1)
							if _, err := io.ReadFull(str, b); err != nil {
								return
							}
							switch b[0] {
							case 'e': // echo (second connection)
								str.Write([]byte("pong"))
								str.Close()
							case 'b': // bulk, then the server leaves
								str.Write(make([]byte, 200<<10))
								time.Sleep(2 * rtt)
								res.closeAt = w.Router.Now()
								conn.CloseWithError(7, "server leaves")
							default: // idle stream: never answered
							}
						}()
					}
				}()
			}
		}()

		ct := &quic.Transport{Conn: w.ClientConn}
		defer ct.Close()
		dial := func(ctx context.Context) (*quic.Conn, error) {
			spec, err := (specgen.Desc{Base: base}).Build()
			if err != nil {
				return nil, err
			}
			return (&quic.UTransport{Transport: ct, QUICSpec: spec}).Dial(ctx, sim.ServerAddr, sim.ClientTLS(w.ClientKeys), conf)
		}
		c1, err := dial(ctx)
		if err != nil {
			res.otherError = "first dial: " + err.Error()
			return
		}
		// readers blocked in stream Reads; the first failure triggers the re-dial
		failed := make(chan error, readers+1)
		var cwg sync.WaitGroup
		for i := 0; i < readers; i++ {
			str, err := c1.OpenStreamSync(ctx)
			if err != nil {
				res.otherError = "open stream: " + err.Error()
				return
			}
			kind := byte('i')
			if i == 0 {
				kind = 'b'
			}
			cwg.Add(1)
			go func() {
				defer cwg.Done()
				str.Write([]byte{kind})
				_, err := io.Copy(io.Discard, str)
				failed <- err
			}()
		}
		res.firstErr = <-failed
		// re-dial at once, as an HTTP client does
		res.redialAt = w.Router.Now()
		dctx, dcancel := context.WithTimeout(ctx, 3*time.Second)
		type dres struct {
			c   *quic.Conn
			err error
		}
		dch := make(chan dres, 1)
		go func() { c, err := dial(dctx); dch <- dres{c, err} }()
		snap := func(label string) {
			res.routeAt = append(res.routeAt, fmt.Sprintf("%-22s t=%v: %s", label, w.Router.Now(), routing(ct)))
		}
		snap("redial started")
		var d dres
		got := false
		for _, wait := range []time.Duration{time.Millisecond, 3 * rtt, 10 * rtt, 100 * time.Millisecond, 500 * time.Millisecond, 3 * time.Second} {
			select {
			case d = <-dch:
				got = true
			case <-time.After(wait):
				snap("+" + wait.String() + " (dial pending)")
			}
			if got {
				break
			}
		}
		if !got {
			d = <-dch
		}
		dcancel()
		snap("dial returned")
		if d.err != nil {
			res.stalled, res.dial2Err = true, d.err
			res.trace = w.Router.Trace(1 << 20)
		} else {
			res.hsDone = true
			if str, err := d.c.OpenStreamSync(ctx); err == nil {
				str.Write([]byte{'e'})
				b, err := io.ReadAll(str)
				if err != nil || string(b) != "pong" {
					res.otherError = fmt.Sprintf("echo on the second connection: %q %v", b, err)
				}
			}
			d.c.CloseWithError(0, "")
		}
		c1.CloseWithError(0, "")
		cwg.Wait()
		cancel()
		ln.Close()
		swg.Wait()
	}, nil)
	return
}

func TestRedialRepro(t *testing.T) {
	if os.Getenv("VERIF_C02_REPRO") != "1" {
		t.Skip("set VERIF_C02_REPRO=1")
	}
	n := 3000
	if v, err := strconv.Atoi(os.Getenv("VERIF_C02_REPRO_N")); err == nil && v > 0 {
		n = v
	}
	base := os.Getenv("VERIF_C02_REPRO_BASE")
	if base == "" {
		base = "chrome115"
	}
	readers := 4
	if v, err := strconv.Atoi(os.Getenv("VERIF_C02_REPRO_READERS")); err == nil && v > 0 {
		readers = v
	}
	stalls, others := 0, 0
	var first *reproResult
	for i := 0; i < n; i++ {
		r := reproOnce(t, base, 2, readers)
		if r.otherError != "" {
			others++
			if others <= 3 {
				t.Logf("run %d: other error: %s", i, r.otherError)
			}
		}
		if r.stalled {
			stalls++
			if first == nil {
				rr := r
				first = &rr
				t.Logf("first stall in run %d", i)
			}
		}
	}
	t.Logf("base %s, %d runs, %d readers: %d stalled re-dials, %d other errors", base, n, readers, stalls, others)
	if first != nil {
		t.Logf("first stalled run: server closed at %v, client's Read failed with %q, re-dial started at %v, second dial: %v", first.closeAt, first.firstErr, first.redialAt, first.dial2Err)
		for _, s := range first.routeAt {
			t.Log("  routing " + s)
		}
		if tr, ok := first.trace.([]*sim.Record); ok {
			shown := 0
			for _, r := range tr {
				if r.T+time.Millisecond < first.closeAt || shown >= 200 {
					continue
				}
				shown++
				t.Logf("  %10v %s len=%4d %v %s", r.T, r.Dir, r.Len, r.Class, r.Fate)
			}
		}
	}
}
