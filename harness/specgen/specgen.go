// Package specgen describes uQUIC specs as JSON-serialisable edits of a built-in parrot, builds the
// *quic.QUICSpec from a description, and generates descriptions with rapid.
package specgen

import (
	"fmt"
	"sort"

	tls "github.com/refraction-networking/utls"
	"pgregory.net/rapid"

	quic "github.com/refraction-networking/uquic"
)

var Bases = map[string]quic.QUICID{
	"chrome115":   quic.QUICChrome_115_IPv4,
	"chrome115v6": quic.QUICChrome_115_IPv6,
	"chrome146":   quic.QUICChrome_146_IPv4,
	"chrome146v6": quic.QUICChrome_146_IPv6,
	"firefoxA":    quic.QUICFirefox_116A,
	"firefoxB":    quic.QUICFirefox_116B,
	"firefoxC":    quic.QUICFirefox_116C,
}

// BaseNames is the sorted list of base names.
func BaseNames() []string {
	var n []string
	for k := range Bases {
		n = append(n, k)
	}
	sort.Strings(n)
	return n
}

type Plan struct {
	CryptoLength int `json:"crypto_len,omitempty"`
	PacketSize   int `json:"packet_size,omitempty"`
}

type RF struct {
	MinPING, MaxPING, MinCRYPTO, MaxCRYPTO, MinPADDING, MaxPADDING uint8
	Length                                                         uint16
}

func (r RF) toQUIC() quic.QUICRandomFrames {
	return quic.QUICRandomFrames{MinPING: r.MinPING, MaxPING: r.MaxPING, MinCRYPTO: r.MinCRYPTO, MaxCRYPTO: r.MaxCRYPTO,
		MinPADDING: r.MinPADDING, MaxPADDING: r.MaxPADDING, Length: r.Length}
}

type Range struct {
	Offset int `json:"off"`
	Length int `json:"len"`
}

type FlightDG struct {
	Ranges []Range `json:"ranges"`
	Frames RF      `json:"frames"`
}

// FrameItem is one element of a QUICFrames list.
type FrameItem struct {
	Kind   string `json:"k"` // crypto | ping | padding
	Offset int    `json:"off,omitempty"`
	Length int    `json:"len,omitempty"`
}

type Builder struct {
	Kind       string        `json:"kind"` // keep | nil | frames | random | multi | flight | randflight | budget
	Frames     []FrameItem   `json:"frames,omitempty"`
	Random     *RF           `json:"random,omitempty"`
	Multi      []RF          `json:"multi,omitempty"`
	Flight     [][]FrameItem `json:"flight,omitempty"`
	RandFlight []FlightDG    `json:"randflight,omitempty"`
	Budget     *BudgetDesc   `json:"budget,omitempty"` // kind budget: a caller-written flight builder sized from the budgets it is offered
}

// Desc is a derived spec: a base parrot plus edits. Pointer / empty fields mean "keep the base's value".
type Desc struct {
	Base    string `json:"base"`
	SrcCID  *int   `json:"src_cid,omitempty"`
	DestCID *int   `json:"dest_cid,omitempty"`
	// OwnGen > 0: the client Transport the spec is dialled through already carries its own ConnectionIDGenerator of
	// this length (a property of the Transport, not of the spec: the spec's SrcConnIDLength must still win)
	OwnGen      int      `json:"own_gen,omitempty"`
	InitPN      *uint64  `json:"init_pn,omitempty"`
	PNLen       *int     `json:"pn_len,omitempty"`      // single value
	PNLens      []int    `json:"pn_lens,omitempty"`     // list (overrides PNLen)
	TokenMode   string   `json:"token,omitempty"`       // "" keep | none | len | prefix | store (explicit token = TokenPrefix)
	TokenSpare  int      `json:"token_spare,omitempty"` // prefix mode: the caller's prefix slice has this much spare capacity (filled with 0xA5), as a sub-slice of a captured token has
	TokenLen    int      `json:"token_len,omitempty"`
	TokenPrefix []byte   `json:"token_prefix,omitempty"`
	Builder     *Builder `json:"builder,omitempty"`
	Plans       []Plan   `json:"plans,omitempty"`
	ClearPlans  bool     `json:"clear_plans,omitempty"`
	UDPMin      *int     `json:"udp_min,omitempty"`
	Randomize   *bool    `json:"randomize,omitempty"`
	Suppress    []uint64 `json:"suppress,omitempty"`
	ExtraCH     int      `json:"extra_ch,omitempty"` // bytes of an extra (ignored) ClientHello extension: grows the flight
	TPs         []TPDesc `json:"tps,omitempty"`      // when non-empty: replaces the base's transport parameter list
	// Fit is set for exact-fit descriptions (Options.ExactFit): how builder and plans were sized against the pinned packet sizes
	Fit *FitInfo `json:"fit,omitempty"`
}

// TPDesc describes one entry of a QUICTransportParametersExtension list.
type TPDesc struct {
	K  string `json:"k"` // idle maxdata bidi_local bidi_remote uni streams_bidi streams_uni ack_delay udp cidlimit disable_migration iscid dgram greasebit versioninfo grease fake
	N  uint64 `json:"n,omitempty"`
	ID uint64 `json:"id,omitempty"` // fake: the (arbitrary or standard) id; grease: IdOverride (0 = random)
	V  []byte `json:"v,omitempty"`  // fake: raw value; grease: ValueOverride
}

// ToTLS builds the uTLS parameter.
func (t TPDesc) ToTLS() tls.TransportParameter {
	switch t.K {
	case "idle":
		return tls.MaxIdleTimeout(t.N)
	case "maxdata":
		return tls.InitialMaxData(t.N)
	case "bidi_local":
		return tls.InitialMaxStreamDataBidiLocal(t.N)
	case "bidi_remote":
		return tls.InitialMaxStreamDataBidiRemote(t.N)
	case "uni":
		return tls.InitialMaxStreamDataUni(t.N)
	case "streams_bidi":
		return tls.InitialMaxStreamsBidi(t.N)
	case "streams_uni":
		return tls.InitialMaxStreamsUni(t.N)
	case "ack_delay":
		return tls.MaxAckDelay(t.N)
	case "udp":
		return tls.MaxUDPPayloadSize(t.N)
	case "cidlimit":
		return tls.ActiveConnectionIDLimit(t.N)
	case "disable_migration":
		return &tls.DisableActiveMigration{}
	case "iscid":
		if len(t.V) > 0 {
			return tls.InitialSourceConnectionID(t.V) // a pinned value: sent as it is
		}
		return tls.InitialSourceConnectionID{} // the typed placeholder: "if empty, will be set to the Connection ID used for the Initial packet"
	case "dgram":
		return tls.MaxDatagramFrameSize(t.N)
	case "greasebit":
		return &tls.GREASEQUICBit{}
	case "versioninfo":
		return &tls.VersionInformation{ChoosenVersion: tls.VERSION_1, AvailableVersions: []uint32{tls.VERSION_GREASE, tls.VERSION_1}}
	case "grease":
		return &tls.GREASETransportParameter{IdOverride: t.ID, Length: uint16(t.N), ValueOverride: t.V}
	case "fake":
		return &tls.FakeQUICTransportParameter{Id: t.ID, Val: t.V}
	}
	panic("specgen: unknown TPDesc kind " + t.K)
}

// fixedTokenStore is an explicit TokenStore that hands out the same token for every connection.
type fixedTokenStore struct{ data []byte }

func (f fixedTokenStore) Pop(string) *quic.ClientToken  { return quic.NewClientToken(f.data) }
func (f fixedTokenStore) Put(string, *quic.ClientToken) {}

func items(fs []FrameItem) quic.QUICFrames {
	var out quic.QUICFrames
	for _, f := range fs {
		switch f.Kind {
		case "crypto":
			out = append(out, quic.QUICFrameCrypto{Offset: f.Offset, Length: f.Length})
		case "ping":
			out = append(out, quic.QUICFramePing{})
		case "padding":
			out = append(out, quic.QUICFramePadding{Length: f.Length})
		}
	}
	return out
}

// Build expands the description into a fresh QUICSpec value.
func (d Desc) Build() (*quic.QUICSpec, error) {
	id, ok := Bases[d.Base]
	if !ok {
		return nil, fmt.Errorf("unknown base %q", d.Base)
	}
	spec, err := quic.QUICID2Spec(id)
	if err != nil {
		return nil, err
	}
	ips := &spec.InitialPacketSpec
	if d.SrcCID != nil {
		ips.SrcConnIDLength = *d.SrcCID
	}
	if d.DestCID != nil {
		ips.DestConnIDLength = *d.DestCID
	}
	if d.InitPN != nil {
		ips.InitPacketNumber = *d.InitPN
	}
	if d.PNLen != nil {
		ips.InitPacketNumberLength = quic.PacketNumberLen(*d.PNLen)
		ips.InitPacketNumberLengths = nil
	}
	if len(d.PNLens) > 0 {
		ips.InitPacketNumberLengths = nil
		for _, l := range d.PNLens {
			ips.InitPacketNumberLengths = append(ips.InitPacketNumberLengths, quic.PacketNumberLen(l))
		}
	}
	switch d.TokenMode {
	case "none":
		ips.TokenStore, ips.ClientTokenLength, ips.ClientTokenPrefix = nil, 0, nil
	case "len":
		ips.TokenStore, ips.ClientTokenLength, ips.ClientTokenPrefix = nil, d.TokenLen, nil
	case "prefix":
		pre := d.TokenPrefix
		if d.TokenSpare > 0 {
			buf := make([]byte, len(d.TokenPrefix)+d.TokenSpare)
			copy(buf, d.TokenPrefix)
			for i := len(d.TokenPrefix); i < len(buf); i++ {
				buf[i] = 0xA5
			}
			pre = buf[:len(d.TokenPrefix)]
		}
		ips.TokenStore, ips.ClientTokenLength, ips.ClientTokenPrefix = nil, d.TokenLen, pre
	case "store":
		ips.TokenStore, ips.ClientTokenLength, ips.ClientTokenPrefix = fixedTokenStore{d.TokenPrefix}, 0, nil
	}
	if d.Builder != nil {
		b := d.Builder
		switch b.Kind {
		case "nil":
			ips.FrameBuilder = nil
		case "frames":
			ips.FrameBuilder = items(b.Frames)
		case "random":
			rf := b.Random.toQUIC()
			ips.FrameBuilder = &rf
		case "multi":
			m := &quic.QUICMultiDatagramFrames{}
			for _, r := range b.Multi {
				m.PerDatagram = append(m.PerDatagram, r.toQUIC())
			}
			ips.FrameBuilder = m
		case "flight":
			f := &quic.QUICFlightFrames{}
			for _, dg := range b.Flight {
				f.Datagrams = append(f.Datagrams, items(dg))
			}
			ips.FrameBuilder = f
		case "randflight":
			f := &quic.QUICRandomFlightFrames{}
			for _, dg := range b.RandFlight {
				x := quic.QUICRandomFlightDatagram{Frames: dg.Frames.toQUIC()}
				for _, r := range dg.Ranges {
					x.CryptoRanges = append(x.CryptoRanges, quic.QUICCryptoRange{Offset: r.Offset, Length: r.Length})
				}
				f.PerDatagram = append(f.PerDatagram, x)
			}
			ips.FrameBuilder = f
		case "budget":
			ips.FrameBuilder = &BudgetFlight{Desc: *b.Budget}
		}
	}
	if d.ClearPlans {
		ips.InitialPackets = nil
	}
	if len(d.Plans) > 0 {
		ips.InitialPackets = nil
		for _, p := range d.Plans {
			ips.InitialPackets = append(ips.InitialPackets, quic.InitialPacketPlan{CryptoLength: p.CryptoLength, PacketSize: p.PacketSize})
		}
	}
	if d.UDPMin != nil {
		spec.UDPDatagramMinSize = *d.UDPMin
	}
	if d.Randomize != nil {
		spec.RandomizeTransportParameters = *d.Randomize
	}
	if d.Suppress != nil {
		spec.SuppressTransportParameters = append([]uint64(nil), d.Suppress...)
	}
	if len(d.TPs) > 0 && spec.ClientHelloSpec != nil {
		for _, ext := range spec.ClientHelloSpec.Extensions {
			if q, ok := ext.(*tls.QUICTransportParametersExtension); ok {
				q.TransportParameters = nil
				for _, t := range d.TPs {
					q.TransportParameters = append(q.TransportParameters, t.ToTLS())
				}
			}
		}
	}
	if d.ExtraCH > 0 && spec.ClientHelloSpec != nil {
		exts := spec.ClientHelloSpec.Extensions
		ext := &tls.GenericExtension{Id: 0xfa17, Data: make([]byte, d.ExtraCH)}
		// keep a trailing padding / pre_shared_key extension last
		pos := len(exts)
		if pos > 0 {
			switch exts[pos-1].(type) {
			case *tls.UtlsPaddingExtension, *tls.UtlsPreSharedKeyExtension, *tls.FakePreSharedKeyExtension:
				pos--
			}
		}
		exts = append(exts[:pos:pos], append([]tls.TLSExtension{ext}, exts[pos:]...)...)
		spec.ClientHelloSpec.Extensions = exts
	}
	return &spec, nil
}

func ip(v int) *int       { return &v }
func up(v uint64) *uint64 { return &v }
func bp(v bool) *bool     { return &v }

// GenRF draws QUICRandomFrames parameters that satisfy the documented bounds.
func GenRF(t *rapid.T, label string, withLength bool) RF {
	r := RF{}
	r.MinPING = uint8(rapid.IntRange(0, 3).Draw(t, label+"minping"))
	r.MaxPING = r.MinPING + uint8(rapid.IntRange(1, 6).Draw(t, label+"dping"))
	r.MinCRYPTO = uint8(rapid.IntRange(1, 4).Draw(t, label+"mincrypto"))
	r.MaxCRYPTO = r.MinCRYPTO + uint8(rapid.IntRange(1, 8).Draw(t, label+"dcrypto"))
	if withLength {
		r.MinPADDING = uint8(rapid.IntRange(1, 4).Draw(t, label+"minpad"))
		r.MaxPADDING = r.MinPADDING + uint8(rapid.IntRange(1, 5).Draw(t, label+"dpad"))
		r.Length = uint16(rapid.SampledFrom([]int{1100, 1150, 1200, 1215}).Draw(t, label+"len"))
	}
	return r
}

// Options bound the generated family.
type Options struct {
	Bases       []string                  // allowed bases
	CHLen       func(d Desc) (lo, hi int) // bounds of the ClientHello length of a description (it varies per dial)
	HeaderOnly  bool                      // only header-level knobs (no builder edits)
	SuppressAny bool                      // also suppress flow-control / stream-count parameters
	BigPN       bool                      // also draw first packet numbers near and beyond 2^62-1
	// ShortDestCID: also draw destination connection ID lengths 1..7 (RFC 9000 7.2 asks for >= 8 on the first
	// Initial; a server drops such packets, so only checks that need no answer may ask for this)
	ShortDestCID bool
	// OwnGenerator: also draw Desc.OwnGen
	OwnGenerator bool
	// ExactFit: about 3 descriptions in 10 (rapid favours small draws) become exact-fit plans (flight builders / per-datagram plans that fill
	// their pinned PacketSize exactly, one byte below, or - Desc.Fit.Mode "over" - one byte beyond). Needs CHLen.
	ExactFit bool
}

// Gen draws a derived spec description. chLen must return the ClientHello length of (base, extra) — needed to
// build QUICFrames layouts that tile the stream.
func Gen(t *rapid.T, o Options) Desc {
	d := gen(t, o)
	// new dimensions draw after everything else, and only when asked for: the draws of the checks that share this
	// generator keep their meaning
	if o.ExactFit && !o.HeaderOnly && rapid.IntRange(0, 9).Draw(t, "exactfit") < 2 {
		genExactFit(t, &d, o)
	}
	if o.ShortDestCID && rapid.SampledFrom([]int{0, 0, 0, 0, 0, 0, 0, 1, 1, 1}).Draw(t, "shortdst") == 1 {
		d.DestCID = ip(rapid.IntRange(1, 7).Draw(t, "dst-short"))
	}
	if o.OwnGenerator && rapid.SampledFrom([]int{0, 0, 0, 0, 0, 0, 0, 1, 1, 1}).Draw(t, "owngen") == 1 {
		d.OwnGen = rapid.SampledFrom([]int{4, 7, 8, 11, 16, 20}).Draw(t, "owngen-len")
	}
	return d
}

func gen(t *rapid.T, o Options) Desc {
	d := Desc{Base: rapid.SampledFrom(o.Bases).Draw(t, "base")}
	if rapid.IntRange(0, 3).Draw(t, "unmodified") == 0 {
		return d
	}
	if rapid.Bool().Draw(t, "e-src") {
		d.SrcCID = ip(rapid.SampledFrom([]int{0, 4, 5, 8, 12, 20}).Draw(t, "src")) // 1..3-byte IDs collide between successive connections on one transport
	}
	if rapid.Bool().Draw(t, "e-dst") {
		d.DestCID = ip(rapid.SampledFrom([]int{0, 8, 9, 15, 16, 20}).Draw(t, "dst"))
	}
	// A forced packet-number length must still be able to carry the number to a receiver without state (after a
	// Retry the server starts from scratch): RFC 9000 17.1 makes that the sender's duty, and a spec that pins a
	// 1-byte encoding for PN 256 asks for an undecodable packet. So large first packet numbers come with a
	// length that can represent them; small ones (< 60) work with every length.
	pnBig := false
	if rapid.Bool().Draw(t, "e-pn") {
		pool := []uint64{0, 1, 2, 40, 255, 256, 65535, 1 << 20}
		if o.BigPN {
			pool = append(pool, 1<<32, 1<<62-1, 1<<62, 1<<64-1)
		}
		v := rapid.SampledFrom(pool).Draw(t, "pn")
		d.InitPN = up(v)
		pnBig = v > 60
	}
	minLen := 1
	if d.InitPN != nil {
		switch {
		case *d.InitPN > 4_000_000:
			minLen = 4
		case *d.InitPN > 16_000:
			minLen = 3
		case *d.InitPN > 60:
			minLen = 2
		}
	}
	switch rapid.IntRange(0, 3).Draw(t, "e-pnlen") {
	case 1:
		d.PNLen = ip(rapid.IntRange(minLen, 4).Draw(t, "pnlen"))
	case 2:
		n := rapid.IntRange(1, 3).Draw(t, "npnlens")
		for i := 0; i < n; i++ {
			d.PNLens = append(d.PNLens, rapid.IntRange(minLen, 4).Draw(t, "pnl"))
		}
	default:
		if pnBig {
			d.PNLen = ip(4)
		}
	}
	switch rapid.IntRange(0, 5).Draw(t, "e-token") {
	case 4:
		d.TokenMode = "store"
		d.TokenPrefix = rapid.SliceOfN(rapid.Byte(), 1, 90).Draw(t, "tokdata")
	case 1:
		d.TokenMode = "none"
	case 2:
		d.TokenMode, d.TokenLen = "len", rapid.SampledFrom([]int{1, 16, 70, 120}).Draw(t, "toklen")
	case 3:
		d.TokenMode, d.TokenLen = "prefix", rapid.SampledFrom([]int{0, 8, 70}).Draw(t, "toklen")
		d.TokenPrefix = rapid.SliceOfN(rapid.Byte(), 1, 12).Draw(t, "tokprefix")
	}
	if rapid.IntRange(0, 2).Draw(t, "e-udpmin") == 0 {
		d.UDPMin = ip(rapid.SampledFrom([]int{0, 1200, 1250, 1280, 1350}).Draw(t, "udpmin"))
	}
	if rapid.IntRange(0, 2).Draw(t, "e-rand") == 0 {
		d.Randomize = bp(rapid.Bool().Draw(t, "randomize"))
	}
	if rapid.IntRange(0, 2).Draw(t, "e-suppress") == 0 {
		// never initial_source_connection_id (0x0f): the peer requires it. Unless o.SuppressAny, flow-control and
		// stream-count parameters (0x04..0x09) are kept too: without them the peer has no credit to move data.
		pool := []uint64{0x01, 0x03, 0x0b, 0x0e, 0x20, 27, 0x11, 0x4752, 0x3127, 0x7157, 12345}
		if o.SuppressAny {
			pool = append(pool, 0x04, 0x05, 0x06, 0x07, 0x08, 0x09)
		}
		n := rapid.IntRange(1, 4).Draw(t, "nsupp")
		for i := 0; i < n; i++ {
			d.Suppress = append(d.Suppress, rapid.SampledFrom(pool).Draw(t, "supp"))
		}
	}
	if o.HeaderOnly {
		return d
	}
	if rapid.IntRange(0, 2).Draw(t, "e-extra") == 0 {
		d.ExtraCH = rapid.SampledFrom([]int{300, 900, 1500, 2800}).Draw(t, "extra")
	}
	L, Lhi := 0, 0
	if o.CHLen != nil {
		L, Lhi = o.CHLen(d)
	}
	genPlans := func() {
		if rapid.IntRange(0, 1).Draw(t, "e-plans") == 0 {
			return
		}
		n := rapid.IntRange(1, 3).Draw(t, "nplans")
		d.Plans = nil
		for i := 0; i < n; i++ {
			p := Plan{}
			if rapid.Bool().Draw(t, "plan-crypto") {
				p.CryptoLength = rapid.IntRange(20, 1000).Draw(t, "plan-cl")
				// an exact PacketSize must leave room for the CRYPTO assigned to the datagram (documented
				// requirement), so it only comes together with a CRYPTO cap
				if rapid.Bool().Draw(t, "plan-size") {
					p.PacketSize = rapid.SampledFrom([]int{1200, 1232, 1250, 1280}).Draw(t, "plan-ps")
					// "must leave room": header (CIDs up to 20+20, token up to 120), frame overheads of a builder
					// that cuts the slice into up to ~12 CRYPTO frames plus PINGs, and the AEAD tag
					p.CryptoLength = min(p.CryptoLength, p.PacketSize-420)
				}
			}
			d.Plans = append(d.Plans, p)
		}
	}
	switch rapid.IntRange(0, 7).Draw(t, "e-builder") {
	case 0:
		d.Builder = &Builder{Kind: "nil"}
		d.ClearPlans = true
		genPlans()
	case 1:
		d.Builder = &Builder{Kind: "frames"} // empty QUICFrames: pass-through
		d.ClearPlans = true
		genPlans()
	case 2:
		if L > 0 && Lhi < 1100 { // a tiling layout is defined on one datagram's slice
			d.Builder = &Builder{Kind: "frames", Frames: GenTiling(t, L)}
			d.ClearPlans = true
		}
	case 3:
		rf := GenRF(t, "rf-", L > 0 && Lhi < 1000)
		d.Builder = &Builder{Kind: "random", Random: &rf}
		d.ClearPlans = true
	case 4:
		n := rapid.IntRange(1, 3).Draw(t, "nmulti")
		b := &Builder{Kind: "multi"}
		for i := 0; i < n; i++ {
			b.Multi = append(b.Multi, GenRF(t, fmt.Sprintf("m%d-", i), false))
		}
		d.Builder = b
		d.ClearPlans = true
		genPlans()
	case 5:
		if L > 0 {
			d.Builder = &Builder{Kind: "randflight", RandFlight: GenRandFlight(t, L, Lhi)}
			d.ClearPlans = true
		}
	case 6:
		if L > 0 {
			d.Builder = &Builder{Kind: "flight", Flight: GenFlight(t, L, Lhi)}
			d.ClearPlans = true
		}
	}
	return d
}

// GenTiling draws a QUICFrames layout whose CRYPTO frames tile [0,L) (any order, PING/PADDING interleaved).
func GenTiling(t *rapid.T, L int) []FrameItem {
	n := rapid.IntRange(1, 6).Draw(t, "ncuts")
	cuts := map[int]bool{0: true}
	for i := 0; i < n && L > 1; i++ {
		cuts[rapid.IntRange(1, L-1).Draw(t, "cut")] = true
	}
	var cs []int
	for c := range cuts {
		cs = append(cs, c)
	}
	sort.Ints(cs)
	var fs []FrameItem
	for i, c := range cs {
		if i == len(cs)-1 {
			fs = append(fs, FrameItem{Kind: "crypto", Offset: c, Length: 0}) // the ClientHello length varies per dial
		} else {
			fs = append(fs, FrameItem{Kind: "crypto", Offset: c, Length: cs[i+1] - c})
		}
	}
	// permute and interleave
	perm := rapid.Permutation(fs).Draw(t, "order")
	var out []FrameItem
	for _, f := range perm {
		switch rapid.IntRange(0, 4).Draw(t, "inter") {
		case 0:
			out = append(out, FrameItem{Kind: "ping"})
		case 1:
			out = append(out, FrameItem{Kind: "padding", Length: rapid.IntRange(1, 40).Draw(t, "padlen")})
		}
		out = append(out, f)
	}
	return out
}

func cutPoints(t *rapid.T, L, maxPieces int) []int {
	n := rapid.IntRange(1, maxPieces).Draw(t, "npieces")
	cuts := map[int]bool{0: true, L: true}
	for i := 1; i < n && L > 1; i++ {
		cuts[rapid.IntRange(1, L-1).Draw(t, "piece-cut")] = true
	}
	var cs []int
	for c := range cuts {
		cs = append(cs, c)
	}
	sort.Ints(cs)
	return cs
}

// GenRandFlight draws a QUICRandomFlightFrames plan whose ranges cover the whole stream for every ClientHello
// length in [lo,hi]: absolute cuts below lo-K, then a range ending K bytes before the end, then the tail
// addressed from the end. Pieces are assigned to datagrams in any order; each datagram stays packet-sized.
func GenRandFlight(t *rapid.T, lo, hi int) []FlightDG {
	K := rapid.IntRange(1, min(300, lo/3)).Draw(t, "tail")
	type piece struct {
		r    Range
		size int // upper bound of the bytes it carries
	}
	var pieces []piece
	cs := cutPoints(t, lo-K, 5) // 0 .. lo-K
	for i := 0; i+1 < len(cs); i++ {
		a, b := cs[i], cs[i+1]
		last := i+2 == len(cs)
		for b-a > 900 {
			pieces = append(pieces, piece{Range{a, 900}, 900})
			a += 900
		}
		if last {
			// [a, end-K): its length grows with the ClientHello
			for (hi-K)-a > 900 && a+900 <= lo-K {
				pieces = append(pieces, piece{Range{a, 900}, 900})
				a += 900
			}
			pieces = append(pieces, piece{Range{a, -K}, hi - K - a})
		} else {
			pieces = append(pieces, piece{Range{a, b - a}, b - a})
		}
	}
	pieces = append(pieces, piece{Range{-K, 0}, K})
	perm := rapid.Permutation(pieces).Draw(t, "piece-order")
	var dgs []FlightDG
	cur := FlightDG{}
	size := 0
	for _, p := range perm {
		if size+p.size > 1000 && len(cur.Ranges) > 0 {
			dgs = append(dgs, cur)
			cur, size = FlightDG{}, 0
		}
		cur.Ranges = append(cur.Ranges, p.r)
		size += p.size
	}
	dgs = append(dgs, cur)
	for i := range dgs {
		if rapid.Bool().Draw(t, "dg-random") {
			rf := GenRF(t, fmt.Sprintf("fd%d-", i), false)
			rf.MinCRYPTO, rf.MaxCRYPTO = 1, 1+uint8(rapid.IntRange(1, 3).Draw(t, "fd-maxc"))
			dgs[i].Frames = rf
		}
	}
	return dgs
}

// GenFlight draws a QUICFlightFrames plan (absolute offsets) covering [0,L).
func GenFlight(t *rapid.T, lo, hi int) [][]FrameItem {
	rf := GenRandFlight(t, lo, hi)
	var out [][]FrameItem
	for _, dg := range rf {
		var fs []FrameItem
		for _, r := range dg.Ranges {
			// QUICFlightFrames uses QUICFrameCrypto{Offset, Length} with the same conventions as QUICCryptoRange
			fs = append(fs, FrameItem{Kind: "crypto", Offset: r.Offset, Length: r.Length})
			if rapid.IntRange(0, 3).Draw(t, "fl-ping") == 0 {
				fs = append(fs, FrameItem{Kind: "ping"})
			}
		}
		out = append(out, fs)
	}
	return out
}

func varintBytes(v uint64) []byte {
	switch {
	case v < 1<<6:
		return []byte{byte(v)}
	case v < 1<<14:
		return []byte{byte(v>>8) | 0x40, byte(v)}
	case v < 1<<30:
		return []byte{byte(v>>24) | 0x80, byte(v >> 16), byte(v >> 8), byte(v)}
	}
	return []byte{byte(v>>56) | 0xc0, byte(v >> 48), byte(v >> 40), byte(v >> 32), byte(v >> 24), byte(v >> 16), byte(v >> 8), byte(v)}
}

// GenTPs draws a transport parameter list: typed standard parameters (values inside what a peer accepts), fake
// parameters with arbitrary ids and with STANDARD ids in raw form, GREASE with fixed / drawn lengths and ids,
// duplicates of unknown ids. initial_source_connection_id is always present (the peer requires it).
func GenTPs(t *rapid.T, minN, maxN int) []TPDesc { return GenTPsOpt(t, minN, maxN, TPOptions{}) }

// TPOptions widen the family GenTPs draws from.
type TPOptions struct {
	// RawStd: standard parameters also appear in raw form (tls.FakeQUICTransportParameter with a standard id) with
	// values a typed parameter cannot express - empty, non-minimal varint encodings (RFC 9000 16 allows a value to be
	// encoded on 1, 2, 4 or 8 bytes when it fits), arbitrary bytes - and initial_source_connection_id comes as the typed
	// placeholder, typed with a value, raw and empty, or raw with a value. Lists drawn with this option are for checks
	// that do not need a peer to accept them.
	RawStd bool
}

// NonMinimalVarint encodes v on n bytes (2, 4 or 8; v must fit).
func NonMinimalVarint(v uint64, n int) []byte {
	b := make([]byte, n)
	for i := n - 1; i >= 0; i-- {
		b[i] = byte(v)
		v >>= 8
	}
	b[0] |= map[int]byte{1: 0x00, 2: 0x40, 4: 0x80, 8: 0xc0}[n]
	return b
}

// GenTPsOpt is GenTPs with options (the zero options draw exactly what GenTPs draws).
func GenTPsOpt(t *rapid.T, minN, maxN int, o TPOptions) []TPDesc {
	n := rapid.IntRange(minN, maxN).Draw(t, "ntps")
	kinds := []string{"idle", "maxdata", "bidi_local", "bidi_remote", "uni", "streams_bidi", "streams_uni", "ack_delay", "udp", "cidlimit", "disable_migration", "dgram", "greasebit", "versioninfo", "grease", "grease", "fake", "fake", "fake-std"}
	if o.RawStd {
		kinds = append(kinds, "raw-std", "raw-std", "raw-std", "raw-std")
	}
	used := map[string]bool{}
	var out []TPDesc
	for len(out) < n {
		k := rapid.SampledFrom(kinds).Draw(t, "tpkind")
		d := TPDesc{K: k}
		switch k {
		case "idle":
			d.N = rapid.SampledFrom([]uint64{5000, 30000, 600000}).Draw(t, "v")
		case "maxdata", "bidi_local", "bidi_remote", "uni":
			d.N = rapid.SampledFrom([]uint64{65536, 1 << 20, 6291456, 15728640}).Draw(t, "v")
		case "streams_bidi", "streams_uni":
			d.N = rapid.SampledFrom([]uint64{3, 16, 100, 103}).Draw(t, "v")
		case "ack_delay":
			d.N = rapid.SampledFrom([]uint64{20, 25}).Draw(t, "v")
		case "udp":
			d.N = rapid.SampledFrom([]uint64{1200, 1472, 65527}).Draw(t, "v")
		case "cidlimit":
			d.N = rapid.SampledFrom([]uint64{2, 4, 8}).Draw(t, "v")
		case "dgram":
			d.N = rapid.SampledFrom([]uint64{1200, 65535}).Draw(t, "v")
		case "grease":
			d.N = uint64(rapid.IntRange(0, 20).Draw(t, "glen"))
			if rapid.Bool().Draw(t, "gid") {
				d.ID = 27 + 31*uint64(rapid.IntRange(0, 1<<20).Draw(t, "gmul"))
			}
		case "fake":
			d.ID = rapid.SampledFrom([]uint64{0x4752, 0x3127, 0x7157, 0x3128, 12345, 0x2ab2}).Draw(t, "fid")
			d.V = rapid.SliceOfN(rapid.Byte(), 0, 12).Draw(t, "fval")
		case "fake-std":
			// a standard id in raw form
			d.K = "fake"
			d.ID = rapid.SampledFrom([]uint64{0x01, 0x03, 0x04, 0x05, 0x06, 0x07, 0x08, 0x09, 0x0b, 0x0e, 0x20}).Draw(t, "sid")
			v := map[uint64]uint64{0x01: 30000, 0x03: 1472, 0x04: 1 << 20, 0x05: 65536, 0x06: 65536, 0x07: 65536, 0x08: 16, 0x09: 16, 0x0b: 25, 0x0e: 4, 0x20: 1200}[d.ID]
			d.V = varintBytes(v)
			k = fmt.Sprintf("std-%d", d.ID)
		case "raw-std":
			// a standard id in raw form with a value only the raw form can pin. Server-only parameters (0x00, 0x02,
			// 0x0d, 0x10) are left out; 0x0f is drawn below.
			d.K = "fake"
			d.ID = rapid.SampledFrom([]uint64{0x01, 0x03, 0x04, 0x05, 0x06, 0x07, 0x08, 0x09, 0x0a, 0x0b, 0x0c, 0x0e, 0x20, 0x2ab2}).Draw(t, "rid")
			switch rapid.SampledFrom([]string{"empty", "min", "nonmin", "nonmin", "nonmin", "bytes"}).Draw(t, "rform") {
			case "empty":
				d.V = []byte{}
			case "min":
				d.V = varintBytes(rapid.SampledFrom([]uint64{0, 1, 3, 63, 64, 1200, 16383, 16384, 1 << 20, 1<<30 - 1, 1 << 30, 1<<62 - 1}).Draw(t, "rv"))
			case "nonmin":
				v := rapid.SampledFrom([]uint64{0, 1, 2, 3, 25, 63, 64, 100, 1200, 16383, 16384, 65536, 1 << 20, 1<<30 - 1}).Draw(t, "rv")
				var lens []int
				for _, l := range []int{2, 4, 8} {
					if l > len(varintBytes(v)) {
						lens = append(lens, l)
					}
				}
				d.V = NonMinimalVarint(v, rapid.SampledFrom(lens).Draw(t, "rlen"))
			case "bytes":
				d.V = rapid.SliceOfN(rapid.Byte(), 1, 9).Draw(t, "rbytes")
			}
			k = fmt.Sprintf("std-%d", d.ID)
			if d.ID == 0x0c {
				k = "disable_migration"
			}
			if d.ID == 0x2ab2 {
				k = "greasebit"
			}
		}
		// standard parameters at most once (a duplicate makes the peer reject the handshake); unknown ids may repeat
		key := k
		if m := map[string]uint64{"idle": 1, "udp": 3, "maxdata": 4, "bidi_local": 5, "bidi_remote": 6, "uni": 7, "streams_bidi": 8, "streams_uni": 9, "ack_delay": 0x0b, "cidlimit": 0x0e, "dgram": 0x20}; m[k] != 0 {
			key = fmt.Sprintf("std-%d", m[k])
		}
		if k != "grease" && k != "fake" {
			if used[key] {
				continue
			}
			used[key] = true
		}
		out = append(out, d)
	}
	pos := rapid.IntRange(0, len(out)).Draw(t, "iscid-pos")
	iscid := TPDesc{K: "iscid"}
	if o.RawStd {
		switch rapid.SampledFrom([]string{"typed-empty", "typed-empty", "typed-value", "raw-empty", "raw-empty", "raw-empty", "raw-value"}).Draw(t, "iscid-form") {
		case "typed-value":
			iscid.V = rapid.SliceOfN(rapid.Byte(), 1, 20).Draw(t, "iscid-val")
		case "raw-empty":
			iscid = TPDesc{K: "fake", ID: 0x0f, V: []byte{}}
		case "raw-value":
			iscid = TPDesc{K: "fake", ID: 0x0f, V: rapid.SliceOfN(rapid.Byte(), 1, 24).Draw(t, "iscid-val")}
		}
	}
	out = append(out[:pos:pos], append([]TPDesc{iscid}, out[pos:]...)...)
	return out
}
