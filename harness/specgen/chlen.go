package specgen

import (
	"context"
	"fmt"
	"sync"
	"testing"
	"time"

	quic "github.com/refraction-networking/uquic"
	"github.com/refraction-networking/uquic/verif/sim"
)

var (
	chMu    sync.Mutex
	chCache = map[string][2]int{}
)

// Capture dials spec into a black hole for the given virtual duration and returns the world (with observer)
// after the dial gave up. Must be called OUTSIDE a bubble; it creates its own.
func Capture(t *testing.T, spec *quic.QUICSpec, conf *quic.Config, dur time.Duration, use func(w *sim.World, dialErr error)) {
	sim.Bubble(t, 5*time.Second, func() {
		w := sim.NewWorldBlackholeServer(10 * time.Millisecond)
		defer w.Close()
		w.Observe()
		ct := &quic.Transport{Conn: w.ClientConn}
		defer ct.Close()
		ctx, cancel := context.WithTimeout(context.Background(), dur)
		defer cancel()
		if conf == nil {
			conf = &quic.Config{DisablePathMTUDiscovery: true, HandshakeIdleTimeout: 30 * time.Second}
		}
		ut := &quic.UTransport{Transport: ct, QUICSpec: spec}
		conn, err := ut.Dial(ctx, sim.ServerAddr, sim.ClientTLS(w.ClientKeys), conf)
		if conn != nil {
			conn.CloseWithError(0, "")
		}
		use(w, err)
	}, nil)
}

// CHLen measures bounds of the ClientHello length a (base, extra) description produces (it varies per dial for
// the Chrome parrots), by dialling into a black hole several times. The bounds carry a safety margin.
func CHLen(t *testing.T) func(d Desc) (int, int) {
	return func(d Desc) (int, int) {
		// the fields that change the ClientHello: base, extra extension, suppressed transport parameters, source connection ID length (initial_source_connection_id)
		d = Desc{Base: d.Base, ExtraCH: d.ExtraCH, Suppress: d.Suppress, SrcCID: d.SrcCID}
		src := -1
		if d.SrcCID != nil {
			src = *d.SrcCID
		}
		key := fmt.Sprintf("%s/%d/%v/%d", d.Base, d.ExtraCH, d.Suppress, src)
		chMu.Lock()
		if v, ok := chCache[key]; ok {
			chMu.Unlock()
			return v[0], v[1]
		}
		chMu.Unlock()
		lo, hi := 1<<30, 0
		for i := 0; i < 16; i++ {
			spec, err := d.Build()
			if err != nil {
				return 0, 0
			}
			Capture(t, spec, nil, 150*time.Millisecond, func(w *sim.World, _ error) {
				_, _, maxEnd, _ := sim.CryptoStream(w.Obs.Packets[sim.C2S], "initial")
				lo, hi = min(lo, int(maxEnd)), max(hi, int(maxEnd))
			})
		}
		if hi > lo { // variable length: widen
			lo, hi = lo-70, hi+70
		}
		chMu.Lock()
		chCache[key] = [2]int{lo, hi}
		chMu.Unlock()
		return lo, hi
	}
}
