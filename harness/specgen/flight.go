package specgen

import (
	"context"
	"crypto/rand"
	"io"
	"net"
	"sync"
	"testing"
	"time"

	quic "github.com/refraction-networking/uquic"
	"github.com/refraction-networking/uquic/verif/refwire"
	"github.com/refraction-networking/uquic/verif/sim"
)

// Datagram is one client->server datagram of a captured flight.
type Datagram struct {
	T       time.Duration
	Len     int
	Raw     []byte
	Packets []*sim.Packet
}

// Flight is everything a client put on the wire during one dial.
type Flight struct {
	DialErr    error
	Datagrams  []Datagram // all c2s datagrams
	FirstBurst int        // number of leading datagrams sent at the very first instant (the first flight proper)
	CH         *sim.ClientHello
	CHData     []byte // contiguous prefix of the reassembled Initial CRYPTO stream
	CHComplete bool   // the stream has no hole up to its highest offset and parses as one ClientHello
	Conflict   bool   // overlapping CRYPTO ranges disagree
	Completed  bool   // live capture: handshake completed and an echo worked
	Handshake  bool   // live capture: Dial returned nil and the server accepted the connection
	ServerSaw  string
}

func collect(w *sim.World, burstOnly bool) Flight {
	var f Flight
	// the first flight proper: everything the client sends before it can have heard from the server and before
	// its first PTO (pacing may spread the flight over a few milliseconds)
	firstReply := time.Duration(1 << 62)
	for _, r := range w.Router.Log {
		if r.Dir == "s2c" && len(r.Dlv) > 0 && r.Dlv[0] < firstReply {
			firstReply = r.Dlv[0]
		}
	}
	t0 := time.Duration(-1)
	for _, r := range w.Router.Log {
		if r.Dir != "c2s" || r.Forged {
			continue
		}
		if t0 < 0 {
			t0 = r.T
		}
		pkts, _ := r.Pkts.([]*sim.Packet)
		f.Datagrams = append(f.Datagrams, Datagram{T: r.T, Len: r.Len, Raw: r.Data, Packets: pkts})
		if r.T < firstReply && r.T < t0+150*time.Millisecond {
			f.FirstBurst = len(f.Datagrams)
		}
	}
	var initials []*sim.Packet
	for i, d := range f.Datagrams {
		if burstOnly && i >= f.FirstBurst {
			break
		}
		for _, p := range d.Packets {
			if p.Kind == "initial" {
				initials = append(initials, p)
			}
		}
	}
	data, conflict, maxEnd, complete := sim.CryptoStream(initials, "initial")
	f.CHData, f.Conflict = data, conflict
	if complete && maxEnd > 0 {
		msgs, consumed := sim.HandshakeMessages(data)
		if len(msgs) == 1 && consumed == len(data) && msgs[0].Type == 1 {
			if ch, err := sim.ParseClientHello(msgs[0].Raw); err == nil {
				f.CH, f.CHComplete = ch, true
			}
		}
	}
	return f
}

// CaptureBlackhole dials spec into a black hole for dur (virtual) and returns what was sent.
// burstOnly restricts the ClientHello reassembly to the first burst (no PTO retransmissions).
func CaptureBlackhole(t *testing.T, spec *quic.QUICSpec, conf *quic.Config, dur time.Duration, burstOnly bool) Flight {
	var f Flight
	sim.Bubble(t, 5*time.Second, func() {
		w := sim.NewWorldBlackholeServer(10 * time.Millisecond)
		defer w.Close()
		w.Router.KeepData = true
		w.Observe().InitialPNHint = pnHint(spec)
		ct := &quic.Transport{Conn: w.ClientConn, ConnectionIDGenerator: ownGenerator()}
		// no deferred ct.Close(): a panic inside Dial happens with the transport's mutex held, and a deferred
		// Close would then block for ever instead of letting the panic surface
		ctx, cancel := context.WithTimeout(context.Background(), dur)
		defer cancel()
		if conf == nil {
			conf = &quic.Config{DisablePathMTUDiscovery: true, HandshakeIdleTimeout: 30 * time.Second}
		}
		ut := &quic.UTransport{Transport: ct, QUICSpec: spec}
		conn, err := ut.Dial(ctx, sim.ServerAddr, sim.ClientTLS(w.ClientKeys), conf)
		if conn != nil {
			conn.CloseWithError(0, "")
		}
		f = collect(w, burstOnly)
		f.DialErr = err
		ct.Close()
	}, nil)
	return f
}

// CaptureLive dials spec against the in-tree server (optionally with faults on the first datagrams), echoes a
// few bytes, and returns the whole client flight including retransmissions.
func CaptureLive(t *testing.T, spec *quic.QUICSpec, conf *quic.Config, faults []sim.Fault, retry bool) Flight {
	return captureLive(t, spec, conf, faults, retry, nil)
}

// CaptureLiveVN is CaptureLive against a server that only speaks QUIC v2: the client's v1 Initial is answered with a
// Version Negotiation packet and the dial continues with a re-created connection (packet numbers continue).
func CaptureLiveVN(t *testing.T, spec *quic.QUICSpec, conf *quic.Config, faults []sim.Fault) Flight {
	return captureLive(t, spec, conf, faults, false, []quic.Version{quic.Version2})
}

func captureLive(t *testing.T, spec *quic.QUICSpec, conf *quic.Config, faults []sim.Fault, retry bool, serverVersions []quic.Version) Flight {
	var f Flight
	sim.Bubble(t, 30*time.Second, func() {
		w := sim.NewWorld(10*time.Millisecond, faults, nil, nil)
		defer w.Close()
		w.Router.KeepData = true
		w.Observe().InitialPNHint = pnHint(spec)
		st := &quic.Transport{Conn: w.ServerConn}
		if retry {
			st.VerifySourceAddress = func(net.Addr) bool { return true }
		}
		defer st.Close()
		ln, err := st.Listen(sim.ServerTLS(false, w.ServerKeys), &quic.Config{Versions: serverVersions, DisablePathMTUDiscovery: true, MaxIdleTimeout: 20 * time.Second, HandshakeIdleTimeout: 10 * time.Second})
		if err != nil {
			f.DialErr = err
			return
		}
		defer ln.Close()
		ctx, cancel := context.WithTimeout(context.Background(), 40*time.Second)
		defer cancel()
		done := make(chan struct{})
		accepted := false
		go func() {
			defer close(done)
			c, err := ln.Accept(ctx)
			if err != nil {
				return
			}
			accepted = true
			s, err := c.AcceptStream(ctx)
			if err != nil {
				return
			}
			b, _ := io.ReadAll(s)
			s.Write(b)
			s.Close()
			<-c.Context().Done()
		}()
		ct := &quic.Transport{Conn: w.ClientConn, ConnectionIDGenerator: ownGenerator()}
		defer ct.Close()
		if conf == nil {
			conf = &quic.Config{DisablePathMTUDiscovery: true, MaxIdleTimeout: 20 * time.Second, HandshakeIdleTimeout: 10 * time.Second}
		}
		ut := &quic.UTransport{Transport: ct, QUICSpec: spec}
		conn, err := ut.Dial(ctx, sim.ServerAddr, sim.ClientTLS(w.ClientKeys), conf)
		ok := false
		if err == nil {
			ectx, ecancel := context.WithTimeout(ctx, 3*time.Second)
			if s, e := conn.OpenStreamSync(ectx); e == nil {
				s.SetDeadline(time.Now().Add(3 * time.Second))
				go func() { s.Write([]byte("ping-pong")); s.Close() }()
				b, e := io.ReadAll(s)
				ok = e == nil && string(b) == "ping-pong"
			}
			ecancel()
			conn.CloseWithError(0, "")
		}
		cancel()
		<-done
		f = collect(w, false)
		f.DialErr = err
		f.Completed = ok
		f.Handshake = err == nil && accepted
	}, nil)
	return f
}

// FrameStats summarises the frames of one packet.
type FrameStats struct {
	Crypto, Ping, PaddingRuns, Ack, Other int
	CryptoBytes                           int
	FrameBytes                            int // total wire length of all frames
	LowestOff, HighestEnd                 uint64
	Ranges                                [][2]uint64
}

// Stats computes FrameStats.
func Stats(p *sim.Packet) FrameStats {
	s := FrameStats{LowestOff: ^uint64(0)}
	for _, f := range p.Frames {
		s.FrameBytes += f.WireLen
		switch f.Name {
		case refwire.NameCrypto:
			s.Crypto++
			s.CryptoBytes += len(f.Data)
			if f.Offset < s.LowestOff {
				s.LowestOff = f.Offset
			}
			if e := f.Offset + uint64(len(f.Data)); e > s.HighestEnd {
				s.HighestEnd = e
			}
			s.Ranges = append(s.Ranges, [2]uint64{f.Offset, f.Offset + uint64(len(f.Data))})
		case refwire.NamePing:
			s.Ping++
		case refwire.NamePadding:
			s.PaddingRuns++
		case refwire.NameAck:
			s.Ack++
		default:
			s.Other++
		}
	}
	return s
}

// pnHint is the packet number just below the spec's first Initial packet number (-1 when it starts at 0).
func pnHint(spec *quic.QUICSpec) int64 {
	if spec == nil {
		return -1
	}
	pn := spec.InitialPacketSpec.InitPacketNumber
	if pn == 0 || pn > 1<<62-1 {
		return -1
	}
	return int64(pn - 1)
}

// Decodable reports whether a receiver without state can decode the spec's first packet number from an
// encoding of pnLen bytes (RFC 9000 A.3 with no packet received yet).
func Decodable(pn uint64, pnLen int) bool {
	if pn > 1<<62-1 {
		pn = 0
	}
	return pn < uint64(1)<<(8*uint(pnLen)-1)
}

// TokenObs is one Initial packet seen on the wire during CaptureOverlap.
type TokenObs struct {
	T     time.Duration
	DCID  []byte
	Token []byte
}

// CaptureOverlap dials the SAME spec value twice into a black hole from two sockets, the second dial starting gap
// after the first, and returns every Initial packet (first flights and PTO retransmissions) seen during dur.
func CaptureOverlap(t *testing.T, spec *quic.QUICSpec, gap, dur time.Duration) []TokenObs {
	var out []TokenObs
	sim.Bubble(t, 5*time.Second, func() {
		w := sim.NewWorldBlackholeServer(10 * time.Millisecond)
		defer w.Close()
		w.Router.KeepData = true
		w.Observe().InitialPNHint = pnHint(spec)
		ctA := &quic.Transport{Conn: w.ClientConn}
		ctB := &quic.Transport{Conn: w.NewEndpoint(&net.UDPAddr{IP: net.ParseIP("1.0.0.1"), Port: 9777})}
		ctx, cancel := context.WithTimeout(context.Background(), dur)
		defer cancel()
		conf := &quic.Config{DisablePathMTUDiscovery: true, HandshakeIdleTimeout: 30 * time.Second}
		var wg sync.WaitGroup
		dial := func(ct *quic.Transport, delay time.Duration) {
			defer wg.Done()
			time.Sleep(delay)
			conn, _ := (&quic.UTransport{Transport: ct, QUICSpec: spec}).Dial(ctx, sim.ServerAddr, sim.ClientTLS(w.ClientKeys), conf)
			if conn != nil {
				conn.CloseWithError(0, "")
			}
		}
		wg.Add(2)
		go dial(ctA, 0)
		go dial(ctB, gap)
		wg.Wait()
		for _, rec := range w.Router.Log {
			pk, _ := rec.Pkts.([]*sim.Packet)
			for _, p := range pk {
				if rec.Dir == "c2s" && p.Kind == "initial" {
					out = append(out, TokenObs{rec.T, append([]byte(nil), p.DCID...), append([]byte(nil), p.Token...)})
				}
			}
		}
		ctA.Close()
		ctB.Close()
	}, nil)
	return out
}

// OwnGenLen > 0 gives the client Transports of CaptureBlackhole / CaptureLive their own ConnectionIDGenerator of that
// length (set by the caller around a capture; Desc.OwnGen carries it in a case).
var OwnGenLen int

type fixedLenGenerator struct{ n int }

func (g fixedLenGenerator) GenerateConnectionID() (quic.ConnectionID, error) {
	b := make([]byte, g.n)
	if _, err := rand.Read(b); err != nil {
		return quic.ConnectionID{}, err
	}
	return quic.ConnectionIDFromBytes(b), nil
}
func (g fixedLenGenerator) ConnectionIDLen() int { return g.n }

func ownGenerator() quic.ConnectionIDGenerator {
	if OwnGenLen <= 0 {
		return nil
	}
	return fixedLenGenerator{OwnGenLen}
}
