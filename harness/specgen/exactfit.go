package specgen

import (
	"fmt"
	"sort"
	"sync"

	"pgregory.net/rapid"

	quic "github.com/refraction-networking/uquic"
)

// Exact-fit plans: flight builders / per-datagram plans whose frame payload fills the pinned
// InitialPacketPlan.PacketSize to the last byte ("exact"), one byte below it ("below"), or - a negative case for
// the builders that are validated before anything is sent - one byte more than the packet can carry ("over").
//
// The capacity of a datagram is computed here from the wire format, not asked from the library
// (RFC 9000 17.2 / 17.2.2 and RFC 9001 5.3):
//
//	long header = 1 (first byte) + 4 (version) + 1 + len(DCID) + 1 + len(SCID)
//	            + varint(len(token)) + len(token) + 2 (Length field; the packer always writes the 2-byte form)
//	            + packet number length of THIS packet
//	frame bytes = PacketSize - long header - 16 (AEAD tag of the Initial keys, AES-128-GCM)
//
// All quantities are pinned by the description: the connection ID lengths and the packet number lengths by the
// spec (every base pins them), the token by the token mode.

// FitInfo records how an exact-fit description was sized (classes and oracles of the checks use it).
type FitInfo struct {
	Kind  string `json:"kind"`  // flight | randflight | multi | budget
	Mode  string `json:"mode"`  // exact | below | over
	At    []int  `json:"at"`    // indices of the datagrams sized in Mode (the other pinned datagrams have slack or fit exactly)
	Sizes []int  `json:"sizes"` // pinned PacketSize per plan entry (0 = not pinned)
	Caps  []int  `json:"caps"`  // frame-byte capacity of plan entry i, from first principles (0 when not pinned)
	// PNLens[i] is the packet number length of the i-th Initial packet of a dial (what Caps[i] was computed with); it
	// covers every plan entry and every datagram named in At
	PNLens []int `json:"pn_lens"`
}

// BudgetDesc describes a BudgetFlight builder.
type BudgetDesc struct {
	Deltas []int `json:"deltas"` // datagram i carries MaxFrameBytes - Deltas[i] bytes (last entry repeats; negative = more than offered)
	Chunk  int   `json:"chunk"`  // at most this many CRYPTO bytes per datagram
	Pings  int   `json:"pings,omitempty"`
}

// Budget is one InitialDatagramBudget a BudgetFlight was offered.
type Budget struct {
	PacketSize    int `json:"packet_size"`
	MaxFrameBytes int `json:"max_frame_bytes"`
}

// BudgetFlight is a caller-written QUICFlightFrameBuilder of the kind the documentation of
// QUICFlightFrameBuilder invites ("a caller needing something neither expresses can implement it directly"): it
// sizes every datagram from the InitialDatagramBudget it is handed - CRYPTO in stream order, PINGs, then PADDING up
// to MaxFrameBytes - Deltas[i] - and remembers what it was offered.
type BudgetFlight struct {
	Desc BudgetDesc

	mu      sync.Mutex
	offered [][]Budget
}

func appendVarint(b []byte, v uint64) []byte { return append(b, varintBytes(v)...) }

func appendCrypto(b []byte, off int, data []byte) []byte {
	b = append(b, 0x06)
	b = appendVarint(b, uint64(off))
	b = appendVarint(b, uint64(len(data)))
	return append(b, data...)
}

// Build is the fallback for an Initial packet outside a planned flight: one CRYPTO frame.
func (f *BudgetFlight) Build(cryptoData []byte) ([]byte, error) {
	return appendCrypto(nil, 0, cryptoData), nil
}

// BuildFlight implements quic.QUICFlightFrameBuilder.
func (f *BudgetFlight) BuildFlight(cryptoData []byte, budgets []quic.InitialDatagramBudget) ([][]byte, error) {
	var seen []Budget
	for _, b := range budgets {
		seen = append(seen, Budget{PacketSize: b.Plan.PacketSize, MaxFrameBytes: b.MaxFrameBytes})
	}
	f.mu.Lock()
	f.offered = append(f.offered, seen)
	f.mu.Unlock()
	if len(budgets) == 0 || len(f.Desc.Deltas) == 0 {
		return nil, fmt.Errorf("BudgetFlight: no budgets / no deltas")
	}
	var out [][]byte
	off := 0
	for i := 0; off < len(cryptoData) || i == 0; i++ {
		b := budgets[min(i, len(budgets)-1)].MaxFrameBytes
		target := b - f.Desc.Deltas[min(i, len(f.Desc.Deltas)-1)]
		n := min(len(cryptoData)-off, f.Desc.Chunk, target-8-f.Desc.Pings)
		if n <= 0 {
			return nil, fmt.Errorf("BudgetFlight: budget %d of datagram %d leaves no room for CRYPTO", b, i)
		}
		p := appendCrypto(nil, off, cryptoData[off:off+n])
		off += n
		for k := 0; k < f.Desc.Pings; k++ {
			p = append(p, 0x01)
		}
		if len(p) < target {
			p = append(p, make([]byte, target-len(p))...)
		}
		out = append(out, p)
	}
	return out, nil
}

// Offered returns the budgets of every BuildFlight call so far.
func (f *BudgetFlight) Offered() [][]Budget {
	f.mu.Lock()
	defer f.mu.Unlock()
	return append([][]Budget(nil), f.offered...)
}

// OfferedBudgets returns what the spec's BudgetFlight builder (if it has one) was offered, one entry per planned flight.
func OfferedBudgets(spec *quic.QUICSpec) [][]Budget {
	if f, ok := spec.InitialPacketSpec.FrameBuilder.(*BudgetFlight); ok {
		return f.Offered()
	}
	return nil
}

func varintLen(v uint64) int { return len(varintBytes(v)) }

// cryptoFrameLen is the wire length of a CRYPTO frame (RFC 9000 19.6).
func cryptoFrameLen(off, n int) int { return 1 + varintLen(uint64(off)) + varintLen(uint64(n)) + n }

// headerParams reads the quantities that fix the long header length out of the built description.
type headerParams struct {
	dcid, scid, token int
	pnLens            []int // per packet index; the last repeats
}

func (d Desc) headerParams() (headerParams, bool) {
	spec, err := d.Build()
	if err != nil {
		return headerParams{}, false
	}
	ips := &spec.InitialPacketSpec
	h := headerParams{dcid: ips.DestConnIDLength, scid: ips.SrcConnIDLength}
	if h.dcid <= 0 || h.dcid > 20 || h.scid < 0 || h.scid > 20 {
		return h, false // a zero DestConnIDLength means "random length"
	}
	switch ts := ips.TokenStore.(type) {
	case nil:
		h.token = max(ips.ClientTokenLength, len(ips.ClientTokenPrefix))
	case fixedTokenStore:
		h.token = len(ts.data)
	default:
		return h, false
	}
	switch {
	case len(ips.InitPacketNumberLengths) > 0:
		for _, l := range ips.InitPacketNumberLengths {
			h.pnLens = append(h.pnLens, int(l))
		}
	case ips.InitPacketNumberLength != 0:
		h.pnLens = []int{int(ips.InitPacketNumberLength)}
	default:
		return h, false // library-chosen length
	}
	for _, l := range h.pnLens {
		if l < 1 || l > 4 {
			return h, false
		}
	}
	return h, true
}

func (h headerParams) pnLen(i int) int { return h.pnLens[min(i, len(h.pnLens)-1)] }

// headerLen is the length of the long header of the i-th Initial packet.
func (h headerParams) headerLen(i int) int {
	return 1 + 4 + 1 + h.dcid + 1 + h.scid + varintLen(uint64(h.token)) + h.token + 2 + h.pnLen(i)
}

// capacity is the number of frame bytes an Initial packet of packetSize bytes carries as the i-th packet.
func (h headerParams) capacity(i, packetSize int) int { return packetSize - h.headerLen(i) - 16 }

// exactDG is one datagram of an exact-fit layout.
type exactDG struct {
	ranges   []Range
	bytes    int  // upper bound of the CRYPTO bytes it carries
	stretchy bool // contains the range whose length follows the ClientHello length
}

// genExactLayout cuts the stream [0,L), lo <= L <= hi, into ranges of known length plus one range that absorbs the
// variation of the ClientHello length ([a, end-K)) and assigns them to datagrams of at most 700 CRYPTO bytes. When
// needFixed is set there is at least one datagram without the variable range.
func genExactLayout(t *rapid.T, lo, hi int, needFixed bool) []exactDG {
	K := rapid.IntRange(1, min(300, lo/3)).Draw(t, "xf-tail")
	type piece struct {
		r        Range
		size     int
		stretchy bool
	}
	var pieces []piece
	// cut points of the head [0, lo-K)
	n := rapid.IntRange(1, 4).Draw(t, "xf-ncuts")
	cuts := map[int]bool{0: true}
	for i := 1; i < n && lo-K > 2; i++ {
		cuts[rapid.IntRange(1, lo-K-1).Draw(t, "xf-cut")] = true
	}
	var cs []int
	for c := range cuts {
		cs = append(cs, c)
	}
	sort.Ints(cs)
	for i, a := range cs {
		if i+1 < len(cs) {
			b := cs[i+1]
			for b-a > 600 {
				pieces = append(pieces, piece{Range{a, 600}, 600, false})
				a += 600
			}
			pieces = append(pieces, piece{Range{a, b - a}, b - a, false})
			continue
		}
		// the last piece runs to K bytes before the end: [a, L-K), at least lo-K-a > 0 bytes
		for hi-K-a > 700 {
			pieces = append(pieces, piece{Range{a, 400}, 400, false})
			a += 400
		}
		pieces = append(pieces, piece{Range{a, -K}, hi - K - a, true})
	}
	pieces = append(pieces, piece{Range{-K, 0}, K, false})
	perm := rapid.Permutation(pieces).Draw(t, "xf-order")
	var dgs []exactDG
	cur := exactDG{}
	for _, p := range perm {
		if len(cur.ranges) > 0 && (cur.bytes+p.size > 700 || len(cur.ranges) >= 4) {
			dgs = append(dgs, cur)
			cur = exactDG{}
		}
		cur.ranges = append(cur.ranges, p.r)
		cur.bytes += p.size
		cur.stretchy = cur.stretchy || p.stretchy
	}
	dgs = append(dgs, cur)
	if needFixed && len(dgs) == 1 {
		// move the variable range into a datagram of its own
		var fixed, st exactDG
		for i, r := range dgs[0].ranges {
			if r.Length < 0 {
				st.ranges, st.bytes, st.stretchy = []Range{r}, perm[i].size, true
			} else {
				fixed.ranges = append(fixed.ranges, r)
				fixed.bytes += perm[i].size
			}
		}
		if rapid.Bool().Draw(t, "xf-fixed-first") {
			dgs = []exactDG{fixed, st}
		} else {
			dgs = []exactDG{st, fixed}
		}
	}
	return dgs
}

var exactSizes = []int{1200, 1200, 1232, 1250, 1252, 1280, 1280}

func drawPacketSize(t *rapid.T) int {
	if rapid.IntRange(0, 2).Draw(t, "xf-ps-any") == 0 {
		return rapid.IntRange(1200, 1280).Draw(t, "xf-ps")
	}
	return rapid.SampledFrom(exactSizes).Draw(t, "xf-ps")
}

// genExactFit turns d into an exact-fit description (builder, plans and Fit are replaced). It returns false and
// leaves d alone when the header length of d cannot be known in advance.
func genExactFit(t *rapid.T, d *Desc, o Options) bool {
	if o.CHLen == nil {
		return false
	}
	kind := rapid.SampledFrom([]string{"flight", "randflight", "randflight", "multi", "budget"}).Draw(t, "xf-kind")
	mode := rapid.SampledFrom([]string{"exact", "exact", "exact", "below", "below", "over"}).Draw(t, "xf-mode")
	if kind == "multi" && mode == "over" {
		// a per-datagram builder is not validated: the PacketSize documentation makes "leaves room" the caller's duty
		mode = "exact"
	}
	nd := *d
	if nd.DestCID != nil && *nd.DestCID == 0 {
		nd.DestCID = nil // 0 = random length: the header length would not be known
	}
	nd.Builder, nd.Plans, nd.ClearPlans, nd.Fit = nil, nil, true, nil
	h, ok := nd.headerParams()
	if !ok {
		return false
	}
	lo, hi := o.CHLen(nd)
	if lo < 60 || hi < lo || hi-lo > 280 { // genExactLayout's 400-byte steps stay below lo-K only for a bounded variation
		return false
	}
	delta := map[string]int{"exact": 0, "below": 1, "over": -1}[mode]
	fit := &FitInfo{Kind: kind, Mode: mode}
	plan := func(i, ps int) {
		nd.Plans = append(nd.Plans, Plan{PacketSize: ps})
		fit.Sizes = append(fit.Sizes, ps)
		if ps > 0 {
			fit.Caps = append(fit.Caps, h.capacity(i, ps))
		} else {
			fit.Caps = append(fit.Caps, 0)
		}
	}
	switch kind {
	case "multi":
		// datagram 0 carries at most cl CRYPTO bytes, cut and padded by its QUICRandomFrames to Length = capacity
		// (- 1). Only datagram 0: QUICRandomFrames measures its PADDING against offsets counted from 0, so for a
		// later datagram Length is not the exact payload length.
		ps := drawPacketSize(t)
		plan(0, ps)
		rf := GenRF(t, "xf-m0-", false)
		rf.MinPADDING = uint8(rapid.IntRange(1, 3).Draw(t, "xf-minpad"))
		rf.MaxPADDING = rf.MinPADDING + uint8(rapid.IntRange(1, 4).Draw(t, "xf-dpad"))
		rf.Length = uint16(fit.Caps[0] - delta)
		cl := rapid.IntRange(60, 700).Draw(t, "xf-cl")
		nd.Plans[0].CryptoLength = cl
		b := &Builder{Kind: "multi", Multi: []RF{rf}}
		// later datagrams: a CRYPTO cap and either no pinned size or one with the margin Gen uses
		rest := Plan{CryptoLength: rapid.IntRange(200, 700).Draw(t, "xf-cl-rest")}
		if rapid.Bool().Draw(t, "xf-rest-pinned") {
			rest.PacketSize = rapid.SampledFrom([]int{1200, 1250, 1280}).Draw(t, "xf-ps-rest")
		}
		nd.Plans = append(nd.Plans, rest)
		fit.Sizes, fit.Caps = append(fit.Sizes, rest.PacketSize), append(fit.Caps, 0)
		b.Multi = append(b.Multi, GenRF(t, "xf-m1-", false))
		nd.Builder = b
		fit.At = []int{0}
	case "budget":
		// one plan (hence one budget) per datagram: what the builder is told about a datagram is all it may rely on
		bd := &BudgetDesc{Chunk: rapid.IntRange(100, 900).Draw(t, "xf-chunk"), Pings: rapid.IntRange(0, 2).Draw(t, "xf-pings")}
		bd.Chunk = max(bd.Chunk, (hi+7)/8) // at most 8 datagrams
		n := (hi + bd.Chunk - 1) / bd.Chunk
		for i := 0; i < n; i++ {
			plan(i, drawPacketSize(t))
		}
		over := -1
		if mode == "over" {
			over = rapid.IntRange(0, max(0, (lo+bd.Chunk-1)/bd.Chunk-1)).Draw(t, "xf-over-at")
		}
		for i := 0; i < n; i++ {
			switch {
			case mode == "over" && i == over:
				bd.Deltas = append(bd.Deltas, -1)
			case mode == "over":
				bd.Deltas = append(bd.Deltas, 0)
			default:
				bd.Deltas = append(bd.Deltas, delta)
			}
		}
		if mode == "over" {
			fit.At = []int{over}
		} else {
			// the datagrams every ClientHello length fills
			for i := 0; i < max(1, lo/bd.Chunk); i++ {
				fit.At = append(fit.At, i)
			}
		}
		nd.Builder = &Builder{Kind: "budget", Budget: bd}
	case "flight", "randflight":
		dgs := genExactLayout(t, lo, hi, kind == "flight")
		// candidates for an exact size: every datagram of a randflight (its builder pads to Length); the datagrams
		// of a flight whose frames all have a known length
		var cand []int
		for i, dg := range dgs {
			if kind == "randflight" || !dg.stretchy {
				cand = append(cand, i)
			}
		}
		if kind == "flight" {
			// the CRYPTO frame of the tail range {-K, 0} starts at L-K: its offset varint must have one length for all L
			for _, dg := range dgs {
				for _, r := range dg.ranges {
					if r.Offset < 0 && varintLen(uint64(lo+r.Offset)) != varintLen(uint64(hi+r.Offset)) {
						return false
					}
				}
			}
		}
		if len(cand) == 0 {
			return false
		}
		over := -1
		if mode == "over" {
			over = rapid.SampledFrom(cand).Draw(t, "xf-over-at")
		}
		isCand := map[int]bool{}
		for _, i := range cand {
			isCand[i] = true
		}
		b := &Builder{Kind: kind}
		for i, dg := range dgs {
			ps := drawPacketSize(t)
			dl := delta
			if mode == "over" && i != over {
				dl = 0
			}
			sized := isCand[i] && rapid.IntRange(0, 4).Draw(t, "xf-sized") != 0 || i == over // the others get a few bytes of slack
			if kind == "randflight" {
				rf := RF{}
				if rapid.Bool().Draw(t, "xf-dg-random") {
					rf = GenRF(t, fmt.Sprintf("xf-fd%d-", i), false)
					rf.MinCRYPTO, rf.MaxCRYPTO = 1, 1+uint8(rapid.IntRange(1, 3).Draw(t, "xf-maxc"))
				}
				rf.MinPADDING = uint8(rapid.IntRange(1, 3).Draw(t, "xf-minpad"))
				rf.MaxPADDING = rf.MinPADDING + uint8(rapid.IntRange(1, 4).Draw(t, "xf-dpad"))
				plan(i, ps)
				target := fit.Caps[i] - dl
				if !sized {
					target -= rapid.IntRange(2, 40).Draw(t, "xf-slack")
				}
				// CRYPTO + PING never exceed Length: at most MaxCRYPTO frames of <= 5 bytes overhead per range
				if bound := dg.bytes + 5*len(dg.ranges)*int(max(rf.MaxCRYPTO, 1)) + int(rf.MaxPING); bound > target {
					return false
				}
				rf.Length = uint16(target)
				b.RandFlight = append(b.RandFlight, FlightDG{Ranges: dg.ranges, Frames: rf})
			} else {
				var fs []FrameItem
				size := 0
				for _, r := range dg.ranges {
					fs = append(fs, FrameItem{Kind: "crypto", Offset: r.Offset, Length: r.Length})
					switch {
					case r.Length > 0:
						size += cryptoFrameLen(r.Offset, r.Length)
					case r.Offset < 0: // the last -Offset bytes, starting at L+Offset
						size += cryptoFrameLen(lo+r.Offset, -r.Offset)
					default: // [Offset, L+Length): upper bound
						size += cryptoFrameLen(r.Offset, hi+r.Length-r.Offset)
					}
					if rapid.IntRange(0, 3).Draw(t, "xf-ping") == 0 {
						fs = append(fs, FrameItem{Kind: "ping"})
						size++
					}
				}
				if !isCand[i] {
					// the datagram with the variable range: not pinned, or pinned with room to spare
					if rapid.Bool().Draw(t, "xf-var-pinned") {
						plan(i, 1280)
						if size+8 > fit.Caps[i] {
							return false
						}
					} else {
						plan(i, 0)
					}
					b.Flight = append(b.Flight, fs)
					continue
				}
				plan(i, ps)
				target := fit.Caps[i] - dl
				if !sized {
					target -= rapid.IntRange(2, 40).Draw(t, "xf-slack")
				}
				pad := target - size
				if pad < 0 {
					return false
				}
				if pad > 0 {
					pos := rapid.IntRange(0, len(fs)).Draw(t, "xf-padpos")
					fs = append(fs[:pos:pos], append([]FrameItem{{Kind: "padding", Length: pad}}, fs[pos:]...)...)
				}
				b.Flight = append(b.Flight, fs)
			}
			if sized && (mode != "over" || i == over) {
				fit.At = append(fit.At, i)
			}
		}
		nd.Builder = b
	}
	if len(fit.At) == 0 {
		return false // every candidate drew slack
	}
	nDG := max(len(fit.Sizes), fit.At[len(fit.At)-1]+1)
	for i := 0; i < nDG; i++ {
		fit.PNLens = append(fit.PNLens, h.pnLen(i))
	}
	nd.Fit = fit
	*d = nd
	return true
}
