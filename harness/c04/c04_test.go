// C04: Flow control - senders stay within advertised credit, receivers enforce it.
//
// Units in this package:
//
//	fc-model  (fc_model_test.go)  model-based machine over internal/flowcontrol: one connection
//	          controller and 1..5 stream controllers, hostile and honest peers, auto-tuning at
//	          drawn RTTs, against a credit-ledger reference model.
//	pipeline  (pipeline_test.go)  real SendStream(s) + real framer -> generated channel -> real
//	          ReceiveStream(s), both endpoints with real flow controllers, window updates flowing
//	          back through a generated reverse channel (closed loop) or generated freely (open loop).
//	recv-enforce (recv_enforce_test.go)  real ReceiveStream(s) + real flow controllers against a generated
//	          peer that may be non-conformant: first byte beyond an advertised limit -> FLOW_CONTROL_ERROR,
//	          in every receive-stream state.
package c04

import (
	"testing"

	"github.com/refraction-networking/uquic/verif/vf"
)

func TestMain(m *testing.M) { vf.Main(m) }
