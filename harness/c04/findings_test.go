//go:build go1.25

package c04

// Minimal, deterministic reproductions of the defects the C04 units found in the unchanged tree.
// They are not units of the check (the driver never selects them); run them by hand:
//
//	cd /verif/harness && C04_FINDINGS=1 go1.26.8 test -tags verif -count=1 -run 'TestFinding' -v ./c04
//
// Each test FAILS while the defect is present.

import (
	"context"
	"os"
	"testing"
	"testing/synctest"

	quic "github.com/refraction-networking/uquic"
	"github.com/refraction-networking/uquic/internal/flowcontrol"
	"github.com/refraction-networking/uquic/internal/monotime"
	"github.com/refraction-networking/uquic/internal/protocol"
	"github.com/refraction-networking/uquic/internal/utils"
	"github.com/refraction-networking/uquic/internal/wire"
)

func findingsEnabled(t *testing.T) {
	if os.Getenv("C04_FINDINGS") == "" {
		t.Skip("set C04_FINDINGS=1 to run the defect reproductions")
	}
}

func connFC(win int64) flowcontrol.ConnectionFlowController {
	return flowcontrol.NewConnectionFlowController(protocol.ByteCount(win), protocol.ByteCount(win), func(protocol.ByteCount) bool { return true }, &utils.RTTStats{}, utils.DefaultLogger)
}

func strFC(c flowcontrol.ConnectionFlowController, recvWin, sendWin int64) flowcontrol.StreamFlowController {
	return flowcontrol.NewStreamFlowController(2, c, protocol.ByteCount(recvWin), protocol.ByteCount(recvWin), protocol.ByteCount(sendWin), &utils.RTTStats{}, utils.DefaultLogger)
}

// Finding 1: receive_stream.go getControlFrame builds MAX_STREAM_DATA from GetWindowUpdate without
// checking for 0. If the final size arrives between Read (which queued the update) and the next
// packet, a MAX_STREAM_DATA frame with value 0 goes on the wire.
func TestFindingMaxStreamDataZero(t *testing.T) {
	findingsEnabled(t)
	now := monotime.Time(1e9)
	var ctl bool
	snd := &quic.VerifStreamSender{OnHasStreamControlFrame: func(protocol.StreamID, quic.VerifControlFrameGetter) { ctl = true }}
	rs := quic.VerifNewReceiveStream(2, snd, strFC(connFC(100), 4, 0))
	if err := rs.VerifHandleStreamFrame(&wire.StreamFrame{StreamID: 2, Data: []byte{1, 2, 3, 4}}, now); err != nil {
		t.Fatal(err)
	}
	if n, err := rs.Read(make([]byte, 4)); n != 4 || err != nil {
		t.Fatal(n, err)
	}
	if !ctl {
		t.Fatal("no window update queued")
	}
	// the FIN arrives before the next packet is packed
	if err := rs.VerifHandleStreamFrame(&wire.StreamFrame{StreamID: 2, Offset: 4, Fin: true}, now); err != nil {
		t.Fatal(err)
	}
	f, ok, _ := rs.VerifGetControlFrame(now)
	if ok {
		if m, is := f.Frame.(*wire.MaxStreamDataFrame); is && m.MaximumStreamData == 0 {
			t.Fatalf("MAX_STREAM_DATA with value 0 emitted (initial limit was 4): %+v", m)
		}
	}
}

// Finding 2: send_stream.go CancelWrite sets FinalSize = max(writeOffset, reliableOffset). The reliable
// size includes data buffered in nextFrame that flow control did not yet allow to send, so the
// RESET_STREAM_AT declares a final size beyond the peer's MAX_STREAM_DATA; the same implementation,
// as receiver, answers with FLOW_CONTROL_ERROR.
func TestFindingResetAtFinalSizeBeyondLimit(t *testing.T) {
	findingsEnabled(t)
	now := monotime.Time(1e9)
	sc := connFC(100)
	sc.UpdateSendWindow(1000)
	ss := quic.VerifNewSendStream(context.Background(), 2, &quic.VerifStreamSender{}, strFC(sc, 100, 1 /* peer allows 1 byte */), true)
	if n, err := ss.Write(make([]byte, 19)); n != 19 || err != nil { // buffered, Write returns
		t.Fatal(n, err)
	}
	ss.SetReliableBoundary()
	ss.CancelWrite(7)
	f, ok, _ := ss.VerifGetControlFrame(now)
	if !ok {
		t.Fatal("no RESET_STREAM queued")
	}
	rf := f.Frame.(*wire.ResetStreamFrame)
	t.Logf("sender: %+v (0 bytes sent, peer's stream limit 1)", rf)
	rs := quic.VerifNewReceiveStream(2, &quic.VerifStreamSender{}, strFC(connFC(1000), 1, 0))
	if err := rs.VerifHandleResetStreamFrame(rf, now); err != nil {
		t.Fatalf("the receiver (advertised stream limit 1) rejects the sender's frame: %v", err)
	}
}

// Finding 3: receive_stream.go handleResetStreamFrame completes a locally cancelled stream without
// Abandon when the RESET_STREAM_AT's reliable size is beyond what was read: the unread bytes are
// never returned as connection credit.
func TestFindingCreditLeakCancelReadThenResetAt(t *testing.T) {
	findingsEnabled(t)
	now := monotime.Time(1e9)
	rc := connFC(8)
	completed := false
	snd := &quic.VerifStreamSender{OnStreamCompleted: func(protocol.StreamID) { completed = true }}
	rs := quic.VerifNewReceiveStream(2, snd, strFC(rc, 8, 0))
	if err := rs.VerifHandleStreamFrame(&wire.StreamFrame{StreamID: 2, Data: make([]byte, 8)}, now); err != nil {
		t.Fatal(err)
	}
	rs.CancelRead(9)
	if err := rs.VerifHandleResetStreamFrame(&wire.ResetStreamFrame{StreamID: 2, FinalSize: 8, ReliableSize: 8}, now); err != nil {
		t.Fatal(err)
	}
	if !completed {
		t.Fatal("stream not completed")
	}
	// the stream is gone; all 8 bytes of the connection window were used by it and must come back
	if off := rc.GetWindowUpdate(now); off != 16 {
		t.Fatalf("connection MAX_DATA after the stream was abandoned: %d, want 8 consumed + 8 window = 16 (0 = no update): the connection window is lost for good", off)
	}
}

// Side finding (not flow control): SetReliableBoundary after a STOP_SENDING re-arms reliableSize on a
// stream whose outstanding-frame counter was zeroed; the acknowledgement of a frame sent earlier
// panics with "numOutStandingFrames negative" (in the connection's run loop).
func TestFindingSideSetReliableBoundaryAfterStopSendingPanics(t *testing.T) {
	findingsEnabled(t)
	sc := connFC(100)
	sc.UpdateSendWindow(1000)
	ss := quic.VerifNewSendStream(context.Background(), 2, &quic.VerifStreamSender{}, strFC(sc, 100, 1000), true)
	if _, err := ss.Write(make([]byte, 10)); err != nil {
		t.Fatal(err)
	}
	f, _, _ := ss.VerifPopStreamFrame(1200, protocol.Version1)
	if f.Frame == nil {
		t.Fatal("no frame")
	}
	ss.VerifHandleStopSendingFrame(&wire.StopSendingFrame{StreamID: 2, ErrorCode: 1})
	ss.SetReliableBoundary() // the application cannot know that a STOP_SENDING arrived
	defer func() {
		if r := recover(); r != nil {
			t.Fatalf("acknowledging the frame sent before the STOP_SENDING panics: %v", r)
		}
	}()
	f.Handler.OnAcked(f.Frame)
}

// Side finding (not flow control): a Write blocked on flow control that is woken by STOP_SENDING
// buffers its data and reports success although the stream was reset.
func TestFindingSideWriteSucceedsAfterStopSending(t *testing.T) {
	findingsEnabled(t)
	synctest.Test(t, func(t *testing.T) {
		sc := connFC(100)
		ss := quic.VerifNewSendStream(context.Background(), 2, &quic.VerifStreamSender{}, strFC(sc, 100, 0), false)
		type res struct {
			n   int
			err error
		}
		ch := make(chan res, 1)
		go func() {
			ss.Write(make([]byte, 45)) // buffered
			n, err := ss.Write(make([]byte, 1452))
			ch <- res{n, err}
		}()
		synctest.Wait()
		ss.VerifHandleStopSendingFrame(&wire.StopSendingFrame{StreamID: 2, ErrorCode: 1})
		synctest.Wait()
		r := <-ch
		if r.err == nil {
			t.Errorf("Write returned (%d, nil) after the peer's STOP_SENDING reset the stream", r.n)
		}
		ss.VerifCloseForShutdown(nil)
	})
}
