package c04

// Unit fc-model: model-based machine over internal/flowcontrol.
//
// One connection flow controller and N (1..5) stream flow controllers share it. The machine
// plays both roles of the real callers (send_stream.go / framer.go on the sending side,
// receive_stream.go / connection.go on the receiving side) and a peer that may be honest or
// hostile. The reference model is a credit ledger:
//
//	per stream:     highest received, consumed (read or abandoned), advertised limit A_s, window w_s,
//	                send limit L_s (largest MAX_STREAM_DATA seen), bytes sent, limits reported as blocked
//	per connection: sum of highest, consumed total C, advertised limit A_c, window w_c,
//	                send limit L_c, bytes sent, limits reported as blocked
//
// w_c is not read from the implementation: it is reconstructed from the documented
// Config.AllowConnectionWindowIncrease contract (the callback is asked for every increase, with the
// delta), so every MAX_DATA value can be checked for exact equality with C + w_c.

import (
	"errors"
	"fmt"
	"testing"
	"time"

	"pgregory.net/rapid"

	"github.com/refraction-networking/uquic/internal/flowcontrol"
	"github.com/refraction-networking/uquic/internal/monotime"
	"github.com/refraction-networking/uquic/internal/protocol"
	"github.com/refraction-networking/uquic/internal/qerr"
	"github.com/refraction-networking/uquic/internal/utils"
	"github.com/refraction-networking/uquic/verif/vf"
)

type FCParams struct {
	N       int    `json:"n"`
	ConnWin int64  `json:"cw"`
	ConnMax int64  `json:"cmax"`
	StrWin  int64  `json:"sw"`
	StrMax  int64  `json:"smax"`
	RTTUs   int64  `json:"rtt_us"` // 0: zero-valued RTTStats, auto-tuning off
	Allow   uint32 `json:"allow"`  // decision of the k-th allowWindowIncrease call = bit (k mod 32)
	PeerStr int64  `json:"peer_sw"`
	Tempo   int64  `json:"tempo_us"` // unit of the clock steps between operations
}

type FCOp struct {
	K   string `json:"k"`
	S   int    `json:"s,omitempty"`
	V   int64  `json:"v,omitempty"`
	V2  int64  `json:"v2,omitempty"` // reset: reliable size
	Fin bool   `json:"fin,omitempty"`
	Dt  int64  `json:"dt,omitempty"` // clock advance before the op, microseconds
}

type fcStream struct {
	fc flowcontrol.StreamFlowController
	id int64
	// receiving direction
	highest, read int64 // read = consumed: read by the application or abandoned
	final         int64 // -1: unknown
	adv, win      int64
	cancelLocal   bool
	resetRemote   bool
	reliable      int64
	abandoned     bool
	completed     bool
	flagS         bool  // AddBytesRead announced a stream window update that was not fetched yet
	firstRecvAt   int64 // -1: nothing received yet
	lastUpdAt     int64
	updates       int
	// sending direction
	limit, sent int64
	reported    map[int64]bool
}

type fcMachine struct {
	p     FCParams
	conn  flowcontrol.ConnectionFlowController
	rtt   *utils.RTTStats
	now   int64 // us
	str   []*fcStream
	nextI int64
	dead  bool
	// finishing: Finish is completing the streams; no class bookkeeping for its own operations
	finishing bool

	// connection ledger
	hr, c       int64
	advC, winC  int64
	flagC       bool
	firstRecvAt int64
	lastEvAt    int64 // latest possible start of the connection's auto-tuning epoch
	updatesC    int
	strGrew     bool
	lc, sentC   int64
	reportedC   map[int64]bool
	anyRecv     bool

	// allowWindowIncrease log of the current op
	cbCalls   []int64
	cbAllowed []bool
	cbCount   int
	cbErr     *vf.Verdict

	// classes
	cls map[string]bool
	sig []byte
}

func (m *fcMachine) t() monotime.Time { return monotime.Time(m.now * 1000) }

func newFCMachine(p FCParams) vf.Machine[FCOp] {
	m := &fcMachine{p: p, now: 1_000_000, firstRecvAt: -1, reportedC: map[int64]bool{}, cls: map[string]bool{}}
	if p.RTTUs == 0 {
		m.rtt = &utils.RTTStats{}
	} else {
		m.rtt = utils.NewRTTStats()
		m.rtt.UpdateRTT(time.Duration(p.RTTUs)*time.Microsecond, 0)
	}
	m.conn = flowcontrol.NewConnectionFlowController(
		protocol.ByteCount(p.ConnWin), protocol.ByteCount(p.ConnMax),
		func(d protocol.ByteCount) bool {
			allowed := p.Allow&(1<<(uint(m.cbCount)%32)) != 0
			m.cbCount++
			m.cbCalls = append(m.cbCalls, int64(d))
			m.cbAllowed = append(m.cbAllowed, allowed)
			if d <= 0 {
				m.cbErr = vf.Bad("C04/autotune/conn-window", "allowWindowIncrease asked for a non-positive delta %d", d)
			}
			if allowed {
				m.winC += int64(d)
			}
			return allowed
		},
		m.rtt, utils.DefaultLogger)
	m.advC, m.winC = p.ConnWin, p.ConnWin
	for i := 0; i < p.N; i++ {
		m.str = append(m.str, m.newStream())
	}
	return m
}

func (m *fcMachine) newStream() *fcStream {
	id := m.nextI * 4
	m.nextI++
	return &fcStream{
		fc: flowcontrol.NewStreamFlowController(protocol.StreamID(id), m.conn, protocol.ByteCount(m.p.StrWin),
			protocol.ByteCount(m.p.StrMax), protocol.ByteCount(m.p.PeerStr), m.rtt, utils.DefaultLogger),
		id: id, final: -1, adv: m.p.StrWin, win: m.p.StrWin, firstRecvAt: -1, limit: m.p.PeerStr, reported: map[int64]bool{},
	}
}

func thr(w int64) int64 { return int64(float64(w) * (1 - protocol.WindowUpdateThreshold)) }

func maxGrow(w, mx int64) int64 {
	if g := min(2*w, mx); g > w {
		return g
	}
	return w
}

// ---------------------------------------------------------------------------------------------
// generator

var fcDts = []int64{0, 0, 0, 0, 0, 1, 1, 2, 5, 20, 300}

func (m *fcMachine) Gen(t *rapid.T) FCOp {
	if m.dead {
		return FCOp{K: "nop"}
	}
	kinds := []string{
		"recv", "recv", "recv", "recv", "recv", "recv", "recv",
		"read", "read", "read", "read", "read", "read",
		"wuS", "wuS", "wuS", "wuC", "wuC", "wuC",
		"send", "send", "send", "send", "updS", "updS", "updS", "updC", "updC",
		"blkS", "blkS", "blkC", "cancel", "reset", "recycle", "zrtt",
	}
	k := rapid.SampledFrom(kinds).Draw(t, "kind")
	if m.lc == 0 && (k == "send" || k == "blkC" || k == "blkS") {
		k = "updC" // transport parameters arrive early in a connection's life
	}
	op := FCOp{K: k, Dt: m.p.Tempo * rapid.SampledFrom(fcDts).Draw(t, "dt")}
	op.S = rapid.IntRange(0, len(m.str)-1).Draw(t, "s")
	if rapid.IntRange(0, 4).Draw(t, "smart") != 0 {
		// prefer a stream on which the operation does something
		var el []int
		for i, s := range m.str {
			ok := false
			switch k {
			case "recv", "reset", "cancel":
				ok = !s.completed && !s.cancelLocal
			case "read":
				ok = !s.completed && !s.cancelLocal && (s.highest > s.read || (s.final >= 0 && s.read == s.final) || s.resetRemote)
			case "wuS":
				ok = s.flagS && s.final < 0
			case "send":
				ok = m.sws(s) > 0
			case "blkS":
				ok = s.limit == s.sent
			case "recycle":
				ok = s.completed
			}
			if ok {
				el = append(el, i)
			}
		}
		if len(el) > 0 {
			op.S = el[rapid.IntRange(0, len(el)-1).Draw(t, "el")]
		}
	}
	s := m.str[op.S]
	switch k {
	case "recv":
		if s.completed {
			op.K = "recycle"
			break
		}
		room := min(s.adv, s.highest+(m.advC-m.hr)) // largest offset an honest peer may send
		mode := rapid.IntRange(0, 99).Draw(t, "mode")
		switch {
		case mode < 40: // honest progress
			op.V = rapid.Int64Range(s.highest, max(s.highest, room)).Draw(t, "off")
		case mode < 60: // exactly up to the limit
			op.V = max(s.highest, room)
		case mode < 75: // small step
			op.V = min(max(s.highest, room), s.highest+int64(rapid.IntRange(1, 3).Draw(t, "step")))
		case mode < 96: // reordered / duplicate
			op.V = rapid.Int64Range(0, s.highest).Draw(t, "old")
		case mode < 97: // one past the stream limit
			op.V = s.adv + 1
		case mode < 98: // one past what the connection allows
			op.V = s.highest + (m.advC - m.hr) + 1
		case mode < 99: // far beyond
			op.V = max(s.adv, s.highest+(m.advC-m.hr)) + rapid.Int64Range(1, 1<<20).Draw(t, "far")
		default:
			op.V = rapid.Int64Range(s.highest, max(s.highest, room)).Draw(t, "off")
		}
		if s.final >= 0 && rapid.IntRange(0, 49).Draw(t, "respect-final") != 0 {
			op.V = min(op.V, s.final)
		}
		op.Fin = rapid.IntRange(0, 7).Draw(t, "fin") == 0
		if op.Fin && (op.V < s.highest || (s.final >= 0 && op.V != s.final)) && rapid.IntRange(0, 29).Draw(t, "bad-fin") != 0 {
			op.Fin = false // a FIN below the highest offset / contradicting the known final size is a (rare) hostile case
		}
		if s.final >= 0 && op.V == s.final {
			op.Fin = rapid.Bool().Draw(t, "refin")
		}
	case "reset":
		if s.completed {
			op.K = "recycle"
			break
		}
		room := min(s.adv, s.highest+(m.advC-m.hr))
		switch rapid.IntRange(0, 39).Draw(t, "mode") {
		case 0:
			op.V = room + 1 // final size beyond the limits
		case 1:
			op.V = rapid.Int64Range(0, s.highest).Draw(t, "short") // final size below what was received
		case 2, 3, 4, 5, 6, 7, 8, 9:
			op.V = max(s.highest, room)
		default:
			op.V = rapid.Int64Range(s.highest, max(s.highest, room)).Draw(t, "final")
		}
		if s.final >= 0 && rapid.IntRange(0, 29).Draw(t, "respect-final") != 0 {
			op.V = s.final
		}
		if rapid.IntRange(0, 2).Draw(t, "reliable") == 0 && op.V > 0 {
			op.V2 = rapid.Int64Range(0, op.V).Draw(t, "rel")
		}
	case "read":
		avail := s.highest - s.read
		switch rapid.IntRange(0, 5).Draw(t, "mode") {
		case 0, 1:
			op.V = avail
		case 2:
			op.V = min(avail, 1)
		case 3:
			// just enough to cross (or just miss) the window update threshold
			need := (s.adv - s.read) - thr(s.win) + int64(rapid.IntRange(-1, 1).Draw(t, "around"))
			op.V = max(0, min(avail, need))
		default:
			op.V = rapid.Int64Range(0, max(0, avail)).Draw(t, "n")
		}
	case "send":
		w := m.sws(s)
		switch rapid.IntRange(0, 4).Draw(t, "mode") {
		case 0, 1, 2:
			op.V = w
		case 3:
			op.V = min(w, 1)
		default:
			op.V = rapid.Int64Range(0, max(0, w)).Draw(t, "n")
		}
	case "updS":
		op.V = m.genLimit(t, s.limit, s.sent)
	case "updC":
		op.V = m.genLimit(t, m.lc, m.sentC)
	}
	return op
}

func (m *fcMachine) genLimit(t *rapid.T, cur, sent int64) int64 {
	switch rapid.IntRange(0, 9).Draw(t, "lmode") {
	case 0:
		return cur // duplicate
	case 1:
		return rapid.Int64Range(0, cur).Draw(t, "stale")
	case 2:
		return cur + 1
	case 3:
		return sent + int64(rapid.IntRange(0, 3).Draw(t, "near"))
	case 4:
		return rapid.Int64Range(0, 1<<40).Draw(t, "any")
	default:
		return cur + rapid.Int64Range(1, max(4, 2*m.p.StrWin)).Draw(t, "raise")
	}
}

// sws is the model's send window of a stream: min(stream credit, connection credit).
func (m *fcMachine) sws(s *fcStream) int64 {
	return max(0, min(s.limit-s.sent, m.lc-m.sentC))
}

// ---------------------------------------------------------------------------------------------
// apply

func (m *fcMachine) Apply(op FCOp) *vf.Verdict {
	if m.dead || op.K == "nop" {
		return nil
	}
	m.now += op.Dt
	m.cbCalls, m.cbAllowed, m.cbErr = m.cbCalls[:0], m.cbAllowed[:0], nil
	if op.S < 0 || op.S >= len(m.str) {
		return nil
	}
	s := m.str[op.S]
	m.sig = append(m.sig, op.K[0], op.K[len(op.K)-1], byte(op.S), byte(op.V), byte(op.V>>8), byte(op.V>>16))
	var v *vf.Verdict
	switch op.K {
	case "recv":
		v = m.recv(s, op.V, op.Fin, false, 0)
	case "reset":
		v = m.recv(s, op.V, true, true, op.V2)
	case "read":
		v = m.read(s, op.V)
	case "cancel":
		v = m.cancel(s)
	case "wuS":
		v = m.wuS(s)
	case "wuC":
		v = m.wuC()
	case "send":
		v = m.send(s, op.V)
	case "updS":
		upd := s.fc.UpdateSendWindow(protocol.ByteCount(op.V))
		if upd != (op.V > s.limit) {
			return vf.Bad("C04/send/update-result", "stream %d: UpdateSendWindow(%d) with current limit %d returned updated=%v", s.id, op.V, s.limit, upd)
		}
		m.noteLimit(op.V, s.limit, s.sent)
		s.limit = max(s.limit, op.V)
	case "updC":
		upd := m.conn.UpdateSendWindow(protocol.ByteCount(op.V))
		if upd != (op.V > m.lc) {
			return vf.Bad("C04/send/update-result", "connection: UpdateSendWindow(%d) with current limit %d returned updated=%v", op.V, m.lc, upd)
		}
		m.noteLimit(op.V, m.lc, m.sentC)
		m.lc = max(m.lc, op.V)
	case "blkS":
		b := s.fc.IsNewlyBlocked()
		v = m.blocked(fmt.Sprintf("stream %d", s.id), b, s.limit, s.limit, s.sent, s.reported)
	case "blkC":
		b, off := m.conn.IsNewlyBlocked()
		v = m.blocked("connection", b, int64(off), m.lc, m.sentC, m.reportedC)
		if v == nil && b {
			m.cls["conn-blocked"] = true
		}
	case "recycle":
		if s.completed {
			m.str[op.S] = m.newStream()
		}
	case "zrtt":
		if m.anyRecv || m.c != 0 {
			return nil // 0-RTT rejection happens before any 1-RTT data can have been received
		}
		if err := m.conn.Reset(); err != nil {
			return vf.Bad("C04/send/reset", "connection Reset() before any data was received failed: %v", err)
		}
		m.lc, m.sentC, m.reportedC = 0, 0, map[int64]bool{}
		for i := range m.str {
			m.str[i] = m.newStream() // all streams are closed on 0-RTT rejection
		}
		m.cls["zrtt-reset"] = true
	}
	if v == nil && m.cbErr != nil {
		v = m.cbErr
	}
	if v != nil {
		return v
	}
	return m.invariants()
}

func (m *fcMachine) noteLimit(v, cur, sent int64) {
	switch {
	case v < cur:
		m.cls["stale-update"] = true
	case v == cur:
		m.cls["dup-update"] = true
	default:
		if sent == cur && cur > 0 {
			m.cls["blocked-then-raised"] = true
		}
	}
}

func (m *fcMachine) invariants() *vf.Verdict {
	if got := int64(m.conn.SendWindowSize()); got != max(0, m.lc-m.sentC) {
		return vf.Bad("C04/send/window", "connection SendWindowSize=%d, ledger: limit %d - sent %d", got, m.lc, m.sentC)
	}
	for _, s := range m.str {
		if got := int64(s.fc.SendWindowSize()); got != m.sws(s) {
			return vf.Bad("C04/send/window", "stream %d SendWindowSize=%d, ledger: min(stream %d-%d, connection %d-%d)", s.id, got, s.limit, s.sent, m.lc, m.sentC)
		}
	}
	return nil
}

func (m *fcMachine) blocked(who string, b bool, off, limit, sent int64, reported map[int64]bool) *vf.Verdict {
	rem := limit - sent
	if b {
		if rem != 0 {
			return vf.Bad("C04/blocked/spurious", "%s reported blocked with %d bytes of credit left (limit %d, sent %d)", who, rem, limit, sent)
		}
		if off != limit {
			return vf.Bad("C04/blocked/spurious", "%s reported blocked at %d but the limit is %d", who, off, limit)
		}
		if reported[limit] {
			return vf.Bad("C04/blocked/twice", "%s reported blocked twice for the same limit %d", who, limit)
		}
		reported[limit] = true
		m.cls["blocked"] = true
		return nil
	}
	// Not reporting at all is allowed by the property ("at most once"; RFC 9000 4.1: SHOULD).
	return nil
}

func (m *fcMachine) send(s *fcStream, n int64) *vf.Verdict {
	w := m.sws(s)
	if n <= 0 || n > w {
		return nil // senders only send what SendWindowSize allows (send_stream.go popNewOrRetransmittedStreamFrame)
	}
	s.fc.AddBytesSent(protocol.ByteCount(n))
	s.sent += n
	m.sentC += n
	if s.sent == s.limit {
		m.cls["stream-limit-reached"] = true
	}
	if m.sentC == m.lc {
		m.cls["conn-limit-reached"] = true
	}
	return nil
}

func isTE(err error, code qerr.TransportErrorCode) bool {
	var te *qerr.TransportError
	return errors.As(err, &te) && te.ErrorCode == code
}

// recv plays a STREAM frame (or RESET_STREAM when reset) ending at off.
func (m *fcMachine) recv(s *fcStream, off int64, fin, reset bool, reliable int64) *vf.Verdict {
	if s.completed || off < 0 {
		return nil // the stream was deleted from the streams map; late frames are dropped there
	}
	// expectation, from RFC 9000 4.1 (limits) and 4.5 (final size)
	fsErr := false
	if s.final >= 0 && ((fin && off != s.final) || off > s.final) {
		fsErr = true
	}
	if fin && off < s.highest {
		fsErr = true
	}
	inc := max(0, off-s.highest)
	fcErrS := off > s.adv
	fcErrC := m.hr+inc > m.advC
	err := s.fc.UpdateHighestReceived(protocol.ByteCount(off), fin, m.t())
	what := fmt.Sprintf("stream %d UpdateHighestReceived(%d, fin=%v) [highest %d, final %d, advertised stream limit %d; connection: received %d, advertised %d]",
		s.id, off, fin, s.highest, s.final, s.adv, m.hr, m.advC)
	switch {
	case !fsErr && !fcErrS && !fcErrC:
		if err != nil {
			if isTE(err, qerr.FlowControlError) {
				return vf.Bad("C04/recv/false-flow-control-error", "%s is within the advertised limits but returned %v", what, err)
			}
			return vf.Bad("C04/recv/unexpected-error", "%s returned %v", what, err)
		}
	case fsErr && !fcErrS && !fcErrC:
		// final-size consistency (RFC 9000 4.5) is not part of C04: any outcome is accepted, but a
		// FLOW_CONTROL_ERROR would be a false one; the history ends here
		if isTE(err, qerr.FlowControlError) {
			return vf.Bad("C04/recv/false-flow-control-error", "%s is within the advertised limits but returned %v", what, err)
		}
		m.dead = true
		m.cls["final-size-error"] = true
		return nil
	case !fsErr:
		if !isTE(err, qerr.FlowControlError) {
			return vf.Bad("C04/recv/limit-not-enforced", "%s exceeds the advertised limit but returned %v", what, err)
		}
		m.dead = true
		if fcErrS {
			m.cls["fc-error-stream"] = true
		} else {
			m.cls["fc-error-conn"] = true
		}
		return nil
	default:
		if err == nil {
			return vf.Bad("C04/recv/limit-not-enforced", "%s violates final size and limits but was accepted", what)
		}
		m.dead = true
		return nil
	}
	// accepted
	if inc > 0 {
		if s.highest == 0 {
			s.firstRecvAt = m.now
			s.lastUpdAt = m.now
		}
		if m.hr == 0 {
			m.firstRecvAt = m.now
			m.lastEvAt = m.now
		}
		m.anyRecv = true
		s.highest = off
		m.hr += inc
		if off == s.adv {
			m.cls["at-stream-limit"] = true
		}
		if m.hr == m.advC {
			m.cls["at-conn-limit"] = true
		}
	} else if off < s.highest {
		m.cls["reordered"] = true
	}
	if fin {
		s.final = off
	}
	if reset {
		// receive_stream.go handleResetStreamFrameImpl
		if (!s.resetRemote && s.reliable == 0) || reliable < s.reliable {
			s.reliable = reliable
		}
		if s.read >= s.reliable {
			m.abandon(s)
		}
		if !s.resetRemote && !s.cancelLocal {
			s.resetRemote = true
		}
		m.cls["reset"] = true
	}
	if s.cancelLocal && s.final >= 0 {
		// stream is newly completed: the final offset is known and the application cancelled reading
		m.abandon(s)
		s.completed = true
	}
	return nil
}

func (m *fcMachine) abandon(s *fcStream) {
	s.fc.Abandon()
	if unread := s.highest - s.read; unread > 0 {
		if !s.abandoned && !m.finishing {
			m.cls["abandon-unread"] = true
		}
		m.c += unread
		s.read = s.highest
	}
	s.abandoned = true
}

func (m *fcMachine) read(s *fcStream, n int64) *vf.Verdict {
	if s.completed || s.cancelLocal {
		return nil
	}
	if s.resetRemote && s.read >= s.reliable {
		// Read returns the reset error; the stream completes (final size is known)
		s.completed = true
		return nil
	}
	if n < 0 || n > s.highest-s.read {
		return nil // only bytes actually received can be read (receive_stream.go readImpl)
	}
	if n == 0 && !(s.final >= 0 && s.read == s.final) {
		return nil
	}
	hs, hc := s.fc.AddBytesRead(protocol.ByteCount(n))
	s.read += n
	m.c += n
	// announcements: true must be followed by a real update; a fully (or threshold-) consumed window must be announced
	remS := s.adv - s.read
	if s.final < 0 {
		if !hs && (remS <= thr(s.win)-1 || remS == 0) {
			return vf.Bad("C04/advertise/stalled", "stream %d: %d of advertised %d consumed (window %d) but AddBytesRead announces no stream window update", s.id, s.read, s.adv, s.win)
		}
		if hs {
			s.flagS = true
		}
	}
	// once the final size is known the peer needs no more stream credit: whether an update is still
	// announced is left to the implementation (the property only constrains the values)
	remC := m.advC - m.c
	if !hc && (remC <= thr(m.winC)-1 || remC == 0) {
		return vf.Bad("C04/advertise/stalled", "connection: %d of advertised %d consumed (window %d) but AddBytesRead announces no connection window update", m.c, m.advC, m.winC)
	}
	if hc {
		m.flagC = true
	}
	if s.resetRemote && s.read >= s.reliable {
		m.abandon(s) // remote cancellation became effective
	}
	if s.final >= 0 && !s.resetRemote && s.read == s.final {
		s.completed = true // io.EOF was read
		m.cls["eof"] = true
	}
	return nil
}

func (m *fcMachine) cancel(s *fcStream) *vf.Verdict {
	if s.completed || s.cancelLocal {
		return nil
	}
	s.cancelLocal = true
	if !m.finishing {
		m.cls["cancel-read"] = true
	}
	if s.final >= 0 {
		m.abandon(s)
		s.completed = true
	}
	return nil
}

func (m *fcMachine) wuS(s *fcStream) *vf.Verdict {
	winCBefore := m.winC
	v := int64(s.fc.GetWindowUpdate(m.t()))
	if s.final >= 0 && v == 0 {
		if len(m.cbCalls) != 0 {
			return vf.Bad("C04/autotune/conn-follow", "stream %d: connection window increase requested by a no-op stream update", s.id)
		}
		return nil
	}
	rem := s.adv - s.read
	if v == 0 {
		if s.flagS {
			return vf.Bad("C04/advertise/flag-without-update", "stream %d: AddBytesRead announced a window update but GetWindowUpdate returned 0 (consumed %d, advertised %d, window %d)", s.id, s.read, s.adv, s.win)
		}
		if rem <= thr(s.win)-1 || rem == 0 {
			return vf.Bad("C04/advertise/stalled", "stream %d: %d of advertised %d consumed (window %d) but no update is issued", s.id, s.read, s.adv, s.win)
		}
		if len(m.cbCalls) != 0 {
			return vf.Bad("C04/autotune/conn-follow", "stream %d: connection window increase requested by a no-op stream update", s.id)
		}
		return nil
	}
	if v <= s.adv {
		return vf.Bad("C04/advertise/not-increasing", "stream %d: new MAX_STREAM_DATA %d does not exceed the previous %d", s.id, v, s.adv)
	}
	w := v - s.read
	grown := maxGrow(s.win, m.p.StrMax)
	if w != s.win && !(m.p.RTTUs > 0 && w == grown) {
		return vf.Bad("C04/advertise/stream-window", "stream %d: new MAX_STREAM_DATA %d = consumed %d + %d, but the window is %d (or %d after one doubling, max %d, rtt %dus)",
			s.id, v, s.read, w, s.win, grown, m.p.StrMax, m.p.RTTUs)
	}
	if vv := m.growthRules(fmt.Sprintf("stream %d", s.id), w > s.win, grown > s.win, s.read, s.win, s.firstRecvAt, s.lastUpdAt, s.updates == 0); vv != nil {
		return vv
	}
	// the connection window must follow a grown stream window (ConnectionFlowControlMultiplier)
	var want []int64
	if w > s.win {
		inc := int64(float64(w) * protocol.ConnectionFlowControlMultiplier)
		if inc > winCBefore && min(inc, m.p.ConnMax) > winCBefore {
			want = []int64{min(inc, m.p.ConnMax) - winCBefore}
		}
		m.strGrew = true
		m.lastEvAt = m.now
		m.cls["stream-window-grew"] = true
	}
	if len(want) != len(m.cbCalls) || (len(want) == 1 && want[0] != m.cbCalls[0]) {
		return vf.Bad("C04/autotune/conn-follow", "stream %d window %d -> %d: connection window %d (max %d) should be asked to grow by %v, asked %v",
			s.id, s.win, w, winCBefore, m.p.ConnMax, want, m.cbCalls)
	}
	if len(want) == 1 && m.cbAllowed[0] {
		m.cls["conn-window-followed"] = true
	}
	s.adv, s.win, s.flagS = v, w, false
	s.updates++
	s.lastUpdAt = m.now
	m.cls["stream-update"] = true
	return nil
}

// growthRules: sound consequences of the documented auto-tuning ("increase the window if it is
// consumed too fast relative to the RTT") that do not depend on the exact epoch bookkeeping.
func (m *fcMachine) growthRules(who string, grew, canGrow bool, consumed, win, firstRecvAt, lastEvAt int64, first bool) *vf.Verdict {
	if m.p.RTTUs == 0 {
		if grew {
			return vf.Bad("C04/autotune/grew-without-rtt", "%s: window grew although the RTT is unknown (0)", who)
		}
		return nil
	}
	elapsed := float64(m.now - lastEvAt) // the epoch started no later than lastEvAt
	if grew && elapsed >= 4*float64(consumed)/float64(win)*float64(m.p.RTTUs)+1 {
		return vf.Bad("C04/autotune/grew-slow-reader", "%s: window %d doubled although %dus passed since the last update, consumed %d in total, rtt %dus", who, win, m.now-lastEvAt, consumed, m.p.RTTUs)
	}
	if !grew && canGrow && first && firstRecvAt == m.now && 2*consumed > win+1 {
		return vf.Bad("C04/autotune/no-growth", "%s: %d bytes (window %d) were consumed in zero time at rtt %dus but the window did not grow", who, consumed, win, m.p.RTTUs)
	}
	return nil
}

func (m *fcMachine) wuC() *vf.Verdict {
	winBefore := m.winC
	v := int64(m.conn.GetWindowUpdate(m.t()))
	rem := m.advC - m.c
	if v == 0 {
		if m.flagC {
			return vf.Bad("C04/advertise/flag-without-update", "connection: AddBytesRead announced a window update but GetWindowUpdate returned 0 (consumed %d, advertised %d, window %d)", m.c, m.advC, winBefore)
		}
		if rem <= thr(winBefore)-1 || rem == 0 {
			return vf.Bad("C04/advertise/stalled", "connection: %d of advertised %d consumed (window %d) but no update is issued", m.c, m.advC, winBefore)
		}
		if len(m.cbCalls) != 0 {
			return vf.Bad("C04/autotune/conn-window", "connection: window increase requested although no update was issued")
		}
		return nil
	}
	if v <= m.advC {
		return vf.Bad("C04/advertise/not-increasing", "connection: new MAX_DATA %d does not exceed the previous %d", v, m.advC)
	}
	grown := maxGrow(winBefore, m.p.ConnMax)
	if len(m.cbCalls) > 1 || (len(m.cbCalls) == 1 && (m.p.RTTUs == 0 || m.cbCalls[0] != grown-winBefore)) {
		return vf.Bad("C04/autotune/conn-window", "connection: window %d (max %d, rtt %dus): increase requests %v, only one doubling step (%d) is possible", winBefore, m.p.ConnMax, m.p.RTTUs, m.cbCalls, grown-winBefore)
	}
	// credit conservation: the new limit is exactly what was consumed (read or abandoned, once each) plus the window
	if v != m.c+m.winC {
		kind := "missing (leaked)"
		if v > m.c+m.winC {
			kind = "excess (returned twice)"
		}
		return vf.Bad("C04/credit/connection", "connection: MAX_DATA %d, ledger: consumed %d + window %d = %d; %d bytes of credit %s", v, m.c, m.winC, m.c+m.winC, abs64(v-m.c-m.winC), kind)
	}
	asked := len(m.cbCalls) == 1
	if vv := m.growthRules("connection", asked, grown > winBefore, m.c, winBefore, m.firstRecvAt, m.lastEvAt, m.updatesC == 0 && !m.strGrew); vv != nil {
		return vv
	}
	if m.winC > winBefore {
		m.cls["conn-window-grew"] = true
	}
	if asked && !m.cbAllowed[0] {
		m.cls["conn-increase-denied"] = true
	}
	m.advC, m.flagC = v, false
	m.updatesC++
	m.lastEvAt = m.now
	m.cls["conn-update"] = true
	return nil
}

func abs64(x int64) int64 {
	if x < 0 {
		return -x
	}
	return x
}

// Finish completes every stream (cancel + final size), then makes the connection issue one more
// window update through a probe stream so that the consumed total is observed exactly.
func (m *fcMachine) Finish(u *vf.Unit) *vf.Verdict {
	if !m.dead {
		m.finishing = true
		m.cbCalls, m.cbAllowed, m.cbErr = m.cbCalls[:0], m.cbAllowed[:0], nil
		for _, s := range m.str {
			if s.completed {
				continue
			}
			if v := m.cancel(s); v != nil {
				return v
			}
			if !s.completed {
				if v := m.recv(s, s.highest, true, false, 0); v != nil {
					return v
				}
			}
			if !s.completed {
				return vf.Bad("C04/harness/bug", "stream %d not completed by cancel+fin", s.id)
			}
		}
		if m.hr != m.c {
			return vf.Bad("C04/harness/bug", "ledger: received %d != consumed %d after completing all streams", m.hr, m.c)
		}
		x := max(1, (m.advC-m.c)-thr(m.winC)+1)
		if m.hr+x <= m.advC {
			p := flowcontrol.NewStreamFlowController(protocol.StreamID(m.nextI*4), m.conn, protocol.ByteCount(x), protocol.ByteCount(x), 0, m.rtt, utils.DefaultLogger)
			if err := p.UpdateHighestReceived(protocol.ByteCount(x), true, m.t()); err != nil {
				if isTE(err, qerr.FlowControlError) {
					return vf.Bad("C04/recv/false-flow-control-error", "probe stream: %d bytes within the connection limit (received %d, advertised %d) rejected: %v", x, m.hr, m.advC, err)
				}
				return vf.Bad("C04/recv/unexpected-error", "probe stream: %v", err)
			}
			m.hr += x
			if m.firstRecvAt < 0 {
				m.firstRecvAt, m.lastEvAt = m.now, m.now
			}
			_, hc := p.AddBytesRead(protocol.ByteCount(x))
			m.c += x
			if !hc {
				return vf.Bad("C04/credit/connection", "final probe: after consuming %d more bytes the ledger has %d consumed of %d advertised (window %d), an update is due but none is announced: credit was lost", x, m.c, m.advC, m.winC)
			}
			m.flagC = true
			if v := m.wuC(); v != nil {
				return v
			}
			if m.cbErr != nil {
				return m.cbErr
			}
			m.cls["final-probe"] = true
		}
	}
	for k := range m.cls {
		u.Class(k)
	}
	if m.dead {
		u.Class("ended-by-error")
	}
	if m.cls["blocked-then-raised"] || m.cls["abandon-unread"] {
		u.NonTrivial(m.sig)
	}
	return nil
}

func genFCParams(t *rapid.T) FCParams {
	p := FCParams{N: rapid.IntRange(1, 5).Draw(t, "n")}
	p.StrWin = rapid.SampledFrom([]int64{1, 2, 3, 4, 7, 8, 10, 16, 100, 1000, 4096, 65536, 524288}).Draw(t, "sw")
	switch rapid.IntRange(0, 5).Draw(t, "smaxmode") {
	case 0:
		p.StrMax = p.StrWin
	case 1:
		p.StrMax = max(1, p.StrWin/2) // misconfigured: max below initial
	case 2:
		p.StrMax = p.StrWin * 12 // the default ratio (512 kB -> 6 MB)
	default:
		p.StrMax = p.StrWin + rapid.Int64Range(1, 8*p.StrWin).Draw(t, "smax")
	}
	switch rapid.IntRange(0, 4).Draw(t, "cwmode") {
	case 0:
		p.ConnWin = max(1, p.StrWin*3/2) // the default ratio
	case 1:
		p.ConnWin = p.StrWin
	case 2:
		p.ConnWin = p.StrWin * int64(p.N)
	default:
		p.ConnWin = rapid.Int64Range(1, 4*p.StrWin).Draw(t, "cw")
	}
	switch rapid.IntRange(0, 4).Draw(t, "cmaxmode") {
	case 0:
		p.ConnMax = p.ConnWin
	case 1:
		p.ConnMax = max(1, p.ConnWin/2)
	case 2:
		p.ConnMax = p.ConnWin * 20
	default:
		p.ConnMax = p.ConnWin + rapid.Int64Range(1, 8*p.ConnWin).Draw(t, "cmax")
	}
	p.RTTUs = rapid.SampledFrom([]int64{0, 1000, 20_000, 100_000, 100_000, 1_000_000}).Draw(t, "rtt")
	p.Allow = rapid.SampledFrom([]uint32{0xFFFFFFFF, 0xFFFFFFFF, 0xFFFFFFFF, 0, 0xAAAAAAAA, 0x55555555, 0xFFFF0000}).Draw(t, "allow")
	p.PeerStr = rapid.SampledFrom([]int64{0, 1, 10, 1000, 65536}).Draw(t, "peer")
	p.Tempo = rapid.SampledFrom([]int64{0, 1, 100, 1000, 10_000, 100_000}).Draw(t, "tempo")
	return p
}

func TestFCModel(t *testing.T) {
	vf.RunMachine(t, "fc-model", 120, genFCParams, newFCMachine)
}
