//go:build go1.25

package c04

import "os"

var dbg = os.Getenv("C04_DEBUG") != ""
