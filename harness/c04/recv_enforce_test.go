//go:build go1.25

package c04

// Unit recv-enforce: a generated, possibly NON-conformant peer against 1..4 real quic.ReceiveStreams
// that share one real connection flow controller (each with its real stream flow controller).
//
//	generated peer                                           application
//	  STREAM / FIN / RESET_STREAM / RESET_STREAM_AT  ---->   quic.ReceiveStream x N  ----> Read / CancelRead
//	  (within, exactly at, one byte beyond, far beyond       (handleStreamFrame,
//	   the advertised stream / connection limit;              handleResetStreamFrame)
//	   reordered, duplicate, gaps, inconsistent final)              |
//	                                                                v
//	  limits known to the peer  <----  MAX_STREAM_DATA (getControlFrame), MAX_DATA (connection GetWindowUpdate)
//
// The pipeline unit's sender is the real SendStream, i.e. conformant by construction; this unit is
// its complement for the receiver half of C04: "a receiver accepts all data within the limits it
// has advertised and answers the FIRST byte beyond them with FLOW_CONTROL_ERROR", in every
// receive-stream state (open, partly read, after CancelRead, FIN received but unread, after
// RESET_STREAM / RESET_STREAM_AT, while other streams in any of these states hold part of the
// connection window, after a completed stream's credit was returned but not yet advertised).
//
// Reference model: per stream the highest offset received, the final size, and the largest stream limit
// the receiver generated (initial window, then every MAX_STREAM_DATA it built); per connection the
// sum of the highest offsets over all streams ever used and the largest connection limit generated
// (initial window, then every MAX_DATA). Nothing is read from the implementation except the frames it
// emits and the errors it returns.
//
// Ops are pre-drawn and *relative* (mode + fraction); they are resolved against the model state when
// applied, so that "exactly at the limit" / "one byte beyond" are hit in every state although the
// whole case runs inside one synctest bubble (no rapid draws inside). The bubble makes a Read that
// blocks although the model says data is available a deterministic observation (synctest.Wait).

import (
	"errors"
	"fmt"
	"io"
	"runtime/debug"
	"testing"
	"testing/synctest"
	"time"

	"pgregory.net/rapid"

	quic "github.com/refraction-networking/uquic"
	"github.com/refraction-networking/uquic/internal/flowcontrol"
	"github.com/refraction-networking/uquic/internal/monotime"
	"github.com/refraction-networking/uquic/internal/protocol"
	"github.com/refraction-networking/uquic/internal/qerr"
	"github.com/refraction-networking/uquic/internal/utils"
	"github.com/refraction-networking/uquic/internal/wire"
	"github.com/refraction-networking/uquic/verif/vf"
)

type RecvOp struct {
	K   string `json:"k"`
	S   int    `json:"s,omitempty"`
	M   int    `json:"m,omitempty"` // mode of a stream / reset op
	A   int64  `json:"a,omitempty"` // fraction numerator 0..16, small step
	L   int64  `json:"l,omitempty"` // frame length (0: cover everything new) / read size
	B   int64  `json:"b,omitempty"` // distance for "far beyond"; reliable size fraction 0..16 of a reset
	Fin bool   `json:"fin,omitempty"`
	Dt  int64  `json:"dt,omitempty"`
}

type RecvCase struct {
	N       int      `json:"n"`
	StrWin  int64    `json:"sw"`
	StrMax  int64    `json:"smax"`
	ConnWin int64    `json:"cw"`
	ConnMax int64    `json:"cmax"`
	RTTUs   int64    `json:"rtt_us"`
	Allow   uint32   `json:"allow"`
	Ops     []RecvOp `json:"ops"`
}

// stream op modes
const (
	mProgress   = iota // up to a fraction A/16 of what the limits still allow
	mLimit             // exactly up to min(stream limit, what the connection limit allows)
	mStep              // 1..3 bytes
	mOld               // reordered / duplicate data below the highest offset
	mFill              // fill the first gap after the read position
	mStreamPlus        // one byte beyond the advertised stream limit
	mConnPlus          // one byte beyond what the advertised connection limit allows
	mFar               // far beyond both
	mBadFin            // FIN below the highest offset / contradicting the known final size
)

// reset op modes
const (
	rWithin     = iota // final size = highest + fraction of the room
	rHighest           // final size = highest offset received
	rLimit             // final size exactly at the limit
	rStreamPlus        // final size one byte beyond the stream limit
	rConnPlus          // final size one byte beyond what the connection limit allows
	rShort             // final size below the highest offset / contradicting the known one
)

const enMaxFrame = 16384

type enStream struct {
	slot           int
	id             protocol.StreamID
	str            *quic.ReceiveStream
	rng            [][2]int64 // byte ranges handed to the application side (received while not cancelled)
	read           int64
	highest        int64
	final          int64 // -1: unknown
	finByFIN       bool
	cancelled      bool
	resetSeen      bool
	remote         bool // mirror of cancelledRemotely
	reliable       int64
	ctl            bool
	completed      bool
	eof            bool
	adv            int64 // largest stream limit generated by the receiver
	newAfterCancel int64 // bytes by which the highest offset grew after CancelRead
}

type enforce struct {
	c    *RecvCase
	now  int64
	conn flowcontrol.ConnectionFlowController
	rtt  *utils.RTTStats
	str  []*enStream
	byID map[protocol.StreamID]*enStream
	next int64

	hr, advC int64 // sum of highest offsets over all streams; largest connection limit generated
	cbCount  int

	cls  map[string]bool
	viol *vf.Verdict
	dead bool // the connection was (correctly) closed by an error: the history ends
	nt   bool
	rbuf []byte
}

func (e *enforce) t() monotime.Time { return monotime.Time(e.now * 1000) }

func (e *enforce) fail(v *vf.Verdict) {
	if e.viol == nil {
		e.viol = v
	}
}

func newEnforce(c *RecvCase) *enforce {
	e := &enforce{c: c, now: 1_000_000, byID: map[protocol.StreamID]*enStream{}, cls: map[string]bool{}}
	if c.RTTUs == 0 {
		e.rtt = &utils.RTTStats{}
	} else {
		e.rtt = utils.NewRTTStats()
		e.rtt.UpdateRTT(time.Duration(c.RTTUs)*time.Microsecond, 0)
	}
	e.conn = flowcontrol.NewConnectionFlowController(protocol.ByteCount(c.ConnWin), protocol.ByteCount(c.ConnMax), func(protocol.ByteCount) bool {
		allowed := c.Allow&(1<<(uint(e.cbCount)%32)) != 0
		e.cbCount++
		return allowed
	}, e.rtt, utils.DefaultLogger)
	e.advC = c.ConnWin
	for i := 0; i < c.N; i++ {
		e.str = append(e.str, e.newStream(i))
	}
	return e
}

func (e *enforce) newStream(slot int) *enStream {
	id := protocol.StreamID(4*e.next + 2)
	e.next++
	sender := &quic.VerifStreamSender{
		OnHasStreamControlFrame: func(id protocol.StreamID, _ quic.VerifControlFrameGetter) { e.byID[id].ctl = true },
		OnStreamCompleted:       func(id protocol.StreamID) { e.byID[id].completed = true },
	}
	fc := flowcontrol.NewStreamFlowController(id, e.conn, protocol.ByteCount(e.c.StrWin), protocol.ByteCount(e.c.StrMax), 0, e.rtt, utils.DefaultLogger)
	r := &enStream{slot: slot, id: id, final: -1, adv: e.c.StrWin}
	r.str = quic.VerifNewReceiveStream(id, sender, fc)
	e.byID[id] = r
	return r
}

// target returns the stream an op acts on. A completed stream was removed from the streams map
// (frames for it are dropped there); the peer opens a new stream in its place. A hostile frame
// prefers a stream whose final size is unknown (beyond a known final size the answer is
// FINAL_SIZE_ERROR, which is not C04's business).
func (e *enforce) target(s int, hostile, connOnly bool) *enStream {
	n := len(e.str)
	r := e.str[s%n]
	if r.completed {
		r = e.newStream(r.slot)
		e.str[r.slot] = r
		e.cls["recycled"] = true
	}
	if connOnly {
		// one byte beyond the connection limit is a pure connection-level violation only on a stream whose
		// own limit leaves more room than the connection's
		roomC := max(0, e.advC-e.hr)
		for pass := 0; pass < 2; pass++ { // first choice: a stream the application has not given up
			for i := 0; i < n; i++ {
				if q := e.str[(s+i)%n]; !q.completed && q.final < 0 && q.adv-q.highest > roomC && (pass == 1 || !q.cancelled) {
					return q
				}
			}
		}
	}
	if hostile && r.final >= 0 {
		for i := 1; i < n; i++ {
			if q := e.str[(s+i)%n]; !q.completed && q.final < 0 {
				return q
			}
		}
		for i := 1; i < n; i++ {
			if q := e.str[(s+i)%n]; q.completed {
				q = e.newStream(q.slot)
				e.str[q.slot] = q
				e.cls["recycled"] = true
				return q
			}
		}
	}
	return r
}

func (e *enforce) streamOp(op RecvOp) {
	r := e.target(op.S, op.M >= mStreamPlus && op.M <= mFar, op.M == mConnPlus)
	roomC := max(0, e.advC-e.hr)
	room := max(0, min(r.adv-r.highest, roomC))
	fin := op.Fin
	var end int64
	off := int64(-1)
	m := op.M
	if m == mFill {
		if r.cancelled || r.completed {
			m = mOld
		} else if first := contig(r.rng, r.read); first >= r.highest {
			m = mStep
		} else {
			gapEnd := r.highest
			for _, x := range r.rng {
				if x[0] > first {
					gapEnd = x[0]
					break
				}
			}
			off = first
			end = first + min(max(1, op.L), gapEnd-first, enMaxFrame)
		}
	}
	switch m {
	case mProgress:
		end = r.highest + room*op.A/16
	case mLimit:
		end = r.highest + room
	case mStep:
		end = r.highest + min(room, 1+op.A%3)
	case mOld:
		end = r.highest * op.A / 16
	case mStreamPlus:
		end = r.adv + 1
	case mConnPlus:
		end = r.highest + roomC + 1
	case mFar:
		end = max(r.adv, r.highest+roomC) + 1 + op.B
	case mBadFin:
		fin = true
		if r.final >= 0 {
			end = r.final - 1 - op.A%3
		} else {
			end = r.highest - 1 - op.A%3
		}
		if end < 0 {
			return // no inconsistent FIN exists in this state
		}
	}
	if m <= mFill {
		// the honest peer respects the final size it declared
		if r.final >= 0 {
			end = min(end, r.final)
			if fin {
				end = r.final
				off = -1
			}
		} else if fin && end < r.highest {
			end = r.highest
			off = -1
		}
	}
	if off < 0 || off > end {
		if op.L == 0 {
			off = max(min(r.highest, end), end-enMaxFrame) // everything new in one frame
		} else {
			off = max(0, end-min(op.L, enMaxFrame))
		}
	}
	if end == off && !fin {
		// empty STREAM frames without FIN are not generated; resend the last bytes instead
		if end == 0 {
			return
		}
		off = max(0, end-max(1, min(op.L, enMaxFrame)))
	}
	data := make([]byte, end-off)
	for i := range data {
		data[i] = pat(int(r.id), off+int64(i))
	}
	how := "data"
	if fin {
		how = "fin"
	}
	what := fmt.Sprintf("STREAM [%d,%d) fin=%v", off, end, fin)
	if dbg {
		fmt.Printf("  stream %d (slot %d): %s\n", r.id, r.slot, what)
	}
	f := &wire.StreamFrame{StreamID: r.id, Offset: protocol.ByteCount(off), Data: data, Fin: fin, DataLenPresent: true}
	state := e.stateOf(r)
	err := r.str.VerifHandleStreamFrame(f, e.t())
	if !e.judge(r, end, fin, how, what, state, err) {
		return
	}
	e.accepted(r, end)
	if fin {
		if r.final < 0 && r.read < end {
			e.cls["fin-unread"] = true
		}
		r.final, r.finByFIN = end, true
	}
	if !r.cancelled {
		r.rng = addRange(r.rng, off, end)
	}
}

func (e *enforce) resetOp(op RecvOp) {
	r := e.target(op.S, op.M == rStreamPlus || op.M == rConnPlus, op.M == rConnPlus)
	roomC := max(0, e.advC-e.hr)
	room := max(0, min(r.adv-r.highest, roomC))
	var final int64
	switch op.M {
	case rWithin:
		final = r.highest + room*op.A/16
	case rHighest:
		final = r.highest
	case rLimit:
		final = r.highest + room
	case rStreamPlus:
		final = r.adv + 1
	case rConnPlus:
		final = r.highest + roomC + 1
	case rShort:
		if r.final >= 0 {
			final = r.final - 1 - op.A%3
		} else {
			final = r.highest - 1 - op.A%3
		}
		if final < 0 {
			return
		}
	}
	if op.M <= rLimit && r.final >= 0 {
		final = r.final // RESET_STREAM after FIN / retransmitted RESET_STREAM: same final size
	}
	reliable := final * min(op.B, 16) / 16
	how := "reset"
	if reliable > 0 {
		how = "reset-at"
	}
	what := fmt.Sprintf("RESET_STREAM final=%d reliable=%d", final, reliable)
	if dbg {
		fmt.Printf("  stream %d (slot %d): %s\n", r.id, r.slot, what)
	}
	f := &wire.ResetStreamFrame{StreamID: r.id, ErrorCode: 7, FinalSize: protocol.ByteCount(final), ReliableSize: protocol.ByteCount(reliable)}
	state := e.stateOf(r)
	err := r.str.VerifHandleResetStreamFrame(f, e.t())
	if !e.judge(r, final, true, how, what, state, err) {
		return
	}
	e.accepted(r, final)
	r.final = final
	r.resetSeen = true
	e.cls[how+"-frame"] = true
	// mirror of receive_stream.go handleResetStreamFrameImpl
	if (!r.remote && r.reliable == 0) || reliable < r.reliable {
		r.reliable = reliable
	}
	if !r.remote && !r.cancelled {
		r.remote = true
		if r.reliable > r.read {
			e.cls["reset-at-pending"] = true
		}
	}
}

// judge compares the receiver's answer to a frame that ends at offset end (fin: it declares the final
// size) with RFC 9000 4.1 / the property: within the advertised limits -> accepted; beyond the
// advertised stream limit, or raising the sum of the highest offsets beyond the advertised
// connection limit -> FLOW_CONTROL_ERROR at this very frame. It returns true if the frame was
// accepted and the history goes on.
func (e *enforce) judge(r *enStream, end int64, fin bool, how, what, state string, err error) bool {
	fsErr := r.final >= 0 && ((fin && end != r.final) || end > r.final) // RFC 9000 4.5
	if fin && end < r.highest {
		fsErr = true
	}
	inc := max(0, end-r.highest)
	fcS := end > r.adv
	fcC := e.hr+inc > e.advC
	ctx := fmt.Sprintf("stream %d %s [state: %s; highest %d, final %d, read %d, advertised stream limit %d; connection: received %d, advertised %d]",
		r.id, what, state, r.highest, r.final, r.read, r.adv, e.hr, e.advC)
	switch {
	case !fsErr && !fcS && !fcC:
		if err != nil {
			if isTE(err, qerr.FlowControlError) {
				e.fail(vf.Bad("C04/recv/false-flow-control-error", "%s is within the advertised limits but was answered with %v", ctx, err))
			} else {
				e.fail(vf.Bad("C04/recv/unexpected-error", "%s returned %v", ctx, err))
			}
			return false
		}
		return true
	case fsErr && !fcS && !fcC:
		// final-size consistency is not C04's business: any answer but a FLOW_CONTROL_ERROR; the history ends
		if isTE(err, qerr.FlowControlError) {
			e.fail(vf.Bad("C04/recv/false-flow-control-error", "%s is within the advertised limits but was answered with %v", ctx, err))
			return false
		}
		e.dead = true
		e.cls["final-size-error"] = true
		return false
	case !fsErr:
		if !isTE(err, qerr.FlowControlError) {
			which := "connection"
			if fcS {
				which = "stream"
			}
			e.fail(vf.Bad("C04/recv/limit-not-enforced", "%s exceeds the advertised %s limit but was answered with %v instead of FLOW_CONTROL_ERROR", ctx, which, err))
			return false
		}
		e.dead = true
		e.nt = true
		e.classifyViolation(r, fcS, how)
		return false
	default:
		if err == nil {
			e.fail(vf.Bad("C04/recv/limit-not-enforced", "%s violates the final size and the advertised limits but was accepted", ctx))
			return false
		}
		e.dead = true
		e.cls["final-size-and-limit-error"] = true
		return false
	}
}

func (e *enforce) stateOf(r *enStream) string {
	switch {
	case r.completed:
		return "completed"
	case r.cancelled:
		return "after CancelRead"
	case r.remote && r.reliable > r.read:
		return "RESET_STREAM_AT received, reliable part unread"
	case r.remote:
		return "RESET_STREAM received"
	case r.final >= 0:
		return "FIN received, not read to EOF"
	case r.read > 0:
		return "open, partly read"
	}
	return "open"
}

// accepted: ledger update for an accepted frame ending at end.
func (e *enforce) accepted(r *enStream, end int64) {
	inc := end - r.highest
	if inc <= 0 {
		if end < r.highest {
			e.cls["reordered"] = true
		}
		return
	}
	r.highest = end
	e.hr += inc
	suffix := ""
	if r.cancelled {
		r.newAfterCancel += inc
		e.cls["accept-after-cancelread"] = true
		suffix = "-after-cancelread"
	}
	if end == r.adv {
		e.cls["at-stream-limit"+suffix] = true
		e.nt = true
	}
	if e.hr == e.advC {
		e.cls["at-conn-limit"+suffix] = true
		e.nt = true
	}
}

func (e *enforce) classifyViolation(r *enStream, fcS bool, how string) {
	kind, state := "conn", "open"
	if fcS {
		kind = "stream"
	}
	if r.cancelled {
		state = "cancelled"
	} else if r.read > 0 {
		state = "partly-read"
	}
	e.cls["viol/"+kind+"/"+state+"/"+how] = true
	otherCancelled := false
	for _, q := range e.str {
		if q == r || q.highest == 0 {
			continue
		}
		if q.cancelled && !q.completed && q.newAfterCancel > 0 {
			otherCancelled = true
		}
		if !fcS {
			switch {
			case q.completed:
				e.cls["viol-conn-while-other-completed"] = true
			case q.cancelled:
				e.cls["viol-conn-while-other-cancelled"] = true
			case q.remote && q.reliable > q.read:
				e.cls["viol-conn-while-other-reset-at-pending"] = true
			case q.remote:
				e.cls["viol-conn-while-other-reset"] = true
			case q.final >= 0:
				e.cls["viol-conn-while-other-fin-unread"] = true
			default:
				e.cls["viol-conn-while-other-open"] = true
			}
		}
	}
	switch {
	case fcS && r.cancelled:
		e.cls["viol-after-cancelread-stream"] = true
		if how == "data" {
			e.cls["viol-after-cancelread-stream-nofin"] = true
		}
	case !fcS && otherCancelled:
		e.cls["viol-after-cancelread-conn-other"] = true
		if how == "data" {
			e.cls["viol-after-cancelread-conn-other-nofin"] = true
		}
	case !fcS && r.cancelled:
		e.cls["viol-after-cancelread-conn-same"] = true
	default:
		e.cls["viol-other-states"] = true
	}
	if fcS {
		e.cls["fc-error-stream"] = true
		if r.adv > e.c.StrWin {
			e.cls["viol-stream-after-max-stream-data"] = true // the limit violated is one the receiver generated later
		}
	} else {
		e.cls["fc-error-conn"] = true
		if e.advC > e.c.ConnWin {
			e.cls["viol-conn-after-max-data"] = true
		}
	}
}

// ---- application side ----

func (e *enforce) canRead(r *enStream) bool {
	if r.completed && !r.cancelled {
		return false
	}
	if r.cancelled {
		return true // returns the cancellation error
	}
	if r.remote && r.read >= r.reliable {
		return true // returns the reset error
	}
	if contig(r.rng, r.read) > r.read {
		return true
	}
	return r.finByFIN && r.read == r.final && !r.eof && !r.remote
}

type enReadResult struct {
	n   int
	err error
	pan any
	stk []byte
}

// read: the application reads up to n bytes. Read is only called when the data accepted so far makes
// it return at once; it runs on its own goroutine so that a Read that blocks nevertheless (accepted
// data that never reaches the application) is observed through synctest.Wait instead of hanging.
func (e *enforce) read(r *enStream, n int64) {
	if n <= 0 || !e.canRead(r) || r.eof {
		return
	}
	if int64(len(e.rbuf)) < n {
		e.rbuf = make([]byte, n)
	}
	buf := e.rbuf[:n]
	ch := make(chan enReadResult, 1)
	go func() {
		var x enReadResult
		defer func() {
			if p := recover(); p != nil {
				x.pan, x.stk = p, debug.Stack()
			}
			ch <- x
		}()
		x.n, x.err = r.str.Read(buf)
	}()
	synctest.Wait()
	var x enReadResult
	select {
	case x = <-ch:
	default:
		e.fail(vf.Bad("C04/recv/accepted-data-not-delivered", "stream %d [state: %s]: Read(%d) at position %d blocks although the receiver accepted (no error) the bytes up to %d%s",
			r.id, e.stateOf(r), n, r.read, contig(r.rng, r.read), map[bool]string{true: " and the final size " + fmt.Sprint(r.final), false: ""}[r.final >= 0]))
		r.str.VerifCloseForShutdown(errors.New("blocked read released"))
		<-ch
		return
	}
	if x.pan != nil {
		e.fail(vf.Bad("C04/recv-enforce/panic", "panic in Read of stream %d: %v\n%s", r.id, x.pan, x.stk))
		return
	}
	got, err := x.n, x.err
	for i := 0; i < got; i++ {
		if buf[i] != pat(int(r.id), r.read+int64(i)) {
			e.fail(vf.Bad("C04/pipe/data", "stream %d: byte at offset %d read by the application differs from what the peer sent", r.id, r.read+int64(i)))
			break
		}
	}
	if end := contig(r.rng, r.read); int64(got) > end-r.read {
		e.fail(vf.Bad("C04/pipe/data", "stream %d: Read returned %d bytes at position %d but only the bytes up to %d were received", r.id, got, r.read, end))
	}
	r.read += int64(got)
	if got > 0 {
		e.cls["read"] = true
	}
	switch {
	case err == nil:
	case errors.Is(err, io.EOF):
		r.eof = true
		e.cls["eof"] = true
		if r.final < 0 || r.read != r.final {
			e.fail(vf.Bad("C04/pipe/data", "stream %d: EOF after %d bytes, final size %d", r.id, r.read, r.final))
		}
	default:
		var se *quic.StreamError
		if !errors.As(err, &se) || !(r.cancelled || (r.remote && r.read >= r.reliable)) {
			e.fail(vf.Bad("C04/pipe/read-error", "stream %d: Read returned %v (cancelled locally %v, reset received %v)", r.id, err, r.cancelled, r.remote))
		}
	}
}

func (e *enforce) cancelRead(r *enStream) {
	if r.completed || r.cancelled || r.eof {
		return
	}
	switch {
	case r.remote:
		e.cls["cancel-read-after-reset"] = true
	case r.final >= 0:
		e.cls["cancel-read-after-fin"] = true
	default:
		e.cls["cancel-read"] = true
		if r.highest > r.read {
			e.cls["cancel-read-unread"] = true
		}
	}
	r.str.CancelRead(9)
	r.cancelled = true
}

// ---- receiver transport: the limits it generates ----

func (e *enforce) ctl(r *enStream) {
	if !r.ctl {
		return // the framer only asks streams that announced a control frame
	}
	r.ctl = false
	for {
		fr, ok, more := r.str.VerifGetControlFrame(e.t())
		if ok {
			switch f := fr.Frame.(type) {
			case *wire.StopSendingFrame:
				e.cls["stop-sending"] = true
			case *wire.MaxStreamDataFrame:
				v := int64(f.MaximumStreamData)
				if v <= r.adv {
					e.fail(vf.Bad("C04/advertise/not-increasing", "stream %d: new MAX_STREAM_DATA %d does not exceed the previous limit %d", r.id, v, r.adv))
				}
				r.adv = max(r.adv, v)
				e.cls["max-stream-data"] = true
			default:
				e.fail(vf.Bad("C04/harness/bug", "unexpected receive stream control frame %T", fr.Frame))
			}
		}
		if !more {
			break
		}
	}
}

func (e *enforce) wuC() {
	if v := int64(e.conn.GetWindowUpdate(e.t())); v > 0 {
		if v <= e.advC {
			e.fail(vf.Bad("C04/advertise/not-increasing", "connection: new MAX_DATA %d does not exceed the previous limit %d", v, e.advC))
		}
		e.advC = max(e.advC, v)
		e.cls["max-data"] = true
	}
}

func (e *enforce) apply(op RecvOp) {
	if dbg {
		fmt.Printf("op %+v\n", op)
	}
	e.now += op.Dt
	switch op.K {
	case "stream":
		e.streamOp(op)
	case "reset":
		e.resetOp(op)
	case "read":
		e.read(e.str[op.S%len(e.str)], op.L)
	case "cancel":
		e.cancelRead(e.str[op.S%len(e.str)])
	case "ctl":
		e.ctl(e.str[op.S%len(e.str)])
	case "wuC":
		e.wuC()
	case "flush":
		for _, r := range e.str {
			e.ctl(r)
		}
		e.wuC()
	}
}

func runEnforce(c *RecvCase, u *vf.Unit) *vf.Verdict {
	e := newEnforce(c)
	for _, op := range c.Ops {
		e.apply(op)
		if e.viol != nil || e.dead {
			break
		}
	}
	if e.viol != nil {
		return e.viol
	}
	for k := range e.cls {
		u.Class(k)
	}
	if e.dead {
		u.Class("ended-by-error")
	}
	if e.nt {
		u.NonTrivial(fmt.Sprintf("%+v", *c))
	}
	return nil
}

// ---- generator ----

// enChance draws a boolean that is true in roughly pct*0.55 % of the draws (pct <= 50). rapid's
// integer generator strongly favours the ends of a range (0 and 1 come up in 10 % of the draws of
// IntRange(0, 99) each); the values used here lie in the flat part of its distribution.
func enChance(t *rapid.T, label string, pct int) bool {
	x := rapid.IntRange(0, 99).Draw(t, label)
	return x >= 40 && x < 40+pct
}

func genRecvCase(t *rapid.T) RecvCase {
	c := RecvCase{N: rapid.IntRange(1, 4).Draw(t, "n")}
	c.StrWin = rapid.SampledFrom([]int64{1, 4, 10, 100, 500, 1000, 1452, 3000, 5000}).Draw(t, "sw")
	c.StrMax = c.StrWin * rapid.SampledFrom([]int64{1, 2, 4, 12}).Draw(t, "smax")
	switch rapid.IntRange(0, 5).Draw(t, "cwmode") {
	case 0:
		c.ConnWin = max(1, c.StrWin*3/2)
	case 1:
		c.ConnWin = c.StrWin
	case 2:
		c.ConnWin = max(1, c.StrWin/2)
	case 3:
		c.ConnWin = c.StrWin * int64(c.N)
	case 4:
		c.ConnWin = max(1, c.StrWin*int64(c.N)*2/3)
	default:
		c.ConnWin = max(1, c.StrWin*3/4)
	}
	c.ConnMax = c.ConnWin * rapid.SampledFrom([]int64{1, 2, 4, 20}).Draw(t, "cmax")
	c.RTTUs = rapid.SampledFrom([]int64{0, 0, 1000, 100_000}).Draw(t, "rtt")
	c.Allow = rapid.SampledFrom([]uint32{0xFFFFFFFF, 0xFFFFFFFF, 0, 0xAAAAAAAA}).Draw(t, "allow")
	tempo := rapid.SampledFrom([]int64{0, 1, 1000, 100_000}).Draw(t, "tempo")
	hostile := rapid.SampledFrom([]int{0, 2, 4, 6, 10, 16, 30}).Draw(t, "hostile") // % of the peer's frames
	n := rapid.IntRange(3, 80).Draw(t, "nops")
	kinds := []string{
		"stream", "stream", "stream", "stream", "stream", "stream", "stream", "stream", "stream", "stream",
		"reset", "read", "read", "read", "read", "read", "cancel", "ctl", "ctl", "wuC", "wuC", "flush", "flush", "tick",
	}
	switch rapid.IntRange(0, 3).Draw(t, "profile") {
	case 1: // the application gives up streams early
		kinds = append(kinds, "cancel", "cancel", "cancel", "stream", "stream", "stream")
	case 2: // the peer resets streams
		kinds = append(kinds, "reset", "reset", "reset", "cancel")
	case 3: // steady transfer: the windows turn over
		kinds = append(kinds, "stream", "stream", "stream", "read", "read", "read", "read", "flush", "flush")
	}
	frac := rapid.Int64Range(0, 16)
	for i := 0; i < n; i++ {
		op := RecvOp{K: rapid.SampledFrom(kinds).Draw(t, "k")}
		op.S = rapid.IntRange(0, c.N-1).Draw(t, "s")
		op.Dt = tempo * rapid.SampledFrom([]int64{0, 0, 0, 1, 2, 10, 100}).Draw(t, "dt")
		bad := enChance(t, "bad", hostile)
		switch op.K {
		case "stream":
			if bad {
				op.M = rapid.SampledFrom([]int{mStreamPlus, mStreamPlus, mStreamPlus, mConnPlus, mConnPlus, mConnPlus, mConnPlus, mConnPlus, mConnPlus, mConnPlus, mFar, mBadFin}).Draw(t, "hm")
			} else {
				op.M = rapid.SampledFrom([]int{mProgress, mProgress, mProgress, mProgress, mProgress, mProgress, mLimit, mLimit, mLimit, mStep, mStep, mOld, mOld, mOld, mFill, mFill, mFill, mFill}).Draw(t, "m")
			}
			op.A = frac.Draw(t, "a")
			op.L = rapid.SampledFrom([]int64{0, 0, 0, 0, 1, 2, 10, 100, 1000, 1452}).Draw(t, "l")
			if op.M == mFar {
				op.B = rapid.Int64Range(0, 1<<20).Draw(t, "far")
			}
			op.Fin = enChance(t, "fin", 20)
		case "reset":
			if bad {
				op.M = rapid.SampledFrom([]int{rStreamPlus, rStreamPlus, rStreamPlus, rConnPlus, rConnPlus, rConnPlus, rShort}).Draw(t, "hm")
			} else {
				op.M = rapid.SampledFrom([]int{rWithin, rWithin, rHighest, rHighest, rLimit}).Draw(t, "m")
			}
			op.A = frac.Draw(t, "a")
			if rapid.Bool().Draw(t, "reset-at") {
				op.B = frac.Draw(t, "rel")
			}
		case "read":
			op.L = rapid.SampledFrom([]int64{1, 2, 10, 100, 1000, 5000, 100000}).Draw(t, "rn")
		}
		c.Ops = append(c.Ops, op)
	}
	return c
}

func TestRecvEnforce(t *testing.T) {
	vf.RunRapid(t, "recv-enforce", genRecvCase, func(c RecvCase, u *vf.Unit) (v *vf.Verdict) {
		defer func() {
			// synctest panics when a bubble cannot end (a goroutine of the code under test is stuck)
			if r := recover(); r != nil && v == nil {
				v = vf.Bad("C04/recv-enforce/bubble", "%v", r)
			}
		}()
		synctest.Test(t, func(*testing.T) {
			v = vf.Guard("C04/recv-enforce", func() *vf.Verdict { return runEnforce(&c, u) })
		})
		return v
	})
}
