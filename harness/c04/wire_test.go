package c04

import (
	"testing"

	"github.com/refraction-networking/uquic/verif/vf"
	"github.com/refraction-networking/uquic/verif/xfer"
)

// TestWireLimits: C04(c) - on complete simulated connections under network faults, every STREAM frame an
// endpoint puts on the wire ends at or below the largest per-stream limit (transport parameter or
// MAX_STREAM_DATA) that had been delivered to it before the packet left, and the sum over streams stays within
// the largest MAX_DATA / initial_max_data delivered; limits and frames are read by the independent observer.
func TestWireLimits(t *testing.T) {
	vf.ReplayRepeat = 40
	xfer.GenUnit = "wire-limits"
	vf.RunRapid(t, "wire-limits", xfer.GenCase, func(c xfer.Case, u *vf.Unit) *vf.Verdict {
		return xfer.CheckCase(t, c, u, xfer.Options{WirePrefixes: []string{"C04/"}})
	})
}
