// Unit response-writer: handler scripts against the server's responseWriter (through the
// verif_hooks_c19.go shim, which drives it like RawServerConn.handleRequestStream does), every HEADERS
// frame it wrote decoded with the qpack module, judged by the reference predicate, fed to the response /
// trailer parser and compared with what the handler set.
package c19

import (
	"fmt"
	"log/slog"
	"net/http"
	"strings"
	"testing"

	"pgregory.net/rapid"

	"github.com/refraction-networking/uquic/http3"
	"github.com/refraction-networking/uquic/verif/vf"
)

type ROp struct {
	Op string `json:"op"` // set | add | del | raw | status | write | flush
	K  S      `json:"k,omitempty"`
	V  []S    `json:"v,omitempty"`
	N  int    `json:"n,omitempty"` // status code / number of body bytes
}

type RCase struct {
	Head bool  `json:"head,omitempty"`
	Ops  []ROp `json:"ops"`
}

var (
	rHeaderNames   = []string{"Content-Type", "Set-Cookie", "Set-Cookie", "Cache-Control", "X-Custom", "X-A", "Etag", "Location", "Link", "Vary", "Server", "Content-Encoding", "X_y.Z!", "Accept-Ranges"}
	rRawNames      = []string{"x-raw-lower", "X-RAW-UPPER", "x-custom", "etag", "X-a"}
	rConnNames     = []string{"Connection", "Keep-Alive", "Proxy-Connection", "Transfer-Encoding", "Upgrade"}
	rDeclTrailers  = []string{"X-T", "X-U", "X-Checksum"}
	rPrefTrailers  = []string{"X-P", "X-Q", "Server-Timing"}
	rForbidTrailer = []string{"Content-Length", "Host", "Trailer", "Transfer-Encoding", "Authorization", "If-Match"}
	discardLogger  = slog.New(slog.DiscardHandler)
)

func sv(t *rapid.T, nmin, nmax int) []S {
	n := rapid.IntRange(nmin, nmax).Draw(t, "nv")
	out := make([]S, n)
	for i := range out {
		out[i] = S(pick(t, "v", wValues))
	}
	return out
}

// genRCase draws a handler script that respects the net/http contract: ordinary header fields are only
// changed before the final WriteHeader / first Write / first Flush; afterwards only trailer values are set.
func genRCase(t *rapid.T) RCase {
	c := RCase{Head: rapid.IntRange(0, 7).Draw(t, "head") == 0}
	var declared []string
	// planned body
	nwrites := rapid.SampledFrom([]int{0, 0, 1, 1, 2, 3}).Draw(t, "nwrites")
	var sizes []int
	total := 0
	for i := 0; i < nwrites; i++ {
		s := rapid.SampledFrom([]int{0, 1, 10, 100, 1000, 4095, 4096, 5000}).Draw(t, "wsize")
		sizes = append(sizes, s)
		total += s
	}
	final := rapid.SampledFrom([]int{200, 200, 200, 0, 0, 201, 204, 304, 404, 500, 299, 600, 999}).Draw(t, "final") // 0: implicit
	trailerDeclared := false
	usedKeys := map[string]bool{}
	npre := rapid.IntRange(0, 7).Draw(t, "npre")
	for i := 0; i < npre; i++ {
		switch rapid.IntRange(0, 13).Draw(t, "pre") {
		case 0, 1, 2, 3:
			c.Ops = append(c.Ops, ROp{Op: "set", K: S(pick(t, "hn", rHeaderNames)), V: sv(t, 1, 1)})
		case 4, 5:
			c.Ops = append(c.Ops, ROp{Op: "add", K: S(pick(t, "hn", rHeaderNames)), V: sv(t, 1, 3)})
		case 6:
			c.Ops = append(c.Ops, ROp{Op: "del", K: S(pick(t, "hn", rHeaderNames))})
		case 7:
			k := pick(t, "rn", rRawNames)
			if !usedKeys[k] {
				usedKeys[k] = true
				c.Ops = append(c.Ops, ROp{Op: "raw", K: S(k), V: sv(t, 0, 3)})
			}
		case 8:
			c.Ops = append(c.Ops, ROp{Op: "status", N: rapid.SampledFrom([]int{100, 102, 103, 103, 199}).Draw(t, "1xx")})
		case 9: // declare trailers once
			if !trailerDeclared {
				trailerDeclared = true
				names := []string{pick(t, "dt", rDeclTrailers)}
				if rapid.Bool().Draw(t, "two") {
					if n2 := pick(t, "dt2", rDeclTrailers); n2 != names[0] {
						names = append(names, n2)
					}
				}
				if rapid.IntRange(0, 3).Draw(t, "forbid") == 0 {
					names = append(names, pick(t, "ft", rForbidTrailer))
				}
				declared = append(declared, names...)
				if rapid.Bool().Draw(t, "joined") {
					c.Ops = append(c.Ops, ROp{Op: "set", K: "Trailer", V: []S{S(strings.Join(names, pick(t, "sep", []string{", ", ",", " , "})))}})
				} else {
					op := ROp{Op: "add", K: "Trailer"}
					for _, n := range names {
						if rapid.Bool().Draw(t, "lower") {
							n = asciiLower(n)
						}
						op.V = append(op.V, S(n))
					}
					c.Ops = append(c.Ops, op)
				}
			}
		case 10: // connection-specific field set by the handler (legal for a net/http handler)
			name := pick(t, "cn", rConnNames)
			val := map[string]string{"Connection": "close", "Keep-Alive": "timeout=5", "Proxy-Connection": "keep-alive", "Transfer-Encoding": "chunked", "Upgrade": "h2c"}[name]
			// through Header().Set (canonical key) or assigned to the map directly under a non-canonical key, as a
			// handler that relays a backend's lower-case header map does
			switch rapid.IntRange(0, 3).Draw(t, "cnspelling") {
			case 0:
				c.Ops = append(c.Ops, ROp{Op: "set", K: S(name), V: []S{S(val)}})
			case 1:
				c.Ops = append(c.Ops, ROp{Op: "raw", K: S(asciiLower(name)), V: []S{S(val)}})
			case 2:
				c.Ops = append(c.Ops, ROp{Op: "raw", K: S(strings.ToUpper(name)), V: []S{S(val)}})
			default:
				c.Ops = append(c.Ops, ROp{Op: "raw", K: S(strings.ToUpper(name[:1]) + asciiLower(name[1:])), V: []S{S(val)}})
			}
		case 11: // Date: explicit or disabled
			if rapid.Bool().Draw(t, "datenil") {
				c.Ops = append(c.Ops, ROp{Op: "raw", K: "Date", V: nil})
			} else {
				c.Ops = append(c.Ops, ROp{Op: "set", K: "Date", V: []S{"Mon, 02 Jan 2006 15:04:05 GMT"}})
			}
		case 12: // declared length = planned body
			c.Ops = append(c.Ops, ROp{Op: "set", K: "Content-Length", V: []S{S(fmt.Sprint(total))}})
		case 13: // trailer value set early (before the header is written)
			if len(declared) > 0 {
				n := declared[rapid.IntRange(0, len(declared)-1).Draw(t, "which")]
				if isPlainTrailerName(n) {
					c.Ops = append(c.Ops, ROp{Op: "set", K: S(n), V: sv(t, 1, 1)})
				}
			}
		}
	}
	if final != 0 {
		c.Ops = append(c.Ops, ROp{Op: "status", N: final})
	}
	// body phase
	var post []ROp
	for _, s := range sizes {
		post = append(post, ROp{Op: "write", N: s})
		if rapid.IntRange(0, 2).Draw(t, "flush") == 0 {
			post = append(post, ROp{Op: "flush"})
		}
	}
	if len(sizes) == 0 && rapid.IntRange(0, 3).Draw(t, "flush0") == 0 {
		post = append(post, ROp{Op: "flush"})
	}
	// trailer values, at random positions of the body phase
	ntr := rapid.IntRange(0, 3).Draw(t, "ntr")
	for i := 0; i < ntr; i++ {
		var op ROp
		if len(declared) > 0 && rapid.Bool().Draw(t, "declared") {
			n := declared[rapid.IntRange(0, len(declared)-1).Draw(t, "which")]
			if !isPlainTrailerName(n) {
				continue
			}
			op = ROp{Op: rapid.SampledFrom([]string{"set", "add"}).Draw(t, "top"), K: S(n), V: sv(t, 1, 2)}
		} else {
			n := pick(t, "pt", rPrefTrailers)
			if rapid.IntRange(0, 5).Draw(t, "pforbid") == 0 {
				n = pick(t, "pft", rForbidTrailer)
			}
			op = ROp{Op: rapid.SampledFrom([]string{"set", "add"}).Draw(t, "top"), K: S(http.TrailerPrefix + n), V: sv(t, 1, 2)}
		}
		at := rapid.IntRange(0, len(post)).Draw(t, "at")
		post = append(post, ROp{})
		copy(post[at+1:], post[at:])
		post[at] = op
	}
	c.Ops = append(c.Ops, post...)
	return c
}

func strs(v []S) []string {
	out := make([]string, len(v))
	for i, s := range v {
		out[i] = string(s)
	}
	return out
}

func bodyAllowed(status int) bool {
	return !(status >= 100 && status <= 199 || status == 204 || status == 304)
}

type rsnap struct {
	status int
	hdr    http.Header
}

const clientParseLimit = 10 << 20 // defaultMaxResponseHeaderBytes (client.go)

func checkRCase(c RCase, u *vf.Unit) *vf.Verdict {
	k := &collector{u: u, c: c}
	w := http3.VerifNewResponseWriter(c.Head, discardLogger)
	rw := w.Writer()
	model := http.Header{}
	var snaps []rsnap
	finalDone := false
	finalStatus := 0
	bodyBytes := 0
	finish := func(status int) {
		if !finalDone {
			finalDone = true
			finalStatus = status
			snaps = append(snaps, rsnap{status, model.Clone()})
		}
	}
	for _, op := range c.Ops {
		key, vals := string(op.K), strs(op.V)
		switch op.Op {
		case "set":
			for _, h := range []http.Header{rw.Header(), model} {
				if len(vals) == 0 {
					continue
				}
				h.Set(key, vals[0])
				for _, v := range vals[1:] {
					h.Add(key, v)
				}
			}
		case "add":
			for _, h := range []http.Header{rw.Header(), model} {
				for _, v := range vals {
					h.Add(key, v)
				}
			}
		case "del":
			rw.Header().Del(key)
			model.Del(key)
		case "raw":
			rw.Header()[key] = append([]string(nil), vals...)
			model[key] = append([]string(nil), vals...)
		case "status":
			if op.N < 100 || op.N > 999 {
				continue // WriteHeader panics by contract
			}
			if op.N < 200 {
				if !finalDone {
					snaps = append(snaps, rsnap{op.N, model.Clone()})
				}
			} else {
				finish(op.N)
			}
			rw.WriteHeader(op.N)
		case "write":
			finish(200)
			n, _ := rw.Write(make([]byte, max(0, op.N)))
			if !c.Head && bodyAllowed(finalStatus) {
				bodyBytes += n
			}
		case "flush":
			finish(200)
			rw.(http.Flusher).Flush()
		}
	}
	finish(200)
	w.Finish()
	atEnd := model

	frames, err := splitFrames(w.Bytes())
	if err != nil {
		k.bad("C19/response-writer/malformed-output", "response stream: %v", err)
		return k.first
	}
	var hdrFrames [][]byte
	dataBytes := 0
	sawDataAfterTrailer := false
	for _, f := range frames {
		switch f.typ {
		case 1:
			hdrFrames = append(hdrFrames, f.payload)
		case 0:
			dataBytes += len(f.payload)
			if len(hdrFrames) > len(snaps) {
				sawDataAfterTrailer = true
			}
		default:
			k.bad("C19/response-writer/malformed-output", "unexpected frame type %d on the response stream", f.typ)
		}
	}
	if sawDataAfterTrailer {
		k.bad("C19/response-writer/malformed-output", "DATA frame after the trailer section")
	}
	if len(hdrFrames) < len(snaps) {
		k.bad("C19/response-writer/decode-mismatch", "%d header sections written, the handler produced %d (1xx + final)", len(hdrFrames), len(snaps))
		return k.first
	}
	if len(hdrFrames) > len(snaps)+1 {
		k.bad("C19/response-writer/malformed-output", "%d HEADERS frames for %d responses + trailers", len(hdrFrames), len(snaps))
		return k.first
	}

	sawConn := false
	for i, sn := range snaps {
		isFinal := i == len(snaps)-1
		fields, err := decodeBlock(hdrFrames[i])
		if err != nil {
			k.bad("C19/response-writer/malformed-output", "section %d: QPACK: %v", i, err)
			continue
		}
		a := analyse("rsp", fields, clientParseLimit, true)
		for _, code := range a.codes() {
			if code == "connection-specific" {
				sawConn = true
				k.bad("C19/response-writer/connection-specific", "response writer emitted a connection-specific field set by the handler: %s", fieldsString(fields))
			} else {
				k.bad("C19/response-writer/malformed-output", "response writer emitted a malformed section (%s): %s", code, fieldsString(fields))
			}
		}
		if st := a.pseudo[":status"]; len(st) != 1 || st[0] != fmt.Sprint(sn.status) || len(a.pseudo) != 1 {
			k.bad("C19/response-writer/decode-mismatch", "section %d: pseudo fields %v, handler status %d", i, a.pseudo, sn.status)
		}
		// declared trailers at this point
		declared := map[string]bool{}
		for _, tok := range splitTrailerTokens(sn.hdr["Trailer"]) {
			if isPlainTrailerName(tok) {
				declared[tok] = true
			}
		}
		var want []nv
		single := map[string][]string{}
		sources := map[string]int{}
		for key, vals := range sn.hdr {
			if strings.HasPrefix(key, http.TrailerPrefix) || declared[key] {
				continue
			}
			l := asciiLower(key)
			if connSpecific[l] {
				continue // may be dropped; if present it was flagged above
			}
			sources[l]++
			single[l] = vals
			for _, v := range vals {
				want = append(want, nv{l, v})
			}
		}
		var got []nv
		for _, f := range a.regular {
			if connSpecific[string(f.N)] {
				continue
			}
			got = append(got, nv{string(f.N), string(f.V)})
		}
		count := func(x []nv) map[nv]int {
			m := map[nv]int{}
			for _, e := range x {
				m[e]++
			}
			return m
		}
		gc, wc := count(got), count(want)
		for e, n := range wc {
			if gc[e] < n {
				k.bad("C19/response-writer/decode-mismatch", "section %d (status %d): handler field %q: %q missing; emitted %s", i, sn.status, e.n, e.v, nvString(sortNV(got)))
			}
		}
		for e, n := range gc {
			if n <= wc[e] {
				continue
			}
			// fields the writer adds on its own: Date, sniffed Content-Type, computed Content-Length - only
			// on the final response and only when the handler did not set them
			auto := isFinal && (e.n == "date" || e.n == "content-type" || e.n == "content-length")
			if auto {
				if _, set := sn.hdr[canon(e.n)]; set {
					auto = false
				}
			}
			if !auto {
				k.bad("C19/response-writer/decode-mismatch", "section %d (status %d): emitted %q: %q which the handler did not set (%d times, expected %d)", i, sn.status, e.n, e.v, n, wc[e])
			}
		}
		for l, vals := range single {
			if sources[l] != 1 {
				continue
			}
			var seq []string
			for _, e := range got {
				if e.n == l {
					seq = append(seq, e.v)
				}
			}
			if len(seq) == len(vals) && !equalStrings(seq, vals) {
				k.bad("C19/response-writer/decode-mismatch", "section %d: values of %q reordered: emitted %q, handler %q", i, l, seq, vals)
			}
		}

		// the client's parser
		rsp := &http.Response{}
		perr := http3.VerifUpdateResponseFromHeaders(rsp, toQpack(fields), clientParseLimit)
		if perr != nil {
			u.Class("parser-rejected")
			if len(a.defects) == 0 {
				k.bad("C19/response-writer/parser-rejects", "response parser rejects what the response writer emitted: %v: %s", perr, fieldsString(fields))
			}
			continue
		}
		u.Class("parser-accepted")
		if rsp.StatusCode != sn.status {
			k.bad("C19/response-writer/decode-mismatch", "parsed StatusCode %d, handler %d", rsp.StatusCode, sn.status)
		}
		if len(a.defects) == 0 {
			wantHdr, wantTr, wantCL := expectedHeader("rsp", a)
			if ok, why := equalHeader(rsp.Header, wantHdr, true); !ok {
				k.bad("C19/response-writer/decode-mismatch", "parsed header differs from the emitted fields: %s", why)
			}
			if why := checkTrailerSet(rsp.Trailer, wantTr); why != "" {
				k.bad("C19/response-writer/decode-mismatch", "%s", why)
			}
			if rsp.ContentLength != wantCL {
				k.bad("C19/response-writer/decode-mismatch", "parsed ContentLength %d, emitted %v", rsp.ContentLength, a.cl)
			}
			for tok := range declared {
				if _, ok := rsp.Trailer[tok]; !ok {
					k.bad("C19/response-writer/decode-mismatch", "declared trailer %q not announced to the client (Trailer = %v)", tok, rsp.Trailer)
				}
			}
			if isFinal && !c.Head && bodyAllowed(sn.status) && rsp.ContentLength >= 0 && rsp.ContentLength != int64(bodyBytes) {
				k.bad("C19/response-writer/decode-mismatch", "parsed ContentLength %d, the handler wrote %d body bytes", rsp.ContentLength, bodyBytes)
			}
		}
	}
	if !c.Head && dataBytes != bodyBytes {
		k.bad("C19/response-writer/decode-mismatch", "%d bytes in DATA frames, the handler wrote %d", dataBytes, bodyBytes)
	}

	// trailer section
	var tr []KV
	finalHdr := snaps[len(snaps)-1].hdr
	declaredAll := map[string]bool{}
	for _, tok := range splitTrailerTokens(finalHdr["Trailer"]) {
		declaredAll[tok] = true
	}
	for key, vals := range atEnd {
		name := ""
		switch {
		case strings.HasPrefix(key, http.TrailerPrefix):
			name = strings.TrimPrefix(key, http.TrailerPrefix)
		case declaredAll[key]:
			name = key
		default:
			continue
		}
		kv := KV{K: S(name)}
		for _, v := range vals {
			kv.V = append(kv.V, S(v))
		}
		tr = append(tr, kv)
	}
	var tbytes []byte
	if len(hdrFrames) == len(snaps)+1 {
		// re-frame the trailer block for the shared checker
		p := hdrFrames[len(snaps)]
		tbytes = append(tbytes, 1)
		tbytes = appendVarint(tbytes, uint64(len(p)))
		tbytes = append(tbytes, p...)
		u.Class("trailers")
	}
	checkTrailerFrame(k, u, "C19/response-writer", tbytes, tr)

	// classes
	u.Class(fmt.Sprintf("status:%dxx", finalStatus/100))
	if len(snaps) > 1 {
		u.Class("informational")
	}
	if c.Head {
		u.Class("head")
	}
	if sawConn {
		u.Class("connection-specific-emitted")
	}
	for _, sn := range snaps[len(snaps)-1:] {
		rep := false
		for key, vals := range sn.hdr {
			if len(vals) > 1 {
				rep = true
			}
			if connSpecific[asciiLower(key)] {
				u.Class("handler-set-connection-specific")
			}
			if key != canon(key) {
				u.Class("non-canonical-key")
			}
		}
		if rep {
			u.Class("repeated-fields")
			u.NonTrivial(fmt.Sprint(sn.status), fmt.Sprint(sn.hdr), len(hdrFrames))
		}
	}
	if dataBytes > 0 {
		u.Class("body")
	}
	return k.first
}

func appendVarint(b []byte, v uint64) []byte {
	switch {
	case v < 1<<6:
		return append(b, byte(v))
	case v < 1<<14:
		return append(b, 0x40|byte(v>>8), byte(v))
	case v < 1<<30:
		return append(b, 0x80|byte(v>>24), byte(v>>16), byte(v>>8), byte(v))
	default:
		return append(b, 0xc0|byte(v>>56), byte(v>>48), byte(v>>40), byte(v>>32), byte(v>>24), byte(v>>16), byte(v>>8), byte(v))
	}
}

func TestResponseWriter(t *testing.T) {
	vf.RunRapid(t, "response-writer", genRCase, func(c RCase, u *vf.Unit) *vf.Verdict {
		v := checkRCase(c, u)
		if v == nil && u.WantSample() && len(c.Ops) > 4 {
			u.Sample(c)
		}
		return v
	})
}
