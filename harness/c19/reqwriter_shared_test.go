package c19

// Unit "request-writer-shared": a client connection has ONE request writer for all its request streams
// (http3/client.go newClientConn), and requests are written from concurrent goroutines. While one request's HEADERS
// frame is still inside the stream's Write (a QUIC send stream keeps the caller's slice until the data has been
// packed: it blocks on flow control / congestion), other requests are written through the same writer.
// Oracle (differential): the bytes a stream ends up with for its request are exactly the bytes a fresh request writer
// produces for the same request on its own (QPACK is used without the dynamic table, so the encoding of a request
// does not depend on earlier ones) - whatever was written in between.

import (
	"bytes"
	"fmt"
	"net/http"
	"sort"
	"strings"
	"sync"
	"testing"

	"github.com/refraction-networking/uquic/http3"
	"github.com/refraction-networking/uquic/verif/vf"
	"pgregory.net/rapid"
)

type SharedCase struct {
	Reqs []WCase `json:"reqs"`
	// Held[i]: the stream of request i holds the writer's slice (blocked Write) until all requests after it, up to and
	// including request Until[i], have been written; -1 = its Write returns at once
	Until []int `json:"until"`
}

// holdingWriter models a blocked send stream: Write keeps p (no copy) until released, then takes the bytes.
type holdingWriter struct {
	entered chan struct{}
	release chan struct{}
	hold    bool
	got     []byte
}

func (h *holdingWriter) Write(p []byte) (int, error) {
	if h.hold {
		close(h.entered)
		<-h.release
	}
	h.got = append(h.got, p...)
	return len(p), nil
}

func genSharedCase(t *rapid.T) SharedCase {
	n := rapid.IntRange(2, 4).Draw(t, "nreq")
	c := SharedCase{}
	for i := 0; i < n; i++ {
		c.Reqs = append(c.Reqs, genWCase(t))
		u := -1
		if i < n-1 && rapid.IntRange(0, 2).Draw(t, "hold") > 0 {
			u = rapid.IntRange(i+1, n-1).Draw(t, "until")
		}
		c.Until = append(c.Until, u)
	}
	return c
}

func checkSharedCase(c SharedCase, u *vf.Unit) *vf.Verdict {
	type one struct {
		req  *http.Request
		gzip bool
		want []byte
		werr error
	}
	var rs []one
	for _, wc := range c.Reqs {
		req, err := buildRequest(wc)
		if err != nil {
			u.Class("gen-url-error")
			return nil
		}
		gzip := !wc.DisableCompression && req.Method != http.MethodHead && req.Header.Get("Accept-Encoding") == "" && req.Header.Get("Range") == ""
		var alone bytes.Buffer
		werr := http3.VerifWriteRequestHeader(&alone, req, gzip)
		// a second request object for the shared writer (the writer does not modify it, but stay independent)
		req2, _ := buildRequest(wc)
		rs = append(rs, one{req2, gzip, alone.Bytes(), werr})
	}
	shared := http3.VerifNewRequestWriter()
	ws := make([]*holdingWriter, len(rs))
	errs := make([]error, len(rs))
	var wg sync.WaitGroup
	held := 0
	for i := range rs {
		w := &holdingWriter{entered: make(chan struct{}), release: make(chan struct{}), hold: c.Until[i] >= 0 && rs[i].werr == nil}
		ws[i] = w
		if w.hold {
			held++
			wg.Add(1)
			go func() {
				defer wg.Done()
				errs[i] = shared.WriteRequestHeader(w, rs[i].req, rs[i].gzip)
			}()
			<-w.entered // the frame has been serialised and handed to the stream, which blocks
		} else {
			errs[i] = shared.WriteRequestHeader(w, rs[i].req, rs[i].gzip)
		}
		// streams whose wait ends with this request take their bytes now
		for j := 0; j <= i; j++ {
			if ws[j].hold && c.Until[j] == i {
				close(ws[j].release)
			}
		}
	}
	for j := range ws {
		if ws[j].hold && c.Until[j] >= len(rs) {
			close(ws[j].release)
		}
	}
	wg.Wait()
	for i := range rs {
		if (errs[i] != nil) != (rs[i].werr != nil) {
			return vf.Bad("C19/writer-shared/error-differs", "request %d: shared writer error %v, fresh writer error %v", i, errs[i], rs[i].werr)
		}
		if errs[i] != nil {
			continue
		}
		// the writer ranges over http.Header (a map): the order of different field names may differ between two
		// encodings of the same request, the fields themselves may not
		canon := func(b []byte) (string, error) {
			fs, err := headersFrameFields(b)
			if err != nil {
				return "", err
			}
			lines := make([]string, len(fs))
			for k, f := range fs {
				if string(f.N) == "trailer" {
					// the announced trailer names come from ranging over the http.Header map as well
					ns := strings.Split(string(f.V), ", ")
					sort.Strings(ns)
					lines[k] = fmt.Sprintf("%q: %q", "trailer", strings.Join(ns, ", "))
					continue
				}
				lines[k] = f.String()
			}
			sort.SliceStable(lines, func(a, b int) bool { return lines[a] < lines[b] })
			return strings.Join(lines, " | "), nil
		}
		wantC, werr := canon(rs[i].want)
		gotC, gerr := canon(ws[i].got)
		if werr != nil {
			continue // judged by the request-writer unit
		}
		if gerr != nil || gotC != wantC || len(ws[i].got) != len(rs[i].want) {
			fields := "undecodable: " + fmt.Sprint(gerr)
			if gerr == nil {
				fields = gotC
			}
			return vf.Bad("C19/writer-shared/frame-differs", "request %d (%s %s%s) written through the connection's shared request writer while its stream held the frame until request %d had been written: the stream got %d bytes that differ from the %d bytes the writer produces for this request on its own; they decode to %s",
				i, c.Reqs[i].Method, c.Reqs[i].Host, c.Reqs[i].Target, c.Until[i], len(ws[i].got), len(rs[i].want), fields)
		}
	}
	u.Class(fmt.Sprintf("requests:%d", len(rs)))
	if held > 0 {
		u.Class("frame-held-across-later-requests")
		u.NonTrivial("shared", len(rs), fmt.Sprint(c.Until), len(rs[0].want))
	}
	return nil
}

func TestRequestWriterShared(t *testing.T) {
	vf.RunRapid(t, "request-writer-shared", genSharedCase, checkSharedCase)
}
