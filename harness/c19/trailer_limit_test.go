package c19

// Unit "trailer-frame-limit": the size limit for field sections also holds for trailer sections, and it is applied
// to the length the peer ANNOUNCES in the HEADERS frame, before anything is buffered: a trailer HEADERS frame whose
// announced length exceeds the limit is rejected at once - nothing is read from the stream, nothing of that size is
// allocated (a 2^62-1 length must not panic) - and one within the limit is read completely and parsed.

import (
	"bytes"
	"fmt"
	"testing"

	"github.com/quic-go/qpack"
	"github.com/refraction-networking/uquic/http3"
	"github.com/refraction-networking/uquic/verif/vf"
	"pgregory.net/rapid"
)

type TrailerLimitCase struct {
	Limit     int    `json:"limit"`
	Announced uint64 `json:"announced"`
	Avail     int    `json:"avail"` // bytes the stream delivers before it ends
	Fields    []KV   `json:"fields"`
	Garbage   bool   `json:"garbage,omitempty"`
}

type countingReader struct {
	b    []byte
	read int
}

func (r *countingReader) Read(p []byte) (int, error) {
	if r.read >= len(r.b) {
		return 0, fmt.Errorf("stream ended")
	}
	n := copy(p, r.b[r.read:])
	r.read += n
	return n, nil
}

func genTrailerLimitCase(t *rapid.T) TrailerLimitCase {
	c := TrailerLimitCase{Limit: rapid.SampledFrom([]int{64, 300, 1024, 16384, 1 << 20}).Draw(t, "limit")}
	n := rapid.IntRange(1, 4).Draw(t, "nfields")
	for i := 0; i < n; i++ {
		c.Fields = append(c.Fields, KV{K: S(rapid.SampledFrom([]string{"x-checksum", "x-t", "server-timing", "x-long"}).Draw(t, "k")),
			V: []S{S(rapid.StringMatching(`[a-z0-9]{0,40}`).Draw(t, "v"))}})
	}
	c.Garbage = rapid.IntRange(0, 5).Draw(t, "garbage") == 0
	switch rapid.IntRange(0, 6).Draw(t, "len-class") {
	case 0, 1:
		c.Announced = 0 // = the real encoded length (set in check)
	case 2:
		c.Announced = uint64(c.Limit) + 1
	case 3:
		c.Announced = uint64(c.Limit) + uint64(rapid.IntRange(2, 70000).Draw(t, "over"))
	case 4:
		c.Announced = uint64(1) << uint(rapid.IntRange(24, 61).Draw(t, "shift"))
	case 5:
		c.Announced = 1<<62 - 1
	case 6:
		c.Announced = uint64(c.Limit)
	}
	c.Avail = rapid.SampledFrom([]int{-1, -1, 0, 3, 1000}).Draw(t, "avail") // -1 = everything announced (capped)
	return c
}

func checkTrailerLimitCase(c TrailerLimitCase, u *vf.Unit) (v *vf.Verdict) {
	var enc bytes.Buffer
	e := qpack.NewEncoder(&enc)
	for _, f := range c.Fields {
		for _, val := range f.V {
			e.WriteField(qpack.HeaderField{Name: string(f.K), Value: string(val)})
		}
	}
	payload := enc.Bytes()
	if c.Garbage {
		payload = bytes.Repeat([]byte{0xff, 0x00, 0x7f}, 20)
	}
	announced := c.Announced
	if announced == 0 {
		announced = uint64(len(payload))
	}
	// what the stream can deliver: the payload, zero-extended up to min(announced, 80000) bytes, cut at Avail
	data := append([]byte(nil), payload...)
	want := int(min(announced, 80000))
	for len(data) < want {
		data = append(data, 0)
	}
	data = data[:want]
	if c.Avail >= 0 && c.Avail < len(data) {
		data = data[:c.Avail]
	}
	r := &countingReader{b: data}
	defer func() {
		if p := recover(); p != nil {
			v = vf.Bad("C19/trailer-frame/panic", "trailer HEADERS frame announcing %d bytes (limit %d): panic: %v", announced, c.Limit, p)
		}
	}()
	hdr, err := http3.VerifDecodeTrailers(r, announced, c.Limit)
	over := announced > uint64(c.Limit)
	switch {
	case over:
		u.Class("announced-beyond-limit")
		if err == nil {
			return vf.Bad("C19/trailer-frame/limit-not-enforced", "trailer HEADERS frame announcing %d bytes accepted with a limit of %d", announced, c.Limit)
		}
		if r.read != 0 {
			return vf.Bad("C19/trailer-frame/buffered-beyond-limit", "trailer HEADERS frame announcing %d bytes (limit %d) was rejected only after %d bytes had been read from the stream", announced, c.Limit, r.read)
		}
	case uint64(len(data)) < announced:
		u.Class("truncated")
		if err == nil {
			return vf.Bad("C19/trailer-frame/truncated-accepted", "trailer HEADERS frame announcing %d bytes accepted although the stream ended after %d", announced, len(data))
		}
	default:
		u.Class("within-limit")
		if uint64(r.read) != announced {
			return vf.Bad("C19/trailer-frame/consumed", "trailer HEADERS frame of %d bytes: %d bytes consumed", announced, r.read)
		}
		// the limit also applies to the decoded section, measured as RFC 9114 4.2.2 says (name + value + 32 per field)
		decoded := 0
		for _, f := range c.Fields {
			for _, val := range f.V {
				decoded += len(f.K) + len(val) + 32
			}
		}
		if !c.Garbage && c.Announced == 0 && decoded <= c.Limit {
			if err != nil {
				return vf.Bad("C19/trailer-frame/valid-rejected", "valid trailer section of %d bytes (limit %d) rejected: %v", announced, c.Limit, err)
			}
			for _, f := range c.Fields {
				if len(hdr.Values(string(f.K))) == 0 {
					return vf.Bad("C19/trailer-frame/field-lost", "trailer %q missing from %v", f.K, hdr)
				}
			}
		}
	}
	u.NonTrivial("tl", c.Limit, announced > uint64(c.Limit), announced >= 1<<24, c.Avail, len(c.Fields), c.Garbage)
	return nil
}

func TestTrailerFrameLimit(t *testing.T) {
	vf.RunRapid(t, "trailer-frame-limit", genTrailerLimitCase, checkTrailerLimitCase)
}
