// C19: only well-formed HTTP/3 field sections are accepted; writers and parser agree.
//
// This file holds what the units share: the JSON-safe byte-string type used in cases, the
// reference well-formedness predicate (written from RFC 9114 sections 4.1.2, 4.2, 4.2.2, 4.3, 4.3.1,
// 4.3.2, 4.4, 10.3, RFC 9220 / RFC 8441 section 4 and the RFC 9110 token / field-content grammar; it
// does NOT call golang.org/x/net/http/httpguts, which the implementation uses), an independent
// canonical-key function, an HTTP/3 frame splitter and the known-finding aware reporter.
package c19

import (
	"encoding/hex"
	"encoding/json"
	"errors"
	"fmt"
	"io"
	"sort"
	"strings"
	"testing"
	"unicode/utf8"

	"github.com/quic-go/qpack"

	"github.com/refraction-networking/uquic/verif/vf"
)

func TestMain(m *testing.M) { vf.Main(m) }

// ---------------------------------------------------------------------------------------------
// S: a byte string that survives JSON (encoding/json replaces invalid UTF-8 by U+FFFD).

type S string

func (s S) MarshalJSON() ([]byte, error) {
	if utf8.ValidString(string(s)) {
		return json.Marshal(string(s))
	}
	return json.Marshal(map[string]string{"hex": hex.EncodeToString([]byte(s))})
}

func (s *S) UnmarshalJSON(b []byte) error {
	var str string
	if err := json.Unmarshal(b, &str); err == nil {
		*s = S(str)
		return nil
	}
	var m map[string]string
	if err := json.Unmarshal(b, &m); err != nil {
		return err
	}
	raw, err := hex.DecodeString(m["hex"])
	if err != nil {
		return err
	}
	*s = S(raw)
	return nil
}

// F is one (name, value) field.
type F struct {
	N S `json:"n"`
	V S `json:"v"`
}

func (f F) String() string { return fmt.Sprintf("%q: %q", string(f.N), string(f.V)) }

func toQpack(fs []F) []qpack.HeaderField {
	out := make([]qpack.HeaderField, len(fs))
	for i, f := range fs {
		out[i] = qpack.HeaderField{Name: string(f.N), Value: string(f.V)}
	}
	return out
}

func fromQpack(fs []qpack.HeaderField) []F {
	out := make([]F, len(fs))
	for i, f := range fs {
		out[i] = F{S(f.Name), S(f.Value)}
	}
	return out
}

var errInjectedDecode = errors.New("verif: injected QPACK decoding failure")

// decodeFn yields fields; with failAt >= 0 it returns a non-EOF error in place of element failAt
// (failAt == len(fields) replaces the final io.EOF).
func decodeFn(fields []F, failAt int) qpack.DecodeFunc {
	i := 0
	return func() (qpack.HeaderField, error) {
		if failAt >= 0 && i >= failAt {
			return qpack.HeaderField{}, errInjectedDecode
		}
		if i >= len(fields) {
			return qpack.HeaderField{}, io.EOF
		}
		f := fields[i]
		i++
		return qpack.HeaderField{Name: string(f.N), Value: string(f.V)}, nil
	}
}

// ---------------------------------------------------------------------------------------------
// Character classes (RFC 9110 section 5.6.2 token, section 5.5 field-content).

// tchar = "!" / "#" / "$" / "%" / "&" / "'" / "*" / "+" / "-" / "." / "^" / "_" / "`" / "|" / "~" / DIGIT / ALPHA
func isTchar(c byte) bool {
	switch {
	case c >= '0' && c <= '9', c >= 'a' && c <= 'z', c >= 'A' && c <= 'Z':
		return true
	}
	switch c {
	case '!', '#', '$', '%', '&', '\'', '*', '+', '-', '.', '^', '_', '`', '|', '~':
		return true
	}
	return false
}

func isToken(s string) bool {
	if s == "" {
		return false
	}
	for i := 0; i < len(s); i++ {
		if !isTchar(s[i]) {
			return false
		}
	}
	return true
}

func hasUpper(s string) bool {
	for i := 0; i < len(s); i++ {
		if s[i] >= 'A' && s[i] <= 'Z' {
			return true
		}
	}
	return false
}

func asciiLower(s string) string {
	b := []byte(s)
	for i, c := range b {
		if c >= 'A' && c <= 'Z' {
			b[i] = c + 32
		}
	}
	return string(b)
}

// field-content characters: field-vchar = VCHAR / obs-text, plus SP and HTAB (RFC 9110 5.5;
// RFC 9114 10.3: "Any request or response that contains a character not permitted in a field value
// MUST be treated as malformed. Valid characters are defined by the field-content ABNF rule").
func validValueBytes(s string) bool {
	for i := 0; i < len(s); i++ {
		c := s[i]
		if c == '\t' || c == ' ' || (c >= 0x21 && c <= 0x7e) || c >= 0x80 {
			continue
		}
		return false
	}
	return true
}

func allDigits(s string) bool {
	if s == "" {
		return false
	}
	for i := 0; i < len(s); i++ {
		if s[i] < '0' || s[i] > '9' {
			return false
		}
	}
	return true
}

// parseDigits parses 1*DIGIT into an int64; ok=false on overflow of 2^63-1.
func parseDigits(s string) (int64, bool) {
	var v uint64
	for i := 0; i < len(s); i++ {
		d := uint64(s[i] - '0')
		if v > (1<<63-1-d)/10 {
			return 0, false
		}
		v = v*10 + d
	}
	return int64(v), true
}

// canon is an independent implementation of MIME header key canonicalisation: for a name made of
// token characters the first letter and every letter after '-' is upper-cased, the rest lower-cased;
// any other name is returned unchanged.
func canon(s string) string {
	for i := 0; i < len(s); i++ {
		if !isTchar(s[i]) {
			return s
		}
	}
	b := []byte(s)
	up := true
	for i, c := range b {
		if up && c >= 'a' && c <= 'z' {
			c -= 32
		} else if !up && c >= 'A' && c <= 'Z' {
			c += 32
		}
		b[i] = c
		up = c == '-'
	}
	return string(b)
}

// connection-specific fields (RFC 9114 section 4.2).
var connSpecific = map[string]bool{"connection": true, "keep-alive": true, "proxy-connection": true, "transfer-encoding": true, "upgrade": true}

// Fields that must never be taken from a trailer section (RFC 9110 section 6.5.1: message framing,
// routing; and the Trailer field itself). Deliberately minimal.
var trailerForbidden = map[string]bool{"content-length": true, "transfer-encoding": true, "host": true, "trailer": true}

var requestPseudo = map[string]bool{":method": true, ":scheme": true, ":authority": true, ":path": true, ":protocol": true}

// ---------------------------------------------------------------------------------------------
// Reference predicate.
//
// defects: what the C19 statement lists; an accepted section with a defect is a violation.
//   names lower-case valid tokens; values without forbidden bytes; no connection-specific field
//   (te only "trailers"); pseudo fields known, unique, ahead of regular fields, of the right kind, none
//   in trailers; Content-Length single-valued and numeric; size within the limit; plus the mandatory
//   field rules the parser itself documents (headers.go requestFromHeaders / updateResponseFromHeaders),
//   for which an EMPTY pseudo value counts as absent (that is how the code defines them).
// notes: RFC 9114 rules the statement does not claim (value validation of pseudo fields, :scheme
//   presence, CONNECT without :scheme, forbidden trailer fields ...). Counted as classes, never a violation.

type analysis struct {
	defects map[string]bool
	notes   map[string]bool
	size    int
	pseudo  map[string][]string // values per pseudo name, in order of appearance
	regular []F                 // non-pseudo fields in order
	cl      []string            // content-length values in order
}

func (a *analysis) add(code string)  { a.defects[code] = true }
func (a *analysis) note(code string) { a.notes[code] = true }

func sortedKeys(m map[string]bool) []string {
	out := make([]string, 0, len(m))
	for c := range m {
		out = append(out, c)
	}
	sort.Strings(out)
	return out
}

func (a *analysis) codes() []string { return sortedKeys(a.defects) }

// val returns the first non-empty value of a pseudo field ("present" in the parser's documented sense).
func (a *analysis) val(name string) (string, bool) {
	for _, v := range a.pseudo[name] {
		if v != "" {
			return v, true
		}
	}
	return "", false
}

func fieldListSize(fields []F) int {
	n := 0
	for _, f := range fields {
		n += len(f.N) + len(f.V) + 32
	}
	return n
}

// analyse computes every defect of the field section. kind is "req", "rsp" or "trl". final=false
// restricts the analysis to what can be decided field by field (used for prefixes of a section whose
// decoding fails later): end-of-section rules (mandatory fields, Content-Length) are skipped.
func analyse(kind string, fields []F, limit int, final bool) *analysis {
	a := &analysis{defects: map[string]bool{}, notes: map[string]bool{}, pseudo: map[string][]string{}}
	a.size = fieldListSize(fields)
	if a.size > limit {
		a.add("oversize") // RFC 9114 4.2.2: name + value + 32 per field
	}
	seenRegular := false
	for _, f := range fields {
		name, val := string(f.N), string(f.V)
		if hasUpper(name) {
			a.add("name-uppercase") // RFC 9114 4.2
		}
		if !validValueBytes(val) {
			a.add("value-forbidden-byte") // RFC 9114 10.3 / RFC 9110 5.5
		}
		if len(name) > 0 && name[0] == ':' {
			if kind == "trl" {
				a.add("pseudo-in-trailer") // RFC 9114 4.3
				continue
			}
			if seenRegular {
				a.add("pseudo-after-regular") // RFC 9114 4.3
			}
			switch {
			case requestPseudo[name]:
				if kind != "req" {
					a.add("pseudo-wrong-kind")
				}
			case name == ":status":
				if kind != "rsp" {
					a.add("pseudo-wrong-kind")
				}
			default:
				a.add("pseudo-unknown")
			}
			if len(a.pseudo[name]) > 0 {
				// unique (statement; RFC 9114 4.3.1 "exactly one value"). The sub-case in which every earlier
				// occurrence was empty has its own signature: it is what an implementation that infers
				// presence from a non-empty value lets through.
				allEmpty := true
				for _, v := range a.pseudo[name] {
					if v != "" {
						allEmpty = false
					}
				}
				if allEmpty {
					a.add("pseudo-empty-value")
				} else {
					a.add("pseudo-duplicate")
				}
			}
			if val == "" {
				a.note("pseudo-empty-present")
			}
			a.pseudo[name] = append(a.pseudo[name], val)
			continue
		}
		seenRegular = true
		a.regular = append(a.regular, f)
		if !isToken(name) {
			a.add("name-invalid") // RFC 9114 10.3 / RFC 9110 5.1
		}
		l := asciiLower(name)
		if connSpecific[l] {
			a.add("connection-specific") // RFC 9114 4.2
		}
		if l == "te" {
			if val != "trailers" {
				a.add("te-not-trailers") // RFC 9114 4.2
			} else if kind != "req" {
				a.note("te-trailers-outside-request")
			}
		}
		if l == "content-length" {
			a.cl = append(a.cl, val)
		}
		if kind == "trl" && trailerForbidden[l] {
			a.note("trailer-forbidden-field")
		}
	}
	if !final || kind == "trl" {
		return a
	}

	// Content-Length: 1*DIGIT, all occurrences identical (RFC 9110 8.6; statement: single-valued and numeric).
	if len(a.cl) > 0 {
		for _, v := range a.cl[1:] {
			if v != a.cl[0] {
				a.add("content-length-conflict")
			}
		}
		for _, v := range a.cl {
			switch {
			case v == "":
				a.add("content-length-empty")
			case !allDigits(v):
				a.add("content-length-invalid")
			default:
				if _, ok := parseDigits(v); !ok {
					a.add("content-length-overflow")
				}
			}
		}
	}

	switch kind {
	case "rsp":
		st, ok := a.val(":status")
		switch {
		case !ok:
			a.add("missing-status") // RFC 9114 4.3.2; headers.go "missing :status field"
		case len(st) == 3 && allDigits(st):
		case allDigits(strings.TrimLeft(st, "+-")) && len(st)-len(strings.TrimLeft(st, "+-")) <= 1:
			a.note("status-not-3digit") // RFC 9110 15: status-code = 3DIGIT
		default:
			a.add("status-invalid") // headers.go "invalid status code"
		}
	case "req":
		method, hasMethod := a.val(":method")
		if !hasMethod {
			a.add("missing-method")
		} else if !isToken(method) {
			a.note("method-invalid") // RFC 9110 9.1: method = token
		}
		isConnect := method == "CONNECT"
		scheme, hasScheme := a.val(":scheme")
		_, hasProtocol := a.val(":protocol")
		path, hasPath := a.val(":path")
		authority, hasAuthority := a.val(":authority")
		hasHost := false
		for _, f := range a.regular {
			if string(f.N) == "host" && f.V != "" {
				hasHost = true
				if hasAuthority && string(f.V) != authority {
					a.note("host-authority-mismatch")
				}
			}
		}
		switch {
		case hasProtocol && !isConnect:
			a.add("protocol-without-connect") // RFC 8441 section 4 / RFC 9220; headers.go ":protocol must be empty"
		case hasProtocol: // extended CONNECT: :scheme, :path, :authority required (headers.go, RFC 8441 section 4)
			if !hasScheme {
				a.add("missing-scheme-extended-connect")
			}
			if !hasPath {
				a.add("missing-path")
			}
			if !hasAuthority {
				a.add("missing-authority")
			}
		case isConnect: // RFC 9114 4.4; headers.go ":path must be empty and :authority must not be empty"
			if hasScheme {
				a.note("connect-scheme")
			}
			if hasPath {
				a.add("connect-path")
			}
			if !hasAuthority {
				a.add("missing-authority")
			}
		default: // RFC 9114 4.3.1; headers.go ":path, :authority and :method must not be empty"
			if !hasScheme {
				a.note("missing-scheme")
			}
			if !hasPath {
				a.add("missing-path")
			}
			if !hasAuthority && !hasHost {
				a.add("missing-authority")
			}
		}
		if hasScheme {
			ok := scheme[0]|0x20 >= 'a' && scheme[0]|0x20 <= 'z'
			for i := 1; i < len(scheme); i++ {
				c := scheme[i]
				if !(c|0x20 >= 'a' && c|0x20 <= 'z' || c >= '0' && c <= '9' || c == '+' || c == '-' || c == '.') {
					ok = false
				}
			}
			if !ok {
				a.note("scheme-invalid")
			}
		}
		if hasPath && (!isConnect || hasProtocol) {
			if !(path[0] == '/' || (path == "*" && method == "OPTIONS")) {
				a.note("path-not-origin-form") // RFC 9114 4.3.1: path-absolute [ "?" query ], or "*" for OPTIONS
			}
		}
		if hasAuthority {
			bad := strings.ContainsAny(authority, " \t/?#\\")
			if strings.Contains(authority, "@") && (scheme == "http" || scheme == "https" || !hasScheme) {
				bad = true // RFC 9114 4.3.1: MUST NOT include the deprecated userinfo subcomponent
			}
			if bad {
				a.note("authority-invalid")
			}
		}
	}
	return a
}

// ---------------------------------------------------------------------------------------------
// Reporting: a case may exhibit several violations; those whose signature is an open known finding
// are counted and the search continues, the first other one is returned as the verdict.

type collector struct {
	u     *vf.Unit
	c     any
	first *vf.Verdict
}

func (k *collector) bad(sig, format string, args ...any) {
	v := vf.Bad(sig, format, args...)
	if vf.IsKnown(sig) {
		k.u.Report(v, k.c) // counts a known hit
		k.u.Class("known:" + sig)
		return
	}
	if k.first == nil {
		k.first = v
	}
}

// ---------------------------------------------------------------------------------------------
// HTTP/3 frame splitting (RFC 9114 7.1: type varint, length varint, payload) with an own varint reader.

type h3frame struct {
	typ     uint64
	payload []byte
}

func readVarint(b []byte) (uint64, int, bool) {
	if len(b) == 0 {
		return 0, 0, false
	}
	n := 1 << (b[0] >> 6)
	if len(b) < n {
		return 0, 0, false
	}
	v := uint64(b[0] & 0x3f)
	for i := 1; i < n; i++ {
		v = v<<8 | uint64(b[i])
	}
	return v, n, true
}

func splitFrames(b []byte) ([]h3frame, error) {
	var out []h3frame
	for len(b) > 0 {
		t, n, ok := readVarint(b)
		if !ok {
			return out, errors.New("truncated frame type")
		}
		b = b[n:]
		l, n, ok := readVarint(b)
		if !ok {
			return out, errors.New("truncated frame length")
		}
		b = b[n:]
		if uint64(len(b)) < l {
			return out, fmt.Errorf("frame type %d: length %d exceeds the %d bytes written", t, l, len(b))
		}
		out = append(out, h3frame{typ: t, payload: b[:l]})
		b = b[l:]
	}
	return out, nil
}

// decodeBlock decodes a QPACK field section with the qpack module (a dependency, not code under test).
func decodeBlock(p []byte) ([]F, error) {
	fn := qpack.NewDecoder().Decode(p)
	var out []F
	for {
		f, err := fn()
		if err == io.EOF {
			return out, nil
		}
		if err != nil {
			return out, err
		}
		out = append(out, F{S(f.Name), S(f.Value)})
	}
}

func fieldsString(fs []F) string {
	parts := make([]string, len(fs))
	for i, f := range fs {
		parts[i] = "[" + f.String() + "]"
	}
	return strings.Join(parts, " ")
}

// multiset helpers -----------------------------------------------------------------------------

func sortedCopy(v []string) []string {
	out := append([]string(nil), v...)
	sort.Strings(out)
	return out
}

func equalStrings(a, b []string) bool {
	if len(a) != len(b) {
		return false
	}
	for i := range a {
		if a[i] != b[i] {
			return false
		}
	}
	return true
}

// equalHeader compares two header maps; ordered=true requires identical value order per key.
func equalHeader(got, want map[string][]string, ordered bool) (bool, string) {
	for k, wv := range want {
		gv, ok := got[k]
		if !ok {
			return false, fmt.Sprintf("key %q missing (want %q)", k, wv)
		}
		if ordered {
			if !equalStrings(gv, wv) {
				return false, fmt.Sprintf("key %q: got %q want %q", k, gv, wv)
			}
		} else if !equalStrings(sortedCopy(gv), sortedCopy(wv)) {
			return false, fmt.Sprintf("key %q: got %q want (any order) %q", k, gv, wv)
		}
	}
	for k, gv := range got {
		if _, ok := want[k]; !ok {
			return false, fmt.Sprintf("unexpected key %q = %q", k, gv)
		}
	}
	return true, ""
}

// splitTrailerTokens mirrors the list syntax of the Trailer field (RFC 9110 6.6.2: comma separated
// field names, optional whitespace); empty elements are dropped.
func splitTrailerTokens(values []string) []string {
	var out []string
	for _, v := range values {
		for _, t := range strings.Split(v, ",") {
			t = strings.Trim(t, " \t")
			if t != "" {
				out = append(out, canon(t))
			}
		}
	}
	return out
}

func jsonRoundTrip(c PCase) (PCase, error) {
	b, err := json.Marshal(c)
	if err != nil {
		return PCase{}, err
	}
	var out PCase
	err = json.Unmarshal(b, &out)
	return out, err
}
