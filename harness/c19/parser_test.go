// Unit parser-model: generated field lists through requestFromHeaders / updateResponseFromHeaders /
// parseTrailers against the reference predicate; native fuzz target over the same check.
package c19

import (
	"bytes"
	"errors"
	"fmt"
	"net/http"
	"sort"
	"strconv"
	"strings"
	"testing"

	"github.com/quic-go/qpack"
	"pgregory.net/rapid"

	"github.com/refraction-networking/uquic/http3"
	"github.com/refraction-networking/uquic/verif/vf"
)

// PCase is one field section handed to a parser entry point.
type PCase struct {
	Kind   string `json:"kind"`    // req | rsp | trl
	Limit  int    `json:"limit"`   // configured size limit
	FailAt int    `json:"fail_at"` // -1, or the index at which QPACK decoding fails
	Fields []F    `json:"fields"`
}

// ---------------------------------------------------------------------------------------------
// Alphabet

var (
	goodNames = []string{"accept", "accept-language", "x-custom", "x-a", "x-b", "user-agent", "content-type", "cookie", "cookie",
		"x-1", "a", "cache-control", "x_y.z", "x!#$%&'*+-.^_`|~0", "authorization", "if-match", "etag", "link", "set-cookie",
		"location", "date", "server", "range", "expect", "x-forwarded-for"}
	badNames = []string{"", "X-Custom", "x-Custom", "ACCEPT", "Cookie", "x custom", "x\x00y", "x\ry", "x\ny", "x:y", "x-\x7f", "x-\x80", "x-\xc3\xa9",
		"\xe2\x84\xaa", "x(y)", "x,y", "x;y", "x=y", "x/y", "x@y", "x[y]", "x\"y", "x\ty", " x", "x ", "x\\y", "x{y}", "x?y", "x<y>", "\x00", "\r\n"}
	goodValues = []string{"", "v", "1", "a b", "a  b", "text/html; charset=utf-8", "\"quoted\"", "\xc3\xa9", "\xff\xfe", "a\tb", " lead", "trail ",
		"\tlead", "*", "gzip, br", "trailers", "a=b; c=d", "W/\"x\"", "bytes=0-1", "Mon, 02 Jan 2006 15:04:05 GMT", "\x80", "~", "!"}
	badValues = []string{"a\x00b", "a\rb", "a\nb", "a\r\nx-injected: 1", "\x00", "a\x01", "a\x1f", "a\x7f", "\x08", "a\x0bb", "a\x0cb", "a\x1bb", "\n", "\r"}
	connNames = []string{"connection", "keep-alive", "proxy-connection", "transfer-encoding", "upgrade"}
	teValues  = []string{"trailers", "trailers", "Trailers", "trailers, deflate", "gzip", "", " trailers", "trailers ", "deflate;q=0.5", "TRAILERS"}
	clValues  = []string{"0", "5", "5", "42", "0005", "+5", "-5", "-0", "abc", "", " 5", "5 ", "5,5", "5, 5", "0x10", "1e3", "9223372036854775807",
		"9223372036854775808", "18446744073709551615", "18446744073709551616", "99999999999999999999999", "\xef\xbc\x91", "5\x00", "1_0"}
	trailerAnnounce = []string{"x-t", "X-T, x-u", "x-t,x-u", "", " ", ",", "content-length", "x-t, , x-u", "a b"}

	methods     = []string{"GET", "GET", "POST", "PUT", "HEAD", "DELETE", "OPTIONS", "PATCH"}
	oddMethods  = []string{"", "get", "GE T", "G\tET", "CONNECT", "M-SEARCH", "GET,", "\xc3\xa9", "PRI"}
	schemes     = []string{"https", "https", "http"}
	oddSchemes  = []string{"", "ftp", "ht tp", "HTTPS", "wss", "1http", "https:"}
	authorities = []string{"example.com", "a", "example.com:8443", "[::1]:443", "127.0.0.1", "sub.example.org:443"}
	oddAuth     = []string{"", "a b", "u@example.com", "u:p@example.com", "example.com/path", "example.com?x", "EXAMPLE.com", "\xc3\xa9.example", "a#b", "a\\b"}
	paths       = []string{"/", "/a/b", "/x?y=1&z=%20", "/%41", "/a;p=1", "/a?", "/a?b?c", "//double", "/~u/-._", "/q?k=v&k=w"}
	oddPaths    = []string{"", "x", "*", "http://evil.example/x", "https://example.com/", "/a b", "/%zz", "/%", "?x", "#f", "/a#f", "//", "\\", "/\xc3\xa9"}
	statuses    = []string{"200", "200", "204", "304", "404", "100", "103", "500", "599", "101", "301"}
	oddStatus   = []string{"", "abc", "+200", "-200", "-1", "0200", "20", "7", "2000", "99999", " 200", "200 ", "2e2", "\xd9\xa2\xd9\xa0\xd9\xa0", "000", "999", "0x1f", "200 OK", "1_00"}
	protocols   = []string{"websocket", "connect-udp", "webtransport"}
	pseudoNames = []string{":method", ":scheme", ":authority", ":path", ":protocol", ":status"}
	oddPseudo   = []string{":foo", ":", ":Path", ":METHOD", ":path ", ": path", "::path", ":status-code", ":host", ":version", ":\x00"}
	forbTrailer = []string{"content-length", "host", "trailer", "transfer-encoding", "authorization", "if-match", "te", "content-type", "connection", "upgrade"}
)

func pick(t *rapid.T, label string, pool []string) string {
	return pool[rapid.IntRange(0, len(pool)-1).Draw(t, label)]
}

func genGoodField(t *rapid.T) F {
	return F{S(pick(t, "gname", goodNames)), S(pick(t, "gval", goodValues))}
}

// genPCase builds a section: a well-formed skeleton with 0..3 injected defects, or (1 in 8) a "soup"
// drawn freely from the alphabet.
func genPCase(t *rapid.T) PCase {
	c := PCase{FailAt: -1}
	c.Kind = rapid.SampledFrom([]string{"req", "req", "req", "rsp", "rsp", "trl"}).Draw(t, "kind")
	soup := rapid.IntRange(0, 7).Draw(t, "soup") == 7
	if soup {
		n := rapid.IntRange(0, 8).Draw(t, "n")
		for i := 0; i < n; i++ {
			var name string
			switch rapid.IntRange(0, 9).Draw(t, "nk") {
			case 0, 1, 2:
				name = pick(t, "pn", pseudoNames)
			case 3:
				name = pick(t, "opn", oddPseudo)
			case 4:
				name = pick(t, "bn", badNames)
			case 5:
				name = pick(t, "cn", append(append([]string{}, connNames...), "te", "content-length", "trailer", "host"))
			default:
				name = pick(t, "gn", goodNames)
			}
			var val string
			switch rapid.IntRange(0, 9).Draw(t, "vk") {
			case 0:
				val = pick(t, "bv", badValues)
			case 1:
				val = pick(t, "cl", clValues)
			case 2:
				val = pick(t, "m", methods)
			case 3:
				val = pick(t, "p", paths)
			case 4:
				val = pick(t, "a", authorities)
			case 5:
				val = pick(t, "s", append(append([]string{}, statuses...), schemes...))
			default:
				val = pick(t, "gv", goodValues)
			}
			c.Fields = append(c.Fields, F{S(name), S(val)})
		}
	} else {
		// skeleton
		var pseudo []F
		switch c.Kind {
		case "req":
			switch rapid.IntRange(0, 9).Draw(t, "shape") {
			case 0: // CONNECT
				pseudo = []F{{":method", "CONNECT"}, {":authority", S(pick(t, "a", authorities))}}
			case 1: // extended CONNECT
				pseudo = []F{{":method", "CONNECT"}, {":protocol", S(pick(t, "pr", protocols))}, {":scheme", S(pick(t, "s", schemes))},
					{":authority", S(pick(t, "a", authorities))}, {":path", S(pick(t, "p", paths))}}
			default:
				m := pick(t, "m", methods)
				p := pick(t, "p", paths)
				if m == "OPTIONS" && rapid.Bool().Draw(t, "star") {
					p = "*"
				}
				pseudo = []F{{":method", S(m)}, {":scheme", S(pick(t, "s", schemes))}, {":authority", S(pick(t, "a", authorities))}, {":path", S(p)}}
			}
			// pseudo fields in any order
			perm := rapid.Permutation(pseudo).Draw(t, "perm")
			pseudo = perm
		case "rsp":
			pseudo = []F{{":status", S(pick(t, "st", statuses))}}
		}
		nreg := rapid.IntRange(0, 5).Draw(t, "nreg")
		var regular []F
		for i := 0; i < nreg; i++ {
			f := genGoodField(t)
			if c.Kind == "trl" && rapid.IntRange(0, 2).Draw(t, "xt") != 0 {
				f.N = S("x-" + string(f.N))
			}
			regular = append(regular, f)
		}
		// benign specials
		if c.Kind != "trl" {
			switch rapid.IntRange(0, 11).Draw(t, "special") {
			case 0:
				regular = append(regular, F{"content-length", S(pick(t, "clok", []string{"0", "5", "42", "0005", "9223372036854775807"}))})
			case 1:
				regular = append(regular, F{"trailer", S(pick(t, "ta", trailerAnnounce))})
			case 2:
				if c.Kind == "req" {
					regular = append(regular, F{"te", "trailers"})
				}
			case 3:
				if c.Kind == "req" {
					if a, ok := findField(pseudo, ":authority"); ok {
						regular = append(regular, F{"host", a})
					}
				}
			case 4:
				v := pick(t, "clok", []string{"0", "5", "42"})
				regular = append(regular, F{"content-length", S(v)}, F{"content-length", S(v)})
			}
		}
		c.Fields = append(append([]F{}, pseudo...), regular...)
		npseudo := len(pseudo)

		// defects
		nd := rapid.SampledFrom([]int{0, 0, 0, 1, 1, 1, 1, 1, 1, 2, 2, 3}).Draw(t, "ndefects")
		for d := 0; d < nd; d++ {
			pos := func(label string) int { return rapid.IntRange(0, len(c.Fields)).Draw(t, label) }
			insert := func(i int, f F) {
				c.Fields = append(c.Fields, F{})
				copy(c.Fields[i+1:], c.Fields[i:])
				c.Fields[i] = f
				if i <= npseudo {
					// keeps npseudo meaningful only approximately; fine for a generator
				}
			}
			regIdx := func() int { // index of some regular field, or -1
				var idx []int
				for i, f := range c.Fields {
					if len(f.N) == 0 || f.N[0] != ':' {
						idx = append(idx, i)
					}
				}
				if len(idx) == 0 {
					return -1
				}
				return idx[rapid.IntRange(0, len(idx)-1).Draw(t, "ri")]
			}
			psIdx := func() int {
				var idx []int
				for i, f := range c.Fields {
					if len(f.N) > 0 && f.N[0] == ':' {
						idx = append(idx, i)
					}
				}
				if len(idx) == 0 {
					return -1
				}
				return idx[rapid.IntRange(0, len(idx)-1).Draw(t, "pi")]
			}
			switch rapid.IntRange(0, 15).Draw(t, "defect") {
			case 0: // bad name (replace or insert)
				if i := regIdx(); i >= 0 && rapid.Bool().Draw(t, "repl") {
					c.Fields[i].N = S(pick(t, "bn", badNames))
				} else {
					insert(rapid.IntRange(npseudo, len(c.Fields)).Draw(t, "at"), F{S(pick(t, "bn", badNames)), S(pick(t, "gv", goodValues))})
				}
			case 1: // upper-case an existing name
				if i := regIdx(); i >= 0 && len(c.Fields[i].N) > 0 {
					n := []byte(c.Fields[i].N)
					k := rapid.IntRange(0, len(n)-1).Draw(t, "uc")
					if n[k] >= 'a' && n[k] <= 'z' {
						n[k] -= 32
					}
					c.Fields[i].N = S(n)
				}
			case 2: // bad value on any field (regular or pseudo)
				if len(c.Fields) > 0 {
					i := rapid.IntRange(0, len(c.Fields)-1).Draw(t, "bvi")
					c.Fields[i].V = S(pick(t, "bv", badValues))
				}
			case 3: // connection-specific field
				insert(rapid.IntRange(npseudo, len(c.Fields)).Draw(t, "at"), F{S(pick(t, "cn", connNames)), S(pick(t, "cv", []string{"close", "keep-alive", "chunked", "websocket", "timeout=5", "", "upgrade", "trailers"}))})
			case 4: // te
				insert(rapid.IntRange(npseudo, len(c.Fields)).Draw(t, "at"), F{"te", S(pick(t, "te", teValues))})
			case 5: // pseudo field inserted anywhere (known or unknown; may duplicate, may be the wrong kind, may follow a regular field)
				name := pick(t, "pn", pseudoNames)
				if rapid.IntRange(0, 3).Draw(t, "odd") == 0 {
					name = pick(t, "opn", oddPseudo)
				}
				val := pick(t, "pv", []string{"", "GET", "/", "https", "example.com", "200", "websocket", "x"})
				insert(pos("at"), F{S(name), S(val)})
			case 6: // duplicate an existing pseudo field (same or other value, maybe empty), placed anywhere
				if i := psIdx(); i >= 0 {
					f := c.Fields[i]
					switch rapid.IntRange(0, 3).Draw(t, "dupv") {
					case 0:
						f.V = ""
					case 1:
						f.V = S(string(f.V) + "x")
					}
					at := pos("at")
					insert(at, f)
					// optionally blank the earlier occurrence
					if rapid.IntRange(0, 2).Draw(t, "blank") == 0 {
						for j := range c.Fields {
							if c.Fields[j].N == f.N {
								c.Fields[j].V = ""
								break
							}
						}
					}
				}
			case 7: // remove a pseudo field
				if i := psIdx(); i >= 0 {
					c.Fields = append(c.Fields[:i], c.Fields[i+1:]...)
					npseudo--
					if npseudo < 0 {
						npseudo = 0
					}
				}
			case 8: // odd pseudo value
				if i := psIdx(); i >= 0 {
					switch string(c.Fields[i].N) {
					case ":method":
						c.Fields[i].V = S(pick(t, "om", oddMethods))
					case ":scheme":
						c.Fields[i].V = S(pick(t, "os", oddSchemes))
					case ":authority":
						c.Fields[i].V = S(pick(t, "oa", oddAuth))
					case ":path":
						c.Fields[i].V = S(pick(t, "op", oddPaths))
					case ":status":
						c.Fields[i].V = S(pick(t, "ost", oddStatus))
					case ":protocol":
						c.Fields[i].V = S(pick(t, "opr", []string{"", "web socket", "WEBSOCKET", "HTTP/1.1"}))
					}
				}
			case 9, 10: // content-length fields
				n := rapid.IntRange(1, 3).Draw(t, "ncl")
				first := pick(t, "cl", clValues)
				for k := 0; k < n; k++ {
					v := first
					if k > 0 && rapid.Bool().Draw(t, "cldiff") {
						v = pick(t, "cl2", clValues)
					}
					insert(rapid.IntRange(npseudo, len(c.Fields)).Draw(t, "at"), F{"content-length", S(v)})
				}
			case 11: // move a regular field to the front (pseudo after regular)
				if i := regIdx(); i >= 0 {
					f := c.Fields[i]
					c.Fields = append(c.Fields[:i], c.Fields[i+1:]...)
					insert(rapid.IntRange(0, max(0, npseudo-1)).Draw(t, "front"), f)
				}
			case 12: // forbidden trailer field / host / trailer
				insert(rapid.IntRange(npseudo, len(c.Fields)).Draw(t, "at"), F{S(pick(t, "ft", forbTrailer)), S(pick(t, "gv", goodValues))})
			case 13: // host differing from :authority
				insert(rapid.IntRange(npseudo, len(c.Fields)).Draw(t, "at"), F{"host", S(pick(t, "oa", append([]string{"other.example"}, authorities...)))})
			case 14: // long value (size pressure)
				insert(rapid.IntRange(npseudo, len(c.Fields)).Draw(t, "at"), F{"x-long", S(strings.Repeat("v", rapid.IntRange(100, 3000).Draw(t, "len")))})
			case 15: // wrong-kind pseudo
				if c.Kind == "req" {
					insert(rapid.IntRange(0, npseudo).Draw(t, "at"), F{":status", "200"})
				} else {
					insert(rapid.IntRange(0, npseudo).Draw(t, "at"), F{S(pick(t, "rp", []string{":method", ":path", ":scheme", ":authority", ":protocol"})), "x"})
				}
			}
		}
	}

	// limit: far away, or around the exact size
	size := fieldListSize(c.Fields)
	switch rapid.IntRange(0, 15).Draw(t, "limitmode") {
	case 13, 14, 15:
		d := rapid.SampledFrom([]int{-65, -33, -32, -31, -2, -1, 0, 0, 1, 2, 31, 32, 33}).Draw(t, "delta")
		c.Limit = max(0, size+d)
	case 12:
		c.Limit = rapid.SampledFrom([]int{0, 1, 31, 32, 33, 64, 100}).Draw(t, "small")
	case 11:
		// limit that cuts after a prefix of the fields
		if len(c.Fields) > 0 {
			k := rapid.IntRange(0, len(c.Fields)).Draw(t, "cut")
			c.Limit = fieldListSize(c.Fields[:k]) + rapid.SampledFrom([]int{-1, 0, 0, 1}).Draw(t, "cd")
			c.Limit = max(0, c.Limit)
		} else {
			c.Limit = 0
		}
	default:
		c.Limit = rapid.SampledFrom([]int{1 << 20, 1 << 20, 10 << 20, 1<<31 - 1, 1<<62 - 1}).Draw(t, "big")
	}
	if rapid.IntRange(0, 11).Draw(t, "fail") == 11 {
		c.FailAt = rapid.IntRange(0, len(c.Fields)).Draw(t, "failat")
	}
	return c
}

func findField(fs []F, name string) (S, bool) {
	for _, f := range fs {
		if string(f.N) == name {
			return f.V, true
		}
	}
	return "", false
}

// ---------------------------------------------------------------------------------------------
// Conservative core of obviously valid sections (the only ones for which acceptance is demanded).

func coreName(n string) bool {
	if n == "" || !(n[0] >= 'a' && n[0] <= 'z') {
		return false
	}
	for i := 0; i < len(n); i++ {
		c := n[i]
		if !(c >= 'a' && c <= 'z' || c >= '0' && c <= '9' || c == '-') {
			return false
		}
	}
	switch n {
	case "te", "content-length", "host", "trailer", "connection", "keep-alive", "proxy-connection", "transfer-encoding", "upgrade":
		return false
	}
	return true
}

func coreValue(v string) bool {
	if len(v) > 4096 {
		return false
	}
	for i := 0; i < len(v); i++ {
		c := v[i]
		if c == ' ' {
			if i == 0 || i == len(v)-1 || v[i-1] == ' ' {
				return false
			}
			continue
		}
		if c < 0x21 || c > 0x7e {
			return false
		}
	}
	return true
}

func coreAuthority(a string) bool {
	if a == "" {
		return false
	}
	host, port := a, ""
	if i := strings.LastIndexByte(a, ':'); i >= 0 {
		host, port = a[:i], a[i+1:]
		if !allDigits(port) || len(port) > 5 {
			return false
		}
	}
	if host == "" {
		return false
	}
	for i := 0; i < len(host); i++ {
		c := host[i]
		if !(c >= 'a' && c <= 'z' || c >= '0' && c <= '9' || c == '-' || c == '.') {
			return false
		}
	}
	return true
}

func corePath(p string) bool {
	if p == "" || p[0] != '/' || strings.HasPrefix(p, "//") {
		return false
	}
	q := false
	for i := 0; i < len(p); i++ {
		c := p[i]
		switch {
		case c >= 'a' && c <= 'z', c >= 'A' && c <= 'Z', c >= '0' && c <= '9', c == '-', c == '.', c == '_', c == '~', c == '/':
		case c == '?':
			if q {
				return false
			}
			q = true
		case (c == '=' || c == '&') && q:
		case c == '%':
			if i+2 >= len(p) || !isHex(p[i+1]) || !isHex(p[i+2]) {
				return false
			}
		default:
			return false
		}
	}
	return true
}

func isHex(c byte) bool {
	return c >= '0' && c <= '9' || c >= 'a' && c <= 'f' || c >= 'A' && c <= 'F'
}

// coreRegular reports whether every regular field of the analysed (prefix of a) section is obviously valid.
func coreRegular(kind string, a *analysis) bool {
	if len(a.defects) > 0 || len(a.notes) > 0 {
		return false
	}
	clSeen := false
	for _, f := range a.regular {
		n, v := string(f.N), string(f.V)
		switch {
		case n == "content-length" && kind != "trl":
			if clSeen || !allDigits(v) || len(v) > 15 {
				return false
			}
			clSeen = true
		case n == "te" && kind == "req":
			if v != "trailers" {
				return false
			}
		default:
			if !coreName(n) || !coreValue(v) {
				return false
			}
			if kind == "trl" && !strings.HasPrefix(n, "x-") {
				return false
			}
		}
	}
	for _, vals := range a.pseudo {
		for _, v := range vals {
			if v == "" || !coreValue(v) {
				return false
			}
		}
	}
	return true
}

// inCore reports whether the section is "obviously valid"; a is its (defect-free) analysis.
func inCore(c PCase, a *analysis) bool {
	if c.FailAt >= 0 || len(a.defects) > 0 || len(a.notes) > 0 {
		return false
	}
	if !coreRegular(c.Kind, a) {
		return false
	}
	clSeen := false
	for _, f := range a.regular {
		n, v := string(f.N), string(f.V)
		switch {
		case n == "content-length" && c.Kind != "trl":
			if clSeen || !allDigits(v) || len(v) > 15 {
				return false
			}
			clSeen = true
		case n == "te" && c.Kind == "req":
			if v != "trailers" {
				return false
			}
		default:
			if !coreName(n) || !coreValue(v) {
				return false
			}
			if c.Kind == "trl" && !strings.HasPrefix(n, "x-") {
				return false
			}
		}
	}
	one := func(name string) (string, bool) {
		v := a.pseudo[name]
		if len(v) != 1 || v[0] == "" {
			return "", false
		}
		return v[0], true
	}
	switch c.Kind {
	case "trl":
		return len(a.pseudo) == 0
	case "rsp":
		st, ok := one(":status")
		return ok && len(a.pseudo) == 1 && len(st) == 3 && st >= "100" && st <= "599"
	case "req":
		m, ok := one(":method")
		if !ok {
			return false
		}
		au, ok := one(":authority")
		if !ok || !coreAuthority(au) {
			return false
		}
		_, hasProto := a.pseudo[":protocol"]
		switch {
		case m == "CONNECT" && !hasProto:
			return len(a.pseudo) == 2 && strings.Contains(au, ":")
		case m == "CONNECT":
			pr, ok1 := one(":protocol")
			s, ok2 := one(":scheme")
			p, ok3 := one(":path")
			return ok1 && ok2 && ok3 && len(a.pseudo) == 5 && (s == "http" || s == "https") && corePath(p) &&
				(pr == "websocket" || pr == "connect-udp" || pr == "webtransport")
		default:
			if hasProto || len(a.pseudo) != 4 {
				return false
			}
			std := false
			for _, x := range []string{"GET", "POST", "PUT", "HEAD", "DELETE", "OPTIONS", "PATCH"} {
				std = std || x == m
			}
			s, ok2 := one(":scheme")
			p, ok3 := one(":path")
			return std && ok2 && ok3 && (s == "http" || s == "https") && corePath(p)
		}
	}
	return false
}

// ---------------------------------------------------------------------------------------------
// Expected hand-over to net/http for an accepted, defect-free section.

// expectedHeader builds the http.Header a defect-free section must decode to (canonical keys, values
// unchanged and in order, Content-Length single, Trailer moved to the announced-trailer set).
func expectedHeader(kind string, a *analysis) (hdr map[string][]string, trailer map[string]bool, cl int64) {
	hdr = map[string][]string{}
	cl = -1
	for _, f := range a.regular {
		n := string(f.N)
		if n == "content-length" && kind != "trl" {
			continue
		}
		k := canon(n)
		hdr[k] = append(hdr[k], string(f.V))
	}
	if kind == "trl" {
		return hdr, nil, cl
	}
	if len(a.cl) > 0 {
		v, _ := parseDigits(a.cl[0])
		cl = v
		hdr["Content-Length"] = []string{a.cl[0]}
	}
	if kind == "req" {
		// RFC 9114 4.2.1: cookie crumbs are concatenated with "; " before being passed on
		if c := hdr["Cookie"]; len(c) > 1 {
			hdr["Cookie"] = []string{strings.Join(c, "; ")}
		}
	}
	if tv, ok := hdr["Trailer"]; ok {
		trailer = map[string]bool{}
		for _, k := range splitTrailerTokens(tv) {
			trailer[k] = true
		}
		delete(hdr, "Trailer")
	}
	return hdr, trailer, cl
}

func pctDecode(s string) (string, bool) {
	var b []byte
	for i := 0; i < len(s); i++ {
		if s[i] == '%' {
			if i+2 > len(s)-1 {
				return "", false
			}
			if !isHex(s[i+1]) || !isHex(s[i+2]) {
				return "", false
			}
			v, _ := strconv.ParseUint(s[i+1:i+3], 16, 8)
			b = append(b, byte(v))
			i += 2
			continue
		}
		b = append(b, s[i])
	}
	return string(b), true
}

func checkTrailerSet(got http.Header, want map[string]bool) string {
	if want == nil {
		if got != nil {
			// an announced set without any announcement
			return fmt.Sprintf("Trailer = %v without a trailer field", got)
		}
		return ""
	}
	for k := range want {
		if _, ok := got[k]; !ok {
			return fmt.Sprintf("announced trailer %q missing from %v", k, got)
		}
	}
	for k, v := range got {
		if k == "" {
			continue // empty list element; not judged
		}
		if !want[k] {
			return fmt.Sprintf("unexpected announced trailer %q", k)
		}
		if v != nil {
			return fmt.Sprintf("announced trailer %q has values %q before the trailer section arrived", k, v)
		}
	}
	return ""
}

func handOnRequest(k *collector, req *http.Request, a *analysis) {
	method, _ := a.val(":method")
	authority, _ := a.val(":authority")
	path, _ := a.val(":path")
	scheme, _ := a.val(":scheme")
	protocol, hasProtocol := a.val(":protocol")
	if req.Method != method {
		k.bad("C19/handon/method", "Method %q, :method %q", req.Method, method)
	}
	if req.Host != authority {
		k.bad("C19/handon/host", "Host %q, :authority %q", req.Host, authority)
	}
	if req.ProtoMajor != 3 || req.ProtoMinor != 0 {
		k.bad("C19/handon/proto", "ProtoMajor.Minor = %d.%d", req.ProtoMajor, req.ProtoMinor)
	}
	if req.URL == nil {
		k.bad("C19/handon/url", "URL is nil")
		return
	}
	isConnect := method == "CONNECT"
	switch {
	case isConnect && !hasProtocol:
		if req.RequestURI != authority || req.URL.Host != authority || req.URL.Path != "" {
			k.bad("C19/handon/url", "CONNECT: RequestURI %q URL.Host %q URL.Path %q, :authority %q", req.RequestURI, req.URL.Host, req.URL.Path, authority)
		}
		if req.Proto != "HTTP/3.0" {
			k.bad("C19/handon/proto", "Proto %q", req.Proto)
		}
	case isConnect:
		if req.URL.Host != authority || req.URL.Scheme != scheme {
			k.bad("C19/handon/url", "extended CONNECT: URL.Scheme %q URL.Host %q, want %q %q", req.URL.Scheme, req.URL.Host, scheme, authority)
		}
		if req.Proto != protocol && req.Proto != "HTTP/3.0" {
			k.bad("C19/handon/proto", "extended CONNECT: Proto %q, :protocol %q", req.Proto, protocol)
		}
		fallthrough
	default:
		if !isConnect {
			if req.RequestURI != path {
				k.bad("C19/handon/url", "RequestURI %q, :path %q", req.RequestURI, path)
			}
			if req.Proto != "HTTP/3.0" {
				k.bad("C19/handon/proto", "Proto %q", req.Proto)
			}
		}
		if len(path) > 0 && path[0] == '/' {
			if !isConnect && (req.URL.Host != "" || req.URL.Scheme != "" || req.URL.User != nil) {
				k.bad("C19/handon/url", ":path %q produced URL with scheme %q host %q user %v", path, req.URL.Scheme, req.URL.Host, req.URL.User)
			}
			pp, qq, hasQ := strings.Cut(path, "?")
			if dec, ok := pctDecode(pp); ok {
				if req.URL.Path != dec {
					k.bad("C19/handon/url", ":path %q: URL.Path %q, want %q", path, req.URL.Path, dec)
				}
				if hasQ && req.URL.RawQuery != qq {
					k.bad("C19/handon/url", ":path %q: URL.RawQuery %q, want %q", path, req.URL.RawQuery, qq)
				}
			}
		}
	}
	wantHdr, wantTrailer, wantCL := expectedHeader("req", a)
	if ok, why := equalHeader(req.Header, wantHdr, true); !ok {
		k.bad("C19/handon/header", "request header differs: %s (fields %s)", why, fieldsString(a.regular))
	}
	if req.ContentLength != wantCL {
		k.bad("C19/handon/content-length", "ContentLength %d, want %d (fields %v)", req.ContentLength, wantCL, a.cl)
	}
	if why := checkTrailerSet(req.Trailer, wantTrailer); why != "" {
		k.bad("C19/handon/trailer-announcement", "%s", why)
	}
}

func handOnResponse(k *collector, rsp *http.Response, a *analysis) {
	st, _ := a.val(":status")
	if len(st) == 3 && allDigits(st) {
		code, _ := parseDigits(st)
		if rsp.StatusCode != int(code) {
			k.bad("C19/handon/status", "StatusCode %d, :status %q", rsp.StatusCode, st)
		}
		if !strings.HasPrefix(rsp.Status, st+" ") && rsp.Status != st {
			k.bad("C19/handon/status", "Status %q, :status %q", rsp.Status, st)
		}
	}
	if rsp.Proto != "HTTP/3.0" || rsp.ProtoMajor != 3 || rsp.ProtoMinor != 0 {
		k.bad("C19/handon/proto", "Proto %q %d.%d", rsp.Proto, rsp.ProtoMajor, rsp.ProtoMinor)
	}
	wantHdr, wantTrailer, wantCL := expectedHeader("rsp", a)
	if ok, why := equalHeader(rsp.Header, wantHdr, true); !ok {
		k.bad("C19/handon/header", "response header differs: %s (fields %s)", why, fieldsString(a.regular))
	}
	if rsp.ContentLength != wantCL {
		k.bad("C19/handon/content-length", "ContentLength %d, want %d (fields %v)", rsp.ContentLength, wantCL, a.cl)
	}
	if why := checkTrailerSet(rsp.Trailer, wantTrailer); why != "" {
		k.bad("C19/handon/trailer-announcement", "%s", why)
	}
}

// ---------------------------------------------------------------------------------------------
// The check.

func acceptSig(code string) string { return "C19/accept/" + code }

var endOfSectionCode = map[string]bool{"missing-method": true, "missing-path": true, "missing-authority": true, "missing-status": true,
	"missing-scheme-extended-connect": true, "connect-path": true, "protocol-without-connect": true, "status-invalid": true}

func checkPCase(c PCase, u *vf.Unit) *vf.Verdict { return checkPCaseWith(c, u, nil) }

// checkPCaseWith judges one section; realFn, when given, is the decode function handed to the parser
// instead of the synthetic one (it must yield c.Fields and then fail iff c.FailAt >= 0).
func checkPCaseWith(c PCase, u *vf.Unit, realFn qpack.DecodeFunc) *vf.Verdict {
	if c.Kind != "req" && c.Kind != "rsp" && c.Kind != "trl" {
		return nil
	}
	if c.FailAt > len(c.Fields) {
		c.FailAt = len(c.Fields)
	}
	k := &collector{u: u, c: c}
	u.Class("kind:" + c.Kind)

	var (
		err error
		req *http.Request
		rsp = &http.Response{}
		trl http.Header
	)
	fn := decodeFn(c.Fields, c.FailAt)
	if realFn != nil {
		fn = realFn
	}
	switch c.Kind {
	case "req":
		req, err = http3.VerifRequestFromDecodeFn(fn, c.Limit)
	case "rsp":
		err = http3.VerifUpdateResponseFromDecodeFn(rsp, fn, c.Limit)
	case "trl":
		trl, err = http3.VerifParseTrailersDecodeFn(fn, c.Limit)
	}
	accepted := err == nil

	delivered := c.Fields
	if c.FailAt >= 0 {
		delivered = c.Fields[:c.FailAt]
	}
	a := analyse(c.Kind, delivered, c.Limit, c.FailAt < 0)
	codes := a.codes()

	// class bookkeeping
	for _, code := range codes {
		u.Class("defect:" + code)
	}
	switch {
	case c.FailAt >= 0:
		u.Class("decode-failure")
	case len(codes) == 0:
		u.Class("well-formed")
	case len(codes) == 1:
		u.Class("single-defect")
		u.NonTrivial(c.Kind, codes[0], fieldsString(c.Fields), c.Limit)
	default:
		u.Class("multi-defect")
	}
	if a.size >= c.Limit-33 && a.size <= c.Limit+33 {
		u.Class("size-near-limit")
	}
	if accepted {
		u.Class("accepted")
		for _, n := range sortedKeys(a.notes) {
			u.Class("accepted-note:" + n)
		}
	} else {
		u.Class("rejected")
	}

	if c.FailAt >= 0 {
		// a section whose decoding fails must never be accepted, and unless something in the decoded
		// prefix was already wrong the failure has to surface as the QPACK error kind
		if accepted {
			k.bad("C19/accept/after-decode-error", "%s section accepted although decoding failed at field %d: %s", c.Kind, c.FailAt, fieldsString(delivered))
			return k.first
		}
		if coreRegular(c.Kind, a) && !http3.VerifIsQPACKError(err) {
			k.bad("C19/reject/error-kind", "decoding failed at field %d of an otherwise clean prefix, but the error is %T %q, not the QPACK error", c.FailAt, err, err)
		}
		if http3.VerifIsQPACKError(err) && realFn == nil && !errors.Is(err, errInjectedDecode) {
			k.bad("C19/reject/error-kind", "QPACK error does not wrap the decoder's error: %v", err)
		}
		return k.first
	}

	if accepted {
		if len(codes) > 0 {
			// with a repeated pseudo field it is ambiguous which value the end-of-section rules apply to;
			// the repetition itself is the defect to report
			ambiguous := a.defects["pseudo-duplicate"] || a.defects["pseudo-empty-value"]
			for _, code := range codes {
				if ambiguous && endOfSectionCode[code] {
					continue
				}
				k.bad(acceptSig(code), "%s section accepted (limit %d, size %d) with defect %q (all defects %v): %s", c.Kind, c.Limit, a.size, code, codes, fieldsString(c.Fields))
			}
			return k.first
		}
		switch c.Kind {
		case "req":
			if req == nil {
				k.bad("C19/handon/nil", "nil request without error")
				return k.first
			}
			handOnRequest(k, req, a)
		case "rsp":
			handOnResponse(k, rsp, a)
		case "trl":
			want, _, _ := expectedHeader("trl", a)
			if ok, why := equalHeader(trl, want, true); !ok {
				k.bad("C19/handon/header", "trailer differs: %s (fields %s)", why, fieldsString(a.regular))
			}
		}
		if len(a.notes) == 0 {
			u.Class("accepted-clean")
		}
		return k.first
	}

	// rejected
	if http3.VerifIsQPACKError(err) {
		k.bad("C19/reject/error-kind", "decoding never failed but the parser reports a QPACK error: %v", err)
	}
	tooLarge := errors.Is(err, http3.VerifErrHeaderTooLarge)
	if tooLarge && !a.defects["oversize"] {
		k.bad("C19/reject/error-kind", "size %d within the limit %d but the parser reports %q: %s", a.size, c.Limit, err, fieldsString(c.Fields))
	}
	if len(codes) == 1 && codes[0] == "oversize" && !tooLarge {
		// only demanded for sections that are obviously valid apart from their size (the parser may be
		// stricter than the reference predicate elsewhere, and then either error is fine)
		if inCore(c, analyse(c.Kind, c.Fields, int(^uint(0)>>1), true)) {
			k.bad("C19/reject/error-kind", "obviously valid section is only too large (size %d, limit %d) but the error is %q: %s", a.size, c.Limit, err, fieldsString(c.Fields))
		}
	}
	if len(codes) == 0 {
		u.Class("rejected-well-formed")
		if inCore(c, a) {
			k.bad("C19/reject/valid-core", "obviously valid %s section rejected with %q: %s (limit %d, size %d)", c.Kind, err, fieldsString(c.Fields), c.Limit, a.size)
		}
	}
	return k.first
}

func TestParserModel(t *testing.T) {
	vf.RunRapid(t, "parser-model", genPCase, func(c PCase, u *vf.Unit) *vf.Verdict {
		v := checkPCase(c, u)
		if v == nil && u.WantSample() && len(c.Fields) > 2 {
			u.Sample(c)
		}
		return v
	})
}

// ---------------------------------------------------------------------------------------------
// Native fuzz target: bytes -> field list -> the same check.
//
// Encoding: byte 0 kind (mod 3); byte 1 limit mode; byte 2 fail-at selector; then fields: a selector
// byte s: s < 0x80 -> literal name of length s&0x0f (upper bits spare), s >= 0x80 -> dictionary name
// s&0x7f; then the same for the value.

var fuzzNameDict = func() []string {
	d := append([]string{}, pseudoNames...)
	d = append(d, connNames...)
	d = append(d, "te", "content-length", "trailer", "host", "cookie")
	d = append(d, goodNames...)
	d = append(d, oddPseudo...)
	d = append(d, badNames...)
	return d
}()

var fuzzValueDict = func() []string {
	d := append([]string{}, methods...)
	d = append(d, "CONNECT", "https", "http", "/", "/a?b=c", "*", "example.com", "example.com:443", "200", "404", "100", "websocket", "trailers")
	d = append(d, clValues...)
	d = append(d, goodValues...)
	d = append(d, badValues...)
	d = append(d, oddStatus...)
	d = append(d, oddPaths...)
	d = append(d, oddAuth...)
	d = append(d, oddMethods...)
	return d
}()

func fuzzDecode(data []byte) PCase {
	c := PCase{FailAt: -1, Kind: "req"}
	if len(data) < 3 {
		return c
	}
	c.Kind = []string{"req", "rsp", "trl"}[int(data[0])%3]
	limitMode, failSel := data[1], data[2]
	data = data[3:]
	str := func(dict []string) (string, bool) {
		if len(data) == 0 {
			return "", false
		}
		s := data[0]
		data = data[1:]
		if s >= 0x80 {
			return dict[int(s&0x7f)%len(dict)], true
		}
		n := int(s & 0x0f)
		if n > len(data) {
			n = len(data)
		}
		v := string(data[:n])
		data = data[n:]
		return v, true
	}
	for len(c.Fields) < 24 {
		n, ok := str(fuzzNameDict)
		if !ok {
			break
		}
		v, _ := str(fuzzValueDict)
		c.Fields = append(c.Fields, F{S(n), S(v)})
	}
	size := fieldListSize(c.Fields)
	switch {
	case limitMode < 0x40:
		c.Limit = max(0, size+int(limitMode)-0x20)
	case limitMode < 0x50:
		c.Limit = int(limitMode-0x40) * 16
	default:
		c.Limit = 1 << 20
	}
	if failSel >= 0xe0 {
		c.FailAt = int(failSel-0xe0) % (len(c.Fields) + 1)
	}
	return c
}

func fuzzEncode(kind int, limitMode, failSel byte, fields []F) []byte {
	out := []byte{byte(kind), limitMode, failSel}
	put := func(s string, dict []string) {
		for i, d := range dict {
			if d == s && i < 0x80 {
				out = append(out, 0x80|byte(i))
				return
			}
		}
		if len(s) > 15 {
			s = s[:15]
		}
		out = append(out, byte(len(s)))
		out = append(out, s...)
	}
	for _, f := range fields {
		put(string(f.N), fuzzNameDict)
		put(string(f.V), fuzzValueDict)
	}
	return out
}

func FuzzFieldSection(f *testing.F) {
	u := vf.U("parser-fuzz")
	seeds := [][]F{
		{{":method", "GET"}, {":scheme", "https"}, {":authority", "example.com"}, {":path", "/"}, {"accept", "v"}},
		{{":method", "POST"}, {":scheme", "https"}, {":authority", "example.com"}, {":path", "/a?b=c"}, {"content-length", "5"}, {"cookie", "a=b; c=d"}, {"cookie", "v"}},
		{{":method", "CONNECT"}, {":authority", "example.com:443"}},
		{{":method", "CONNECT"}, {":protocol", "websocket"}, {":scheme", "https"}, {":authority", "example.com"}, {":path", "/"}},
		{{":status", "200"}, {"content-length", "42"}, {"trailer", "x-t"}},
		{{"x-t", "v"}, {"x-u", "a b"}},
		{{":method", "GET"}, {":scheme", "https"}, {":authority", "example.com"}, {":path", "/"}, {"X-Custom", "v"}},
		{{":method", "GET"}, {":scheme", "https"}, {":authority", "example.com"}, {":path", "/"}, {"x-a", "a\r\nx-injected: 1"}},
		{{":method", "GET"}, {":scheme", "https"}, {":authority", "example.com"}, {"x-a", "v"}, {":path", "/"}},
		{{":method", "GET"}, {":method", "GET"}, {":scheme", "https"}, {":authority", "example.com"}, {":path", "/"}},
		{{":method", "GET"}, {":scheme", "https"}, {":authority", "example.com"}, {":path", "/"}, {"content-length", "5"}, {"content-length", "42"}},
		{{":method", "GET"}, {":scheme", "https"}, {":authority", "example.com"}, {":path", "/"}, {"connection", "v"}, {"te", "gzip"}},
		{{":status", "200"}, {":path", "/"}},
		{{":status", "200"}, {":foo", "v"}},
		{{":status", "200"}, {"transfer-encoding", "v"}},
		{{":path", "/"}, {"content-length", "5"}},
	}
	for i, s := range seeds {
		f.Add(fuzzEncode(i%3, 0xff, 0, s))
		f.Add(fuzzEncode(0, 0x20, 0, s))
		f.Add(fuzzEncode(1, 0x1f, 0, s))
		f.Add(fuzzEncode(2, 0x21, 0xe1, s))
	}
	f.Add([]byte{})
	f.Add([]byte{0, 0, 0})
	f.Fuzz(func(t *testing.T, data []byte) {
		c := fuzzDecode(data)
		u.Case()
		v := vf.Guard("parser-fuzz", func() *vf.Verdict { return checkPCase(c, u) })
		if v != nil {
			// stored in the parser-model format so that the case replays through TestParserModel
			if vf.U("parser-model").Report(v, c) {
				t.Fatalf("VIOLATION %s: %s", v.Sig, v.Detail)
			}
		}
	})
}

// FuzzQPACKSection feeds raw QPACK field sections through the real qpack decoder into the parsers, as
// server_conn.go / stream.go do. The decoder (a dependency, not code under test) is run twice: once to
// learn which fields it yields and whether it fails, once inside the parser.
// Encoding: byte 0 kind (mod 3); byte 1 limit mode (as in FuzzFieldSection); rest: the header block.
func FuzzQPACKSection(f *testing.F) {
	u := vf.U("qpack-fuzz")
	enc := func(kind, limitMode byte, fields []F) []byte {
		var buf bytes.Buffer
		e := qpack.NewEncoder(&buf)
		for _, fl := range fields {
			_ = e.WriteField(qpack.HeaderField{Name: string(fl.N), Value: string(fl.V)})
		}
		return append([]byte{kind, limitMode}, buf.Bytes()...)
	}
	seeds := [][]F{
		{{":method", "GET"}, {":scheme", "https"}, {":authority", "example.com"}, {":path", "/"}, {"accept", "v"}},
		{{":method", "POST"}, {":scheme", "https"}, {":authority", "example.com"}, {":path", "/a?b=c"}, {"content-length", "5"}, {"cookie", "a=b"}, {"cookie", "v"}},
		{{":method", "CONNECT"}, {":authority", "example.com:443"}},
		{{":status", "200"}, {"content-length", "42"}, {"trailer", "x-t"}},
		{{"x-t", "v"}},
		{{":method", "GET"}, {":scheme", "https"}, {":authority", "example.com"}, {":path", "/"}, {"X-Custom", "v"}, {"x-a", "a\r\nb"}},
		{{":status", "200"}, {":status", "200"}, {"connection", "close"}, {"te", "gzip"}},
	}
	for i, s := range seeds {
		f.Add(enc(byte(i%3), 0xff, s))
		f.Add(enc(byte(i%3), 0x20, s))
		b := enc(byte(i%3), 0xff, s)
		f.Add(b[:len(b)-1]) // truncated block
	}
	f.Add([]byte{0, 0xff, 0, 0, 0xff})
	f.Fuzz(func(t *testing.T, data []byte) {
		if len(data) < 2 {
			return
		}
		c := PCase{FailAt: -1, Kind: []string{"req", "rsp", "trl"}[int(data[0])%3]}
		limitMode := data[1]
		block := append([]byte(nil), data[2:]...)
		fields, derr := decodeBlock(block)
		if len(fields) > 64 {
			return
		}
		c.Fields = fields
		if derr != nil {
			c.FailAt = len(fields)
		}
		size := fieldListSize(c.Fields)
		switch {
		case limitMode < 0x40:
			c.Limit = max(0, size+int(limitMode)-0x20)
		case limitMode < 0x50:
			c.Limit = int(limitMode-0x40) * 16
		default:
			c.Limit = 1 << 20
		}
		u.Case()
		v := vf.Guard("qpack-fuzz", func() *vf.Verdict {
			return checkPCaseWith(c, u, qpack.NewDecoder().Decode(block))
		})
		if v != nil {
			// the failing case is stored in the parser-model format so that it replays without the decoder
			if vf.U("parser-model").Report(v, c) {
				t.Fatalf("VIOLATION %s: %s", v.Sig, v.Detail)
			}
		}
	})
}

// TestSelfCheck pins the reference predicate and the case encoding on hand-written examples, so that an
// error in the oracle is found here and not as a phantom violation.
func TestSelfCheck(t *testing.T) {
	type ex struct {
		kind   string
		fields []F
		want   []string
	}
	base := []F{{":method", "GET"}, {":scheme", "https"}, {":authority", "example.com"}, {":path", "/"}}
	with := func(extra ...F) []F { return append(append([]F{}, base...), extra...) }
	for _, e := range []ex{
		{"req", base, nil},
		{"req", with(F{"X-a", "v"}), []string{"name-uppercase"}},
		{"req", with(F{"x a", "v"}), []string{"name-invalid"}},
		{"req", with(F{"", "v"}), []string{"name-invalid"}},
		{"req", with(F{"x-a", "a\x00"}), []string{"value-forbidden-byte"}},
		{"req", with(F{"x-a", "a\tb \xff"}), nil},
		{"req", with(F{"upgrade", "x"}), []string{"connection-specific"}},
		{"req", with(F{"te", "gzip"}), []string{"te-not-trailers"}},
		{"req", with(F{"te", "trailers"}), nil},
		{"req", with(F{":foo", "x"}), []string{"pseudo-after-regular", "pseudo-unknown"}[1:]},
		{"req", with(F{"x-a", "v"}, F{":path", "/"}), []string{"pseudo-after-regular", "pseudo-duplicate"}},
		{"req", with(F{":status", "200"}), []string{"pseudo-wrong-kind"}},
		{"req", append([]F{{":path", ""}}, base...), []string{"pseudo-empty-value"}},
		{"req", with(F{"content-length", "5"}, F{"content-length", "5"}), nil},
		{"req", with(F{"content-length", "5"}, F{"content-length", "6"}), []string{"content-length-conflict"}},
		{"req", with(F{"content-length", ""}), []string{"content-length-empty"}},
		{"req", with(F{"content-length", "-5"}), []string{"content-length-invalid"}},
		{"req", with(F{"content-length", "9223372036854775808"}), []string{"content-length-overflow"}},
		{"req", base[:3], []string{"missing-path"}},
		{"req", []F{{":method", "CONNECT"}, {":authority", "a:1"}}, nil},
		{"req", []F{{":method", "CONNECT"}, {":authority", "a:1"}, {":path", "/"}}, []string{"connect-path"}},
		{"req", with(F{":protocol", "websocket"}), []string{"protocol-without-connect"}},
		{"rsp", []F{{":status", "200"}}, nil},
		{"rsp", []F{{"x-a", "v"}}, []string{"missing-status"}},
		{"rsp", []F{{":status", "abc"}}, []string{"status-invalid"}},
		{"rsp", []F{{":status", "200"}, {":method", "GET"}}, []string{"pseudo-wrong-kind"}},
		{"trl", []F{{"x-t", "v"}}, nil},
		{"trl", []F{{":status", "200"}}, []string{"pseudo-in-trailer"}},
	} {
		vf.U("self-check").Case()
		a := analyse(e.kind, e.fields, 1<<20, true)
		got := a.codes()
		want := append([]string{}, e.want...)
		sort.Strings(want)
		if !equalStrings(got, want) {
			t.Errorf("analyse(%s, %s) = %v, want %v", e.kind, fieldsString(e.fields), got, want)
		}
	}
	if a := analyse("req", base, fieldListSize(base)-1, true); !a.defects["oversize"] {
		t.Errorf("oversize not detected")
	}
	if a := analyse("req", base, fieldListSize(base), true); a.defects["oversize"] {
		t.Errorf("size == limit flagged")
	}
	for in, want := range map[string]string{"x-custom": "X-Custom", "content-length": "Content-Length", "a": "A", "x_y.z": "X_y.z", "x--a": "X--A", "a b": "a b", "ETAG": "Etag", "x-1a": "X-1a"} {
		if got, std := canon(in), http.CanonicalHeaderKey(in); got != want || got != std {
			t.Errorf("canon(%q) = %q, want %q (net/http: %q)", in, got, want, std)
		}
	}
	// JSON round trip of byte strings
	c := PCase{Kind: "req", Fields: []F{{"x-\xff", "a\x00\xfe"}, {"ok", "é"}}}
	b, err := jsonRoundTrip(c)
	if err != nil || len(b.Fields) != 2 || b.Fields[0] != c.Fields[0] || b.Fields[1] != c.Fields[1] {
		t.Errorf("JSON round trip: %v %+v", err, b)
	}
	// fuzz encoding round trip
	d := fuzzDecode(fuzzEncode(0, 0xff, 0, base))
	if len(d.Fields) != len(base) || d.Fields[3] != base[3] || d.Kind != "req" {
		t.Errorf("fuzz encoding: %+v", d)
	}
}
