package c19

import (
	"bytes"
	"fmt"
	"io"
	"log/slog"
	"net/http"
	"net/url"
	"testing"

	"github.com/quic-go/qpack"
	"github.com/refraction-networking/uquic/http3"
)

func hf(kv ...string) []qpack.HeaderField {
	var out []qpack.HeaderField
	for i := 0; i+1 < len(kv); i += 2 {
		out = append(out, qpack.HeaderField{Name: kv[i], Value: kv[i+1]})
	}
	return out
}

func TestProbe(t *testing.T) {
	try := func(label string, f []qpack.HeaderField) {
		req, err := http3.VerifRequestFromHeaders(f, 1<<20)
		if err != nil {
			fmt.Printf("REQ %-40s REJECT %v\n", label, err)
			return
		}
		fmt.Printf("REQ %-40s ACCEPT method=%q host=%q uri=%q url=%+v proto=%q cl=%d hdr=%v trailer=%v\n", label, req.Method, req.Host, req.RequestURI, req.URL, req.Proto, req.ContentLength, req.Header, req.Trailer)
	}
	try("dup path empty first", hf(":method", "GET", ":scheme", "https", ":authority", "a", ":path", "", ":path", "/x"))
	try("dup method empty first", hf(":method", "", ":method", "GET", ":scheme", "https", ":authority", "a", ":path", "/x"))
	try("dup path", hf(":method", "GET", ":scheme", "https", ":authority", "a", ":path", "/y", ":path", "/x"))
	try("missing scheme", hf(":method", "GET", ":authority", "a", ":path", "/x"))
	try("connect w/ scheme", hf(":method", "CONNECT", ":authority", "a:443", ":scheme", "https"))
	try("connect w/ empty path", hf(":method", "CONNECT", ":authority", "a:443", ":path", ""))
	try("get w/ empty protocol", hf(":method", "GET", ":scheme", "https", ":authority", "a", ":path", "/x", ":protocol", ""))
	try("cl empty", hf(":method", "GET", ":scheme", "https", ":authority", "a", ":path", "/x", "content-length", ""))
	try("cl +5", hf(":method", "GET", ":scheme", "https", ":authority", "a", ":path", "/x", "content-length", "+5"))
	try("cl 0005", hf(":method", "GET", ":scheme", "https", ":authority", "a", ":path", "/x", "content-length", "0005"))
	try("method w/ space", hf(":method", "GE T", ":scheme", "https", ":authority", "a", ":path", "/x"))
	try("path absolute-URI", hf(":method", "GET", ":scheme", "https", ":authority", "a", ":path", "http://evil/x"))
	try("path *", hf(":method", "GET", ":scheme", "https", ":authority", "a", ":path", "*"))
	try("host mismatch", hf(":method", "GET", ":scheme", "https", ":authority", "a", ":path", "/", "host", "b"))
	try("authority userinfo", hf(":method", "GET", ":scheme", "https", ":authority", "u@a b/c", ":path", "/"))
	try("te trailers", hf(":method", "GET", ":scheme", "https", ":authority", "a", ":path", "/", "te", "trailers"))
	try("ext connect", hf(":method", "CONNECT", ":scheme", "https", ":authority", "a", ":path", "/ws", ":protocol", "websocket"))
	try("value w/ DEL", hf(":method", "GET", ":scheme", "https", ":authority", "a", ":path", "/", "x", "a\x7fb"))
	try("value w/ 0x80", hf(":method", "GET", ":scheme", "https", ":authority", "a", ":path", "/", "x", "a\x80b"))
	try("value w/ tab lead", hf(":method", "GET", ":scheme", "https", ":authority", "a", ":path", "/", "x", "\ta "))
	try("name w/ 0x80", hf(":method", "GET", ":scheme", "https", ":authority", "a", ":path", "/", "x\x80", "a"))
	try("pseudo value w/ NUL", hf(":method", "GET", ":scheme", "https", ":authority", "a", ":path", "/\x00"))
	try("path w/ space", hf(":method", "GET", ":scheme", "https", ":authority", "a", ":path", "/a b"))

	tryR := func(label string, f []qpack.HeaderField) {
		rsp := &http.Response{}
		err := http3.VerifUpdateResponseFromHeaders(rsp, f, 1<<20)
		if err != nil {
			fmt.Printf("RSP %-40s REJECT %v\n", label, err)
			return
		}
		fmt.Printf("RSP %-40s ACCEPT status=%q code=%d cl=%d hdr=%v trailer=%v\n", label, rsp.Status, rsp.StatusCode, rsp.ContentLength, rsp.Header, rsp.Trailer)
	}
	tryR("status +200", hf(":status", "+200"))
	tryR("status -200", hf(":status", "-200"))
	tryR("status 0200", hf(":status", "0200"))
	tryR("status 99999", hf(":status", "99999"))
	tryR("status 7", hf(":status", "7"))
	tryR("dup status empty first", hf(":status", "", ":status", "200"))
	tryR("status 200 cookie x2", hf(":status", "200", "cookie", "a", "cookie", "b"))

	// writer
	tryW := func(label string, req *http.Request, gzip bool) {
		var buf bytes.Buffer
		err := http3.VerifWriteRequestHeader(&buf, req, gzip)
		if err != nil {
			fmt.Printf("WR  %-40s writer error %v\n", label, err)
			return
		}
		b := buf.Bytes()
		// frame type 1, varint len
		if b[0] != 1 {
			t.Fatalf("not headers")
		}
		l, n := rdVarint(b[1:])
		blk := b[1+n:]
		if int(l) != len(blk) {
			t.Fatalf("len mismatch")
		}
		fn := qpack.NewDecoder().Decode(blk)
		var fields []qpack.HeaderField
		for {
			f, err := fn()
			if err == io.EOF {
				break
			}
			if err != nil {
				t.Fatal(err)
			}
			fields = append(fields, f)
		}
		r2, err := http3.VerifRequestFromHeaders(fields, 1<<20)
		fmt.Printf("WR  %-40s fields=%q parse err=%v\n", label, fields, err)
		_ = r2
	}
	u, _ := url.Parse("https://example.com/a/b?x=1")
	tryW("te gzip", &http.Request{Method: "GET", URL: u, Header: http.Header{"Te": {"gzip"}}}, true)
	tryW("te trailers", &http.Request{Method: "GET", URL: u, Header: http.Header{"Te": {"trailers"}}}, true)
	tryW("empty method", &http.Request{Method: "", URL: u, Header: http.Header{}}, true)
	tryW("connect", &http.Request{Method: "CONNECT", URL: &url.URL{Scheme: "https", Host: "example.com:443"}, Header: http.Header{}, Proto: "HTTP/1.1"}, false)
	tryW("connect proto h2", &http.Request{Method: "CONNECT", URL: u, Header: http.Header{}, Proto: "HTTP/2.0"}, false)

	// response writer
	w := http3.VerifNewResponseWriter(false, slog.New(slog.DiscardHandler))
	rw := w.Writer()
	rw.Header().Set("Connection", "close")
	rw.Header().Set("X-Foo", "bar")
	rw.Header().Set("Trailer", "X-T")
	rw.WriteHeader(200)
	rw.Write([]byte("hello"))
	rw.Header().Set("X-T", "tv")
	w.Finish()
	fmt.Printf("RW bytes %q\n", w.Bytes())
}

func rdVarint(b []byte) (uint64, int) {
	l := 1 << (b[0] >> 6)
	v := uint64(b[0] & 0x3f)
	for i := 1; i < l; i++ {
		v = v<<8 | uint64(b[i])
	}
	return v, l
}
